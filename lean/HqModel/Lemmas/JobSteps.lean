import HqModel.Lemmas.JobState
/-!
Step-level facts about the job layer used by C01, C02, C07, C08, C09, C14.
-/
namespace HqModel.Job

/-- all tasks of a job are terminal -/
def Job.allTerminal (job : Job) : Prop := ∀ p ∈ job.tasks, p.2.terminal = true

theorem lookup_mem {ts : List (Nat × TState)} {t : Nat} {a : TState} (h : lookup ts t = some a) :
    (t, a) ∈ ts := by
  induction ts with
  | nil => simp [lookup] at h
  | cons p ps ih =>
    obtain ⟨k, v⟩ := p
    by_cases hk : k = t
    · simp [lookup, hk] at h; subst hk; subst h; simp
    · simp [lookup, hk] at h; exact List.mem_cons_of_mem _ (ih h)

theorem lookup_of_mem {ts : List (Nat × TState)} {t : Nat} {a : TState} (hnd : (keys ts).Nodup)
    (h : (t, a) ∈ ts) : lookup ts t = some a := by
  induction ts with
  | nil => cases h
  | cons p ps ih =>
    obtain ⟨k, v⟩ := p
    simp only [keys, List.map_cons, List.nodup_cons] at hnd
    simp only [List.mem_cons] at h
    rcases h with h | h
    · cases h; simp [lookup]
    · have : k ≠ t := by
        intro e; subst e
        exact hnd.1 (List.mem_map.mpr ⟨(k, a), h, rfl⟩)
      simp only [lookup, this, if_false]
      exact ih hnd.2 h

/-- members of `setState ts t b` -/
theorem mem_setState {ts : List (Nat × TState)} {t : Nat} {b : TState} {p : Nat × TState}
    (h : p ∈ setState ts t b) : (p.1 = t ∧ p.2 = b) ∨ (p.1 ≠ t ∧ p ∈ ts) := by
  induction ts with
  | nil => simp [setState] at h
  | cons q qs ih =>
    obtain ⟨k, v⟩ := q
    by_cases hk : k = t
    · simp only [setState, hk, if_true, List.mem_cons] at h
      rcases h with h | h
      · subst h; exact .inl ⟨rfl, rfl⟩
      · rcases ih h with h | h
        · exact .inl h
        · exact .inr ⟨h.1, List.mem_cons_of_mem _ h.2⟩
    · simp only [setState, hk, if_false, List.mem_cons] at h
      rcases h with h | h
      · subst h; exact .inr ⟨hk, by simp⟩
      · rcases ih h with h | h
        · exact .inl h
        · exact .inr ⟨h.1, List.mem_cons_of_mem _ h.2⟩

/-! ### C01: a terminal outcome is final in the job layer -/

/-- `set_finished_state` succeeds only on a Running task -/
theorem setFinished_ok_running {job job' : Job} {t : Nat} {evs : List Ev}
    (e : job.setFinished t = .ok (job', evs)) : lookup job.tasks t = some .running := by
  unfold Job.setFinished at e
  split at e
  · cases e
  · rename_i h; exact h
  · cases e

/-- a second terminal transition of a task is refused (the Rust code panics) by every terminal setter -/
theorem terminal_is_final {job : Job} {t : Nat} {st : TState} (hl : lookup job.tasks t = some st)
    (ht : st.terminal = true) :
    (∃ e, job.setFinished t = .error e) ∧ (∃ e, job.setFailed t = .error e) ∧ (∃ e, job.setWaiting t = .error e) ∧
    (∀ target site rest, ∃ e, job.markAll target site ((job.id, t) :: rest) = .error e) ∧
    job.setRunning t = .ok job := by
  cases st <;> simp [TState.terminal] at ht <;>
    simp [Job.setFinished, Job.setFailed, Job.setWaiting, Job.markAll, Job.setRunning, hl]

/-! ### C08 / C14: everything non-terminal becomes terminal -/

theorem markAll_id (target : TState) (site : String) :
    ∀ (ids : List TaskId) (a b : Job), a.markAll target site ids = .ok b → b.id = a.id := by
  intro ids
  induction ids with
  | nil => intro a b e; simp only [Job.markAll] at e; cases e; rfl
  | cons q rest ih =>
    intro a b e
    obtain ⟨jj, tt⟩ := q
    simp only [Job.markAll] at e
    split at e
    · cases e
    · split at e
      · cases e
      · exact (ih _ _ e).trans rfl
      · exact (ih _ _ e).trans rfl
      · cases e

theorem setCancel_id {job job' : Job} {ids : List TaskId} {evs : List Ev}
    (h : job.setCancel ids = .ok (job', evs)) : job'.id = job.id := by
  unfold Job.setCancel at h
  split at h
  · cases h; rfl
  · split at h
    · cases h
    · rename_i job1 hm
      cases h
      exact (markAll_id _ _ _ _ job1 hm)


theorem markAll_all {target : TState} {site : String} (htt : target.terminal = true) :
    ∀ (ids : List TaskId) (job job' : Job), job.markAll target site ids = .ok job' →
      (∀ p ∈ job'.tasks, p.2.terminal = true ∨ (p ∈ job.tasks ∧ (job.id, p.1) ∉ ids)) := by
  intro ids
  induction ids with
  | nil =>
    intro job job' e p hp
    simp only [Job.markAll] at e; cases e
    exact .inr ⟨hp, by simp⟩
  | cons q rest ih =>
    intro job job' e p hp
    obtain ⟨j, t⟩ := q
    simp only [Job.markAll] at e
    split at e
    · cases e
    · rename_i hj
      have hj : j = job.id := by simpa using hj
      split at e
      · cases e
      all_goals first
        | cases e
        | (rcases ih _ job' e p hp with h | h
           · exact .inl h
           · rcases mem_setState h.1 with h2 | h2
             · exact .inl (by rw [h2.2]; exact htt)
             · refine .inr ⟨h2.2, ?_⟩
               simp only [List.mem_cons, not_or]
               refine ⟨?_, h.2⟩
               intro heq
               have := (Prod.mk.inj heq).2
               exact h2.1 this)

/-- after `cancel_job` every task of the job is terminal -/
theorem cancelJob_allTerminal {s s' : State} {j : Nat} {evs : List Ev} {r : CancelResp} {job' : Job}
    (h : s.cancelJob j = .ok (s', evs, r)) (hj : s'.getJob j = some job') (hs : StateWF s) :
    job'.allTerminal := by
  simp only [State.cancelJob] at h
  split at h
  · cases h; rename_i hn; rw [hn] at hj; cases hj
  · rename_i job hjob
    split at h
    · -- nothing to cancel: all tasks already terminal
      rename_i hemp
      cases h
      have e : job = job' := Option.some.inj (hjob.symm.trans hj)
      subst e
      intro p hp
      have : p.1 ∉ job.nonFinishedTaskIds := by
        rw [List.isEmpty_iff.mp hemp]; simp
      simp only [Job.nonFinishedTaskIds, List.mem_map, List.mem_filter, not_exists, not_and] at this
      by_cases ht : p.2.terminal = true
      · exact ht
      · exact absurd rfl (this p ⟨hp, by simpa using ht⟩)
    · rename_i hne
      split at h
      · cases h
      · rename_i jobc evc hc
        cases h
        -- the job stored under `j` is `jobc`
        have hid : jobc.id = job.id := by
          unfold Job.setCancel at hc
          split at hc
          · cases hc; rfl
          · split at hc
            · cases hc
            · rename_i job1 hm; cases hc
              exact (markAll_spec .canceled _ (by decide) (by decide) (by decide) (by decide) _ _ _
                (getJob_wf hs hjob).nodup (getJob_wf hs hjob).running hm).id
        have hjid := getJob_id hjob
        have hget : findJob (replaceJob s.jobs jobc) j = some jobc := by
          have : ∀ (jobs : List Job), job ∈ jobs → findJob (replaceJob jobs jobc) j = some jobc := by
            intro jobs
            induction jobs with
            | nil => intro hm; cases hm
            | cons x rest ih =>
              intro hm
              simp only [replaceJob]
              split
              · simp [findJob, hid, hjid]
              · rename_i hx
                have hx' : ¬ x.id = j := by rw [← hjid, ← hid]; exact hx
                simp only [findJob, hx', if_false]
                simp only [List.mem_cons] at hm
                rcases hm with rfl | hm
                · exact absurd hid.symm hx
                · exact ih hm
          exact this s.jobs (findJob_some hjob).1
        simp only [State.getJob, State.putJob] at hj
        have e : jobc = job' := Option.some.inj (hget.symm.trans hj)
        subst e
        -- every task is terminal: either marked now or was already terminal
        unfold Job.setCancel at hc
        split at hc
        · rename_i hemp
          simp only [List.isEmpty_iff, List.map_eq_nil_iff] at hemp
          exact absurd (by simpa using hemp) hne
        · split at hc
          · cases hc
          · rename_i job1 hm
            cases hc
            intro p hp
            rcases markAll_all (by decide) _ _ _ hm p hp with h | h
            · exact h
            · by_cases ht : p.2.terminal = true
              · exact ht
              · exfalso
                apply h.2
                simp only [List.mem_map]
                refine ⟨p.1, ?_, by rw [hjid]⟩
                simp only [Job.nonFinishedTaskIds, List.mem_map, List.mem_filter]
                exact ⟨p, ⟨h.1, by simpa using ht⟩, rfl⟩

/-- repeating a cancel changes nothing: a job whose tasks are all terminal answers `Canceled([], n)` -/
theorem cancelJob_idempotent {s : State} {j : Nat} {job : Job} (hj : s.getJob j = some job)
    (hall : job.allTerminal) : s.cancelJob j = .ok (s, [], .canceled [] job.nTasks) := by
  have : job.nonFinishedTaskIds = [] := by
    simp only [Job.nonFinishedTaskIds, List.map_eq_nil_iff, List.filter_eq_nil_iff]
    intro p hp
    simp [hall p hp]
  simp [State.cancelJob, hj, this]

/-! ### C07: worker loss in the job layer -/

/-- `set_waiting_state` turns exactly a Running task into a Waiting one (and panics otherwise) -/
theorem setWaiting_spec {job job' : Job} {t : Nat} (e : job.setWaiting t = .ok job') :
    lookup job.tasks t = some .running ∧ job'.tasks = setState job.tasks t .waiting ∧
    job'.cnt.running = job.cnt.running - 1 := by
  unfold Job.setWaiting at e
  split at e
  · cases e
  · rename_i h; cases e; exact ⟨h, rfl, rfl⟩
  · cases e

/-! ### C14 -/

/-- what `process_task_failed` hands back to the core -/
theorem taskFailed_ret {s s' : State} {t : TaskId} {cons ret : List TaskId} {evs : List Ev}
    (h : s.taskFailed t cons = .ok (s', evs, ret)) :
    ∃ job job1 ev1 job2 ev2, s.getJob t.1 = some job ∧ job.abortTasks cons = .ok (job1, ev1) ∧
      job1.setFailed t.2 = .ok (job2, ev2) ∧
      ((∃ m, job2.maxFails = some m ∧ job2.cnt.failed > m ∧
          ret = job2.nonFinishedTaskIds.map (fun x => (job2.id, x))) ∨
       ((∀ m, job2.maxFails = some m → ¬ job2.cnt.failed > m) ∧ ret = [])) := by
  simp only [State.taskFailed] at h
  split at h
  · cases h
  · rename_i job hj
    split at h
    · cases h
    · rename_i job1 ev1 ha
      split at h
      · cases h
      · rename_i job2 ev2 hf
        refine ⟨job, job1, ev1, job2, ev2, hj, ha, hf, ?_⟩
        split at h
        · rename_i m hm
          split at h
          · rename_i hgt
            split at h
            · cases h
            · cases h; exact .inl ⟨m, hm, hgt, rfl⟩
          · rename_i hle
            cases h
            refine .inr ⟨?_, rfl⟩
            intro m' hm'
            rw [hm] at hm'
            have : m = m' := Option.some.inj hm'
            subst this
            exact hle
        · rename_i hn
          cases h
          refine .inr ⟨?_, rfl⟩
          intro m' hm'
          rw [hn] at hm'
          cases hm' 

end HqModel.Job
