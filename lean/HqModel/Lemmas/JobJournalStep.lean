import HqModel.Lemmas.JobJournalOps
import HqModel.Lemmas.JobJournalSubmit
/-!
# Every operation of the job layer writes an allowed, failure-closed piece of journal

`step_leads`: from `Inv s A` and the side condition `EmitOk s A op`, a successful `step s op = (s', evs)` writes
records that are allowed one after the other, keep `DepOk` at every record boundary, and `Inv s' A'` holds for the
new meaning `A'`. `journalFrom_good`: the same for whole runs.
-/
namespace HqModel.Emit
open HqModel.Job HqModel.Journal

theorem mem_nonFinished {job : Job} {t : Nat} {x : Job.TState} (hl : lookup job.tasks t = some x)
    (hnt : x.terminal = false) : t ∈ job.nonFinishedTaskIds := by
  unfold Job.nonFinishedTaskIds
  exact List.mem_map.mpr ⟨(t, x), List.mem_filter.mpr ⟨lookup_mem hl, by simp [hnt]⟩, rfl⟩

/-- a batch that contains every task without outcome is closed under dependents -/
theorem closure_all {s : State} {A : AState} {j : Nat} {job : Job} (jid : Nat) (hjid : jid = j) (h : Inv s A)
    (hg : s.getJob j = some job) :
    ∀ aj, alGet A.jobs j = some aj → ∀ a ∈ aj.tasks, a.st = .waiting →
      (j, a.id) ∉ job.nonFinishedTaskIds.map (fun t => ((jid, t) : TaskId)) →
      ∀ d ∈ a.deps, (j, d) ∉ job.nonFinishedTaskIds.map (fun t => ((jid, t) : TaskId)) := by
  subst hjid
  intro aj haj a ha hwa hm
  exfalso
  have hs : JSim job aj := by have := h.sim jid job hg; rwa [haj] at this
  obtain ⟨x, hx, hnt⟩ := hs.waiting ha hwa
  exact hm (List.mem_map.mpr ⟨a.id, mem_nonFinished hx hnt, rfl⟩)

/-! ### worker loss -/

theorem setWaiting_spec' {job job' : Job} {t : Nat} (e : job.setWaiting t = .ok job') :
    lookup job.tasks t = some .running ∧ job'.id = job.id ∧ job'.isOpen = job.isOpen ∧
      keys job'.tasks = keys job.tasks ∧
      (∀ k, lookup job'.tasks k = if k = t then some .waiting else lookup job.tasks k) := by
  unfold Job.setWaiting at e
  split at e
  · cases e
  · rename_i hl
    cases e
    refine ⟨hl, rfl, rfl, keys_setState _ _ _, ?_⟩
    intro k; simp only [lookup_setState, hl]; rfl
  · cases e

theorem setWaitingAll_inv : ∀ (ts : List TaskId) {s s' : State} {A : AState}, Inv s A →
    s.setWaitingAll ts = .ok s' → Inv s' A
  | [], s, s', A, h, e => by simp only [State.setWaitingAll] at e; cases e; exact h
  | t :: rest, s, s', A, h, e => by
    simp only [State.setWaitingAll] at e
    split at e
    · cases e
    · rename_i job hg
      split at e
      · cases e
      · rename_i job' hw
        obtain ⟨hx, hid, hop, hk, hl⟩ := setWaiting_spec' hw
        have hjid := getJob_id hg
        obtain ⟨aj, haj, hs⟩ := h.live hg (.inr ⟨t.2, .running, hx, rfl⟩)
        refine setWaitingAll_inv rest (h.putSame hg (hid.trans hjid) ((getJob_wf h.wf hg).setWaiting hw) ?_) e
        rw [haj]
        refine ⟨hs.isOpen.trans hop.symm, hs.ids.trans hk.symm, ?_⟩
        intro a ha
        obtain ⟨x, hx', hst, hin⟩ := hs.st a ha
        rw [hl]
        by_cases hk' : a.id = t.2
        · rw [hk', hx] at hx'
          cases hx'
          exact ⟨.waiting, by simp [hk'], hst, fun e => by cases e⟩
        · exact ⟨x, by simp [hk', hx'], hst, hin⟩

theorem lose_fields' (w : Nat) (b : Bool) (a : ATask) :
    (a.lose w b).id = a.id ∧ (a.lose w b).deps = a.deps ∧ (a.lose w b).st = a.st ∧ (a.lose w b).inst = a.inst := by
  unfold ATask.lose
  split
  · split <;> simp
  · simp

/-- the `WorkerLost` record touches neither ids, outcomes, instance ids nor dependencies -/
theorem Inv.lose {s : State} {A : AState} (h : Inv s A) (w : Nat) (b : Bool) (ws : List Nat) :
    Inv s { A with jobs := alMap (fun j => { j with tasks := j.tasks.map (ATask.lose w b) }) A.jobs, workers := ws } := by
  have hf : (fun (j : AJob) => ({ j with tasks := j.tasks.map (ATask.lose w b) } : AJob)) =
      fun j => mapTasks j (ATask.lose w b) := rfl
  rw [hf]
  refine ⟨h.wf, ?_, ?_, ?_⟩
  · intro ja hja
    obtain ⟨y, hy, rfl⟩ := mem_alMap (f := fun j => mapTasks j (ATask.lose w b)) (l := A.jobs) hja
    exact h.below y hy
  · intro j job hg
    simp only [alGet_map]
    have := h.sim j job hg
    cases haj : alGet A.jobs j with
    | none => rw [haj] at this; exact this
    | some aj =>
      rw [haj] at this
      simp only [Option.map_some]
      refine JSim.map this _ (fun a => (lose_fields' w b a).1) rfl rfl ?_
      intro a _ x hx hst hin
      exact ⟨x, hx, by rw [(lose_fields' w b a).2.2.1]; exact hst, by rw [(lose_fields' w b a).2.2.2]; exact hin⟩
  · intro ja hja
    obtain ⟨y, hy, rfl⟩ := mem_alMap (f := fun j => mapTasks j (ATask.lose w b)) (l := A.jobs) hja
    exact (h.dep y hy).map_same _ (fun a => (lose_fields' w b a).1) (fun a => (lose_fields' w b a).2.1)
      (fun a => (lose_fields' w b a).2.2.1)

/-! ### submit -/

theorem fillIdsOpen_graph {job : Job} {d : Job.TaskDesc} {g : List (Nat × List Nat)}
    (h : fillIdsOpen job d = .graph g) : d = .graph g := by
  cases d with
  | graph g' => simpa [fillIdsOpen] using h
  | array ids entries =>
    simp only [fillIdsOpen] at h
    split at h
    · split at h <;> cases h
    · cases h

theorem fillIdsNew_graph {d : Job.TaskDesc} {g : List (Nat × List Nat)}
    (h : fillIdsNew d = .graph g) : d = .graph g := by
  cases d with
  | graph g' => simpa [fillIdsNew] using h
  | array ids entries =>
    simp only [fillIdsNew] at h
    split at h
    · split at h <;> cases h
    · cases h

theorem submit_open_leads {s : State} {A : AState} {j : Nat} {mf : Option Nat} {d : Job.TaskDesc} {job job' : Job}
    (h : Inv s A) (hg : s.getJob j = some job) (hop : job.isOpen = true)
    (hshape : arrayShapeOk d = true)
    (hv : Job.validateSubmit (some job) d = none) (hbd : badDep job d = none)
    (ha : job.attach (fillIdsOpen job d).jobIds = .ok job') :
    Leads A [.submit j false mf (descOf (fillIdsOpen job d))] (s.putJob job') := by
  have hjid := getJob_id hg
  obtain ⟨aj, haj, hs⟩ := h.live hg (.inl hop)
  have hw' : JobWF job' := JobWF.attach _ (getJob_wf h.wf hg) ha
  refine Leads.one h ?_ ?_
  · simp only [recordOk, haj, hs.isOpen, hop, Bool.true_and, Bool.false_eq_true, if_false]
    rw [hs.ids]
    refine submitOk_of_attach (some job) _ ?_ (fillIdsOpen_shape job hshape) ?_ ha
    · intro x hx
      simp only [jobHas, Option.isSome_iff_exists] at hx
      obtain ⟨v, hv'⟩ := hx
      exact mem_keys_of_lookup hv'
    · intro g hg'
      have := fillIdsOpen_graph hg'
      subst this
      exact validateSubmit_graph hv
  · have e : meaningStep A (.submit j false mf (descOf (fillIdsOpen job d))) =
        { A with jobs := alSet A.jobs j { aj with tasks := aj.tasks ++ (descOf (fillIdsOpen job d)).specTasks,
                                                   nSubmits := aj.nSubmits + 1 } } := by
      simp [meaningStep, haj]
    rw [e]
    refine h.put hg ((attach_id _ ha).trans hjid) hw' (by simp [haj]) (hs.attach _ _ ha) ?_
    refine (h.dep _ (alGet_mem haj)).attach _ _ (fun a ha' => (specTasks_new ha').1) ?_
    intro a ha' x hx b hb
    obtain ⟨g, hg', p, hp, hxp⟩ := specTasks_deps ha' hx
    have := fillIdsOpen_graph hg'
    subst this
    obtain ⟨hbm, hbid⟩ := find_mem hb
    obtain ⟨st, hst, hbs, -⟩ := hs.st b hbm
    rw [hbid] at hst
    rw [hbs]
    exact badDep_none hbd p hp x hxp st hst

theorem submit_new_leads {s : State} {A : AState} {mf : Option Nat} {d : Job.TaskDesc} {job' : Job}
    (h : Inv s A) (hshape : arrayShapeOk d = true) (hv : Job.validateSubmit none d = none)
    (ha : ({ id := s.jobCtr, isOpen := false, maxFails := mf } : Job).attach (fillIdsNew d).jobIds = .ok job')
    (l : List TaskId) :
    Leads A [.submit s.jobCtr true mf (descOf (fillIdsNew d))]
      { s with jobs := s.jobs ++ [job'], jobCtr := s.jobCtr + 1, sent := l } := by
  have hw' : JobWF job' := JobWF.attach _ (emptyJob_wf s.jobCtr false mf) ha
  have hs0 : JSim { id := s.jobCtr, isOpen := false, maxFails := mf } ⟨false, mf, [], 0⟩ :=
    ⟨rfl, rfl, fun a ha => by cases ha⟩
  have hd0 : JDep ⟨false, mf, [], 0⟩ := fun a ha => by cases ha
  refine Leads.one h ?_ ?_
  · simp only [recordOk, h.fresh, Option.isNone_none, Bool.true_and, if_true]
    refine submitOk_of_attach (job := { id := s.jobCtr, isOpen := false, maxFails := mf }) none _ ?_
      (fillIdsNew_shape hshape) ?_ ha
    · intro x hx; simp [jobHas] at hx
    · intro g hg'
      have := fillIdsNew_graph hg'
      subst this
      exact validateSubmit_graph hv
  · have e : meaningStep A (.submit s.jobCtr true mf (descOf (fillIdsNew d))) =
        { A with jobs := alSet A.jobs s.jobCtr ⟨false, mf, (descOf (fillIdsNew d)).specTasks, 1⟩,
                 maxJob := max A.maxJob s.jobCtr } := by
      simp [meaningStep]
    rw [e]
    refine h.add (attach_id _ ha) hw' ?_ ?_ l _
    · simpa using hs0.attach (fillIdsNew d) 1 ha
    · have := hd0.attach (descOf (fillIdsNew d)).specTasks 1 (fun a ha' => (specTasks_new ha').1)
        (fun a _ x _ b hb => by simp [AJob.find] at hb)
      simpa using this

/-! ### task failure: abort of the consumers, the failure, the max-fails abort -/

theorem taskFailed_leads {s s' : State} {A : AState} {t : TaskId} {cons ret : List TaskId} {evs : List Ev}
    (op : Op) (h : Inv s A) (hok : consumersClosed A t cons = true)
    (e : s.taskFailed t cons = .ok (s', evs, ret)) : Leads A (evs.flatMap (recOfEv s op)) s' := by
  obtain ⟨tj, tk⟩ := t
  simp only [State.taskFailed] at e
  split at e
  · cases e
  · rename_i job hg
    have hjid := getJob_id hg
    split at e
    · cases e
    · rename_i job1 ev1 ha
      have id1 := abortTasks_id ha
      split at e
      · cases e
      · rename_i job2 ev2 hf
        obtain ⟨x, hx, hnt, id2, -, -, -, -, -⟩ := setFailed_spec hf
        -- what the side condition says
        have hcl : ∀ aj, alGet A.jobs tj = some aj → ∀ a ∈ aj.tasks, a.st = .waiting → (tj, a.id) ∉ cons →
            ∀ d ∈ a.deps, d ≠ tk ∧ (tj, d) ∉ cons := by
          intro aj haj a ha' hwa hm d hd
          simp only [consumersClosed, haj, List.all_eq_true, Bool.or_eq_true, bne_iff_ne, ne_eq,
            List.contains_eq_mem, decide_eq_true_eq, Bool.and_eq_true, Bool.not_eq_true', decide_eq_false_iff_not] at hok
          rcases hok a ha' with (h1 | h1) | h1
          · exact absurd hwa h1
          · exact absurd h1 hm
          · exact h1 d hd
        obtain ⟨L1, hsub⟩ := abort_leads s op h hg ha
          (fun aj haj a ha' hwa hm d hd => (hcl aj haj a ha' hwa hm d hd).2)
        have hg1 : (s.putJob job1).getJob tj = some job1 := getJob_putJob_self hg (id1.trans hjid)
        have L2 := failed_leads s op L1.2 hg1 hf (by
          intro aj1 haj1 a1 ha1 hw1 _ hmem
          obtain ⟨aj, haj, hall⟩ := hsub aj1 haj1
          obtain ⟨a, ha', _, hdeps, hwa, hnc⟩ := hall a1 ha1 hw1
          exact (hcl aj haj a ha' hwa hnc tk (hdeps ▸ hmem)).1 rfl)
        have hrep : (s.putJob job2).jobs = ((s.putJob job1).putJob job2).jobs :=
          (replaceJob_replaceJob _ _ _ id2.symm).symm
        have hid2 : job2.id = tj := (id2.trans id1).trans hjid
        have hg2 : ∀ l, ({ s.putJob job2 with sent := l } : State).getJob tj = some job2 :=
          fun l => getJob_putJob_self hg hid2
        have L12 : ∀ l, Leads A (ev1.flatMap (recOfEv s op) ++ ev2.flatMap (recOfEv s op))
            { s.putJob job2 with sent := l } := fun l => (Leads.append L1 L2).congr hrep rfl
        split at e
        · split at e
          · split at e
            · cases e
            · rename_i job3 ev3 ha3
              cases e
              have L12' := L12 (removeAll s.sent ((tj, tk) :: cons))
              obtain ⟨L3, -⟩ := abort_leads s op L12'.2 (hg2 _) ha3 (closure_all job2.id hid2 L12'.2 (hg2 _))
              simp only [List.flatMap_append]
              exact (Leads.append L12' L3).congr rfl rfl
          · cases e
            simp only [List.flatMap_append]
            exact L12 _
        · cases e
          simp only [List.flatMap_append]
          exact L12 _

/-! ### one operation -/

theorem step_leads {s s' : State} {A : AState} {op : Op} {evs : List Ev} (h : Inv s A)
    (hok : emitOkB s A op = true) (e : step s op = .ok (s', evs)) : Leads A (recordsOf s op evs) s' := by
  unfold recordsOf
  cases op with
  | openJob mf =>
    simp only [step, State.openJob] at e
    split at e
    · cases e
    · simp only [Except.map] at e
      cases e
      have e1 : List.flatMap (recOfEv s (.openJob mf)) [Ev.jobOpen s.jobCtr] = [.jobOpen s.jobCtr mf] := by
        simp [recOfEv]
      rw [e1]
      refine Leads.one h (by simp [recordOk, h.fresh]) ?_
      exact h.add (job := { id := s.jobCtr, isOpen := true, maxFails := mf }) (aj := ⟨true, mf, [], 0⟩) rfl
        (emptyJob_wf _ _ _) ⟨rfl, rfl, fun a ha => by cases ha⟩ (fun a ha => by cases ha) s.sent _
  | submit j mf d =>
    have hshape : arrayShapeOk d = true := hok
    simp only [step, State.submit] at e
    split at e
    · simp only [Except.map] at e; cases e; simpa using Leads.nil h
    · rename_i hv
      split at e
      · rename_i jid
        split at e
        · simp only [Except.map] at e; cases e; simpa using Leads.nil h
        · rename_i job hg
          split at e
          · simp only [Except.map] at e; cases e; simpa using Leads.nil h
          · rename_i hopen
            split at e
            · simp only [Except.map] at e; cases e; simpa using Leads.nil h
            · rename_i hbd
              split at e
              · simp only [Except.map] at e; cases e
              · rename_i job' ha
                simp only [Except.map] at e
                cases e
                have hop : job.isOpen = true := by simpa using hopen
                have hv' : Job.validateSubmit (some job) d = none := by
                  simpa [hg] using hv
                have e1 : List.flatMap (recOfEv s (.submit (some jid) mf d)) [Ev.submit jid false] =
                    [.submit jid false mf (descOf (fillIdsOpen job d))] := by
                  simp [recOfEv, filledDesc, hg]
                rw [e1]
                exact (submit_open_leads h hg hop hshape hv' hbd ha).congr rfl rfl
      · split at e
        · simp only [Except.map] at e; cases e
        · split at e
          · simp only [Except.map] at e; cases e
          · rename_i job' ha
            simp only [Except.map] at e
            cases e
            have hv' : Job.validateSubmit none d = none := by simpa using hv
            have e1 : List.flatMap (recOfEv s (.submit none mf d)) [Ev.submit s.jobCtr true] =
                [.submit s.jobCtr true mf (descOf (fillIdsNew d))] := by
              simp [recOfEv, filledDesc]
            rw [e1]
            exact submit_new_leads h hshape hv' ha _
  | close j =>
    simp only [step, State.closeJob] at e
    split at e
    · cases e; simpa using Leads.nil h
    · rename_i job hg
      split at e
      · rename_i hop
        cases e
        have hjid := getJob_id hg
        have w := getJob_wf h.wf hg
        obtain ⟨aj, haj, hs⟩ := h.live hg (.inl hop)
        have hw' : JobWF { job with isOpen := false } := ⟨w.nodup, w.running, w.finished, w.failed, w.canceled, w.aborted⟩
        have hinv : Inv (s.putJob { job with isOpen := false }) (meaningStep A (.jobClose j)) := by
          have e2 : meaningStep A (.jobClose j) = { A with jobs := alSet A.jobs j { aj with isOpen := false } } := by
            simp [meaningStep, haj]
          rw [e2]
          exact h.put hg hjid hw' (by simp [haj]) ⟨rfl, hs.ids, hs.st⟩ (h.dep _ (alGet_mem haj))
        have hsome : (alGet (meaningStep A (.jobClose j)).jobs j).isSome = true := by
          simp [meaningStep, haj, alGet_set_self]
        rw [List.flatMap_append]
        have e1 : List.flatMap (recOfEv s (.close j)) [Ev.jobClose j] = [.jobClose j] := by simp [recOfEv]
        rw [e1]
        refine Leads.append (Leads.one h ?_ hinv) (tail_leads s (.close j) hinv (getJob_putJob_self hg hjid) hsome)
        simp [recordOk, haj, hs.isOpen, hop]
      · cases e; simpa using Leads.nil h
  | cancel j =>
    simp only [step, State.cancelJob] at e
    split at e
    · simp only [Except.map] at e; cases e; simpa using Leads.nil h
    · rename_i job hg
      split at e
      · simp only [Except.map] at e; cases e; simpa using Leads.nil h
      · split at e
        · simp only [Except.map] at e; cases e
        · rename_i job' evs' hc
          simp only [Except.map] at e
          cases e
          exact (cancel_leads s (.cancel j) h hg hc (closure_all j rfl h hg)).congr rfl rfl
  | forget j allowed =>
    simp only [step, State.forgetJob] at e
    split at e
    · simp only [Except.map] at e; cases e; simpa using Leads.nil h
    · split at e
      · simp only [Except.map] at e; cases e; simpa using Leads.nil h
      · split at e
        · simp only [Except.map] at e; cases e
        · split at e
          · simp only [Except.map] at e
            cases e
            simpa using Leads.nil (h.forget j)
          · simp only [Except.map] at e; cases e; simpa using Leads.nil h
  | started t i ws rv =>
    obtain ⟨tj, tk⟩ := t
    simp only [step, State.taskStarted] at e
    split at e
    · cases e
    · rename_i job hg
      split at e
      · cases e
      · rename_i job' hr
        cases e
        simp only [emitOkB, Bool.and_eq_true] at hok
        obtain ⟨⟨h1, h2⟩, h3⟩ := hok
        have e1 : List.flatMap (recOfEv s (.started (tj, tk) i ws rv)) [Ev.started (tj, tk) i ws rv] =
            [.taskStarted tj tk i ws] := by simp [recOfEv]
        rw [e1]
        refine started_leads h hg hr ?_ h2 h3
        intro x hx
        simp only [notLate, hg, hx] at h1
        simpa using h1
  | finished t =>
    simp only [step, State.taskFinished] at e
    split at e
    · cases e
    · rename_i job hg
      split at e
      · cases e
      · rename_i job' evs' hr
        cases e
        exact (finished_leads s (.finished t) h hg hr).congr rfl rfl
  | failed t cons =>
    simp only [step] at e
    cases hr : s.taskFailed t cons with
    | error x => rw [hr] at e; cases e
    | ok r =>
      rw [hr] at e
      obtain ⟨s1, evs1, ret⟩ := r
      simp only [Except.map] at e
      cases e
      exact taskFailed_leads (.failed t cons) h hok hr
  | workerNew w =>
    simp only [step, State.workerNew] at e
    split at e
    · cases e
    · cases e
      have e1 : List.flatMap (recOfEv s (.workerNew w)) [Ev.workerNew w] = [.workerConnected w none] := by
        simp [recOfEv]
      rw [e1]
      refine Leads.one h (by simpa [recordOk, emitOkB] using hok) ?_
      exact h.congr rfl rfl rfl
  | workerLost w running reason =>
    simp only [step, State.workerLost] at e
    split at e
    · cases e
    · rename_i s1 hs1
      split at e
      · cases e
      · cases e
        have e1 : List.flatMap (recOfEv s (.workerLost w running reason)) [Ev.workerLost w reason] =
            [.workerLost w (reasonOf reason)] := by simp [recOfEv]
        rw [e1]
        have h1 := setWaitingAll_inv running h hs1
        refine Leads.one h (by simpa [recordOk, emitOkB] using hok) ?_
        exact h1.lose w _ _

/-! ### whole runs -/

theorem journalFrom_good : ∀ (ops : List Op) {s : State} {A : AState}, Inv s A → emitOkFrom s A ops = true →
    goodFrom A (journalFrom s ops)
  | [], _, _, h, _ => h.dep
  | op :: ops, s, A, h, hok => by
    simp only [emitOkFrom, Bool.and_eq_true] at hok
    simp only [journalFrom]
    cases hs : step s op with
    | error x => exact h.dep
    | ok r =>
      obtain ⟨s', evs⟩ := r
      rw [hs] at hok
      have L := step_leads h hok.1 hs
      exact (goodFrom_append _ _ _).mpr ⟨L.1, journalFrom_good ops L.2 hok.2⟩

/-- a run that does not panic: the invariant holds between its final state and the meaning of its whole journal -/
theorem run_inv : ∀ (ops : List Op) {s s' : State} {A : AState} {evs : List Ev}, Inv s A →
    emitOkFrom s A ops = true → run s ops = .ok (s', evs) → Inv s' ((journalFrom s ops).foldl meaningStep A)
  | [], s, s', A, evs, h, _, hr => by
    simp only [run] at hr; cases hr; exact h
  | op :: ops, s, s', A, evs, h, hok, hr => by
    simp only [emitOkFrom, Bool.and_eq_true] at hok
    simp only [run] at hr
    simp only [journalFrom]
    cases hs : step s op with
    | error x => rw [hs] at hr; cases hr
    | ok r =>
      obtain ⟨s1, ev1⟩ := r
      rw [hs] at hok hr
      simp only at hr
      cases hr2 : run s1 ops with
      | error x => rw [hr2] at hr; cases hr
      | ok r2 =>
        obtain ⟨s2, ev2⟩ := r2
        rw [hr2] at hr
        simp only [Except.ok.injEq, Prod.mk.injEq] at hr
        obtain ⟨rfl, -⟩ := hr
        have L := step_leads h hok.1 hs
        rw [List.foldl_append]
        exact run_inv ops L.2 hok.2 hr2

/-- a run that does not panic writes the journal of its first part followed by the journal of the rest -/
theorem journalFrom_append : ∀ (ops1 ops2 : List Op) {s s1 : State} {evs : List Ev}, run s ops1 = .ok (s1, evs) →
    journalFrom s (ops1 ++ ops2) = journalFrom s ops1 ++ journalFrom s1 ops2
  | [], ops2, s, s1, evs, hr => by simp only [run] at hr; cases hr; rfl
  | op :: ops1, ops2, s, s1, evs, hr => by
    simp only [run] at hr
    simp only [List.cons_append, journalFrom]
    cases hs : step s op with
    | error x => rw [hs] at hr; cases hr
    | ok r =>
      obtain ⟨sa, eva⟩ := r
      rw [hs] at hr
      simp only at hr ⊢
      cases hr2 : run sa ops1 with
      | error x => rw [hr2] at hr; cases hr
      | ok r2 =>
        obtain ⟨sb, evb⟩ := r2
        rw [hr2] at hr
        simp only [Except.ok.injEq, Prod.mk.injEq] at hr
        obtain ⟨rfl, -⟩ := hr
        rw [journalFrom_append ops1 ops2 hr2, List.append_assoc]

theorem emitFails_nil_iff (s : State) (A : AState) (op : Op) : emitFails s A op = [] ↔ EmitOk s A op := by
  unfold EmitOk
  cases op with
  | started t i ws rv =>
    simp only [emitFails, emitOkB, Bool.and_eq_true, List.append_eq_nil_iff]
    constructor
    · rintro ⟨⟨h1, h2⟩, h3⟩
      refine ⟨⟨?_, ?_⟩, ?_⟩
      · by_cases h : notLate s t = true
        · exact h
        · simp [h] at h1
      · by_cases h : instFresh A t i = true
        · exact h
        · simp [h] at h2
      · by_cases h : (ws.all fun w => decide (w ≤ A.maxWorker)) = true
        · exact h
        · simp [h] at h3
    · rintro ⟨⟨h1, h2⟩, h3⟩
      simp [h1, h2, h3]
  | failed t cons =>
    simp only [emitFails, emitOkB]
    by_cases h : consumersClosed A t cons = true <;> simp [h]
  | workerNew w =>
    simp only [emitFails, emitOkB]
    by_cases h : decide (A.maxWorker < w) = true <;> simp [h]
  | workerLost w r reason =>
    simp only [emitFails, emitOkB]
    cases A.workers.contains w <;> simp
  | submit j mf d =>
    simp only [emitFails, emitOkB]
    by_cases h : arrayShapeOk d = true <;> simp [h]
  | openJob _ => simp [emitFails, emitOkB]
  | close _ => simp [emitFails, emitOkB]
  | cancel _ => simp [emitFails, emitOkB]
  | forget _ _ => simp [emitFails, emitOkB]
  | finished _ => simp [emitFails, emitOkB]

end HqModel.Emit
