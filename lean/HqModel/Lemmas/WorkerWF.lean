import HqModel.Lemmas.WorkerLaunch
/-!
The structural invariant `WWF` of the worker (C09, worker side) and "no panic under the server contract":
every `unwrap`/`assert!`/index on the modelled paths is guarded by `WWF` plus the contract on the message
being processed.
-/
namespace HqModel.Worker

structure WWF (s : State) : Prop where
  /-- running tasks use registered classes and variants -/
  runRq : ∀ r ∈ s.running, ∃ vs, s.rqs[r.task.rq]? = some vs ∧ r.rv < vs.length
  /-- a task waits in the backlog of its own class -/
  blRq : ∀ rq, ∀ x ∈ s.backlog rq, x.rq = rq
  /-- the keys of `prefilled_tasks` are registered classes -/
  keyRq : ∀ rq ∈ s.bkeys, ∃ vs, s.rqs[rq]? = some vs
  /-- a non-empty backlog has its key -/
  keys : ∀ rq, s.backlog rq ≠ [] → rq ∈ s.bkeys
  /-- no id is running and waiting at once -/
  disj : ∀ r ∈ s.running, NoBacklog r.task.id s
  /-- no id waits twice -/
  blNodup : ∀ rq, ((s.backlog rq).map (·.id)).Nodup
  blCross : ∀ rq1 rq2 x1 x2, x1 ∈ s.backlog rq1 → x2 ∈ s.backlog rq2 → x1.id = x2.id → rq1 = rq2

def NoPanic {α : Type} (r : Except Stop α) : Prop := ∀ site, r ≠ .error (.panic site)

theorem NoPanic.ok {α : Type} (x : α) : NoPanic (Except.ok x : Except Stop α) := by
  intro site h; cases h

/-- `t` is neither running nor waiting -/
def Fresh (t : Nat) (s : State) : Prop := (∀ r ∈ s.running, r.task.id ≠ t) ∧ NoBacklog t s

/-- Everything that only removes waiting tasks / running tasks or flips flags of running tasks keeps `WWF`. -/
theorem WWF.shrink {s s' : State} (h : WWF s)
    (hbl : ∀ rq, (s'.backlog rq).Sublist (s.backlog rq))
    (hrun : ∀ r' ∈ s'.running, ∃ r ∈ s.running, r'.task = r.task ∧ r'.rv = r.rv)
    (hrqs : s'.rqs = s.rqs)
    (hkeys : ∀ rq, s'.backlog rq ≠ [] → rq ∈ s'.bkeys)
    (hksub : ∀ rq ∈ s'.bkeys, rq ∈ s.bkeys) : WWF s' where
  runRq := by
    intro r' hr'
    obtain ⟨r, hr, ht, hv⟩ := hrun r' hr'
    rw [hrqs, ht, hv]; exact h.runRq r hr
  blRq := fun rq x hx => h.blRq rq x ((hbl rq).subset hx)
  keyRq := by intro rq hrq; rw [hrqs]; exact h.keyRq rq (hksub rq hrq)
  keys := hkeys
  disj := by
    intro r' hr' rq x hx
    obtain ⟨r, hr, ht, _⟩ := hrun r' hr'
    rw [ht]; exact h.disj r hr rq x ((hbl rq).subset hx)
  blNodup := fun rq => (h.blNodup rq).sublist ((hbl rq).map _)
  blCross := fun rq1 rq2 x1 x2 h1 h2 => h.blCross rq1 rq2 x1 x2 ((hbl rq1).subset h1) ((hbl rq2).subset h2)

theorem sublist_setBacklog {s : State} {rq : Nat} {l : List Task} (hl : l.Sublist (s.backlog rq)) :
    ∀ r, ((setBacklog s rq l).backlog r).Sublist (s.backlog r) := by
  intro r
  rw [setBacklog_backlog]
  split
  · rename_i h; subst h; exact hl
  · exact List.Sublist.refl _

/-- popping / clearing the backlog of one class -/
theorem WWF.set_backlog {s : State} (h : WWF s) {rq : Nat} {l : List Task} (hl : l.Sublist (s.backlog rq)) :
    WWF (setBacklog s rq l) :=
  h.shrink (sublist_setBacklog hl) (fun r hr => ⟨r, hr, rfl, rfl⟩) rfl
    (by
      intro r hr
      rw [setBacklog_backlog] at hr
      split at hr
      · rename_i heq; subst heq
        apply h.keys
        intro hnil
        rw [hnil] at hl
        exact hr (List.sublist_nil.mp hl)
      · exact h.keys r hr)
    (fun _ hr => hr)

theorem tryStart_noPanic {a : Acc} {x : Task} {rv h : Nat} {p : Bool}
    (hm : ∃ mt, minTime a.s x.rq rv = .ok mt) (hr : ∀ r ∈ a.s.running, r.task.id ≠ x.id) :
    NoPanic (tryStart a x rv p h) := by
  intro site hs
  rcases tryStart_error hs with he | ⟨_, hrun⟩
  · obtain ⟨mt, hmt⟩ := hm
    rw [hmt] at he; cases he
  · rw [← Bool.not_eq_false, isRunning_false_iff] at hrun
    exact hrun hr

theorem tryStart_WWF {a a' : Acc} {x : Task} {rv h : Nat} {p c : Bool}
    (hw : WWF a.s) (hf : Fresh x.id a.s) (hs : tryStart a x rv p h = .ok (a', c)) :
    WWF a'.s ∧ a'.s.backlog = a.s.backlog ∧ a'.s.rqs = a.s.rqs ∧ a'.s.bkeys = a.s.bkeys ∧
      (∀ t, t ≠ x.id → (∀ r ∈ a.s.running, r.task.id ≠ t) → ∀ r ∈ a'.s.running, r.task.id ≠ t) := by
  obtain ⟨hm, hc⟩ := tryStart_cases hs
  rcases hc with ⟨_, h1, _⟩ | ⟨_, h1, _⟩ | ⟨_, _, h1, _⟩
  · rw [h1]; exact ⟨hw, rfl, rfl, rfl, fun _ _ h => h⟩
  · rw [h1]; exact ⟨hw, rfl, rfl, rfl, fun _ _ h => h⟩
  · rw [h1]
    refine ⟨?_, rfl, rfl, rfl, ?_⟩
    · exact
        { runRq := by
            intro r hr
            simp only [started, List.mem_append, List.mem_singleton] at hr
            rcases hr with hr | rfl
            · exact hw.runRq r hr
            · exact minTime_ok_iff.mp hm
          blRq := hw.blRq
          keyRq := hw.keyRq
          keys := hw.keys
          disj := by
            intro r hr
            simp only [started, List.mem_append, List.mem_singleton] at hr
            rcases hr with hr | rfl
            · exact hw.disj r hr
            · exact hf.2
          blNodup := hw.blNodup
          blCross := hw.blCross }
    · intro t ht hrun r hr
      simp only [started, List.mem_append, List.mem_singleton] at hr
      rcases hr with hr | rfl
      · exact hrun r hr
      · exact fun h => ht h.symm

/-- the head of a backlog is fresh once it is popped -/
theorem WWF.pop_fresh {s : State} (h : WWF s) {rq : Nat} {x : Task} {rest : List Task}
    (hb : s.backlog rq = x :: rest) : Fresh x.id (setBacklog s rq rest) := by
  have hx : x ∈ s.backlog rq := by rw [hb]; exact List.mem_cons_self
  refine ⟨?_, ?_⟩
  · intro r hr heq
    exact h.disj r hr rq x hx heq.symm
  · intro r y hy
    rw [setBacklog_backlog] at hy
    split at hy
    · rename_i heq; subst heq
      have hn := h.blNodup r
      rw [hb] at hn
      simp only [List.map_cons, List.nodup_cons, List.mem_map] at hn
      intro heq
      exact hn.1 ⟨y, hy, heq⟩
    · rename_i hne
      intro heq
      exact hne (h.blCross r rq y x hy hx heq)

theorem prefillLoop_WWF {rq rv h : Nat} : ∀ (bl : List Task) {a : Acc},
    WWF a.s → a.s.backlog rq = bl → (∃ vs, a.s.rqs[rq]? = some vs ∧ rv < vs.length) →
    NoPanic (prefillLoop rq rv h bl a) ∧
    ∀ a' c, prefillLoop rq rv h bl a = .ok (a', c) →
      WWF a'.s ∧ a'.s.rqs = a.s.rqs ∧
      (∀ t, (∀ r ∈ a.s.running, r.task.id ≠ t) → NoBacklog t a.s → Fresh t a'.s)
  | [], a, hw, hb, _ => by
    refine ⟨by simp only [prefillLoop]; exact NoPanic.ok _, ?_⟩
    intro a' c hs
    simp only [prefillLoop] at hs
    cases hs
    refine ⟨?_, rfl, ?_⟩
    · have := hw.set_backlog (rq := rq) (l := []) (List.nil_sublist _)
      exact this.shrink (fun _ => List.Sublist.refl _) (fun r hr => ⟨r, hr, rfl, rfl⟩) rfl this.keys
        (fun _ hr => hr)
    · intro t hr hn
      exact ⟨hr, fun r y hy => (hn.setBacklog rq (l := []) (by simp)) r y hy⟩
  | x :: rest, a, hw, hb, hrq => by
    have hsub : rest.Sublist (a.s.backlog rq) := by rw [hb]; exact List.sublist_cons_self x rest
    have hw1 : WWF (setBacklog a.s rq rest) := hw.set_backlog hsub
    have hf1 : Fresh x.id (setBacklog a.s rq rest) := hw.pop_fresh hb
    have hxrq : x.rq = rq := hw.blRq rq x (by rw [hb]; exact List.mem_cons_self)
    have hm : ∃ mt, minTime (setBacklog a.s rq rest) x.rq rv = .ok mt := by
      rw [hxrq]; exact minTime_ok_iff.mpr hrq
    have hnp := tryStart_noPanic (a := { a with s := setBacklog a.s rq rest }) (p := true) (h := h) hm hf1.1
    refine ⟨?_, ?_⟩
    · intro site hs
      simp only [prefillLoop] at hs
      split at hs
      · rename_i e he
        cases hs
        exact hnp site he
      · cases hs
      · rename_i a1 hts
        obtain ⟨hw2, hb2, hr2, _, _⟩ := tryStart_WWF (a := { a with s := setBacklog a.s rq rest }) hw1 hf1 hts
        exact (prefillLoop_WWF rest hw2 (by rw [hb2]; simp) (by rw [hr2]; exact hrq)).1 site hs
    · intro a' c hs
      simp only [prefillLoop] at hs
      split at hs
      · cases hs
      · rename_i a1 hts
        cases hs
        obtain ⟨hw2, hb2, hr2, _, hrun2⟩ := tryStart_WWF (a := { a with s := setBacklog a.s rq rest }) hw1 hf1 hts
        refine ⟨hw2, hr2, ?_⟩
        intro t hr hn
        have hxt : t ≠ x.id := by
          intro heq
          exact hn rq x (by rw [hb]; exact List.mem_cons_self) heq.symm
        refine ⟨hrun2 t hxt hr, ?_⟩
        intro r y hy
        rw [hb2] at hy
        exact (hn.setBacklog rq (fun z hz => hn rq z (hsub.subset hz))) r y hy
      · rename_i a1 hts
        obtain ⟨hw2, hb2, hr2, _, hrun2⟩ := tryStart_WWF (a := { a with s := setBacklog a.s rq rest }) hw1 hf1 hts
        obtain ⟨hw3, hr3, hf3⟩ :=
          (prefillLoop_WWF rest hw2 (by rw [hb2]; simp) (by rw [hr2]; exact hrq)).2 a' c hs
        refine ⟨hw3, by rw [hr3, hr2]; rfl, ?_⟩
        intro t hr hn
        have hxt : t ≠ x.id := by
          intro heq
          exact hn rq x (by rw [hb]; exact List.mem_cons_self) heq.symm
        apply hf3 t (hrun2 t hxt hr)
        intro r y hy
        rw [hb2] at hy
        exact (hn.setBacklog rq (fun z hz => hn rq z (hsub.subset hz))) r y hy

/-- what the contract says about one entry, in terms of the registered classes only -/
def EntryReg (rqs : List (List Nat)) (e : Entry) : Prop :=
  ∃ vs, rqs[e.task.rq]? = some vs ∧ ∀ rv, e.rv = some rv → rv < vs.length

theorem computeEntry_WWF {a : Acc} {e : Entry}
    (hw : WWF a.s) (he : EntryReg a.s.rqs e) (hf : Fresh e.task.id a.s) :
    NoPanic (computeEntry a e) ∧
    ∀ a', computeEntry a e = .ok a' →
      WWF a'.s ∧ a'.s.rqs = a.s.rqs ∧ (∀ t, t ≠ e.task.id → Fresh t a.s → Fresh t a'.s) := by
  obtain ⟨vs, hvs, hrv⟩ := he
  unfold computeEntry
  split
  · -- prefill entry
    refine ⟨NoPanic.ok _, ?_⟩
    intro a' hs
    cases hs
    refine ⟨?_, rfl, ?_⟩
    · exact
        { runRq := hw.runRq
          blRq := by
            intro rq x hx
            simp only [setBacklog_backlog] at hx
            split at hx
            next heq =>
              subst heq
              rcases List.mem_cons.mp hx with rfl | hx
              · rfl
              · exact hw.blRq _ x hx
            next => exact hw.blRq rq x hx
          keyRq := by
            intro rq hrq
            simp only at hrq
            split at hrq
            · exact hw.keyRq rq hrq
            · rcases List.mem_cons.mp hrq with rfl | hrq
              · exact ⟨vs, hvs⟩
              · exact hw.keyRq rq hrq
          keys := by
            intro rq hne
            simp only [setBacklog_backlog] at hne
            simp only
            split at hne
            · rename_i heq
              subst heq
              split
              · assumption
              · exact List.mem_cons_self
            · have := hw.keys rq hne
              split
              · exact this
              · exact List.mem_cons_of_mem _ this
          disj := by
            intro r hr rq x hx
            simp only [setBacklog_backlog] at hx
            split at hx
            next heq =>
              subst heq
              rcases List.mem_cons.mp hx with rfl | hx
              · exact fun heq => hf.1 r hr heq.symm
              · exact hw.disj r hr _ x hx
            next => exact hw.disj r hr rq x hx
          blNodup := by
            intro rq
            simp only [setBacklog_backlog]
            split
            · rename_i heq
              simp only [List.map_cons, List.nodup_cons, List.mem_map]
              refine ⟨?_, hw.blNodup _⟩
              rintro ⟨y, hy, heq'⟩
              exact hf.2 _ y hy heq'
            · exact hw.blNodup rq
          blCross := by
            intro rq1 rq2 x1 x2 h1 h2 heq
            simp only [setBacklog_backlog] at h1 h2
            split at h1 <;> split at h2
            · rename_i e1 e2; rw [e1, e2]
            · rename_i e1 _
              subst e1
              rcases List.mem_cons.mp h1 with rfl | h1
              · exact absurd heq.symm (hf.2 rq2 x2 h2)
              · exact hw.blCross _ rq2 x1 x2 h1 h2 heq
            · rename_i _ e2
              subst e2
              rcases List.mem_cons.mp h2 with rfl | h2
              · exact absurd heq (hf.2 rq1 x1 h1)
              · exact hw.blCross rq1 _ x1 x2 h1 h2 heq
            · exact hw.blCross rq1 rq2 x1 x2 h1 h2 heq }
    · intro t ht hft
      refine ⟨hft.1, ?_⟩
      exact hft.2.setBacklog _ (by
        intro y hy
        rcases List.mem_cons.mp hy with rfl | hy
        · exact fun h => ht h.symm
        · exact hft.2 _ y hy)
  · rename_i rv hrveq
    have hlt := hrv rv hrveq
    have hm : ∃ mt, minTime a.s e.task.rq rv = .ok mt := minTime_ok_iff.mpr ⟨vs, hvs, hlt⟩
    obtain ⟨mt, hmt⟩ := hm
    rw [hmt]
    simp only
    split
    · -- soft reject
      refine ⟨NoPanic.ok _, ?_⟩
      intro a' hs
      cases hs
      have hst : ∀ k, (insertBlocked a.s k).running = a.s.running ∧ (insertBlocked a.s k).backlog = a.s.backlog ∧
          (insertBlocked a.s k).rqs = a.s.rqs ∧ (insertBlocked a.s k).bkeys = a.s.bkeys := by
        intro k; unfold insertBlocked; split <;> exact ⟨rfl, rfl, rfl, rfl⟩
      obtain ⟨h1, h2, h3, h4⟩ := hst (e.task.rq, rv)
      refine ⟨?_, h3, ?_⟩
      · exact hw.shrink (by intro rq; rw [h2]; exact List.Sublist.refl _)
          (by intro r hr; rw [h1] at hr; exact ⟨r, hr, rfl, rfl⟩) h3
          (by intro rq hne; rw [h2] at hne; rw [h4]; exact hw.keys rq hne)
          (by intro rq hrq; rw [h4] at hrq; exact hrq)
      · intro t _ hft
        refine ⟨by rw [h1]; exact hft.1, ?_⟩
        intro rq x hx; rw [h2] at hx; exact hft.2 rq x hx
    · rename_i h _
      split
      · exact ⟨fun site hs => (by cases hs), fun a' hs => (by cases hs)⟩
      · have hw0 : WWF ({ a with s := { a.s with live := h :: a.s.live } } : Acc).s :=
          hw.shrink (fun _ => List.Sublist.refl _) (fun r hr => ⟨r, hr, rfl, rfl⟩) rfl hw.keys (fun _ hr => hr)
        have hf0 : Fresh e.task.id ({ a with s := { a.s with live := h :: a.s.live } } : Acc).s := hf
        have hm0 : ∃ mt, minTime ({ a with s := { a.s with live := h :: a.s.live } } : Acc).s e.task.rq rv = .ok mt :=
          ⟨mt, hmt⟩
        have hnp := tryStart_noPanic (p := false) (h := h) hm0 hf0.1
        refine ⟨?_, ?_⟩
        · intro site hs
          split at hs
          · rename_i err he
            cases hs
            exact hnp site he
          · cases hs
          · rename_i a1 hts
            obtain ⟨hw1, hb1, hr1, _, _⟩ := tryStart_WWF hw0 hf0 hts
            have := (prefillLoop_WWF (rq := e.task.rq) (rv := rv) (h := h) (a1.s.backlog e.task.rq) hw1 rfl
              (by rw [hr1]; exact ⟨vs, hvs, hlt⟩)).1
            split at hs
            · rename_i err he
              cases hs
              exact this site he
            · cases hs
        · intro a' hs
          split at hs
          · cases hs
          · rename_i a1 hts
            cases hs
            obtain ⟨hw1, hb1, hr1, _, hrun1⟩ := tryStart_WWF hw0 hf0 hts
            refine ⟨hw1, hr1, ?_⟩
            intro t ht hft
            refine ⟨hrun1 t ht hft.1, ?_⟩
            intro rq x hx
            rw [hb1] at hx
            exact hft.2 rq x hx
          · rename_i a1 hts
            obtain ⟨hw1, hb1, hr1, _, hrun1⟩ := tryStart_WWF hw0 hf0 hts
            have hpl := (prefillLoop_WWF (rq := e.task.rq) (rv := rv) (h := h) (a1.s.backlog e.task.rq) hw1 rfl
              (by rw [hr1]; exact ⟨vs, hvs, hlt⟩)).2
            split at hs
            · cases hs
            · rename_i a2 c2 hpl2
              cases hs
              obtain ⟨hw2, hr2, hf2⟩ := hpl a' c2 hpl2
              refine ⟨hw2, by rw [hr2, hr1], ?_⟩
              intro t ht hft
              apply hf2 t (hrun1 t ht hft.1)
              intro rq x hx
              rw [hb1] at hx
              exact hft.2 rq x hx

theorem computeEntries_WWF : ∀ (es : List Entry) {a : Acc},
    WWF a.s → (∀ e ∈ es, EntryReg a.s.rqs e) → (es.map (·.task.id)).Nodup →
    (∀ e ∈ es, Fresh e.task.id a.s) →
    NoPanic (computeEntries es a) ∧ ∀ a', computeEntries es a = .ok a' → WWF a'.s
  | [], a, hw, _, _, _ => by
    refine ⟨by simp only [computeEntries]; exact NoPanic.ok _, ?_⟩
    intro a' hs
    simp only [computeEntries] at hs
    cases hs; exact hw
  | e :: es, a, hw, hreg, hnd, hfr => by
    obtain ⟨hnp, hok⟩ := computeEntry_WWF hw (hreg e List.mem_cons_self) (hfr e List.mem_cons_self)
    simp only [List.map_cons, List.nodup_cons, List.mem_map] at hnd
    have next : ∀ a1, computeEntry a e = .ok a1 →
        NoPanic (computeEntries es a1) ∧ ∀ a', computeEntries es a1 = .ok a' → WWF a'.s := by
      intro a1 h1
      obtain ⟨hw1, hr1, hf1⟩ := hok a1 h1
      apply computeEntries_WWF es hw1
      · intro e' he'; rw [hr1]; exact hreg e' (List.mem_cons_of_mem _ he')
      · exact hnd.2
      · intro e' he'
        apply hf1 _ _ (hfr e' (List.mem_cons_of_mem _ he'))
        intro heq
        exact hnd.1 ⟨e', he', heq⟩
    refine ⟨?_, ?_⟩
    · intro site hs
      simp only [computeEntries] at hs
      split at hs
      · rename_i err he
        cases hs
        exact hnp site he
      · rename_i a1 h1
        exact (next a1 h1).1 site hs
    · intro a' hs
      simp only [computeEntries] at hs
      split at hs
      · cases hs
      · rename_i a1 h1
        exact (next a1 h1).2 a' hs

end HqModel.Worker
