import HqModel.Lemmas.CoreNoPanicQ4
/-!
C09 progress, queue correspondence, part 5: `on_cancel_tasks` (`cancelLoop`, `removeTasksBatched`, `cancelTasks`),
`removeWaitingAll` and `task_failed`.

`Rem s s'` = what a sequence of `remove_task`s does to the side facts (task states persist backwards, prefill sets
shrink, `CW3` and uniqueness of ids are kept).
-/
namespace HqModel.Core.NPC

open HqModel.Core.NP

theorem withWorker_queues {s s' : State} {w : Nat} {f : Worker → M Worker} (heq : s.withWorker w f = .ok s') :
    s'.queues = s.queues := by
  obtain ⟨wk, wk', _, _, rfl⟩ := withWorker_spec heq
  rfl

theorem tryRemoveRedirection_queues {s s' : State} {t : TaskId} {rq : Nat}
    (heq : s.tryRemoveRedirection t rq = .ok s') : s'.queues = s.queues := by
  simp only [State.tryRemoveRedirection] at heq
  split at heq
  · cases heq; rfl
  · split at heq
    · cases heq
    · rw [withWorker_queues heq]

/-! ### `cancelLoop` -/

theorem cancel_step_npq {D0 : TaskId → Prop} {R} {s s1 : State} {u cons : List TaskId} {id : TaskId} {task : Task}
    (ht : s.task? id = some task) (hcons : s.recursiveConsumers task = .ok cons) (hcw : CW3 s.tasks)
    (h1 : NpQ (fun x => (x ∈ u ∨ D0 x) ∨ x = id) R s1) (ht1 : s1.tasks = s.tasks) (hsub : PfSub s s1)
    (hc : PfD R s u)
    (hid : ∀ w, task.state = .prefilled w →
      id ∉ R ∧ ∀ (i : Nat) (q : Queue), s1.queues[i]? = some q → id ∉ pfIds q) :
    NpQ (fun x => x ∈ unionTids (unionTids u [id]) cons ∨ D0 x) R s1 ∧
      PfD R s1 (unionTids (unionTids u [id]) cons) := by
  have hpre : ∀ x, IsPrefilled s1 x ↔ IsPrefilled s x := by
    intro x; rw [isPrefilled_iff_stOf, isPrefilled_iff_stOf, ht1]
  constructor
  · refine h1.mono ?_
    rintro x ((hx | hx) | hx)
    · exact Or.inl (mem_unionTids.mpr (Or.inl (mem_unionTids.mpr (Or.inl hx))))
    · exact Or.inr hx
    · exact Or.inl (mem_unionTids.mpr (Or.inl (mem_unionTids.mpr (Or.inr (by simp [hx])))))
  · intro x hx hp
    rw [hpre] at hp
    rcases mem_unionTids.mp hx with h2 | h2
    · rcases mem_unionTids.mp h2 with h3 | h3
      · obtain ⟨a, b⟩ := hc x h3 hp
        exact ⟨a, hsub.not_mem b⟩
      · simp only [List.mem_singleton] at h3; subst h3
        obtain ⟨t, w, a, b⟩ := isPrefilled_iff.mp hp
        rw [ht] at a; cases a
        exact hid w b
    · exfalso
      obtain ⟨d, dt, hd, hcm⟩ := recursiveConsumers_mem (id := id) ht hcons x h2
      obtain ⟨w, hw⟩ := isPrefilled_iff_stOf.mp hp
      exact hcw d dt hd x hcm _ hw

/-- **the per-task loop of `on_cancel_tasks`**: the tasks whose worker side has been dropped are "in repair"
(`u`); a Prefilled one has left its prefill set (`PfD`) -/
theorem cancelLoop_npq {D0 : TaskId → Prop} {R} (ids : List TaskId) (s s' : State) (u u' : List TaskId)
    (r r' : List (Nat × List TaskId)) (h : NpQ (fun x => x ∈ u ∨ D0 x) R s) (hc : PfD R s u) (hcw : CW3 s.tasks)
    (heq : s.cancelLoop ids u r = .ok (s', u', r')) :
    NpQ (fun x => x ∈ u' ∨ D0 x) R s' ∧ PfD R s' u' := by
  induction ids generalizing s u r with
  | nil => simp only [State.cancelLoop] at heq; cases heq; exact ⟨h, hc⟩
  | cons id rest ih =>
    simp only [State.cancelLoop] at heq
    split at heq
    · exact ih _ _ _ h hc hcw heq
    · rename_i task ht
      split at heq
      · cases heq
      · rename_i cons hcons
        have step : ∀ s1, NpQ (fun x => (x ∈ u ∨ D0 x) ∨ x = id) R s1 → s1.tasks = s.tasks → PfSub s s1 →
            (∀ w, task.state = .prefilled w →
              id ∉ R ∧ ∀ (i : Nat) (q : Queue), s1.queues[i]? = some q → id ∉ pfIds q) →
            ∀ r1, s1.cancelLoop rest (unionTids (unionTids u [id]) cons) r1 = .ok (s', u', r') →
            NpQ (fun x => x ∈ u' ∨ D0 x) R s' ∧ PfD R s' u' := by
          intro s1 h1 ht1 hsub hid r1 heq1
          obtain ⟨a, b⟩ := cancel_step_npq ht hcons hcw h1 ht1 hsub hc hid
          exact ih _ _ _ a b (by rw [ht1]; exact hcw) heq1
        have hm : ∀ {s1 : State}, NpQ (fun x => x ∈ u ∨ D0 x) R s1 →
            NpQ (fun x => (x ∈ u ∨ D0 x) ∨ x = id) R s1 := fun h1 => h1.mono (fun _ hx => Or.inl hx)
        split at heq
        · -- waiting
          rename_i n hs
          exact step (ask s) (hm (ask_npq h)) rfl (PfSub.of_eq rfl) (by rw [hs]; intro w e; cases e) _ heq
        · -- assigned
          rename_i w rv hs
          split at heq
          · cases heq
          · split at heq
            · cases heq
            · rename_i s1 hw
              exact step (ask s1) (hm (ask_npq (withWorker_npq h hw))) (withWorker_tasks hw : s1.tasks = s.tasks)
                (PfSub.of_eq (withWorker_queues hw : s1.queues = s.queues)) (by rw [hs]; intro w e; cases e) _ heq
        · -- running
          rename_i w rv hs
          split at heq
          · cases heq
          · split at heq
            · cases heq
            · rename_i s1 hw
              exact step (ask s1) (hm (ask_npq (withWorker_npq h hw))) (withWorker_tasks hw : s1.tasks = s.tasks)
                (PfSub.of_eq (withWorker_queues hw : s1.queues = s.queues)) (by rw [hs]; intro w e; cases e) _ heq
        · -- multi-node
          rename_i ws hs
          split at heq
          · cases heq
          · rename_i s1 hr
            split at heq
            · cases heq
            · exact step (ask s1) (hm (ask_npq (resetMnAll_npq h hr))) (resetMnAll_tasks _ _ _ hr : s1.tasks = s.tasks)
                (PfSub.of_eq (resetMnAll_queues _ _ _ hr : s1.queues = s.queues)) (by rw [hs]; intro w e; cases e) _ heq
        · -- retracting
          rename_i w hs
          split at heq
          · cases heq
          · rename_i s1 hr
            exact step (ask s1) (hm (ask_npq (tryRemoveRedirection_npq h hr))) (tryRemoveRedirection_tasks hr : s1.tasks = s.tasks)
              (PfSub.of_eq (tryRemoveRedirection_queues hr : s1.queues = s.queues)) (by rw [hs]; intro w e; cases e) _ heq
        · -- prefilled
          rename_i w hs
          split at heq
          · cases heq
          · rename_i s1 hq
            split at heq
            · cases heq
            · rename_i s2 hw
              obtain ⟨a, b⟩ := removePrefilled_npq h hq
              have hnR : id ∉ R := by
                obtain ⟨_, _, _, _, q, pp, ts, hq0, hp0, hm0, _⟩ := removePrefilled_spec hq
                obtain ⟨_, _, _, _, _, _, _, _, _, hn, _⟩ := h.task_of_pf hq0 (mem_pfIds.mpr ⟨pp, ts, hp0, hm0⟩)
                exact hn
              have hq2 : s2.queues = s1.queues := withWorker_queues hw
              refine step s2 (withWorker_npq a hw) ((withWorker_tasks hw).trans (removePrefilled_tasks hq))
                ((removePrefilled_pfsub hq).trans (PfSub.of_eq hq2)) ?_ _ heq
              intro _ _
              refine ⟨hnR, ?_⟩
              intro i q hqi
              rw [hq2] at hqi
              exact (b i q hqi).2
        · cases heq

/-! ### removals -/

/-- what a sequence of `remove_task`s does to the side facts -/
structure Rem (s s' : State) : Prop where
  st : ∀ x st, stOf s'.tasks x = some st → stOf s.tasks x = some st
  cw : CW3 s.tasks → CW3 s'.tasks
  nd : (taskIds s.tasks).Nodup → (taskIds s'.tasks).Nodup

theorem Rem.refl (s : State) : Rem s s := ⟨fun _ _ h => h, fun h => h, fun h => h⟩

theorem Rem.of_tasks {s s' : State} (h : s'.tasks = s.tasks) : Rem s s' := by
  exact ⟨by rw [h]; exact fun _ _ hx => hx, by rw [h]; exact fun hx => hx, by rw [h]; exact fun hx => hx⟩

theorem Rem.trans {a b c : State} (h1 : Rem a b) (h2 : Rem b c) : Rem a c :=
  ⟨fun x st h => h1.st x st (h2.st x st h), fun h => h2.cw (h1.cw h), fun h => h2.nd (h1.nd h)⟩

theorem Rem.isPrefilled {s s' : State} (h : Rem s s') (x : TaskId) (hp : IsPrefilled s' x) : IsPrefilled s x := by
  rw [isPrefilled_iff_stOf] at hp ⊢
  obtain ⟨w, hw⟩ := hp
  exact ⟨w, h.st _ _ hw⟩

theorem removeTask_rem {s s' : State} {id : TaskId} {st : TS} (hn : (taskIds s.tasks).Nodup)
    (heq : s.removeTask id = .ok (s', st)) : Rem s s' := by
  obtain ⟨_, _, _, _, hc⟩ := removeTask_spec heq
  have hfind : ∀ d dt', findTask s'.tasks d = some dt' →
      ∃ dt, findTask s.tasks d = some dt ∧ dt'.state = dt.state ∧ ∀ c ∈ dt'.consumers, c ∈ dt.consumers := by
    intro d dt' hd
    cases he : findTask (eraseTask s.tasks id) d with
    | none => rw [(hc.2 d).1 he] at hd; cases hd
    | some x =>
      obtain ⟨x', hx', e1, _, e3⟩ := (hc.2 d).2 x he
      rw [hx'] at hd; cases hd
      rw [findTask_eraseTask hn] at he
      split at he
      · cases he
      · refine ⟨x, he, e1, ?_⟩
        intro c hcm
        rcases e3 c hcm with h1 | h1
        · exact h1
        · cases h1
  have hst : ∀ x st, stOf s'.tasks x = some st → stOf s.tasks x = some st := by
    intro x st hx
    obtain ⟨t', a, b⟩ := stOf_some hx
    obtain ⟨t, a', b', _⟩ := hfind x t' a
    rw [stOf_of_find a', ← b', b]
  refine ⟨hst, ?_, fun _ => (removeTask_sub heq).nodup hn⟩
  intro hcw d dt' hd c hcm st hs
  obtain ⟨dt, a, _, b⟩ := hfind d dt' hd
  exact hcw d dt a c (b c hcm) st (hst c st hs)

theorem removeTasksBatched_npq {D0 : TaskId → Prop} {R} (ids : List TaskId) (s s' : State)
    (h : NpQ (fun x => x ∈ ids ∨ D0 x) R s) (hn : (taskIds s.tasks).Nodup) (hc : PfD R s ids)
    (heq : s.removeTasksBatched ids = .ok s') : NpQ D0 R s' ∧ Rem s s' := by
  induction ids generalizing s with
  | nil =>
    simp only [State.removeTasksBatched] at heq; cases heq
    exact ⟨h.mono (fun x hx => by rcases hx with h1 | h1; cases h1; exact h1), Rem.refl _⟩
  | cons t rest ih =>
    simp only [State.removeTasksBatched] at heq
    split at heq
    · cases heq
    · rename_i s1 st h1
      have hrem := removeTask_rem hn h1
      have a := removeTask_npq h hn
        (fun tk w hf hs => hc t List.mem_cons_self (isPrefilled_iff.mpr ⟨tk, w, hf, hs⟩)) h1
      have hmono : ∀ x, (x ∈ t :: rest ∨ D0 x) ∧ x ≠ t → x ∈ rest ∨ D0 x := by
        rintro x ⟨hx1 | hx1, hx2⟩
        · rcases List.mem_cons.mp hx1 with e | e
          · exact absurd e hx2
          · exact Or.inl e
        · exact Or.inr hx1
      obtain ⟨b, c⟩ := ih s1 (a.mono hmono) (hrem.nd hn)
        ((PfD.sub (fun x hx => hc x (List.mem_cons_of_mem _ hx)) hrem.isPrefilled (removeTask_pfsub h1))) heq
      exact ⟨b, hrem.trans c⟩

/-- **`on_cancel_tasks`** -/
theorem cancelTasks_npq {D R} {s s' : State} {ids : List TaskId} {o : Out} (h : NpQ D R s)
    (hn : (taskIds s.tasks).Nodup) (hcw : CW3 s.tasks) (heq : s.cancelTasks ids = .ok (s', o)) :
    NpQ D R s' ∧ Rem s s' := by
  simp only [State.cancelTasks] at heq
  split at heq
  · cases heq
  · rename_i s1 unreg running h1
    split at heq
    · cases heq
    · rename_i s2 h2
      cases heq
      obtain ⟨a, b⟩ := cancelLoop_npq (D0 := D) _ _ _ _ _ _ _ (h.mono (fun _ hx => Or.inr hx))
        (fun _ hx => by cases hx) hcw h1
      have ht1 := cancelLoop_tasks _ _ _ _ _ _ _ h1
      obtain ⟨c, d⟩ := removeTasksBatched_npq _ _ _ a (by rw [ht1]; exact hn) b h2
      exact ⟨c, (Rem.of_tasks ht1).trans d⟩

/-! ### `task_failed` -/

theorem removeWaitingAll_npq {D R} (ids : List TaskId) (s s' : State) (h : NpQ D R s)
    (hn : (taskIds s.tasks).Nodup) (heq : s.removeWaitingAll ids = .ok s') :
    NpQ D R s' ∧ Rem s s' ∧ PfSub s s' := by
  induction ids generalizing s with
  | nil => simp only [State.removeWaitingAll] at heq; cases heq; exact ⟨h, Rem.refl _, PfSub.refl _⟩
  | cons t rest ih =>
    simp only [State.removeWaitingAll] at heq
    split at heq
    · cases heq
    · rename_i s1 st h1
      split at heq
      · rename_i n
        have hst := (removeTask_spec h1).1
        have hrem := removeTask_rem hn h1
        have a := removeTask_npq h hn (fun tk w hf hs => by
          rw [stOf_of_find hf, hs] at hst; cases hst) h1
        obtain ⟨b, c, d⟩ := ih s1 (a.mono (fun _ hx => hx.1)) (hrem.nd hn) heq
        exact ⟨b, hrem.trans c, (removeTask_pfsub h1).trans d⟩
      · cases heq

/-- **`task_failed`** (any state the function accepts; a Prefilled task leaves its prefill set in the first part) -/
theorem taskFailed_npq {D R} {s s' : State} {worker : Option Nat} {id : TaskId} {ret : List TaskId} {o : Out}
    (h : NpQ D R s) (hn : (taskIds s.tasks).Nodup) (hcw : CW3 s.tasks)
    (heq : s.taskFailed worker id ret = .ok (s', o)) : NpQ D R s' ∧ Rem s s' := by
  simp only [State.taskFailed] at heq
  split at heq
  · cases heq; exact ⟨h, Rem.refl _⟩
  · rename_i task ht
    split at heq
    · cases heq
    · rename_i s1 hpre
      have e1 : NpQ (fun x => D x ∨ x = id) R s1 ∧ s1.tasks = s.tasks ∧ PfSub s s1 ∧
          (∀ w, task.state = .prefilled w →
            id ∉ R ∧ ∀ (i : Nat) (q : Queue), s1.queues[i]? = some q → id ∉ pfIds q) := by
        clear heq
        have hm : ∀ {s1 : State}, NpQ D R s1 → NpQ (fun x => D x ∨ x = id) R s1 :=
          fun h1 => h1.mono (fun _ hx => Or.inl hx)
        repeat' (split at hpre)
        all_goals first
          | (cases hpre; exact ⟨hm h, rfl, PfSub.refl _, by intro w hw; simp_all⟩)
          | cases hpre
          | exact ⟨hm (resetMnAll_npq h hpre), resetMnAll_tasks _ _ _ hpre,
              PfSub.of_eq (resetMnAll_queues _ _ _ hpre), by intro w hw; simp_all⟩
          | exact ⟨hm (withWorker_npq h hpre), withWorker_tasks hpre,
              PfSub.of_eq (withWorker_queues hpre), by intro w hw; simp_all⟩
          | exact ⟨hm (tryRemoveRedirection_npq h hpre), tryRemoveRedirection_tasks hpre,
              PfSub.of_eq (tryRemoveRedirection_queues hpre), by intro w hw; simp_all⟩
          | skip
        · rename_i s2 hp
          obtain ⟨a, b⟩ := removePrefilled_npq h hp
          have hnR : id ∉ R := by
            obtain ⟨_, _, _, _, q, pp, ts, hq0, hp0, hm0, _⟩ := removePrefilled_spec hp
            obtain ⟨_, _, _, _, _, _, _, _, _, hn', _⟩ := h.task_of_pf hq0 (mem_pfIds.mpr ⟨pp, ts, hp0, hm0⟩)
            exact hn'
          have hq2 : s1.queues = s2.queues := withWorker_queues hpre
          refine ⟨withWorker_npq a hpre, (withWorker_tasks hpre).trans (removePrefilled_tasks hp),
            (removePrefilled_pfsub hp).trans (PfSub.of_eq hq2), fun _ _ => ⟨hnR, ?_⟩⟩
          intro i q hqi
          rw [hq2] at hqi
          exact (b i q hqi).2
      obtain ⟨a1, ht1, hsub1, hpf1⟩ := e1
      split at heq
      · cases heq
      · split at heq
        · cases heq
        · rename_i s2 h2
          split at heq
          · cases heq
          · rename_i s3 st h3
            have hn1 : (taskIds s1.tasks).Nodup := by rw [ht1]; exact hn
            obtain ⟨a2, rem2, sub2⟩ := removeWaitingAll_npq _ _ _ a1 hn1 h2
            have hn2 := rem2.nd hn1
            have a3 := removeTask_npq a2 hn2 (fun tk w hf hs => by
              have h5 : stOf s2.tasks id = some (.prefilled w) := by rw [stOf_of_find hf, hs]
              have h6 := rem2.st _ _ h5
              rw [ht1, stOf_of_find ht] at h6
              simp only [Option.some.injEq] at h6
              obtain ⟨x, y⟩ := hpf1 w h6
              exact ⟨x, sub2.not_mem y⟩) h3
            have a : NpQ D R s3 := a3.mono (fun x hx => hx.1.resolve_right hx.2)
            have rem3 : Rem s s3 := ((Rem.of_tasks ht1).trans rem2).trans (removeTask_rem hn2 h3)
            clear hpre
            repeat' (split at heq)
            all_goals first
              | (cases heq; exact ⟨a, rem3⟩)
              | (rename_i h4; cases heq
                 obtain ⟨b, c⟩ := cancelTasks_npq a (rem3.nd hn) (rem3.cw hcw) h4
                 exact ⟨b, rem3.trans c⟩)
              | cases heq

end HqModel.Core.NPC
