import HqModel.Lemmas.SysWMsgs
/-!
What the reactor does to the REPORTED task of a worker message (the part the frame `FrW (ownM id)` leaves open):

* `taskFinished_gone`, `taskFailed_gone` — the task leaves the map;
* `taskRunning_own` — it was at the reporting worker and is Running there (or RunningMultiNode with the `started` flag);
* `taskReject_own` — it becomes ownerless (no `ComputeTasks` is sent; this includes a multi-node task refused by its
  root before the start was reported: the reserved workers are reset), or — Retracting with a redirect — Assigned to the
  redirect target, with exactly one `ComputeTasks` item, to the target, or — multi-node, started — nothing happens.
-/
namespace HqModel.Core
open HqModel HqModel.SysW

theorem stOf_none_of_task? {s : State} {id : TaskId} (h : s.task? id = none) : stOf s.tasks id = none := by
  unfold stOf; unfold State.task? at h; rw [h]; rfl

theorem stOf_none_of_not_mem {ts : List Task} {id : TaskId} (h : id ∉ taskIds ts) : stOf ts id = none := by
  cases hs : stOf ts id with
  | none => rfl
  | some st =>
    obtain ⟨task, hf, _⟩ := stOf_some hs
    exact absurd (mem_ids_iff.mpr (by rw [hf]; rfl)) h

theorem mem_ids_of_stOf {ts : List Task} {id : TaskId} {st : TS} (h : stOf ts id = some st) : id ∈ taskIds ts := by
  obtain ⟨task, hf, _⟩ := stOf_some h
  exact mem_ids_iff.mpr (by rw [hf]; rfl)

theorem taskFinished_gone {s s' : State} {w : Nat} {id : TaskId} {o : Out} {b : Bool} (hn : (taskIds s.tasks).Nodup)
    (h : s.taskFinished w id = .ok (s', o, b)) : stOf s'.tasks id = none := by
  rcases taskFinished_spec h with ⟨h1, h2, _⟩ | ⟨task, _, _, h3⟩
  · rw [h2]; exact stOf_none_of_task? h1
  · exact stOf_none_of_not_mem fun hm => ((h3 hn id).mp hm).2 rfl

theorem taskFailed_gone {s s' : State} {worker : Option Nat} {id : TaskId} {ret : List TaskId} {o : Out}
    (hn : (taskIds s.tasks).Nodup) (h : s.taskFailed worker id ret = .ok (s', o)) : stOf s'.tasks id = none := by
  simp only [State.taskFailed] at h
  split at h
  · rename_i hno; cases h; exact stOf_none_of_task? hno
  · rename_i task ht
    split at h
    · cases h
    · rename_i s1 hpre
      have e1 : s1.tasks = s.tasks := by
        clear h
        repeat' split at hpre
        all_goals first
          | (cases hpre; done)
          | (cases hpre; rfl)
          | exact resetMnAll_tasks _ _ _ hpre
          | exact withWorker_tasks hpre
          | exact tryRemoveRedirection_tasks hpre
          | (rename_i hrp; exact (withWorker_tasks hpre).trans (removePrefilled_tasks hrp))
      split at h
      · cases h
      · split at h
        · cases h
        · rename_i s2 h2
          have hn2 : (taskIds s2.tasks).Nodup := (removeWaitingAll_sub _ _ _ h2).nodup (by rw [e1]; exact hn)
          split at h
          · cases h
          · rename_i s3 st h3
            have g3 : stOf s3.tasks id = none := stOf_none_of_task? (removeTask_unknown hn2 h3)
            clear hpre h2 h3
            repeat' split at h
            all_goals first
              | (cases h; done)
              | (cases h; exact g3)
              | (cases h
                 rename_i hc
                 apply stOf_none_of_not_mem
                 intro hm
                 have hsub : id ∈ taskIds s3.tasks := (cancelTasks_sub hc).subset hm
                 cases hs : stOf s3.tasks id with
                 | none => exact absurd hsub (fun hm' => by
                     obtain ⟨x, hx⟩ := Option.isSome_iff_exists.mp (mem_ids_iff.mp hm')
                     unfold stOf at hs; rw [hx] at hs; cases hs)
                 | some st => rw [g3] at hs; cases hs)

/-- `task_running` for the reported task -/
theorem taskRunning_own {s s' : State} {w : Nat} {id : TaskId} {rv : Nat} {o : Out} (hm : MnOk s)
    (h : s.taskRunning w id rv = .ok (s', o)) :
    (stOf s.tasks id = none ∧ s' = s) ∨
    (∃ st, stOf s.tasks id = some st ∧ owner st = some w ∧
      (stOf s'.tasks id = some (.running w rv) ∨
       ∃ l, stOf s'.tasks id = some (.runningMN (w :: l)) ∧ mnStarted s' w id = true)) := by
  simp only [State.taskRunning] at h
  split at h
  · rename_i hno; cases h; exact .inl ⟨stOf_none_of_task? hno, rfl⟩
  · rename_i task ht
    right
    have hid : task.id = id := findTask_some_id ht
    have hst : stOf s.tasks id = some task.state := stOf_of_find ht
    have hput : stOf (putTask s.tasks { task with state := .running w rv }) id = some (.running w rv) := by
      rw [stOf_put (told := task) (by show findTask s.tasks task.id = _; rw [hid]; exact ht)]
      simp [hid]
    split at h
    · rename_i w' rv' hs
      split at h
      · cases h
      · rename_i hw
        have hw : w' = w := Classical.not_not.mp hw
        split at h
        · cases h
        · cases h
          exact ⟨_, hst, by rw [hs, hw]; rfl, .inl hput⟩
    · rename_i w' hs
      split at h
      · cases h
      · rename_i hw
        have hw : w' = w := Classical.not_not.mp hw
        split at h
        · cases h
        · split at h
          · cases h
          · rename_i s1 hww
            split at h
            · cases h
            · rename_i s2 hq
              cases h
              refine ⟨_, hst, by rw [hs, hw]; rfl, .inl ?_⟩
              rw [(queueRemove_core hq).t, withWorker_tasks hww]
              exact hput
    · rename_i w' hs
      split at h
      · cases h
      · rename_i hw
        have hw : w' = w := Classical.not_not.mp hw
        split at h
        · cases h
        · rename_i s1 hq
          split at h
          · cases h
          · rename_i s2 hr
            split at h
            · cases h
            · split at h
              · cases h
              · rename_i s3 hww
                cases h
                refine ⟨_, hst, by rw [hs, hw]; rfl, .inl ?_⟩
                rw [withWorker_tasks hww, tryRemoveRedirection_tasks hr, (queueRemove_core hq).t]
                exact hput
    · rename_i ws hs
      split at h
      · rename_i root rest
        split at h
        · cases h
        · rename_i hw
          have hw : root = w := Classical.not_not.mp hw
          subst hw
          split at h
          · cases h
          · rename_i s1 hww
            cases h
            refine ⟨_, hst, by rw [hs]; rfl, .inr ⟨rest, ?_, ?_⟩⟩
            · rw [withWorker_tasks hww, hst, hs]
            · obtain ⟨wk0, r0, st0, hw0, ha0⟩ := hm id _ (by rw [hst, hs]) root List.mem_cons_self
              obtain ⟨wk, wk', h1, h2, rfl⟩ := withWorker_spec hww
              have : wk = wk0 := by
                have := h1.symm.trans hw0
                cases this; rfl
              subst this
              rw [ha0] at h2
              simp only [Except.ok.injEq] at h2
              subst h2
              apply mnStarted_iff.mpr
              refine ⟨{ wk with assign := .mn id r0 true }, r0, ?_, rfl⟩
              show findWorker (putWorker s.workers _) root = _
              rw [findWorker_putWorker]
              have hid0 := findWorker_some_id h1
              simp [hid0, h1]
      · cases h
    all_goals cases h

/-- replacing a worker record by one with the same assignment does not change `mnStarted` -/
theorem mnStarted_setWorker_same {s : State} {w : Nat} {wk0 wk : Worker} (hw : s.worker? w = some wk0)
    (hid : wk.id = wk0.id) (ha : wk.assign = wk0.assign) (x : Nat) (t : TaskId) :
    mnStarted (s.setWorker wk) x t = mnStarted s x t := by
  have hidw : wk0.id = w := findWorker_some_id hw
  have hf : ∀ y, (s.setWorker wk).worker? y = if y = wk.id then (s.worker? y).map (fun _ => wk) else s.worker? y :=
    fun y => findWorker_putWorker _ _ _
  apply Bool.eq_iff_iff.mpr
  rw [mnStarted_iff, mnStarted_iff]
  constructor
  · rintro ⟨wk1, r, h1, h2⟩
    rw [hf] at h1
    split at h1
    · rename_i e
      have hxw : x = w := by rw [e, hid, hidw]
      subst hxw
      rw [hw] at h1
      simp only [Option.map_some, Option.some.injEq] at h1
      subst h1
      exact ⟨wk0, r, hw, ha ▸ h2⟩
    · exact ⟨wk1, r, h1, h2⟩
  · rintro ⟨wk1, r, h1, h2⟩
    by_cases e : x = wk.id
    · have hxw : x = w := by rw [e, hid, hidw]
      subst hxw
      rw [hw] at h1
      cases h1
      exact ⟨wk, r, by rw [hf, if_pos e, hw]; rfl, ha.trans h2⟩
    · exact ⟨wk1, r, by rw [hf, if_neg e]; exact h1, h2⟩

/-- `task_reject` for the reported task, when it is at the rejecting worker: it ends ownerless (requeued: Assigned /
Prefilled / Retracting without redirect / RunningMultiNode whose root — the reporter — has NOT started it), or —
Retracting with a redirect — Assigned to the redirect target with exactly one `ComputeTasks` item, or — RunningMultiNode
with the `started` flag — the message is ignored -/
theorem taskReject_own {s s' : State} {w : Nat} {id : TaskId} {rv : Option Nat} {o : Out} {b : Bool}
    (hn : (taskIds s.tasks).Nodup) (hm : MnOk s) (hown : ∀ st, stOf s.tasks id = some st → owner st = some w)
    (h : s.taskReject w id rv = .ok (s', o, b)) :
    (stOf s.tasks id = none ∧ stOf s'.tasks id = none ∧ o.msgs = [] ∧ ∀ x, s'.worker? x = s.worker? x) ∨
    (∃ st, stOf s.tasks id = some st ∧
      ((viewSt s w id st ≠ .hot ∧ NoCompute o.msgs ∧ ∀ st', stOf s'.tasks id = some st' → owner st' = none) ∨
       (∃ target trv inst, st = .retracting w ∧ stOf s'.tasks id = some (.assigned target trv) ∧
          o.msgs = [.compute target [(id, inst, some trv, [])]]) ∨
       (viewSt s w id st = .hot ∧ stOf s'.tasks id = some st ∧ viewSt s' w id st = .hot ∧ o.msgs = []))) := by
  simp only [State.taskReject] at h
  split at h
  · rename_i hno; cases h
    exact .inl ⟨stOf_none_of_task? hno, stOf_none_of_task? hno, rfl, fun _ => rfl⟩
  · rename_i task ht
    right
    have hid : task.id = id := findTask_some_id ht
    have hst : stOf s.tasks id = some task.state := stOf_of_find ht
    split at h
    · cases h
    · rename_i wk0 hg
      have hfw0 : s.worker? w = some wk0 := getWorker_spec hg
      -- the requeue path: the task ends ownerless
      have requeue : ∀ (s1 : State), s1.tasks = s.tasks →
          (match (s1.setTask { task with state := .waiting 0 }).addReady { task with state := .waiting 0 } with
            | .error e => (.error e : M (State × Out × Bool))
            | .ok (s2, retracted) =>
              match s2.retract retracted with
              | .error e => .error e
              | .ok (s3, out) => .ok (s3, out, true)) = .ok (s', o, b) →
          NoCompute o.msgs ∧ ∀ st', stOf s'.tasks id = some st' → owner st' = none := by
        intro s1 e1 h
        split at h
        · cases h
        · rename_i s2 retracted ha
          split at h
          · cases h
          · rename_i s3 out hr
            cases h
            refine ⟨retract_noCompute hr, fun st' hs' => ?_⟩
            have hn2 : (taskIds s2.tasks).Nodup := by
              rw [addReady_tasks ha]; show (taskIds (putTask s1.tasks _)).Nodup
              rw [taskIds_putTask, e1]; exact hn
            obtain ⟨st0, h0, sok⟩ := tfrw_stOf (retract_frq hr).t hn2 hs'
            have : stOf s2.tasks id = some (.waiting 0) := by
              rw [addReady_tasks ha]; show stOf (putTask s1.tasks _) id = _
              rw [e1, stOf_put (told := task) (by show findTask s.tasks task.id = _; rw [hid]; exact ht)]
              simp [hid]
            rw [this] at h0
            cases h0
            cases ho : owner st' with
            | none => rfl
            | some y => have := sok.own (fun e => e) y ho; cases this
      split at h
      · rename_i w' rv' hs
        have hw' : w' = w := by
          have := hown _ hst
          rw [hs] at this
          cases this; rfl
        refine ⟨_, hst, .inl ⟨by rw [hs, hw']; simp [viewSt], ?_⟩⟩
        split at h
        · refine requeue _ ?_ h; rfl
        · split at h
          · refine requeue _ ?_ h; rfl
          · split at h
            · cases h
            · split at h
              · cases h
              · rename_i s1 hw
                exact requeue _ (by have := withWorker_tasks hw; exact this) h
      · rename_i w' hs
        have hw' : w' = w := by
          have := hown _ hst
          rw [hs] at this
          cases this; rfl
        refine ⟨_, hst, .inl ⟨by rw [hs, hw']; simp [viewSt], ?_⟩⟩
        split at h
        · cases h
        · rename_i s1 hw
          split at h
          · cases h
          · rename_i s2 hp
            exact requeue _ ((removePrefilled_tasks hp).trans (by have := withWorker_tasks hw; exact this)) h
      · rename_i w' hs
        have hw' : w' = w := by
          have := hown _ hst
          rw [hs] at this
          cases this; rfl
        subst hw'
        refine ⟨_, hst, ?_⟩
        split at h
        · rename_i hne; exact (hne rfl).elim
        · split at h
          · rename_i target trv hfind
            cases h
            refine .inr (.inl ⟨target, trv, task.inst, hs, ?_, ?_⟩)
            · show stOf (putTask s.tasks _) id = _
              rw [stOf_put (told := task) (by show findTask s.tasks task.id = _; rw [hid]; exact ht)]
              simp [hid]
            · simp [computeOne, hid]
          · exact .inl ⟨by rw [hs]; simp [viewSt], by refine requeue _ ?_ h; rfl⟩
      · -- multi-node: the reporter is the root
        rename_i ws hs
        refine ⟨_, hst, ?_⟩
        split at h
        · cases h
        · rename_i root rest
          have hroot : root = w := by
            have := hown _ hst
            rw [hs] at this
            cases this; rfl
          subst hroot
          -- the root's record is a multi-node assignment for this task
          obtain ⟨wkm, rm, stm, hwm, ham⟩ := hm id _ (by rw [hst, hs]) root List.mem_cons_self
          have ewk : wkm = wk0 := by
            have := hwm.symm.trans hfw0
            cases this; rfl
          subst ewk
          split at h
          · rename_i hne; exact (hne rfl).elim
          · split at h
            · rename_i A F P ha
              have : wkm.assign = .sn A F P := by cases rv <;> exact ha
              rw [ham] at this; cases this
            · rename_i t' r' started ha
              have ha0 : wkm.assign = .mn t' r' started := by cases rv <;> exact ha
              rw [ham] at ha0
              cases ha0
              split at h
              · -- started: ignored
                rename_i hstarted
                subst hstarted
                simp only [Except.ok.injEq, Prod.mk.injEq] at h
                obtain ⟨e1, e2, _⟩ := h
                have h0 : mnStarted s root id = true := mnStarted_iff.mpr ⟨wkm, rm, hwm, ham⟩
                have h1 : mnStarted s' root id = true := by
                  rw [← e1, ← h0]
                  exact mnStarted_setWorker_same hwm (by cases rv <;> rfl) (by cases rv <;> rfl) root id
                refine .inr (.inr ⟨by rw [hs]; simp [viewSt, h0], by rw [← e1]; show stOf s.tasks id = _; rw [hst], ?_,
                  by rw [← e2]⟩)
                rw [hs]; simp [viewSt, h1]
              · -- not started: the workers are reset, the task is requeued
                rename_i hns
                have hfalse : stm = false := by
                  cases stm with
                  | false => rfl
                  | true => exact absurd rfl hns
                subst hfalse
                have h0 : mnStarted s root id = false := by
                  cases hms : mnStarted s root id with
                  | false => rfl
                  | true =>
                    obtain ⟨wk1, r1, hw1, ha1⟩ := mnStarted_iff.mp hms
                    have : wk1 = wkm := by
                      have := hw1.symm.trans hwm
                      cases this; rfl
                    subst this
                    rw [ham] at ha1; cases ha1
                split at h
                · cases h
                · rename_i s1 hr
                  exact .inl ⟨by rw [hs]; simp [viewSt, h0],
                    requeue _ (by have := resetMnChecked_tasks _ _ _ _ hr; exact this) h⟩
      all_goals cases h

end HqModel.Core
