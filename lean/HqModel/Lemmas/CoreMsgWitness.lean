import HqModel.Lemmas.CoreMsgRun
import HqModel.Lemmas.CoreInvFull
/-!
Message-level facts, part 5: concrete runs (all satisfy every side condition `OpOk4`), used as witnesses and as
non-vacuity examples by `Props/C03.lean`, `Props/C06.lean`.
-/
namespace HqModel.Core

/-- a worker with one resource of 10000 units -/
def wkr (id : Nat) : Worker := { id := id, assign := .sn [] [10000] [], total := [10000] }

/-- task `(1, j)` of request 0 -/
def ntk (j : Nat) (inst : Nat := 0) (deps : List TaskId := []) : NewTask :=
  { id := (1, j), rq := 0, prio := 0, crashLimit := .max 5, deps := deps, inst := inst }

/-- **same instance id sent twice (successful retract)**: round 1 assigns task 0 to worker 1 and prefills task 1
there (compute message with instance 0); round 2 places tasks 2 and 1 on worker 2 — task 1 becomes Retracting with
a redirect, worker 1 gets a retract message; worker 1 answers that it retracted task 1; the server sends task 1 to
worker 2 with the SAME instance id 0. -/
def resendOps : List Op :=
  [.newWorker (wkr 1), .newWorker (wkr 2),
   .newRq [{ entries := [⟨0, .amount 5000⟩] }],
   .newTasks [ntk 0, ntk 1, ntk 2],
   .schedule { sn := [{ rq := 0, v := 0, counts := [(1, 1)], taken := [(1, 0)] }], prefillOrders := [(0, [1])] },
   .schedule { sn := [{ rq := 0, v := 0, counts := [(2, 2)], taken := [(1, 2), (1, 1)] }] },
   .retracted 1 [(1, 1)]]

/-- **same instance id sent twice (reject)**: task 0 is assigned to worker 1, worker 1 rejects it, the next round
assigns it to worker 2 with the same instance id 0. -/
def rejectOps : List Op :=
  [.newWorker (wkr 1), .newWorker (wkr 2),
   .newRq [{ entries := [⟨0, .amount 5000⟩] }],
   .newTasks [ntk 0],
   .schedule { sn := [{ rq := 0, v := 0, counts := [(1, 1)], taken := [(1, 0)] }] },
   .update 1 [.reject (1, 0) (some 0)] [],
   .schedule { sn := [{ rq := 0, v := 0, counts := [(2, 1)], taken := [(1, 0)] }] }]

/-- **same instance id sent twice (multi-node task refused by its root; the transition added by the fix of F32)**: a
multi-node task (one node) is placed on worker 1; worker 1 — the root — refuses it before it has started it;
`task_reject` resets the reserved worker and requeues the task WITHOUT incrementing the instance id; the next round
places it on worker 2 with the same instance id 0. -/
def mnRejectOps : List Op :=
  [.newWorker (wkr 1), .newWorker (wkr 2),
   .newRq [{ nNodes := 1, entries := [] }],
   .newTasks [ntk 0],
   .schedule { mn := [{ rq := 0, sets := [[1]] }] },
   .update 1 [.reject (1, 0) (some 0)] [],
   .schedule { mn := [{ rq := 0, sets := [[2]] }] }]

/-- **… but not after the start was announced**: the root reports Running (`started (1,0)` instance 0 is announced,
the `started` flag of its record is set); a Reject from the root — or from anybody else — is then ignored: the task
stays RunningMultiNode on worker 1 and is not sent again (the senders only get the request blocked). -/
def mnRejectStartedOps : List Op :=
  [.newWorker (wkr 1), .newWorker (wkr 2),
   .newRq [{ nNodes := 1, entries := [] }],
   .newTasks [ntk 0],
   .schedule { mn := [{ rq := 0, sets := [[1]] }] },
   .update 1 [.running (1, 0) 0] [],
   .update 1 [.reject (1, 0) (some 0)] [],
   .update 2 [.reject (1, 0) (some 0)] []]

/-- **a task id submitted twice**: task 0 is submitted with instance 5, runs and finishes; the same id is submitted
again with instance 0 and sent with instance 0 (the core accepts it: the first record left the map). -/
def reuseOps : List Op :=
  [.newWorker (wkr 1),
   .newRq [{ entries := [⟨0, .amount 5000⟩] }],
   .newTasks [ntk 0 5],
   .schedule { sn := [{ rq := 0, v := 0, counts := [(1, 1)], taken := [(1, 0)] }] },
   .update 1 [.finished (1, 0)] [],
   .newTasks [ntk 0 0],
   .schedule { sn := [{ rq := 0, v := 0, counts := [(1, 1)], taken := [(1, 0)] }] }]

/-- **`started` with an instance id that was never sent**: as in `resendOps` task 1 is prefilled on worker 1
(sent with instance 0) and then redirected to worker 2 (Retracting, retract message to worker 1). Before worker 1
answers, worker 2 — the redirect TARGET — is lost: `on_remove_worker` drops the redirect and increments the
instance id of task 1 to 1 although the task is still held by worker 1. Worker 1 had started the task before the
retract message arrived and reports Running: the server announces `started (1,1) instance 1`, an instance id no
worker was ever sent (worker 1 executes instance 0). -/
def lossOps : List Op :=
  [.newWorker (wkr 1), .newWorker (wkr 2),
   .newRq [{ entries := [⟨0, .amount 5000⟩] }],
   .newTasks [ntk 0, ntk 1, ntk 2],
   .schedule { sn := [{ rq := 0, v := 0, counts := [(1, 1)], taken := [(1, 0)] }], prefillOrders := [(0, [1])] },
   .schedule { sn := [{ rq := 0, v := 0, counts := [(2, 2)], taken := [(1, 2), (1, 1)] }] },
   .removeWorker 2 "lost" true [(1, 2), (1, 1)] [],
   .update 1 [.running (1, 1) 0] []]

/-- **dependencies**: task 1 depends on task 0; task 0 is placed, runs, finishes; only then task 1 is placed. -/
def depOps : List Op :=
  [.newWorker (wkr 1),
   .newRq [{ entries := [⟨0, .amount 5000⟩] }],
   .newTasks [ntk 0, ntk 1 0 [(1, 0)]],
   .schedule { sn := [{ rq := 0, v := 0, counts := [(1, 1)], taken := [(1, 0)] }] },
   .update 1 [.running (1, 0) 0] [],
   .update 1 [.finished (1, 0)] [],
   .schedule { sn := [{ rq := 0, v := 0, counts := [(1, 1)], taken := [(1, 1)] }] }]

/-- **a crash**: task 0 runs on worker 1, the worker is lost by failure: the task goes back to Waiting with crash
counter 1 and instance id 1; worker 2 (idle) is stopped: nothing changes. -/
def crashOps : List Op :=
  [.newWorker (wkr 1), .newWorker (wkr 2),
   .newRq [{ entries := [⟨0, .amount 5000⟩] }],
   .newTasks [ntk 0],
   .schedule { sn := [{ rq := 0, v := 0, counts := [(1, 1)], taken := [(1, 0)] }] },
   .update 1 [.running (1, 0) 0] [],
   .removeWorker 1 "lost" true [(1, 0)] [],
   .removeWorker 2 "stop" false [] []]

/-- the sends and starts of a run, if it succeeds -/
def runSends (ops : List Op) : Option (List (TaskId × Nat) × List (TaskId × Nat)) :=
  (run {} ops).toOption.map fun r => (sends r.2.msgs, starts r.2.cbs)

theorem runSends_some {ops : List Op} {x} (h : runSends ops = some x) :
    ∃ s out, run {} ops = .ok (s, out) ∧ sends out.msgs = x.1 ∧ starts out.cbs = x.2 := by
  unfold runSends at h
  cases hr : run {} ops with
  | error e => rw [hr] at h; simp [Except.toOption] at h
  | ok r =>
    rw [hr] at h
    simp only [Except.toOption, Option.map_some, Option.some.injEq] at h
    exact ⟨r.1, r.2, rfl, by rw [← h], by rw [← h]⟩

theorem resendOps_ok : RunOk OpOk4 {} resendOps ∧ NoIdReuse resendOps ∧
    runSends resendOps = some ([((1, 1), 0), ((1, 0), 0), ((1, 2), 0), ((1, 1), 0)], []) := by decide

theorem rejectOps_ok : RunOk OpOk4 {} rejectOps ∧ NoIdReuse rejectOps ∧
    runSends rejectOps = some ([((1, 0), 0), ((1, 0), 0)], []) := by decide

theorem mnRejectOps_ok : RunOk OpOk4 {} mnRejectOps ∧ NoIdReuse mnRejectOps ∧
    runSends mnRejectOps = some ([((1, 0), 0), ((1, 0), 0)], []) ∧
    ((run {} (mnRejectOps.take 6)).toOption.map fun r => r.1.tasks.map fun t => (t.id, t.state, t.inst)) =
      some [((1, 0), .waiting 0, 0)] := by decide

theorem mnRejectStartedOps_ok : RunOk OpOk4 {} mnRejectStartedOps ∧ NoIdReuse mnRejectStartedOps ∧
    runSends mnRejectStartedOps = some ([((1, 0), 0)], [((1, 0), 0)]) ∧
    ((run {} mnRejectStartedOps).toOption.map fun r => r.1.tasks.map fun t => (t.id, t.state, t.inst)) =
      some [((1, 0), .runningMN [1], 0)] := by decide

theorem reuseOps_ok : RunOk OpOk4 {} reuseOps ∧ ¬ NoIdReuse reuseOps ∧
    runSends reuseOps = some ([((1, 0), 5), ((1, 0), 0)], []) := by decide

theorem lossOps_ok : RunOk OpOk4 {} lossOps ∧ NoIdReuse lossOps ∧
    runSends lossOps = some ([((1, 1), 0), ((1, 0), 0), ((1, 2), 0)], [((1, 1), 1)]) := by decide

theorem depOps_ok : RunOk OpOk4 {} depOps ∧ NoIdReuse depOps ∧
    runSends depOps = some ([((1, 0), 0), ((1, 1), 0)], [((1, 0), 0)]) := by decide

theorem crashOps_ok : RunOk OpOk4 {} crashOps ∧
    ((run {} crashOps).toOption.map fun r => r.1.tasks.map fun t => (t.id, t.state, t.inst, t.crashes)) =
      some [((1, 0), .waiting 0, 1, 1)] ∧
    ((run {} (crashOps.take 6)).toOption.map fun r => r.1.tasks.map fun t => (t.id, t.state, t.inst, t.crashes)) =
      some [((1, 0), .running 1 0, 0, 0)] := by decide

end HqModel.Core
