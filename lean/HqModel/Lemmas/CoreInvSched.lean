import HqModel.Lemmas.CoreInvWT3
/-!
Stage 2, part 6: preservation of `Inv` by one scheduling round (`create_task_mapping`, proactive filling).

A scheduling round is the only place where a task leaves the Waiting state. `Inv` contains "registered consumers
of a live task are Waiting" and "RunningMultiNode ⇒ multi-node request", so the round needs what the queue /
dependency half of the repo's sanity checks says about the tasks it takes from the queues:
`QueueOk s` — every id in ready/prefill queue `i` is a task of request `i` that is not a registered consumer of a
task in the map — and `∀ e ∈ sol.mn, isMultiNode e.rq`.
-/
namespace HqModel.Core

/-! ### moves of the mapping -/

/-- one task record is replaced by a dispatched one: the task is not a registered consumer -/
theorem Inv4.put_dispatch {ts ws rd rqs ws' rd'} (h : Inv4 ts ws rd rqs) {t' told : Task}
    (ht : findTask ts t'.id = some told) (hc : t'.consumers = told.consumers) (hq : t'.rq = told.rq)
    (hnc : ∀ d dt, findTask ts d = some dt → t'.id ∉ dt.consumers)
    (hm : ∀ l', t'.state = .runningMN l' → isMultiNodeRq rqs told.rq = true)
    (hl : LS3 (putTask ts t') ws' rd') : Inv4 (putTask ts t') ws' rd' rqs := by
  refine ⟨by rw [taskIds_putTask]; exact h.nd, hl, ?_, ?_⟩
  · intro d dt hd c hcm st hst
    rw [findTask_putTask] at hd
    rw [stOf_put ht] at hst
    have hcons : ∃ dt0, findTask ts d = some dt0 ∧ c ∈ dt0.consumers := by
      split at hd
      · rename_i e
        rw [e, ht] at hd; simp at hd; subst hd
        exact ⟨told, by rw [e]; exact ht, hc ▸ hcm⟩
      · exact ⟨dt, hd, hcm⟩
    obtain ⟨dt0, hd0, hc0⟩ := hcons
    split at hst
    · rename_i e
      exact absurd (e ▸ hc0) (hnc d dt0 hd0)
    · exact h.cw d dt0 hd0 c hc0 st hst
  · intro t task l hf hs
    rw [findTask_putTask] at hf
    split at hf
    · rename_i e
      rw [e, ht] at hf; simp at hf; subst hf
      rw [hq]; exact hm l hs
    · exact h.mn t task l hf hs

/-- like `mv_assign`, the task record is not touched -/
theorem LS3.mv_assign_same {ts ws rd rd'} (h : LS3 ts ws rd) {t : TaskId} {told : Task} {wk wk' : Worker}
    (ht : findTask ts t = some told) (hf : Free3 ws rd t)
    (hw : findWorker ws wk'.id = some wk) (hni : t ∉ wAsg wk)
    (hA : wAsg wk' = wAsg wk ++ [t]) (hP : wPre wk' = wPre wk) (hM : wMn wk' = wMn wk)
    (hrd : ∀ u x v, u ≠ t → ((u, x, v) ∈ rd' ↔ (u, x, v) ∈ rd))
    (hr : ∀ x v, (t, x, v) ∈ rd' → ∃ w0, told.state = .retracting w0)
    (hh : Holds rd' wk'.id t told.state)
    (hd2 : (rd'.map (·.1)).Nodup) :
    LS3 ts (putWorker ws wk') rd' := by
  have hid : told.id = t := findTask_some_id ht
  have := h.mv_assign (t' := told) (told := told) (wk := wk) (wk' := wk') (rd' := rd') (by rw [hid]; exact ht)
    (by rw [hid]; exact hf) hw (by rw [hid]; exact hni) (by rw [hid]; exact hA) hP hM (by rw [hid]; exact hrd)
    (by rw [hid]; exact hr) (by rw [hid]; exact hh) hd2
  refine this.congr_tasks ?_
  intro u
  rw [stOf_put (told := told) (by rw [hid]; exact ht)]
  split
  · rename_i e; rw [e, hid, stOf_of_find ht]
  · rfl

/-! #### membership in the sets after replacing one worker record -/

theorem asgW_put_same {ws : List Worker} {wk wk' : Worker} (hw : findWorker ws wk'.id = some wk)
    (hA : wAsg wk' = wAsg wk) (x : Nat) : asgW (putWorker ws wk') x = asgW ws x := by
  rw [asgW_put hw]; split
  · rename_i e; rw [e, hA, asgW_of_find hw]
  · rfl
theorem preW_put_same {ws : List Worker} {wk wk' : Worker} (hw : findWorker ws wk'.id = some wk)
    (hP : wPre wk' = wPre wk) (x : Nat) : preW (putWorker ws wk') x = preW ws x := by
  rw [preW_put hw]; split
  · rename_i e; rw [e, hP, preW_of_find hw]
  · rfl
theorem mnW_put_same {ws : List Worker} {wk wk' : Worker} (hw : findWorker ws wk'.id = some wk)
    (hM : wMn wk' = wMn wk) (x : Nat) : mnW (putWorker ws wk') x = mnW ws x := by
  rw [mnW_put hw]; split
  · rename_i e; rw [e, hM, mnW_of_find hw]
  · rfl

theorem mem_asgW_put_insert {ws : List Worker} {wk wk' : Worker} {t : TaskId} (hw : findWorker ws wk'.id = some wk)
    (hA : wAsg wk' = wAsg wk ++ [t]) (x : Nat) (u : TaskId) :
    u ∈ asgW (putWorker ws wk') x ↔ (x = wk'.id ∧ u = t) ∨ u ∈ asgW ws x := by
  rw [asgW_put hw]; split
  · rename_i e; rw [e, hA, asgW_of_find hw]; simp [or_comm]
  · rename_i e; simp [e]
theorem mem_asgW_put_erase {ws : List Worker} {wk wk' : Worker} {t : TaskId} (hw : findWorker ws wk'.id = some wk)
    (hA : wAsg wk' = (wAsg wk).erase t) (hnd : (asgW ws wk'.id).Nodup) (x : Nat) (u : TaskId) :
    u ∈ asgW (putWorker ws wk') x ↔ u ∈ asgW ws x ∧ ¬ (x = wk'.id ∧ u = t) := by
  rw [asgW_put hw]; split
  · rename_i e
    rw [asgW_of_find hw] at hnd
    rw [e, hA, asgW_of_find hw, List.Nodup.mem_erase_iff hnd]; simp [and_comm]
  · rename_i e; simp [e]
theorem mem_preW_put_erase {ws : List Worker} {wk wk' : Worker} {t : TaskId} (hw : findWorker ws wk'.id = some wk)
    (hP : wPre wk' = (wPre wk).erase t) (hnd : (preW ws wk'.id).Nodup) (x : Nat) (u : TaskId) :
    u ∈ preW (putWorker ws wk') x ↔ u ∈ preW ws x ∧ ¬ (x = wk'.id ∧ u = t) := by
  rw [preW_put hw]; split
  · rename_i e
    rw [preW_of_find hw] at hnd
    rw [e, hP, preW_of_find hw, List.Nodup.mem_erase_iff hnd]; simp [and_comm]
  · rename_i e; simp [e]

theorem nodup_asgW_put_insert {ws : List Worker} {wk wk' : Worker} {t : TaskId} (hw : findWorker ws wk'.id = some wk)
    (hA : wAsg wk' = wAsg wk ++ [t]) (hni : t ∉ wAsg wk) (hnd : ∀ x, (asgW ws x).Nodup) (x : Nat) :
    (asgW (putWorker ws wk') x).Nodup := by
  rw [asgW_put hw]; split
  · rw [hA, List.nodup_append]
    refine ⟨by rw [← asgW_of_find hw]; exact hnd _, by simp, ?_⟩
    intro a ha b hb
    simp only [List.mem_singleton] at hb
    subst hb; intro e; subst e; exact hni ha
  · exact hnd x
theorem nodup_asgW_put_erase {ws : List Worker} {wk wk' : Worker} {t : TaskId} (hw : findWorker ws wk'.id = some wk)
    (hA : wAsg wk' = (wAsg wk).erase t) (hnd : ∀ x, (asgW ws x).Nodup) (x : Nat) :
    (asgW (putWorker ws wk') x).Nodup := by
  rw [asgW_put hw]; split
  · rw [hA]; exact List.Sublist.nodup List.erase_sublist (by rw [← asgW_of_find hw]; exact hnd _)
  · exact hnd x
theorem nodup_preW_put_erase {ws : List Worker} {wk wk' : Worker} {t : TaskId} (hw : findWorker ws wk'.id = some wk)
    (hP : wPre wk' = (wPre wk).erase t) (hnd : ∀ x, (preW ws x).Nodup) (x : Nat) :
    (preW (putWorker ws wk') x).Nodup := by
  rw [preW_put hw]; split
  · rw [hP]; exact List.Sublist.nodup List.erase_sublist (by rw [← preW_of_find hw]; exact hnd _)
  · exact hnd x

/-- `create_task_mapping`, Retracting arm with an earlier redirect: the reservation moves from the old target
to `w`, the redirect is replaced (order of the updates as in the code: insert on `w` first) -/
theorem LS3.mv_reredirect {ts ws rd} (h : LS3 ts ws rd) {t : TaskId} {old ov v : Nat}
    {wk1 wk1' wk2 wk2' : Worker}
    (hs : stOf ts t = some (.retracting old)) (hr : (t, wk2'.id, ov) ∈ rd)
    (hw1 : findWorker ws wk1'.id = some wk1) (hni : t ∉ wAsg wk1)
    (hA1 : wAsg wk1' = wAsg wk1 ++ [t]) (hP1 : wPre wk1' = wPre wk1) (hM1 : wMn wk1' = wMn wk1)
    (hw2 : findWorker (putWorker ws wk1') wk2'.id = some wk2)
    (hA2 : wAsg wk2' = (wAsg wk2).erase t) (hP2 : wPre wk2' = wPre wk2) (hM2 : wMn wk2' = wMn wk2) :
    LS3 ts (putWorker (putWorker ws wk1') wk2') (rd.filter (·.1 ≠ t) ++ [(t, wk1'.id, v)]) := by
  have ha1 := h.a1
  have ha2 := h.a2
  have hm1 := h.m1
  have hd1 := h.d1
  have huniq := @rd_unique rd h.d2 t
  have nd1 := nodup_asgW_put_insert hw1 hA1 hni h.nda
  have nd2 := nodup_asgW_put_erase hw2 hA2 nd1
  have m1 := mem_asgW_put_insert hw1 hA1
  have m2 := mem_asgW_put_erase hw2 hA2 (nd1 _)
  have p1 := preW_put_same hw1 hP1
  have p2 := preW_put_same hw2 hP2
  have q1 := mnW_put_same hw1 hM1
  have q2 := mnW_put_same hw2 hM2
  refine h.frame t (fun _ _ => rfl) ?_ ?_ ?_ ?_ ?_ ?_ ?_ ?_ (rd_filter_append_nodup h.d2 t _ v) nd2
    (fun x => by rw [p2, p1]; exact h.ndp x)
  all_goals simp only [m1, m2, p1, p2, q1, q2, List.mem_append, rd_filter_mem, List.mem_singleton, Prod.mk.injEq,
    Holds_retracting]
  · grind
  · grind
  · grind
  · grind
  · intro x hx
    refine ⟨_, hs, ?_⟩
    simp only [Holds_retracting, List.mem_append, rd_filter_mem, List.mem_singleton, Prod.mk.injEq]
    rcases hx with ⟨hx | hx, hne⟩
    · exact ⟨v, Or.inr ⟨trivial, hx.1, rfl⟩⟩
    · obtain ⟨st, h1, h2⟩ := ha1 x t hx
      rw [hs] at h1; cases h1
      obtain ⟨v', hv'⟩ := h2
      exact absurd ⟨(huniq hv' hr).1, trivial⟩ hne
  · grind
  · grind
  · intro x v' _; exact ⟨old, hs⟩

/-- `create_task_mapping`, Prefilled arm: the task leaves the prefilled set of `old`, gets a reservation on `w` and a
redirect to `w`; it is Retracting from `old` -/
theorem LS3.mv_prefilled_redirect {ts ws rd} (h : LS3 ts ws rd) {t' told : Task} {old v : Nat}
    {wk1 wk1' wk2 wk2' : Worker}
    (ht : findTask ts t'.id = some told) (hs : told.state = .prefilled old) (hs' : t'.state = .retracting old)
    (hnr : ∀ x v, (t'.id, x, v) ∉ rd)
    (hw1 : findWorker ws wk1'.id = some wk1) (hni : t'.id ∉ wAsg wk1)
    (hA1 : wAsg wk1' = wAsg wk1 ++ [t'.id]) (hP1 : wPre wk1' = wPre wk1) (hM1 : wMn wk1' = wMn wk1)
    (hw2 : findWorker (putWorker ws wk1') wk2'.id = some wk2) (hold : wk2'.id = old)
    (hA2 : wAsg wk2' = wAsg wk2) (hP2 : wPre wk2' = (wPre wk2).erase t'.id) (hM2 : wMn wk2' = wMn wk2) :
    LS3 (putTask ts t') (putWorker (putWorker ws wk1') wk2') (rd ++ [(t'.id, wk1'.id, v)]) := by
  have hst : stOf ts t'.id = some (.prefilled old) := by rw [stOf_of_find ht, hs]
  have ha1 := h.a1
  have ha2 := h.a2
  have hm1 := h.m1
  have hd1 := h.d1
  have nd1 := nodup_asgW_put_insert hw1 hA1 hni h.nda
  have m1 := mem_asgW_put_insert hw1 hA1
  have a2 := asgW_put_same hw2 hA2
  have p1 := preW_put_same hw1 hP1
  have ndp1 : ∀ x, (preW (putWorker ws wk1') x).Nodup := fun x => by rw [p1]; exact h.ndp x
  have p2 := mem_preW_put_erase hw2 hP2 (ndp1 _)
  have q1 := mnW_put_same hw1 hM1
  have q2 := mnW_put_same hw2 hM2
  have hd2 : ((rd ++ [(t'.id, wk1'.id, v)]).map (·.1)).Nodup := by
    rw [List.map_append, List.nodup_append]
    refine ⟨h.d2, by simp, ?_⟩
    intro a ha b hb
    simp only [List.map_cons, List.map_nil, List.mem_singleton] at hb
    subst hb
    obtain ⟨x, hx, rfl⟩ := List.mem_map.mp ha
    intro e
    obtain ⟨k, y, z⟩ := x
    simp only at e; subst e
    exact hnr y z hx
  refine h.frame t'.id ?_ ?_ ?_ ?_ ?_ ?_ ?_ ?_ ?_ hd2 (fun x => by rw [a2]; exact nd1 x)
    (nodup_preW_put_erase hw2 hP2 ndp1)
  all_goals simp only [stOf_put ht, a2, m1, p1, p2, q1, q2, List.mem_append, List.mem_singleton, Prod.mk.injEq, hs']
  · grind
  · grind
  · grind
  · grind
  · grind
  · intro x hx
    refine ⟨_, rfl, ?_⟩
    simp only [Holds_retracting, List.mem_append, List.mem_singleton, Prod.mk.injEq]
    rcases hx with hx | hx
    · exact ⟨v, Or.inr ⟨trivial, hx.1, rfl⟩⟩
    · obtain ⟨st, h1, h2⟩ := ha1 x _ hx
      rw [hst] at h1; cases h1
      exact absurd h2 (by simp)
  · intro x hx
    have := ha2 x _ hx.1
    rw [hst] at this; cases this
    exact absurd ⟨hold.symm, trivial⟩ hx.2
  · grind
  · intro x v' _; exact ⟨old, rfl⟩

/-! ### what a scheduling round may assume about the queues -/

/-- all ids of a task queue: ready entries and the prefill set -/
def qIds (q : Queue) : List TaskId :=
  (q.ready.map (·.2)).flatten ++ (match q.prefill with | some (_, ts) => ts | none => [])

/-- the task `id` (if known) has request `i` and is not a registered consumer of any task in the map -/
def Good (s : State) (i : Nat) (id : TaskId) : Prop :=
  ∀ task, findTask s.tasks id = some task → task.rq = i ∧ ∀ d dt, findTask s.tasks d = some dt → id ∉ dt.consumers

/-- **the queue / dependency clause of the sanity checks** assumed of the state before a scheduling round: every
id in ready/prefill queue `i` is a task of request `i` that is not a registered consumer of a task in the map
(= it has no unfinished dependency) -/
def QueueOk (s : State) : Prop := ∀ (i : Nat) (q : Queue), s.queues[i]? = some q → ∀ id ∈ qIds q, Good s i id

/-- the relation between the state at the start of the round and a later state of the same round: requests and
consumer lists are the same, the queues only lose ids or move them inside the same queue -/
structure Trk (s0 s : State) : Prop where
  rqs : s.rqs = s0.rqs
  skel : ∀ id, (findTask s.tasks id).map (fun t => (t.rq, t.consumers)) =
    (findTask s0.tasks id).map (fun t => (t.rq, t.consumers))
  qsub : ∀ (i : Nat) (q : Queue), s.queues[i]? = some q → ∀ id ∈ qIds q, ∃ q0, s0.queues[i]? = some q0 ∧ id ∈ qIds q0

theorem Trk.refl (s : State) : Trk s s := ⟨rfl, fun _ => rfl, fun _ q hq _ hid => ⟨q, hq, hid⟩⟩
theorem Trk.trans {a b c : State} (h1 : Trk a b) (h2 : Trk b c) : Trk a c := by
  refine ⟨h2.rqs.trans h1.rqs, fun id => (h2.skel id).trans (h1.skel id), ?_⟩
  intro i q hq id hid
  obtain ⟨q1, hq1, hid1⟩ := h2.qsub i q hq id hid
  exact h1.qsub i q1 hq1 id hid1

/-- only workers / redirects / flags changed -/
theorem Trk.of_eq {s s' : State} (ht : s'.tasks = s.tasks) (hq : s'.queues = s.queues) (hr : s'.rqs = s.rqs) : Trk s s' :=
  ⟨hr, fun _ => by rw [ht], fun i q hq' id hid => ⟨q, by rw [← hq]; exact hq', hid⟩⟩

/-- one task record replaced, request and consumers kept -/
theorem Trk.of_put {s s' : State} {t' told : Task} (hf : findTask s.tasks t'.id = some told)
    (hq : t'.rq = told.rq) (hc : t'.consumers = told.consumers)
    (ht : s'.tasks = putTask s.tasks t') (hqq : s'.queues = s.queues) (hr : s'.rqs = s.rqs) : Trk s s' := by
  refine ⟨hr, ?_, fun i q hq' id hid => ⟨q, by rw [← hqq]; exact hq', hid⟩⟩
  intro id
  rw [ht, findTask_putTask]
  split
  · rename_i e; rw [e, hf]; simp [hq, hc]
  · rfl

theorem Trk.good {s0 s : State} (h : Trk s0 s) {i : Nat} {id : TaskId} (hg : Good s0 i id) : Good s i id := by
  intro task ht
  have h1 := h.skel id
  rw [ht] at h1
  cases h0 : findTask s0.tasks id with
  | none => rw [h0] at h1; cases h1
  | some task0 =>
    rw [h0] at h1
    simp only [Option.map_some, Option.some.injEq, Prod.mk.injEq] at h1
    obtain ⟨g1, g2⟩ := hg task0 h0
    refine ⟨h1.1.trans g1, ?_⟩
    intro d dt hd
    have h2 := h.skel d
    rw [hd] at h2
    cases hd0 : findTask s0.tasks d with
    | none => rw [hd0] at h2; cases h2
    | some dt0 =>
      rw [hd0] at h2
      simp only [Option.map_some, Option.some.injEq, Prod.mk.injEq] at h2
      rw [h2.2]; exact g2 d dt0 hd0

/-! ### `create_task_mapping`: single-node placements -/

theorem placeSnBody_inv {s s' : State} {m m' : List WUpdate} {v : Nat} {r : Rq} {id : TaskId} {w i : Nat}
    (hi : Inv s) (hg : Good s i id) (h : s.placeSnBody m v r id w = .ok (s', m')) : Inv s' ∧ Trk s s' := by
  simp only [State.placeSnBody] at h
  split at h
  · cases h
  · rename_i s1 hw1
    obtain ⟨wk1, wk1', hfw1, hf1, rfl⟩ := withWorker_spec hw1
    obtain ⟨A, F, P, F', ha, _, hnm, rfl⟩ := insertSn_spec hf1
    have hwid : wk1.id = w := findWorker_some_id hfw1
    split at h
    · cases h
    · rename_i task hgt
      have ht : findTask s.tasks id = some task := getTask_spec hgt
      have hid : task.id = id := findTask_some_id ht
      have hst := stOf_of_find ht
      have ht' : ∀ st, findTask s.tasks ({ task with state := st } : Task).id = some task := by
        intro st; simpa [hid] using ht
      have hfw1' : findWorker s.workers ({ wk1 with assign := .sn (A ++ [id]) F' P } : Worker).id = some wk1 := by
        simpa [hwid] using hfw1
      split at h
      · -- Waiting → Assigned
        rename_i n hs
        cases h
        refine ⟨?_, Trk.of_put (ht' (.assigned w v)) rfl rfl rfl rfl rfl⟩
        show Inv4 (putTask s.tasks _) (putWorker s.workers _) s.redirects s.rqs
        refine hi.put_dispatch (ht' _) rfl rfl ?_ (by simp) ?_
        · intro d dt hd; simp only [hid]; exact (hg task ht).2 d dt hd
        · have hfree : Free3 s.workers s.redirects id := hi.ls.free_of_state (Or.inr (Or.inl ⟨n, by rw [hst, hs]⟩))
          exact hi.ls.mv_assign (wk := wk1) (ht' _) (by simpa [hid] using hfree) hfw1'
            (by simp [wAsg, ha, hid]; exact hnm) (by simp [wAsg, ha, hid]) (by simp [wPre, ha]) (by simp [wMn, ha])
            (fun _ _ _ _ => Iff.rfl) (fun x v' hx => absurd hx (by simpa [hid] using hfree.nr x v'))
            (by simp [hwid]) hi.ls.d2
      · -- Retracting: the redirect is (re)placed
        rename_i old hs
        split at h
        · rename_i t0 ot ov hfind
          change List.find? (fun x => decide (x.1 = id)) s.redirects = some (t0, ot, ov) at hfind
          have hmem := rd_mem_of_find hfind
          have ht0 : t0 = id := by simpa using hmem.2
          subst ht0
          split at h
          · cases h
          · rename_i r' hr'
            split at h
            · cases h
            · rename_i s3 hw2
              cases h
              obtain ⟨wk2, wk2', hfw2, hf2, rfl⟩ := withWorker_spec hw2
              obtain ⟨A2, F2, P2, F2', ha2, _, hm2, rfl⟩ := removeSn_spec hf2
              change findWorker (putWorker s.workers _) ot = some wk2 at hfw2
              have hwid2 : wk2.id = ot := findWorker_some_id hfw2
              refine ⟨?_, Trk.of_put (ht' (.retracting old)) rfl rfl rfl rfl rfl⟩
              show Inv4 (putTask s.tasks _) (putWorker (putWorker s.workers _) _) (s.redirects.filter _ ++ [(t0, w, v)]) s.rqs
              refine hi.put (ht' _) rfl rfl (by simp [hs, isWaiting]) (by simp) ?_
              have hl := hi.ls.mv_reredirect (t := t0) (old := old) (ov := ov) (v := v) (wk1 := wk1)
                (wk1' := { wk1 with assign := .sn (A ++ [t0]) F' P }) (wk2 := wk2)
                (wk2' := { wk2 with assign := .sn (A2.erase t0) F2' P2 }) (by rw [hst, hs])
                (by simpa [hwid2] using hmem.1) hfw1' (by simp [wAsg, ha]; exact hnm) (by simp [wAsg, ha])
                (by simp [wPre, ha]) (by simp [wMn, ha]) (by simpa [hwid2] using hfw2) (by simp [wAsg, ha2])
                (by simp [wPre, ha2]) (by simp [wMn, ha2])
              have e : (t0, ({ wk1 with assign := .sn (A ++ [t0]) F' P } : Worker).id, v) = (t0, w, v) := by simp [hwid]
              rw [e] at hl
              exact hl.mv_same (ht' (.retracting old)) (by simp [hs])
        · rename_i hnone
          change List.find? (fun x => decide (x.1 = id)) s.redirects = none at hnone
          cases h
          refine ⟨?_, Trk.of_eq rfl rfl rfl⟩
          show Inv4 s.tasks (putWorker s.workers _) (s.redirects.filter _ ++ [(id, w, v)]) s.rqs
          refine hi.workers ?_
          have hfree : Free3 s.workers s.redirects id :=
            hi.ls.free_of_retracting (w0 := old) (by rw [hst, hs]) (fun x v' => rd_find_none hnone x v')
          refine hi.ls.mv_assign_same (wk := wk1) ht hfree hfw1' (by simp [wAsg, ha]; exact hnm) (by simp [wAsg, ha])
            (by simp [wPre, ha]) (by simp [wMn, ha]) ?_ (fun _ _ _ => ⟨old, hs⟩) ?_ (rd_filter_append_nodup hi.ls.d2 _ _ _)
          · intro u x v' hu
            simp only [List.mem_append, rd_filter_mem, List.mem_singleton, Prod.mk.injEq]
            constructor
            · rintro (⟨h1, _⟩ | ⟨h1, _⟩)
              · exact h1
              · exact absurd h1 hu
            · intro h1; exact Or.inl ⟨h1, hu⟩
          · rw [hs]
            exact ⟨v, by simp [hwid]⟩
      · -- Prefilled elsewhere → Retracting with a redirect
        rename_i old hs
        split at h
        · cases h
        · rename_i s2 hw2
          split at h
          · cases h
          · rename_i hany
            cases h
            obtain ⟨wk2, wk2', hfw2, hf2, rfl⟩ := withWorker_spec hw2
            obtain ⟨A2, F2, P2, ha2, hm2, rfl⟩ := removePrefill_spec hf2
            change findWorker (putWorker s.workers _) old = some wk2 at hfw2
            have hwid2 : wk2.id = old := findWorker_some_id hfw2
            change ¬ (s.redirects.any (fun x => decide (x.1 = id)) = true) at hany
            have hnr : ∀ x v', (id, x, v') ∉ s.redirects := by
              intro x v' hmem
              apply hany
              exact List.any_eq_true.mpr ⟨_, hmem, by simp⟩
            refine ⟨?_, Trk.of_put (ht' (.retracting old)) rfl rfl rfl rfl rfl⟩
            show Inv4 (putTask s.tasks _) (putWorker (putWorker s.workers _) _) (s.redirects ++ [(id, w, v)]) s.rqs
            refine hi.put (ht' _) rfl rfl (by simp [hs, isWaiting]) (by simp) ?_
            have hl := hi.ls.mv_prefilled_redirect (t' := { task with state := .retracting old }) (old := old) (v := v)
              (wk1 := wk1) (wk1' := { wk1 with assign := .sn (A ++ [id]) F' P }) (wk2 := wk2)
              (wk2' := { wk2 with assign := .sn A2 F2 (P2.erase id) }) (ht' _) hs rfl (by simpa [hid] using hnr)
              hfw1' (by simp [wAsg, ha, hid]; exact hnm) (by simp [wAsg, ha, hid]) (by simp [wPre, ha]) (by simp [wMn, ha])
              (by simpa [hwid2] using hfw2) hwid2 (by simp [wAsg, ha2]) (by simp [wPre, ha2, hid]) (by simp [wMn, ha2])
            simpa [hwid, hid] using hl
      · cases h

theorem placeSn_inv {s s' : State} {m m' : List WUpdate} {v : Nat} {r : Rq} {id : TaskId} {w i : Nat}
    (hi : Inv s) (hg : Good s i id) (h : s.placeSn m v r id w = .ok (s', m')) : Inv s' ∧ Trk s s' :=
  placeSnBody_inv hi hg (placeSn_ok h).1

theorem placeAll_inv (l : List (TaskId × Nat)) (s0 s s' : State) (m m' : List WUpdate) (v : Nat) (r : Rq) (i : Nat)
    (hi : Inv s) (ht : Trk s0 s) (hg : ∀ p ∈ l, Good s0 i p.1)
    (h : s.placeAll m v r l = .ok (s', m')) : Inv s' ∧ Trk s0 s' := by
  induction l generalizing s m with
  | nil => simp only [State.placeAll] at h; cases h; exact ⟨hi, ht⟩
  | cons p rest ih =>
    obtain ⟨id, w⟩ := p
    simp only [State.placeAll] at h
    split at h
    · cases h
    · rename_i s1 m1 h1
      obtain ⟨a, b⟩ := placeSn_inv hi (ht.good (hg (id, w) (by simp))) h1
      exact ih _ _ a (ht.trans b) (fun p hp => hg p (by simp [hp])) h

/-! ### the ids taken from a queue come from that queue -/

def rIds (ready : List (Int × List TaskId)) : List TaskId := (ready.map (·.2)).flatten

theorem qIds_eq (q : Queue) : qIds q = rIds q.ready ++ (match q.prefill with | some (_, ts) => ts | none => []) := rfl

theorem rIds_cons (p : Int) (ids : List TaskId) (rest : List (Int × List TaskId)) :
    rIds ((p, ids) :: rest) = ids ++ rIds rest := by simp [rIds]

theorem takeFromFirst_sub (ready : List (Int × List TaskId)) (c : Nat) (id : TaskId) :
    (id ∈ rIds (takeFromFirst ready c).1 → id ∈ rIds ready) ∧ (id ∈ (takeFromFirst ready c).2 → id ∈ rIds ready) := by
  cases ready with
  | nil => simp [takeFromFirst]
  | cons x rest =>
    obtain ⟨p, ids⟩ := x
    simp only [takeFromFirst, rIds_cons, List.mem_append]
    constructor
    · split
      · exact fun h => Or.inr h
      · rw [rIds_cons, List.mem_append]
        rintro (h | h)
        · exact Or.inl (List.mem_of_mem_drop h)
        · exact Or.inr h
    · exact fun h => Or.inl (List.mem_of_mem_take h)

theorem takeFromQueue_sub (fuel : Nat) (ready : List (Int × List TaskId)) (count : Nat) (acc : List TaskId)
    (ready' : List (Int × List TaskId)) (res : List TaskId)
    (h : takeFromQueue fuel ready count acc = .ok (ready', res)) :
    (∀ id ∈ rIds ready', id ∈ rIds ready) ∧ (∀ id ∈ res, id ∈ acc ∨ id ∈ rIds ready) := by
  induction fuel generalizing ready count acc with
  | zero =>
    cases count with
    | zero => simp only [takeFromQueue] at h; cases h; exact ⟨fun _ h => h, fun _ h => Or.inl h⟩
    | succ n => simp only [takeFromQueue] at h; cases h
  | succ f ih =>
    cases count with
    | zero => simp only [takeFromQueue] at h; cases h; exact ⟨fun _ h => h, fun _ h => Or.inl h⟩
    | succ n =>
      simp only [takeFromQueue] at h
      split at h
      · cases h
      · obtain ⟨a, b⟩ := ih _ _ _ h
        refine ⟨fun id hid => (takeFromFirst_sub ready (n + 1) id).1 (a id hid), ?_⟩
        intro id hid
        rcases b id hid with h1 | h1
        · rcases List.mem_append.mp h1 with h2 | h2
          · exact Or.inl h2
          · exact Or.inr ((takeFromFirst_sub ready (n + 1) id).2 h2)
        · exact Or.inr ((takeFromFirst_sub ready (n + 1) id).1 h1)

theorem takeTasks_sub {q q' : Queue} {count : Nat} {taken : List TaskId} (h : q.takeTasks count taken = .ok q') :
    (∀ id ∈ qIds q', id ∈ qIds q) ∧ (∀ id ∈ taken, id ∈ qIds q) := by
  unfold Queue.takeTasks at h
  extract_lets fuel at h
  split at h
  · -- no prefill set
    rename_i hpre
    split at h
    · cases h
    · rename_i ready' res hq
      obtain ⟨a, b⟩ := takeFromQueue_sub _ _ _ _ _ _ hq
      split at h
      · cases h
      · rename_i hres
        simp only [ne_eq, Decidable.not_not] at hres
        cases h
        simp only [qIds_eq, hpre, List.append_nil]
        refine ⟨fun id hid => a id hid, fun id hid => ?_⟩
        rcases b id (hres ▸ hid) with h1 | h1
        · cases h1
        · exact h1
  · rename_i pp pset hpre
    extract_lets samePrio at h
    split at h
    rename_i ready1 res1 hx
    have hx' : (∀ id ∈ rIds ready1, id ∈ rIds q.ready) ∧ (∀ id ∈ res1, id ∈ rIds q.ready) := by
      split at hx
      · have e1 : ready1 = (takeFromFirst q.ready count).1 := by rw [hx]
        have e2 : res1 = (takeFromFirst q.ready count).2 := by rw [hx]
        rw [e1, e2]
        exact ⟨fun id hid => (takeFromFirst_sub q.ready count id).1 hid, fun id hid => (takeFromFirst_sub q.ready count id).2 hid⟩
      · cases hx
        exact ⟨fun _ h => h, fun _ h => by cases h⟩
    extract_lets count1 k picks pset' count2 at h
    split at h
    · cases h
    · rename_i hchk
      simp only [Bool.or_eq_true, Bool.not_eq_true', decide_eq_true_eq, not_or, Bool.not_eq_false, ne_eq,
        Decidable.not_not] at hchk
      split at h
      · cases h
      · rename_i ready' res3 hq
        obtain ⟨a, b⟩ := takeFromQueue_sub _ _ _ _ _ _ hq
        split at h
        · cases h
        · rename_i hres
          simp only [ne_eq, Decidable.not_not] at hres
          cases h
          have hpicks : ∀ id ∈ picks, id ∈ pset := by
            intro id hid
            have := List.all_eq_true.mp hchk.1.1 id hid
            simpa using this
          simp only [qIds_eq, hpre, List.mem_append]
          constructor
          · intro id hid
            rcases hid with h1 | h1
            · exact Or.inl (hx'.1 id (a id h1))
            · right
              split at h1
              · rename_i hh
                split at hh
                · cases hh
                · cases hh
                  exact (List.mem_filter.mp h1).1
              · cases h1
          · intro id hid
            rw [← hres] at hid
            rcases List.mem_append.mp hid with h1 | h1
            · rcases List.mem_append.mp h1 with h2 | h2
              · exact Or.inl (hx'.2 id h2)
              · exact Or.inr (hpicks id h2)
            · rcases b id h1 with h2 | h2
              · cases h2
              · exact Or.inl (hx'.1 id h2)

theorem dealRound_sub (counts : List (Nat × Nat)) (tasks : List TaskId) (acc : List (TaskId × Nat)) :
    (∀ p ∈ (dealRound counts tasks acc).2.2, p ∈ acc ∨ p.1 ∈ tasks) ∧
    (∀ t ∈ (dealRound counts tasks acc).2.1, t ∈ tasks) := by
  induction counts generalizing tasks acc with
  | nil => simp only [dealRound]; exact ⟨fun p hp => Or.inl hp, fun t ht => ht⟩
  | cons wc rest ih =>
    obtain ⟨w, c⟩ := wc
    cases tasks with
    | nil => simp only [dealRound]; exact ⟨fun p hp => Or.inl hp, fun t ht => ht⟩
    | cons t ts =>
      simp only [dealRound]
      split
      · obtain ⟨a, b⟩ := ih ts (acc ++ [(t, w)])
        constructor
        · intro p hp
          rcases a p hp with h1 | h1
          · rcases List.mem_append.mp h1 with h2 | h2
            · exact Or.inl h2
            · simp only [List.mem_singleton] at h2; subst h2; exact Or.inr (by simp)
          · exact Or.inr (List.mem_cons_of_mem _ h1)
        · intro x hx; exact List.mem_cons_of_mem _ (b x hx)
      · exact ih (t :: ts) acc

theorem deal_sub (fuel : Nat) (counts : List (Nat × Nat)) (tasks : List TaskId) (acc : List (TaskId × Nat)) :
    ∀ p ∈ deal fuel counts tasks acc, p ∈ acc ∨ p.1 ∈ tasks := by
  induction fuel generalizing counts tasks acc with
  | zero => simp only [deal]; exact fun p hp => Or.inl hp
  | succ f ih =>
    simp only [deal]
    split
    · exact fun p hp => Or.inl hp
    · intro p hp
      obtain ⟨a, b⟩ := dealRound_sub counts tasks acc
      rcases ih _ _ _ p hp with h1 | h1
      · exact a p h1
      · exact Or.inr (b _ h1)

/-- a queue is replaced by one with fewer ids -/
theorem Trk.of_queue_set {s : State} {i : Nat} {q q' : Queue} (hq : s.queues[i]? = some q)
    (hsub : ∀ id ∈ qIds q', id ∈ qIds q) : Trk s { s with queues := s.queues.set i q' } := by
  refine ⟨rfl, fun _ => rfl, ?_⟩
  intro j qj hj id hid
  simp only [List.getElem?_set] at hj
  split at hj
  · rename_i e
    subst e
    split at hj
    · cases hj; exact ⟨q, hq, hsub id hid⟩
    · cases hj
  · exact ⟨qj, hj, hid⟩

theorem mapSn_inv (es : List SnEntry) (s0 s s' : State) (now : Nat) (m m' : List WUpdate)
    (hq0 : QueueOk s0) (hi : Inv s) (ht : Trk s0 s) (h : s.mapSn now m es = .ok (s', m')) : Inv s' ∧ Trk s0 s' := by
  induction es generalizing s m with
  | nil => simp only [State.mapSn] at h; cases h; exact ⟨hi, ht⟩
  | cons e rest ih =>
    simp only [State.mapSn] at h
    split at h
    · cases h
    · rename_i r hr
      split at h
      · cases h
      · split at h
        · cases h
        · rename_i q hq
          split at h
          · cases h
          · rename_i q' htk
            obtain ⟨a, b⟩ := takeTasks_sub htk
            have ht1 : Trk s { s with queues := s.queues.set e.rq q' } := Trk.of_queue_set hq a
            split at h
            · cases h
            · rename_i s2 m2 hp
              have hgood : ∀ p ∈ deal (e.taken.length + 1) e.counts e.taken [], Good s0 e.rq p.1 := by
                intro p hp
                rcases deal_sub _ _ _ _ p hp with h1 | h1
                · cases h1
                · obtain ⟨q0, hq0', hid0⟩ := ht.qsub e.rq q hq p.1 (b _ h1)
                  exact hq0 e.rq q0 hq0' p.1 hid0
              have hi1 : Inv { s with queues := s.queues.set e.rq q' } := hi
              obtain ⟨c, d⟩ := placeAll_inv _ s0 _ _ _ _ _ _ e.rq hi1 (ht.trans ht1) hgood hp
              exact ih _ _ c d h

/-! ### `create_task_mapping`: multi-node placements -/

theorem setMnAll_spec (l : List Nat) (s s' : State) (id : TaskId) (first : Bool) (h : setMnAll s id l first = .ok s') :
    s'.tasks = s.tasks ∧ s'.redirects = s.redirects ∧ s'.rqs = s.rqs ∧ s'.queues = s.queues ∧
    (∀ x, asgW s'.workers x = asgW s.workers x) ∧ (∀ x, preW s'.workers x = preW s.workers x) ∧
    (∀ x, mnW s'.workers x = if x ∈ l then some id else mnW s.workers x) ∧ (∀ x ∈ l, mnW s.workers x = none) := by
  induction l generalizing s first with
  | nil =>
    simp only [setMnAll] at h; cases h
    exact ⟨rfl, rfl, rfl, rfl, fun _ => rfl, fun _ => rfl, fun _ => by simp, fun _ hx => by cases hx⟩
  | cons w rest ih =>
    simp only [setMnAll] at h
    split at h
    · cases h
    · rename_i s1 hw
      obtain ⟨wk, wk', hfw, hf, rfl⟩ := withWorker_spec hw
      obtain ⟨⟨F, ha⟩, rfl⟩ := setMn_spec hf
      have hwid : wk.id = w := findWorker_some_id hfw
      have hfw' : findWorker s.workers ({ wk with assign := .mn id first false } : Worker).id = some wk := by
        simpa [hwid] using hfw
      obtain ⟨a, b, c, d, e, f, g, k⟩ := ih _ _ h
      have hA : ∀ x, asgW (putWorker s.workers { wk with assign := .mn id first false }) x = asgW s.workers x :=
        asgW_put_same hfw' (by simp [wAsg, ha])
      have hP : ∀ x, preW (putWorker s.workers { wk with assign := .mn id first false }) x = preW s.workers x :=
        preW_put_same hfw' (by simp [wPre, ha])
      have hM : ∀ x, mnW (putWorker s.workers { wk with assign := .mn id first false }) x =
          if x = w then some id else mnW s.workers x := by
        intro x; rw [mnW_put hfw']; simp [wMn, hwid]
      have hMw : mnW s.workers w = none := by rw [mnW_of_find hfw]; simp [wMn, ha]
      refine ⟨a, b, c, d, fun x => (e x).trans (hA x), fun x => (f x).trans (hP x), ?_, ?_⟩
      · intro x
        rw [g x]
        change (if x ∈ rest then some id else mnW (putWorker s.workers _) x) = _
        rw [hM x]
        by_cases h1 : x ∈ rest <;> by_cases h2 : x = w <;> simp [h1, h2]
      · intro x hx
        simp only [List.mem_cons] at hx
        rcases hx with rfl | hx
        · exact hMw
        · have := k x hx
          change mnW (putWorker s.workers _) x = none at this
          rw [hM x] at this
          split at this
          · cases this
          · exact this

/-- a Waiting task becomes RunningMultiNode on workers that were free -/
theorem LS3.mv_mn_place {ts ws ws' rd} (h : LS3 ts ws rd) {t' told : Task} {l : List Nat}
    (ht : findTask ts t'.id = some told) (hf : Free3 ws rd t'.id) (hs' : t'.state = .runningMN l)
    (hA : ∀ x, asgW ws' x = asgW ws x) (hP : ∀ x, preW ws' x = preW ws x)
    (hM : ∀ x, mnW ws' x = if x ∈ l then some t'.id else mnW ws x) (hN : ∀ x ∈ l, mnW ws x = none) :
    LS3 (putTask ts t') ws' rd := by
  have hna := hf.na
  have hnp := hf.np
  have hnm := hf.nm
  have hnr := hf.nr
  refine h.frame t'.id ?_ ?_ ?_ ?_ (fun _ _ _ _ => Iff.rfl) ?_ ?_ ?_ ?_ h.d2 (fun x => by rw [hA]; exact h.nda x)
    (fun x => by rw [hP]; exact h.ndp x)
  all_goals simp only [stOf_put ht, hA, hP, hM]
  · grind
  · grind
  · grind
  · intro x u hu
    by_cases hx : x ∈ l
    · simp only [hx, if_true, hN x hx]
      constructor
      · intro e; cases e; exact absurd rfl hu
      · intro e; cases e
    · simp [hx]
  · grind
  · grind
  · intro x hx
    refine ⟨l, by simp [hs'], ?_⟩
    by_cases hxl : x ∈ l
    · exact hxl
    · simp only [hxl, if_false] at hx
      exact absurd hx (hnm x)
  · grind

theorem mapMnSets_inv (sets : List (List Nat)) (s0 s s' : State) (rq : Nat) (acc acc' : List TaskId)
    (hq0 : QueueOk s0) (hmn : isMultiNodeRq s0.rqs rq = true) (hi : Inv s) (ht : Trk s0 s)
    (h : s.mapMnSets rq sets acc = .ok (s', acc')) : Inv s' ∧ Trk s0 s' := by
  induction sets generalizing s acc with
  | nil => simp only [State.mapMnSets] at h; cases h; exact ⟨hi, ht⟩
  | cons ws rest ih =>
    simp only [State.mapMnSets] at h
    split at h
    · cases h
    · rename_i q hq
      split at h
      · cases h
      · rename_i p ids more hready
        split at h
        · cases h
        · rename_i id ids'
          split at h
          · cases h
          · rename_i s2 hset
            obtain ⟨a, b, c, d, e, f, g, k⟩ := setMnAll_spec _ _ _ _ _ hset
            split at h
            · cases h
            · rename_i task hgt
              split at h
              · cases h
              · rename_i hst0
                simp only [ne_eq, Decidable.not_not] at hst0
                have hft2 : findTask s2.tasks id = some task := getTask_spec hgt
                have hft : findTask s.tasks id = some task := by rw [a] at hft2; exact hft2
                have hid : task.id = id := findTask_some_id hft
                -- the popped id comes from the queue
                have hidq : id ∈ qIds q := by
                  rw [qIds_eq, hready, rIds_cons]; simp
                obtain ⟨q0, hq0', hid0⟩ := ht.qsub rq q hq id hidq
                have hgood : Good s rq id := ht.good (hq0 rq q0 hq0' id hid0)
                obtain ⟨g1, g2⟩ := hgood task hft
                have ht' : findTask s.tasks ({ task with state := .runningMN ws } : Task).id = some task := by
                  rw [hid]; exact hft
                have hfree : Free3 s.workers s.redirects id :=
                  hi.ls.free_of_state (Or.inr (Or.inl ⟨0, by rw [stOf_of_find hft, hst0]⟩))
                refine ih _ _ ?_ ?_ h
                · show Inv4 (putTask s2.tasks _) s2.workers s2.redirects s2.rqs
                  rw [a, b, c]
                  change Inv4 (putTask s.tasks _) s2.workers s.redirects s.rqs
                  refine hi.put_dispatch ht' rfl rfl (by simp only [hid]; exact g2) ?_ ?_
                  · intro _ _
                    rw [g1, ht.rqs]; exact hmn
                  · exact hi.ls.mv_mn_place (t' := { task with state := .runningMN ws }) ht'
                      (by show Free3 _ _ task.id; rw [hid]; exact hfree) rfl e f (by simpa [hid] using g) k
                · refine ht.trans ?_
                  have t1 : Trk s { s with queues := s.queues.set rq { q with ready := if ids'.isEmpty then more else (p, ids') :: more } } := by
                    refine Trk.of_queue_set hq ?_
                    intro x hx
                    rw [qIds_eq] at hx ⊢
                    simp only [List.mem_append] at hx ⊢
                    rcases hx with h1 | h1
                    · left
                      rw [hready, rIds_cons]
                      split at h1
                      · exact List.mem_append.mpr (Or.inr h1)
                      · rw [rIds_cons] at h1
                        rcases List.mem_append.mp h1 with h2 | h2
                        · exact List.mem_append.mpr (Or.inl (List.mem_cons_of_mem _ h2))
                        · exact List.mem_append.mpr (Or.inr h2)
                    · exact Or.inr h1
                  refine t1.trans ?_
                  refine (Trk.of_eq (s' := s2) a d c).trans ?_
                  exact Trk.of_put (s' := s2.setTask { task with state := .runningMN ws }) (t' := { task with state := .runningMN ws })
                    (told := task) (by rw [hid]; exact hft2) rfl rfl rfl rfl rfl

theorem mapMn_inv (es : List MnEntry) (s0 s s' : State) (acc acc' : List TaskId)
    (hq0 : QueueOk s0) (hmn : ∀ e ∈ es, isMultiNodeRq s0.rqs e.rq = true) (hi : Inv s) (ht : Trk s0 s)
    (h : s.mapMn es acc = .ok (s', acc')) : Inv s' ∧ Trk s0 s' := by
  induction es generalizing s acc with
  | nil => simp only [State.mapMn] at h; cases h; exact ⟨hi, ht⟩
  | cons e rest ih =>
    simp only [State.mapMn] at h
    split at h
    · cases h
    · rename_i s1 acc1 h1
      obtain ⟨a, b⟩ := mapMnSets_inv _ s0 _ _ _ _ _ hq0 (hmn e (by simp)) hi ht h1
      exact ih _ _ (fun e' he' => hmn e' (by simp [he'])) a b h

/-! ### proactive filling -/

theorem insertTid_sub (t : TaskId) (ids : List TaskId) (x : TaskId) (h : x ∈ insertTid t ids) : x = t ∨ x ∈ ids := by
  induction ids with
  | nil => simp only [insertTid, List.mem_singleton] at h; exact Or.inl h
  | cons y ys ih =>
    simp only [insertTid] at h
    split at h
    · exact Or.inr h
    · split at h
      · simp only [List.mem_cons] at h ⊢
        rcases h with h | h | h
        · exact Or.inl h
        · exact Or.inr (Or.inl h)
        · exact Or.inr (Or.inr h)
      · simp only [List.mem_cons] at h ⊢
        rcases h with h | h
        · exact Or.inr (Or.inl h)
        · rcases ih h with h1 | h1
          · exact Or.inl h1
          · exact Or.inr (Or.inr h1)

theorem readyAdd_sub (ready : List (Int × List TaskId)) (t : TaskId) (p : Int) (x : TaskId)
    (h : x ∈ rIds (readyAdd ready t p)) : x = t ∨ x ∈ rIds ready := by
  induction ready with
  | nil => simp only [readyAdd, rIds_cons, List.mem_append, List.mem_singleton] at h; rcases h with h | h; exact Or.inl h; cases h
  | cons e rest ih =>
    obtain ⟨q, ids⟩ := e
    simp only [readyAdd] at h
    split at h
    · rw [rIds_cons, List.mem_append] at h
      rw [rIds_cons, List.mem_append]
      rcases h with h | h
      · rcases insertTid_sub _ _ _ h with h1 | h1
        · exact Or.inl h1
        · exact Or.inr (Or.inl h1)
      · exact Or.inr (Or.inr h)
    · split at h
      · rw [rIds_cons, List.mem_append, List.mem_singleton] at h
        rcases h with h | h
        · exact Or.inl h
        · exact Or.inr h
      · rw [rIds_cons, List.mem_append] at h
        rw [rIds_cons, List.mem_append]
        rcases h with h | h
        · exact Or.inr (Or.inl h)
        · rcases ih h with h1 | h1
          · exact Or.inl h1
          · exact Or.inr (Or.inr h1)

theorem movePrefilledToReady_trk {s s' : State} {rq : Nat} {t : TaskId} (h : s.movePrefilledToReady rq t = .ok s') :
    Trk s s' := by
  simp only [State.movePrefilledToReady] at h
  split at h
  · cases h
  · rename_i q hq
    split at h
    · cases h
    · rename_i pp ts hpre
      split at h
      · cases h
      · rename_i hc
        simp only [Bool.not_eq_true, Bool.not_eq_false] at hc
        have htm : t ∈ ts := by simpa using hc
        cases h
        refine Trk.of_queue_set hq ?_
        intro x hx
        rw [qIds_eq] at hx ⊢
        simp only [List.mem_append, hpre] at hx ⊢
        rcases hx with h1 | h1
        · rcases readyAdd_sub _ _ _ _ h1 with h2 | h2
          · subst h2; exact Or.inr htm
          · exact Or.inl h2
        · right
          split at h1
          · rename_i hh
            split at hh
            · cases hh
            · cases hh; exact List.mem_of_mem_erase h1
          · cases h1

theorem prefillBack_spec (rq : Nat) (l : List TaskId) (s s' : State) (keep keep' : List TaskId)
    (h : State.prefillWorker.back rq s l keep = .ok (s', keep')) :
    CoreEq s s' ∧ Trk s s' ∧ ∀ x ∈ keep', x ∈ keep ∨ x ∈ l := by
  induction l generalizing s keep with
  | nil =>
    simp only [State.prefillWorker.back] at h; cases h
    exact ⟨CoreEq.refl _, Trk.refl _, fun x hx => Or.inl hx⟩
  | cons id rest ih =>
    simp only [State.prefillWorker.back] at h
    split at h
    · cases h
    · split at h
      · split at h
        · cases h
        · rename_i s2 hm
          obtain ⟨a, b, c⟩ := ih _ _ h
          refine ⟨(movePrefilledToReady_core hm).trans a, (movePrefilledToReady_trk hm).trans b, ?_⟩
          intro x hx
          rcases c x hx with h1 | h1
          · exact Or.inl h1
          · exact Or.inr (List.mem_cons_of_mem _ h1)
      · obtain ⟨a, b, c⟩ := ih _ _ h
        refine ⟨a, b, ?_⟩
        intro x hx
        rcases c x hx with h1 | h1
        · rcases List.mem_append.mp h1 with h2 | h2
          · exact Or.inl h2
          · simp only [List.mem_singleton] at h2; subst h2; exact Or.inr (by simp)
        · exact Or.inr (List.mem_cons_of_mem _ h1)

theorem prefillMark_inv (w : Nat) (l : List TaskId) (s0 s s' : State) (i : Nat)
    (hi : Inv s) (ht : Trk s0 s) (hg : ∀ id ∈ l, Good s0 i id)
    (h : State.prefillWorker.mark w s l = .ok s') : Inv s' ∧ Trk s0 s' := by
  induction l generalizing s with
  | nil => simp only [State.prefillWorker.mark] at h; cases h; exact ⟨hi, ht⟩
  | cons id rest ih =>
    simp only [State.prefillWorker.mark] at h
    split at h
    · cases h
    · rename_i task hgt
      have hft : findTask s.tasks id = some task := getTask_spec hgt
      have hid : task.id = id := findTask_some_id hft
      split at h
      · rename_i n hs
        split at h
        · cases h
        · rename_i s2 hw
          obtain ⟨wk, wk', hfw, hf, rfl⟩ := withWorker_spec hw
          obtain ⟨A, F, P, ha, hnm, rfl⟩ := insertPrefill_spec hf
          change findWorker s.workers w = some wk at hfw
          have hwid : wk.id = w := findWorker_some_id hfw
          have ht' : findTask s.tasks ({ task with state := .prefilled w } : Task).id = some task := by
            rw [hid]; exact hft
          have hfree : Free3 s.workers s.redirects id :=
            hi.ls.free_of_state (Or.inr (Or.inl ⟨n, by rw [stOf_of_find hft, hs]⟩))
          obtain ⟨g1, g2⟩ := ht.good (hg id (by simp)) task hft
          refine ih _ ?_ ?_ (fun x hx => hg x (by simp [hx])) h
          · show Inv4 (putTask s.tasks _) (putWorker s.workers _) s.redirects s.rqs
            refine hi.put_dispatch ht' rfl rfl (by simp only [hid]; exact g2) (by simp) ?_
            exact hi.ls.mv_prefill (wk := wk) ht' (by show Free3 _ _ task.id; rw [hid]; exact hfree) (by simp [hwid])
              (by simpa [hwid] using hfw) (by simp [wAsg, ha]) (by simp [wPre, ha, hid]) (by simp [wMn, ha])
          · exact ht.trans (Trk.of_put ht' rfl rfl rfl rfl rfl)
      · cases h

theorem prefillWorker_inv {s0 s s' : State} {m m' : List WUpdate} {rq size w : Nat}
    (hq0 : QueueOk s0) (hi : Inv s) (ht : Trk s0 s)
    (h : s.prefillWorker m rq size w = .ok (s', m')) : Inv s' ∧ Trk s0 s' := by
  simp only [State.prefillWorker] at h
  split at h
  · cases h
  · rename_i q hq
    split at h
    · cases h
    · rename_i p ids0 more hready
      split at h
      · cases h
      · rename_i pf hpf
        -- the new prefill set consists of ids of the queue
        have hsub : ∀ x ∈ qIds ({ ready := (takeFromFirst q.ready size).1, prefill := some pf } : Queue), x ∈ qIds q := by
          intro x hx
          rw [qIds_eq] at hx ⊢
          simp only [List.mem_append] at hx ⊢
          rcases hx with h1 | h1
          · exact Or.inl ((takeFromFirst_sub q.ready size x).1 h1)
          · split at hpf
            · rename_i pp ts hpre
              split at hpf
              · cases hpf
              · cases hpf
                simp only [hpre]
                rcases List.mem_append.mp h1 with h2 | h2
                · exact Or.inr h2
                · exact Or.inl ((takeFromFirst_sub q.ready size x).2 h2)
            · cases hpf
              exact Or.inl ((takeFromFirst_sub q.ready size x).2 h1)
        have ht1 := Trk.of_queue_set (q' := { ready := (takeFromFirst q.ready size).1, prefill := some pf }) hq hsub
        split at h
        · cases h
        · rename_i s2 keep hb
          obtain ⟨a, b, c⟩ := prefillBack_spec _ _ _ _ _ _ hb
          split at h
          · cases h
          · rename_i s3 hm
            cases h
            have hi2 : Inv s2 := a.inv hi
            refine prefillMark_inv w keep s0 s2 _ rq hi2 ((ht.trans ht1).trans b) ?_ hm
            intro id hid
            rcases c id hid with h1 | h1
            · cases h1
            · have : id ∈ qIds q := by
                rw [qIds_eq]; exact List.mem_append.mpr (Or.inl ((takeFromFirst_sub q.ready size id).2 h1))
              obtain ⟨q0, hq0', hid0⟩ := ht.qsub rq q hq id this
              exact hq0 rq q0 hq0' id hid0

theorem prefillWorkers_inv (ws : List Nat) (s0 s s' : State) (m m' : List WUpdate) (rq size : Nat)
    (hq0 : QueueOk s0) (hi : Inv s) (ht : Trk s0 s)
    (h : s.prefillWorkers m rq size ws = .ok (s', m')) : Inv s' ∧ Trk s0 s' := by
  induction ws generalizing s m with
  | nil => simp only [State.prefillWorkers] at h; cases h; exact ⟨hi, ht⟩
  | cons w rest ih =>
    simp only [State.prefillWorkers] at h
    split at h
    · cases h
    · rename_i s1 m1 h1
      obtain ⟨a, b⟩ := prefillWorker_inv hq0 hi ht h1
      exact ih _ _ a b h

theorem proactive_inv (n : Nat) (s0 s s' : State) (m m' : List WUpdate) (orders : List (Nat × List Nat)) (top : Int)
    (rq : Nat) (hq0 : QueueOk s0) (hi : Inv s) (ht : Trk s0 s)
    (h : s.proactive m orders top n rq = .ok (s', m')) : Inv s' ∧ Trk s0 s' := by
  induction n generalizing s m rq with
  | zero => simp only [State.proactive] at h; cases h; exact ⟨hi, ht⟩
  | succ k ih =>
    simp only [State.proactive] at h
    repeat' (split at h)
    all_goals first
      | (cases h; done)
      | (cases h; exact ⟨hi, ht⟩)
      | exact ih _ _ _ hi ht h
      | (rename_i s1 m1 h1
         obtain ⟨a, b⟩ := prefillWorkers_inv _ s0 _ _ _ _ _ _ hq0 hi ht h1
         exact ih _ _ _ a b h)

/-! ### one scheduling round -/

/-- side condition of a `schedule` operation on the solution: multi-node placements only for multi-node requests -/
def SolMnOk (s : State) (sol : Solution) : Prop := ∀ e ∈ sol.mn, isMultiNodeRq s.rqs e.rq = true

instance (s : State) (sol : Solution) : Decidable (SolMnOk s sol) := by unfold SolMnOk; infer_instance

theorem schedule_inv {s s' : State} {sol : Solution} {o : Out} (hi : Inv s) (hq : QueueOk s) (hm : SolMnOk s sol)
    (h : s.schedule sol = .ok (s', o)) : Inv s' := by
  simp only [State.schedule] at h
  split at h
  · cases h
  · rename_i s1 m1 h1
    obtain ⟨a1, b1⟩ := mapSn_inv _ s _ _ _ _ _ hq hi (Trk.refl s) h1
    split at h
    · cases h
    · rename_i s2 mnTasks h2
      obtain ⟨a2, b2⟩ := mapMn_inv _ s _ _ _ _ hq hm a1 b1 h2
      split at h
      · cases h
      · rename_i s3 m3 h3
        have a3 : Inv s3 := by
          split at h3
          · cases h3; exact a2
          · exact (proactive_inv _ s _ _ _ _ _ _ _ hq a2 b2 h3).1
        split at h
        · cases h
        · split at h
          · cases h
          · cases h
            exact a3

end HqModel.Core
