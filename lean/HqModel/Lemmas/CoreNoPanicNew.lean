import HqModel.Lemmas.CoreNoPanicHead
import HqModel.Lemmas.CoreNoPanicQ4
/-!
C09 progress, part 8: `on_new_tasks` does not panic.

`newTasks_ok`: from `QInv U none [] s` (the ids of the map are in `U`), `TWI noD s`, `NpIdx s` (one queue per request),
`NpQ noD [] s`, fresh and distinct new ids and `NewTasksOk` (non-empty, request ids in range).
-/
namespace HqModel.Core

namespace NP

theorem addNewTasks_qlen : ∀ (nts : List NewTask) (s s' : State) (r r' : List TaskId),
    s.addNewTasks nts r = .ok (s', r') → s'.queues.length = s.queues.length
  | [], s, s', r, r', h => by simp only [State.addNewTasks] at h; cases h; rfl
  | nt :: rest, s, s', r, r', h => by
    simp only [State.addNewTasks] at h
    split at h
    · cases h
    · split at h
      · split at h
        · cases h
        · rename_i s2 r2 ha
          have e1 := addNewTasks_qlen rest _ s' _ r' h
          have e2 := addReady_qlen ha
          exact e1.trans e2
      · have e1 := addNewTasks_qlen rest _ s' _ r' h
        exact e1

theorem findTask_none_of_not_mem_ids {ts : List Task} {id : TaskId} (h : id ∉ taskIds ts) : findTask ts id = none :=
  findTask_none_of_not_mem h

theorem addNewTasks_ok : ∀ (nts : List NewTask) (s : State) (r : List TaskId) (U : List TaskId),
    QInv U none [] s → (∀ nt ∈ nts, nt.id ∉ U) → (nts.map (·.id)).Nodup →
    (∀ nt ∈ nts, nt.rq < s.queues.length) → ∃ res, s.addNewTasks nts r = .ok res
  | [], s, r, _, _, _, _, _ => ⟨_, rfl⟩
  | nt :: rest, s, r, U, hq, hfresh, hnd, hrq => by
    -- one iteration, then the rest
    have hone : ∃ s1 r1, s.addNewTasks [nt] r = .ok (s1, r1) := by
      simp only [State.addNewTasks]
      have hnot : nt.id ∉ taskIds (registerDeps s.tasks nt.id nt.deps).1 := by
        rw [registerDeps_ids]
        intro hm
        obtain ⟨t, ht, e⟩ := List.mem_map.mp hm
        exact hfresh nt List.mem_cons_self (e ▸ hq.uT t ht)
      have hnone : findTask (registerDeps s.tasks nt.id nt.deps).1 nt.id = none := findTask_none_of_not_mem hnot
      simp only [hnone, Option.isSome_none, Bool.false_eq_true, if_false]
      split
      · have hlt := hrq nt List.mem_cons_self
        rename_i hn0
        obtain ⟨⟨s2, r2⟩, ha⟩ := addReady_ok (s := { s with tasks := (registerDeps s.tasks nt.id nt.deps).1 })
          (t := { id := nt.id, state := .waiting (registerDeps s.tasks nt.id nt.deps).2.2,
                  deps := (registerDeps s.tasks nt.id nt.deps).2.1, rq := nt.rq, prio := nt.prio,
                  crashLimit := nt.crashLimit, inst := nt.inst, crashes := nt.crashes }) hlt
        simp only [ha]
        exact ⟨_, _, rfl⟩
      · exact ⟨_, _, rfl⟩
    obtain ⟨s1, r1, h1⟩ := hone
    rw [addNewTasks_cons, h1]
    simp only [List.map_cons, List.nodup_cons] at hnd
    have hq1 := addNewTasks_q [nt] s s1 r r1 U hq
      (fun x hx => by simp only [List.mem_singleton] at hx; subst hx; exact hfresh x List.mem_cons_self)
      (by simp) h1
    apply addNewTasks_ok rest s1 r1 (U ++ [nt].map (·.id)) hq1
    · intro x hx hm
      rcases List.mem_append.mp hm with h2 | h2
      · exact hfresh x (List.mem_cons_of_mem _ hx) h2
      · simp only [List.map_cons, List.map_nil, List.mem_singleton] at h2
        exact hnd.1 (h2 ▸ List.mem_map_of_mem hx)
    · exact hnd.2
    · intro x hx
      rw [addNewTasks_qlen _ _ _ _ _ h1]
      exact hrq x (List.mem_cons_of_mem _ hx)

theorem newTasks_ok {U : List TaskId} {s : State} {nts : List NewTask} (hq : QInv U none [] s) (htw : TWI noD s)
    (hidx : NpIdx s) (hnq : NpQ noD [] s) (hok : NewTasksOk s nts) (hfresh : ∀ nt ∈ nts, nt.id ∉ U)
    (hnd : (nts.map (·.id)).Nodup) : ∃ r, s.newTasks nts = .ok r := by
  unfold State.newTasks
  have hne : nts.isEmpty = false := by
    cases nts with
    | nil => exact absurd rfl hok.1
    | cons a b => rfl
  simp only [hne, Bool.false_eq_true, if_false]
  obtain ⟨⟨s1, retracted⟩, h1⟩ := addNewTasks_ok nts s [] U hq hfresh hnd
    (fun nt hnt => by rw [hidx.ql]; exact (hok.2 nt hnt).1)
  simp only [h1]
  have htw1 : TWI noD s1 := addNewTasks_tw nts s s1 [] retracted htw h1
  have hnq1 : NpQ noD retracted s1 := NPC.addNewTasks_npq nts s s1 [] retracted hnq h1
  obtain ⟨⟨s2, out⟩, h2⟩ := retract_ok hnq1.rnd (retrReady_of htw1 hnq1 (fun _ _ e => e))
  simp only [h2]
  exact ⟨_, rfl⟩

end NP

end HqModel.Core
