import HqModel.Sched.Spec
/-! The decidable form of the batch specification implies the specification. -/
namespace HqModel.Sched

theorem batchesSpec_of_B {inst : Instance} {bs : List Batch} (h : batchesSpecB inst bs = true) :
    BatchesSpec inst bs := by
  simp only [batchesSpecB, Bool.and_eq_true, decide_eq_true_eq, List.all_eq_true, List.any_eq_true,
    Bool.or_eq_true, Bool.not_eq_true', decide_eq_false_iff_not] at h
  obtain ⟨hcl, hall⟩ := h
  refine ⟨hcl, fun b hb => (hall b hb).1.1.1.1, ?_, ?_, ?_, ?_, fun b hb => (hall b hb).2⟩
  · intro b hb hre
    have := (hall b hb).1.1.1.2
    simpa [hre] using this
  · intro b hb hre
    have := (hall b hb).1.1.1.2
    simpa [hre] using this
  · intro b hb cut hcut
    obtain ⟨t, ht, ⟨⟨h1, h2⟩, h3⟩, h4⟩ := (hall b hb).1.1.2 cut hcut
    exact ⟨t, ht, h1, h2, h3, h4⟩
  · intro b hb t ht hc hle hne
    rcases (hall b hb).1.2 t ht with ((h1 | h1) | h1) | h1
    · exact absurd hc h1
    · exact absurd hle h1
    · exact absurd (List.isEmpty_iff.mp h1) hne
    · obtain ⟨cut, hcut, h2, h3⟩ := h1
      exact ⟨cut, hcut, h2, h3⟩

end HqModel.Sched
