import HqModel.Lemmas.JobJournal
import HqModel.Lemmas.JobCompleted
import HqModel.Lemmas.JournalAL
/-!
# The simulation between the job layer (M4) and the meaning of the journal it writes

`Inv s A`: `A = meaning (journal so far)` and the M4 state `s` agree —
* every job of `s` that the journal has not reported completed is a job of `A` with the same open flag, the same
  task ids in the same order, the recorded outcome of every task = its terminal state in `s` (`waiting` for Waiting and
  Running), and a Running task has a recorded instance id (`JSim`);
* a job of `s` the journal no longer has is closed with every task terminal;
* job ids of `A` are below the job counter;
* `A` is closed under failure propagation (`DepOk` = `C03.DepClosed`).

`goodFrom A recs`: starting from `A`, every record of `recs` is allowed by `recordOk` in the state it is appended to,
and `DepOk` holds before and after every record.
-/
namespace HqModel.Emit
open HqModel.Job HqModel.Journal

/-! ### association lists -/

theorem alGet_mem {l : List (Nat × β)} {k : Nat} {v : β} (h : alGet l k = some v) : (k, v) ∈ l := by
  induction l with
  | nil => simp [alGet] at h
  | cons a r ih =>
    obtain ⟨k', w⟩ := a
    by_cases hk : k' = k
    · simp [alGet, hk] at h; subst hk; subst h; simp
    · simp only [alGet, hk, if_false] at h
      exact List.mem_cons_of_mem _ (ih h)

theorem mem_alSet {l : List (Nat × β)} {k : Nat} {v : β} {x : Nat × β} (h : x ∈ alSet l k v) :
    x = (k, v) ∨ x ∈ l := by
  induction l with
  | nil => simp [alSet] at h; exact .inl h
  | cons a r ih =>
    obtain ⟨k', w⟩ := a
    by_cases hk : k' = k
    · simp only [alSet, hk, if_true, List.mem_cons] at h
      rcases h with h | h
      · exact .inl h
      · exact .inr (List.mem_cons_of_mem _ h)
    · simp only [alSet, hk, if_false, List.mem_cons] at h
      rcases h with h | h
      · exact .inr (by simp [h])
      · rcases ih h with h | h
        · exact .inl h
        · exact .inr (List.mem_cons_of_mem _ h)

theorem mem_alDel {l : List (Nat × β)} {k : Nat} {x : Nat × β} (h : x ∈ alDel l k) : x ∈ l := by
  induction l with
  | nil => simp [alDel] at h
  | cons a r ih =>
    obtain ⟨k', w⟩ := a
    by_cases hk : k' = k
    · simp only [alDel, hk, if_true] at h
      exact List.mem_cons_of_mem _ (ih h)
    · simp only [alDel, hk, if_false, List.mem_cons] at h
      rcases h with h | h
      · simp [h]
      · exact List.mem_cons_of_mem _ (ih h)

theorem mem_alMap {f : β → γ} {l : List (Nat × β)} {x : Nat × γ} (h : x ∈ alMap f l) :
    ∃ y ∈ l, x = (y.1, f y.2) := by
  simp only [alMap, List.mem_map] at h
  obtain ⟨y, hy, rfl⟩ := h
  exact ⟨y, hy, rfl⟩

theorem alSet_alSet (l : List (Nat × β)) (k : Nat) (v w : β) : alSet (alSet l k v) k w = alSet l k w := by
  induction l with
  | nil => simp [alSet]
  | cons a r ih =>
    obtain ⟨k', u⟩ := a
    by_cases hk : k' = k
    · simp [alSet, hk]
    · simp [alSet, hk, ih]

/-! ### abstract jobs -/

/-- apply `f` to every task of an abstract job -/
def mapTasks (aj : AJob) (f : ATask → ATask) : AJob := { aj with tasks := aj.tasks.map f }

@[simp] theorem mapTasks_isOpen (aj : AJob) (f : ATask → ATask) : (mapTasks aj f).isOpen = aj.isOpen := rfl
@[simp] theorem mapTasks_tasks (aj : AJob) (f : ATask → ATask) : (mapTasks aj f).tasks = aj.tasks.map f := rfl

theorem find_mem {aj : AJob} {t : Nat} {a : ATask} (h : aj.find t = some a) : a ∈ aj.tasks ∧ a.id = t := by
  unfold AJob.find at h
  exact ⟨List.mem_of_find?_eq_some h, by simpa using List.find?_some h⟩

theorem find_of_nodup {aj : AJob} {a : ATask} (hnd : (aj.tasks.map (·.id)).Nodup) (ha : a ∈ aj.tasks) :
    aj.find a.id = some a := by
  unfold AJob.find
  generalize aj.tasks = l at hnd ha
  induction l with
  | nil => cases ha
  | cons x xs ih =>
    simp only [List.map_cons, List.nodup_cons] at hnd
    simp only [List.mem_cons] at ha
    rcases ha with rfl | ha
    · simp
    · have hne : x.id ≠ a.id := fun e => hnd.1 (List.mem_map.mpr ⟨a, ha, e.symm⟩)
      rw [List.find?_cons_of_neg (by simpa using hne)]
      exact ih hnd.2 ha

theorem find_exists {aj : AJob} {t : Nat} (h : t ∈ aj.tasks.map (·.id)) : ∃ a, aj.find t = some a := by
  unfold AJob.find
  obtain ⟨a, ha, hid⟩ := List.mem_map.mp h
  cases hf : aj.tasks.find? (·.id == t) with
  | some b => exact ⟨b, rfl⟩
  | none =>
    have := List.find?_eq_none.mp hf a ha
    simp [hid] at this

theorem find_mapTasks (aj : AJob) (f : ATask → ATask) (hid : ∀ a, (f a).id = a.id) (t : Nat) :
    (mapTasks aj f).find t = (aj.find t).map f := by
  unfold AJob.find mapTasks
  simp only [List.find?_map]
  have : ((fun x : ATask => x.id == t) ∘ f) = (fun x => x.id == t) := by
    funext a; simp [hid]
  rw [this]

theorem find_append (aj : AJob) (extra : List ATask) (n : Nat) (t : Nat) :
    ({ aj with tasks := aj.tasks ++ extra, nSubmits := n } : AJob).find t =
      match aj.find t with
      | some a => some a
      | none => extra.find? (·.id == t) := by
  unfold AJob.find
  simp only [List.find?_append]
  cases aj.tasks.find? (·.id == t) <;> rfl

/-! ### the job-level simulation -/

/-- recorded outcome of a job-layer task state -/
def oc : Job.TState → Outcome
  | .waiting | .running => .waiting
  | .finished => .finished
  | .failed => .failed
  | .canceled => .canceled
  | .aborted => .aborted

theorem oc_waiting_iff (x : Job.TState) : oc x = .waiting ↔ x.terminal = false := by
  cases x <;> simp [oc, Job.TState.terminal]

structure JSim (job : Job) (aj : AJob) : Prop where
  isOpen : aj.isOpen = job.isOpen
  ids : aj.tasks.map (·.id) = keys job.tasks
  st : ∀ a ∈ aj.tasks, ∃ x, lookup job.tasks a.id = some x ∧ a.st = oc x ∧ (x = .running → a.inst.isSome = true)

/-- closure under failure propagation of one abstract job -/
def JDep (aj : AJob) : Prop :=
  ∀ a ∈ aj.tasks, a.st = .waiting → ∀ d ∈ a.deps, ∀ b, aj.find d = some b → b.st = .waiting ∨ b.st = .finished

/-- `C03.DepClosed`, stated here to keep the lemma files independent of the property files -/
def DepOk (A : AState) : Prop := ∀ ja ∈ A.jobs, JDep ja.2

/-- a job of the job layer against the journal's entry for its id (`none`: reported completed) -/
def SimJ (job : Job) : Option AJob → Prop
  | some aj => JSim job aj
  | none => job.isOpen = false ∧ job.allTerminal

theorem JSim.find {job : Job} {aj : AJob} (h : JSim job aj) {t : Nat} {x : Job.TState}
    (hl : lookup job.tasks t = some x) :
    ∃ a, aj.find t = some a ∧ a ∈ aj.tasks ∧ a.id = t ∧ a.st = oc x ∧ (x = .running → a.inst.isSome = true) := by
  have hk : t ∈ aj.tasks.map (·.id) := by rw [h.ids]; exact mem_keys_of_lookup hl
  obtain ⟨a, ha⟩ := find_exists hk
  obtain ⟨hm, hid⟩ := find_mem ha
  obtain ⟨x', hx', hst, hin⟩ := h.st a hm
  rw [hid, hl] at hx'
  cases hx'
  exact ⟨a, ha, hm, hid, hst, hin⟩

theorem JSim.nodup {job : Job} {aj : AJob} (h : JSim job aj) (w : JobWF job) : (aj.tasks.map (·.id)).Nodup := by
  rw [h.ids]; exact w.nodup

/-- all tasks terminal in the job layer ⇒ every task has a recorded outcome -/
theorem JSim.all_outcome {job : Job} {aj : AJob} (h : JSim job aj) (ht : job.allTerminal) :
    aj.tasks.all (fun a => a.st != .waiting) = true := by
  simp only [List.all_eq_true, bne_iff_ne, ne_eq]
  intro a ha
  obtain ⟨x, hx, hst, -⟩ := h.st a ha
  have := ht _ (lookup_mem hx)
  rw [hst, oc_waiting_iff]
  simp [this]

/-- a task without recorded outcome is Waiting or Running in the job layer -/
theorem JSim.waiting {job : Job} {aj : AJob} (h : JSim job aj) {a : ATask} (ha : a ∈ aj.tasks)
    (hw : a.st = .waiting) : ∃ x, lookup job.tasks a.id = some x ∧ x.terminal = false := by
  obtain ⟨x, hx, hst, -⟩ := h.st a ha
  exact ⟨x, hx, (oc_waiting_iff x).mp (hst ▸ hw)⟩

/-- `JSim` after the same id-preserving map on both sides -/
theorem JSim.map {job job' : Job} {aj : AJob} (h : JSim job aj) (f : ATask → ATask)
    (hid : ∀ a, (f a).id = a.id) (hop : job'.isOpen = job.isOpen) (hk : keys job'.tasks = keys job.tasks)
    (hst : ∀ a ∈ aj.tasks, ∀ x, lookup job.tasks a.id = some x → a.st = oc x →
      (x = .running → a.inst.isSome = true) →
      ∃ x', lookup job'.tasks a.id = some x' ∧ (f a).st = oc x' ∧ (x' = .running → (f a).inst.isSome = true)) :
    JSim job' (mapTasks aj f) := by
  refine ⟨by simp [h.isOpen, hop], ?_, ?_⟩
  · simp only [mapTasks_tasks, List.map_map, hk, ← h.ids]
    exact List.map_congr_left (fun a _ => hid a)
  · intro a' ha'
    simp only [mapTasks_tasks, List.mem_map] at ha'
    obtain ⟨a, ha, rfl⟩ := ha'
    obtain ⟨x, hx, hs, hi⟩ := h.st a ha
    rw [hid]
    exact hst a ha x hx hs hi

/-- `JDep` after an id- and dependency-preserving map that keeps or terminates outcomes -/
theorem JDep.map {aj : AJob} (h : JDep aj) (f : ATask → ATask)
    (hid : ∀ a, (f a).id = a.id) (hdeps : ∀ a, (f a).deps = a.deps)
    (hw : ∀ a ∈ aj.tasks, (f a).st = .waiting → a.st = .waiting)
    (hb : ∀ a ∈ aj.tasks, a.st = .waiting → (f a).st = .waiting → ∀ d ∈ a.deps, ∀ b ∈ aj.tasks, b.id = d →
      (b.st = .waiting ∨ b.st = .finished) → ((f b).st = .waiting ∨ (f b).st = .finished)) :
    JDep (mapTasks aj f) := by
  intro a' ha' hw' d hd b' hb'
  simp only [mapTasks_tasks, List.mem_map] at ha'
  obtain ⟨a, ha, rfl⟩ := ha'
  rw [find_mapTasks aj f hid] at hb'
  cases hf : aj.find d with
  | none => rw [hf] at hb'; cases hb'
  | some b =>
    rw [hf] at hb'
    simp only [Option.map_some, Option.some.injEq] at hb'
    subst hb'
    rw [hdeps] at hd
    obtain ⟨hbm, hbid⟩ := find_mem hf
    exact hb a ha (hw a ha hw') hw' d hd b hbm hbid (h a ha (hw a ha hw') d hd b hf)

/-- maps that change neither id, outcome nor dependencies -/
theorem JDep.map_same {aj : AJob} (h : JDep aj) (f : ATask → ATask)
    (hid : ∀ a, (f a).id = a.id) (hdeps : ∀ a, (f a).deps = a.deps) (hst : ∀ a, (f a).st = a.st) :
    JDep (mapTasks aj f) :=
  h.map f hid hdeps (fun a _ h' => by rw [← hst]; exact h') (fun _ _ _ _ _ _ b _ _ hb => by rw [hst]; exact hb)

/-! ### the global invariant -/

structure Inv (s : State) (A : AState) : Prop where
  wf : StateWF s
  below : ∀ ja ∈ A.jobs, ja.1 < s.jobCtr
  sim : ∀ j job, s.getJob j = some job → SimJ job (alGet A.jobs j)
  dep : DepOk A

theorem stateWF_congr {s s' : State} (h : StateWF s) (hj : s'.jobs = s.jobs) (hc : s'.jobCtr = s.jobCtr) :
    StateWF s' :=
  ⟨by rw [hj]; exact h.jobs, by rw [hj]; exact h.ids, by rw [hj, hc]; exact h.below⟩

/-- the invariant reads only the jobs and the job counter of `s` and the jobs of `A` -/
theorem Inv.congr {s s' : State} {A A' : AState} (h : Inv s A) (hj : s'.jobs = s.jobs)
    (hc : s'.jobCtr = s.jobCtr) (ha : A'.jobs = A.jobs) : Inv s' A' := by
  refine ⟨stateWF_congr h.wf hj hc, ?_, ?_, ?_⟩
  · rw [ha, hc]; exact h.below
  · intro j job hg
    rw [ha]
    exact h.sim j job (by simpa [State.getJob, hj] using hg)
  · intro ja hja; rw [ha] at hja; exact h.dep ja hja

theorem Inv.init (A : AState) (hA : A.jobs = []) : Inv {} A := by
  refine ⟨init_wf, ?_, ?_, ?_⟩
  · intro ja hja; rw [hA] at hja; cases hja
  · intro j job hg; simp [State.getJob, findJob] at hg
  · intro ja hja; rw [hA] at hja; cases hja

theorem getJob_putJob (s : State) (b : Job) (j : Nat) :
    (s.putJob b).getJob j = if j = b.id then (s.getJob j).map (fun _ => b) else s.getJob j := by
  simp only [State.getJob, State.putJob, findJob_replaceJob]

/-- replace the stored job `j` and the journal's entry of `j` together -/
theorem Inv.put {s : State} {A : AState} {j : Nat} {job job' : Job} {aj' : AJob} (h : Inv s A)
    (hg : s.getJob j = some job) (hid : job'.id = j) (hw : JobWF job')
    (hin : (alGet A.jobs j).isSome = true) (hs : JSim job' aj') (hd : JDep aj') :
    Inv (s.putJob job') { A with jobs := alSet A.jobs j aj' } := by
  subst hid
  have hjid := getJob_id hg
  refine ⟨h.wf.putJob (by rw [hjid]; exact hg) hjid.symm hw, ?_, ?_, ?_⟩
  · intro ja hja
    simp only [State.putJob]
    rcases mem_alSet hja with rfl | hja
    · obtain ⟨aj, haj⟩ := Option.isSome_iff_exists.mp hin
      exact h.below (job'.id, aj) (alGet_mem haj)
    · exact h.below ja hja
  · intro k job'' hg'
    rw [getJob_putJob] at hg'
    simp only [alGet_set]
    by_cases hk : k = job'.id
    · subst hk
      rw [if_pos rfl, hg] at hg'
      simp only [Option.map_some, Option.some.injEq] at hg'
      subst hg'
      simp only [if_true]
      exact hs
    · rw [if_neg hk] at hg'
      have : ¬ job'.id = k := fun e => hk e.symm
      simp only [this, if_false]
      exact h.sim k job'' hg'
  · intro ja hja
    rcases mem_alSet hja with rfl | hja
    · exact hd
    · exact h.dep ja hja

/-- replace the stored job `j`, the journal unchanged -/
theorem Inv.putSame {s : State} {A : AState} {j : Nat} {job job' : Job} (h : Inv s A)
    (hg : s.getJob j = some job) (hid : job'.id = j) (hw : JobWF job')
    (hs : SimJ job' (alGet A.jobs j)) : Inv (s.putJob job') A := by
  subst hid
  have hjid := getJob_id hg
  refine ⟨h.wf.putJob (by rw [hjid]; exact hg) hjid.symm hw, h.below, ?_, h.dep⟩
  intro k job'' hg'
  rw [getJob_putJob] at hg'
  by_cases hk : k = job'.id
  · subst hk
    rw [if_pos rfl, hg] at hg'
    simp only [Option.map_some, Option.some.injEq] at hg'
    subst hg'
    exact hs
  · rw [if_neg hk] at hg'
    exact h.sim k job'' hg'

/-- the journal reports job `j` completed: its entry is removed -/
theorem Inv.del {s : State} {A : AState} {j : Nat} {job : Job} (h : Inv s A)
    (hg : s.getJob j = some job) (hc : job.isOpen = false) (ht : job.allTerminal) :
    Inv s { A with jobs := alDel A.jobs j } := by
  refine ⟨h.wf, fun ja hja => h.below ja (mem_alDel hja), ?_, fun ja hja => h.dep ja (mem_alDel hja)⟩
  intro k job' hg'
  simp only [alGet_del]
  by_cases hk : j = k
  · subst hk
    rw [hg] at hg'; cases hg'
    simp only [if_true]
    exact ⟨hc, ht⟩
  · simp only [hk, if_false]
    exact h.sim k job' hg'

/-- a new job gets the next id -/
theorem Inv.add {s : State} {A : AState} {job : Job} {aj : AJob} (h : Inv s A) (hid : job.id = s.jobCtr)
    (hw : JobWF job) (hs : JSim job aj) (hd : JDep aj) (l : List TaskId) (mj : Nat) :
    Inv { s with jobs := s.jobs ++ [job], jobCtr := s.jobCtr + 1, sent := l }
      { A with jobs := alSet A.jobs s.jobCtr aj, maxJob := mj } := by
  refine ⟨h.wf.addJob hid hw l, ?_, ?_, ?_⟩
  · intro ja hja
    rcases mem_alSet hja with rfl | hja
    · simp only []; omega
    · have := h.below ja hja; simp only []; omega
  · intro k job' hg'
    simp only [State.getJob, findJob_append] at hg'
    simp only [alGet_set]
    cases hf : findJob s.jobs k with
    | some x =>
      rw [hf] at hg'
      simp only [Option.some.injEq] at hg'
      subst hg'
      have hlt := h.wf.below x (findJob_some hf).1
      have hxid := (findJob_some hf).2
      have : ¬ s.jobCtr = k := by omega
      simp only [this, if_false]
      exact h.sim k x hf
    | none =>
      rw [hf] at hg'
      simp only at hg'
      split at hg'
      · rename_i hk
        cases hg'
        rw [hid] at hk
        simp only [hk, if_true]
        exact hs
      · cases hg'
  · intro ja hja
    rcases mem_alSet hja with rfl | hja
    · exact hd
    · exact h.dep ja hja

/-- a fresh id has no entry in the journal's job table -/
theorem Inv.fresh {s : State} {A : AState} (h : Inv s A) : alGet A.jobs s.jobCtr = none := by
  cases hf : alGet A.jobs s.jobCtr with
  | none => rfl
  | some aj => have := h.below _ (alGet_mem hf); simp at this

/-- a stored job that is open or has a non-terminal task is a job of the journal -/
theorem Inv.live {s : State} {A : AState} (h : Inv s A) {j : Nat} {job : Job} (hg : s.getJob j = some job)
    (hl : job.isOpen = true ∨ ∃ t x, lookup job.tasks t = some x ∧ x.terminal = false) :
    ∃ aj, alGet A.jobs j = some aj ∧ JSim job aj := by
  have := h.sim j job hg
  cases hf : alGet A.jobs j with
  | some aj => rw [hf] at this; exact ⟨aj, rfl, this⟩
  | none =>
    rw [hf] at this
    obtain ⟨hc, ht⟩ := this
    rcases hl with hl | ⟨t, x, hx, hnt⟩
    · rw [hl] at hc; cases hc
    · have := ht _ (lookup_mem hx)
      simp only at this
      rw [this] at hnt; cases hnt

/-- forgetting a stored job changes nothing for the journal -/
theorem Inv.forget {s : State} {A : AState} (h : Inv s A) (j : Nat) :
    Inv { s with jobs := s.jobs.filter (·.id != j) } A := by
  refine ⟨⟨?_, ?_, ?_⟩, h.below, ?_, h.dep⟩
  · intro x hx; exact h.wf.jobs x (List.mem_filter.mp hx).1
  · exact (List.filter_sublist.map _).nodup h.wf.ids
  · intro x hx; exact h.wf.below x (List.mem_filter.mp hx).1
  · intro k job hg
    simp only [State.getJob, findJob_filter] at hg
    split at hg
    · cases hg
    · exact h.sim k job hg

/-! ### journals that keep `recordOk` and `DepOk` -/

def goodFrom (A : AState) : List Record → Prop
  | [] => DepOk A
  | r :: rs => DepOk A ∧ recordOk A r = true ∧ goodFrom (meaningStep A r) rs

theorem goodFrom_append (A : AState) (l m : List Record) :
    goodFrom A (l ++ m) ↔ goodFrom A l ∧ goodFrom (l.foldl meaningStep A) m := by
  induction l generalizing A with
  | nil =>
    simp only [List.nil_append, goodFrom, List.foldl_nil]
    constructor
    · intro h
      refine ⟨?_, h⟩
      cases m with
      | nil => exact h
      | cons _ _ => exact h.1
    · exact fun h => h.2
  | cons r rs ih =>
    simp only [List.cons_append, goodFrom, List.foldl_cons, ih]
    constructor
    · exact fun ⟨a, b, c, d⟩ => ⟨⟨a, b, c⟩, d⟩
    · exact fun ⟨⟨a, b, c⟩, d⟩ => ⟨a, b, c, d⟩

theorem goodFrom.dep {A : AState} {l : List Record} (h : goodFrom A l) : DepOk A := by
  cases l with
  | nil => exact h
  | cons _ _ => exact h.1

theorem goodFrom.producible {A : AState} {l : List Record} (h : goodFrom A l) : producibleFrom A l = true := by
  induction l generalizing A with
  | nil => rfl
  | cons r rs ih => simp only [producibleFrom, Bool.and_eq_true]; exact ⟨h.2.1, ih h.2.2⟩

theorem goodFrom.prefix {A : AState} {l k : List Record} (h : goodFrom A l) (hk : k <+: l) :
    DepOk (k.foldl meaningStep A) := by
  obtain ⟨m, rfl⟩ := hk
  exact ((goodFrom_append A k m).mp h).2.dep

/-- one record between two configurations that satisfy the invariant -/
theorem goodFrom_one {s s' : State} {A : AState} {r : Record} (h : Inv s A) (hok : recordOk A r = true)
    (h' : Inv s' (meaningStep A r)) : goodFrom A [r] :=
  ⟨h.dep, hok, h'.dep⟩

end HqModel.Emit
