import HqModel.Lemmas.CoreNoPanicReactP
import HqModel.Lemmas.CoreNoPanicQ9
import HqModel.Lemmas.CoreNoPanicLoss1
import HqModel.Lemmas.CoreInvTW4
import HqModel.Lemmas.CoreMsgLoss
/-!
C09 progress for `on_remove_worker`, part 1 (namespace `HqModel.Core.NPL`): the decomposition of `State.removeWorker`,
the invariant bundle `NPR.Bd` after its first part (arm by arm), and the loop invariant of the crash loop.
Nothing existing was edited. Continued in `CoreNoPanicLossP2.lean`.

## Method

`State.removeWorker` = worker lookup; `lossPart1 s0 w wk.assign order` (`s0 = drop s w`, the state without the worker);
`lossTail` (`lostRetracting`, `retract retracted`, crash loop over `running`) — `removeWorker_eq` (by `rfl`).
Progress is proved forwards (every step yields `.ok`); after every step the full bundle `Bd U noD R s'` is
re-established from the existing preservation lemmas of the SINGLE loops (`lostPrefilled_*`, `lostAssigned_*`,
`lostRetracting_*`, `retract_*`; for the multi-node arm the inline arguments of `removeWorker_inv/_tw/_safe/_fr/_pre/_npq`
are repeated for the intermediate state), because the whole-function lemmas `removeWorker_*` only speak about the
final state. `WZ running s` ("every id of `running` that is still a task is `Waiting 0`") is what
`task_failed(worker = none)` asserts; it holds after part 1 and is kept by every later step (`lostRetracting` touches
only Retracting records, `retract` only Prefilled ones, the crash loop changes a counter, `taskFailed`+`cancelTasks`
only remove records: `NPC.Rem.st`).

## Status (everything listed is proved; no `sorry`, axioms: propext, Classical.choice, Quot.sound)

`CoreNoPanicLossP.lean`
* `lossPart1`, `lossTail` (defs), `removeWorker_eq`, `WZ`, `drop`, `drop_fr`
* `part1_sn_bd      : Bd U noD [] s → findWorker s.workers w = some wk → wk.assign = .sn A F P → (∀ u ∈ A, u ∈ order) →
    (∀ u ∈ order, u ∈ A) → (drop s w).lostPrefilled P = .ok s01 → s01.lostAssigned order [] [] = .ok (s1, running, retracted) →
    Bd U noD retracted s1`
* `part1_mnroot_bd  : … wk.assign = .mn tid root started → findTask s.tasks tid = some task →
    task.state = .runningMN (rootw :: others) → rootw = w → resetMnAll (drop s w) others = .ok s01 →
    (s01.setTask t').addReady t' = .ok (s3, r3) → Bd U noD r3 s3` (`t' = { task with state := .waiting 0, inst := task.inst + 1 }`)
* `part1_mnother_bd : … ¬ rootw = w → Bd U noD [] ((drop s w).setTask { task with state := .runningMN (… .filter (· ≠ w)) })`
* `WZ.nil`, `WZ.of_keeps`, `lostAssigned_wz` (`WZ ru s → lostAssigned ids ru re = .ok (s', ru', re') → WZ ru' s'`),
  `lostRetracting_keeps` (a record that is not Retracting is untouched), `lostRetracting_wz`, `retract_wz`

`CoreNoPanicLossP2.lean`
* `lossPart1_bd : Bd U noD [] s → findWorker s.workers w = some wk →
    lossPart1 (drop s w) w wk.assign order = .ok (s1, running, retracted) → Bd U noD retracted s1 ∧ WZ running s1`
* `lostPrefilled_rd` (redirects unchanged)
* `lossPart1_np = removeWorker_part1_np : Bd U noD [] s → s.worker? w = some wk →
    NoCorePanic (lossPart1 (drop s w) w wk.assign order)` (the only error is `!bad-choice order`)
* `Bd.lostRetracting`, `lossMid_ok : Bd U noD retracted s1 → WZ running s1 → ∃ s2 out1 s3 out2,
    s1.lostRetracting w s1.tasks {} = .ok (s2, out1) ∧ s2.retract retracted = .ok (s3, out2) ∧ Bd U noD [] s3 ∧ WZ running s3`
* `removeWorker_bd3` (= `lossPart1_bd` + `lossMid_ok`, from the pre-state bundle)
* `Bd.setCrashes`, `WZ.of_rem`, `retsOk_head`, `retsOk_tail`
* `crashLoop_ok (f) : ∀ ids s rets out, Bd U noD [] s → WZ ids s → RetsOk rets → ∃ r, s.crashLoop f ids rets out = .ok r`
  (uses `NPR.taskFailed_ok_none`, `NPR.Bd.taskFailed`, `NPC.taskFailed_npq … .2 : Rem`)
* `lossTail_ok : Bd U noD retracted s1 → WZ running s1 → RetsOk rets → ∃ r, lossTail s1 running retracted w reason f rets = .ok r`
* **`removeWorker_np : InvF s → QInv U none [] s → NpInv U [] s → (s.worker? w).isSome = true → RetsOk rets →
    NoCorePanic (s.removeWorker w reason f order rets)`**

## Not done

* nothing of the task is open.
-/
namespace HqModel.Core.NPL

open HqModel.Core.NP HqModel.Core.NPR

/-! ### decomposition of `State.removeWorker` -/

/-- part 1 of `on_remove_worker` (applied to `s0` = the state without the lost worker): the loops over the lost
worker's prefilled and assigned tasks, resp. the multi-node arm; result: state, `running`, `retracted` -/
def lossPart1 (s0 : State) (w : Nat) (a : Assign) (order : List TaskId) : M (State × List TaskId × List TaskId) :=
  match a with
  | .sn assigned _ prefilled =>
    if !(order.all assigned.contains && assigned.all order.contains && order.length = assigned.length) then
      .error (.panic "!bad-choice order")
    else
      match s0.lostPrefilled prefilled with
      | .error e => .error e
      | .ok s1 => s1.lostAssigned order [] []
  | .mn tid _ mnStarted =>
    match s0.getTask tid with
    | .error e => .error e
    | .ok task =>
      match task.state with
      | .runningMN ws =>
        match ws with
        | root :: others =>
          if root = w then
            match resetMnAll s0 others with
            | .error e => .error e
            | .ok s1 =>
              let t' := { task with state := .waiting 0, inst := task.inst + 1 }
              let s2 := s1.setTask t'
              match s2.addReady t' with
              | .error e => .error e
              | .ok (s3, r) => .ok (s3, if mnStarted then [tid] else [], r)
          else .ok (s0.setTask { task with state := .runningMN (ws.filter (· ≠ w)) }, [], [])
        | [] => .error (.panic "on_remove_worker.ws0")
      | _ => .error (.panic "on_remove_worker.unreachable")

/-- the rest of `on_remove_worker` -/
def lossTail (s1 : State) (running retracted : List TaskId) (w : Nat) (reason : String) (isFailure : Bool)
    (rets : List (List TaskId)) : M (State × Out) :=
  match s1.lostRetracting w s1.tasks {} with
  | .error e => .error e
  | .ok (s2, out1) =>
    match s2.retract retracted with
    | .error e => .error e
    | .ok (s3, out2) =>
      let out3 : Out := { cbs := [.workerLost w running reason] }
      match s3.crashLoop isFailure running rets ((out1.add out2).add out3) with
      | .error e => .error e
      | .ok (s4, out) => .ok (ask s4, out)

theorem removeWorker_eq (s : State) (w : Nat) (reason : String) (f : Bool) (order : List TaskId)
    (rets : List (List TaskId)) :
    s.removeWorker w reason f order rets =
      match s.worker? w with
      | none => .error (.panic "remove_worker.get_worker")
      | some wk =>
        match lossPart1 { s with workers := s.workers.filter (·.id ≠ w) } w wk.assign order with
        | .error e => .error e
        | .ok (s1, running, retracted) => lossTail s1 running retracted w reason f rets := by
  unfold State.removeWorker lossPart1 lossTail
  rfl

/-- every id of the list that is (still) a task of the map is `Waiting 0` -/
def WZ (l : List TaskId) (s : State) : Prop := ∀ id ∈ l, ∀ t, s.task? id = some t → t.state = .waiting 0


/-! ### the bundle after part 1, arm by arm -/

section
variable {U : List TaskId} {s : State} {w : Nat} {wk : Worker}

/-- the state without the lost worker -/
abbrev drop (s : State) (w : Nat) : State := { s with workers := s.workers.filter (·.id ≠ w) }

theorem drop_fr (all : Prop) (s : State) (w : Nat) : NPA.Fr all s (drop s w) :=
  NPA.Fr.of_same rfl rfl (NPA.WFr.filter _ _) (fun _ h => h) rfl

/-- **single-node arm** -/
theorem part1_sn_bd {A P order running retracted : List TaskId} {F : List Nat} {s01 s1 : State}
    (hb : Bd U noD [] s) (hfw : findWorker s.workers w = some wk) (ha : wk.assign = .sn A F P)
    (hAo : ∀ u ∈ A, u ∈ order) (hoA : ∀ u ∈ order, u ∈ A)
    (hlp : (drop s w).lostPrefilled P = .ok s01)
    (hp1 : s01.lostAssigned order [] [] = .ok (s1, running, retracted)) : Bd U noD retracted s1 := by
  have hinv := hb.inv
  have hi := hb.tw
  have hi0 : Inv (drop s w) := by
    show Inv4 s.tasks (s.workers.filter (·.id ≠ w)) s.redirects s.rqs
    exact hinv.workers (hinv.ls.mv_drop_worker w)
  have hgA : asgW (s.workers.filter (·.id ≠ w)) w = [] := by rw [asgW_filter]; simp
  have hgP : preW (s.workers.filter (·.id ≠ w)) w = [] := by rw [preW_filter]; simp
  have hP : preW s.workers w = P := by rw [preW_of_find hfw]; simp [wPre, ha]
  have hA : asgW s.workers w = A := by rw [asgW_of_find hfw]; simp [wAsg, ha]
  have hM : mnW s.workers w = none := by rw [mnW_of_find hfw]; simp [wMn, ha]
  obtain ⟨a0, b0⟩ := drop_worker_tw hi w (D := fun u => u ∈ P ∨ (u ∈ order ∨ noD u))
    (fun u hu => Or.inr (Or.inl (hAo u (hA ▸ hu)))) (fun u hu => Or.inl (hP ▸ hu))
    (fun u hu => by rw [hM] at hu; cases hu)
  have hfreeP : ∀ id ∈ P, Free (drop s w) id := by
    intro id hid
    have hs := hinv.ls.a2 w id (by rw [hP]; exact hid)
    exact hi0.ls.free_of_prefilled_gone hs hgP
  have a1 := lostPrefilled_tw (D0 := fun u => u ∈ order ∨ noD u) P _ _ ⟨a0, b0⟩ hfreeP hlp
  obtain ⟨i1, e1, e2⟩ := lostPrefilled_inv _ _ _ hi0 hfreeP hlp
  -- the queue / dependency invariant
  have hnpP : ∀ id ∈ P, NotPos (drop s w) id := by
    intro id hid task hft
    have hs := hinv.ls.a2 w id (by rw [hP]; exact hid)
    rw [stOf_of_find hft] at hs
    simp only [Option.some.injEq] at hs
    rw [hs]; rfl
  have hnpA : ∀ id ∈ order, NotPos (drop s w) id := by
    intro id hid task hft
    obtain ⟨st, h1, h2⟩ := hinv.ls.a1 w id (by rw [hA]; exact hoA id hid)
    rw [stOf_of_find hft] at h1
    simp only [Option.some.injEq] at h1
    rw [h1]
    cases st <;> simp only [Holds_assigned, Holds_running, Holds_retracting, Holds_waiting, Holds_prefilled,
      Holds_runningMN, Holds_finished] at h2 <;> rfl
  obtain ⟨sa, sb⟩ := lostPrefilled_safe _ _ _ hnpP hlp
  have sc := lostAssigned_safe _ _ _ _ _ _ _ (fun id hid => sb id (hnpA id hid)) hp1
  have e0 : Safe s (drop s w) := Safe.of_eq rfl rfl
  -- the frame
  have hfr : ∀ all : Prop, NPA.Fr all s s1 := fun all =>
    ((drop_fr all s w).trans (NPA.lostPrefilled_fr _ _ _ hlp)).trans (NPA.lostAssigned_fr _ _ _ _ _ _ _ hp1)
  -- the queue correspondence
  have q0 : NpQ noD [] (drop s w) := hb.nq.frame rfl rfl (fun _ hx => hx)
  have sd0 : NPC.Side (drop s w) := hinv.side.frame rfl (fun _ hx => hx)
  obtain ⟨qa, sd, np⟩ := NPC.lostPrefilled_npq _ _ _ q0 sd0 hlp
  have qb := NPC.lostAssigned_npq _ _ _ _ _ _ _ qa sd (by
    intro id hid
    apply np
    obtain ⟨st, hs, hh⟩ := hinv.ls.a1 w id (by rw [hA]; exact hoA id hid)
    rw [NPC.isPrefilled_iff_stOf]
    rintro ⟨w1, hw1⟩
    change stOf s.tasks id = _ at hw1
    rw [hs] at hw1
    simp only [Option.some.injEq] at hw1
    rw [hw1] at hh
    exact hh) hp1
  refine ⟨?_, lostAssigned_tw (D0 := noD) _ _ _ _ _ _ _ a1 hp1, (e0.trans (sa.trans sc)) U none [] hb.q,
    (hfr True).npw hb.w, (hfr False).npidx hb.idx, (hfr True).npmn hb.mn, ?_, qb.1⟩
  · refine lostAssigned_inv _ _ _ _ _ _ _ i1 ?_ hp1
    intro id hid
    rw [e1]
    obtain ⟨st, hs, hh⟩ := hinv.ls.a1 w id (by rw [hA]; exact hoA id hid)
    exact hi0.ls.lfree_of_holds_gone hs hh hgA
  · exact hb.deps.of_ds (((NPB.DS.of_tasks rfl : NPB.DS s (drop s w)).trans (NPB.lostPrefilled_ds _ _ _ hlp)).trans
      (NPB.lostAssigned_ds _ _ _ _ _ _ _ hp1))

/-- **multi-node arm, the lost worker is the root**: the other workers are released, the task is queued again -/
theorem part1_mnroot_bd {tid : TaskId} {root started : Bool} {task : Task} {rootw : Nat} {others : List Nat}
    {s01 s3 : State} {r3 : List TaskId}
    (hb : Bd U noD [] s) (hfw : findWorker s.workers w = some wk) (ha : wk.assign = .mn tid root started)
    (ht : findTask s.tasks tid = some task) (hs : task.state = .runningMN (rootw :: others)) (hroot : rootw = w)
    (hr : resetMnAll (drop s w) others = .ok s01)
    (har : (s01.setTask { task with state := .waiting 0, inst := task.inst + 1 }).addReady
      { task with state := .waiting 0, inst := task.inst + 1 } = .ok (s3, r3)) : Bd U noD r3 s3 := by
  have hinv := hb.inv
  have hi := hb.tw
  have hi0 : Inv (drop s w) := by
    show Inv4 s.tasks (s.workers.filter (·.id ≠ w)) s.redirects s.rqs
    exact hinv.workers (hinv.ls.mv_drop_worker w)
  have hM : mnW s.workers w = some tid := by rw [mnW_of_find hfw]; simp [wMn, ha]
  have hA : asgW s.workers w = [] := by rw [asgW_of_find hfw]; simp [wAsg, ha]
  have hP : preW s.workers w = [] := by rw [preW_of_find hfw]; simp [wPre, ha]
  obtain ⟨a0, b0⟩ := drop_worker_tw hi w (D := fun u => u = tid)
    (fun u hu => by rw [hA] at hu; cases hu) (fun u hu => by rw [hP] at hu; cases hu)
    (fun u hu => by rw [hM] at hu; cases hu; rfl)
  have hid : task.id = tid := findTask_some_id ht
  have hst := stOf_of_find ht
  have hnr : ∀ x v, (tid, x, v) ∉ s.redirects := hi.tw.no_rd_of_state hst (by simp [hs])
  obtain ⟨a, b, c, d, e, ff⟩ := resetMnAll_ls _ _ _ hi0.ls hr
  have hi01 : Inv s01 := by unfold Inv; rw [c, e]; exact hi0.workers a
  obtain ⟨ta, tb⟩ := resetMnAll_tw others _ s01 (D := fun u => u = tid) (ts := s.tasks) (id := tid)
    (l0 := rootw :: others) a0 b0 (by rw [hst, hs]) (fun x hx => List.mem_cons_of_mem _ hx) hr
  have ht1 : findTask s01.tasks ({ task with state := .waiting 0, inst := task.inst + 1 } : Task).id = some task := by
    rw [c, hid]; exact ht
  have hfree : Free3 s01.workers s01.redirects task.id := by
    rw [hid]
    refine hi01.ls.free_of_mn (l := rootw :: others) (by rw [c]; exact hst.trans (by rw [hs])) ?_
    intro x hx
    have h0 := b.m x tid hx
    change mnW (s.workers.filter (·.id ≠ w)) x = some tid at h0
    rw [mnW_filter] at h0
    split at h0
    · cases h0
    · rename_i hxw
      obtain ⟨l, h1, h2⟩ := hinv.ls.m1 x tid h0
      rw [hst, hs] at h1; cases h1
      simp only [List.mem_cons] at h2
      rcases h2 with h2 | h2
      · exact hxw (h2.trans hroot)
      · rw [ff x h2] at hx; cases hx
  -- the queue / dependency invariant
  have ht01 : findTask s01.tasks task.id = some task := by
    rw [resetMnAll_tasks _ _ _ hr, hid]; exact ht
  have e0 : Safe s (drop s w) := Safe.of_eq rfl rfl
  have s1 : Safe s01 (s01.setTask { task with state := .waiting 0, inst := task.inst + 1 }) :=
    Safe.setState' ht01 (by simp [hs]) (by simp)
  have s2 := Safe.addReady' har (findTask_setState_self ht01) rfl
  -- the frame
  have ht2 : findTask s01.tasks tid = some task := by rw [resetMnAll_tasks _ _ _ hr]; exact ht
  have hfr : ∀ all : Prop, NPA.Fr all s s3 := fun all =>
    (drop_fr all s w).trans (((NPA.resetMnAll_fr _ _ _ hr).trans
      (NPA.Fr.setFree (tn := { task with state := .waiting 0, inst := task.inst + 1 }) ht2 rfl rfl
        (Or.inl ⟨0, rfl⟩))).trans (NPA.addReady_fr har))
  -- the queue correspondence
  have q0 : NpQ noD [] (drop s w) := hb.nq.frame rfl rfl (fun _ hx => hx)
  have sd0 : NPC.Side (drop s w) := hinv.side.frame rfl (fun _ hx => hx)
  have q01 := NPC.resetMnAll_npq q0 hr
  have sd01 : NPC.Side s01 := sd0.frame (resetMnAll_tasks _ _ _ hr)
    (by rw [NPC.resetMnAll_redirects _ _ _ hr]; exact fun _ hx => hx)
  have hq3 := NPC.requeue_waiting_npq (t'' := { task with state := .waiting 0, inst := task.inst + 1 })
    q01 sd01 (show s01.task? task.id = some task from ht01) rfl rfl rfl rfl rfl
    (by rw [hs]; intro w e; cases e) (by rw [hs]; intro w e; cases e) har
  rw [List.nil_append] at hq3
  refine ⟨?_, ?_, (((e0.trans (Safe.resetMnAll hr)).trans s1).trans s2) U none [] hb.q,
    (hfr True).npw hb.w, (hfr False).npidx hb.idx, (hfr True).npmn hb.mn, ?_, hq3.1⟩
  · refine (addReady_core har).inv ?_
    show Inv4 (putTask s01.tasks _) s01.workers s01.redirects s01.rqs
    exact hi01.put ht1 rfl rfl (by simp [isWaiting]) (by simp) (hi01.ls.mv_free ht1 hfree)
  · refine (addReady_core har).twi ?_
    constructor
    · show TW3 noD (putTask s01.tasks _) s01.workers s01.redirects
      rw [c]
      refine (ta.put_noob (t' := { task with state := .waiting 0, inst := task.inst + 1 })
        (by rw [← c]; exact ht1) trivial (fun _ _ _ _ h => h)
        (fun x v hm => absurd hm (by rw [d]; show (task.id, x, v) ∉ _; rw [hid]; exact hnr x v))).mono ?_
      intro u hu
      rcases hu.1 with h1 | h1
      · exact hu.2 (by simpa [hid] using h1)
      · exact hu.2 (by simpa [hid] using h1)
    · show MNU (putTask s01.tasks _) s01.workers
      rw [c]
      exact tb.put_nonmn (t' := { task with state := .waiting 0, inst := task.inst + 1 })
        (by rw [← c]; exact ht1) (by simp)
  · exact hb.deps.of_ds ((((NPB.DS.of_tasks (resetMnAll_tasks _ (drop s w) _ hr) : NPB.DS s s01)).trans
      (NPB.DS.setState ht01)).trans (NPB.addReady_ds har))

/-- **multi-node arm, the lost worker is not the root**: it is removed from the worker list of the task -/
theorem part1_mnother_bd {tid : TaskId} {root started : Bool} {task : Task} {rootw : Nat} {others : List Nat}
    (hb : Bd U noD [] s) (hfw : findWorker s.workers w = some wk) (ha : wk.assign = .mn tid root started)
    (ht : findTask s.tasks tid = some task) (hs : task.state = .runningMN (rootw :: others)) (hroot : ¬ rootw = w) :
    Bd U noD [] ((drop s w).setTask { task with state := .runningMN ((rootw :: others).filter (· ≠ w)) }) := by
  have hinv := hb.inv
  have hi := hb.tw
  have hi0 : Inv (drop s w) := by
    show Inv4 s.tasks (s.workers.filter (·.id ≠ w)) s.redirects s.rqs
    exact hinv.workers (hinv.ls.mv_drop_worker w)
  have hM : mnW s.workers w = some tid := by rw [mnW_of_find hfw]; simp [wMn, ha]
  have hA : asgW s.workers w = [] := by rw [asgW_of_find hfw]; simp [wAsg, ha]
  have hP : preW s.workers w = [] := by rw [preW_of_find hfw]; simp [wPre, ha]
  obtain ⟨a0, b0⟩ := drop_worker_tw hi w (D := fun u => u = tid)
    (fun u hu => by rw [hA] at hu; cases hu) (fun u hu => by rw [hP] at hu; cases hu)
    (fun u hu => by rw [hM] at hu; cases hu; rfl)
  have hid : task.id = tid := findTask_some_id ht
  have hst := stOf_of_find ht
  have hnr : ∀ x v, (tid, x, v) ∉ s.redirects := hi.tw.no_rd_of_state hst (by simp [hs])
  have ht1 : findTask s.tasks ({ task with state := .runningMN ((rootw :: others).filter (· ≠ w)) } : Task).id = some task := by
    rw [hid]; exact ht
  have hst1 := stOf_put (ts := s.tasks) ht1
  have hnp : ∀ w, task.state ≠ .prefilled w := by rw [hs]; intro w e; cases e
  have hnrt : ∀ w, task.state ≠ .retracting w := by rw [hs]; intro w e; cases e
  have e0 : Safe s (drop s w) := Safe.of_eq rfl rfl
  have q0 : NpQ noD [] (drop s w) := hb.nq.frame rfl rfl (fun _ hx => hx)
  have sd0 : NPC.Side (drop s w) := hinv.side.frame rfl (fun _ hx => hx)
  have ht0 : (drop s w).task? task.id = some task := by rw [hid]; exact ht
  have hfr : ∀ all : Prop, NPA.Fr all s
      ((drop s w).setTask { task with state := .runningMN ((rootw :: others).filter (· ≠ w)) }) := fun all => by
    refine (drop_fr all s w).trans ?_
    refine NPA.Fr.setTask (tn := { task with state := .runningMN ((rootw :: others).filter (· ≠ w)) })
      (s := drop s w) ht rfl rfl ?_ ?_ ?_
    · intro hm ws' e
      cases e
      obtain ⟨_, hnd⟩ := hm _ hs
      refine ⟨?_, hnd.filter _⟩
      intro e
      have : rootw ∈ (rootw :: others).filter (· ≠ w) := by
        simp only [List.mem_filter, List.mem_cons, true_or, ne_eq, decide_eq_true_eq, true_and]
        exact hroot
      rw [e] at this
      cases this
    · intro h; exact h.elim
    · intro w0 v0 hh
      rcases hh with hh | hh | ⟨⟨_, hh⟩, _⟩ <;> cases hh
  refine ⟨?_, ⟨?_, ?_⟩, (e0.trans (Safe.setState (s := drop s w) ht (by simp [hs]) (by simp))) U none [] hb.q,
    (hfr True).npw hb.w, (hfr False).npidx hb.idx, (hfr True).npmn hb.mn, ?_, ?_⟩
  · show Inv4 (putTask s.tasks _) (s.workers.filter (·.id ≠ w)) s.redirects s.rqs
    refine Inv4.put hi0 ht1 rfl rfl (by simp [hs, isWaiting]) (fun _ _ => ⟨_, hs⟩) ?_
    refine hi0.ls.mv_mn_state ht1 hs rfl ?_
    intro x hx
    rw [mnW_filter] at hx
    split at hx
    · cases hx
    · rename_i hxw
      obtain ⟨l, h1, h2⟩ := hinv.ls.m1 x task.id hx
      rw [hid, hst, hs] at h1; cases h1
      exact List.mem_filter.mpr ⟨h2, by simpa using hxw⟩
  · show TW3 noD (putTask s.tasks _) (s.workers.filter (·.id ≠ w)) s.redirects
    refine a0.frame tid (fun u hu => Or.inr hu) (fun u hu => by rw [hst1, if_neg (by simpa [hid] using hu)])
      (fun _ _ _ h => h) (fun _ _ _ h => h) (fun _ _ _ h => h) (fun _ _ _ _ h => h) ?_ ?_ ?_ ?_ ?_
    · intro w' v _ hs'
      rw [hst1] at hs'
      simp only [hid, if_true, Option.some.injEq] at hs'
      rcases hs' with e | e <;> cases e
    · intro w' _ hs'
      rw [hst1] at hs'
      simp only [hid, if_true, Option.some.injEq] at hs'; cases hs'
    · intro l _ hs' x hx
      rw [hst1] at hs'
      simp only [hid, if_true, Option.some.injEq, TS.runningMN.injEq] at hs'
      subst hs'
      obtain ⟨hx1, hx2⟩ := List.mem_filter.mp hx
      have hxw : x ≠ w := by simpa using hx2
      rw [mnW_filter, if_neg hxw]
      exact hi.tw.t3 tid _ (fun e => e) (by rw [hst, hs]) x hx1
    · intro w' v _ hm; exact absurd hm (hnr w' v)
    · intro w' v hm; exact absurd hm (hnr w' v)
  · show MNU (putTask s.tasks _) (s.workers.filter (·.id ≠ w))
    intro t l hs' x hx
    rw [hst1] at hs'
    split at hs'
    · rename_i e
      simp only [Option.some.injEq, TS.runningMN.injEq] at hs'
      subst hs'
      have hx1 := (List.mem_filter.mp hx).1
      have := b0 tid _ (by rw [hst, hs]) x hx1
      rw [e, hid]; exact this
    · exact b0 t l hs' x hx
  · exact hb.deps.of_ds ((NPB.DS.of_tasks rfl : NPB.DS s (drop s w)).trans (NPB.DS.setState (s := drop s w) ht0))
  · exact NPC.setTask_npq_unq (t' := { task with state := .runningMN ((rootw :: others).filter (· ≠ w)) }) q0 ht0 rfl rfl
      (NPC.not_rstate (by rw [hs]; intro e; cases e) hnrt hnp) hnp (by intro w e; cases e)

end

/-! ### the `running` list names `Waiting 0` records -/

theorem WZ.nil (s : State) : WZ [] s := fun _ h => by cases h

theorem WZ.of_keeps {l : List TaskId} {s s' : State} (h : WZ l s)
    (hk : ∀ id t', s'.task? id = some t' → ∃ t, s.task? id = some t ∧ (t.state = .waiting 0 → t'.state = .waiting 0)) :
    WZ l s' := by
  intro id hid t' ht'
  obtain ⟨t, ht, hs⟩ := hk id t' ht'
  exact hs (h id hid t ht)

theorem lostAssigned_wz : ∀ (ids : List TaskId) (s s' : State) (ru ru' re re' : List TaskId), WZ ru s →
    s.lostAssigned ids ru re = .ok (s', ru', re') → WZ ru' s'
  | [], s, s', ru, ru', re, re', hw, h => by simp only [State.lostAssigned] at h; cases h; exact hw
  | id :: rest, s, s', ru, ru', re, re', hw, h => by
    simp only [State.lostAssigned] at h
    split at h
    · cases h
    · rename_i task hg
      have ht : findTask s.tasks id = some task := getTask_spec hg
      have hid : task.id = id := findTask_some_id ht
      have arm : ∀ (sa s2 : State) (t1 : Task) (ru2 re2 : List TaskId), sa.tasks = s.tasks → t1.id = task.id →
          s2.tasks = (sa.setTask t1).tasks → (∀ x ∈ ru2, x ∈ ru ∨ (x = id ∧ t1.state = .waiting 0)) →
          (t1.state = .waiting 0 ∨ t1.state = task.state) →
          s2.lostAssigned rest ru2 re2 = .ok (s', ru', re') → WZ ru' s' := by
        intro sa s2 t1 ru2 re2 hsa hid1 hs2 hru hst hloop
        refine lostAssigned_wz rest s2 s' ru2 ru' re2 re' ?_ hloop
        intro x hx t hxt
        change findTask s2.tasks x = some t at hxt
        rw [hs2] at hxt
        change findTask (putTask sa.tasks t1) x = some t at hxt
        rw [findTask_putTask, hsa, hid1, hid] at hxt
        split at hxt
        · rename_i e
          subst e
          rw [ht] at hxt
          simp only [Option.map_some, Option.some.injEq] at hxt
          subst hxt
          rcases hst with h1 | h1
          · exact h1
          · rcases hru x hx with h2 | h2
            · rw [h1]; exact hw x h2 task ht
            · exact h2.2
        · rename_i hne
          rcases hru x hx with h2 | h2
          · exact hw x h2 t hxt
          · exact absurd h2.1 hne
      split at h
      · split at h
        · cases h
        · rename_i s2 r h2
          refine arm s s2 { task with inst := task.inst + 1, state := .waiting 0 } _ _ rfl rfl (addReady_tasks h2) ?_
            (Or.inl rfl) h
          intro x hx
          rcases List.mem_append.mp hx with h3 | h3
          · exact Or.inl h3
          · simp only [List.mem_singleton] at h3; exact Or.inr ⟨h3, rfl⟩
      · split at h
        · cases h
        · split at h
          · cases h
          · rename_i s2 r h2
            exact arm { s with redirects := s.redirects.filter (·.1 ≠ id) } s2 { task with inst := task.inst + 1 } _ _
              rfl rfl (addReady_tasks h2) (fun x hx => Or.inl hx) (Or.inr rfl) h
      · split at h
        · cases h
        · rename_i s2 r h2
          exact arm s s2 { task with inst := task.inst + 1, state := .waiting 0 } _ _ rfl rfl (addReady_tasks h2)
            (fun x hx => Or.inl hx) (Or.inl rfl) h

/-- a record that is not Retracting is not touched by `lostRetracting` -/
theorem lostRetracting_keeps (w : Nat) : ∀ (l : List Task) (s s' : State) (o o' : Out) (id : TaskId) (t : Task),
    s.lostRetracting w l o = .ok (s', o') → s.task? id = some t → (∀ w0, t.state ≠ .retracting w0) →
    s'.task? id = some t
  | [], s, s', o, o', id, t, h, ht, _ => by simp only [State.lostRetracting] at h; cases h; exact ht
  | t0 :: rest, s, s', o, o', id, t, h, ht, hs => by
    simp only [State.lostRetracting] at h
    split at h
    · exact lostRetracting_keeps w rest s s' _ o' id t h ht hs
    · rename_i task0 ht0
      split at h
      · exact lostRetracting_keeps w rest s s' _ o' id t h ht hs
      · rename_i hst
        simp only [ne_eq, Decidable.not_not] at hst
        have hne : id ≠ task0.id := by
          intro e
          rw [findTask_some_id ht0] at e
          subst e
          rw [ht] at ht0; cases ht0
          exact hs w hst
        have keep : ∀ (rd : List (TaskId × Nat × Nat)) (t' : Task), t'.id = task0.id →
            (State.setTask { s with redirects := rd } t').task? id = some t := by
          intro rd t' e
          show findTask (putTask s.tasks t') id = some t
          rw [findTask_putTask, e]
          simp only [hne, if_false]; exact ht
        split at h
        · exact lostRetracting_keeps w rest _ s' _ o' id t h (keep _ _ rfl) hs
        · exact lostRetracting_keeps w rest _ s' _ o' id t h (keep _ _ rfl) hs

theorem lostRetracting_wz {w : Nat} {l : List Task} {s s' : State} {o o' : Out} {ru : List TaskId} (hw : WZ ru s)
    (hn : (taskIds s.tasks).Nodup) (h : s.lostRetracting w l o = .ok (s', o')) : WZ ru s' := by
  intro id hid t' ht'
  -- the id is a task of `s` too
  have hids := lostRetracting_ids _ _ _ _ _ _ h
  have hm : id ∈ taskIds s.tasks := by
    rw [← hids]
    have := findTask_some_mem ht'
    have e := findTask_some_id ht'
    rw [← e]
    exact List.mem_map_of_mem this
  obtain ⟨t, htm, hte⟩ := List.mem_map.mp hm
  have ht : s.task? id = some t := by
    have := mem_find_of_nodup hn htm
    rw [hte] at this; exact this
  have hz := hw id hid t ht
  have := lostRetracting_keeps w l s s' o o' id t h ht (by rw [hz]; intro w0 e; cases e)
  rw [this] at ht'; cases ht'
  exact hz

theorem retract_wz {l ru : List TaskId} {s s' : State} {o : Out} (hw : WZ ru s)
    (hn : (taskIds s.tasks).Nodup) (h : s.retract l = .ok (s', o)) : WZ ru s' := by
  intro id hid t' ht'
  have hids : taskIds s'.tasks = taskIds s.tasks := retract_stable h
  have hm : id ∈ taskIds s.tasks := by
    rw [← hids]
    have := findTask_some_mem ht'
    have e := findTask_some_id ht'
    rw [← e]
    exact List.mem_map_of_mem this
  obtain ⟨t, htm, hte⟩ := List.mem_map.mp hm
  have ht : s.task? id = some t := by
    have := mem_find_of_nodup hn htm
    rw [hte] at this; exact this
  have hz := hw id hid t ht
  have := retract_keeps h ht (by rw [hz]; intro w0 e; cases e)
  rw [this] at ht'; cases ht'
  exact hz

end HqModel.Core.NPL
