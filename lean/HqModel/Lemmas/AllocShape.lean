import HqModel.Lemmas.AllocBasic
/-!
Shape of what the claim procedures return: whole indices first, at most one fractional entry and it is last, and the
entries add up to exactly the requested amount (`Shape`).
-/
namespace HqModel.Alloc

def WholeOnly (l : List AIdx) : Prop := ∀ e ∈ l, e.fractions = 0

/-- `l` = `amount / FPU` whole entries, followed — iff `amount % FPU ≠ 0` — by one entry holding `amount % FPU`. -/
def Shape (amount : Nat) (l : List AIdx) : Prop :=
  ∃ ws, WholeOnly ws ∧ ws.length = amount / FPU ∧
    ((amount % FPU = 0 ∧ l = ws) ∨ (∃ f, f.fractions = amount % FPU ∧ amount % FPU ≠ 0 ∧ l = ws ++ [f]))

theorem WholeOnly.nil : WholeOnly [] := by intro e he; cases he

theorem WholeOnly.append {a b : List AIdx} (ha : WholeOnly a) (hb : WholeOnly b) : WholeOnly (a ++ b) := by
  intro e he
  rcases List.mem_append.mp he with h | h
  · exact ha e h
  · exact hb e h

theorem WholeOnly.perm {a b : List AIdx} (ha : WholeOnly a) (p : a.Perm b) : WholeOnly b :=
  fun e he => ha e (p.mem_iff.mpr he)

theorem takeIndices_shape {gid n : Nat} {g g' : Group} {acc acc' : List AIdx}
    (h : takeIndices gid n g acc = .ok (g', acc')) :
    ∃ ws, WholeOnly ws ∧ ws.length = n ∧ acc' = acc ++ ws ∧ (∀ e ∈ ws, e.group = gid) ∧
      g.free.length = n + g'.free.length := by
  induction n generalizing g acc with
  | zero =>
    simp only [takeIndices, Except.ok.injEq, Prod.mk.injEq] at h
    obtain ⟨rfl, rfl⟩ := h
    exact ⟨[], WholeOnly.nil, rfl, by simp, by simp, by simp⟩
  | succ n ih =>
    simp only [takeIndices] at h
    split at h
    · cases h
    · rename_i i rest hfree
      obtain ⟨ws, hw, hl, hacc, hg, hlen⟩ := ih h
      refine ⟨⟨i, gid, 0⟩ :: ws, ?_, by simp [hl], by simp [hacc], ?_, ?_⟩
      · intro e he
        rcases List.mem_cons.mp he with rfl | he
        · rfl
        · exact hw e he
      · intro e he
        rcases List.mem_cons.mp he with rfl | he
        · rfl
        · exact hg e he
      · simp only [hfree, List.length_cons]
        simp only at hlen
        omega

theorem takeFracOrSplit_shape {gid fr : Nat} {pick : Option Nat} {g g' : Group} {acc acc' : List AIdx}
    (h : takeFracOrSplit gid fr pick g acc = .ok (g', acc')) :
    (fr = 0 ∧ acc' = acc ∧ g' = g) ∨ (fr ≠ 0 ∧ ∃ f, f.fractions = fr ∧ f.group = gid ∧ acc' = acc ++ [f]) := by
  unfold takeFracOrSplit at h
  split at h
  · rename_i h0
    simp only [Except.ok.injEq, Prod.mk.injEq] at h
    obtain ⟨rfl, rfl⟩ := h
    exact .inl ⟨h0, rfl, rfl⟩
  · rename_i hne
    split at h
    · cases h
    · simp only [Except.ok.injEq, Prod.mk.injEq] at h
      obtain ⟨-, rfl⟩ := h
      exact .inr ⟨hne, _, rfl, rfl, rfl⟩
    · split at h
      · cases h
      · simp only [Except.ok.injEq, Prod.mk.injEq] at h
        obtain ⟨-, rfl⟩ := h
        exact .inr ⟨hne, _, rfl, rfl, rfl⟩

theorem tryTakeFrac_shape {gid fr : Nat} {pick : Option Nat} {g g' : Group} {acc acc' : List AIdx} {b : Bool}
    (h : tryTakeFrac gid fr pick g acc = .ok (g', acc', b)) :
    (b = false ∧ acc' = acc ∧ g' = g) ∨
      (b = true ∧ fr ≠ 0 ∧ g'.free = g.free ∧ ∃ f, f.fractions = fr ∧ f.group = gid ∧ acc' = acc ++ [f]) := by
  unfold tryTakeFrac at h
  split at h
  · simp only [Except.ok.injEq, Prod.mk.injEq] at h
    obtain ⟨rfl, rfl, rfl⟩ := h
    exact .inl ⟨rfl, rfl, rfl⟩
  · rename_i hne
    split at h
    · cases h
    · simp only [Except.ok.injEq, Prod.mk.injEq] at h
      obtain ⟨rfl, rfl, rfl⟩ := h
      exact .inr ⟨rfl, hne, rfl, _, rfl, rfl, rfl⟩
    · simp only [Except.ok.injEq, Prod.mk.injEq] at h
      obtain ⟨rfl, rfl, rfl⟩ := h
      exact .inl ⟨rfl, rfl, rfl⟩

theorem div_mod_FPU (units fr : Nat) (h : fr < FPU) : (units * FPU + fr) / FPU = units ∧ (units * FPU + fr) % FPU = fr := by
  unfold FPU at *
  omega

/-! ### scatter -/

theorem scatterLoop_shape {set : Option (List Nat)} {pick : Option Nat} {fuel : Nat} {gs gs' : List Group}
    {units fr index : Nat} {acc acc' : List AIdx}
    (h : scatterLoop set pick fuel gs units fr index acc = .ok (gs', acc')) :
    ∃ ws, WholeOnly ws ∧ ws.length = units ∧
      ((fr = 0 ∧ acc' = acc ++ ws) ∨ (fr ≠ 0 ∧ ∃ f, f.fractions = fr ∧ acc' = acc ++ ws ++ [f])) := by
  induction fuel generalizing gs units fr index acc with
  | zero => simp [scatterLoop] at h
  | succ fuel ih =>
    simp only [scatterLoop] at h
    split at h
    · rename_i hdone
      simp only [Except.ok.injEq, Prod.mk.injEq] at h
      obtain ⟨rfl, rfl⟩ := h
      exact ⟨[], WholeOnly.nil, by simp [hdone.1], .inl ⟨hdone.2, by simp⟩⟩
    · rename_i hnd
      split at h
      · cases h
      · rename_i gidx _
        split at h
        · cases h
        · rename_i g hg
          split at h
          · rename_i hu
            split at h
            · rename_i i rest hfree
              obtain ⟨ws, hw, hl, hres⟩ := ih h
              have hl' : ((⟨i, gidx, 0⟩ : AIdx) :: ws).length = units := by
                clear hres
                simp only [List.length_cons, hl]; omega
              refine ⟨⟨i, gidx, 0⟩ :: ws, ?_, hl', ?_⟩
              · intro e he
                rcases List.mem_cons.mp he with rfl | he
                · rfl
                · exact hw e he
              · rcases hres with ⟨h0, hacc⟩ | ⟨hne, f, hf, hacc⟩
                · exact .inl ⟨h0, by simp [hacc]⟩
                · exact .inr ⟨hne, f, hf, by simp [hacc]⟩
            · exact ih h
          · rename_i hu
            have hu0 : units = 0 := by omega
            subst hu0
            split at h
            · cases h
            · rename_i i f hb
              obtain ⟨ws, hw, hl, hres⟩ := ih h
              have hws : ws = [] := List.length_eq_zero_iff.mp hl
              subst hws
              rcases hres with ⟨-, hacc⟩ | ⟨hne, -⟩
              · have hfr : fr ≠ 0 := fun h0 => hnd ⟨rfl, h0⟩
                exact ⟨[], WholeOnly.nil, rfl, .inr ⟨hfr, _, rfl, by simpa using hacc⟩⟩
              · exact absurd rfl hne
            · split at h
              · rename_i i rest hfree
                obtain ⟨ws, hw, hl, hres⟩ := ih h
                have hws : ws = [] := List.length_eq_zero_iff.mp hl
                subst hws
                rcases hres with ⟨-, hacc⟩ | ⟨hne, -⟩
                · have hfr : fr ≠ 0 := fun h0 => hnd ⟨rfl, h0⟩
                  exact ⟨[], WholeOnly.nil, rfl, .inr ⟨hfr, _, rfl, by simpa using hacc⟩⟩
                · exact absurd rfl hne
              · exact ih h

theorem keyLt_whole_frac {x f : AIdx} (hx : x.fractions = 0) (hf : f.fractions ≠ 0) : AIdx.keyLt x f = true := by
  unfold AIdx.keyLt
  have : x.fractions < f.fractions := by omega
  simp [this]

theorem keyLt_frac_whole {x f : AIdx} (hx : x.fractions = 0) (hf : f.fractions ≠ 0) : AIdx.keyLt f x = false := by
  unfold AIdx.keyLt
  have h1 : ¬ f.fractions < x.fractions := by omega
  have h2 : ¬ f.fractions = x.fractions := by omega
  simp [h1, h2]

theorem insertIdx_whole_append {x f : AIdx} {ws : List AIdx} (hx : x.fractions = 0) (hf : f.fractions ≠ 0) :
    insertIdx x (ws ++ [f]) = insertIdx x ws ++ [f] := by
  induction ws with
  | nil => simp [insertIdx, keyLt_whole_frac hx hf]
  | cons y ys ih =>
    simp only [List.cons_append, insertIdx]
    split
    · rfl
    · rw [ih]; rfl

theorem insertIdx_frac {f : AIdx} {ws : List AIdx} (hw : WholeOnly ws) (hf : f.fractions ≠ 0) :
    insertIdx f ws = ws ++ [f] := by
  induction ws with
  | nil => rfl
  | cons y ys ih =>
    simp only [insertIdx, keyLt_frac_whole (hw y (by simp)) hf]
    rw [ih (fun e he => hw e (List.mem_cons_of_mem _ he))]
    rfl

theorem sortIdx_whole_frac {ws : List AIdx} {f : AIdx} (hw : WholeOnly ws) (hf : f.fractions ≠ 0) :
    sortIdx (ws ++ [f]) = sortIdx ws ++ [f] := by
  induction ws with
  | nil => rfl
  | cons x xs ih =>
    have hx := hw x (by simp)
    have hxs : WholeOnly xs := fun e he => hw e (List.mem_cons_of_mem _ he)
    show insertIdx x (sortIdx (xs ++ [f])) = insertIdx x (sortIdx xs) ++ [f]
    rw [ih hxs, insertIdx_whole_append hx hf]

theorem insertIdx_perm' (x : AIdx) (l : List AIdx) : (insertIdx x l).Perm (x :: l) := by
  induction l with
  | nil => exact .refl _
  | cons y ys ih =>
    simp only [insertIdx]
    split
    · exact .refl _
    · exact (List.Perm.cons y ih).trans (List.Perm.swap x y ys)

theorem sortIdx_perm' (l : List AIdx) : (sortIdx l).Perm l := by
  induction l with
  | nil => exact .refl _
  | cons x xs ih =>
    show (insertIdx x (sortIdx xs)).Perm (x :: xs)
    exact (insertIdx_perm' x _).trans (List.Perm.cons x ih)

theorem claimScatter_shape {amount : Nat} {gs gs' : List Group} {set : Option (List Nat)} {pick : Option Nat}
    {acc' : List AIdx} (h : claimScatter amount gs set pick = .ok (gs', acc')) : Shape amount acc' := by
  unfold claimScatter at h
  split at h
  · cases h
  · rename_i gs₁ acc₁ hl
    simp only [Except.ok.injEq, Prod.mk.injEq] at h
    obtain ⟨rfl, rfl⟩ := h
    obtain ⟨ws, hw, hlen, hres⟩ := scatterLoop_shape hl
    have hws : WholeOnly (sortIdx ws) := hw.perm (sortIdx_perm' ws).symm
    have hlen' : (sortIdx ws).length = amount / FPU := by rw [(sortIdx_perm' ws).length_eq, hlen]
    rcases hres with ⟨h0, hacc⟩ | ⟨hne, f, hf, hacc⟩
    · refine ⟨sortIdx ws, hws, hlen', .inl ⟨h0, ?_⟩⟩
      simp [hacc]
    · refine ⟨sortIdx ws, hws, hlen', .inr ⟨f, hf, hne, ?_⟩⟩
      simp only [List.nil_append] at hacc
      rw [hacc, sortIdx_whole_frac hw (by rw [hf]; exact hne)]

/-! ### tight -/

theorem tight_arith (units size fr : Nat) (hfr : fr < FPU) (_hle : size ≤ units) :
    ((units - size) * FPU) / FPU = units - size ∧ ((units - size) * FPU) % FPU = 0 ∧
    ((units - size) * FPU + fr) / FPU = units - size ∧ ((units - size) * FPU + fr) % FPU = fr := by
  unfold FPU at *
  omega

/-- shape of the output vector of the tight loop, together with the recorded position of the fractional entry -/
theorem tightLoop_shape {set : Option (List Nat)} {pick : Option Nat} {fuel : Nat} {gs gs' : List Group}
    {amounts : List Nat} {remaining : Nat} {acc acc' : List AIdx} {fidx fidx' : Option Nat}
    (h : tightLoop set pick fuel gs amounts remaining acc fidx = .ok (gs', acc', fidx')) :
    (fidx = none → ∃ pre post, WholeOnly pre ∧ WholeOnly post ∧ pre.length + post.length = remaining / FPU ∧
        ((remaining % FPU = 0 ∧ acc' = acc ++ pre ++ post ∧ fidx' = none) ∨
         (remaining % FPU ≠ 0 ∧ ∃ f, f.fractions = remaining % FPU ∧ acc' = acc ++ pre ++ [f] ++ post ∧
            ((post = [] ∧ fidx' = none) ∨ fidx' = some (acc.length + pre.length))))) ∧
    (∀ k, fidx = some k → remaining % FPU = 0 →
        ∃ ws, WholeOnly ws ∧ ws.length = remaining / FPU ∧ acc' = acc ++ ws ∧ fidx' = some k) := by
  induction fuel generalizing gs amounts remaining acc fidx with
  | zero => simp [tightLoop] at h
  | succ fuel ih =>
    have hfrlt : remaining % FPU < FPU := Nat.mod_lt _ FPU_pos
    simp only [tightLoop] at h
    split at h
    · -- a group that fits the rest
      split at h
      · cases h
      · rename_i g hg
        split at h
        · cases h
        · rename_i g1 acc1 h1
          split at h
          · cases h
          · rename_i g2 acc2 h2
            simp only [Except.ok.injEq, Prod.mk.injEq] at h
            obtain ⟨-, rfl, rfl⟩ := h
            obtain ⟨ws, hw, hl, hacc1, -, -⟩ := takeIndices_shape h1
            rcases takeFracOrSplit_shape h2 with ⟨h0, hacc2, -⟩ | ⟨hne, f, hf, -, hacc2⟩
            · refine ⟨fun hn => ⟨ws, [], hw, WholeOnly.nil, by simp [hl], .inl ⟨h0, by simp [hacc2, hacc1], hn⟩⟩,
                fun k hk _ => ⟨ws, hw, hl, by simp [hacc2, hacc1], hk⟩⟩
            · refine ⟨fun hn => ⟨ws, [], hw, WholeOnly.nil, by simp [hl],
                .inr ⟨hne, f, hf, by simp [hacc2, hacc1], .inl ⟨rfl, hn⟩⟩⟩, fun k _ h0 => absurd h0 hne⟩
    · split at h
      · cases h
      · rename_i gidx _ _
        split at h
        · cases h
        · rename_i g hg
          split at h
          · cases h
          · rename_i hsz
            have hle : g.free.length ≤ remaining / FPU := by omega
            obtain ⟨a1, a2, a3, a4⟩ := tight_arith (remaining / FPU) g.free.length (remaining % FPU) hfrlt hle
            split at h
            · cases h
            · rename_i g1 acc1 h1
              obtain ⟨ws1, hw1, hl1, hacc1, -, -⟩ := takeIndices_shape h1
              split at h
              · cases h
              · -- the fraction is taken here
                rename_i g2 acc2 h2
                rcases tryTakeFrac_shape h2 with ⟨hb, -, -⟩ | ⟨-, hne, -, f, hf, -, hacc2⟩
                · cases hb
                · obtain ⟨-, ih2⟩ := ih h
                  obtain ⟨ws2, hw2, hl2, hacc', hfidx'⟩ := ih2 _ rfl a2
                  rw [a1] at hl2
                  refine ⟨fun _ => ⟨ws1, ws2, hw1, hw2, by omega, .inr ⟨hne, f, hf, ?_, .inr ?_⟩⟩,
                    fun k _ h0 => absurd h0 hne⟩
                  · simp [hacc', hacc2, hacc1]
                  · rw [hfidx', hacc2, hacc1]
                    simp
              · rename_i g2 acc2 h2
                rcases tryTakeFrac_shape h2 with ⟨-, hacc2, -⟩ | ⟨hb, -⟩
                · obtain ⟨ih1, ih2⟩ := ih h
                  refine ⟨fun hn => ?_, fun k hk h0 => ?_⟩
                  · obtain ⟨pre, post, hwp, hwq, hlen, hres⟩ := ih1 hn
                    rw [a3] at hlen
                    rw [a4] at hres
                    have hlen' : (ws1 ++ pre).length + post.length = remaining / FPU := by
                      clear hres
                      simp only [List.length_append, hl1]; omega
                    refine ⟨ws1 ++ pre, post, hw1.append hwp, hwq, hlen', ?_⟩
                    rcases hres with ⟨h0, hacc', hf'⟩ | ⟨hne, f, hf, hacc', hpos⟩
                    · exact .inl ⟨h0, by simp [hacc', hacc2, hacc1], hf'⟩
                    · refine .inr ⟨hne, f, hf, by simp [hacc', hacc2, hacc1], ?_⟩
                      rcases hpos with hp | hp
                      · exact .inl hp
                      · refine .inr ?_
                        rw [hp, hacc2, hacc1]
                        simp [Nat.add_assoc]
                  · rw [h0, Nat.add_zero] at h
                    obtain ⟨-, ih2'⟩ := ih h
                    obtain ⟨ws2, hw2, hl2, hacc', hfidx'⟩ := ih2' k hk a2
                    rw [a1] at hl2
                    exact ⟨ws1 ++ ws2, hw1.append hw2, by simp [hl1, hl2]; omega, by simp [hacc', hacc2, hacc1],
                      hfidx'⟩
                · cases hb

theorem swapToLast_mid (pre post : List AIdx) (f : AIdx) :
    ∃ ws, ws.Perm (pre ++ post) ∧ swapToLast (pre ++ f :: post) pre.length = ws ++ [f] := by
  unfold swapToLast
  simp only [List.drop_left']
  cases hr : post.reverse with
  | nil =>
    have : post = [] := by simpa using hr
    subst this
    exact ⟨pre, by simp, by simp⟩
  | cons l rpost =>
    have hpost : post = rpost.reverse ++ [l] := by
      have := congrArg List.reverse hr
      simpa using this
    refine ⟨pre ++ l :: rpost.reverse, ?_, by simp⟩
    rw [hpost]
    exact List.Perm.append_left _ (List.perm_append_comm (l₁ := [l]) (l₂ := rpost.reverse))

theorem claimTight_shape {amount : Nat} {gs gs' : List Group} {set : Option (List Nat)} {pick : Option Nat}
    {acc' : List AIdx} (h : claimTight amount gs set pick = .ok (gs', acc')) : Shape amount acc' := by
  unfold claimTight at h
  split at h
  · cases h
  · rename_i gs₁ acc₁ hl
    simp only [Except.ok.injEq, Prod.mk.injEq] at h
    obtain ⟨rfl, rfl⟩ := h
    obtain ⟨pre, post, hwp, hwq, hlen, hres⟩ := (tightLoop_shape hl).1 rfl
    rcases hres with ⟨h0, hacc, -⟩ | ⟨hne, f, hf, hacc, hpos⟩
    · exact ⟨pre ++ post, hwp.append hwq, by simp [hlen], .inl ⟨h0, by simpa using hacc⟩⟩
    · rcases hpos with ⟨hp, -⟩ | hp
      · subst hp
        exact ⟨pre, hwp, by simpa using hlen, .inr ⟨f, hf, hne, by simpa using hacc⟩⟩
      · cases hp
  · rename_i gs₁ acc₁ k hl
    simp only [Except.ok.injEq, Prod.mk.injEq] at h
    obtain ⟨rfl, rfl⟩ := h
    obtain ⟨pre, post, hwp, hwq, hlen, hres⟩ := (tightLoop_shape hl).1 rfl
    rcases hres with ⟨-, -, hk⟩ | ⟨hne, f, hf, hacc, hpos⟩
    · cases hk
    · rcases hpos with ⟨-, hk⟩ | hk
      · cases hk
      · simp only [List.length_nil, Nat.zero_add, Option.some.injEq] at hk
        subst hk
        simp only [List.nil_append, List.append_assoc, List.singleton_append] at hacc
        obtain ⟨ws, hperm, hsw⟩ := swapToLast_mid pre post f
        rw [hacc, hsw]
        refine ⟨ws, (hwp.append hwq).perm hperm.symm, by rw [hperm.length_eq]; simpa using hlen,
          .inr ⟨f, hf, hne, rfl⟩⟩

end HqModel.Alloc
