import HqModel.Lemmas.CoreNoPanicFrame3
/-!
C09 progress, preservation of `NpW` / `NpIdx` / `NpMn`: `Core/Reactor.lean`, part 2 (`on_remove_worker`).
-/
namespace HqModel.Core.NPA

open HqModel.Core.NP

/-! ### `on_remove_worker` -/

theorem lostPrefilled_fr {all : Prop} (ids : List TaskId) (s s' : State) (h : s.lostPrefilled ids = .ok s') :
    Fr all s s' := by
  induction ids generalizing s with
  | nil => simp only [State.lostPrefilled] at h; cases h; exact Fr.refl _ _
  | cons id rest ih =>
    simp only [State.lostPrefilled] at h
    split at h
    · cases h
    · rename_i task hg
      have ht := getTask_spec hg
      split at h
      · cases h
      · rename_i s2 hm
        exact ((Fr.setFree (tn := { task with inst := task.inst + 1, state := .waiting 0 }) ht rfl rfl
          (Or.inl ⟨0, rfl⟩)).trans (movePrefilledToReady_fr hm)).trans (ih _ h)

theorem lostAssigned_fr {all : Prop} (ids : List TaskId) (s s' : State) (ru ru' re re' : List TaskId)
    (h : s.lostAssigned ids ru re = .ok (s', ru', re')) : Fr all s s' := by
  induction ids generalizing s ru re with
  | nil => simp only [State.lostAssigned] at h; cases h; exact Fr.refl _ _
  | cons id rest ih =>
    simp only [State.lostAssigned] at h
    split at h
    · cases h
    · rename_i task hg
      have ht := getTask_spec hg
      split at h
      · -- running
        split at h
        · cases h
        · rename_i s2 r ha
          exact ((Fr.setFree (tn := { task with state := .waiting 0, inst := task.inst + 1 }) ht rfl rfl
            (Or.inl ⟨0, rfl⟩)).trans (addReady_fr ha)).trans (ih _ _ _ h)
      · -- retracting
        split at h
        · cases h
        · split at h
          · cases h
          · rename_i s2 r ha
            have f1 : Fr all s { s with redirects := s.redirects.filter (·.1 ≠ id) } :=
              Fr.of_same rfl rfl (WFr.refl _) (fun x hx => (List.mem_filter.mp hx).1) rfl
            have f2 : Fr all { s with redirects := s.redirects.filter (·.1 ≠ id) }
                (State.setTask { s with redirects := s.redirects.filter (·.1 ≠ id) } { task with inst := task.inst + 1 }) :=
              Fr.setSame (id := id) ht rfl rfl rfl
            exact ((f1.trans f2).trans (addReady_fr ha)).trans (ih _ _ _ h)
      · split at h
        · cases h
        · rename_i s2 r ha
          exact ((Fr.setFree (tn := { task with state := .waiting 0, inst := task.inst + 1 }) ht rfl rfl
            (Or.inl ⟨0, rfl⟩)).trans (addReady_fr ha)).trans (ih _ _ _ h)

theorem lostRetracting_fr {all : Prop} (l : List Task) (s s' : State) (w : Nat) (o o' : Out)
    (h : s.lostRetracting w l o = .ok (s', o')) : Fr all s s' := by
  induction l generalizing s o with
  | nil => simp only [State.lostRetracting] at h; cases h; exact Fr.refl _ _
  | cons t0 rest ih =>
    simp only [State.lostRetracting, State.task?] at h
    split at h
    · exact ih _ _ h
    · rename_i task ht
      have hid : task.id = t0.id := findTask_some_id ht
      split at h
      · exact ih _ _ h
      · rename_i hs
        simp only [ne_eq, Decidable.not_not] at hs
        split at h
        · rename_i x target trv hfind
          have ht' : findTask s.tasks task.id = some task := by rw [hid]; exact ht
          exact (resolve_fr (tn := { task with inst := task.inst + 1, state := .assigned target trv }) ht' hs hfind
            rfl rfl rfl).trans (ih _ _ h)
        · exact (Fr.setFree (tn := { task with inst := task.inst + 1, state := .waiting 0 }) ht rfl rfl
            (Or.inl ⟨0, rfl⟩)).trans (ih _ _ h)

theorem crashLoop_fr {all : Prop} (ids : List TaskId) (s s' : State) (f : Bool) (rets : List (List TaskId)) (o o' : Out)
    (h : s.crashLoop f ids rets o = .ok (s', o')) : Fr all s s' := by
  induction ids generalizing s rets o with
  | nil => simp only [State.crashLoop] at h; cases h; exact Fr.refl _ _
  | cons id rest ih =>
    simp only [State.crashLoop, State.task?] at h
    split at h
    · exact ih _ _ _ h
    · rename_i task ht
      have f1 : Fr all s (s.setTask { task with crashes := (crashOutcome task.crashLimit f task.crashes).1 }) :=
        Fr.setSame ht rfl rfl rfl
      split at h
      · split at h
        · cases h
        · rename_i s2 o2 hf
          exact (f1.trans (taskFailed_fr hf)).trans (ih _ _ _ h)
      · exact f1.trans (ih _ _ _ h)

theorem removeWorker_fr {s s' : State} {w : Nat} {reason : String} {f : Bool} {order : List TaskId}
    {rets : List (List TaskId)} {o : Out} (h : s.removeWorker w reason f order rets = .ok (s', o)) : Fr True s s' := by
  simp only [State.removeWorker] at h
  split at h
  · cases h
  · rename_i wk hw
    have f0 : Fr True s { s with workers := s.workers.filter (·.id ≠ w) } :=
      Fr.of_same rfl rfl (WFr.filter _ _) (fun _ h => h) rfl
    split at h
    · cases h
    · rename_i s1 running retracted hp1
      have e1 : Fr True { s with workers := s.workers.filter (·.id ≠ w) } s1 := by
        clear h
        split at hp1
        · split at hp1
          · cases hp1
          · split at hp1
            · cases hp1
            · rename_i s2 hlp
              exact (lostPrefilled_fr _ _ _ hlp).trans (lostAssigned_fr _ _ _ _ _ _ _ hp1)
        · rename_i tid root mnStarted ha
          split at hp1
          · cases hp1
          · rename_i task hg
            have ht := getTask_spec hg
            split at hp1
            · rename_i ws hs
              split at hp1
              · rename_i root others
                split at hp1
                · split at hp1
                  · cases hp1
                  · rename_i s2 hr
                    split at hp1
                    · cases hp1
                    · rename_i s3 r ha3
                      cases hp1
                      have ht2 : findTask s2.tasks tid = some task := by rw [resetMnAll_tasks _ _ _ hr]; exact ht
                      exact ((resetMnAll_fr _ _ _ hr).trans
                        (Fr.setFree (tn := { task with state := .waiting 0, inst := task.inst + 1 }) ht2 rfl rfl
                          (Or.inl ⟨0, rfl⟩))).trans (addReady_fr ha3)
                · rename_i hroot
                  cases hp1
                  refine Fr.setTask (tn := { task with state := .runningMN ((root :: others).filter (· ≠ w)) }) ht rfl rfl
                    ?_ ?_ ?_
                  · intro hm ws' e
                    cases e
                    obtain ⟨_, hnd⟩ := hm _ hs
                    refine ⟨?_, hnd.filter _⟩
                    intro e
                    have : root ∈ (root :: others).filter (· ≠ w) := by
                      simp only [List.mem_filter, List.mem_cons, true_or, ne_eq, decide_eq_true_eq, true_and]
                      exact hroot
                    rw [e] at this
                    cases this
                  · intro h; exact h.elim
                  · intro w0 v0 hh
                    rcases hh with hh | hh | ⟨⟨_, hh⟩, _⟩ <;> cases hh
              · cases hp1
            · cases hp1
      split at h
      · cases h
      · rename_i s2 out1 h2
        split at h
        · cases h
        · rename_i s3 out2 h3
          split at h
          · cases h
          · rename_i s4 out h4
            cases h
            exact (((((f0.trans e1).trans (lostRetracting_fr _ _ _ _ _ _ h2)).trans (retract_fr h3)).trans
              (crashLoop_fr _ _ _ _ _ _ _ h4))).trans (Fr.ask s4)

end HqModel.Core.NPA
