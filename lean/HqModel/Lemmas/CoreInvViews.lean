import HqModel.Lemmas.CoreInvIds
/-!
Stage 2 of the structural invariant of the core model (M1), part 1: *views* of the three containers the invariant
talks about (task map, worker map, redirect table), how the primitive updates change them, the definition of
the list→state invariant `LS` (what `Worker::sanity_check` asserts, without the resource equation) and the
frame lemma used for every transition.
-/
namespace HqModel.Core

/-! ### lookups after primitive updates -/

theorem findWorker_some_id {ws : List Worker} {w : Nat} {wk : Worker} (h : findWorker ws w = some wk) : wk.id = w := by
  induction ws with
  | nil => cases h
  | cons y ys ih =>
    simp only [findWorker] at h
    split at h
    · cases h; assumption
    · exact ih h

theorem findWorker_putWorker (ws : List Worker) (wk' : Worker) (x : Nat) :
    findWorker (putWorker ws wk') x = if x = wk'.id then (findWorker ws x).map (fun _ => wk') else findWorker ws x := by
  induction ws with
  | nil => simp [putWorker, findWorker]
  | cons y ys ih =>
    simp only [putWorker]
    by_cases hy : y.id = wk'.id
    · simp only [hy, if_true, findWorker]
      by_cases hx : x = wk'.id
      · simp [hx]
      · have : ¬ wk'.id = x := fun e => hx e.symm
        simp only [this, if_false, hx] at ih ⊢
        exact ih
    · simp only [hy, if_false, findWorker]
      by_cases hyx : y.id = x
      · have : ¬ x = wk'.id := fun e => hy (hyx.trans e)
        simp [hyx, this]
      · simp only [hyx, if_false]; exact ih

theorem findWorker_append (ws : List Worker) (w : Worker) (x : Nat) :
    findWorker (ws ++ [w]) x = match findWorker ws x with
      | some wk => some wk
      | none => if w.id = x then some w else none := by
  induction ws with
  | nil => simp [findWorker]
  | cons y ys ih =>
    simp only [List.cons_append, findWorker]
    split
    · rfl
    · exact ih

theorem findWorker_filter (ws : List Worker) (w x : Nat) :
    findWorker (ws.filter (·.id ≠ w)) x = if x = w then none else findWorker ws x := by
  induction ws with
  | nil => simp [findWorker]
  | cons y ys ih =>
    simp only [List.filter]
    by_cases hy : y.id = w
    · simp only [hy, ne_eq, not_true_eq_false, decide_false, findWorker]
      rw [ih]
      by_cases hx : x = w
      · simp [hx]
      · have : ¬ w = x := fun e => hx e.symm
        simp [hx, this]
    · simp only [ne_eq, hy, not_false_eq_true, decide_true, findWorker]
      by_cases hyx : y.id = x
      · have : ¬ x = w := fun e => hy (hyx.trans e)
        simp [hyx, this]
      · simp only [hyx, if_false]; exact ih

theorem findTask_putTask (ts : List Task) (t' : Task) (x : TaskId) :
    findTask (putTask ts t') x = if x = t'.id then (findTask ts x).map (fun _ => t') else findTask ts x := by
  induction ts with
  | nil => simp [putTask, findTask]
  | cons y ys ih =>
    simp only [putTask]
    by_cases hy : y.id = t'.id
    · simp only [hy, if_true, findTask]
      by_cases hx : x = t'.id
      · simp [hx]
      · have : ¬ t'.id = x := fun e => hx e.symm
        simp only [this, if_false, hx] at ih ⊢
        exact ih
    · simp only [hy, if_false, findTask]
      by_cases hyx : y.id = x
      · have : ¬ x = t'.id := fun e => hy (hyx.trans e)
        simp [hyx, this]
      · simp only [hyx, if_false]; exact ih

theorem findTask_eraseTask {ts : List Task} (hn : (taskIds ts).Nodup) (id x : TaskId) :
    findTask (eraseTask ts id) x = if x = id then none else findTask ts x := by
  induction ts with
  | nil => simp [eraseTask, findTask]
  | cons y ys ih =>
    simp only [taskIds, List.map_cons, List.nodup_cons] at hn
    simp only [eraseTask]
    by_cases hy : y.id = id
    · simp only [hy, if_true, findTask]
      by_cases hx : x = id
      · subst hx
        simp only [if_true]
        exact findTask_none_of_not_mem (hy ▸ hn.1)
      · have : ¬ id = x := fun e => hx e.symm
        simp [hx, this]
    · simp only [hy, if_false, findTask]
      by_cases hyx : y.id = x
      · have : ¬ x = id := fun e => hy (hyx.trans e)
        simp [hyx, this]
      · simp only [hyx, if_false]; exact ih hn.2

theorem findTask_append (ts : List Task) (t : Task) (x : TaskId) :
    findTask (ts ++ [t]) x = match findTask ts x with
      | some y => some y
      | none => if t.id = x then some t else none := by
  induction ts with
  | nil => simp [findTask]
  | cons y ys ih =>
    simp only [List.cons_append, findTask]
    split
    · rfl
    · exact ih

/-! ### views -/

def wAsg (wk : Worker) : List TaskId := match wk.assign with | .sn a _ _ => a | .mn .. => []
def wPre (wk : Worker) : List TaskId := match wk.assign with | .sn _ _ p => p | .mn .. => []
def wMn (wk : Worker) : Option TaskId := match wk.assign with | .mn t _ _ => some t | .sn .. => none

def asgW (ws : List Worker) (w : Nat) : List TaskId := match findWorker ws w with | some wk => wAsg wk | none => []
def preW (ws : List Worker) (w : Nat) : List TaskId := match findWorker ws w with | some wk => wPre wk | none => []
def mnW (ws : List Worker) (w : Nat) : Option TaskId := match findWorker ws w with | some wk => wMn wk | none => none
def stOf (ts : List Task) (t : TaskId) : Option TS := (findTask ts t).map (·.state)

theorem asgW_of_find {ws : List Worker} {w : Nat} {wk : Worker} (h : findWorker ws w = some wk) : asgW ws w = wAsg wk := by
  simp [asgW, h]
theorem preW_of_find {ws : List Worker} {w : Nat} {wk : Worker} (h : findWorker ws w = some wk) : preW ws w = wPre wk := by
  simp [preW, h]
theorem mnW_of_find {ws : List Worker} {w : Nat} {wk : Worker} (h : findWorker ws w = some wk) : mnW ws w = wMn wk := by
  simp [mnW, h]
theorem stOf_of_find {ts : List Task} {t : TaskId} {task : Task} (h : findTask ts t = some task) : stOf ts t = some task.state := by
  simp [stOf, h]
theorem stOf_none {ts : List Task} {t : TaskId} (h : findTask ts t = none) : stOf ts t = none := by
  simp [stOf, h]
theorem stOf_some {ts : List Task} {t : TaskId} {st : TS} (h : stOf ts t = some st) :
    ∃ task, findTask ts t = some task ∧ task.state = st := by
  unfold stOf at h
  cases hf : findTask ts t with
  | none => simp [hf] at h
  | some task => simp [hf] at h; exact ⟨task, rfl, h⟩

theorem asgW_put {ws : List Worker} {wk wk' : Worker} (hf : findWorker ws wk'.id = some wk) (x : Nat) :
    asgW (putWorker ws wk') x = if x = wk'.id then wAsg wk' else asgW ws x := by
  unfold asgW; rw [findWorker_putWorker]
  by_cases hx : x = wk'.id
  · subst hx; simp [hf]
  · simp [hx]
theorem preW_put {ws : List Worker} {wk wk' : Worker} (hf : findWorker ws wk'.id = some wk) (x : Nat) :
    preW (putWorker ws wk') x = if x = wk'.id then wPre wk' else preW ws x := by
  unfold preW; rw [findWorker_putWorker]
  by_cases hx : x = wk'.id
  · subst hx; simp [hf]
  · simp [hx]
theorem mnW_put {ws : List Worker} {wk wk' : Worker} (hf : findWorker ws wk'.id = some wk) (x : Nat) :
    mnW (putWorker ws wk') x = if x = wk'.id then wMn wk' else mnW ws x := by
  unfold mnW; rw [findWorker_putWorker]
  by_cases hx : x = wk'.id
  · subst hx; simp [hf]
  · simp [hx]

theorem stOf_put {ts : List Task} {told t' : Task} (hf : findTask ts t'.id = some told) (u : TaskId) :
    stOf (putTask ts t') u = if u = t'.id then some t'.state else stOf ts u := by
  unfold stOf; rw [findTask_putTask]
  by_cases hu : u = t'.id
  · subst hu; simp [hf]
  · simp [hu]

theorem asgW_filter (ws : List Worker) (w x : Nat) :
    asgW (ws.filter (·.id ≠ w)) x = if x = w then [] else asgW ws x := by
  unfold asgW; rw [findWorker_filter]; by_cases hx : x = w <;> simp [hx]
theorem preW_filter (ws : List Worker) (w x : Nat) :
    preW (ws.filter (·.id ≠ w)) x = if x = w then [] else preW ws x := by
  unfold preW; rw [findWorker_filter]; by_cases hx : x = w <;> simp [hx]
theorem mnW_filter (ws : List Worker) (w x : Nat) :
    mnW (ws.filter (·.id ≠ w)) x = if x = w then none else mnW ws x := by
  unfold mnW; rw [findWorker_filter]; by_cases hx : x = w <;> simp [hx]

/-! ### the invariant -/

/-- worker `w` holds a reservation for task `t` in state `st` -/
def Holds (rd : List (TaskId × Nat × Nat)) (w : Nat) (t : TaskId) : TS → Prop
  | .assigned w' _ => w' = w
  | .running w' _ => w' = w
  | .retracting _ => ∃ v, (t, w, v) ∈ rd
  | _ => False

@[simp] theorem Holds_assigned {rd w t w' v} : Holds rd w t (.assigned w' v) ↔ w' = w := Iff.rfl
@[simp] theorem Holds_running {rd w t w' v} : Holds rd w t (.running w' v) ↔ w' = w := Iff.rfl
@[simp] theorem Holds_retracting {rd w t w0} : Holds rd w t (.retracting w0) ↔ ∃ v, (t, w, v) ∈ rd := Iff.rfl
@[simp] theorem Holds_waiting {rd w t n} : Holds rd w t (.waiting n) ↔ False := Iff.rfl
@[simp] theorem Holds_prefilled {rd w t w'} : Holds rd w t (.prefilled w') ↔ False := Iff.rfl
@[simp] theorem Holds_runningMN {rd w t l} : Holds rd w t (.runningMN l) ↔ False := Iff.rfl
@[simp] theorem Holds_finished {rd w t} : Holds rd w t .finished ↔ False := Iff.rfl

/-- **list → state**: the part of `Worker::sanity_check` that does not mention amounts, plus the shape of the
redirect table. (`ts` task map, `ws` worker map, `rd` redirects.) -/
structure LS3 (ts : List Task) (ws : List Worker) (rd : List (TaskId × Nat × Nat)) : Prop where
  /-- an id in `assigned_tasks` of `w` is a task Assigned/Running on `w`, or Retracting with a redirect to `w` -/
  a1 : ∀ w t, t ∈ asgW ws w → ∃ st, stOf ts t = some st ∧ Holds rd w t st
  /-- an id in `prefilled_tasks` of `w` is a task Prefilled on `w` -/
  a2 : ∀ w t, t ∈ preW ws w → stOf ts t = some (.prefilled w)
  /-- a worker in a multi-node assignment for `t`: `t` is RunningMultiNode on a worker list containing it -/
  m1 : ∀ w t, mnW ws w = some t → ∃ l, stOf ts t = some (.runningMN l) ∧ w ∈ l
  /-- redirects exist only for Retracting tasks -/
  d1 : ∀ t w v, (t, w, v) ∈ rd → ∃ w0, stOf ts t = some (.retracting w0)
  /-- at most one redirect per task -/
  d2 : (rd.map (·.1)).Nodup
  nda : ∀ w, (asgW ws w).Nodup
  ndp : ∀ w, (preW ws w).Nodup

def LS (s : State) : Prop := LS3 s.tasks s.workers s.redirects

/-- the task is in no worker set and has no redirect -/
structure Free3 (ws : List Worker) (rd : List (TaskId × Nat × Nat)) (t : TaskId) : Prop where
  na : ∀ w, t ∉ asgW ws w
  np : ∀ w, t ∉ preW ws w
  nm : ∀ w, mnW ws w ≠ some t
  nr : ∀ w v, (t, w, v) ∉ rd

def Free (s : State) (t : TaskId) : Prop := Free3 s.workers s.redirects t

theorem LS3.free_of_state {ts ws rd} (h : LS3 ts ws rd) {t : TaskId}
    (hs : stOf ts t = none ∨ (∃ n, stOf ts t = some (.waiting n)) ∨ stOf ts t = some .finished) : Free3 ws rd t := by
  refine ⟨?_, ?_, ?_, ?_⟩
  · intro w hm
    obtain ⟨st, h1, h2⟩ := h.a1 w t hm
    rcases hs with hs | ⟨n, hs⟩ | hs <;> rw [hs] at h1 <;> cases h1 <;> simp at h2
  · intro w hm
    have := h.a2 w t hm
    rcases hs with hs | ⟨n, hs⟩ | hs <;> rw [hs] at this <;> cases this
  · intro w hm
    obtain ⟨l, h1, _⟩ := h.m1 w t hm
    rcases hs with hs | ⟨n, hs⟩ | hs <;> rw [hs] at h1 <;> cases h1
  · intro w v hm
    obtain ⟨w0, h1⟩ := h.d1 t w v hm
    rcases hs with hs | ⟨n, hs⟩ | hs <;> rw [hs] at h1 <;> cases h1

/-- **frame lemma**: a transition that changes the state, the set memberships and the redirects of ONE task `t`
preserves the invariant if the four clauses hold for `t` in the new state -/
theorem LS3.frame {ts ws rd ts' ws' rd'} (h : LS3 ts ws rd) (t : TaskId)
    (hst : ∀ u, u ≠ t → stOf ts' u = stOf ts u)
    (hasg : ∀ x u, u ≠ t → (u ∈ asgW ws' x ↔ u ∈ asgW ws x))
    (hpre : ∀ x u, u ≠ t → (u ∈ preW ws' x ↔ u ∈ preW ws x))
    (hmn : ∀ x u, u ≠ t → (mnW ws' x = some u ↔ mnW ws x = some u))
    (hrd : ∀ u x v, u ≠ t → ((u, x, v) ∈ rd' ↔ (u, x, v) ∈ rd))
    (h1 : ∀ w, t ∈ asgW ws' w → ∃ st, stOf ts' t = some st ∧ Holds rd' w t st)
    (h2 : ∀ w, t ∈ preW ws' w → stOf ts' t = some (.prefilled w))
    (h3 : ∀ w, mnW ws' w = some t → ∃ l, stOf ts' t = some (.runningMN l) ∧ w ∈ l)
    (h4 : ∀ w v, (t, w, v) ∈ rd' → ∃ w0, stOf ts' t = some (.retracting w0))
    (hd2 : (rd'.map (·.1)).Nodup) (hnda : ∀ w, (asgW ws' w).Nodup) (hndp : ∀ w, (preW ws' w).Nodup) :
    LS3 ts' ws' rd' := by
  refine ⟨?_, ?_, ?_, ?_, hd2, hnda, hndp⟩
  · intro w u hu
    by_cases e : u = t
    · subst e; exact h1 w hu
    · obtain ⟨st, hs, hh⟩ := h.a1 w u ((hasg w u e).mp hu)
      refine ⟨st, by rw [hst u e]; exact hs, ?_⟩
      cases st <;> simp only [Holds_assigned, Holds_running, Holds_retracting, Holds_waiting, Holds_prefilled,
        Holds_runningMN, Holds_finished] at hh ⊢ <;> try exact hh
      obtain ⟨v, hv⟩ := hh
      exact ⟨v, (hrd u w v e).mpr hv⟩
  · intro w u hu
    by_cases e : u = t
    · subst e; exact h2 w hu
    · rw [hst u e]; exact h.a2 w u ((hpre w u e).mp hu)
  · intro w u hu
    by_cases e : u = t
    · subst e; exact h3 w hu
    · rw [hst u e]; exact h.m1 w u ((hmn w u e).mp hu)
  · intro u w v hu
    by_cases e : u = t
    · subst e; exact h4 w v hu
    · rw [hst u e]; exact h.d1 u w v ((hrd u w v e).mp hu)

/-- **shrink lemma**: worker sets only lose members, task states and redirects are unchanged -/
theorem LS3.shrink {ts ws rd ts' ws'} (h : LS3 ts ws rd)
    (hst : ∀ u, stOf ts' u = stOf ts u)
    (hasg : ∀ x, (asgW ws' x).Sublist (asgW ws x))
    (hpre : ∀ x, (preW ws' x).Sublist (preW ws x))
    (hmn : ∀ x u, mnW ws' x = some u → mnW ws x = some u) :
    LS3 ts' ws' rd := by
  refine ⟨?_, ?_, ?_, ?_, h.d2, fun w => (hasg w).nodup (h.nda w), fun w => (hpre w).nodup (h.ndp w)⟩
  · intro w u hu; rw [hst]; exact h.a1 w u ((hasg w).subset hu)
  · intro w u hu; rw [hst]; exact h.a2 w u ((hpre w).subset hu)
  · intro w u hu; rw [hst]; exact h.m1 w u (hmn w u hu)
  · intro u w v hu; rw [hst]; exact h.d1 u w v hu

/-- the invariant only reads task states -/
theorem LS3.congr_tasks {ts ws rd ts'} (h : LS3 ts ws rd) (hst : ∀ u, stOf ts' u = stOf ts u) : LS3 ts' ws rd :=
  h.shrink hst (fun _ => List.Sublist.refl _) (fun _ => List.Sublist.refl _) (fun _ _ h => h)

/-! ### key uniqueness in the redirect table -/

theorem rd_unique {rd : List (TaskId × Nat × Nat)} (hn : (rd.map (·.1)).Nodup) {t : TaskId} {w w' v v' : Nat}
    (h1 : (t, w, v) ∈ rd) (h2 : (t, w', v') ∈ rd) : w = w' ∧ v = v' := by
  induction rd with
  | nil => cases h1
  | cons x xs ih =>
    simp only [List.map_cons, List.nodup_cons] at hn
    simp only [List.mem_cons] at h1 h2
    rcases h1 with h1 | h1 <;> rcases h2 with h2 | h2
    · rw [← h1] at h2; cases h2; exact ⟨rfl, rfl⟩
    · exfalso; apply hn.1; rw [← h1]; exact List.mem_map.mpr ⟨_, h2, rfl⟩
    · exfalso; apply hn.1; rw [← h2]; exact List.mem_map.mpr ⟨_, h1, rfl⟩
    · exact ih hn.2 h1 h2

theorem rd_find_of_mem {rd : List (TaskId × Nat × Nat)} (hn : (rd.map (·.1)).Nodup) {t : TaskId} {w v : Nat}
    (h : (t, w, v) ∈ rd) : rd.find? (·.1 = t) = some (t, w, v) := by
  induction rd with
  | nil => cases h
  | cons x xs ih =>
    simp only [List.map_cons, List.nodup_cons] at hn
    simp only [List.mem_cons] at h
    simp only [List.find?]
    rcases h with h | h
    · subst h; simp
    · have : x.1 ≠ t := by
        intro e; apply hn.1; rw [e]; exact List.mem_map.mpr ⟨_, h, rfl⟩
      simp only [this, decide_false]
      exact ih hn.2 h

theorem rd_mem_of_find {rd : List (TaskId × Nat × Nat)} {t : TaskId} {x : TaskId × Nat × Nat}
    (h : rd.find? (·.1 = t) = some x) : x ∈ rd ∧ x.1 = t := by
  have h1 := List.mem_of_find?_eq_some h
  have h2 := List.find?_some h
  simp at h2
  exact ⟨h1, h2⟩

theorem rd_find_none {rd : List (TaskId × Nat × Nat)} {t : TaskId}
    (h : rd.find? (·.1 = t) = none) (w v : Nat) : (t, w, v) ∉ rd := by
  intro hm
  have := List.find?_eq_none.mp h _ hm
  simp at this

theorem rd_filter_mem {rd : List (TaskId × Nat × Nat)} {t u : TaskId} {w v : Nat} :
    (u, w, v) ∈ rd.filter (·.1 ≠ t) ↔ (u, w, v) ∈ rd ∧ u ≠ t := by
  simp [List.mem_filter]

theorem rd_filter_nodup {rd : List (TaskId × Nat × Nat)} (hn : (rd.map (·.1)).Nodup) (t : TaskId) :
    ((rd.filter (·.1 ≠ t)).map (·.1)).Nodup :=
  (List.Sublist.map _ List.filter_sublist).nodup hn

theorem rd_filter_append_nodup {rd : List (TaskId × Nat × Nat)} (hn : (rd.map (·.1)).Nodup) (t : TaskId) (w v : Nat) :
    (((rd.filter (·.1 ≠ t)) ++ [(t, w, v)]).map (·.1)).Nodup := by
  rw [List.map_append, List.nodup_append]
  refine ⟨rd_filter_nodup hn t, by simp, ?_⟩
  intro a ha b hb
  simp only [List.map_cons, List.map_nil, List.mem_singleton] at hb
  subst hb
  obtain ⟨x, hx, rfl⟩ := List.mem_map.mp ha
  have := (List.mem_filter.mp hx).2
  simpa using this

end HqModel.Core
