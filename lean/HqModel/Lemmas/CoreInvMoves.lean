import HqModel.Lemmas.CoreInvViews
/-!
Stage 2, part 2: specifications of the worker-record operations and the catalogue of *moves* — the combined
updates of (task map, worker map, redirect table) that the reactor and the mapping perform for one task —
each shown to preserve `LS3`.
-/
namespace HqModel.Core

/-! ### worker-record operations -/

theorem withWorker_spec {s s' : State} {w : Nat} {f : Worker → M Worker} (h : s.withWorker w f = .ok s') :
    ∃ wk wk', findWorker s.workers w = some wk ∧ f wk = .ok wk' ∧ s' = s.setWorker wk' := by
  simp only [State.withWorker, State.getWorker, State.worker?] at h
  split at h
  · cases h
  · rename_i wk hw
    split at hw
    · rename_i wk0 hw0
      cases hw
      split at h
      · cases h
      · rename_i wk' hf
        cases h
        exact ⟨wk, wk', hw0, hf, rfl⟩
    · cases hw

theorem getWorker_spec {s : State} {w : Nat} {wk : Worker} (h : s.getWorker w = .ok wk) :
    findWorker s.workers w = some wk := by
  simp only [State.getWorker, State.worker?] at h
  split at h
  · cases h; assumption
  · cases h

theorem getTask_spec {s : State} {t : TaskId} {task : Task} (h : s.getTask t = .ok task) :
    findTask s.tasks t = some task := by
  simp only [State.getTask, State.task?] at h
  split at h
  · cases h; assumption
  · cases h

theorem insertSn_spec {wk wk' : Worker} {t : TaskId} {r : Rq} (h : wk.insertSn t r = .ok wk') :
    ∃ A F P F', wk.assign = .sn A F P ∧ freeRemove F r.entries = .ok F' ∧ t ∉ A ∧
      wk' = { wk with assign := .sn (A ++ [t]) F' P } := by
  simp only [Worker.insertSn] at h
  split at h
  · rename_i A F P ha
    split at h
    · cases h
    · rename_i F' hf
      split at h
      · cases h
      · rename_i hc
        cases h
        exact ⟨A, F, P, F', ha, hf, by simpa using hc, rfl⟩
  · cases h

theorem removeSn_spec {wk wk' : Worker} {t : TaskId} {r : Rq} (h : wk.removeSn t r = .ok wk') :
    ∃ A F P F', wk.assign = .sn A F P ∧ freeAdd F wk.total r.entries = .ok F' ∧ t ∈ A ∧
      wk' = { wk with assign := .sn (A.erase t) F' P } := by
  simp only [Worker.removeSn] at h
  split at h
  · rename_i A F P ha
    split at h
    · cases h
    · rename_i hc
      split at h
      · cases h
      · rename_i F' hf
        cases h
        exact ⟨A, F, P, F', ha, hf, by simpa using hc, rfl⟩
  · cases h

theorem insertPrefill_spec {wk wk' : Worker} {t : TaskId} (h : wk.insertPrefill t = .ok wk') :
    ∃ A F P, wk.assign = .sn A F P ∧ t ∉ P ∧ wk' = { wk with assign := .sn A F (P ++ [t]) } := by
  simp only [Worker.insertPrefill] at h
  split at h
  · rename_i A F P ha
    split at h
    · cases h
    · rename_i hc
      cases h
      exact ⟨A, F, P, ha, by simpa using hc, rfl⟩
  · cases h

theorem removePrefill_spec {wk wk' : Worker} {t : TaskId} (h : wk.removePrefill t = .ok wk') :
    ∃ A F P, wk.assign = .sn A F P ∧ t ∈ P ∧ wk' = { wk with assign := .sn A F (P.erase t) } := by
  simp only [Worker.removePrefill] at h
  split at h
  · rename_i A F P ha
    split at h
    · cases h
    · rename_i hc
      cases h
      exact ⟨A, F, P, ha, by simpa using hc, rfl⟩
  · cases h

theorem prefilledToStarted_spec {wk wk' : Worker} {t : TaskId} {r : Rq} (h : wk.prefilledToStarted t r = .ok wk') :
    ∃ A F P F', wk.assign = .sn A F P ∧ freeRemove F r.entries = .ok F' ∧ t ∈ P ∧ t ∉ A ∧
      wk' = { wk with assign := .sn (A ++ [t]) F' (P.erase t) } := by
  simp only [Worker.prefilledToStarted] at h
  split at h
  · rename_i A F P ha
    split at h
    · cases h
    · rename_i hc1
      split at h
      · cases h
      · rename_i hc2
        split at h
        · cases h
        · rename_i F' hf
          cases h
          exact ⟨A, F, P, F', ha, hf, by simpa using hc1, by simpa using hc2, rfl⟩
  · cases h

theorem setMn_spec {wk wk' : Worker} {t : TaskId} {root : Bool} (h : wk.setMn t root = .ok wk') :
    (∃ F, wk.assign = .sn [] F []) ∧ wk' = { wk with assign := .mn t root false } := by
  simp only [Worker.setMn] at h
  split at h
  · cases h
  · rename_i hc
    cases h
    refine ⟨?_, rfl⟩
    cases ha : wk.assign with
    | sn A F P =>
      simp only [Worker.isFree, ha] at hc
      cases A <;> cases P <;> simp at hc
      exact ⟨F, rfl⟩
    | mn a b c => simp [Worker.isFree, ha] at hc

/-! ### moves that touch the worker map only -/

/-- a worker record is replaced by one whose sets are sublists -/
theorem LS3.mv_worker_shrink {ts ws rd} (h : LS3 ts ws rd) {wk wk' : Worker}
    (hw : findWorker ws wk'.id = some wk)
    (hA : (wAsg wk').Sublist (wAsg wk)) (hP : (wPre wk').Sublist (wPre wk))
    (hM : ∀ u, wMn wk' = some u → wMn wk = some u) :
    LS3 ts (putWorker ws wk') rd := by
  have hA0 := asgW_of_find hw
  have hP0 := preW_of_find hw
  have hM0 := mnW_of_find hw
  refine h.shrink (fun _ => rfl) ?_ ?_ ?_
  · intro x; rw [asgW_put hw]; split
    · rename_i e; rw [e, hA0]; exact hA
    · exact List.Sublist.refl _
  · intro x; rw [preW_put hw]; split
    · rename_i e; rw [e, hP0]; exact hP
    · exact List.Sublist.refl _
  · intro x u; rw [mnW_put hw]; split
    · rename_i e; rw [e, hM0]; exact hM u
    · exact id

/-- lists only shrink, redirects only shrink: the relation that keeps detached tasks detached -/
structure Shr (ws : List Worker) (rd : List (TaskId × Nat × Nat)) (ws' : List Worker) (rd' : List (TaskId × Nat × Nat)) :
    Prop where
  a : ∀ x u, u ∈ asgW ws' x → u ∈ asgW ws x
  p : ∀ x u, u ∈ preW ws' x → u ∈ preW ws x
  m : ∀ x u, mnW ws' x = some u → mnW ws x = some u
  r : ∀ x, x ∈ rd' → x ∈ rd

theorem Shr.refl (ws rd) : Shr ws rd ws rd := ⟨fun _ _ h => h, fun _ _ h => h, fun _ _ h => h, fun _ h => h⟩
theorem Shr.trans {ws rd ws' rd' ws'' rd''} (h1 : Shr ws rd ws' rd') (h2 : Shr ws' rd' ws'' rd'') : Shr ws rd ws'' rd'' :=
  ⟨fun x u h => h1.a x u (h2.a x u h), fun x u h => h1.p x u (h2.p x u h), fun x u h => h1.m x u (h2.m x u h),
   fun x h => h1.r x (h2.r x h)⟩
theorem Shr.free {ws rd ws' rd' t} (h : Shr ws rd ws' rd') (hf : Free3 ws rd t) : Free3 ws' rd' t :=
  ⟨fun w hm => hf.na w (h.a w t hm), fun w hm => hf.np w (h.p w t hm), fun w hm => hf.nm w (h.m w t hm),
   fun w v hm => hf.nr w v (h.r _ hm)⟩

theorem Shr.put {ws rd} {wk wk' : Worker} (hw : findWorker ws wk'.id = some wk)
    (hA : (wAsg wk').Sublist (wAsg wk)) (hP : (wPre wk').Sublist (wPre wk))
    (hM : ∀ u, wMn wk' = some u → wMn wk = some u) : Shr ws rd (putWorker ws wk') rd := by
  have hA0 := asgW_of_find hw
  have hP0 := preW_of_find hw
  have hM0 := mnW_of_find hw
  refine ⟨?_, ?_, ?_, fun _ h => h⟩
  · intro x u; rw [asgW_put hw]; split
    · rename_i e; rw [e, hA0]; exact fun h => hA.subset h
    · exact id
  · intro x u; rw [preW_put hw]; split
    · rename_i e; rw [e, hP0]; exact fun h => hP.subset h
    · exact id
  · intro x u; rw [mnW_put hw]; split
    · rename_i e; rw [e, hM0]; exact hM u
    · exact id

/-! ### moves on a task that is in no worker set -/

/-- any state change of a task that is in no worker set, together with a change of its redirects -/
theorem LS3.mv_listfree {ts ws rd rd'} (h : LS3 ts ws rd) {t' told : Task}
    (ht : findTask ts t'.id = some told)
    (hna : ∀ w, t'.id ∉ asgW ws w) (hnp : ∀ w, t'.id ∉ preW ws w) (hnm : ∀ w, mnW ws w ≠ some t'.id)
    (hrd : ∀ u x v, u ≠ t'.id → ((u, x, v) ∈ rd' ↔ (u, x, v) ∈ rd))
    (hr : ∀ x v, (t'.id, x, v) ∈ rd' → ∃ w0, t'.state = .retracting w0)
    (hd2 : (rd'.map (·.1)).Nodup) :
    LS3 (putTask ts t') ws rd' := by
  refine h.frame t'.id ?_ ?_ ?_ ?_ hrd ?_ ?_ ?_ ?_ hd2 h.nda h.ndp
  all_goals try simp only [stOf_put ht]
  · grind
  · grind
  · grind
  · grind
  · grind
  · grind
  · grind
  · grind

/-- any state change of a free task -/
theorem LS3.mv_free {ts ws rd} (h : LS3 ts ws rd) {t' told : Task}
    (ht : findTask ts t'.id = some told) (hf : Free3 ws rd t'.id) : LS3 (putTask ts t') ws rd :=
  h.mv_listfree ht hf.na hf.np hf.nm (fun _ _ _ _ => Iff.rfl) (fun x v hm => absurd hm (hf.nr x v)) h.d2

/-- a state change that keeps the state -/
theorem LS3.mv_same {ts ws rd} (h : LS3 ts ws rd) {t' told : Task}
    (ht : findTask ts t'.id = some told) (hs : t'.state = told.state) : LS3 (putTask ts t') ws rd := by
  refine h.congr_tasks ?_
  intro u; rw [stOf_put ht]; split
  · rename_i e; rw [e, stOf_of_find ht, hs]
  · rfl

/-- the task map gains entries / keeps all its entries -/
theorem LS3.extend {ts ts' ws rd} (h : LS3 ts ws rd) (hm : ∀ u st, stOf ts u = some st → stOf ts' u = some st) :
    LS3 ts' ws rd := by
  refine ⟨?_, ?_, ?_, ?_, h.d2, h.nda, h.ndp⟩
  · intro w u hu; obtain ⟨st, h1, h2⟩ := h.a1 w u hu; exact ⟨st, hm _ _ h1, h2⟩
  · intro w u hu; exact hm _ _ (h.a2 w u hu)
  · intro w u hu; obtain ⟨l, h1, h2⟩ := h.m1 w u hu; exact ⟨l, hm _ _ h1, h2⟩
  · intro u w v hu; obtain ⟨w0, h1⟩ := h.d1 u w v hu; exact ⟨w0, hm _ _ h1⟩

/-- a free task is erased -/
theorem LS3.mv_erase {ts ws rd} (h : LS3 ts ws rd) (hn : (taskIds ts).Nodup) {t : TaskId} (hf : Free3 ws rd t) :
    LS3 (eraseTask ts t) ws rd := by
  have hst : ∀ u, stOf (eraseTask ts t) u = if u = t then none else stOf ts u := by
    intro u; unfold stOf; rw [findTask_eraseTask hn]; split <;> rfl
  refine ⟨?_, ?_, ?_, ?_, h.d2, h.nda, h.ndp⟩
  · intro w u hu
    have : u ≠ t := fun e => hf.na w (e ▸ hu)
    rw [hst, if_neg this]; exact h.a1 w u hu
  · intro w u hu
    have : u ≠ t := fun e => hf.np w (e ▸ hu)
    rw [hst, if_neg this]; exact h.a2 w u hu
  · intro w u hu
    have : u ≠ t := fun e => hf.nm w (e ▸ hu)
    rw [hst, if_neg this]; exact h.m1 w u hu
  · intro u w v hu
    have : u ≠ t := fun e => hf.nr w v (e ▸ hu)
    rw [hst, if_neg this]; exact h.d1 u w v hu

/-! ### moves of the reactor -/

/-- `process_retracted`: Prefilled on `w` → Retracting, removed from the prefilled set -/
theorem LS3.mv_retract {ts ws rd} (h : LS3 ts ws rd) {t' told : Task} {wk wk' : Worker}
    (ht : findTask ts t'.id = some told) (hs : told.state = .prefilled wk'.id) (hs' : t'.state = .retracting wk'.id)
    (hw : findWorker ws wk'.id = some wk)
    (hA : wAsg wk' = wAsg wk) (hP : wPre wk' = (wPre wk).erase t'.id) (hM : wMn wk' = wMn wk) :
    LS3 (putTask ts t') (putWorker ws wk') rd := by
  have hst : stOf ts t'.id = some (.prefilled wk'.id) := by rw [stOf_of_find ht, hs]
  have hA0 := asgW_of_find hw
  have hP0 := preW_of_find hw
  have hM0 := mnW_of_find hw
  have hnd := h.ndp wk'.id
  have ha1 := h.a1
  have ha2 := h.a2
  have hm1 := h.m1
  have hd1 := h.d1
  refine h.frame t'.id ?_ ?_ ?_ ?_ ?_ ?_ ?_ ?_ ?_ h.d2 ?_ ?_
  all_goals try simp only [stOf_put ht, asgW_put hw, preW_put hw, mnW_put hw, hA, hP, hM, ← hA0, ← hP0, ← hM0]
  · grind
  · grind
  · grind
  · grind
  · grind
  · grind [Holds]
  · grind [List.Nodup.mem_erase_iff]
  · grind
  · grind
  · intro x; split
    · exact h.nda _
    · exact h.nda x
  · intro x; split
    · exact List.Sublist.nodup List.erase_sublist (h.ndp _)
    · exact h.ndp x

/-- `try_remove_redirection` when a redirect exists: the redirect is dropped and the task leaves the target -/
theorem LS3.mv_unredirect {ts ws rd} (h : LS3 ts ws rd) {t : TaskId} {v : Nat} {wk wk' : Worker}
    (hr : (t, wk'.id, v) ∈ rd) (hw : findWorker ws wk'.id = some wk)
    (hA : wAsg wk' = (wAsg wk).erase t) (hP : wPre wk' = wPre wk) (hM : wMn wk' = wMn wk) :
    LS3 ts (putWorker ws wk') (rd.filter (·.1 ≠ t)) := by
  have hA0 := asgW_of_find hw
  have hP0 := preW_of_find hw
  have hM0 := mnW_of_find hw
  have hnd := h.nda wk'.id
  have ha1 := h.a1
  have ha2 := h.a2
  have hm1 := h.m1
  have hd1 := h.d1
  have huniq := @rd_unique rd h.d2 t
  refine h.frame t ?_ ?_ ?_ ?_ ?_ ?_ ?_ ?_ ?_ (rd_filter_nodup h.d2 t) ?_ ?_
  all_goals try simp only [asgW_put hw, preW_put hw, mnW_put hw, hA, hP, hM, ← hA0, ← hP0, ← hM0, rd_filter_mem]
  · grind
  · grind
  · grind
  · grind
  · grind
  · intro x hx
    split at hx
    · rename_i e; subst e
      exact absurd hx (by rw [List.Nodup.mem_erase_iff hnd]; simp)
    · rename_i e
      obtain ⟨st, h1, h2⟩ := ha1 x t hx
      refine ⟨st, h1, ?_⟩
      cases st <;> simp only [Holds_assigned, Holds_running, Holds_retracting, Holds_waiting, Holds_prefilled,
        Holds_runningMN, Holds_finished] at h2 ⊢ <;> try exact h2
      obtain ⟨v', hv'⟩ := h2
      exact absurd (huniq hv' hr).1 e
  · grind
  · grind
  · grind
  · intro x; split
    · exact List.Sublist.nodup List.erase_sublist (h.nda _)
    · exact h.nda x
  · intro x; split
    · exact h.ndp _
    · exact h.ndp x

/-- after `mv_unredirect` a Retracting task is free -/
theorem LS3.free_after_unredirect {ts ws rd} (h : LS3 ts ws rd) {t : TaskId} {v w0 : Nat} {wk wk' : Worker}
    (hs : stOf ts t = some (.retracting w0))
    (hr : (t, wk'.id, v) ∈ rd) (hw : findWorker ws wk'.id = some wk)
    (hA : wAsg wk' = (wAsg wk).erase t) (hP : wPre wk' = wPre wk) (hM : wMn wk' = wMn wk) :
    Free3 (putWorker ws wk') (rd.filter (·.1 ≠ t)) t := by
  have hA0 := asgW_of_find hw
  have hP0 := preW_of_find hw
  have hM0 := mnW_of_find hw
  have hnd := h.nda wk'.id
  have ha1 := h.a1
  have ha2 := h.a2
  have hm1 := h.m1
  have huniq := @rd_unique rd h.d2 t
  refine ⟨?_, ?_, ?_, ?_⟩
  all_goals try simp only [asgW_put hw, preW_put hw, mnW_put hw, hA, hP, hM, ← hA0, ← hP0, ← hM0, rd_filter_mem]
  · intro x hx
    split at hx
    · rename_i e; subst e
      exact absurd hx (by rw [List.Nodup.mem_erase_iff hnd]; simp)
    · rename_i e
      obtain ⟨st, h1, h2⟩ := ha1 x t hx
      rw [hs] at h1; cases h1
      obtain ⟨v', hv'⟩ := h2
      exact absurd (huniq hv' hr).1 e
  · grind
  · grind
  · grind

/-- a Retracting task without a redirect is free -/
theorem LS3.free_of_retracting {ts ws rd} (h : LS3 ts ws rd) {t : TaskId} {w0 : Nat}
    (hs : stOf ts t = some (.retracting w0)) (hn : ∀ x v, (t, x, v) ∉ rd) : Free3 ws rd t := by
  have ha1 := h.a1
  have ha2 := h.a2
  have hm1 := h.m1
  refine ⟨?_, ?_, ?_, hn⟩
  · intro x hx
    obtain ⟨st, h1, h2⟩ := ha1 x t hx
    rw [hs] at h1; cases h1
    obtain ⟨v', hv'⟩ := h2
    exact hn _ _ hv'
  · grind
  · grind

/-- Assigned → Running on the same worker -/
theorem LS3.mv_started {ts ws rd} (h : LS3 ts ws rd) {t' told : Task} {w v v' : Nat}
    (ht : findTask ts t'.id = some told) (hs : told.state = .assigned w v) (hs' : t'.state = .running w v') :
    LS3 (putTask ts t') ws rd := by
  have hst : stOf ts t'.id = some (.assigned w v) := by rw [stOf_of_find ht, hs]
  have ha1 := h.a1
  have ha2 := h.a2
  have hm1 := h.m1
  have hd1 := h.d1
  refine h.frame t'.id ?_ ?_ ?_ ?_ ?_ ?_ ?_ ?_ ?_ h.d2 h.nda h.ndp
  all_goals try simp only [stOf_put ht]
  · grind
  · grind
  · grind
  · grind
  · grind
  · intro x hx
    obtain ⟨st, h1, h2⟩ := ha1 x _ hx
    rw [hst] at h1; cases h1
    exact ⟨_, rfl, by rw [hs']; exact h2⟩
  · grind
  · grind
  · grind

/-- the views of a task Assigned / Running on `w`: only in `assigned_tasks` of `w` -/
theorem LS3.free_after_removeSn {ts ws rd} (h : LS3 ts ws rd) {t : TaskId} {st : TS} {wk wk' : Worker}
    (hs : stOf ts t = some st) (hst : (∃ v, st = .assigned wk'.id v) ∨ (∃ v, st = .running wk'.id v))
    (hw : findWorker ws wk'.id = some wk)
    (hA : wAsg wk' = (wAsg wk).erase t) (hP : wPre wk' = wPre wk) (hM : wMn wk' = wMn wk) :
    Free3 (putWorker ws wk') rd t := by
  have hA0 := asgW_of_find hw
  have hP0 := preW_of_find hw
  have hM0 := mnW_of_find hw
  have hnd := h.nda wk'.id
  have ha1 := h.a1
  have ha2 := h.a2
  have hm1 := h.m1
  have hd1 := h.d1
  refine ⟨?_, ?_, ?_, ?_⟩
  all_goals try simp only [asgW_put hw, preW_put hw, mnW_put hw, hA, hP, hM, ← hA0, ← hP0, ← hM0]
  · intro x hx
    split at hx
    · rename_i e; subst e
      exact absurd hx (by rw [List.Nodup.mem_erase_iff hnd]; simp)
    · rename_i e
      obtain ⟨st', h1, h2⟩ := ha1 x t hx
      rw [hs] at h1; cases h1
      rcases hst with ⟨v, rfl⟩ | ⟨v, rfl⟩ <;> exact e (Eq.symm h2)
  · grind
  · grind
  · grind

theorem LS3.free_after_removePrefill {ts ws rd} (h : LS3 ts ws rd) {t : TaskId} {wk wk' : Worker}
    (hm : t ∈ wPre wk) (hw : findWorker ws wk'.id = some wk)
    (hA : wAsg wk' = wAsg wk) (hP : wPre wk' = (wPre wk).erase t) (hM : wMn wk' = wMn wk) :
    Free3 (putWorker ws wk') rd t := by
  have hA0 := asgW_of_find hw
  have hP0 := preW_of_find hw
  have hM0 := mnW_of_find hw
  have hnd := h.ndp wk'.id
  have ha1 := h.a1
  have ha2 := h.a2
  have hm1 := h.m1
  have hd1 := h.d1
  have hs : stOf ts t = some (.prefilled wk'.id) := ha2 _ _ (by rw [hP0]; exact hm)
  refine ⟨?_, ?_, ?_, ?_⟩
  all_goals try simp only [asgW_put hw, preW_put hw, mnW_put hw, hA, hP, hM, ← hA0, ← hP0, ← hM0]
  · grind [Holds]
  · intro x hx
    split at hx
    · rename_i e; subst e
      exact absurd hx (by rw [List.Nodup.mem_erase_iff hnd]; simp)
    · rename_i e
      have := ha2 x t hx
      rw [hs] at this; cases this; exact e rfl
  · grind
  · grind

/-- Prefilled on `w` → Running on `w` (`task_from_prefilled_to_started`) -/
theorem LS3.mv_prefill_start {ts ws rd} (h : LS3 ts ws rd) {t' told : Task} {v : Nat} {wk wk' : Worker}
    (ht : findTask ts t'.id = some told) (hs : told.state = .prefilled wk'.id) (hs' : t'.state = .running wk'.id v)
    (hw : findWorker ws wk'.id = some wk) (hni : t'.id ∉ wAsg wk)
    (hA : wAsg wk' = wAsg wk ++ [t'.id]) (hP : wPre wk' = (wPre wk).erase t'.id) (hM : wMn wk' = wMn wk) :
    LS3 (putTask ts t') (putWorker ws wk') rd := by
  have hst : stOf ts t'.id = some (.prefilled wk'.id) := by rw [stOf_of_find ht, hs]
  have hA0 := asgW_of_find hw
  have hP0 := preW_of_find hw
  have hM0 := mnW_of_find hw
  have hnd := h.ndp wk'.id
  have ha1 := h.a1
  have ha2 := h.a2
  have hm1 := h.m1
  have hd1 := h.d1
  refine h.frame t'.id ?_ ?_ ?_ ?_ ?_ ?_ ?_ ?_ ?_ h.d2 ?_ ?_
  all_goals try simp only [stOf_put ht, asgW_put hw, preW_put hw, mnW_put hw, hA, hP, hM, ← hA0, ← hP0, ← hM0]
  · grind
  · grind
  · grind
  · grind
  · grind
  · grind [Holds]
  · grind [List.Nodup.mem_erase_iff]
  · grind
  · grind
  · intro x; split
    · rw [List.nodup_append]
      refine ⟨h.nda _, by simp, ?_⟩
      intro a ha b hb
      simp only [List.mem_singleton] at hb
      subst hb; intro e; subst e; rw [hA0] at ha; exact hni ha
    · exact h.nda x
  · intro x; split
    · exact List.Sublist.nodup List.erase_sublist (h.ndp _)
    · exact h.ndp x

/-- a free task gets a reservation on `w` (Waiting → Assigned, Retracting with a new redirect, Retracting → Running) -/
theorem LS3.mv_assign {ts ws rd rd'} (h : LS3 ts ws rd) {t' told : Task} {wk wk' : Worker}
    (ht : findTask ts t'.id = some told) (hf : Free3 ws rd t'.id)
    (hw : findWorker ws wk'.id = some wk) (hni : t'.id ∉ wAsg wk)
    (hA : wAsg wk' = wAsg wk ++ [t'.id]) (hP : wPre wk' = wPre wk) (hM : wMn wk' = wMn wk)
    (hrd : ∀ u x v, u ≠ t'.id → ((u, x, v) ∈ rd' ↔ (u, x, v) ∈ rd))
    (hr : ∀ x v, (t'.id, x, v) ∈ rd' → ∃ w0, t'.state = .retracting w0)
    (hh : Holds rd' wk'.id t'.id t'.state)
    (hd2 : (rd'.map (·.1)).Nodup) :
    LS3 (putTask ts t') (putWorker ws wk') rd' := by
  have hA0 := asgW_of_find hw
  have hP0 := preW_of_find hw
  have hM0 := mnW_of_find hw
  have hna := hf.na
  have hnp := hf.np
  have hnm := hf.nm
  refine h.frame t'.id ?_ ?_ ?_ ?_ hrd ?_ ?_ ?_ ?_ hd2 ?_ ?_
  all_goals try simp only [stOf_put ht, asgW_put hw, preW_put hw, mnW_put hw, hA, hP, hM, ← hA0, ← hP0, ← hM0]
  · grind
  · grind
  · grind
  · grind
  · intro x hx
    split at hx
    · rename_i e; subst e; exact ⟨_, by simp, hh⟩
    · exact absurd hx (hna x)
  · grind
  · grind
  · intro x v hx; obtain ⟨w0, e⟩ := hr x v hx; exact ⟨w0, by simp [e]⟩
  · intro x; split
    · rw [List.nodup_append]
      refine ⟨h.nda _, by simp, ?_⟩
      intro a ha b hb
      simp only [List.mem_singleton] at hb
      subst hb; intro e; subst e; exact hna _ ha
    · exact h.nda x
  · intro x; split
    · exact h.ndp _
    · exact h.ndp x

/-- a free task is put into the prefilled set of `w` (proactive filling) -/
theorem LS3.mv_prefill {ts ws rd} (h : LS3 ts ws rd) {t' told : Task} {wk wk' : Worker}
    (ht : findTask ts t'.id = some told) (hf : Free3 ws rd t'.id) (hs' : t'.state = .prefilled wk'.id)
    (hw : findWorker ws wk'.id = some wk)
    (hA : wAsg wk' = wAsg wk) (hP : wPre wk' = wPre wk ++ [t'.id]) (hM : wMn wk' = wMn wk) :
    LS3 (putTask ts t') (putWorker ws wk') rd := by
  have hA0 := asgW_of_find hw
  have hP0 := preW_of_find hw
  have hM0 := mnW_of_find hw
  have hna := hf.na
  have hnp := hf.np
  have hnm := hf.nm
  have hnr := hf.nr
  refine h.frame t'.id ?_ ?_ ?_ ?_ ?_ ?_ ?_ ?_ ?_ h.d2 ?_ ?_
  all_goals try simp only [stOf_put ht, asgW_put hw, preW_put hw, mnW_put hw, hA, hP, hM, ← hA0, ← hP0, ← hM0]
  · grind
  · grind
  · grind
  · grind
  · grind
  · grind
  · grind
  · grind
  · grind
  · intro x; split
    · exact h.nda _
    · exact h.nda x
  · intro x; split
    · rw [List.nodup_append]
      refine ⟨h.ndp _, by simp, ?_⟩
      intro a ha b hb
      simp only [List.mem_singleton] at hb
      subst hb; intro e; subst e; exact hnp _ ha
    · exact h.ndp x

/-- the redirect of a Retracting task is consumed: Retracting → Assigned on the redirect target -/
theorem LS3.mv_resolve_redirect {ts ws rd} (h : LS3 ts ws rd) {t' told : Task} {w0 target rv : Nat}
    (ht : findTask ts t'.id = some told) (hs : told.state = .retracting w0)
    (hr : (t'.id, target, rv) ∈ rd) (hs' : t'.state = .assigned target rv) :
    LS3 (putTask ts t') ws (rd.filter (·.1 ≠ t'.id)) := by
  have hst : stOf ts t'.id = some (.retracting w0) := by rw [stOf_of_find ht, hs]
  have ha1 := h.a1
  have ha2 := h.a2
  have hm1 := h.m1
  have hd1 := h.d1
  have huniq := @rd_unique rd h.d2 t'.id
  refine h.frame t'.id ?_ ?_ ?_ ?_ ?_ ?_ ?_ ?_ ?_ (rd_filter_nodup h.d2 _) h.nda h.ndp
  all_goals try simp only [stOf_put ht, rd_filter_mem]
  · grind
  · grind
  · grind
  · grind
  · grind
  · intro x hx
    obtain ⟨st, h1, h2⟩ := ha1 x _ hx
    rw [hst] at h1; cases h1
    obtain ⟨v', hv'⟩ := h2
    refine ⟨_, rfl, ?_⟩
    rw [hs']; exact ((huniq hv' hr).1).symm
  · grind
  · grind
  · grind

/-- worker map only: a new worker record whose sets are empty -/
theorem LS3.mv_new_worker {ts ws rd} (h : LS3 ts ws rd) {wk : Worker}
    (hA : wAsg wk = []) (hP : wPre wk = []) (hM : wMn wk = none) : LS3 ts (ws ++ [wk]) rd := by
  have e1 : ∀ x, asgW (ws ++ [wk]) x = asgW ws x := by
    intro x; unfold asgW; rw [findWorker_append]
    cases findWorker ws x with
    | some y => rfl
    | none => by_cases e : wk.id = x <;> simp [e, hA]
  have e2 : ∀ x, preW (ws ++ [wk]) x = preW ws x := by
    intro x; unfold preW; rw [findWorker_append]
    cases findWorker ws x with
    | some y => rfl
    | none => by_cases e : wk.id = x <;> simp [e, hP]
  have e3 : ∀ x, mnW (ws ++ [wk]) x = mnW ws x := by
    intro x; unfold mnW; rw [findWorker_append]
    cases findWorker ws x with
    | some y => rfl
    | none => by_cases e : wk.id = x <;> simp [e, hM]
  exact h.shrink (fun _ => rfl) (fun x => by rw [e1]; exact List.Sublist.refl _)
    (fun x => by rw [e2]; exact List.Sublist.refl _) (fun x u => by rw [e3]; exact id)

/-- worker map only: a worker is dropped -/
theorem LS3.mv_drop_worker {ts ws rd} (h : LS3 ts ws rd) (w : Nat) : LS3 ts (ws.filter (·.id ≠ w)) rd := by
  refine h.shrink (fun _ => rfl) ?_ ?_ ?_
  · intro x; rw [asgW_filter]; split
    · exact List.nil_sublist _
    · exact List.Sublist.refl _
  · intro x; rw [preW_filter]; split
    · exact List.nil_sublist _
    · exact List.Sublist.refl _
  · intro x u; rw [mnW_filter]; split
    · intro e; cases e
    · exact id

/-- a multi-node task changes its worker list to one that still covers every worker reserved for it -/
theorem LS3.mv_mn_state {ts ws rd} (h : LS3 ts ws rd) {t' told : Task} {l l' : List Nat}
    (ht : findTask ts t'.id = some told) (hs : told.state = .runningMN l) (hs' : t'.state = .runningMN l')
    (hc : ∀ x, mnW ws x = some t'.id → x ∈ l') : LS3 (putTask ts t') ws rd := by
  have hst : stOf ts t'.id = some (.runningMN l) := by rw [stOf_of_find ht, hs]
  have ha1 := h.a1
  have ha2 := h.a2
  have hm1 := h.m1
  have hd1 := h.d1
  refine h.frame t'.id ?_ ?_ ?_ ?_ ?_ ?_ ?_ ?_ ?_ h.d2 h.nda h.ndp
  all_goals try simp only [stOf_put ht]
  · grind
  · grind
  · grind
  · grind
  · grind
  · grind [Holds]
  · grind
  · grind
  · grind

end HqModel.Core
