import HqModel.Stream.Spec
/-!
Index lemmas for M8 Stream (record level, no bytes): what `create_index` computes for one task from the
sequence of chunk records it meets, under the no-return hypothesis on instance ids; what the stable sort and
`last_instance` then select.
-/
namespace HqModel.Stream

/-- a chunk record together with the `file_idx` it was met in -/
abbrev FR := Nat × Rec

def foldRecs (idx : Index) (l : List FR) : Index := l.foldl (fun i fr => i.step fr.1 fr.2) idx

theorem build_chunks (idx : Index) (l : List FR) (h : ∀ fr ∈ l, fr.2.panics = false) :
    build idx (l.map fun fr => Ev.chunk fr.1 fr.2) = .ok (foldRecs idx l) := by
  induction l generalizing idx with
  | nil => rfl
  | cons a l ih =>
    have ha : a.2.panics = false := h a (by simp)
    simp only [List.map_cons, build, ha, Bool.false_eq_true, if_false, foldRecs, List.foldl_cons]
    exact ih _ (fun fr hfr => h fr (by simp [hfr]))

/-- the instances of one task depend only on the records of that task -/
theorem foldRecs_get (idx : Index) (l : List FR) (t : Key) :
    (foldRecs idx l).get t =
      (l.filter fun fr => fr.2.key = t).foldl (fun a fr => pushRec a fr.1 fr.2) (idx.get t) := by
  induction l generalizing idx with
  | nil => rfl
  | cons a l ih =>
    simp only [foldRecs, List.foldl_cons] at ih ⊢
    rw [ih]
    by_cases hk : a.2.key = t
    · simp [hk, Index.step]
    · have : ¬ t = a.2.key := fun h => hk h.symm
      simp [hk, Index.step, this]

/-! ## `NoReturn` -/

theorem NoReturn.prefix {l₁ l₂ : List Nat} (h : NoReturn (l₁ ++ l₂)) : NoReturn l₁ := by
  induction l₁ with
  | nil => trivial
  | cons x l ih =>
    simp only [List.cons_append, NoReturn] at h ⊢
    refine ⟨fun hx => ?_, ih h.2⟩
    have := h.1 (by simp [hx])
    cases l with
    | nil => simp at hx
    | cons y l => simpa using this

theorem NoReturn.last_of_mem {l : List Nat} {x : Nat} (h : NoReturn (l ++ [x])) (hx : x ∈ l) :
    l.getLast? = some x := by
  induction l with
  | nil => simp at hx
  | cons y l ih =>
    simp only [List.cons_append, NoReturn] at h
    cases l with
    | nil => simp at hx; simp [hx]
    | cons z l =>
      have e : (y :: z :: l).getLast? = (z :: l).getLast? := by simp [List.getLast?_cons_cons]
      rw [e]
      by_cases hxl : x ∈ z :: l
      · exact ih h.2 hxl
      · have hxy : x = y := by
          simp only [List.mem_cons] at hx hxl
          rcases hx with h1 | h1
          · exact h1
          · exact absurd h1 hxl
        subst hxy
        have := h.1 (by simp)
        simp only [List.cons_append, List.head?_cons, Option.some.injEq] at this
        subst this
        simp at hxl

theorem NoReturn.append {l₁ l₂ : List Nat} (h₁ : NoReturn l₁) (h₂ : NoReturn l₂)
    (hd : ∀ x ∈ l₁, x ∉ l₂) : NoReturn (l₁ ++ l₂) := by
  induction l₁ with
  | nil => simpa using h₂
  | cons x l ih =>
    simp only [List.cons_append, NoReturn] at h₁ ⊢
    refine ⟨fun hx => ?_, ih h₁.2 (fun y hy => hd y (by simp [hy]))⟩
    have hx' : x ∈ l := by
      rcases List.mem_append.mp hx with h | h
      · exact h
      · exact absurd h (hd x (by simp))
    have := h₁.1 hx'
    cases l with
    | nil => simp at hx'
    | cons y l => simpa using this

/-! ## one task's instance list -/

def pushAll (l : List FR) : List InstanceInfo := l.foldl (fun a fr => pushRec a fr.1 fr.2) []

def ids (l : List FR) : List Nat := l.map (·.2.hdr.inst)

def ci (fr : FR) : ChunkInfo := ⟨fr.2.pos, fr.2.hdr.size % 4294967296⟩

/-- the `InstanceInfo` that the records with instance id `m` describe -/
def mkInfo (l : List FR) (m : Nat) : InstanceInfo :=
  { inst := m
    ch0 := (l.filter fun fr =>
      decide (fr.2.hdr.inst = m) && decide (fr.2.hdr.size > 0) && decide (fr.2.hdr.channel = 0)).map ci
    ch1 := (l.filter fun fr =>
      decide (fr.2.hdr.inst = m) && decide (fr.2.hdr.size > 0) && !decide (fr.2.hdr.channel = 0)).map ci
    fileIdx := ((l.find? fun fr => decide (fr.2.hdr.inst = m)).map (·.1)).getD 0
    finished := l.any fun fr => decide (fr.2.hdr.inst = m) && decide (fr.2.hdr.size = 0) }

theorem lastInst?_concat (l : List InstanceInfo) (i : InstanceInfo) : lastInst? (l ++ [i]) = some i.inst := by
  induction l with
  | nil => rfl
  | cons a l ih =>
    cases l with
    | nil => simp [lastInst?]
    | cons b l => simpa [lastInst?] using ih

theorem updLast_concat (g : α → α) (l : List α) (i : α) : updLast g (l ++ [i]) = l ++ [g i] := by
  induction l with
  | nil => rfl
  | cons a l ih =>
    cases l with
    | nil => simp [updLast]
    | cons b l => simpa [updLast] using ih

theorem lastInst?_eq_some {l : List InstanceInfo} {x : Nat} (h : lastInst? l = some x) :
    ∃ l' i, l = l' ++ [i] ∧ i.inst = x := by
  rcases List.eq_nil_or_concat l with rfl | ⟨l', i, rfl⟩
  · simp [lastInst?] at h
  · rw [List.concat_eq_append, lastInst?_concat] at h
    exact ⟨l', i, by simp, by simpa using h⟩

theorem addChunk_inst (i : InstanceInfo) (r : Rec) : (addChunk i r).inst = i.inst := by
  unfold addChunk; repeat' split
  all_goals rfl

structure PInv (done : List FR) (acc : List InstanceInfo) : Prop where
  nodup : (acc.map (·.inst)).Nodup
  mem : ∀ m, m ∈ acc.map (·.inst) ↔ m ∈ ids done
  last : lastInst? acc = (ids done).getLast?
  eq : ∀ info ∈ acc, info = mkInfo done info.inst

theorem mkInfo_snoc_ne (done : List FR) (a : FR) (m : Nat) (h : a.2.hdr.inst ≠ m) :
    mkInfo (done ++ [a]) m = mkInfo done m := by
  simp [mkInfo, List.filter_append, h, List.find?_append, List.any_append]

theorem mkInfo_snoc_same (done : List FR) (a : FR) (hm : a.2.hdr.inst ∈ ids done) :
    mkInfo (done ++ [a]) a.2.hdr.inst = addChunk (mkInfo done a.2.hdr.inst) a.2 := by
  have hf : ∃ x, (done.find? fun fr => decide (fr.2.hdr.inst = a.2.hdr.inst)) = some x := by
    simp only [ids, List.mem_map] at hm
    obtain ⟨fr, hfr, he⟩ := hm
    cases hq : done.find? fun fr => decide (fr.2.hdr.inst = a.2.hdr.inst) with
    | some x => exact ⟨x, rfl⟩
    | none =>
      have := List.find?_eq_none.mp hq fr hfr
      simp [he] at this
  obtain ⟨x, hx⟩ := hf
  unfold addChunk
  by_cases hs : a.2.hdr.size > 0
  · have hs0 : ¬ a.2.hdr.size = 0 := by omega
    by_cases hc : a.2.hdr.channel = 0
    · simp [mkInfo, List.filter_append, hs, hs0, hc, List.find?_append, List.any_append, hx, ci]
    · simp [mkInfo, List.filter_append, hs, hs0, hc, List.find?_append, List.any_append, hx, ci]
  · have hs0 : a.2.hdr.size = 0 := by omega
    simp [mkInfo, List.filter_append, hs0, List.find?_append, List.any_append, hx]

theorem mkInfo_snoc_new (done : List FR) (a : FR) (hm : a.2.hdr.inst ∉ ids done) :
    mkInfo (done ++ [a]) a.2.hdr.inst =
      addChunk { inst := a.2.hdr.inst, ch0 := [], ch1 := [], fileIdx := a.1, finished := false } a.2 := by
  have hne : ∀ fr ∈ done, ¬ fr.2.hdr.inst = a.2.hdr.inst := by
    intro fr hfr he
    exact hm (by simp only [ids, List.mem_map]; exact ⟨fr, hfr, he⟩)
  have hfilter : ∀ (q : FR → Bool), (done.filter fun fr => decide (fr.2.hdr.inst = a.2.hdr.inst) && q fr) = [] := by
    intro q
    simp only [List.filter_eq_nil_iff]
    intro fr hfr
    simp [hne fr hfr]
  have hfind : (done.find? fun fr => decide (fr.2.hdr.inst = a.2.hdr.inst)) = none := by
    simp only [List.find?_eq_none]
    intro fr hfr
    simp [hne fr hfr]
  have hany : (done.any fun fr => decide (fr.2.hdr.inst = a.2.hdr.inst) && decide (fr.2.hdr.size = 0)) = false := by
    simp only [List.any_eq_false]
    intro fr hfr
    simp [hne fr hfr]
  have f0 := hfilter fun fr => decide (fr.2.hdr.size > 0) && decide (fr.2.hdr.channel = 0)
  have f1 := hfilter fun fr => decide (fr.2.hdr.size > 0) && !decide (fr.2.hdr.channel = 0)
  unfold addChunk
  by_cases hs : a.2.hdr.size > 0
  · have hs0 : ¬ a.2.hdr.size = 0 := by omega
    by_cases hc : a.2.hdr.channel = 0
    · simp [mkInfo, List.filter_append, hs, hs0, hc, List.find?_append, List.any_append, ci,
        Bool.and_assoc, f0, f1, hfind, hany]
    · simp [mkInfo, List.filter_append, hs, hs0, hc, List.find?_append, List.any_append, ci,
        Bool.and_assoc, f0, f1, hfind, hany]
  · have hs0 : a.2.hdr.size = 0 := by omega
    simp [mkInfo, List.filter_append, hs0, List.find?_append, List.any_append,
      Bool.and_assoc, f0, f1, hfind, hany]

theorem ids_snoc (done : List FR) (a : FR) : ids (done ++ [a]) = ids done ++ [a.2.hdr.inst] := by
  simp [ids]

theorem pinv_step {done : List FR} {acc : List InstanceInfo} {a : FR} (inv : PInv done acc)
    (nr : NoReturn (ids (done ++ [a]))) : PInv (done ++ [a]) (pushRec acc a.1 a.2) := by
  rw [ids_snoc] at nr
  by_cases hl : lastInst? acc = some a.2.hdr.inst
  · -- same instance as the last `InstanceInfo`: it absorbs the chunk
    obtain ⟨acc', last, rfl, hli⟩ := lastInst?_eq_some hl
    have hmem : a.2.hdr.inst ∈ ids done := (inv.mem _).mp (by simp [hli])
    have hp : pushRec (acc' ++ [last]) a.1 a.2 = acc' ++ [addChunk last a.2] := by
      simp only [pushRec, hl, if_true, updLast_concat]
    rw [hp]
    have hnd := inv.nodup
    simp only [List.map_append, List.map_cons, List.map_nil] at hnd
    refine ⟨?_, ?_, ?_, ?_⟩
    · simpa [addChunk_inst] using hnd
    · intro m
      have := inv.mem m
      simp only [List.map_append, List.map_cons, List.map_nil, addChunk_inst, ids_snoc,
        List.mem_append, List.mem_singleton] at this ⊢
      constructor
      · intro h; exact Or.inl (this.mp h)
      · rintro (h | h)
        · exact this.mpr h
        · exact Or.inr (by rw [h, hli])
    · rw [lastInst?_concat, addChunk_inst, hli, ids_snoc, List.getLast?_concat]
    · intro info hinfo
      rcases List.mem_append.mp hinfo with h | h
      · have hne : a.2.hdr.inst ≠ info.inst := by
          intro he
          have h1 : info.inst ∈ acc'.map (·.inst) := List.mem_map_of_mem h
          have := (List.nodup_append.mp hnd).2.2 info.inst h1 last.inst (by simp)
          exact this (by rw [hli, he])
        rw [mkInfo_snoc_ne _ _ _ hne]
        exact inv.eq info (by simp [h])
      · simp only [List.mem_singleton] at h
        subst h
        rw [addChunk_inst, hli, mkInfo_snoc_same _ _ hmem]
        have := inv.eq last (by simp)
        rw [hli] at this
        rw [← this]
  · -- a different instance id: by no-return it is a new one, a fresh `InstanceInfo` is pushed
    have hnew : a.2.hdr.inst ∉ ids done := by
      intro hm
      have := NoReturn.last_of_mem nr hm
      rw [← inv.last] at this
      exact hl this
    have hp : pushRec acc a.1 a.2 =
        acc ++ [addChunk { inst := a.2.hdr.inst, ch0 := [], ch1 := [], fileIdx := a.1, finished := false } a.2] := by
      simp only [pushRec, hl, if_false, updLast_concat]
    rw [hp]
    have hnotin : a.2.hdr.inst ∉ acc.map (·.inst) := fun h => hnew ((inv.mem _).mp h)
    refine ⟨?_, ?_, ?_, ?_⟩
    · simp only [List.map_append, List.map_cons, List.map_nil, addChunk_inst]
      refine List.nodup_append.mpr ⟨inv.nodup, by simp, ?_⟩
      intro x hx y hy
      simp only [List.mem_singleton] at hy
      subst hy
      intro he; subst he; exact hnotin hx
    · intro m
      have := inv.mem m
      simp only [List.map_append, List.map_cons, List.map_nil, addChunk_inst, ids_snoc,
        List.mem_append, List.mem_singleton] at this ⊢
      constructor
      · rintro (h | h)
        · exact Or.inl (this.mp h)
        · exact Or.inr h
      · rintro (h | h)
        · exact Or.inl (this.mpr h)
        · exact Or.inr h
    · rw [lastInst?_concat, addChunk_inst, ids_snoc, List.getLast?_concat]
    · intro info hinfo
      rcases List.mem_append.mp hinfo with h | h
      · have hne : a.2.hdr.inst ≠ info.inst := by
          intro he
          exact hnotin (by rw [he]; exact List.mem_map_of_mem h)
        rw [mkInfo_snoc_ne _ _ _ hne]
        exact inv.eq info h
      · simp only [List.mem_singleton] at h
        subst h
        rw [addChunk_inst, mkInfo_snoc_new _ _ hnew]

theorem pinv_foldl (l done : List FR) (acc : List InstanceInfo) (nr : NoReturn (ids (done ++ l)))
    (inv : PInv done acc) : PInv (done ++ l) (l.foldl (fun a fr => pushRec a fr.1 fr.2) acc) := by
  induction l generalizing done acc with
  | nil => simpa using inv
  | cons a l ih =>
    have e : done ++ a :: l = (done ++ [a]) ++ l := by simp
    rw [e] at nr ⊢
    simp only [List.foldl_cons]
    refine ih _ _ nr (pinv_step inv ?_)
    simp only [ids, List.map_append] at nr ⊢
    exact NoReturn.prefix nr

/-- What `create_index` holds for one task after reading the records `l` of that task, if the instance
ids along `l` never return: exactly one `InstanceInfo` per instance id, each describing all records of
that id, in order. -/
theorem pushAll_inv (l : List FR) (nr : NoReturn (ids l)) : PInv l (pushAll l) := by
  have := pinv_foldl l [] [] (by simpa using nr)
    ⟨by simp, by simp [ids], by simp [lastInst?, ids], by simp⟩
  simpa [pushAll] using this

/-! ## sort + last instance -/

theorem instLe_trans (a b c : InstanceInfo) : instLe a b = true → instLe b c = true → instLe a c = true := by
  simp only [instLe, decide_eq_true_eq]; omega

theorem instLe_total (a b : InstanceInfo) : (instLe a b || instLe b a) = true := by
  simp only [instLe, Bool.or_eq_true, decide_eq_true_eq]; omega

theorem pairwise_concat_last {R : α → α → Prop} {l : List α} {x : α} (h : (l ++ [x]).Pairwise R) :
    ∀ y ∈ l, R y x := by
  intro y hy
  exact (List.pairwise_append.mp h).2.2 y hy x (by simp)

/-- After the stable sort the last instance is the one with the maximal id, and it is described by
`mkInfo`; the others are exactly the remaining ids. -/
theorem sorted_last {l : List FR} (nr : NoReturn (ids l)) {m : Nat} (hm : m ∈ ids l)
    (hmax : ∀ i ∈ ids l, i ≤ m) :
    ∃ init, sortInsts (pushAll l) = init ++ [mkInfo l m] ∧
      (init.map (·.inst)).Nodup ∧ (∀ i, i ∈ init.map (·.inst) ↔ (i ∈ ids l ∧ i ≠ m)) ∧
      init.Pairwise (fun a b => a.inst ≤ b.inst) := by
  have inv := pushAll_inv l nr
  have perm : List.Perm (sortInsts (pushAll l)) (pushAll l) := List.mergeSort_perm _ _
  have sorted : (sortInsts (pushAll l)).Pairwise (fun a b => instLe a b = true) :=
    List.pairwise_mergeSort instLe_trans instLe_total _
  rcases List.eq_nil_or_concat (sortInsts (pushAll l)) with hnil | ⟨init, x, hx⟩
  · -- impossible: `m` has an entry
    have : m ∈ (pushAll l).map (·.inst) := (inv.mem m).mpr hm
    obtain ⟨info, hinfo, _⟩ := List.mem_map.mp this
    have := perm.mem_iff.mpr hinfo
    rw [hnil] at this
    simp at this
  · rw [List.concat_eq_append] at hx
    rw [hx] at perm sorted
    have hxmem : x ∈ pushAll l := perm.mem_iff.mp (by simp)
    have hxid : x.inst ∈ ids l := (inv.mem _).mp (List.mem_map_of_mem hxmem)
    have hle := pairwise_concat_last sorted
    -- the entry of m is somewhere in the sorted list
    have hmm : m ∈ (pushAll l).map (·.inst) := (inv.mem m).mpr hm
    obtain ⟨info, hinfo, hinfom⟩ := List.mem_map.mp hmm
    have hinfo' : info ∈ init ++ [x] := perm.mem_iff.mpr hinfo
    have hxm : x.inst = m := by
      have h1 : x.inst ≤ m := hmax _ hxid
      rcases List.mem_append.mp hinfo' with h | h
      · have := hle info h
        simp only [instLe, decide_eq_true_eq] at this
        omega
      · simp only [List.mem_singleton] at h; subst h; exact hinfom
    have hxeq : x = mkInfo l m := by rw [← hxm]; exact inv.eq x hxmem
    have hnd : ((init ++ [x]).map (·.inst)).Nodup := (perm.map _).nodup_iff.mpr inv.nodup
    simp only [List.map_append, List.map_cons, List.map_nil] at hnd
    have hnd' := List.nodup_append.mp hnd
    refine ⟨init, by rw [hx, hxeq], hnd'.1, ?_, ?_⟩
    · intro i
      constructor
      · intro hi
        refine ⟨?_, ?_⟩
        · apply (inv.mem i).mp
          have : i ∈ (init ++ [x]).map (·.inst) := by simp [List.mem_append]; exact Or.inl (by simpa using hi)
          exact (perm.map _).mem_iff.mp this
        · intro he
          exact hnd'.2.2 i hi x.inst (by simp) (by rw [he, hxm])
      · rintro ⟨hi, hne⟩
        have : i ∈ (init ++ [x]).map (·.inst) := (perm.map _).mem_iff.mpr ((inv.mem i).mpr hi)
        simp only [List.map_append, List.map_cons, List.map_nil, List.mem_append, List.mem_singleton] at this
        rcases this with h | h
        · exact h
        · exact absurd (h.trans hxm) hne
    · have := (List.pairwise_append.mp sorted).1
      exact this.imp (by intro a b h; simpa [instLe] using h)

end HqModel.Stream
