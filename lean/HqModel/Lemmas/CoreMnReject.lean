import HqModel.Lemmas.CoreMnShape
/-!
`task_reject` of a RunningMultiNode task (the arm added by the fix of F32) cannot panic in a state that satisfies the
global invariant `InvF` and `MnShape`:

* `resetMnChecked_ok` — `reset_mn_task_workers` succeeds when the list is duplicate-free and every worker named in it is
  in the map with a multi-node assignment for the task (`InvF.mn_complete`): no `get_worker`, no `unwrap`, no
  `assert_eq!`; afterwards exactly the workers of the list are back to an empty single-node assignment;
* `taskReject_mn_arm` — the result of `task_reject` is "ignored" (`false`, only the `blocked` list of the sender changes)
  or it IS the result of the common tail of `task_reject` (`rejectTail`: `task.state = Waiting{0}; add_ready_task;
  process_retracted; true`) on the state with the workers reset: the arm itself has no reachable panic site;
* `rejectTail_ok` — the common tail (shared with the Assigned / Prefilled / Retracting arms; its panic sites
  `task_queues.index`, `process_retracted.*` are not specific to this arm) succeeds when the request has a queue and no
  prefill of lower priority is disposed.
-/
namespace HqModel.Core

/-- the common tail of `task_reject`: `task.state = Waiting{0}; add_ready_task; process_retracted; return true` -/
def rejectTail (s1 : State) (task : Task) : M (State × Out × Bool) :=
  match (s1.setTask { task with state := .waiting 0 }).addReady { task with state := .waiting 0 } with
  | .error e => .error e
  | .ok (s2, retracted) =>
    match s2.retract retracted with
    | .error e => .error e
    | .ok (s3, out) => .ok (s3, out, true)

theorem worker?_setWorker (s : State) (wk : Worker) (y : Nat) :
    (s.setWorker wk).worker? y = if y = wk.id then (s.worker? y).map (fun _ => wk) else s.worker? y :=
  findWorker_putWorker _ _ _

/-- **`reset_mn_task_workers` cannot panic** on a duplicate-free list of workers that all have a multi-node assignment
for the task -/
theorem resetMnChecked_ok (l : List Nat) : ∀ (s : State) (id : TaskId), l.Nodup →
    (∀ x ∈ l, ∃ wk r st, s.worker? x = some wk ∧ wk.assign = .mn id r st) →
    ∃ s1, resetMnChecked s id l = .ok s1 ∧ s1.tasks = s.tasks ∧ s1.queues = s.queues ∧
      (∀ y, y ∉ l → s1.worker? y = s.worker? y) ∧
      (∀ x ∈ l, ∃ wk, s1.worker? x = some wk ∧ wk.assign = .sn [] wk.total []) := by
  induction l with
  | nil => intro s id _ _; exact ⟨s, rfl, rfl, rfl, fun _ _ => rfl, fun _ h => by cases h⟩
  | cons x rest ih =>
    intro s id hnd hall
    obtain ⟨hx, hnd'⟩ := List.nodup_cons.mp hnd
    obtain ⟨wk, r, st, hw, ha⟩ := hall x List.mem_cons_self
    have hid : wk.id = x := findWorker_some_id hw
    have hrest : ∀ y ∈ rest, ∃ wk' r' st', (s.setWorker wk.emptySn).worker? y = some wk' ∧ wk'.assign = .mn id r' st' := by
      intro y hy
      have hne : y ≠ wk.emptySn.id := by
        show y ≠ wk.id
        rw [hid]; intro e; exact hx (e ▸ hy)
      rw [worker?_setWorker, if_neg hne]
      exact hall y (List.mem_cons_of_mem _ hy)
    obtain ⟨s1, h1, e1, e2, e3, e4⟩ := ih (s.setWorker wk.emptySn) id hnd' hrest
    refine ⟨s1, ?_, e1, e2, ?_, ?_⟩
    · have hg : s.getWorker x = .ok wk := by
        have hw' : s.worker? x = some wk := hw
        simp only [State.getWorker, hw']
      simp only [resetMnChecked, hg, ha, ne_eq, not_true_eq_false, if_false]
      exact h1
    · intro y hy
      have hy1 : y ≠ x := fun e => hy (e ▸ List.mem_cons_self)
      have hy2 : y ∉ rest := fun e => hy (List.mem_cons_of_mem _ e)
      rw [e3 y hy2, worker?_setWorker, if_neg (by show y ≠ wk.id; rw [hid]; exact hy1)]
    · intro y hy
      rcases List.mem_cons.mp hy with e | e
      · subst e
        refine ⟨wk.emptySn, ?_, rfl⟩
        rw [e3 y hx, worker?_setWorker, if_pos (by show y = wk.id; exact hid.symm), hw]
        rfl
      · exact e4 y e

theorem disposeAll_none (p : Int) : ∀ (qs : List Queue), (∀ q ∈ qs, ∀ pp ts, q.prefill = some (pp, ts) → ¬ pp < p) →
    disposeAll qs p = (qs, []) := by
  intro qs
  induction qs with
  | nil => intro _; rfl
  | cons q rest ih =>
    intro h
    have hq : q.checkDispose p = (q, []) := by
      unfold Queue.checkDispose
      cases hp : q.prefill with
      | none => rfl
      | some x =>
        obtain ⟨pp, ts⟩ := x
        have := h q List.mem_cons_self pp ts hp
        simp [this]
    simp only [disposeAll, hq, ih (fun q' hq' => h q' (List.mem_cons_of_mem _ hq')), List.nil_append]

/-- **the common tail of `task_reject`** succeeds when the request has a queue and no prefill of lower priority is
disposed; it makes no callback and sends nothing -/
theorem rejectTail_ok {s1 : State} {task told : Task} {id : TaskId} (ht : s1.task? id = some told) (hid : task.id = id)
    (hq : task.rq < s1.queues.length)
    (hpf : ∀ q ∈ s1.queues, ∀ pp ts, q.prefill = some (pp, ts) → ¬ pp < task.prio) :
    ∃ s', rejectTail s1 task = .ok (s', {}, true) ∧ s'.task? id = some { task with state := .waiting 0 } ∧
      s'.workers = s1.workers := by
  have hd := disposeAll_none task.prio s1.queues hpf
  have hnq : ¬ task.rq ≥ s1.queues.length := Nat.not_le.mpr hq
  refine ⟨{ s1.setTask { task with state := .waiting 0 } with
      queues := modifyQueue s1.queues task.rq fun q => { q with ready := readyAdd q.ready task.id task.prio } },
    ?_, ?_, rfl⟩
  · simp only [rejectTail, State.addReady]
    rw [show (s1.setTask { task with state := .waiting 0 }).queues = s1.queues from rfl, if_neg hnq, hd]
    simp only [State.retract, State.processRetracted, groupByWorker, List.foldl_nil, List.map_nil]
  · show findTask (putTask s1.tasks _) id = _
    exact findTask_putTask_same (told := told) ht hid

/-- **the multi-node arm of `task_reject` has no reachable panic site**: in a state with `InvF` and `MnShape`, for a
RunningMultiNode task and ANY registered worker `w`, the message is ignored (`false`; the state differs from `s` only
in the record of `w` — its `blocked` list), or `w` is the root, has not started the task, every worker of the list is
reset to an empty single-node assignment and the result is that of the common tail -/
theorem taskReject_mn_arm {s : State} (hi : InvF s) (hsh : MnShape s) {w : Nat} {id : TaskId} {rv : Option Nat}
    {task : Task} {ws : List Nat} (ht : s.task? id = some task) (hs : task.state = .runningMN ws)
    (hw : (s.worker? w).isSome = true) :
    (∃ s0, s.taskReject w id rv = .ok (s0, {}, false) ∧ s0.tasks = s.tasks ∧ s0.queues = s.queues ∧
        ∀ y, y ≠ w → s0.worker? y = s.worker? y) ∨
    (∃ s1 others, ws = w :: others ∧ s1.tasks = s.tasks ∧ s1.queues = s.queues ∧
        (∀ y, y ∉ ws → y ≠ w → s1.worker? y = s.worker? y) ∧
        (∀ x ∈ ws, ∃ wk, s1.worker? x = some wk ∧ wk.assign = .sn [] wk.total []) ∧
        s.taskReject w id rv = rejectTail s1 task) := by
  obtain ⟨hne, hnd⟩ := hsh task (findTask_some_mem ht) ws hs
  obtain ⟨wk0, hw0⟩ := Option.isSome_iff_exists.mp hw
  have hg : s.getWorker w = .ok wk0 := by simp only [State.getWorker, hw0]
  have hidw : wk0.id = w := findWorker_some_id hw0
  cases ws with
  | nil => exact absurd rfl hne
  | cons root others =>
    -- the record of `w` with the request blocked
    generalize hwk : (match rv with
      | some v => ({ wk0 with blocked := if wk0.blocked.contains (task.rq, v) then wk0.blocked
          else wk0.blocked ++ [(task.rq, v)] } : Worker)
      | none => wk0) = wk
    have hwa : wk.assign = wk0.assign := by subst hwk; cases rv <;> rfl
    have hwi : wk.id = w := by subst hwk; cases rv <;> exact hidw
    have hs0 : ∀ y, y ≠ w → (s.setWorker wk).worker? y = s.worker? y := by
      intro y hy
      rw [worker?_setWorker, if_neg (by rw [hwi]; exact hy)]
    have hun : s.taskReject w id rv =
        (if w ≠ root then .ok (s.setWorker wk, {}, false) else
          match wk.assign with
          | .sn .. => .ok (s.setWorker wk, {}, false)
          | .mn _ _ started =>
            if started then .ok (s.setWorker wk, {}, false) else
            match resetMnChecked (s.setWorker wk) id (root :: others) with
            | .error e => .error e
            | .ok s1 => rejectTail s1 task) := by
      subst hwk
      simp only [State.taskReject, ht, hg, hs]
      rfl
    rw [hun]
    by_cases hroot : w ≠ root
    · rw [if_pos hroot]
      exact .inl ⟨_, rfl, rfl, rfl, hs0⟩
    · rw [if_neg hroot]
      have hroot : w = root := Classical.not_not.mp hroot
      subst hroot
      obtain ⟨wkm, r, st, hwm, ham⟩ := hi.mn_complete ht hs (x := w) List.mem_cons_self
      have : wkm = wk0 := by
        have := hwm.symm.trans hw0
        cases this; rfl
      subst this
      rw [hwa, ham]
      cases st with
      | true => exact .inl ⟨_, rfl, rfl, rfl, hs0⟩
      | false =>
        simp only [Bool.false_eq_true, if_false]
        have hall : ∀ x ∈ w :: others, ∃ wk' r' st', (s.setWorker wk).worker? x = some wk' ∧ wk'.assign = .mn id r' st' := by
          intro x hx
          by_cases hxw : x = w
          · subst hxw
            refine ⟨wk, r, false, ?_, by rw [hwa, ham]⟩
            rw [worker?_setWorker, if_pos hwi.symm, hw0]; rfl
          · rw [hs0 x hxw]
            exact hi.mn_complete ht hs hx
        obtain ⟨s1, h1, e1, e2, e3, e4⟩ := resetMnChecked_ok _ (s.setWorker wk) id hnd hall
        rw [h1]
        exact .inr ⟨s1, others, rfl, e1, e2, fun y hy hyw => (e3 y hy).trans (hs0 y hyw), e4, rfl⟩

end HqModel.Core
