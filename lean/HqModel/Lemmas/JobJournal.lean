import HqModel.Job.Run
import HqModel.Journal.Spec
/-!
# The journal the job layer (M4) writes — definitions only (no lemma; importable by a driver)

`crates/hyperqueue/src/server/event/streamer.rs`: every event of the job layer except `JobIdle` (and `TaskNotify`,
which M4 does not model) is sent with `ForwardMode::StreamAndPersist`, in the order it is emitted. The abstract
record of each persisted event is the one `harness/src/journal/rec.rs: Rec::from_event` computes:

| M4 event (`Job.Ev`)            | journal record (`Journal.Record`)                                           |
|--------------------------------|-----------------------------------------------------------------------------|
| `jobOpen j`                    | `jobOpen j mf`            (`mf` of the `Op.openJob`)                         |
| `submit j closed`              | `submit j closed mf desc` (`mf` of the `Op.submit`; `desc` AFTER the id filling of `handle_submit`: the event is built from the mutated message) |
| `jobClose / jobCancel / jobCompleted j` | the same                                                           |
| `jobIdle j`                    | — (`ForwardMode::Stream`)                                                   |
| `started t inst ws rv`         | `taskStarted t.1 t.2 inst ws`                                                |
| `finished t` / `failed t`      | `taskFinished` / `taskFailed`                                                |
| `canceled ts` / `aborted ts`   | `tasksCanceled ts` / `tasksAborted ts`                                       |
| `workerNew w`                  | `workerConnected w none`  (the allocation id is not read by `recordOk`/`meaning` of jobs) |
| `workerLost w reason`          | `workerLost w (reasonOf reason)`                                             |

`EmitOk` is the decidable side condition on the inputs of one operation that the job layer does not itself enforce
(values chosen by the tako core, and the array shape the client sends); see `/verif/notes/job_journal.md`.
-/
namespace HqModel.Emit
open HqModel.Job HqModel.Journal

/-- the description as `Rec::from_event` reads it back from the persisted `SubmitRequest`; M4 does not model the
resource-request index of a graph task (`validate_submit` asserts it for submits into an existing job), so
`rqOk := true` -/
def descOf : Job.TaskDesc → Journal.TaskDesc
  | .array ids entries => .array ids entries
  | .graph tasks => .graph (tasks.map fun p => ⟨p.1, p.2, true⟩)

/-- the reason tokens of the job traces (`harness/src/sim.rs: reason_name`) -/
def reasonOf (r : String) : LostReason :=
  if r = "connlost" then .connectionLost
  else if r = "hblost" then .heartbeatLost
  else if r = "idle" then .idleTimeout
  else if r = "timelimit" then .timeLimitReached
  else .stopped

/-- the description after the id filling of `handle_submit` (what the `Submit` event carries) -/
def filledDesc (s : State) (job : Option Nat) (d : Job.TaskDesc) : Job.TaskDesc :=
  match job with
  | none => fillIdsNew d
  | some j =>
    match s.getJob j with
    | some jb => fillIdsOpen jb d
    | none => d

/-- the persisted record(s) of one event emitted by operation `op` in pre-state `s` -/
def recOfEv (s : State) (op : Op) : Ev → List Record
  | .jobOpen j => [.jobOpen j (match op with | .openJob mf => mf | _ => none)]
  | .submit j closed =>
    match op with
    | .submit job mf d => [.submit j closed mf (descOf (filledDesc s job d))]
    | _ => []
  | .jobClose j => [.jobClose j]
  | .jobCompleted j => [.jobCompleted j]
  | .jobIdle _ => []
  | .jobCancel j => [.jobCancel j]
  | .started t inst ws _ => [.taskStarted t.1 t.2 inst ws]
  | .finished t => [.taskFinished t.1 t.2]
  | .failed t => [.taskFailed t.1 t.2]
  | .canceled ts => [.tasksCanceled ts]
  | .aborted ts => [.tasksAborted ts]
  | .workerNew w => [.workerConnected w none]
  | .workerLost w r => [.workerLost w (reasonOf r)]

/-- what operation `op`, applied in state `s` and emitting `evs`, appends to the journal -/
def recordsOf (s : State) (op : Op) (evs : List Ev) : List Record := evs.flatMap (recOfEv s op)

/-- the records of a run from `s`; a panic of the job layer ends the server and the journal -/
def journalFrom (s : State) : List Op → List Record
  | [] => []
  | op :: ops =>
    match step s op with
    | .ok (s', evs) => recordsOf s op evs ++ journalFrom s' ops
    | .error _ => []

/-- the journal of a server life that starts without a journal file and executes `ops` -/
def journalOf (uid : String) (ops : List Op) : List Record := .serverStart uid :: journalFrom {} ops

/-! ### the side condition -/

/-- `started t …`: the start report is not *late* — the task has no outcome in the job layer. (For an unknown job /
task the job layer panics; nothing is required then.) -/
def notLate (s : State) (t : TaskId) : Bool :=
  match s.getJob t.1 with
  | some job =>
    match lookup job.tasks t.2 with
    | some st => !st.terminal
    | none => true
  | none => true

/-- `started t inst …`: `inst` is larger than every instance id recorded for `t` so far -/
def instFresh (A : AState) (t : TaskId) (inst : Nat) : Bool :=
  match alGet A.jobs t.1 with
  | some aj =>
    match aj.find t.2 with
    | some a => (match a.inst with | some i => decide (i < inst) | none => true)
    | none => true
  | none => true

/-- `failed t consumers`: no task of the job that is without outcome and is not in `consumers` depends on `t` or on
a member of `consumers` — i.e. `consumers` contains every task without outcome that transitively depends on `t` -/
def consumersClosed (A : AState) (t : TaskId) (cons : List TaskId) : Bool :=
  match alGet A.jobs t.1 with
  | some aj =>
    aj.tasks.all fun a =>
      a.st != .waiting || cons.contains (t.1, a.id) ||
        a.deps.all fun d => d != t.2 && !cons.contains (t.1, d)
  | none => true

/-- the array shapes a client sends: positive steps and, when ids and entries are both given, one entry per id -/
def arrayShapeOk : Job.TaskDesc → Bool
  | .array ids entries =>
    ids.all (fun r => decide (1 ≤ r.step)) &&
      (ids.isEmpty || (match entries with | none => true | some n => n == ids.iter.length))
  | .graph _ => true

/-- the side condition of one operation, on the M4 pre-state `s` and `A = meaning (journal so far)` -/
def emitOkB (s : State) (A : AState) : Op → Bool
  | .started t inst ws _ => notLate s t && instFresh A t inst && ws.all (fun w => decide (w ≤ A.maxWorker))
  | .failed t cons => consumersClosed A t cons
  | .workerNew w => decide (A.maxWorker < w)
  | .workerLost w _ _ => A.workers.contains w
  | .submit _ _ d => arrayShapeOk d
  | _ => true

def EmitOk (s : State) (A : AState) (op : Op) : Prop := emitOkB s A op = true

instance (s : State) (A : AState) (op : Op) : Decidable (EmitOk s A op) :=
  inferInstanceAs (Decidable (_ = true))

/-- which conjuncts of `EmitOk` fail, as short signatures (for the monitor lines of a driver); `[]` iff `EmitOk`
(`emitFails_nil_iff`) -/
def emitFails (s : State) (A : AState) : Op → List String
  | .started t inst ws _ =>
    (if notLate s t then [] else ["late-start"]) ++
    (if instFresh A t inst then [] else ["instance-not-fresh"]) ++
    (if ws.all (fun w => decide (w ≤ A.maxWorker)) then [] else ["worker-never-connected"])
  | .failed t cons => if consumersClosed A t cons then [] else ["consumers-not-closed"]
  | .workerNew w => if decide (A.maxWorker < w) then [] else ["worker-id-not-fresh"]
  | .workerLost w _ _ => if A.workers.contains w then [] else ["worker-not-connected"]
  | .submit _ _ d => if arrayShapeOk d then [] else ["array-shape"]
  | _ => []

/-- the meaning of the journal after the records of one operation (what a driver keeps next to the M4 state) -/
def advance (s : State) (A : AState) (op : Op) (evs : List Ev) : AState :=
  (recordsOf s op evs).foldl meaningStep A

/-- `EmitOk` for every operation of a run from `(s, A)` (up to the first panic), `A` following the journal -/
def emitOkFrom (s : State) (A : AState) : List Op → Bool
  | [] => true
  | op :: ops =>
    emitOkB s A op &&
      match step s op with
      | .ok (s', evs) => emitOkFrom s' ((recordsOf s op evs).foldl meaningStep A) ops
      | .error _ => true

/-- the side condition of a whole run from the empty server -/
def EmitOkRun (uid : String) (ops : List Op) : Prop :=
  emitOkFrom {} (meaningStep {} (.serverStart uid)) ops = true

instance (uid : String) (ops : List Op) : Decidable (EmitOkRun uid ops) :=
  inferInstanceAs (Decidable (_ = true))

/-! ### records the job layer does not write, interleaved with its own

A real journal also contains records of other emitters: `WorkerOverview` (if persisted), the allocation-queue records
of the autoalloc service, `ServerStop`. They change neither the jobs, nor the connected workers, nor the worker-id
high-water mark of `meaning`. (`ServerStart` is not one of them: a restart rebuilds the job layer from `restore`.) -/

/-- records of other emitters -/
def isOther : Record → Bool
  | .serverStop | .workerOverview _ | .queueCreated _ | .queueRemoved _
  | .allocQueued _ _ | .allocStarted _ _ | .allocFinished _ _ => true
  | _ => false

/-- one element of an interleaved history: an operation of the job layer, or a record written by another emitter -/
inductive Item where
  | op (o : Op)
  | other (r : Record)

def journalFromI (s : State) : List Item → List Record
  | [] => []
  | .other r :: is => r :: journalFromI s is
  | .op o :: is =>
    match step s o with
    | .ok (s', evs) => recordsOf s o evs ++ journalFromI s' is
    | .error _ => []

def journalOfI (uid : String) (items : List Item) : List Record := .serverStart uid :: journalFromI {} items

/-- `EmitOk` for the operations; the other records are of the kinds above and allowed where they are written
(`recordOk`: a created queue id is new — a fact about the autoalloc service, C18) -/
def okFromI (s : State) (A : AState) : List Item → Bool
  | [] => true
  | .other r :: is => isOther r && recordOk A r && okFromI s (meaningStep A r) is
  | .op o :: is =>
    emitOkB s A o &&
      match step s o with
      | .ok (s', evs) => okFromI s' ((recordsOf s o evs).foldl meaningStep A) is
      | .error _ => true

def OkRunI (uid : String) (items : List Item) : Prop :=
  okFromI {} (meaningStep {} (.serverStart uid)) items = true

instance (uid : String) (items : List Item) : Decidable (OkRunI uid items) :=
  inferInstanceAs (Decidable (_ = true))

/-- forget the allocation id of `WorkerConnected` (M4 does not know it; `recordOk` and `meaning` do not read it) -/
def eraseAlloc : Record → Record
  | .workerConnected w _ => .workerConnected w none
  | r => r

end HqModel.Emit
