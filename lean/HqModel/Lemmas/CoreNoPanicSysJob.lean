import HqModel.Lemmas.SysProj
/-!
C09 compose (stage 4), job-layer part: **the job layer never hands a task id to the core twice.**

The progress theorem of the core (`Props/C09Core.lean`) needs that no task id is submitted twice (`NoIdReuse`,
ghost list `U` of all ids submitted so far). In the composed system `Sys` this is a THEOREM about M4, not a
hypothesis: an id `(j, t)` that was handed to the core stays *known* to the job layer for ever —

* `Known js x` : `x.1 < js.jobCtr` (the job id was handed out by the counter) and, if job `x.1` is still stored,
  `x.2` is a key of its task table;

— `Known` is preserved by every operation of M4 (`JGrow`: the counter only grows, a stored job keeps its id and its
task keys until it is forgotten, a forgotten id is below the counter and never stored again), and an ACCEPTED submit
hands out only ids that are NOT known (`attach_submit` succeeded: the ids are new in the job and pairwise distinct;
a new job has id `jobCtr`).
-/
namespace HqModel.Sys.NPX
open HqModel HqModel.Job HqModel.Sys

/-- the id was handed out by the job layer and, as long as its job is stored, is a task of it -/
def Known (js : Job.State) (x : TaskId) : Prop :=
  x.1 < js.jobCtr ∧ ∀ job, js.getJob x.1 = some job → (lookup job.tasks x.2).isSome = true

/-- the job table only grows (or forgets whole jobs) -/
structure JGrow (js js' : Job.State) : Prop where
  ctr : js.jobCtr ≤ js'.jobCtr
  keep : ∀ j job', js'.getJob j = some job' → j < js.jobCtr →
    ∃ job, js.getJob j = some job ∧ ∀ t, (lookup job.tasks t).isSome = true → (lookup job'.tasks t).isSome = true

theorem JGrow.refl (js : Job.State) : JGrow js js := ⟨Nat.le_refl _, fun _ job' h _ => ⟨job', h, fun _ h => h⟩⟩

theorem JGrow.trans {a b c : Job.State} (h1 : JGrow a b) (h2 : JGrow b c) : JGrow a c := by
  refine ⟨Nat.le_trans h1.ctr h2.ctr, ?_⟩
  intro j job'' hj hlt
  obtain ⟨job', hj', hs'⟩ := h2.keep j job'' hj (Nat.lt_of_lt_of_le hlt h1.ctr)
  obtain ⟨job, hj0, hs⟩ := h1.keep j job' hj' hlt
  exact ⟨job, hj0, fun t ht => hs' t (hs t ht)⟩

theorem JGrow.known {js js' : Job.State} (h : JGrow js js') {x : TaskId} (hk : Known js x) : Known js' x := by
  refine ⟨Nat.lt_of_lt_of_le hk.1 h.ctr, ?_⟩
  intro job' hj'
  obtain ⟨job, hj, hs⟩ := h.keep x.1 job' hj' hk.1
  exact hs _ (hk.2 job hj)

/-- only the job table and the counter matter -/
theorem JGrow.of_eq {js js' : Job.State} (hj : js'.jobs = js.jobs) (hc : js'.jobCtr = js.jobCtr) : JGrow js js' := by
  refine ⟨by rw [hc]; exact Nat.le_refl _, ?_⟩
  intro j job' h _
  refine ⟨job', ?_, fun _ h => h⟩
  simp only [Job.State.getJob] at h ⊢
  rw [← hj]; exact h

theorem JGrow.putJob {js : Job.State} {job job' : Job} {j : Nat} (hj : js.getJob j = some job) (hid : job'.id = j)
    (hs : ∀ t, (lookup job.tasks t).isSome = true → (lookup job'.tasks t).isSome = true) :
    JGrow js (js.putJob job') := by
  refine ⟨Nat.le_refl _, ?_⟩
  intro J jobx hx _
  rw [getJob_putJob, hid] at hx
  by_cases hJ : J = j
  · subst hJ
    rw [if_pos rfl, hj] at hx
    simp only [Option.map_some, Option.some.injEq] at hx
    subst hx
    exact ⟨job, hj, hs⟩
  · rw [if_neg hJ] at hx
    exact ⟨jobx, hx, fun _ h => h⟩

theorem JGrow.addJob (js : Job.State) (job : Job) (hid : job.id = js.jobCtr) (l : List TaskId) :
    JGrow js { js with jobs := js.jobs ++ [job], jobCtr := js.jobCtr + 1, sent := l } := by
  refine ⟨Nat.le_succ _, ?_⟩
  intro j job' h hlt
  simp only [Job.State.getJob, findJob_append_one] at h
  cases hf : findJob js.jobs j with
  | some x =>
    rw [hf] at h
    simp only [Option.some.injEq] at h
    subst h
    exact ⟨x, hf, fun _ h => h⟩
  | none =>
    rw [hf] at h
    simp only at h
    split at h
    · rename_i e
      rw [hid] at e
      omega
    · cases h

theorem JGrow.forget (js : Job.State) (j : Nat) : JGrow js { js with jobs := js.jobs.filter (·.id != j) } := by
  refine ⟨Nat.le_refl _, ?_⟩
  intro J job' h _
  simp only [Job.State.getJob, findJob_filter_ne] at h
  split at h
  · cases h
  · exact ⟨job', h, fun _ h => h⟩

/-! ### key preservation of the record operations -/

theorem keep_of_spec {job job' : Job} {P : Nat → Prop} [DecidablePred P] {f : Nat → Option TState}
    (hf : ∀ x, P x → (lookup job.tasks x).isSome = true → (f x).isSome = true)
    (h : ∀ x, lookup job'.tasks x = if P x then f x else lookup job.tasks x) :
    ∀ t, (lookup job.tasks t).isSome = true → (lookup job'.tasks t).isSome = true := by
  intro t ht
  rw [h t]
  by_cases hp : P t
  · rw [if_pos hp]; exact hf t hp ht
  · rw [if_neg hp]; exact ht

theorem setRunning_keep {job job' : Job} {t : Nat} (h : job.setRunning t = .ok job') :
    job'.id = job.id ∧ ∀ x, (lookup job.tasks x).isSome = true → (lookup job'.tasks x).isSome = true := by
  obtain ⟨m, _, hl⟩ := setRunning_spec h
  refine ⟨m.id, keep_of_spec (P := fun x => x = t) (f := fun _ => startedSt (lookup job.tasks t)) ?_ hl⟩
  intro x hx hs
  subst hx
  cases hlk : lookup job.tasks x with
  | none => rw [hlk] at hs; cases hs
  | some st => cases st <;> rfl

theorem setFinished_keep {job job' : Job} {t : Nat} {evs : List Ev} (h : job.setFinished t = .ok (job', evs)) :
    job'.id = job.id ∧ ∀ x, (lookup job.tasks x).isSome = true → (lookup job'.tasks x).isSome = true := by
  obtain ⟨m, _, hl⟩ := setFinished_spec h
  exact ⟨m.id, keep_of_spec (P := fun x => x = t) (f := fun _ => some .finished) (fun _ _ _ => rfl) hl⟩

theorem setWaiting_keep {job job' : Job} {t : Nat} (h : job.setWaiting t = .ok job') :
    job'.id = job.id ∧ ∀ x, (lookup job.tasks x).isSome = true → (lookup job'.tasks x).isSome = true := by
  obtain ⟨m, _, hl⟩ := setWaiting_spec' h
  exact ⟨m.id, keep_of_spec (P := fun x => x = t) (f := fun _ => some .waiting) (fun _ _ _ => rfl) hl⟩

theorem setFailed_keep {job job' : Job} {t : Nat} {evs : List Ev} (h : job.setFailed t = .ok (job', evs)) :
    job'.id = job.id ∧ ∀ x, (lookup job.tasks x).isSome = true → (lookup job'.tasks x).isSome = true := by
  obtain ⟨m, _, hl⟩ := setFailed_spec h
  exact ⟨m.id, keep_of_spec (P := fun x => x = t) (f := fun _ => some .failed) (fun _ _ _ => rfl) hl⟩

theorem abortTasks_keep {job job' : Job} {ids : List TaskId} {evs : List Ev} (h : job.abortTasks ids = .ok (job', evs)) :
    job'.id = job.id ∧ ∀ x, (lookup job.tasks x).isSome = true → (lookup job'.tasks x).isSome = true := by
  obtain ⟨m, _, hl⟩ := abortTasks_spec h
  exact ⟨m.id, keep_of_spec (P := fun x => x ∈ ids.map (·.2)) (f := fun _ => some .aborted) (fun _ _ _ => rfl) hl⟩

theorem setCancel_keep {job job' : Job} {ids : List TaskId} {evs : List Ev} (h : job.setCancel ids = .ok (job', evs)) :
    job'.id = job.id ∧ ∀ x, (lookup job.tasks x).isSome = true → (lookup job'.tasks x).isSome = true := by
  obtain ⟨m, _, hl⟩ := setCancel_spec h
  exact ⟨m.id, keep_of_spec (P := fun x => x ∈ ids.map (·.2)) (f := fun _ => some .canceled) (fun _ _ _ => rfl) hl⟩

theorem attach_keep {job job' : Job} {ids : List Nat} (h : job.attach ids = .ok job') :
    job'.id = job.id ∧ ∀ x, (lookup job.tasks x).isSome = true → (lookup job'.tasks x).isSome = true := by
  obtain ⟨m, _, hl⟩ := attach_spec ids h
  exact ⟨m.id, keep_of_spec (P := fun x => x ∈ ids) (f := fun _ => some .waiting) (fun _ _ _ => rfl) hl⟩

/-- `attach_submit` succeeded: the ids are pairwise distinct -/
theorem attach_nodup : ∀ (ids : List Nat) {job job' : Job}, job.attach ids = .ok job' → ids.Nodup
  | [], _, _, _ => List.nodup_nil
  | t :: rest, job, job', h => by
    simp only [Job.attach] at h
    split at h
    · cases h
    · rename_i hn
      refine List.nodup_cons.mpr ⟨?_, attach_nodup rest h⟩
      intro hm
      have := (attach_spec rest h).2.1 t hm
      rw [lookup_append_one, hn] at this
      simp at this

/-! ### the operations of M4 -/

theorem setWaitingAll_jgrow : ∀ (ts : List TaskId) {js js' : Job.State}, js.setWaitingAll ts = .ok js' → JGrow js js'
  | [], js, js', h => by simp only [Job.State.setWaitingAll] at h; cases h; exact JGrow.refl _
  | t :: rest, js, js', h => by
    simp only [Job.State.setWaitingAll] at h
    split at h
    · cases h
    · rename_i job hj
      split at h
      · cases h
      · rename_i job1 hw
        obtain ⟨hid, hk⟩ := setWaiting_keep hw
        exact (JGrow.putJob hj (hid.trans (getJob_id hj)) hk).trans (setWaitingAll_jgrow rest h)

/-- **every operation of the job layer keeps every known id known** -/
theorem step_jgrow {js js' : Job.State} {op : Job.Op} {evs : List Ev} (e : Job.step js op = .ok (js', evs)) :
    JGrow js js' := by
  cases op with
  | openJob mf =>
    simp only [Job.step, Job.State.openJob] at e
    split at e
    · cases e
    · simp only [Except.map] at e
      cases e
      exact JGrow.addJob js _ rfl js.sent
  | submit j mf d =>
    simp only [Job.step, Job.State.submit] at e
    split at e
    · simp only [Except.map] at e; cases e; exact JGrow.refl _
    · split at e
      · rename_i jid
        split at e
        · simp only [Except.map] at e; cases e; exact JGrow.refl _
        · rename_i job hj
          split at e
          · simp only [Except.map] at e; cases e; exact JGrow.refl _
          · split at e
            · simp only [Except.map] at e; cases e; exact JGrow.refl _
            · split at e
              · simp only [Except.map] at e; cases e
              · rename_i job' ha
                simp only [Except.map] at e
                cases e
                obtain ⟨hid, hk⟩ := attach_keep ha
                exact (JGrow.putJob hj (hid.trans (getJob_id hj)) hk).trans (JGrow.of_eq rfl rfl)
      · split at e
        · simp only [Except.map] at e; cases e
        · split at e
          · simp only [Except.map] at e; cases e
          · rename_i job' ha
            simp only [Except.map] at e
            cases e
            exact JGrow.addJob js job' (attach_id _ ha) _
  | close j =>
    simp only [Job.step, Job.State.closeJob] at e
    split at e
    · cases e; exact JGrow.refl _
    · rename_i job hj
      split at e
      · cases e
        have hid : job.id = j := getJob_id hj
        exact JGrow.putJob (job := job) (job' := { job with isOpen := false }) hj hid (fun _ h => h)
      · cases e; exact JGrow.refl _
  | cancel j =>
    simp only [Job.step, Job.State.cancelJob] at e
    split at e
    · simp only [Except.map] at e; cases e; exact JGrow.refl _
    · rename_i job hj
      split at e
      · simp only [Except.map] at e; cases e; exact JGrow.refl _
      · split at e
        · simp only [Except.map] at e; cases e
        · rename_i job' evs' hc
          simp only [Except.map] at e
          cases e
          obtain ⟨hid, hk⟩ := setCancel_keep hc
          exact (JGrow.putJob hj (hid.trans (getJob_id hj)) hk).trans (JGrow.of_eq rfl rfl)
  | forget j allowed =>
    simp only [Job.step, Job.State.forgetJob] at e
    split at e
    · simp only [Except.map] at e; cases e; exact JGrow.refl _
    · split at e
      · simp only [Except.map] at e; cases e; exact JGrow.refl _
      · split at e
        · simp only [Except.map] at e; cases e
        · split at e
          · simp only [Except.map] at e
            cases e
            exact JGrow.forget js j
          · simp only [Except.map] at e; cases e; exact JGrow.refl _
  | started t i ws rv =>
    simp only [Job.step, Job.State.taskStarted] at e
    split at e
    · cases e
    · rename_i job hj
      split at e
      · cases e
      · rename_i job' hr
        cases e
        obtain ⟨hid, hk⟩ := setRunning_keep hr
        exact JGrow.putJob hj (hid.trans (getJob_id hj)) hk
  | finished t =>
    simp only [Job.step, Job.State.taskFinished] at e
    split at e
    · cases e
    · rename_i job hj
      split at e
      · cases e
      · rename_i job' evs' hr
        cases e
        obtain ⟨hid, hk⟩ := setFinished_keep hr
        exact (JGrow.putJob hj (hid.trans (getJob_id hj)) hk).trans (JGrow.of_eq rfl rfl)
  | failed t cons =>
    simp only [Job.step, Job.State.taskFailed] at e
    split at e
    · simp only [Except.map] at e; cases e
    · rename_i job hj
      have hjid := getJob_id hj
      split at e
      · simp only [Except.map] at e; cases e
      · rename_i job1 ev1 ha
        obtain ⟨id1, k1⟩ := abortTasks_keep ha
        split at e
        · simp only [Except.map] at e; cases e
        · rename_i job2 ev2 hf
          obtain ⟨id2, k2⟩ := setFailed_keep hf
          have hid2 : job2.id = t.1 := id2.trans (id1.trans hjid)
          have g2 : JGrow js ({ js.putJob job2 with sent := removeAll js.sent (t :: cons) } : Job.State) :=
            (JGrow.putJob hj hid2 (fun x h => k2 x (k1 x h))).trans (JGrow.of_eq rfl rfl)
          split at e
          · split at e
            · split at e
              · simp only [Except.map] at e; cases e
              · rename_i job3 ev3 ha3
                simp only [Except.map] at e
                cases e
                obtain ⟨id3, k3⟩ := abortTasks_keep ha3
                have hget : ({ js.putJob job2 with sent := removeAll js.sent (t :: cons) } : Job.State).getJob t.1
                    = some job2 := by
                  show (js.putJob job2).getJob t.1 = some job2
                  rw [getJob_putJob, hid2, if_pos rfl, hj]; rfl
                exact g2.trans ((JGrow.putJob hget (id3.trans hid2) k3).trans (JGrow.of_eq rfl rfl))
            · simp only [Except.map] at e; cases e; exact g2
          · simp only [Except.map] at e; cases e; exact g2
  | workerNew w =>
    simp only [Job.step, Job.State.workerNew] at e
    split at e
    · cases e
    · cases e; exact JGrow.of_eq rfl rfl
  | workerLost w running reason =>
    simp only [Job.step, Job.State.workerLost] at e
    split at e
    · cases e
    · rename_i s1 hs
      split at e
      · cases e
      · cases e; exact setWaitingAll_jgrow _ hs

theorem run_jgrow : ∀ (ops : List Job.Op) {js js' : Job.State} {evs : List Ev}, Job.run js ops = .ok (js', evs) →
    JGrow js js'
  | [], js, js', evs, e => by simp only [Job.run] at e; cases e; exact JGrow.refl _
  | op :: ops, js, js', evs, e => by
    simp only [Job.run] at e
    split at e
    · cases e
    · rename_i s1 ev1 hs
      split at e
      · cases e
      · rename_i s2 ev2 hr
        cases e
        exact (step_jgrow hs).trans (run_jgrow ops hr)

/-! ### an accepted submit hands out unknown, pairwise distinct ids, which are known afterwards -/

theorem coreIds_sub_jobIds (d : TaskDesc) : d.coreIds.Sublist d.jobIds := by
  cases d with
  | array ids entries =>
    cases entries with
    | none => exact List.Sublist.refl _
    | some n => exact List.take_sublist _ _
  | graph tasks => exact List.Sublist.refl _

theorem submit_fresh {js js' : Job.State} {jobId mf : Option Nat} {desc : TaskDesc} {evs : List Ev} {j : Nat}
    {core : List TaskId} (hwf : StateWF js) (h : js.submit jobId mf desc = .ok (js', evs, .ok j, core)) :
    core.Nodup ∧ (∀ x ∈ core, ¬ Known js x) ∧ ∀ x ∈ core, Known js' x := by
  have hmapnd : ∀ (J : Nat) (l : List Nat), l.Nodup → (l.map fun t => ((J, t) : TaskId)).Nodup := by
    intro J l hl
    induction l with
    | nil => exact List.nodup_nil
    | cons a rest ih =>
      rw [List.nodup_cons] at hl
      simp only [List.map_cons, List.nodup_cons]
      refine ⟨?_, ih hl.2⟩
      intro hm
      obtain ⟨b, hb, e⟩ := List.mem_map.mp hm
      exact hl.1 ((Prod.mk.inj e).2 ▸ hb)
  simp only [Job.State.submit] at h
  split at h
  · rename_i err hv
    cases h
    exact absurd hv (validateSubmit_not_ok _ _ j)
  · split at h
    · rename_i jid _
      split at h
      · cases h
      · rename_i job hj
        split at h
        · cases h
        · split at h
          · cases h
          · split at h
            · cases h
            · rename_i job' ha
              cases h
              obtain ⟨m, hnone, hl⟩ := attach_spec _ ha
              have hsub := coreIds_sub_jobIds (fillIdsOpen job desc)
              have hlt : j < js.jobCtr := by
                have := hwf.below job (findJob_some hj).1
                rw [getJob_id hj] at this; exact this
              refine ⟨hmapnd _ _ ((attach_nodup _ ha).sublist hsub), ?_, ?_⟩
              · intro x hx hk
                obtain ⟨t, ht, rfl⟩ := List.mem_map.mp hx
                have := hk.2 job hj
                rw [hnone t (hsub.subset ht)] at this
                cases this
              · intro x hx
                obtain ⟨t, ht, rfl⟩ := List.mem_map.mp hx
                refine ⟨hlt, ?_⟩
                intro jobx hjx
                have hjx' : (js.putJob job').getJob j = some jobx := hjx
                rw [getJob_putJob, m.id, getJob_id hj, if_pos rfl, hj] at hjx'
                simp only [Option.map_some, Option.some.injEq] at hjx'
                subst hjx'
                show (lookup job'.tasks t).isSome = true
                rw [hl t, if_pos (hsub.subset ht)]; rfl
    · split at h
      · cases h
      · rename_i hfree
        split at h
        · cases h
        · rename_i job' ha
          cases h
          obtain ⟨m, hnone, hl⟩ := attach_spec _ ha
          have hsub := coreIds_sub_jobIds (fillIdsNew desc)
          have hgn : findJob js.jobs js.jobCtr = none := getJob_ctr_none hwf
          refine ⟨hmapnd _ _ ((attach_nodup _ ha).sublist hsub), ?_, ?_⟩
          · intro x hx hk
            obtain ⟨t, ht, rfl⟩ := List.mem_map.mp hx
            exact Nat.lt_irrefl _ hk.1
          · intro x hx
            obtain ⟨t, ht, rfl⟩ := List.mem_map.mp hx
            refine ⟨Nat.lt_succ_self _, ?_⟩
            intro jobx hjx
            simp only [Job.State.getJob, findJob_append_one, hgn, m.id, if_true, Option.some.injEq] at hjx
            subst hjx
            show (lookup job'.tasks t).isSome = true
            rw [hl t, if_pos (hsub.subset ht)]; rfl

end HqModel.Sys.NPX
