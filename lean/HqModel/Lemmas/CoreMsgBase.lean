import HqModel.Lemmas.CoreInvWT
/-!
Message-level facts about the core model (M1), part 1: the vocabulary.

* `sends msgs` — the `(task id, instance id)` pairs named in the `Msg.compute` messages of a message list, in order;
  `starts cbs` — the `(task id, instance id)` pairs of the `Cb.started` callbacks.
* `TRel nw cr t t'` — how one task record may change between two states of the same operation: same id, the
  instance id and the crash counter do not decrease, a task that is Running / Finished (`slocked`) stays so unless its
  instance id grows, a RunningMultiNode task stays RunningMultiNode or becomes Running / Finished unless its instance
  id grows — or (`task_reject` by the root that has not started it) it goes back to Waiting — and — flag `nw`, every
  function except a scheduling round — a Waiting task stays Waiting; flag `cr`, every function except the crash loop
  — the crash counter is unchanged.
* `Evo nw cr s s'` — every task of `s'` descends (`TRel`) from a task of `s` (membership form: no uniqueness of
  ids needed, so it composes through every intermediate state of an operation).
* `Tr nw s l s'` — what a function that emitted the sends `l` on the way from `s` to `s'` guarantees about them.
-/
namespace HqModel.Core

/-! ### sends and starts -/

def sendsOf : Msg → List (TaskId × Nat)
  | .compute _ items => items.map fun it => (it.1, it.2.1)
  | _ => []

/-- the `(task, instance)` pairs of all compute messages, in message order -/
def sends (ms : List Msg) : List (TaskId × Nat) := (ms.map sendsOf).flatten

@[simp] theorem sends_nil : sends [] = [] := rfl
@[simp] theorem sends_cons (m : Msg) (ms : List Msg) : sends (m :: ms) = sendsOf m ++ sends ms := by simp [sends]
@[simp] theorem sends_append (a b : List Msg) : sends (a ++ b) = sends a ++ sends b := by simp [sends]
@[simp] theorem sendsOf_retract (w : Nat) (l : List TaskId) : sendsOf (.retract w l) = [] := rfl
@[simp] theorem sendsOf_cancel (w : Nat) (l : List TaskId) : sendsOf (.cancel w l) = [] := rfl
@[simp] theorem sendsOf_compute (w : Nat) (l : List (TaskId × Nat × Option Nat × List Nat)) :
    sendsOf (.compute w l) = l.map fun it => (it.1, it.2.1) := rfl

theorem sends_map_retract {α} (l : List α) (f : α → Nat) (g : α → List TaskId) :
    sends (l.map fun p => Msg.retract (f p) (g p)) = [] := by
  induction l with
  | nil => rfl
  | cons x xs ih => simp [ih]

theorem sends_map_cancel {α} (l : List α) (f : α → Nat) (g : α → List TaskId) :
    sends (l.map fun p => Msg.cancel (f p) (g p)) = [] := by
  induction l with
  | nil => rfl
  | cons x xs ih => simp [ih]

theorem mem_sends {ms : List Msg} {p : TaskId × Nat} :
    p ∈ sends ms ↔ ∃ w items it, Msg.compute w items ∈ ms ∧ it ∈ items ∧ p = (it.1, it.2.1) := by
  induction ms with
  | nil => simp
  | cons m rest ih =>
    simp only [sends_cons, List.mem_append, ih, List.mem_cons]
    constructor
    · rintro (h | ⟨w, items, it, h1, h2, h3⟩)
      · cases m with
        | compute w items =>
          simp only [sendsOf_compute, List.mem_map] at h
          obtain ⟨it, h1, h2⟩ := h
          exact ⟨w, items, it, Or.inl rfl, h1, h2.symm⟩
        | retract w l => simp at h
        | cancel w l => simp at h
      · exact ⟨w, items, it, Or.inr h1, h2, h3⟩
    · rintro ⟨w, items, it, h1 | h1, h2, h3⟩
      · left; subst h1; simp only [sendsOf_compute, List.mem_map]; exact ⟨it, h2, h3.symm⟩
      · exact Or.inr ⟨w, items, it, h1, h2, h3⟩

def startsOf : Cb → List (TaskId × Nat)
  | .started t i _ _ => [(t, i)]
  | _ => []

/-- the `(task, instance)` pairs of all `started` callbacks, in order -/
def starts (cbs : List Cb) : List (TaskId × Nat) := (cbs.map startsOf).flatten

@[simp] theorem starts_nil : starts [] = [] := rfl
@[simp] theorem starts_cons (c : Cb) (cs : List Cb) : starts (c :: cs) = startsOf c ++ starts cs := by simp [starts]
@[simp] theorem starts_append (a b : List Cb) : starts (a ++ b) = starts a ++ starts b := by simp [starts]

theorem mem_starts {cbs : List Cb} {p : TaskId × Nat} :
    p ∈ starts cbs ↔ ∃ ws rv, Cb.started p.1 p.2 ws rv ∈ cbs := by
  induction cbs with
  | nil => simp
  | cons c rest ih =>
    simp only [starts_cons, List.mem_append, ih, List.mem_cons]
    constructor
    · rintro (h | ⟨ws, rv, h⟩)
      · cases c <;> simp only [startsOf, List.mem_singleton, List.not_mem_nil] at h
        subst h; exact ⟨_, _, Or.inl rfl⟩
      · exact ⟨ws, rv, Or.inr h⟩
    · rintro ⟨ws, rv, h | h⟩
      · left; rw [← h]; simp [startsOf]
      · exact Or.inr ⟨ws, rv, h⟩

@[simp] theorem add_msgs (a b : Out) : (a.add b).msgs = a.msgs ++ b.msgs := rfl
@[simp] theorem add_cbs (a b : Out) : (a.add b).cbs = a.cbs ++ b.cbs := rfl
@[simp] theorem empty_msgs : ({} : Out).msgs = [] := rfl
@[simp] theorem empty_cbs : ({} : Out).cbs = [] := rfl

/-! ### the per-task relation -/

/-- a task that is (or was) executing: Running, RunningMultiNode, Finished -/
def locked : TS → Prop
  | .running .. => True
  | .runningMN _ => True
  | .finished => True
  | _ => False

instance : DecidablePred locked := fun st => by cases st <;> simp only [locked] <;> infer_instance

@[simp] theorem locked_waiting (n : Nat) : locked (.waiting n) ↔ False := Iff.rfl
@[simp] theorem locked_assigned (w v : Nat) : locked (.assigned w v) ↔ False := Iff.rfl
@[simp] theorem locked_prefilled (w : Nat) : locked (.prefilled w) ↔ False := Iff.rfl
@[simp] theorem locked_retracting (w : Nat) : locked (.retracting w) ↔ False := Iff.rfl
@[simp] theorem locked_running (w v : Nat) : locked (.running w v) ↔ True := Iff.rfl
@[simp] theorem locked_runningMN (l : List Nat) : locked (.runningMN l) ↔ True := Iff.rfl
@[simp] theorem locked_finished : locked .finished ↔ True := Iff.rfl

@[simp] theorem isWaiting_waiting (n : Nat) : isWaiting (.waiting n) ↔ True := Iff.rfl
@[simp] theorem isWaiting_assigned (w v : Nat) : isWaiting (.assigned w v) ↔ False := Iff.rfl
@[simp] theorem isWaiting_prefilled (w : Nat) : isWaiting (.prefilled w) ↔ False := Iff.rfl
@[simp] theorem isWaiting_retracting (w : Nat) : isWaiting (.retracting w) ↔ False := Iff.rfl
@[simp] theorem isWaiting_running (w v : Nat) : isWaiting (.running w v) ↔ False := Iff.rfl
@[simp] theorem isWaiting_runningMN (l : List Nat) : isWaiting (.runningMN l) ↔ False := Iff.rfl
@[simp] theorem isWaiting_finished : isWaiting .finished ↔ False := Iff.rfl

theorem not_locked_of_waiting {st : TS} (h : isWaiting st) : ¬ locked st := by
  cases st <;> simp_all

/-- executing on ONE worker, or done: Running, Finished (the server has heard that the task started) -/
def slocked : TS → Prop
  | .running .. => True
  | .finished => True
  | _ => False

/-- placed on a set of workers: RunningMultiNode (started or not: the `started` flag is in the root's record) -/
def isMN : TS → Prop
  | .runningMN _ => True
  | _ => False

@[simp] theorem slocked_waiting (n : Nat) : slocked (.waiting n) ↔ False := Iff.rfl
@[simp] theorem slocked_assigned (w v : Nat) : slocked (.assigned w v) ↔ False := Iff.rfl
@[simp] theorem slocked_prefilled (w : Nat) : slocked (.prefilled w) ↔ False := Iff.rfl
@[simp] theorem slocked_retracting (w : Nat) : slocked (.retracting w) ↔ False := Iff.rfl
@[simp] theorem slocked_running (w v : Nat) : slocked (.running w v) ↔ True := Iff.rfl
@[simp] theorem slocked_runningMN (l : List Nat) : slocked (.runningMN l) ↔ False := Iff.rfl
@[simp] theorem slocked_finished : slocked .finished ↔ True := Iff.rfl

@[simp] theorem isMN_waiting (n : Nat) : isMN (.waiting n) ↔ False := Iff.rfl
@[simp] theorem isMN_assigned (w v : Nat) : isMN (.assigned w v) ↔ False := Iff.rfl
@[simp] theorem isMN_prefilled (w : Nat) : isMN (.prefilled w) ↔ False := Iff.rfl
@[simp] theorem isMN_retracting (w : Nat) : isMN (.retracting w) ↔ False := Iff.rfl
@[simp] theorem isMN_running (w v : Nat) : isMN (.running w v) ↔ False := Iff.rfl
@[simp] theorem isMN_runningMN (l : List Nat) : isMN (.runningMN l) ↔ True := Iff.rfl
@[simp] theorem isMN_finished : isMN .finished ↔ False := Iff.rfl

theorem locked_iff (st : TS) : locked st ↔ slocked st ∨ isMN st := by cases st <;> simp

theorem locked_of_slocked {st : TS} (h : slocked st) : locked st := (locked_iff st).mpr (.inl h)
theorem locked_of_isMN {st : TS} (h : isMN st) : locked st := (locked_iff st).mpr (.inr h)

/-- `l'` = what is left of the worker list `l` of a multi-node task: workers only leave (loss of a non-root worker),
the root stays -/
def KeepL (l l' : List Nat) : Prop := l'.Sublist l ∧ l'.head? = l.head?

theorem KeepL.refl (l : List Nat) : KeepL l l := ⟨List.Sublist.refl _, rfl⟩

theorem KeepL.trans {a b c : List Nat} (h1 : KeepL a b) (h2 : KeepL b c) : KeepL a c :=
  ⟨h2.1.trans h1.1, h2.2.trans h1.2⟩

/-- a non-empty duplicate-free list stays so -/
theorem KeepL.shape {l l' : List Nat} (h : KeepL l l') (hl : l ≠ [] ∧ l.Nodup) : l' ≠ [] ∧ l'.Nodup := by
  refine ⟨?_, h.1.nodup hl.2⟩
  intro e
  subst e
  cases l with
  | nil => exact hl.1 rfl
  | cons x xs => have := h.2; simp at this

theorem KeepL.filter {root w : Nat} (others : List Nat) (h : ¬ root = w) :
    KeepL (root :: others) ((root :: others).filter (· ≠ w)) := by
  refine ⟨List.filter_sublist, ?_⟩
  simp [List.filter, h]

/-- how one task record may change inside one operation -/
structure TRel (nw cr : Prop) (t t' : Task) : Prop where
  id : t'.id = t.id
  inst : t.inst ≤ t'.inst
  crashes : t.crashes ≤ t'.crashes
  wait : nw → isWaiting t.state → isWaiting t'.state
  /-- Running / Finished stays so unless the instance id grows -/
  lock : slocked t.state → slocked t'.state ∨ t.inst < t'.inst
  /-- RunningMultiNode stays, or becomes Running / Finished, unless the instance id grows — or the task goes back to
  Waiting with the SAME instance id (`task_reject` by a root that has not started it; stated under `nw`, where a
  Waiting task stays Waiting: that is what the composition of sends needs) -/
  lockM : isMN t.state → isMN t'.state ∨ slocked t'.state ∨ t.inst < t'.inst ∨ (nw → isWaiting t'.state)
  /-- outside a scheduling round (`nw`) a task is RunningMultiNode only if it was, and its worker list only shrinks,
  keeping the root -/
  mnl : nw → ∀ l', t'.state = .runningMN l' → ∃ l, t.state = .runningMN l ∧ KeepL l l'
  creq : cr → t'.crashes = t.crashes

theorem TRel.refl (nw cr : Prop) (t : Task) : TRel nw cr t t :=
  ⟨rfl, Nat.le_refl _, Nat.le_refl _, fun _ h => h, fun h => Or.inl h, fun h => Or.inl h,
    fun _ l' h => ⟨l', h, KeepL.refl _⟩, fun _ => rfl⟩

theorem TRel.trans {nw cr : Prop} {a b c : Task} (h1 : TRel nw cr a b) (h2 : TRel nw cr b c) : TRel nw cr a c := by
  have hs : slocked b.state → slocked c.state ∨ a.inst < c.inst := fun h => by
    rcases h2.lock h with h' | h'
    · exact Or.inl h'
    · exact Or.inr (Nat.lt_of_le_of_lt h1.inst h')
  refine ⟨h2.id.trans h1.id, Nat.le_trans h1.inst h2.inst, Nat.le_trans h1.crashes h2.crashes,
    fun n h => h2.wait n (h1.wait n h), ?_, ?_, ?_, fun c => (h2.creq c).trans (h1.creq c)⟩
  · intro hl
    rcases h1.lock hl with h | h
    · exact hs h
    · exact Or.inr (Nat.lt_of_lt_of_le h h2.inst)
  · intro hm
    rcases h1.lockM hm with h | h | h | h
    · rcases h2.lockM h with h' | h' | h' | h'
      · exact Or.inl h'
      · exact Or.inr (Or.inl h')
      · exact Or.inr (Or.inr (Or.inl (Nat.lt_of_le_of_lt h1.inst h')))
      · exact Or.inr (Or.inr (Or.inr h'))
    · rcases hs h with h' | h'
      · exact Or.inr (Or.inl h')
      · exact Or.inr (Or.inr (Or.inl h'))
    · exact Or.inr (Or.inr (Or.inl (Nat.lt_of_lt_of_le h h2.inst)))
    · exact Or.inr (Or.inr (Or.inr (fun n => h2.wait n (h n))))
  · intro n l'' hc
    obtain ⟨l', hb, k2⟩ := h2.mnl n l'' hc
    obtain ⟨l, ha, k1⟩ := h1.mnl n l' hb
    exact ⟨l, ha, k1.trans k2⟩

theorem TRel.mono {nw cr nw' cr' : Prop} {a b : Task} (h : TRel nw cr a b) (h1 : nw' → nw) (h2 : cr' → cr) :
    TRel nw' cr' a b :=
  ⟨h.id, h.inst, h.crashes, fun n => h.wait (h1 n), h.lock,
    fun hm => (h.lockM hm).imp (fun x => x) (Or.imp (fun x => x) (Or.imp (fun x => x) (fun f n => f (h1 n)))),
    fun n => h.mnl (h1 n), fun c => h.creq (h2 c)⟩

/-- a locked task (Running / RunningMultiNode / Finished) stays locked unless its instance id grows — or, in a
function that places no task, it goes back to Waiting (a multi-node task refused by its root) -/
theorem TRel.locked {nw cr : Prop} {a b : Task} (h : TRel nw cr a b) (hl : locked a.state) :
    locked b.state ∨ a.inst < b.inst ∨ (nw → isWaiting b.state) := by
  rcases (locked_iff _).mp hl with hs | hm
  · rcases h.lock hs with h' | h'
    · exact Or.inl (locked_of_slocked h')
    · exact Or.inr (Or.inl h')
  · rcases h.lockM hm with h' | h' | h' | h'
    · exact Or.inl (locked_of_isMN h')
    · exact Or.inl (locked_of_slocked h')
    · exact Or.inr (Or.inl h')
    · exact Or.inr (Or.inr h')

/-- closes `TRel nw cr told { told with … }` goals for concrete record updates -/
macro "trel" : tactic =>
  `(tactic| (refine ⟨rfl, ?_, ?_, ?_, ?_, ?_, ?_, ?_⟩ <;> intros <;> simp_all <;> omega))

/-! ### the relation between two states of one operation -/

/-- every task of `ts'` descends from a task of `ts` -/
def EvoL (nw cr : Prop) (ts ts' : List Task) : Prop :=
  ∀ t' ∈ ts', ∃ t ∈ ts, TRel nw cr t t'

/-- every task of `s'` descends from a task of `s` -/
def Evo (nw cr : Prop) (s s' : State) : Prop := EvoL nw cr s.tasks s'.tasks

theorem EvoL.refl (nw cr : Prop) (ts : List Task) : EvoL nw cr ts ts := fun t ht => ⟨t, ht, TRel.refl _ _ t⟩

theorem EvoL.trans {nw cr : Prop} {a b c : List Task} (h1 : EvoL nw cr a b) (h2 : EvoL nw cr b c) : EvoL nw cr a c := by
  intro t'' ht''
  obtain ⟨t', ht', r2⟩ := h2 t'' ht''
  obtain ⟨t, ht, r1⟩ := h1 t' ht'
  exact ⟨t, ht, r1.trans r2⟩

theorem Evo.refl (nw cr : Prop) (s : State) : Evo nw cr s s := EvoL.refl _ _ _

theorem Evo.trans {nw cr : Prop} {a b c : State} (h1 : Evo nw cr a b) (h2 : Evo nw cr b c) : Evo nw cr a c :=
  EvoL.trans h1 h2

theorem Evo.mono {nw cr nw' cr' : Prop} {a b : State} (h : Evo nw cr a b) (h1 : nw' → nw) (h2 : cr' → cr) :
    Evo nw' cr' a b := fun t' ht' => by
  obtain ⟨t, ht, r⟩ := h t' ht'
  exact ⟨t, ht, r.mono h1 h2⟩

theorem Evo.of_tasks {nw cr : Prop} {a b : State} (h : b.tasks = a.tasks) : Evo nw cr a b := by
  intro t ht; rw [h] at ht; exact ⟨t, ht, TRel.refl _ _ t⟩

theorem mem_putTask {ts : List Task} {t x : Task} (h : x ∈ putTask ts t) : x = t ∨ x ∈ ts := by
  induction ts with
  | nil => cases h
  | cons y ys ih =>
    simp only [putTask] at h
    split at h
    · rcases List.mem_cons.mp h with h | h
      · exact Or.inl h
      · rcases ih h with h | h
        · exact Or.inl h
        · exact Or.inr (List.mem_cons_of_mem _ h)
    · rcases List.mem_cons.mp h with h | h
      · exact Or.inr (h ▸ List.mem_cons_self)
      · rcases ih h with h | h
        · exact Or.inl h
        · exact Or.inr (List.mem_cons_of_mem _ h)

theorem mem_putTask_id {ts : List Task} {t x : Task} (h : x ∈ putTask ts t) (hid : x.id = t.id) : x = t := by
  induction ts with
  | nil => cases h
  | cons y ys ih =>
    simp only [putTask] at h
    split at h
    · rcases List.mem_cons.mp h with h | h
      · exact h
      · exact ih h
    · rename_i hy
      rcases List.mem_cons.mp h with h | h
      · subst h; exact absurd hid hy
      · exact ih h

theorem mem_eraseTask {ts : List Task} {id : TaskId} {x : Task} (h : x ∈ eraseTask ts id) : x ∈ ts := by
  induction ts with
  | nil => cases h
  | cons y ys ih =>
    simp only [eraseTask] at h
    split at h
    · exact List.mem_cons_of_mem _ h
    · rcases List.mem_cons.mp h with h | h
      · exact h ▸ List.mem_cons_self
      · exact List.mem_cons_of_mem _ (ih h)

/-- one record replaced by a descendant of the record that was there -/
theorem EvoL.put {nw cr : Prop} {ts : List Task} {id : TaskId} {t' told : Task} (hf : findTask ts id = some told)
    (hr : TRel nw cr told t') : EvoL nw cr ts (putTask ts t') := by
  intro x hx
  rcases mem_putTask hx with h | h
  · subst h; exact ⟨told, findTask_some_mem hf, hr⟩
  · exact ⟨x, h, TRel.refl _ _ x⟩

theorem EvoL.erase {nw cr : Prop} (ts : List Task) (id : TaskId) : EvoL nw cr ts (eraseTask ts id) :=
  fun x hx => ⟨x, mem_eraseTask hx, TRel.refl _ _ x⟩

/-- `setTask` on a state with the same task list as `a` -/
theorem Evo.set {nw cr : Prop} {a s : State} {id : TaskId} {told t' : Task} (hts : s.tasks = a.tasks)
    (hf : a.task? id = some told) (hr : TRel nw cr told t') : Evo nw cr a (s.setTask t') := by
  show EvoL nw cr a.tasks (putTask s.tasks t')
  rw [hts]; exact EvoL.put hf hr

theorem getTask_ok {s : State} {id : TaskId} {t : Task} (h : s.getTask id = .ok t) : s.task? id = some t := by
  simp only [State.getTask] at h
  split at h
  · rename_i t' ht; cases h; exact ht
  · cases h

/-- only the state changes: Waiting stays Waiting (if `nw`); Running / Finished stays so; RunningMultiNode stays,
becomes Running / Finished, or (if `nw`) goes back to Waiting; the new state is RunningMultiNode only if the old one was
(with a worker list that kept the root) -/
theorem TRel.state {nw cr : Prop} (told : Task) (st : TS) (hw : nw → isWaiting told.state → isWaiting st)
    (hl : (slocked told.state → slocked st) ∧ (isMN told.state → isMN st ∨ slocked st ∨ (nw → isWaiting st)) ∧
      (nw → ∀ l', st = .runningMN l' → ∃ l, told.state = .runningMN l ∧ KeepL l l')) :
    TRel nw cr told { told with state := st } :=
  ⟨rfl, Nat.le_refl _, Nat.le_refl _, hw, fun h => Or.inl (hl.1 h),
    fun h => (hl.2.1 h).imp (fun x => x) (Or.imp (fun x => x) Or.inr), hl.2.2, fun _ => rfl⟩

/-- the instance id grows by one (return from a lost worker); `hm`: the new state is not RunningMultiNode, or the old
state -/
theorem TRel.bump {nw cr : Prop} (told : Task) (st : TS) (hw : nw → isWaiting told.state → isWaiting st)
    (hm : nw → ∀ l', st = .runningMN l' → ∃ l, told.state = .runningMN l ∧ KeepL l l' := by simp) :
    TRel nw cr told { told with inst := told.inst + 1, state := st } :=
  ⟨rfl, Nat.le_succ _, Nat.le_refl _, hw, fun _ => Or.inr (Nat.lt_succ_self _),
    fun _ => Or.inr (Or.inr (Or.inl (Nat.lt_succ_self _))), hm, fun _ => rfl⟩

/-- only the consumer list changes -/
theorem TRel.cons {nw cr : Prop} (told : Task) (c : List TaskId) : TRel nw cr told { told with consumers := c } :=
  ⟨rfl, Nat.le_refl _, Nat.le_refl _, fun _ h => h, fun h => Or.inl h, fun h => Or.inl h,
    fun _ l' h => ⟨l', h, KeepL.refl _⟩, fun _ => rfl⟩

/-- a non-root worker of a multi-node task is lost: it leaves the list -/
theorem TRel.filterMN {nw cr : Prop} (told : Task) {root w : Nat} {others : List Nat}
    (hs : told.state = .runningMN (root :: others)) (hr : ¬ root = w) :
    TRel nw cr told { told with state := .runningMN ((root :: others).filter (· ≠ w)) } :=
  TRel.state told _ (by simp [hs]) ⟨by simp [hs], by simp [hs], fun _ l' e => by
    cases e
    exact ⟨_, hs, KeepL.filter others hr⟩⟩

/-- with unique ids the relation can be read through `findTask` -/
theorem mem_find_of_nodup {ts : List Task} (hn : (taskIds ts).Nodup) {t : Task} (ht : t ∈ ts) :
    findTask ts t.id = some t := by
  induction ts with
  | nil => cases ht
  | cons y ys ih =>
    simp only [taskIds, List.map_cons, List.nodup_cons] at hn
    simp only [findTask]
    rcases List.mem_cons.mp ht with h | h
    · subst h; simp
    · have : ¬ y.id = t.id := fun e => hn.1 (e ▸ List.mem_map_of_mem h)
      simp only [this, if_false]
      exact ih hn.2 h

theorem Evo.find {nw cr : Prop} {s s' : State} (h : Evo nw cr s s') (hn : (taskIds s.tasks).Nodup)
    {id : TaskId} {t' : Task} (hf : findTask s'.tasks id = some t') :
    ∃ t, findTask s.tasks id = some t ∧ TRel nw cr t t' := by
  obtain ⟨t, ht, r⟩ := h t' (findTask_some_mem hf)
  refine ⟨t, ?_, r⟩
  have := mem_find_of_nodup hn ht
  rw [← r.id, findTask_some_id hf] at this
  exact this

/-! ### what a function guarantees about the sends it emitted -/

/-- same task ⇒ instance ids do not decrease along the list -/
def Mono (l : List (TaskId × Nat)) : Prop := l.Pairwise fun p q => p.1 = q.1 → p.2 ≤ q.2

/-- `l` = the sends emitted on the way from `s` to `s'`:
* `lo` — the named task is in the map of `s`, its instance id there is not larger than the sent one; flag `nw` (no
  task is placed on the way): it is not Waiting in `s`, and the sent instance id is strictly larger if the task was
  locked (Running / RunningMultiNode / Finished) in `s`;
* `hi` — if the task is still in the map of `s'`, its instance id there is at least the sent one;
* `mono` — instance ids do not decrease inside `l`. -/
structure Tr (nw : Prop) (s : State) (l : List (TaskId × Nat)) (s' : State) : Prop where
  lo : ∀ p ∈ l, ∃ t ∈ s.tasks, t.id = p.1 ∧ t.inst ≤ p.2 ∧ (nw → locked t.state → t.inst < p.2) ∧ (nw → ¬ isWaiting t.state)
  hi : ∀ p ∈ l, ∀ t' ∈ s'.tasks, t'.id = p.1 → p.2 ≤ t'.inst
  mono : Mono l

theorem Tr.nil (nw : Prop) (s s' : State) : Tr nw s [] s' :=
  ⟨fun _ h => (by cases h), fun _ h => (by cases h), List.Pairwise.nil⟩

theorem Tr.weaken {nw : Prop} {s s' : State} {l} (h : Tr nw s l s') : Tr False s l s' :=
  ⟨fun p hp => by
    obtain ⟨t, a, b, c, d, _⟩ := h.lo p hp
    exact ⟨t, a, b, c, fun f => f.elim, fun f => f.elim⟩, h.hi, h.mono⟩

/-- sequential composition -/
theorem Tr.comp {nw cr : Prop} {s s1 s2 : State} {l1 l2 : List (TaskId × Nat)}
    (e1 : Evo nw cr s s1) (t1 : Tr nw s l1 s1) (e2 : Evo nw cr s1 s2) (t2 : Tr nw s1 l2 s2) :
    Tr nw s (l1 ++ l2) s2 := by
  refine ⟨?_, ?_, ?_⟩
  · intro p hp
    rcases List.mem_append.mp hp with h | h
    · exact t1.lo p h
    · obtain ⟨x1, hx1, a, b, c, d⟩ := t2.lo p h
      obtain ⟨x, hx, r⟩ := e1 x1 hx1
      refine ⟨x, hx, r.id ▸ a, Nat.le_trans r.inst b, ?_, ?_⟩
      · intro n hl
        rcases r.locked hl with h' | h' | h'
        · exact Nat.lt_of_le_of_lt r.inst (c n h')
        · exact Nat.lt_of_lt_of_le h' b
        · exact absurd (h' n) (d n)
      · intro n hw; exact d n (r.wait n hw)
  · intro p hp t' ht' hid
    rcases List.mem_append.mp hp with h | h
    · obtain ⟨x1, hx1, r⟩ := e2 t' ht'
      exact Nat.le_trans (t1.hi p h x1 hx1 (r.id ▸ hid)) r.inst
    · exact t2.hi p h t' ht' hid
  · unfold Mono
    rw [List.pairwise_append]
    refine ⟨t1.mono, t2.mono, ?_⟩
    intro p hp q hq hpq
    obtain ⟨x1, hx1, a, b, _⟩ := t2.lo q hq
    exact Nat.le_trans (t1.hi p hp x1 hx1 (a.trans hpq.symm)) b

/-- nothing emitted after -/
theorem Tr.then_silent {nw cr : Prop} {s s1 s2 : State} {l : List (TaskId × Nat)}
    (e1 : Evo nw cr s s1) (t1 : Tr nw s l s1) (e2 : Evo nw cr s1 s2) : Tr nw s l s2 := by
  have := Tr.comp e1 t1 e2 (Tr.nil nw s1 s2)
  simpa using this

/-- nothing emitted before -/
theorem Tr.after_silent {nw cr : Prop} {s s1 s2 : State} {l : List (TaskId × Nat)}
    (e1 : Evo nw cr s s1) (e2 : Evo nw cr s1 s2) (t2 : Tr nw s1 l s2) : Tr nw s l s2 := by
  have := Tr.comp e1 (Tr.nil nw s s1) e2 t2
  simpa using this

/-- **emission read off the post-state**: every sent pair is `(id, inst)` of a task of the post-state that is
neither Waiting nor locked there (Assigned / Prefilled / Retracting), ids unique in the post-state -/
theorem Tr.of_post {nw cr : Prop} {s s' : State} {l : List (TaskId × Nat)} (e : Evo nw cr s s')
    (hn : (taskIds s'.tasks).Nodup)
    (hp : ∀ p ∈ l, ∃ t', findTask s'.tasks p.1 = some t' ∧ t'.inst = p.2 ∧ ¬ isWaiting t'.state ∧ ¬ locked t'.state) :
    Tr nw s l s' := by
  refine ⟨?_, ?_, ?_⟩
  · intro p hpl
    obtain ⟨t', hf, hi, hw, hl⟩ := hp p hpl
    obtain ⟨t, ht, r⟩ := e t' (findTask_some_mem hf)
    refine ⟨t, ht, r.id.symm.trans (findTask_some_id hf), hi ▸ r.inst, ?_, fun n hw' => hw (r.wait n hw')⟩
    intro n hlk
    rcases r.locked hlk with h | h | h
    · exact absurd h hl
    · exact hi ▸ h
    · exact absurd (h n) hw
  · intro p hpl t'' ht'' hid
    obtain ⟨t', hf, hi, _⟩ := hp p hpl
    have := mem_find_of_nodup hn ht''
    rw [hid, hf] at this
    cases this
    exact Nat.le_of_eq hi.symm
  · unfold Mono
    refine List.Pairwise.imp_of_mem (R := fun _ _ => True) ?_ (List.pairwise_of_forall (fun _ _ => trivial))
    intro p q hp1 hq1 _ hpq
    obtain ⟨t1, hf1, hi1, _⟩ := hp p hp1
    obtain ⟨t2, hf2, hi2, _⟩ := hp q hq1
    rw [hpq, hf2] at hf1
    cases hf1
    omega

end HqModel.Core
