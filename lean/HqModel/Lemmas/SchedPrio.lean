import HqModel.Sched.Prio
/-! `from_user_priority` is strictly monotone from the signed order of i32 to the unsigned order of u64. -/
namespace HqModel.Sched

theorem xor_two_pow_31 (n : Nat) (h : n < 2^32) :
    n ^^^ 2^31 = if n < 2^31 then n + 2^31 else n - 2^31 := by
  have hd := @Nat.xor_div_two_pow n (2^31) 31
  have hm := @Nat.xor_mod_two_pow n (2^31) 31
  have e1 : (2:Nat)^31 / 2^31 = 1 := by decide
  have e2 : (2:Nat)^31 % 2^31 = 0 := by decide
  rw [e1] at hd
  rw [e2, Nat.xor_zero] at hm
  have hdm := Nat.div_add_mod (n ^^^ 2^31) (2^31)
  rw [hd, hm] at hdm
  have hq : n / 2^31 = 0 ∨ n / 2^31 = 1 := by omega
  rcases hq with hq | hq
  · rw [hq] at hdm
    have : (0:Nat) ^^^ 1 = 1 := by decide
    rw [this] at hdm
    split <;> omega
  · rw [hq] at hdm
    have : (1:Nat) ^^^ 1 = 0 := by decide
    rw [this] at hdm
    split <;> omega

theorem signbit_bits : ∀ j : Fin 32, (2147483648#64).getLsbD j.val = (2147483648#32).getLsbD j.val := by decide

/-- the sign extension and the 64-bit constant only matter in the low 32 bits: the shift drops the rest -/
theorem fromUserPriority_eq (x : BitVec 32) :
    fromUserPriority x = ((x ^^^ 0x80000000#32).setWidth 64) <<< 32 := by
  unfold fromUserPriority
  ext i hi
  simp only [BitVec.getElem_shiftLeft, BitVec.getElem_xor, BitVec.getElem_setWidth, BitVec.getLsbD_xor]
  by_cases h : i < 32
  · simp [h]
  · simp only [h, decide_false, Bool.not_false, Bool.true_and]
    have h2 : i - 32 < 32 := by omega
    rw [BitVec.getElem_signExtend]
    simp [h2, BitVec.getLsbD_eq_getElem]
    rw [← BitVec.getLsbD_eq_getElem, ← BitVec.getLsbD_eq_getElem]
    exact signbit_bits ⟨i - 32, h2⟩

theorem fromUserPriority_toNat (x : BitVec 32) :
    (fromUserPriority x).toNat = (x ^^^ 0x80000000#32).toNat * 2^32 := by
  rw [fromUserPriority_eq, BitVec.toNat_shiftLeft, BitVec.toNat_setWidth]
  have := (x ^^^ 0x80000000#32).isLt
  rw [Nat.shiftLeft_eq]
  omega

theorem xor_signbit_toNat (x : BitVec 32) : ((x ^^^ 0x80000000#32).toNat : Int) = x.toInt + 2^31 := by
  rw [BitVec.toNat_xor, BitVec.toInt_eq_toNat_cond]
  have h := x.isLt
  have e : (0x80000000#32).toNat = 2^31 := by decide
  rw [e, xor_two_pow_31 _ h]
  split <;> split <;> omega

/-- the value of the embedding: `(p + 2^31) * 2^32` for the signed value `p` of the user priority -/
theorem fromUserPriority_value (x : BitVec 32) : ((fromUserPriority x).toNat : Int) = (x.toInt + 2^31) * 2^32 := by
  rw [fromUserPriority_toNat, ← xor_signbit_toNat]
  simp

end HqModel.Sched
