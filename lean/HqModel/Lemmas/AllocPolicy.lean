import HqModel.Lemmas.AllocExact
/-!
Lemmas behind the policy statements of C16: the closed form of the admission test, `all`, the first round of scatter.
-/
namespace HqModel.Alloc

/-! ### closed form of the admission test on a concise state -/

def maxFrac (c : CState) : Nat := (c.map (fun g => fmax g.fracs)).foldl max 0

def totalUnits (c : CState) : Nat := (c.map (·.units)).sum

theorem maxAlloc_eq (c : CState) : c.maxAlloc = totalUnits c * FPU + maxFrac c := rfl

/-- `amount ≤ units * FPU + F` in closed form, for `F < FPU` -/
theorem le_maxAlloc_iff (amount U F : Nat) (hF : F < FPU) :
    amount ≤ U * FPU + F ↔ amount / FPU < U ∨ (amount / FPU = U ∧ amount % FPU ≤ F) := by
  unfold FPU at *
  omega

theorem foldl_max_ge (l : List Nat) (a : Nat) : a ≤ l.foldl max a := by
  induction l generalizing a with
  | nil => exact Nat.le_refl _
  | cons x xs ih => exact Nat.le_trans (Nat.le_max_left a x) (ih (max a x))

theorem foldl_max_mem (l : List Nat) (a : Nat) : l.foldl max a = a ∨ l.foldl max a ∈ l := by
  induction l generalizing a with
  | nil => exact .inl rfl
  | cons x xs ih =>
    rcases ih (max a x) with h | h
    · rcases Nat.le_total a x with hax | hax
      · right; rw [List.foldl_cons, h, Nat.max_eq_right hax]; simp
      · left; rw [List.foldl_cons, h, Nat.max_eq_left hax]
    · right; exact List.mem_cons_of_mem _ h

theorem foldl_max_le_of_mem (l : List Nat) (a x : Nat) (hx : x ∈ l) : x ≤ l.foldl max a := by
  induction l generalizing a with
  | nil => cases hx
  | cons y ys ih =>
    rcases List.mem_cons.mp hx with rfl | h
    · exact Nat.le_trans (Nat.le_max_right a x) (foldl_max_ge ys _)
    · exact ih _ h

theorem fmax_mem (m : FMap) : fmax m = 0 ∨ ∃ kv ∈ m, kv.2 = fmax m := by
  induction m with
  | nil => exact .inl rfl
  | cons kv m ih =>
    obtain ⟨k, v⟩ := kv
    simp only [fmax]
    rcases Nat.le_total v (fmax m) with h | h
    · rw [Nat.max_eq_right h]
      rcases ih with h0 | ⟨kv', hm, he⟩
      · exact .inl h0
      · exact .inr ⟨kv', List.mem_cons_of_mem _ hm, he⟩
    · rw [Nat.max_eq_left h]
      exact .inr ⟨(k, v), by simp, rfl⟩

theorem le_fmax_of_mem (m : FMap) (kv : Nat × Nat) (h : kv ∈ m) : kv.2 ≤ fmax m := by
  induction m with
  | nil => cases h
  | cons x m ih =>
    obtain ⟨k, v⟩ := x
    simp only [fmax]
    rcases List.mem_cons.mp h with rfl | h'
    · exact Nat.le_max_left _ _
    · exact Nat.le_trans (ih h') (Nat.le_max_right _ _)

/-- a positive fraction fits below `maxFrac` iff some index of some group has at least that fraction free -/
theorem le_maxFrac_iff (c : CState) (fr : Nat) (hfr : 0 < fr) :
    fr ≤ maxFrac c ↔ ∃ g ∈ c, ∃ kv ∈ g.fracs, fr ≤ kv.2 := by
  unfold maxFrac
  constructor
  · intro h
    rcases foldl_max_mem (c.map (fun g => fmax g.fracs)) 0 with h0 | hm
    · rw [h0] at h; omega
    · obtain ⟨g, hg, hge⟩ := List.mem_map.mp hm
      rcases fmax_mem g.fracs with hz | ⟨kv, hkv, he⟩
      · rw [← hge, hz] at h; omega
      · exact ⟨g, hg, kv, hkv, by rw [he, hge]; exact h⟩
  · rintro ⟨g, hg, kv, hkv, hle⟩
    have h1 := le_fmax_of_mem g.fracs kv hkv
    have h2 := foldl_max_le_of_mem (c.map (fun g => fmax g.fracs)) 0 (fmax g.fracs) (List.mem_map.mpr ⟨g, hg, rfl⟩)
    omega

theorem maxFrac_lt (c : CState) (h : ∀ g ∈ c, ∀ kv ∈ g.fracs, kv.2 < FPU) : maxFrac c < FPU := by
  unfold maxFrac
  rcases foldl_max_mem (c.map (fun g => fmax g.fracs)) 0 with h0 | hm
  · rw [h0]; exact FPU_pos
  · obtain ⟨g, hg, hge⟩ := List.mem_map.mp hm
    rw [← hge]
    rcases fmax_mem g.fracs with hz | ⟨kv, hkv, he⟩
    · rw [hz]; exact FPU_pos
    · rw [← he]; exact h g hg kv hkv

/-! ### `all` on a grouped pool -/

theorem claimAllAux_spec (gid : Nat) (gs : List Group) :
    (∀ g ∈ (claimAllAux gid gs).1, g.free = []) ∧
      ((claimAllAux gid gs).2.map (·.index)).Perm ((gs.map (·.free)).flatten) ∧
      (claimAllAux gid gs).2.length = ((gs.map (·.free.length)).sum) := by
  induction gs generalizing gid with
  | nil => simp [claimAllAux]
  | cons g rest ih =>
    obtain ⟨h1, h2, h3⟩ := ih (gid + 1)
    simp only [claimAllAux]
    refine ⟨?_, ?_, ?_⟩
    · intro g' hg'
      rcases List.mem_cons.mp hg' with rfl | h
      · rfl
      · exact h1 g' h
    · simp only [List.map_append, List.map_map, List.map_cons, List.flatten_cons]
      apply List.Perm.append
      · have : (List.map ((fun x => x.index) ∘ fun i => ({ index := i, group := gid, fractions := 0 } : AIdx))
            g.free.reverse) = g.free.reverse := by
          simp [Function.comp_def]
        rw [this]
        exact List.reverse_perm _
      · exact h2
    · simp [h3]

/-! ### the first round of scatter -/

/-- If every group from `k` on has a free whole index and no more whole indices are requested than groups remain in
the round, `scatter` takes exactly one index from each of the groups `k, k+1, …, k+units-1`. -/
theorem scatterLoop_first_round {pick : Option Nat} {fuel units k : Nat} {gs gs' : List Group} {acc acc' : List AIdx}
    (h : scatterLoop none pick fuel gs units 0 k acc = .ok (gs', acc'))
    (hk : k + units ≤ gs.length)
    (hne : ∀ j g, k ≤ j → gs[j]? = some g → g.free ≠ []) :
    (acc'.drop acc.length).map (·.group) = List.range' k units ∧ acc'.take acc.length = acc := by
  induction fuel generalizing units k gs acc with
  | zero => simp [scatterLoop] at h
  | succ fuel ih =>
    simp only [scatterLoop] at h
    split at h
    · rename_i hdone
      simp only [Except.ok.injEq, Prod.mk.injEq] at h
      obtain ⟨rfl, rfl⟩ := h
      simp [hdone.1]
    · rename_i hnd
      have hupos : 0 < units := by
        rcases Nat.eq_zero_or_pos units with h0 | h0
        · exact absurd (by simp [h0]) hnd
        · exact h0
      simp only [setGet] at h
      have hklt : k < gs.length := by omega
      obtain ⟨g, hg⟩ : ∃ g, gs[k]? = some g := ⟨gs[k], by simp [hklt]⟩
      simp only [hg, hupos, if_true] at h
      cases hfree : g.free with
      | nil => exact absurd hfree (hne k g (Nat.le_refl _) hg)
      | cons i rest =>
        simp only [hfree, setLen] at h
        by_cases hlast : units = 1
        · -- the last requested index: the next iteration stops
          subst hlast
          cases fuel with
          | zero => simp [scatterLoop] at h
          | succ fuel' =>
            simp only [scatterLoop, Nat.sub_self, and_self, if_true, Except.ok.injEq, Prod.mk.injEq] at h
            obtain ⟨rfl, rfl⟩ := h
            simp
        · have hnext : (k + 1) % gs.length = k + 1 := Nat.mod_eq_of_lt (by omega)
          rw [hnext] at h
          have := ih h (by simp; omega) (by
            intro j g' hj hg'
            rw [List.getElem?_set_ne (by omega)] at hg'
            exact hne j g' (by omega) hg')
          obtain ⟨h1, h2⟩ := this
          simp only [List.length_append, List.length_cons, List.length_nil] at h1 h2
          have hlen : acc.length + 1 ≤ acc'.length := by
            have := congrArg List.length h2
            simp at this
            omega
          have hacc' : acc'.take acc.length = acc := by
            have := congrArg (List.take acc.length) h2
            simpa [List.take_take, Nat.min_eq_left (Nat.le_succ _)] using this
          refine ⟨?_, hacc'⟩
          have hsplit : acc'.drop acc.length = (⟨i, k, 0⟩ : AIdx) :: acc'.drop (acc.length + 1) := by
            have e1 : acc'.drop acc.length = (acc'.take (acc.length + 1)).drop acc.length ++ acc'.drop (acc.length + 1) := by
              conv => lhs; rw [← List.take_append_drop (acc.length + 1) acc']
              rw [List.drop_append_of_le_length (by simp; omega)]
            rw [e1, h2]
            simp
          rw [hsplit, List.map_cons, h1]
          have : units = (units - 1) + 1 := by omega
          conv => rhs; rw [this, List.range'_succ]

end HqModel.Alloc
