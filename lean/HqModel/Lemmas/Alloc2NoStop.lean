import HqModel.Lemmas.Alloc2Full
/-!
`try_allocate` / `is_enabled` never stop in a reachable state — every policy on every kind of resource, including
`tight` and the strict policies `compact!` / `tight!` on grouped resources:

* `claimWithMask_tight_nostop`: the tight claim inside a validated solver answer (`Alloc2Tight`);
* `hasResources_nostop`: the strict admission path — the second `group_solver` call (on the empty worker,
  `static_info.all_resources`) has the same `vars[r][g]` index ranges as the first (`weightOob_congr`) and is feasible
  whenever the per-entry test passed on the current free state (`GCtx.maxAlloc_le`), so its `.unwrap()` cannot fail;
* `claimResources_nostop`, `tryAllocate_nostop_full`.
-/
namespace HqModel.Alloc

/-! ### the `vars[r][group]` index check depends only on the group counts -/

def oobSk (sk : List (Nat × Nat)) (w : Weight) : Bool :=
  match posOf (sk.map (·.1)) w.r1, posOf (sk.map (·.1)) w.r2 with
  | some p1, some p2 =>
    match sk[p1]?, sk[p2]? with
    | some (_, n1), some (_, n2) => !(decide (w.g1 < n1 ∧ w.g2 < n2))
    | _, _ => false
  | _, _ => false

/-- resource id and number of variables of every coupled entry -/
def Lp.sk (lp : Lp) : List (Nat × Nat) := lp.entries.map (fun x => (x.1, x.2.coefs.length))

theorem weightTerm_isNone (lp : Lp) (w : Weight) : (weightTerm lp [] w).isNone = oobSk lp.sk w := by
  unfold weightTerm oobSk Lp.sk
  have hm : (lp.entries.map (fun x => (x.1, x.2.coefs.length))).map (·.1) = lp.entries.map (·.1) := by
    rw [List.map_map]; rfl
  rw [hm]
  dsimp only
  cases posOf (lp.entries.map (·.1)) w.r1 with
  | none => rfl
  | some p1 =>
    cases posOf (lp.entries.map (·.1)) w.r2 with
    | none => rfl
    | some p2 =>
      dsimp only
      simp only [List.getElem?_map]
      cases lp.entries[p1]? with
      | none => rfl
      | some x1 =>
        cases lp.entries[p2]? with
        | none => rfl
        | some x2 =>
          obtain ⟨r1, e1⟩ := x1
          obtain ⟨r2, e2⟩ := x2
          simp only [Option.map_some]
          by_cases hc : w.g1 < e1.coefs.length ∧ w.g2 < e2.coefs.length
          · simp [hc]
          · simp [hc]

theorem weightOob_eq (lp : Lp) : lp.weightOob = lp.weights.any (oobSk lp.sk) := by
  unfold Lp.weightOob
  congr 1
  funext w
  exact weightTerm_isNone lp w

theorem entryLp_coefs_length (c : CState) (amount : Nat) : (entryLp c amount).coefs.length = c.length := by
  unfold entryLp
  dsimp only
  split <;> simp

theorem mkLp_sk (free : List CState) (coupled : List Entry) (ws : List Weight) :
    (mkLp free coupled ws).sk = coupled.map (fun e => (e.rid, (free[e.rid]?.getD []).length)) := by
  simp only [Lp.sk, mkLp, List.map_map]
  apply List.map_congr_left
  intro e _
  simp [entryLp_coefs_length]

theorem weightOob_congr {free free' : List CState} {coupled : List Entry} {ws : List Weight}
    (h : ∀ e ∈ coupled, (free[e.rid]?.getD []).length = (free'[e.rid]?.getD []).length) :
    (mkLp free coupled ws).weightOob = (mkLp free' coupled ws).weightOob := by
  rw [weightOob_eq, weightOob_eq, mkLp_sk, mkLp_sk]
  have : coupled.map (fun e => (e.rid, (free[e.rid]?.getD []).length)) =
      coupled.map (fun e => (e.rid, (free'[e.rid]?.getD []).length)) := by
    apply List.map_congr_left
    intro e he
    rw [h e he]
  rw [this]
  rfl

theorem groupSolver_nostop {free : List CState} {coupled : List Entry} {ws : List Weight} (r : Option SolRec)
    (hw : (mkLp free coupled ws).weightOob = false) : NoStop (groupSolver free coupled ws r) := by
  intro e he
  unfold groupSolver at he
  dsimp only at he
  rw [hw] at he
  simp only [Bool.false_eq_true, if_false] at he
  split at he
  · cases he
  · cases he; rfl

/-! ### feasibility of the MILPs -/

theorem lp_optimum_ne_none {free : List CState} {coupled : List Entry} {ws : List Weight}
    (h : ∀ e ∈ coupled, ∃ c, free[e.rid]? = some c ∧ (∀ g ∈ c, ∀ kv ∈ g.fracs, kv.2 < FPU) ∧
      e.amount ≤ c.maxAlloc) : (mkLp free coupled ws).optimum ≠ none := by
  apply optimum_ne_none
  intro x hx
  simp only [mkLp, List.mem_map] at hx
  obtain ⟨e, he, rfl⟩ := hx
  obtain ⟨c, hc, hvals, hle⟩ := h e he
  have hfe := admitted_feasible hvals hle
  refine ⟨List.range c.length, ?_, ?_⟩
  · simp only [hc, Option.getD_some, entryLp_coefs_length]
    exact range_mem_allSubsets _
  · simpa only [hc, Option.getD_some] using hfe

theorem eq_of_rid_eq {rq : Request} (hnd : (rq.map (·.rid)).Nodup) {e e' : Entry} (he : e ∈ rq) (he' : e' ∈ rq)
    (h : e.rid = e'.rid) : e = e' := by
  induction rq with
  | nil => cases he
  | cons x xs ih =>
    obtain ⟨hx, hxs⟩ := List.nodup_cons.mp hnd
    rcases List.mem_cons.mp he with h1 | h1 <;> rcases List.mem_cons.mp he' with h2 | h2
    · rw [h1, h2]
    · subst h1
      exact absurd (List.mem_map.mpr ⟨e', h2, h.symm⟩) hx
    · subst h2
      exact absurd (List.mem_map.mpr ⟨e, h1, h⟩) hx
    · exact ih hxs h1 h2

/-- what is known about an entry that goes through the group solver -/
theorem coupled_info {pools : List Pool} {rq : Request} {e : Entry} (he : e ∈ coupledEntries pools rq) :
    e ∈ rq ∧ e.policy.relevantForCoupling = true ∧ ∃ full gs, pools[e.rid]? = some (.groups full gs) := by
  obtain ⟨hin, hc⟩ := List.mem_filter.mp he
  cases hp : pools[e.rid]? with
  | none => simp [hp] at hc
  | some pool =>
    cases pool with
    | groups full gs =>
      simp only [hp, Option.map_some, Option.getD_some, Pool.isGroups, Bool.true_and] at hc
      exact ⟨hin, hc, full, gs, rfl⟩
    | _ => simp [hp, Pool.isGroups] at hc

theorem admitted_le {s : State} {e : Entry} {pool : Pool} {c : CState} (hp : s.pools[e.rid]? = some pool)
    (hc : s.concise[e.rid]? = some c) (hrel : e.policy.relevantForCoupling = true)
    (hadm : entryHasResources s.pools s.concise e = true) : e.amount ≤ c.maxAlloc := by
  unfold entryHasResources at hadm
  rw [hp] at hadm
  simp only [hc, Option.getD_some] at hadm
  cases hpe : e.policy <;> simp only [hpe, Policy.relevantForCoupling] at hadm hrel <;>
    first | exact of_decide_eq_true hadm | cases hrel

section reach
variable {s₀ s : State}

/-- the MILP for the current free state is feasible when every entry passed its test -/
theorem concise_lp_feasible (hinv : Inv2 (univOf s₀.pools) s) (hf : InitFacts s₀) (hst : Static s₀ s)
    {rq : Request} (hentries : ∀ e ∈ rq, entryHasResources s.pools s.concise e = true) :
    (mkLp s.concise (coupledEntries s.pools rq) s.weights).optimum ≠ none := by
  apply lp_optimum_ne_none
  intro e he
  obtain ⟨hin, hrel, full, gs, hp⟩ := coupled_info he
  obtain ⟨gs₀, c, hctx⟩ := gctx hinv hf hst hp
  exact ⟨c, hctx.conc, hctx.vals, admitted_le hp hctx.conc hrel (hentries e hin)⟩

/-- … and then so is the MILP for the empty worker -/
theorem allFree_lp_feasible (hinv : Inv2 (univOf s₀.pools) s) (hf : InitFacts s₀) (hst : Static s₀ s)
    {rq : Request} (hentries : ∀ e ∈ rq, entryHasResources s.pools s.concise e = true) :
    (mkLp s.allFree (coupledEntries s.pools rq) s.weights).optimum ≠ none := by
  apply lp_optimum_ne_none
  intro e he
  obtain ⟨hin, hrel, full, gs, hp⟩ := coupled_info he
  obtain ⟨gs₀, c, hctx⟩ := gctx hinv hf hst hp
  refine ⟨_, hctx.allFree, ?_, ?_⟩
  · intro g hg kv hkv
    obtain ⟨g₀, hg₀, rfl⟩ := List.mem_map.mp hg
    rw [hctx.fresh g₀ hg₀] at hkv
    cases hkv
  · have h1 := admitted_le hp hctx.conc hrel (hentries e hin)
    have h2 := hctx.maxAlloc_le
    have h3 : full ≤ CState.maxAlloc (gs₀.map (fun g => (⟨g.free.length, g.fracs⟩ : CGroup))) := by
      rw [maxAlloc_eq, hctx.full]
      have : totalUnits (gs₀.map (fun g => (⟨g.free.length, g.fracs⟩ : CGroup))) =
          (gs₀.map (·.free.length)).sum := by
        simp [totalUnits, Function.comp_def]
      rw [this]
      exact Nat.le_add_right _ _
    omega

theorem allFree_weightOob (hinv : Inv2 (univOf s₀.pools) s) (hf : InitFacts s₀) (hst : Static s₀ s)
    {rq : Request} (hw : (mkLp s.concise (coupledEntries s.pools rq) s.weights).weightOob = false) :
    (mkLp s.allFree (coupledEntries s.pools rq) s.weights).weightOob = false := by
  rw [← hw]
  apply weightOob_congr
  intro e he
  obtain ⟨-, -, full, gs, hp⟩ := coupled_info he
  obtain ⟨gs₀, c, hctx⟩ := gctx hinv hf hst hp
  rw [hctx.allFree, hctx.conc]
  simp [hctx.clen]

/-- **`has_resources_for_request` never stops** (non-strict path: no solver call; strict path: two solver calls, the
second one — for the empty worker — cannot report infeasibility) -/
theorem hasResources_nostop (hinv : Inv2 (univOf s₀.pools) s) (hf : InitFacts s₀) (hst : Static s₀ s)
    (rq : Request) (sols : List (Option SolRec))
    (hw : (mkLp s.concise (coupledEntries s.pools rq) s.weights).weightOob = false) :
    NoStop (hasResources s rq sols) := by
  intro er herr
  unfold hasResources at herr
  split at herr
  · cases herr
  · rename_i hall
    have hentries : ∀ e ∈ rq, entryHasResources s.pools s.concise e = true := by
      apply List.all_eq_true.mp
      simpa using hall
    dsimp only at herr
    split at herr
    · cases herr
    · split at herr
      · cases herr; rfl
      · rename_i r1 sols1
        split at herr
        · rename_i e₁ hgs
          simp only [Except.error.injEq] at herr
          subst herr
          exact groupSolver_nostop r1 hw _ hgs
        · cases herr
        · split at herr
          · cases herr
          · split at herr
            · cases herr; rfl
            · rename_i r2 sols2
              split at herr
              · rename_i e₂ hgs
                simp only [Except.error.injEq] at herr
                subst herr
                exact groupSolver_nostop r2 (allFree_weightOob hinv hf hst hw) _ hgs
              · rename_i hgs
                exact absurd (groupSolver_none hgs).2 (allFree_lp_feasible hinv hf hst hentries)
              · cases herr

theorem hasResources_true {rq : Request} {sols rest : List (Option SolRec)} {cache : List (Request × Int)}
    (h : hasResources s rq sols = .ok (true, cache, rest)) :
    ∀ e ∈ rq, entryHasResources s.pools s.concise e = true := by
  have hw := hasResources_with h
  unfold admitWith at hw
  by_cases h1 : (!rq.all (entryHasResources s.pools s.concise)) = true
  · rw [if_pos h1] at hw
    simp at hw
  · apply List.all_eq_true.mp
    simpa using h1

/-! ### the claims -/

/-- tight inside a validated group set does not stop -/
theorem claimWithMask_tight_nostop {c : CState} {gs : List Group} (h : GroupsLink c gs) (hvals : GVals gs)
    {full : Nat} {e : Entry} {S : List Nat} {pick : Option Nat} (hpol : e.policy = .tight ∨ e.policy = .forceTight)
    (hpos : 0 < e.amount) (hf : (entryLp c e.amount).feasible S = true) :
    NoStop ((Pool.groups full gs).claimWithMask e S pick) := by
  obtain ⟨hP, hnd, hok⟩ := feasible_scatterOk h hf
  have hloop := claimTight_nostop (pick := pick) hpos hvals hP hnd hok
  intro er herr
  rcases hpol with hpol | hpol <;>
  · simp only [Pool.claimWithMask, hpol] at herr
    split at herr
    · rename_i er' hc
      simp only [Except.error.injEq] at herr
      subst herr
      exact hloop _ hc
    · cases herr

/-- **`claim_resources` never stops** once every entry passed its admission test -/
theorem claimResources_nostop (hinv : Inv2 (univOf s₀.pools) s) (hf : InitFacts s₀) (hst : Static s₀ s)
    (rq : Request) (ch : Choices) (sols : List (Option SolRec)) (hnd : (rq.map (·.rid)).Nodup)
    (hcap : ∀ e ∈ rq, s.pools[e.rid]? ≠ some .empty)
    (hpos : ∀ e ∈ rq, (e.policy = .tight ∨ e.policy = .forceTight) → 0 < e.amount)
    (hw : (mkLp s.concise (coupledEntries s.pools rq) s.weights).weightOob = false)
    (hentries : ∀ e ∈ rq, entryHasResources s.pools s.concise e = true) :
    NoStop (claimResources s rq ch sols) := by
  have hclaims : NoStop (claimPlain ch s.pools rq []) := by
    apply claimPlain_nostop hnd
    intro e he
    have hadm := hentries e he
    cases hp : s.pools[e.rid]? with
    | none => simp [entryHasResources, hp] at hadm
    | some pool =>
      refine ⟨pool, rfl, ?_⟩
      cases pool with
      | empty => exact absurd hp (hcap e he)
      | indices full g => exact .inr (claim_indices_nostop (admitted_indices hinv hp hadm))
      | sum full free => exact .inr (claim_sum_nostop (admitted_sum hinv hp hadm))
      | groups full gs =>
        cases hpe : e.policy with
        | all => exact .inr (claim_groups_all_nostop hpe)
        | scatter => exact .inr (claim_groups_scatter_nostop hinv hp hpe hadm)
        | compact => exact .inl (by simp [Pool.isGroups, Policy.relevantForCoupling])
        | tight => exact .inl (by simp [Pool.isGroups, Policy.relevantForCoupling])
        | forceCompact => exact .inl (by simp [Pool.isGroups, Policy.relevantForCoupling])
        | forceTight => exact .inl (by simp [Pool.isGroups, Policy.relevantForCoupling])
  intro er hcl
  unfold claimResources at hcl
  cases hcp : claimPlain ch s.pools rq [] with
  | error er'' =>
    rw [hcp] at hcl
    simp only [Except.error.injEq] at hcl
    subst hcl
    exact hclaims _ hcp
  | ok v =>
    obtain ⟨pools1, al1⟩ := v
    rw [hcp] at hcl
    dsimp only at hcl
    by_cases hce : (coupledEntries s.pools rq).isEmpty = true
    · rw [if_pos hce] at hcl; cases hcl
    · rw [if_neg hce] at hcl
      cases sols with
      | nil => simp at hcl; exact hcl.symm
      | cons r sols' =>
        dsimp only at hcl
        cases hgs : groupSolver s.concise (coupledEntries s.pools rq) s.weights r with
        | error e₁ =>
          rw [hgs] at hcl
          simp only [Except.error.injEq] at hcl
          subst hcl
          exact groupSolver_nostop r hw _ hgs
        | ok o =>
          rw [hgs] at hcl
          cases o with
          | none => exact absurd (groupSolver_none hgs).2 (concise_lp_feasible hinv hf hst hentries)
          | some sol =>
            dsimp only at hcl
            obtain ⟨-, hsolf, -, -⟩ := groupSolver_some hgs
            have hcc : NoStop (claimCoupled ch pools1 (coupledEntries s.pools rq) sol.sets al1) := by
              apply claimCoupled_nostop (coupled_nodup hnd)
              intro x hx
              have hxe : x.1 ∈ coupledEntries s.pools rq := (List.of_mem_zip hx).1
              obtain ⟨hin, hrel, full, gs, hp⟩ := coupled_info hxe
              -- the pool is still the one of the state
              have hsame : pools1[x.1.rid]? = s.pools[x.1.rid]? := by
                apply claimPlain_untouched hcp
                intro e' he' hr' pool' hp'
                rw [hp] at hp'
                cases hp'
                have : e' = x.1 := eq_of_rid_eq hnd he' hin hr'
                subst this
                simp [Pool.isGroups, hrel]
              refine ⟨.groups full gs, by rw [hsame]; exact hp, ?_⟩
              have hr : x.1.rid < s.concise.length := by
                rw [hinv.concise.len]; exact lt_length_of_getElem? hp
              obtain ⟨c, hc⟩ := exists_get hr
              have hlink := groups_link hinv hp hc
              -- the set is feasible for this entry
              have hfx : (entryLp c x.1.amount).feasible x.2 = true := by
                simp only [Lp.feasible, Bool.and_eq_true, List.all_eq_true] at hsolf
                have hz := hsolf.2
                obtain ⟨k, hk⟩ := List.getElem?_of_mem hx
                have hk1 : (coupledEntries s.pools rq)[k]? = some x.1 := by
                  have := hk
                  simp only [List.getElem?_zip_eq_some] at this
                  exact this.1
                have hk2 : sol.sets[k]? = some x.2 := by
                  have := hk
                  simp only [List.getElem?_zip_eq_some] at this
                  exact this.2
                have hmem : ((x.1.rid, entryLp (s.concise[x.1.rid]?.getD []) x.1.amount), x.2) ∈
                    (mkLp s.concise (coupledEntries s.pools rq) s.weights).entries.zip sol.sets := by
                  apply List.mem_of_getElem? (i := k)
                  simp only [mkLp, List.getElem?_zip_eq_some, List.getElem?_map, hk1, Option.map_some, hk2,
                    and_self]
                have := hz _ hmem
                simpa only [hc, Option.getD_some] using this
              cases hpe : x.1.policy with
              | compact => exact claimWithMask_compact_nostop hlink (.inl hpe) hfx
              | forceCompact => exact claimWithMask_compact_nostop hlink (.inr hpe) hfx
              | tight =>
                exact claimWithMask_tight_nostop hlink (gvals_of_inv hinv.inv hst.keys hp) (.inl hpe)
                  (hpos x.1 hin (.inl hpe)) hfx
              | forceTight =>
                exact claimWithMask_tight_nostop hlink (gvals_of_inv hinv.inv hst.keys hp) (.inr hpe)
                  (hpos x.1 hin (.inr hpe)) hfx
              | scatter => simp [hpe, Policy.relevantForCoupling] at hrel
              | all => simp [hpe, Policy.relevantForCoupling] at hrel
            cases hcr : claimCoupled ch pools1 (coupledEntries s.pools rq) sol.sets al1 with
            | error e₂ =>
              rw [hcr] at hcl
              simp only [Except.error.injEq] at hcl
              subst hcl
              exact hcc _ hcr
            | ok v => rw [hcr] at hcl; cases hcl

/-- **`try_allocate` never stops** in a state satisfying the invariants of reachable states: every policy, every kind
of resource. Remaining hypotheses = what is validated upstream: distinct resource ids, no entry on a resource the
worker does not have, a positive amount for `tight`/`tight!`, coupling items that address existing groups. -/
theorem tryAllocate_nostop_full (hinv : Inv2 (univOf s₀.pools) s) (hU : ∀ r g, (univOf s₀.pools r g).Nodup)
    (hf : InitFacts s₀) (hst : Static s₀ s) (h : Nat) (rq : Request) (ch : Choices)
    (hnd : (rq.map (·.rid)).Nodup) (hcap : ∀ e ∈ rq, s.pools[e.rid]? ≠ some .empty)
    (hpos : ∀ e ∈ rq, (e.policy = .tight ∨ e.policy = .forceTight) → 0 < e.amount)
    (hw : (mkLp s.concise (coupledEntries s.pools rq) s.weights).weightOob = false) :
    NoStop (tryAllocate s h rq ch) := by
  intro er herr
  unfold tryAllocate at herr
  cases hhr : hasResources s rq ch.sols with
  | error e =>
    rw [hhr] at herr
    simp only [Except.error.injEq] at herr
    subst herr
    exact hasResources_nostop hinv hf hst rq ch.sols hw _ hhr
  | ok v =>
    obtain ⟨b, cache, sols1⟩ := v
    rw [hhr] at herr
    cases b with
    | false =>
      cases sols1 with
      | nil => simp at herr
      | cons x xs => simp at herr; exact herr.symm
    | true =>
      dsimp only at herr
      have hentries := hasResources_true hhr
      cases hcl : claimResources s rq ch sols1 with
      | error e =>
        rw [hcl] at herr
        simp only [Except.error.injEq] at herr
        subst herr
        exact claimResources_nostop hinv hf hst rq ch sols1 hnd hcap hpos hw hentries _ hcl
      | ok v =>
        obtain ⟨pools', al, sols'⟩ := v
        rw [hcl] at herr
        obtain ⟨cs', hcr⟩ := tryAllocate_after_claim hinv hU hcl
        cases sols' with
        | nil => simp [hcr] at herr
        | cons x xs => simp at herr; exact herr.symm

theorem isEnabled_nostop_full (hinv : Inv2 (univOf s₀.pools) s) (hf : InitFacts s₀) (hst : Static s₀ s)
    (rq : Request) (ch : Choices)
    (hw : (mkLp s.concise (coupledEntries s.pools rq) s.weights).weightOob = false) :
    NoStop (isEnabled s rq ch) := by
  intro er herr
  unfold isEnabled at herr
  split at herr
  · rename_i e hhr
    simp only [Except.error.injEq] at herr
    subst herr
    exact hasResources_nostop hinv hf hst rq ch.sols hw _ hhr
  · cases herr
  · cases herr; rfl

end reach

end HqModel.Alloc
