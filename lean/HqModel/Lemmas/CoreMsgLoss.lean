import HqModel.Lemmas.CoreMsgCrash
import HqModel.Lemmas.CoreInvFull
/-!
Message-level facts, part 7 (C06): **every task that comes back from a lost worker gets a strictly larger instance
id** — all of `on_remove_worker` at once, for every reachable state: a task Assigned / Running / Prefilled on the
lost worker, a task that was being retracted from it, a multi-node task whose root it was.
-/
namespace HqModel.Core

/-- a record for `id` is replaced by one with the instance id + 1; before and after only `Evo` steps -/
theorem bump_between {nw cr : Prop} {s0 s s1 s' : State} {id : TaskId} {task t1 : Task}
    (e0 : Evo nw cr s0 s) (hf : s.task? id = some task) (h1 : s1.tasks = putTask s.tasks t1)
    (hid : t1.id = id) (hinst : t1.inst = task.inst + 1) (e1 : Evo nw cr s1 s') :
    ∀ t' ∈ s'.tasks, t'.id = id → ∃ t ∈ s0.tasks, t.id = id ∧ t.inst < t'.inst := by
  intro t' ht' hid'
  obtain ⟨x, hx, r⟩ := e1 t' ht'
  rw [h1] at hx
  have hx' : x = t1 := mem_putTask_id hx ((r.id.symm.trans hid').trans hid.symm)
  subst hx'
  obtain ⟨t, ht, r0⟩ := e0 task (findTask_some_mem hf)
  refine ⟨t, ht, r0.id.symm.trans (findTask_some_id hf), ?_⟩
  have := r.inst; have := r0.inst
  omega

theorem lostPrefilled_bumped (ids : List TaskId) (s0 s s' : State) (e0 : Evo True True s0 s)
    (h : s.lostPrefilled ids = .ok s') :
    ∀ t' ∈ s'.tasks, t'.id ∈ ids → ∃ t ∈ s0.tasks, t.id = t'.id ∧ t.inst < t'.inst := by
  induction ids generalizing s with
  | nil => intro t' _ h'; cases h'
  | cons id rest ih =>
    simp only [State.lostPrefilled] at h
    split at h
    · cases h
    · rename_i task ht
      split at h
      · cases h
      · rename_i s2 h2
        have e : Evo True True s (s.setTask { task with inst := task.inst + 1, state := .waiting 0 }) :=
          Evo.set rfl (getTask_ok ht) (TRel.bump task _ (by simp))
        have e2 : Evo True True s s2 := e.trans (Evo.of_tasks (movePrefilledToReady_tasks h2))
        intro t' ht' hm
        by_cases hid : t'.id = id
        · obtain ⟨t, a, b, c⟩ := bump_between (task := task) e0 (getTask_ok ht) (t1 := { task with inst := task.inst + 1, state := .waiting 0 })
            (movePrefilledToReady_tasks h2) (by have := findTask_some_id (getTask_ok ht); exact this) rfl (lostPrefilled_evo _ _ _ h) t' ht' hid
          exact ⟨t, a, b.trans hid.symm, c⟩
        · rcases List.mem_cons.mp hm with h3 | h3
          · exact absurd h3 hid
          · exact ih _ (e0.trans e2) h t' ht' h3

theorem lostAssigned_bumped (ids : List TaskId) (s0 s s' : State) (ru ru' re re' : List TaskId)
    (e0 : Evo True True s0 s) (h : s.lostAssigned ids ru re = .ok (s', ru', re')) :
    ∀ t' ∈ s'.tasks, t'.id ∈ ids → ∃ t ∈ s0.tasks, t.id = t'.id ∧ t.inst < t'.inst := by
  induction ids generalizing s ru re with
  | nil => intro t' _ h'; cases h'
  | cons id rest ih =>
    simp only [State.lostAssigned] at h
    split at h
    · cases h
    · rename_i task ht
      have ht' := getTask_ok ht
      have hid0 : task.id = id := findTask_some_id ht'
      -- every arm: a record with instance id + 1 is written, the queues change, the loop goes on
      have arm : ∀ (sa s2 : State) (t1 : Task) (ru2 re2 : List TaskId), sa.tasks = s.tasks → t1.id = task.id →
          t1.inst = task.inst + 1 → TRel True True task t1 → s2.tasks = (sa.setTask t1).tasks →
          s2.lostAssigned rest ru2 re2 = .ok (s', ru', re') →
          ∀ t' ∈ s'.tasks, t'.id ∈ id :: rest → ∃ t ∈ s0.tasks, t.id = t'.id ∧ t.inst < t'.inst := by
        intro sa s2 t1 ru2 re2 hsa hid1 hinst hrel hs2 hloop t' htm hm
        have e2 : Evo True True s s2 := by
          have := Evo.set (nw := True) (cr := True) hsa ht' hrel
          unfold Evo at this ⊢; rw [hs2]; exact this
        by_cases hid : t'.id = id
        · obtain ⟨t, a, b, c⟩ := bump_between (task := task) e0 ht' (t1 := t1) (s1 := s2)
            (by rw [hs2]; show putTask sa.tasks t1 = _; rw [hsa]) (hid1.trans hid0) hinst
            (lostAssigned_evo _ _ _ _ _ _ _ hloop) t' htm hid
          exact ⟨t, a, b.trans hid.symm, c⟩
        · rcases List.mem_cons.mp hm with h3 | h3
          · exact absurd h3 hid
          · exact ih _ _ _ (e0.trans e2) hloop t' htm h3
      split at h
      · split at h
        · cases h
        · rename_i s2 r h2
          exact arm s s2 { task with inst := task.inst + 1, state := .waiting 0 } _ _ rfl rfl rfl
            (TRel.bump task _ (by simp)) (addReady_tasks h2) h
      · split at h
        · cases h
        · split at h
          · cases h
          · rename_i s2 r h2
            exact arm { s with redirects := s.redirects.filter (·.1 ≠ id) } s2 { task with inst := task.inst + 1 } _ _
              rfl rfl rfl (TRel.bump task task.state (fun _ h => h) (fun _ l' h => ⟨l', h, KeepL.refl _⟩))
              (addReady_tasks h2) h
      · split at h
        · cases h
        · rename_i s2 r h2
          exact arm s s2 { task with inst := task.inst + 1, state := .waiting 0 } _ _ rfl rfl rfl
            (TRel.bump task _ (by simp)) (addReady_tasks h2) h


theorem lostPrefilled_frame (ids : List TaskId) (s s' : State) (h : s.lostPrefilled ids = .ok s') :
    ∀ x, x ∉ ids → findTask s'.tasks x = findTask s.tasks x := by
  induction ids generalizing s with
  | nil => simp only [State.lostPrefilled] at h; cases h; intro _ _; rfl
  | cons id rest ih =>
    simp only [State.lostPrefilled] at h
    split at h
    · cases h
    · rename_i task ht
      split at h
      · cases h
      · rename_i s2 h2
        intro x hx
        simp only [List.mem_cons, not_or] at hx
        rw [ih _ h x hx.2, movePrefilledToReady_tasks h2]
        show findTask (putTask s.tasks _) x = _
        rw [findTask_putTask]
        have : task.id = id := findTask_some_id (getTask_ok ht)
        simp [this, hx.1]

theorem lostAssigned_frame (ids : List TaskId) (s s' : State) (ru ru' re re' : List TaskId)
    (h : s.lostAssigned ids ru re = .ok (s', ru', re')) :
    ∀ x, x ∉ ids → findTask s'.tasks x = findTask s.tasks x := by
  induction ids generalizing s ru re with
  | nil => simp only [State.lostAssigned] at h; cases h; intro _ _; rfl
  | cons id rest ih =>
    simp only [State.lostAssigned] at h
    split at h
    · cases h
    · rename_i task ht
      have hid : task.id = id := findTask_some_id (getTask_ok ht)
      have arm : ∀ (sa s2 : State) (t1 : Task) (ru2 re2 : List TaskId), sa.tasks = s.tasks → t1.id = task.id →
          s2.tasks = (sa.setTask t1).tasks → s2.lostAssigned rest ru2 re2 = .ok (s', ru', re') →
          ∀ x, x ∉ id :: rest → findTask s'.tasks x = findTask s.tasks x := by
        intro sa s2 t1 ru2 re2 hsa hid1 hs2 hloop x hx
        simp only [List.mem_cons, not_or] at hx
        rw [ih _ _ _ hloop x hx.2, hs2]
        show findTask (putTask sa.tasks t1) x = _
        rw [findTask_putTask, hsa]
        simp [hid1, hid, hx.1]
      split at h
      · split at h
        · cases h
        · rename_i s2 r h2
          exact arm s s2 { task with inst := task.inst + 1, state := .waiting 0 } _ _ rfl rfl (addReady_tasks h2) h
      · split at h
        · cases h
        · split at h
          · cases h
          · rename_i s2 r h2
            exact arm { s with redirects := s.redirects.filter (·.1 ≠ id) } s2 { task with inst := task.inst + 1 } _ _
              rfl rfl (addReady_tasks h2) h
      · split at h
        · cases h
        · rename_i s2 r h2
          exact arm s s2 { task with inst := task.inst + 1, state := .waiting 0 } _ _ rfl rfl (addReady_tasks h2) h

/-- every task of the list that is Retracting from `w` (the records of the list being the current ones) ends with
a strictly larger instance id -/
theorem lostRetracting_bumped (ts : List Task) (s s' : State) (w : Nat) (o o' : Out)
    (hn : (taskIds s.tasks).Nodup) (hnd : (ts.map (·.id)).Nodup) (hsame : ∀ t0 ∈ ts, s.task? t0.id = some t0)
    (h : s.lostRetracting w ts o = .ok (s', o')) :
    ∀ t' ∈ s'.tasks, ∀ t0 ∈ ts, t0.id = t'.id → t0.state = .retracting w → t0.inst < t'.inst := by
  induction ts generalizing s o with
  | nil => intro _ _ _ h0; cases h0
  | cons t0 rest ih =>
    simp only [List.map_cons, List.nodup_cons] at hnd
    have h00 := hsame t0 List.mem_cons_self
    simp only [State.lostRetracting, h00] at h
    have hrest : ∀ r ∈ rest, s.task? r.id = some r := fun r hr => hsame r (List.mem_cons_of_mem _ hr)
    -- after this iteration wrote a record for `t0.id`
    have after : ∀ (s1 : State) (t1 : Task) (o1 : Out), s1.tasks = putTask s.tasks t1 → t1.id = t0.id →
        t1.inst = t0.inst + 1 → s1.lostRetracting w rest o1 = .ok (s', o') → t0.state = .retracting w →
        ∀ t' ∈ s'.tasks, ∀ x ∈ t0 :: rest, x.id = t'.id → x.state = .retracting w → x.inst < t'.inst := by
      intro s1 t1 o1 hs1 hid1 hinst hloop _ t' ht' x hx hxid hxs
      have hn1 : (taskIds s1.tasks).Nodup := by rw [hs1, taskIds_putTask]; exact hn
      have hrest1 : ∀ r ∈ rest, s1.task? r.id = some r := by
        intro r hr
        show findTask s1.tasks r.id = some r
        rw [hs1, findTask_putTask]
        have : r.id ≠ t1.id := fun e => hnd.1 (List.mem_map.mpr ⟨r, hr, e.trans hid1⟩)
        simp only [this, if_false]
        exact hrest r hr
      rcases List.mem_cons.mp hx with h1 | h1
      · subst h1
        obtain ⟨_, _, _, e, _⟩ := lostRetracting_fx (nw := True) (cr := True) _ _ _ _ _ _ hn1 hloop
        obtain ⟨y, hy, r⟩ := e t' ht'
        rw [hs1] at hy
        have : y = t1 := mem_putTask_id hy ((r.id.symm.trans hxid.symm).trans hid1.symm)
        subst this
        have := r.inst
        omega
      · exact ih _ _ hn1 hnd.2 hrest1 hloop t' ht' x h1 hxid hxs
    split at h
    · -- not Retracting from `w`: skipped
      rename_i hs
      intro t' ht' x hx hxid hxs
      rcases List.mem_cons.mp hx with h1 | h1
      · subst h1; exact absurd hxs hs
      · exact ih _ _ hn hnd.2 hrest h t' ht' x h1 hxid hxs
    · rename_i hs
      simp only [ne_eq, Decidable.not_not] at hs
      split at h
      · rename_i target rv hrd
        exact after (State.setTask { s with redirects := s.redirects.filter (·.1 ≠ t0.id) }
          { t0 with inst := t0.inst + 1, state := .assigned target rv }) _ _ rfl rfl rfl h hs
      · exact after (s.setTask { t0 with inst := t0.inst + 1, state := .waiting 0 }) _ _ rfl rfl rfl h hs



/-- **every task that comes back from a lost worker gets a strictly larger instance id** -/
theorem removeWorker_bumped {s s' : State} {w : Nat} {reason : String} {f : Bool} {order : List TaskId}
    {rets : List (List TaskId)} {o : Out} (hi : InvF s)
    (h : s.removeWorker w reason f order rets = .ok (s', o)) {id : TaskId} {t t' : Task}
    (ht : s.task? id = some t) (ht' : s'.task? id = some t')
    (hst : (∃ v, t.state = .assigned w v) ∨ (∃ v, t.state = .running w v) ∨ t.state = .prefilled w ∨
      t.state = .retracting w ∨ (∃ others, t.state = .runningMN (w :: others))) : t.inst < t'.inst := by
  have hn := hi.inv.nd
  have hidt : t.id = id := findTask_some_id ht
  simp only [State.removeWorker] at h
  split at h
  · cases h
  · rename_i wk hw
    split at h
    · cases h
    · rename_i s1 running retracted hp1
      -- part 1: tasks held by the lost worker are bumped; a task Retracting from it and not held is untouched
      have e1 : Evo True True s s1 ∧ taskIds s1.tasks = taskIds s.tasks ∧
          (t.state ≠ .retracting w → ∀ x ∈ s1.tasks, x.id = id → t.inst < x.inst) ∧
          (t.state = .retracting w → (∀ x ∈ s1.tasks, x.id = id → t.inst < x.inst) ∨ findTask s1.tasks id = some t) := by
        clear h
        split at hp1
        · -- single-node worker
          rename_i A F P ha
          have hA : asgW s.workers w = A := by rw [asgW_of_find hw]; simp [wAsg, ha]
          split at hp1
          · cases hp1
          · rename_i hperm
            simp only [Bool.not_eq_false, Bool.and_eq_true, Bool.not_eq_eq_eq_not, Bool.not_true] at hperm
            have hAo : ∀ u, u ∈ A → u ∈ order := by
              have h1 : A.all order.contains = true := by
                have := hperm
                simp only [decide_eq_true_eq] at this
                exact this.1.2
              exact mem_of_all_contains h1
            split at hp1
            · cases hp1
            · rename_i sp hlp
              have a := lostPrefilled_evo (nw := True) (cr := True) _ _ _ hlp
              have b := lostAssigned_evo (nw := True) (cr := True) _ _ _ _ _ _ _ hp1
              have c := lostPrefilled_ids _ _ _ hlp
              have bumpP : id ∈ P → ∀ x ∈ s1.tasks, x.id = id → t.inst < x.inst := by
                intro hm x hx hxid
                obtain ⟨y, hy, r⟩ := b x hx
                obtain ⟨t0, ht0, e0, hlt⟩ := lostPrefilled_bumped P s { s with workers := s.workers.filter (·.id ≠ w) } sp (Evo.of_tasks rfl) hlp y hy
                  (by rw [← r.id, hxid]; exact hm)
                have := mem_find_of_nodup hn ht0
                rw [e0, ← r.id, hxid] at this
                have e : some t0 = some t := this.symm.trans ht
                cases e
                exact Nat.lt_of_lt_of_le hlt r.inst
              have bumpA : id ∈ order → ∀ x ∈ s1.tasks, x.id = id → t.inst < x.inst := by
                intro hm x hx hxid
                obtain ⟨t0, ht0, e0, hlt⟩ := lostAssigned_bumped _ s _ _ _ _ _ _ a hp1 x hx (by rw [hxid]; exact hm)
                have := mem_find_of_nodup hn ht0
                rw [e0, hxid] at this
                have e : some t0 = some t := this.symm.trans ht
                cases e
                exact hlt
              refine ⟨a.trans b, (lostAssigned_ids _ _ _ _ _ _ _ hp1).trans c, ?_, ?_⟩
              · intro hnr
                rcases hst with ⟨v, hs⟩ | ⟨v, hs⟩ | hs | hs | ⟨others, hs⟩
                · obtain ⟨wk', A', F', P', hw', ha', hm⟩ := hi.assigned_complete ht (Or.inl hs)
                  rw [hw] at hw'; cases hw'; rw [ha] at ha'; cases ha'
                  exact bumpA (hAo _ hm)
                · obtain ⟨wk', A', F', P', hw', ha', hm⟩ := hi.assigned_complete ht (Or.inr hs)
                  rw [hw] at hw'; cases hw'; rw [ha] at ha'; cases ha'
                  exact bumpA (hAo _ hm)
                · obtain ⟨wk', A', F', P', hw', ha', hm⟩ := hi.prefilled_complete ht hs
                  rw [hw] at hw'; cases hw'; rw [ha] at ha'; cases ha'
                  exact bumpP hm
                · exact absurd hs hnr
                · obtain ⟨wk', root, st, hw', ha'⟩ := hi.mn_complete ht hs (x := w) List.mem_cons_self
                  rw [hw] at hw'; cases hw'; rw [ha] at ha'; cases ha'
              · intro _
                by_cases hP : id ∈ P
                · exact Or.inl (bumpP hP)
                · by_cases hO : id ∈ order
                  · exact Or.inl (bumpA hO)
                  · right
                    rw [lostAssigned_frame _ _ _ _ _ _ _ hp1 id hO]
                    have := lostPrefilled_frame _ _ _ hlp id hP
                    rw [this]; exact ht
        · -- multi-node worker
          rename_i tid root started ha
          split at hp1
          · cases hp1
          · rename_i task htk
            have htk' : s.task? tid = some task := getTask_ok htk
            -- a task Assigned / Running / Prefilled on `w` would need a single-node assignment
            have notsn : ∀ {A F P}, wk.assign = .sn A F P → False := fun h' => by rw [ha] at h'; cases h'
            split at hp1
            · rename_i ws hs
              split at hp1
              · rename_i rootw others
                split at hp1
                · rename_i hroot
                  split at hp1
                  · cases hp1
                  · rename_i sr hr
                    split at hp1
                    · cases hp1
                    · rename_i s3 r h3
                      cases hp1
                      have hts : sr.tasks = s.tasks := by have := resetMnAll_tasks _ _ _ hr; exact this
                      have e : Evo True True s (sr.setTask { task with state := .waiting 0, inst := task.inst + 1 }) :=
                        Evo.set hts htk' (TRel.bump task _ (by simp))
                      have hs1 : s1.tasks = putTask s.tasks { task with state := .waiting 0, inst := task.inst + 1 } := by
                        rw [addReady_tasks h3]; show putTask sr.tasks _ = _; rw [hts]
                      have bump : id = tid → ∀ x ∈ s1.tasks, x.id = id → t.inst < x.inst := by
                        intro hid x hx hxid
                        subst hid
                        have e0 : some task = some t := htk'.symm.trans ht
                        cases e0
                        rw [hs1] at hx
                        have := mem_putTask_id hx (hxid.trans hidt.symm)
                        subst this
                        exact Nat.lt_succ_self _
                      have frame : id ≠ tid → findTask s1.tasks id = some t := by
                        intro hne
                        rw [hs1, findTask_putTask]
                        have : id ≠ task.id := fun e => hne (e.trans (findTask_some_id htk'))
                        simp only [this, if_false]; exact ht
                      refine ⟨e.trans (Evo.of_tasks (addReady_tasks h3)), ?_, ?_, ?_⟩
                      · rw [hs1, taskIds_putTask]
                      · intro hnr
                        rcases hst with ⟨v, hs'⟩ | ⟨v, hs'⟩ | hs' | hs' | ⟨others', hs'⟩
                        · obtain ⟨wk', A', F', P', hw', ha', _⟩ := hi.assigned_complete ht (Or.inl hs')
                          rw [hw] at hw'; cases hw'; exact (notsn ha').elim
                        · obtain ⟨wk', A', F', P', hw', ha', _⟩ := hi.assigned_complete ht (Or.inr hs')
                          rw [hw] at hw'; cases hw'; exact (notsn ha').elim
                        · obtain ⟨wk', A', F', P', hw', ha', _⟩ := hi.prefilled_complete ht hs'
                          rw [hw] at hw'; cases hw'; exact (notsn ha').elim
                        · exact absurd hs' hnr
                        · obtain ⟨wk', root', st', hw', ha'⟩ := hi.mn_complete ht hs' (x := w) List.mem_cons_self
                          rw [hw] at hw'; cases hw'; rw [ha] at ha'; cases ha'
                          exact bump rfl
                      · intro hrt
                        by_cases hid : id = tid
                        · exact Or.inl (bump hid)
                        · exact Or.inr (frame hid)
                · -- `w` is not the root
                  rename_i hroot
                  cases hp1
                  have hs1 : ∀ x, x ≠ tid → findTask (State.setTask { s with workers := s.workers.filter (·.id ≠ w) }
                      { task with state := .runningMN ((rootw :: others).filter (· ≠ w)) }).tasks x = findTask s.tasks x := by
                    intro x hx
                    show findTask (putTask s.tasks _) x = _
                    rw [findTask_putTask]
                    have : x ≠ task.id := fun e => hx (e.trans (findTask_some_id htk'))
                    simp [this]
                  refine ⟨Evo.set (s := { s with workers := _ }) rfl htk'
                    (TRel.filterMN task hs hroot), setTask_ids _ _, ?_, ?_⟩
                  · intro hnr
                    rcases hst with ⟨v, hs'⟩ | ⟨v, hs'⟩ | hs' | hs' | ⟨others', hs'⟩
                    · obtain ⟨wk', A', F', P', hw', ha', _⟩ := hi.assigned_complete ht (Or.inl hs')
                      rw [hw] at hw'; cases hw'; exact (notsn ha').elim
                    · obtain ⟨wk', A', F', P', hw', ha', _⟩ := hi.assigned_complete ht (Or.inr hs')
                      rw [hw] at hw'; cases hw'; exact (notsn ha').elim
                    · obtain ⟨wk', A', F', P', hw', ha', _⟩ := hi.prefilled_complete ht hs'
                      rw [hw] at hw'; cases hw'; exact (notsn ha').elim
                    · exact absurd hs' hnr
                    · exfalso
                      obtain ⟨wk', root', st', hw', ha'⟩ := hi.mn_complete ht hs' (x := w) List.mem_cons_self
                      rw [hw] at hw'; cases hw'; rw [ha] at ha'; cases ha'
                      have e0 : some task = some t := htk'.symm.trans ht
                      cases e0
                      rw [hs] at hs'; cases hs'
                      exact hroot rfl
                  · intro hrt
                    right
                    have hne : id ≠ tid := by
                      intro e; subst e
                      have e0 : some task = some t := htk'.symm.trans ht
                      cases e0
                      rw [hs] at hrt; cases hrt
                    rw [hs1 id hne]; exact ht
              · cases hp1
            · cases hp1
      obtain ⟨ev1, ids1, hnr, hrt⟩ := e1
      have hn1 : (taskIds s1.tasks).Nodup := ids1 ▸ hn
      split at h
      · cases h
      · rename_i s2 out1 h2
        obtain ⟨l, a2, b2, e2, t2⟩ := lostRetracting_fx (nw := True) (cr := True) _ _ _ _ _ _ hn1 h2
        split at h
        · cases h
        · rename_i s3 out2 h3
          obtain ⟨e3, a3, b3⟩ := retract_evo (nw := True) (cr := False) h3
          split at h
          · cases h
          · rename_i s4 out h4
            cases h
            obtain ⟨e4, _, _⟩ := crashLoop_evo (nw := True) _ _ _ _ _ _ _ h4
            -- from `s2` on the instance id only grows
            have tail : Evo True False s2 s4 := e3.trans (e4.mono (fun x => x) (fun f => f.elim))
            have hm' : t' ∈ s4.tasks := findTask_some_mem ht'
            obtain ⟨x2, hx2, r2⟩ := tail t' hm'
            have hx2id : x2.id = id := r2.id.symm.trans (findTask_some_id ht')
            -- the bound at `s2`
            have key : t.inst < x2.inst := by
              have viaS1 : (∀ x ∈ s1.tasks, x.id = id → t.inst < x.inst) → t.inst < x2.inst := by
                intro hb
                obtain ⟨x1, hx1, r1⟩ := e2 x2 hx2
                exact Nat.lt_of_lt_of_le (hb x1 hx1 (r1.id.symm.trans hx2id)) r1.inst
              by_cases hr : t.state = .retracting w
              · rcases hrt hr with hb | hfr
                · exact viaS1 hb
                · exact lostRetracting_bumped _ _ _ _ _ _ hn1 (by exact hn1)
                    (fun t0 ht0 => mem_find_of_nodup hn1 ht0) h2 x2 hx2 t (findTask_some_mem hfr)
                    (hidt.trans hx2id.symm) hr
              · exact viaS1 (hnr hr)
            exact Nat.lt_of_lt_of_le key r2.inst


end HqModel.Core
