import HqModel.Lemmas.SysWStep4
/-!
C09 compose, Stage 4b — the CORE side of the strengthened pipeline invariant: which tasks are `Running` on a worker
after a reactor / scheduler function, and that no `ComputeTasks` item is sent for a task that is Running.

* `NPP.RunKeep c c' w t cm` — a task `t` that is Running on `w` in `c'` was Running on `w` (same variant) in `c`, and
  the `ComputeTasks` items `cm` sent to `w` for `t` are none;
* `runBack_of_fr` — from the frame `Fr` of `Lemmas/SysCoreFrame*.lean` (`stOk`: Running only if Running in the same
  place before): every function except `task_running` / `on_new_tasks`;
* `*_runkeep` — `on_new_tasks`, `on_cancel_tasks`, a scheduling round, `on_remove_worker` (surviving workers),
  `on_retract_response`, one update of a `TaskUpdate` (`upd1_runkeep`; for the reported task of a `Running` update
  the new Running state comes from an Assigned / Prefilled / Retracting one AT THE REPORTER: `RunOwn`).
-/
namespace HqModel.SysW.NPP
open HqModel HqModel.Core

/-- a task Running on `w` afterwards was Running on `w` before, and nothing was sent to `w` for it -/
def RunKeep (c c' : Core.State) (w : Nat) (t : TaskId) (cm : List (Option Nat)) : Prop :=
  ∀ rv, stOf c'.tasks t = some (.running w rv) → stOf c.tasks t = some (.running w rv) ∧ cm = []

/-- the same for the head event `e` of the reporter's own stream about `t`: or `e` is a `run` that finds the task
Assigned to / Prefilled on / Retracting from the reporter -/
def RunOwn (e : Ev) (c c' : Core.State) (w : Nat) (t : TaskId) (cm : List (Option Nat)) : Prop :=
  ∀ rv, stOf c'.tasks t = some (.running w rv) →
    ((∃ rv0, stOf c.tasks t = some (.running w rv0)) ∧ cm = []) ∨
    ((∃ rv0, e = .run rv0) ∧ (view c w t = .pre ∨ ∃ rv0, view c w t = .asg rv0) ∧ cm = [])

theorem RunKeep.refl (c : Core.State) (w : Nat) (t : TaskId) : RunKeep c c w t [] := fun _ h => ⟨h, rfl⟩

theorem RunKeep.congr {c c' c'' : Core.State} {w : Nat} {t : TaskId} {cm : List (Option Nat)} (h : RunKeep c c' w t cm)
    (e : c''.tasks = c'.tasks) : RunKeep c c'' w t cm := fun rv hr => h rv (by rw [← e]; exact hr)

/-- the frame of `Lemmas/SysCoreFrame*.lean`: Running afterwards ⇒ Running in the same place before -/
theorem runBack_of_fr {P : Prop} {c c' : Core.State} (f : Fr P c c') (hn : (taskIds c.tasks).Nodup) {t : TaskId}
    {w rv : Nat} (h : stOf c'.tasks t = some (.running w rv)) : stOf c.tasks t = some (.running w rv) := by
  obtain ⟨st, hs, hk⟩ := f.t.stOf hn h
  simp only [stOk] at hk
  subst hk
  exact hs

theorem runKeep_of_fr {P : Prop} {c c' : Core.State} (f : Fr P c c') (hn : (taskIds c.tasks).Nodup) {w : Nat} {t : TaskId}
    {cm : List (Option Nat)} (hcm : ∀ rv, stOf c.tasks t = some (.running w rv) → cm = []) : RunKeep c c' w t cm :=
  fun rv hr => ⟨runBack_of_fr f hn hr, hcm rv (runBack_of_fr f hn hr)⟩

/-! ### `on_new_tasks`, `on_cancel_tasks` -/

theorem newTasks_runback {c c' : Core.State} {nts : List NewTask} {o : Core.Out} (hn : (taskIds c.tasks).Nodup)
    (h : c.newTasks nts = .ok (c', o)) {t : TaskId} {w rv : Nat} (hr : stOf c'.tasks t = some (.running w rv)) :
    stOf c.tasks t = some (.running w rv) := by
  simp only [State.newTasks] at h
  split at h
  · cases h
  · split at h
    · cases h
    · rename_i s1 retracted h1
      split at h
      · cases h
      · rename_i s2 out hr2
        cases h
        have hn1 := addNewTasks_nodup _ _ _ _ _ hn h1
        obtain ⟨_, hd⟩ := addNewTasks_desc _ _ _ _ _ h1
        have h1' : stOf s1.tasks t = some (.running w rv) := runBack_of_fr (retract_frc hr2) hn1 hr
        obtain ⟨task1, hf1, hst1⟩ := stOf_some h1'
        rcases hd task1 (findTask_some_mem hf1) with ⟨t0, ht0, a, b⟩ | ⟨_, n, b⟩
        · have := stOf_of_mem hn ht0
          rw [← a, findTask_some_id hf1, ← b, hst1] at this
          exact this
        · rw [hst1] at b; cases b

theorem newTasks_runkeep {c c' : Core.State} {nts : List NewTask} {o : Core.Out} (hn : (taskIds c.tasks).Nodup)
    (h : c.newTasks nts = .ok (c', o)) (w : Nat) (t : TaskId) : RunKeep c c' w t (cfor w t o.msgs) :=
  fun _ hr => ⟨newTasks_runback hn h hr, cfor_noCompute (newTasks_noCompute h)⟩

theorem cancelTasks_runkeep {c c' : Core.State} {ids : List TaskId} {o : Core.Out} (hn : (taskIds c.tasks).Nodup)
    (h : c.cancelTasks ids = .ok (c', o)) (w : Nat) (t : TaskId) : RunKeep c c' w t (cfor w t o.msgs) :=
  runKeep_of_fr (cancelTasks_frc h) hn (fun _ _ => cfor_noCompute (cancelTasks_noCompute h))

/-! ### `on_retract_response` -/

theorem retractResponse_runkeep {c c' : Core.State} {w0 : Nat} {ids : List TaskId} {o : Core.Out}
    (hn : (taskIds c.tasks).Nodup) (h : c.retractResponse w0 ids = .ok (c', o)) (w : Nat) (t : TaskId) :
    RunKeep c c' w t (cfor w t o.msgs) := by
  refine runKeep_of_fr (retractResponse_frc h) hn (fun rv hs => ?_)
  simp only [State.retractResponse] at h
  split at h
  · cases h
  · rename_i s1 items h1
    split at h
    · cases h
    · rename_i msgs hg
      simp only [Except.ok.injEq, Prod.mk.injEq] at h
      obtain ⟨_, rfl⟩ := h
      obtain ⟨new, e1, _, hall⟩ := retractLoop_spec w0 ids c s1 [] items h1
      simp only [List.nil_append] at e1
      subst e1
      obtain ⟨g0, _⟩ := groupCompute_cfor w t hg
      rcases hall t with ⟨_, b⟩ | ⟨_, a, _⟩ | ⟨_, _, _, a, _⟩
      · exact g0 b
      · rw [hs] at a; cases a
      · rw [hs] at a; cases a

/-! ### a scheduling round -/

/-- a scheduling round sends `ComputeTasks` items only for tasks it took from Waiting (the bookkeeping `SI` of
`Lemmas/SysWSched*.lean`; the assembly is the one of `schedule_views`) -/
theorem schedule_noitems {c c' : Core.State} {sol : Solution} {o : Core.Out} (h : c.schedule sol = .ok (c', o))
    {t : TaskId} {st0 : TS} (hs0 : stOf c.tasks t = some st0) (hw : ∀ n, st0 ≠ .waiting n) (w : Nat) :
    cfor w t o.msgs = [] := by
  simp only [State.schedule] at h
  split at h
  · cases h
  · rename_i s1 m1 h1
    obtain ⟨i1, p1⟩ := mapSn_si _ c _ _ _ _ _ [] (SI.init c) (fun _ hu => by cases hu) h1
    split at h
    · cases h
    · rename_i s2 mnTasks h2
      obtain ⟨i1', _⟩ := sort_si (fun id => match s1.task? id with | some t => t.prio | none => 0) i1 p1
      have i2 := mapMn_si _ c _ _ _ _ _ i1' h2
      split at h
      · cases h
      · rename_i s3 m3 h3
        have i3 : SI c s3 m3 mnTasks := by
          split at h3
          · cases h3; exact i2
          · exact proactive_si _ c _ _ _ _ _ _ _ _ i2 h3
        split at h
        · cases h
        · rename_i msgs hmsgs
          split at h
          · cases h
          · rename_i mm hmm
            simp only [Except.ok.injEq, Prod.mk.injEq] at h
            obtain ⟨_, eo⟩ := h
            have hmn2 : cfor w t mm = mnTasks.flatMap fun id => if id = t then mnItem s3 w t else [] :=
              (mnMsgs_cfor s3 w t _ _ hmm).2
            have hitems : cfor w t o.msgs =
                (pItems m3 w t).map (fun _ => none) ++ (aItems m3 w t).map some ++
                (List.replicate (mnTasks.count t) (mnItem s3 w t)).flatten := by
              rw [← eo]
              show cfor w t (msgs ++ mm) = _
              rw [cfor_append, msgsOfAll_cfor s3 w t _ _ hmsgs, hmn2, flatMap_count]
              congr 1
              show items (fun u => (selP t u).map (fun _ => none) ++ (selA t u).map some) m3 w = _
              rw [items_split _ _ i3.nd, items_map, items_map]
              rfl
            have hT := i3.t t
            rw [hs0] at hT
            have hno : NoIt (fun w => aItems m3 w t) (fun w => pItems m3 w t) (mnTasks.count t) := by
              cases st0 with
              | waiting n => exact absurd rfl (hw n)
              | assigned x y => exact hT.1
              | prefilled x => exact hT.1
              | retracting x => exact hT.1
              | running x y => exact hT.1
              | runningMN l => exact hT.1
              | finished => exact hT.1
            obtain ⟨a, b, k⟩ := hno
            have a' : aItems m3 w t = [] := a w
            have b' : pItems m3 w t = [] := b w
            rw [hitems, a', b', k]; rfl

theorem schedule_runkeep {c c' : Core.State} {sol : Solution} {o : Core.Out} (hn : (taskIds c.tasks).Nodup)
    (h : c.schedule sol = .ok (c', o)) (w : Nat) (t : TaskId) : RunKeep c c' w t (cfor w t o.msgs) :=
  runKeep_of_fr (schedule_frs h) hn (fun _ hs => schedule_noitems h hs (fun n e => by cases e) w)

/-! ### `on_remove_worker`, for a surviving worker -/

theorem removeWorker_runkeep {c c' : Core.State} {w0 : Nat} {reason : String} {f : Bool} {order : List TaskId}
    {rets : List (List TaskId)} {o : Core.Out} (hi : Inv c)
    (h : c.removeWorker w0 reason f order rets = .ok (c', o)) (w : Nat) (hw : w ≠ w0) (t : TaskId) :
    RunKeep c c' w t (cfor w t o.msgs) := by
  have hn : (taskIds c.tasks).Nodup := hi.nd
  refine runKeep_of_fr (removeWorker_frc h) hn (fun rv hs => ?_)
  obtain ⟨s1, s2, s3, s4, running, retracted, out1, out2, fA, h2, h3, h4, rfl, e1⟩ := removeWorker_parts hi h
  obtain ⟨new, m1, _, hall⟩ := lostRetracting_spec w0 _ _ _ _ _ h2
  obtain ⟨extra, m4, nc4⟩ := crashLoop_msgs _ _ _ _ _ _ _ h4
  have hmsgs : cfor w t o.msgs = cfor w t new := by
    rw [m4]
    simp only [Out.add_msgs, m1, cfor_append]
    rw [cfor_noCompute (retract_noCompute h3), cfor_noCompute nc4]
    simp [cfor_nil]
  rw [hmsgs]
  -- the task stays Running on `w` through the first part: it is not being retracted from the lost worker
  have hne : stOf s1.tasks t ≠ some (.retracting w0) := by
    intro e
    obtain ⟨st0, h0, sok⟩ := tfrw_stOf fA.t hn e
    rw [hs] at h0
    cases h0
    have hrelM : ¬ (lostM w0).rel w t := hw
    have := sok.keep w rfl hrelM
    simp only [stays] at this
    cases this
  rcases hall t with ⟨_, b⟩ | ⟨a, _⟩ | ⟨_, _, a, _⟩
  · exact b w
  · exact (hne a).elim
  · exact (hne a).elim

/-! ### one update of a `TaskUpdate` message -/

/-- `task_running` succeeds only for an unknown task, a task Assigned to the reporter with the reported variant,
Prefilled on / Retracting from the reporter, or a multi-node task (which stays multi-node) -/
theorem taskRunning_pre {s s' : Core.State} {w : Nat} {id : TaskId} {rv : Nat} {o : Core.Out}
    (h : s.taskRunning w id rv = .ok (s', o)) :
    stOf s.tasks id = none ∨ stOf s.tasks id = some (.assigned w rv) ∨ stOf s.tasks id = some (.prefilled w) ∨
    stOf s.tasks id = some (.retracting w) ∨
    ∃ l, stOf s.tasks id = some (.runningMN l) ∧ stOf s'.tasks id = some (.runningMN l) := by
  simp only [State.taskRunning] at h
  split at h
  · rename_i hno; exact .inl (stOf_none_of_task? hno)
  · rename_i task ht
    right
    have hst : stOf s.tasks id = some task.state := stOf_of_find ht
    split at h
    · rename_i w' rv' hs
      split at h
      · cases h
      · rename_i hw
        have hw : w' = w := Classical.not_not.mp hw
        split at h
        · cases h
        · rename_i hv
          have hv : rv' = rv := Classical.not_not.mp hv
          exact .inl (by rw [hst, hs, hw, hv])
    · rename_i w' hs
      split at h
      · cases h
      · rename_i hw
        have hw : w' = w := Classical.not_not.mp hw
        exact .inr (.inl (by rw [hst, hs, hw]))
    · rename_i w' hs
      split at h
      · cases h
      · rename_i hw
        have hw : w' = w := Classical.not_not.mp hw
        exact .inr (.inr (.inl (by rw [hst, hs, hw])))
    · rename_i ws hs
      split at h
      · rename_i root rest
        split at h
        · cases h
        · split at h
          · cases h
          · rename_i s1 hww
            cases h
            refine .inr (.inr (.inr ⟨_, by rw [hst, hs], ?_⟩))
            rw [withWorker_tasks hww, hst, hs]
      · cases h
    all_goals cases h

/-- the `Running` / `RunningPrefilled` update -/
theorem upd1_runkeep_running {c c1 : Core.State} {w : Nat} {t0 : TaskId} {rv0 : Nat} {o1 : Core.Out}
    (hn : (taskIds c.tasks).Nodup) (hm : MnOk c) (h1 : c.taskRunning w t0 rv0 = .ok (c1, o1)) :
    (∀ w' t, (w' ≠ w ∨ evsOfUpd t (.running t0 rv0) = []) → RunKeep c c1 w' t (cfor w' t o1.msgs)) ∧
    (∀ t e, evsOfUpd t (.running t0 rv0) = [e] → RunOwn e c c1 w t (cfor w t o1.msgs)) := by
  have nm := taskRunning_msgs h1
  have pre := taskRunning_pre h1
  -- every other task: the frame of `task_running`
  have other : ∀ t, t ≠ t0 → ∀ w' rv, stOf c1.tasks t = some (.running w' rv) → stOf c.tasks t = some (.running w' rv) := by
    intro t ht w' rv hr
    have hmn : ∀ l, stOf c.tasks t0 = some (.runningMN l) → ∀ x ∈ l, mnW c.workers x = some t0 := by
      intro l hl x hx
      obtain ⟨wk, r, st, hw, ha⟩ := hm t0 l hl x hx
      rw [mnW_of_find hw]; simp [wMn, ha]
    rcases taskRunning_spec hmn h1 with ⟨_, e, _⟩ | ⟨task, ws, _, _, fx⟩
    · rw [e] at hr; exact hr
    · obtain ⟨task', hf, hst⟩ := stOf_some hr
      obtain ⟨task0, hm0, r⟩ := fx.t task' (findTask_some_mem hf)
      have hid := findTask_some_id hf
      have h0 := stOf_of_mem hn hm0
      rw [← r.id, hid] at h0
      rcases r.st with e | e
      · exact absurd (hid.symm.trans e) ht
      · rw [hst] at e
        simp only [stOk] at e
        rw [h0, e]
  -- the reported task: Running afterwards ⇒ Assigned / Prefilled / Retracting at the reporter before
  have self : ∀ w' rv, stOf c1.tasks t0 = some (.running w' rv) →
      w' = w ∧ (view c w t0 = .pre ∨ ∃ rv0, view c w t0 = .asg rv0) := by
    intro w' rv hr
    have hw' : w' = w := by
      rcases taskRunning_own hm h1 with ⟨h0, e⟩ | ⟨st, _, _, h2 | ⟨l, h2, _⟩⟩
      · rw [e, h0] at hr; cases hr
      · rw [hr] at h2; cases h2; rfl
      · rw [hr] at h2; cases h2
    refine ⟨hw', ?_⟩
    rcases pre with h0 | h0 | h0 | h0 | ⟨l, _, h0⟩
    · rcases taskRunning_own hm h1 with ⟨_, e⟩ | ⟨st, hst, _⟩
      · rw [e, h0] at hr; cases hr
      · rw [h0] at hst; cases hst
    · exact .inr ⟨rv0, by rw [view_some h0]; simp [viewSt]⟩
    · exact .inl (by rw [view_some h0]; simp [viewSt])
    · exact .inl (by rw [view_some h0]; simp [viewSt])
    · rw [hr] at h0; cases h0
  constructor
  · intro w' t hc rv hr
    rw [nm, cfor_nil]
    by_cases ht : t = t0
    · subst ht
      have hw' : w' ≠ w := by
        rcases hc with hc | hc
        · exact hc
        · simp [evsOfUpd] at hc
      exact absurd (self w' rv hr).1 hw'
    · exact ⟨other t ht w' rv hr, rfl⟩
  · intro t e he rv hr
    simp only [evsOfUpd] at he
    split at he
    · rename_i ht
      subst ht
      cases he
      rw [nm, cfor_nil]
      exact .inr ⟨⟨rv0, rfl⟩, (self w rv hr).2, rfl⟩
    · cases he

theorem upd1_runkeep {c c1 : Core.State} {w : Nat} {u : Core.Update} {rets rets1 : List (List TaskId)} {o1 : Core.Out}
    (hn : (taskIds c.tasks).Nodup) (hm : MnOk c)
    (hq : ∀ t e, evsOfUpd t u = [e] → view c w t ≠ .quiet)
    (h : c.upd1 w u rets = .ok (c1, o1, rets1)) :
    (∀ w' t, (w' ≠ w ∨ evsOfUpd t u = []) → RunKeep c c1 w' t (cfor w' t o1.msgs)) ∧
    (∀ t e, evsOfUpd t u = [e] → RunOwn e c c1 w t (cfor w t o1.msgs)) := by
  -- the generic case: a framed function that sends nothing for Running tasks
  have gen : ∀ {P : Prop}, Fr P c c1 → (∀ w' t rv, stOf c.tasks t = some (.running w' rv) → cfor w' t o1.msgs = []) →
      (∀ w' t, RunKeep c c1 w' t (cfor w' t o1.msgs)) ∧
      (∀ t e, RunOwn e c c1 w t (cfor w t o1.msgs)) := by
    intro P f hc
    refine ⟨fun w' t => runKeep_of_fr f hn (hc w' t), fun t e rv hr => .inl ?_⟩
    have := runBack_of_fr f hn hr
    exact ⟨⟨rv, this⟩, hc w t rv this⟩
  cases u with
  | finished t0 =>
    simp only [State.upd1] at h
    split at h
    · cases h
    · rename_i s1 o b h1
      cases h
      obtain ⟨g1, g2⟩ := gen (taskFinished_frc h1) (fun _ _ _ _ => cfor_noCompute (taskFinished_noCompute h1))
      exact ⟨fun w' t _ => g1 w' t, fun t e _ => g2 t e⟩
  | failed t0 =>
    simp only [State.upd1] at h
    split at h
    · cases h
    · rename_i s1 o h1
      cases h
      obtain ⟨g1, g2⟩ := gen (taskFailed_frc h1) (fun _ _ _ _ => cfor_noCompute (taskFailed_noCompute h1))
      exact ⟨fun w' t _ => g1 w' t, fun t e _ => g2 t e⟩
  | enable rq rv =>
    simp only [State.upd1] at h
    split at h
    · cases h
    · rename_i s1 h1
      cases h
      obtain ⟨g1, g2⟩ := gen (P := False) (requestEnabled_frc h1) (fun _ _ _ _ => rfl)
      exact ⟨fun w' t _ => g1 w' t, fun t e _ => g2 t e⟩
  | reject t0 orv =>
    simp only [State.upd1] at h
    split at h
    · cases h
    · rename_i s1 o b h1
      cases h
      have hv : view c w t0 ≠ .quiet := hq t0 (.rej orv) (by simp [evsOfUpd])
      have hown : ∀ st, stOf c.tasks t0 = some st → owner st = some w := by
        intro st hs
        rw [view_some hs] at hv
        exact owner_of_viewSt_ne_quiet hv
      have own := taskReject_own hn hm hown h1
      obtain ⟨g1, g2⟩ := gen (taskReject_frc h1) (by
        intro w' t rv hs
        rcases own with ⟨_, _, e, _⟩ | ⟨st, h0, ⟨hnh, nc, _⟩ | ⟨target, trv, inst, hst, _, e⟩ | ⟨_, _, _, e⟩⟩
        · rw [e]; rfl
        · exact cfor_noCompute nc
        · rw [e, cfor_single]
          by_cases ht : t0 = t
          · subst ht
            rw [hs] at h0; cases h0; cases hst
          · simp [ht]
        · rw [e]; rfl)
      exact ⟨fun w' t _ => g1 w' t, fun t e _ => g2 t e⟩
  | running t0 rv0 =>
    simp only [State.upd1] at h
    split at h
    · cases h
    · rename_i s1 o h1
      cases h
      exact upd1_runkeep_running hn hm h1
  | runningPrefilled t0 rv0 =>
    simp only [State.upd1] at h
    split at h
    · cases h
    · rename_i s1 o h1
      cases h
      have := upd1_runkeep_running hn hm h1
      exact ⟨fun w' t hc => this.1 w' t (by simpa [evsOfUpd] using hc), fun t e he => this.2 t e (by simpa [evsOfUpd] using he)⟩

end HqModel.SysW.NPP
