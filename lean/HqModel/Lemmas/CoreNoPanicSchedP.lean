import HqModel.Lemmas.CoreNoPanicHead
import HqModel.Lemmas.CoreNoPanicQSched4
import HqModel.Lemmas.CoreNoPanicFrame7
/-!
C09 progress, the scheduling round (`State.schedule sol`), part 1: vocabulary, the single-node placements of one
`sn_counts` entry (`placeAll` over the dealt pairs) and the single-node half `mapSn`.

## Status list of the family `CoreNoPanicSchedP*.lean` (namespace `HqModel.Core.NPS`) — everything is proved, no gaps

Bundle carried through the round: `Bd s0 s` = `Inv s`, `TWI noD s`, `Trk s0 s` (so `s.rqs = s0.rqs`), `Np3 s`,
`NpQ noD [] s`, `QRq s` (`s0` = start of the round, `QueueOk s0` is a separate hypothesis). Every stage theorem takes
the bundle and gives `NoCorePanic`; the bundle after a stage comes from the existing preservation lemmas
(`*_inv`, `*_tw`, `*_fr`, `*_npq`), packaged as `*_bd` / `*_post`.

* `CoreNoPanicSchedP.lean` (this file):
  - `np_error_cast`; `SnW s x` (worker `x` exists, single-node assignment), `SnOp`, `SnW.withWorker`, `placeSnBody_snw`;
  - `Pl s i id` (a taken id: task of request `i`, Waiting / Retracting without redirect / Prefilled), `Pl.placeable`
    (⇒ `NP.Placeable`, via `TW3.t2`, `LS3.d1`), `Pl.not_assigned` (`LS3.a1`), `Pl.step` (`placeSnBody_frame`);
  - `PA s0 s i v r l` loop invariant of `placeAll`, `PA.np`, `PA.step`, **`placeAll_np`**;
  - `placementAllowed_snw`, `pl_of_queue`, `mapSn1_np` (one entry), `mapSn1_bd`;
  - **`mapSn_np : Bd s0 s → QueueOk s0 → SnOk now s m es → NoCorePanic (s.mapSn now m es)`**, `mapSn_bd`.
* `CoreNoPanicSchedP2.lean`: `IsMN s id` (+ `IsMN.fwd` along `SEvo`, `IsMN.cons` with `NpMn.ne`), `mapMnSets1_new`,
  `mapMnSets1_np`, `mapMnSets1_post`, **`mapMnSets_np`**, `mapMnSets_post`,
  **`mapMn_np : QueueOk s0 → (∀ e ∈ es, isMultiNodeRq s0.rqs e.rq = true) → Bd s0 s → MnEntriesOk s acc es →
  (∀ id ∈ acc, IsMN s id) → NoCorePanic (s.mapMn es acc)`**, `mapMn_post` (bundle + every id of the accumulator is
  RunningMultiNode).
* `CoreNoPanicSchedP3.lean`: `prefillBack_keep`, `prefillRest_ok`, **`prefillWorker_ok`** (`Inv s`, `NpQ noD [] s`,
  `HeadOk s rq p k`, `SnW s w` ⇒ `∃ r, s.prefillWorker m rq size w = .ok r`), `prefillMark_snw`, `prefillWorker_snw`,
  `prefillWorker_bd`.
* `CoreNoPanicSchedP4.lean`: `np_of_error`, `prefillWorkers_bd`, `prefillWorkers_np` (counting: `HeadOk s rq p
  (pfs * |remaining|)`), `headOk_of_top`, `snw_of_cand`,
  **`proactive_np : QueueOk s0 → Bd s0 s → MH s m → NoCorePanic (s.proactive m orders top n rq)`**,
  `mh_isSome`, **`messages_np`** (`NpMn s`, `MH s m`, accumulator ids `IsMN` ⇒ `msgsOfAll` and `mnMsgs` succeed),
  **`schedule_np : InvF s → QInv U none [] s → NpInv U [] s → SolMnOk s sol → SolOk s sol →
  NoCorePanic (s.schedule sol)`**.

Not finished: nothing. (`NpInv.deps` is not used by the round.)
-/
namespace HqModel.Core.NPS

open HqModel.Core.NP HqModel.Core.NPD HqModel.Core.NPA

/-! ### outcome helpers -/

theorem np_error_cast {α β : Type} {e : Stop} (h : NoCorePanic (Except.error e : M α)) :
    NoCorePanic (Except.error e : M β) := by
  intro site hs; cases hs; exact h site rfl

/-! ### the bundle -/

/-- what is carried through a scheduling round (`s0` = the state at the start of the round) -/
structure Bd (s0 s : State) : Prop where
  inv : Inv s
  tw : TWI noD s
  trk : Trk s0 s
  np3 : Np3 s
  q : NpQ noD [] s
  qrq : QRq s

theorem Bd.nd {s0 s : State} (h : Bd s0 s) : (taskIds s.tasks).Nodup := h.inv.nd

/-! ### single-node workers, forward -/

/-- worker `x` exists and is in a single-node assignment -/
def SnW (s : State) (x : Nat) : Prop := ∃ wk A F P, s.worker? x = some wk ∧ wk.assign = .sn A F P

theorem SnW.congr {s s' : State} {x : Nat} (hx : SnW s x) (h : s'.workers = s.workers) : SnW s' x := by
  obtain ⟨wk, A, F, P, a, b⟩ := hx
  exact ⟨wk, A, F, P, by rw [worker?_eq, h]; exact a, b⟩

/-- worker-record operations whose result is a single-node record -/
def SnOp (f : Worker → M Worker) : Prop := ∀ wk wk', f wk = .ok wk' → ∃ A F P, wk'.assign = .sn A F P

theorem snop_insertSn (t : TaskId) (r : Rq) : SnOp (·.insertSn t r) := by
  intro wk wk' h
  obtain ⟨A, F, P, F', _, _, _, rfl⟩ := insertSn_spec h
  exact ⟨_, _, _, rfl⟩

theorem snop_removeSn (t : TaskId) (r : Rq) : SnOp (·.removeSn t r) := by
  intro wk wk' h
  obtain ⟨A, F, P, F', _, _, _, rfl⟩ := removeSn_spec h
  exact ⟨_, _, _, rfl⟩

theorem snop_removePrefill (t : TaskId) : SnOp (·.removePrefill t) := by
  intro wk wk' h
  obtain ⟨A, F, P, _, _, rfl⟩ := removePrefill_spec h
  exact ⟨_, _, _, rfl⟩

theorem snop_insertPrefill (t : TaskId) : SnOp (·.insertPrefill t) := by
  intro wk wk' h
  obtain ⟨A, F, P, _, _, rfl⟩ := insertPrefill_spec h
  exact ⟨_, _, _, rfl⟩

theorem SnW.withWorker {s s' : State} {w : Nat} {f : Worker → M Worker} (hf : SnOp f)
    (h : s.withWorker w f = .ok s') {x : Nat} (hx : SnW s x) : SnW s' x := by
  obtain ⟨wk, wk', hfw, hfe, rfl⟩ := withWorker_spec h
  obtain ⟨wkx, A, F, P, a, b⟩ := hx
  by_cases e : x = wk'.id
  · obtain ⟨A', F', P', ha'⟩ := hf wk wk' hfe
    refine ⟨wk', A', F', P', ?_, ha'⟩
    show findWorker (putWorker s.workers wk') x = some wk'
    rw [findWorker_putWorker, if_pos e]
    have : findWorker s.workers x = some wkx := a
    rw [this]; rfl
  · refine ⟨wkx, A, F, P, ?_, b⟩
    show findWorker (putWorker s.workers wk') x = some wkx
    rw [findWorker_putWorker, if_neg e]
    exact a

theorem placeSnBody_snw {s s' : State} {m m' : List WUpdate} {v : Nat} {r : Rq} {id : TaskId} {w : Nat}
    (h : s.placeSnBody m v r id w = .ok (s', m')) {x : Nat} (hx : SnW s x) : SnW s' x := by
  simp only [State.placeSnBody] at h
  split at h
  · cases h
  · rename_i s1 hw1
    have h1 : SnW s1 x := SnW.withWorker (snop_insertSn _ _) hw1 hx
    split at h
    · cases h
    · rename_i task hgt
      split at h
      · cases h; exact h1.congr rfl
      · split at h
        · split at h
          · cases h
          · split at h
            · cases h
            · rename_i s3 hw2
              cases h
              exact (SnW.withWorker (snop_removeSn _ _) hw2 (h1.congr rfl)).congr rfl
        · cases h; exact h1.congr rfl
      · split at h
        · cases h
        · rename_i s2 hw2
          split at h
          · cases h
          · cases h; exact (SnW.withWorker (snop_removePrefill _) hw2 h1).congr rfl
      · cases h

/-! ### what a taken id is when it is placed -/

/-- the id is a task of request `i` that is Waiting, Retracting without a redirect, or Prefilled -/
def Pl (s : State) (i : Nat) (id : TaskId) : Prop :=
  ∃ task, s.task? id = some task ∧ task.rq = i ∧
    ((∃ n, task.state = .waiting n) ∨ ((∃ old, task.state = .retracting old) ∧ ∀ x ∈ s.redirects, x.1 ≠ id) ∨
     (∃ old, task.state = .prefilled old))

theorem Pl.placeable {s : State} {i : Nat} {id : TaskId} (hi : Inv s) (htw : TWI noD s) (h : Pl s i id) :
    ∃ task, s.task? id = some task ∧ Placeable s id task := by
  obtain ⟨task, ht, _, hs⟩ := h
  refine ⟨task, ht, ?_⟩
  rcases hs with a | ⟨a, b⟩ | ⟨old, a⟩
  · exact Or.inl a
  · refine Or.inr (Or.inl ⟨a, ?_⟩)
    rw [List.find?_eq_none]
    intro x hx
    simpa using b x hx
  · refine Or.inr (Or.inr ?_)
    have hst : stOf s.tasks id = some (.prefilled old) := by rw [stOf_of_find ht, a]
    obtain ⟨wk, A, F, P, hfw, ha, hm⟩ := mem_preW_elim (htw.tw.t2 id old (fun e => e) hst)
    refine ⟨old, wk, A, F, P, a, hfw, ha, hm, ?_⟩
    rw [List.any_eq_false]
    intro x hx e
    simp only [decide_eq_true_eq] at e
    obtain ⟨x1, x2, x3⟩ := x
    simp only at e; subst e
    obtain ⟨w0, h0⟩ := hi.ls.d1 _ _ _ hx
    rw [hst] at h0; cases h0

theorem Pl.not_assigned {s : State} {i : Nat} {id : TaskId} (hi : Inv s) (h : Pl s i id) (w : Nat) :
    id ∉ asgW s.workers w := by
  intro hm
  obtain ⟨task, ht, _, hs⟩ := h
  obtain ⟨st, h1, h2⟩ := hi.ls.a1 w id hm
  rw [stOf_of_find ht] at h1
  cases h1
  rcases hs with ⟨n, a⟩ | ⟨⟨old, a⟩, b⟩ | ⟨old, a⟩
  · rw [a] at h2; exact h2
  · rw [a] at h2
    obtain ⟨v, hv⟩ := h2
    exact b _ hv rfl
  · rw [a] at h2; exact h2

theorem Pl.step {s s' : State} {m m' : List WUpdate} {v : Nat} {r : Rq} {id : TaskId} {w i : Nat}
    (hb : s.placeSnBody m v r id w = .ok (s', m')) {x : TaskId} (hne : x ≠ id) (hp : Pl s i x) : Pl s' i x := by
  obtain ⟨_, hts, _, hrd⟩ := placeSnBody_frame hb
  obtain ⟨task, ht, hrq, hs⟩ := hp
  refine ⟨task, (hts x hne).trans ht, hrq, ?_⟩
  rcases hs with a | ⟨a, b⟩ | a
  · exact Or.inl a
  · refine Or.inr (Or.inl ⟨a, ?_⟩)
    intro y hy e
    exact b y (hrd y hy (by rw [e]; exact hne)) e
  · exact Or.inr (Or.inr a)

/-! ### the loop invariant of `placeAll` -/

/-- loop invariant of `placeAll` over the remaining pairs `l` of the entry `(i, v)` with request `r` -/
structure PA (s0 s : State) (i v : Nat) (r : Rq) (l : List (TaskId × Nat)) : Prop where
  inv : Inv s
  tw : TWI noD s
  w : NpW s
  trk : Trk s0 s
  rq : s.rq i v = .ok r
  mn : s.isMultiNode i = false
  good : ∀ p ∈ l, Good s0 i p.1
  nd : (l.map (·.1)).Nodup
  pl : ∀ p ∈ l, Pl s i p.1
  wk : ∀ p ∈ l, SnW s p.2

theorem PA.np {s0 s : State} {i v : Nat} {r : Rq} {id : TaskId} {w : Nat} {rest : List (TaskId × Nat)}
    (h : PA s0 s i v r ((id, w) :: rest)) (m : List WUpdate) : NoCorePanic (s.placeSn m v r id w) := by
  obtain ⟨wk, A, F, P, hfw, ha⟩ := h.wk (id, w) List.mem_cons_self
  have hpl := h.pl (id, w) List.mem_cons_self
  obtain ⟨task, ht, hp⟩ := hpl.placeable h.inv h.tw
  refine placeSn_np ⟨wk, A, F, P, hfw, ha, ?_, h.w.free wk (findWorker_some_mem hfw) A F P ha⟩ ht hp
  intro hm
  refine hpl.not_assigned h.inv w ?_
  rw [asgW_of_find hfw]
  simp only [wAsg, ha]; exact hm

theorem PA.step {s0 s s1 : State} {i v : Nat} {r : Rq} {id : TaskId} {w : Nat} {rest : List (TaskId × Nat)}
    {m m1 : List WUpdate} (h : PA s0 s i v r ((id, w) :: rest)) (hp : s.placeSn m v r id w = .ok (s1, m1)) :
    PA s0 s1 i v r rest := by
  have hb := (placeSn_ok hp).1
  obtain ⟨a, b⟩ := placeSn_inv h.inv (h.trk.good (h.good (id, w) List.mem_cons_self)) hp
  have hq : ∀ t ∈ s.tasks, t.id = id → t.rq = i := by
    intro t ht he
    obtain ⟨task, hft, hrq, _⟩ := h.pl (id, w) List.mem_cons_self
    have := mem_find_of_nodup h.inv.nd ht
    rw [he] at this
    have hft' : findTask s.tasks id = some task := hft
    rw [hft'] at this; cases this; exact hrq
  have hfr : FrQ False s s1 := placeSn_fr h.w h.rq h.mn hq hp
  have hnd := h.nd
  simp only [List.map_cons, List.nodup_cons] at hnd
  refine ⟨a, placeSnBody_tw h.tw hb, hfr.fr.npw h.w, h.trk.trans b, ?_, ?_,
    fun p hp' => h.good p (List.mem_cons_of_mem _ hp'), hnd.2, ?_, ?_⟩
  · rw [NPA.rq_congr b.rqs]; exact h.rq
  · rw [isMultiNode_congr b.rqs]; exact h.mn
  · intro p hp'
    have hne : p.1 ≠ id := fun e => hnd.1 (e ▸ List.mem_map_of_mem hp')
    exact (h.pl p (List.mem_cons_of_mem _ hp')).step hb hne
  · intro p hp'
    exact placeSnBody_snw hb (h.wk p (List.mem_cons_of_mem _ hp'))

/-- **the placements of one `sn_counts` entry** -/
theorem placeAll_np {s0 : State} {i v : Nat} {r : Rq} : ∀ (l : List (TaskId × Nat)) (s : State) (m : List WUpdate),
    PA s0 s i v r l → NoCorePanic (s.placeAll m v r l)
  | [], s, m, _ => NoCorePanic.ok _
  | (id, w) :: rest, s, m, h => by
    rw [placeAll_cons]
    cases h1 : s.placeSn m v r id w with
    | error err => exact np_error_cast (h1 ▸ h.np m)
    | ok x => obtain ⟨s1, m1⟩ := x; exact placeAll_np rest s1 m1 (h.step h1)

/-! ### one `sn_counts` entry -/

theorem placementAllowed_snw {s : State} {now rq v : Nat} {r : Rq} {w : Nat}
    (h : s.placementAllowed now rq v r w = true) : SnW s w := by
  unfold State.placementAllowed at h
  split at h
  · cases h
  · rename_i wk hw
    simp only [Bool.and_eq_true] at h
    have h1 := h.1.1
    split at h1
    · rename_i A F P ha; exact ⟨wk, A, F, P, hw, ha⟩
    · cases h1

/-- an id of queue `i` is placeable -/
theorem pl_of_queue {s : State} {i : Nat} {q : Queue} (hq : NpQ noD [] s) (hqi : s.queues[i]? = some q) {id : TaskId}
    (hid : id ∈ qIds q) : Pl s i id := by
  rw [qIds_eq', List.mem_append] at hid
  rcases hid with hid | hid
  · obtain ⟨e', he', hx⟩ := mem_rIds.mp hid
    obtain ⟨t, ht, hrq, _, hs⟩ := (hq.rg' hqi he' hx).elim
    refine ⟨t, ht, hrq, ?_⟩
    rcases hs with a | ⟨a, b⟩ | ⟨_, b⟩
    · exact Or.inl ⟨0, a⟩
    · exact Or.inr (Or.inl ⟨a, b⟩)
    · cases b
  · unfold pfIds at hid
    split at hid
    · rename_i pp ts hp
      obtain ⟨t, w, ht, hrq, _, _, hs⟩ := (hq.pg' hqi hp hid).elim
      exact ⟨t, ht, hrq, Or.inr (Or.inr ⟨w, hs⟩)⟩
    · cases hid

theorem rq_lt_of_ok {s : State} {rq v : Nat} {r : Rq} (hr : s.rq rq v = .ok r) : rq < s.rqs.length := by
  rcases Nat.lt_or_ge rq s.rqs.length with h | h
  · exact h
  · simp only [State.rq, List.getElem?_eq_none h] at hr; cases hr

theorem mapSn1_np {s0 s : State} {now : Nat} {m : List WUpdate} {e : SnEntry}
    (hb : Bd s0 s) (hq0 : QueueOk s0) (hok : SnEntryOk s e) : NoCorePanic (s.mapSn now m [e]) := by
  obtain ⟨⟨r, hr⟩, hmn, hcnt⟩ := hok
  have hlt : e.rq < s.queues.length := by rw [hb.np3.2.1.ql]; exact rq_lt_of_ok hr
  obtain ⟨q, hq⟩ : ∃ q, s.queues[e.rq]? = some q := ⟨s.queues[e.rq], List.getElem?_eq_getElem hlt⟩
  simp only [State.mapSn, hr, hq]
  split
  · exact NoCorePanic.bang (by simp)
  · rename_i hall
    simp only [Bool.not_eq_true', Bool.not_eq_false] at hall
    have hall' : (e.counts.all fun (p : Nat × Nat) => p.2 == 0 || s.placementAllowed now e.rq e.v r p.1) = true :=
      hall
    cases htk : q.takeTasks (e.counts.map (·.2)).sum e.taken with
    | error err => exact np_error_cast (htk ▸ takeTasks_np (hb.q.wf' hq) (hcnt q hq))
    | ok q' =>
      simp only
      have hqn := hb.q.qIds_nodup hq
      have sp := takeTasks_spec (hb.q.wf' hq) hqn htk
      have hpa : PA s0 { s with queues := s.queues.set e.rq q' } e.rq e.v r
          (deal (e.taken.length + 1) e.counts e.taken []) := by
        refine ⟨hb.inv, ⟨hb.tw.tw, hb.tw.mnu⟩, ⟨hb.np3.1.nd, hb.np3.1.free⟩,
          hb.trk.trans (Trk.of_queue_set hq sp.sub), hr, hmn, ?_, deal_nodup (sp.tnd hqn), ?_, ?_⟩
        · intro p hp
          obtain ⟨q0, hq0', hid0⟩ := hb.trk.qsub e.rq q hq p.1 (sp.tsub _ (deal_mem hp).1)
          exact hq0 e.rq q0 hq0' p.1 hid0
        · intro p hp
          exact pl_of_queue hb.q hq (sp.tsub _ (deal_mem hp).1)
        · intro p hp
          obtain ⟨c, hc, hpos⟩ := (deal_mem hp).2
          have := List.all_eq_true.mp hall' (p.2, c) hc
          simp only [Bool.or_eq_true, beq_iff_eq] at this
          rcases this with h0 | h1
          · omega
          · exact (placementAllowed_snw h1).congr rfl
      cases hp : State.placeAll { s with queues := s.queues.set e.rq q' } m e.v r
          (deal (e.taken.length + 1) e.counts e.taken []) with
      | error err => exact np_error_cast (hp ▸ placeAll_np _ _ m hpa)
      | ok x => exact NoCorePanic.ok _

/-- the bundle after one `sn_counts` entry -/
theorem mapSn1_bd {s0 s s' : State} {now : Nat} {m m' : List WUpdate} {e : SnEntry}
    (hb : Bd s0 s) (hq0 : QueueOk s0) (hok : SnEntryOk s e) (h : s.mapSn now m [e] = .ok (s', m')) : Bd s0 s' := by
  obtain ⟨a, b⟩ := mapSn_inv _ s0 _ _ _ _ _ hq0 hb.inv hb.trk h
  have f : FrQ False s s' := mapSn1_fr hb.np3.1 hb.qrq hok h
  exact ⟨a, mapSn_tw _ _ _ _ _ _ hb.tw h, b, f.fr.np3 hb.np3, mapSn_npq _ _ _ _ _ _ hb.q hb.nd h, f.qrq hb.qrq⟩

/-! ### `mapSn` -/

/-- **stage 1: the single-node half of `create_task_mapping`** -/
theorem mapSn_np {s0 : State} {now : Nat} : ∀ (es : List SnEntry) (s : State) (m : List WUpdate),
    Bd s0 s → QueueOk s0 → SnOk now s m es → NoCorePanic (s.mapSn now m es)
  | [], _, _, _, _, _ => NoCorePanic.ok _
  | e :: rest, s, m, hb, hq0, hok => by
    rw [mapSn_cons]
    simp only [SnOk] at hok
    cases h1 : s.mapSn now m [e] with
    | error err => exact np_error_cast (h1 ▸ mapSn1_np hb hq0 hok.1)
    | ok x =>
      obtain ⟨s1, m1⟩ := x
      rw [h1] at hok
      exact mapSn_np rest s1 m1 (mapSn1_bd hb hq0 hok.1 h1) hq0 hok.2

/-- the bundle after stage 1 -/
theorem mapSn_bd {s0 : State} {now : Nat} : ∀ (es : List SnEntry) (s s' : State) (m m' : List WUpdate),
    Bd s0 s → QueueOk s0 → SnOk now s m es → s.mapSn now m es = .ok (s', m') → Bd s0 s'
  | [], s, s', m, m', hb, _, _, h => by simp only [State.mapSn] at h; cases h; exact hb
  | e :: rest, s, s', m, m', hb, hq0, hok, h => by
    rw [mapSn_cons] at h
    simp only [SnOk] at hok
    cases h1 : s.mapSn now m [e] with
    | error err => rw [h1] at h; cases h
    | ok x =>
      obtain ⟨s1, m1⟩ := x
      rw [h1] at hok h
      exact mapSn_bd rest s1 s' m1 m' (mapSn1_bd hb hq0 hok.1 h1) hq0 hok.2 h

end HqModel.Core.NPS
