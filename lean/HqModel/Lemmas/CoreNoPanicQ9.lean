import HqModel.Lemmas.CoreNoPanicQ8
/-!
C09 progress, queue correspondence, part 9: `crashLoop`, `on_remove_worker`, and the step theorem for every
operation of the reactor (`step_npq_reactor`; a scheduling round is `CoreNoPanicQSched*.lean`).
-/
namespace HqModel.Core.NPC

open HqModel.Core.NP

/-! ### the crash-limit loop -/

theorem crashLoop_npq {D R} (ids : List TaskId) (s s' : State) (f : Bool) (rets : List (List TaskId)) (o o' : Out)
    (h : NpQ D R s) (hn : (taskIds s.tasks).Nodup) (hcw : CW3 s.tasks)
    (heq : s.crashLoop f ids rets o = .ok (s', o')) : NpQ D R s' := by
  induction ids generalizing s rets o with
  | nil => simp only [State.crashLoop] at heq; cases heq; exact h
  | cons id rest ih =>
    simp only [State.crashLoop] at heq
    split at heq
    · exact ih _ _ _ h hn hcw heq
    · rename_i task ht
      have hid : task.id = id := findTask_some_id ht
      have ht' : s.task? task.id = some task := by rw [hid]; exact ht
      have a1 : ∀ c, NpQ D R (s.setTask { task with crashes := c }) :=
        fun c => setTask_npq_same (t' := { task with crashes := c }) h ht' rfl rfl rfl
      have n1 : ∀ c, (taskIds (s.setTask { task with crashes := c }).tasks).Nodup := by
        intro c; rw [setTask_ids]; exact hn
      have c1 : ∀ c, CW3 (s.setTask { task with crashes := c }).tasks :=
        fun c => cw3_put (t' := { task with crashes := c }) hcw ht' rfl (Decidable.em _)
      split at heq
      · split at heq
        · cases heq
        · rename_i s2 o2 h2
          obtain ⟨a2, rem⟩ := taskFailed_npq (a1 _) (n1 _) (c1 _) h2
          exact ih _ _ _ a2 (rem.nd (n1 _)) (rem.cw (c1 _)) heq
      · exact ih _ _ _ (a1 _) (n1 _) (c1 _) heq

/-! ### `on_remove_worker` -/

/-- **`on_remove_worker`** -/
theorem removeWorker_npq {D} {s s' : State} {w : Nat} {reason : String} {f : Bool} {order : List TaskId}
    {rets : List (List TaskId)} {o : Out} (h : NpQ D [] s) (hi : Inv s)
    (heq : s.removeWorker w reason f order rets = .ok (s', o)) : NpQ D [] s' := by
  simp only [State.removeWorker, State.worker?] at heq
  split at heq
  · cases heq
  · rename_i wk hfw
    have a0 : NpQ D [] ({ s with workers := s.workers.filter (·.id ≠ w) } : State) :=
      h.frame rfl rfl (fun _ hx => hx)
    have sd0 : Side ({ s with workers := s.workers.filter (·.id ≠ w) } : State) :=
      hi.side.frame rfl (fun _ hx => hx)
    split at heq
    · cases heq
    · rename_i s1 running retracted hp1
      have e1 : NpQ D retracted s1 ∧ Side s1 := by
        clear heq
        split at hp1
        · -- single-node assignment
          rename_i A F P ha
          split at hp1
          · cases hp1
          · rename_i hperm
            simp only [Bool.not_eq_false, Bool.and_eq_true, Bool.not_eq_eq_eq_not, Bool.not_true] at hperm
            split at hp1
            · cases hp1
            · rename_i s01 hlp
              have hA : asgW s.workers w = A := by rw [asgW_of_find hfw]; simp [wAsg, ha]
              obtain ⟨a, sd, np⟩ := lostPrefilled_npq _ _ _ a0 sd0 hlp
              refine lostAssigned_npq _ _ _ _ _ _ _ a sd ?_ hp1
              intro id hid
              apply np
              have hmem : id ∈ A := by
                have h1 : order.all A.contains = true := by
                  have := hperm
                  simp only [decide_eq_true_eq] at this
                  exact this.1.1
                exact mem_of_all_contains h1 id hid
              obtain ⟨st, hs, hh⟩ := hi.ls.a1 w id (by rw [hA]; exact hmem)
              rw [isPrefilled_iff_stOf]
              rintro ⟨w1, hw1⟩
              change stOf s.tasks id = _ at hw1
              rw [hs] at hw1
              simp only [Option.some.injEq] at hw1
              rw [hw1] at hh
              exact hh
        · -- multi-node assignment
          rename_i tid root started ha
          split at hp1
          · cases hp1
          · rename_i task hg
            have ht : ({ s with workers := s.workers.filter (·.id ≠ w) } : State).task? tid = some task :=
              getTask_spec hg
            have hid : task.id = tid := findTask_some_id ht
            subst hid
            split at hp1
            · rename_i ws hs
              have hnp : ∀ w, task.state ≠ .prefilled w := by rw [hs]; intro w e; cases e
              have hnr : ∀ w, task.state ≠ .retracting w := by rw [hs]; intro w e; cases e
              split at hp1
              · rename_i rootw others
                split at hp1
                · split at hp1
                  · cases hp1
                  · rename_i s01 hr
                    have a01 := resetMnAll_npq a0 hr
                    have sd01 : Side s01 := sd0.frame (resetMnAll_tasks _ _ _ hr)
                      (by rw [resetMnAll_redirects _ _ _ hr]; exact fun _ hx => hx)
                    have ht01 : s01.task? task.id = some task := by
                      rw [task?_congr (resetMnAll_tasks _ _ _ hr)]; exact ht
                    split at hp1
                    · cases hp1
                    · rename_i s3 r3 har
                      cases hp1
                      have := requeue_waiting_npq
                        (t'' := { task with state := .waiting 0, inst := task.inst + 1 })
                        a01 sd01 ht01 rfl rfl rfl rfl rfl hnp hnr har
                      rw [List.nil_append] at this
                      exact this
                · cases hp1
                  refine ⟨setTask_npq_unq
                      (t' := { task with state := .runningMN ((rootw :: others).filter (· ≠ w)) }) a0 ht rfl rfl
                      (not_rstate (by rw [hs]; intro e; cases e) hnr hnp) hnp (by intro w e; cases e),
                    sd0.setTask (t' := { task with state := .runningMN ((rootw :: others).filter (· ≠ w)) }) ht rfl
                      (Or.inr (by rw [hs]; exact fun e => e)) (Or.inr (sd0.rd.none_of_state ht hnr))⟩
              · cases hp1
            · cases hp1
      obtain ⟨a1, sd1⟩ := e1
      split at heq
      · cases heq
      · rename_i s2 out1 h2
        obtain ⟨a2, sd2⟩ := lostRetracting_npq _ _ _ _ _ _ a1 sd1 h2
        split at heq
        · cases heq
        · rename_i s3 out2 h3
          have a3 := retract_npq a2 sd2.rd h3
          have sd3 := retract_side sd2 h3
          split at heq
          · cases heq
          · rename_i s4 out h4
            cases heq
            exact ask_npq (crashLoop_npq _ _ _ _ _ _ _ a3 sd3.nd sd3.cw h4)

/-! ### the step theorem -/

/-- **every operation of the reactor preserves the queue ↔ state correspondence** (the hypotheses are those of the
progress theorem; a scheduling round is the subject of `CoreNoPanicQSched*.lean`) -/
theorem step_npq_reactor {U : List TaskId} {s s' : State} {op : Op} {out : Out} (hi : InvF s)
    (_hq : QInv U none [] s) (hn : NpInv U [] s) (hok : OpOk2q s op) (hnp : OpNP s op) (_hex : OpExcl s op)
    (_hfresh : ∀ x ∈ op.newIds, x ∉ U) (_hnd : op.newIds.Nodup) (hns : ∀ sol, op ≠ .schedule sol)
    (h : step s op = .ok (s', out)) : NpQ noD [] s' := by
  cases op with
  | newWorker w => exact newWorker_npq hn.q h
  | removeWorker w reason f order rets => exact removeWorker_npq hn.q hi.inv h
  | newRq rqv => simp only [step] at h; cases h; exact newRq_npq rqv hn.q
  | newTasks nts => exact newTasks_npq hn.q hi.inv.rdRetr h
  | cancel ids => exact (cancelTasks_npq hn.q hi.inv.nd hi.inv.cw h).1
  | update w us rets => exact taskUpdate_npq hn.q hi.inv hok hnp.1 h
  | retracted w ids => exact retractResponse_npq hn.q h
  | schedule sol => exact absurd rfl (hns sol)

end HqModel.Core.NPC
