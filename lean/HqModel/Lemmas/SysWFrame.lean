import HqModel.Lemmas.SysWDefs
import HqModel.Lemmas.SysLock
/-!
Frame facts about the core model (M1) for the composition with the workers: what a reactor / scheduler function may
do to the PLACE of a task (the worker that owns it and in which capacity).

* `owner st` — the worker a task in state `st` is at (Assigned / Prefilled / Retracting / Running: that worker;
  RunningMultiNode: the root);
* `stays a b` — the task stays where it is: Running stays Running, Assigned stays Assigned (same variant), Prefilled
  stays Prefilled or becomes Retracting, Retracting stays, RunningMultiNode keeps its root;
* `SOk rel acq a b` — how the state of ONE task record may change (`a` old, `b` new): (`keep`) if its owner does not
  release it (`rel`), it keeps its place; (`own`) unless the task may be acquired (`acq`), a new owner is the old owner;
* `WRelW sch wk wk'` — a worker record: a multi-node assignment of `wk'` is the one of `wk` and the `started` flag is
  not reset — or (`sch`, a scheduling round) `wk` had a single-node assignment;
* `FrW m s s'` — every task / worker record of `s'` descends from one of `s` (membership form: composes through every
  intermediate state without uniqueness of ids).
-/
namespace HqModel.Core

def owner : TS → Option Nat
  | .assigned w _ => some w
  | .prefilled w => some w
  | .retracting w => some w
  | .running w _ => some w
  | .runningMN (w :: _) => some w
  | _ => none

def stays (a b : TS) : Prop :=
  match a with
  | .running w v => b = .running w v
  | .assigned w v => b = .assigned w v
  | .prefilled w => b = .prefilled w ∨ b = .retracting w
  | .retracting w => b = .retracting w
  | .runningMN (w :: _) => ∃ l', b = .runningMN (w :: l')
  | _ => True

theorem stays.refl (a : TS) : stays a a := by
  cases a with
  | runningMN l => cases l <;> simp [stays]
  | _ => simp [stays]

theorem stays.owner {a b : TS} {x : Nat} (h : stays a b) (ho : owner a = some x) : owner b = some x := by
  cases a with
  | runningMN l =>
    cases l with
    | nil => cases ho
    | cons y ys => obtain ⟨l', rfl⟩ := h; exact ho
  | prefilled w => rcases h with rfl | rfl <;> exact ho
  | waiting n => cases ho
  | finished => cases ho
  | assigned w v => cases h; exact ho
  | retracting w => cases h; exact ho
  | running w v => cases h; exact ho

theorem stays.trans {a b c : TS} (h1 : stays a b) (h2 : stays b c) : stays a c := by
  cases a with
  | runningMN l =>
    cases l with
    | nil => trivial
    | cons y ys => obtain ⟨l', rfl⟩ := h1; exact h2
  | prefilled w =>
    rcases h1 with rfl | rfl
    · exact h2
    · exact .inr h2
  | waiting n => trivial
  | finished => trivial
  | assigned w v => cases h1; exact h2
  | retracting w => cases h1; exact h2
  | running w v => cases h1; exact h2

structure SOk (rel : Nat → Prop) (acq : Prop) (a b : TS) : Prop where
  keep : ∀ x, owner a = some x → ¬ rel x → stays a b
  own : ¬ acq → ∀ y, owner b = some y → owner a = some y

theorem SOk.refl (rel : Nat → Prop) (acq : Prop) (a : TS) : SOk rel acq a a :=
  ⟨fun _ _ _ => stays.refl a, fun _ _ h => h⟩

theorem SOk.trans {rel : Nat → Prop} {acq : Prop} {a b c : TS} (h1 : SOk rel acq a b) (h2 : SOk rel acq b c) :
    SOk rel acq a c :=
  ⟨fun x ho hr => (h1.keep x ho hr).trans (h2.keep x ((h1.keep x ho hr).owner ho) hr),
   fun ha y ho => h1.own ha y (h2.own ha y ho)⟩

theorem SOk.mono {rel rel' : Nat → Prop} {acq acq' : Prop} {a b : TS} (h : SOk rel acq a b)
    (hr : ∀ x, rel x → rel' x) (ha : acq → acq') : SOk rel' acq' a b :=
  ⟨fun x ho hn => h.keep x ho (fun e => hn (hr x e)), fun hn => h.own (fun e => hn (ha e))⟩

/-- the released and acquirable record: anything goes -/
theorem SOk.free {rel : Nat → Prop} {acq : Prop} {a b : TS} (hr : ∀ x, owner a = some x → rel x) (ha : acq) :
    SOk rel acq a b :=
  ⟨fun x ho hn => (hn (hr x ho)).elim, fun hn => (hn ha).elim⟩

/-- the place does not change -/
theorem SOk.of_keep {rel : Nat → Prop} {acq : Prop} {a b : TS} (hk : stays a b) (ho : owner b = owner a) :
    SOk rel acq a b :=
  ⟨fun _ _ _ => hk, fun _ y h => ho ▸ h⟩

/-- a released task becomes ownerless -/
theorem SOk.release {rel : Nat → Prop} {acq : Prop} {a b : TS} (hr : ∀ x, owner a = some x → rel x)
    (hb : owner b = none) : SOk rel acq a b :=
  ⟨fun x ho hn => (hn (hr x ho)).elim, fun _ y h => by rw [hb] at h; cases h⟩

structure Mode where
  /-- worker `x` gives up task `id` in this operation -/
  rel : Nat → TaskId → Prop := fun _ _ => False
  /-- task `id` may get a new owner in this operation -/
  acq : TaskId → Prop := fun _ => False
  /-- a scheduling round -/
  sch : Prop := False

def Mode.le (m m' : Mode) : Prop := (∀ x id, m.rel x id → m'.rel x id) ∧ (∀ id, m.acq id → m'.acq id) ∧ (m.sch → m'.sch)

def calm : Mode := {}

theorem calm_le (m : Mode) : calm.le m := ⟨fun _ _ h => h.elim, fun _ h => h.elim, fun h => h.elim⟩

structure TRelW (m : Mode) (t t' : Task) : Prop where
  id : t'.id = t.id
  st : SOk (fun x => m.rel x t.id) (m.acq t.id) t.state t'.state

theorem TRelW.refl (m : Mode) (t : Task) : TRelW m t t := ⟨rfl, SOk.refl _ _ _⟩

theorem TRelW.trans {m : Mode} {a b c : Task} (h1 : TRelW m a b) (h2 : TRelW m b c) : TRelW m a c :=
  ⟨h2.id.trans h1.id, h1.st.trans (h1.id ▸ h2.st)⟩

theorem TRelW.mono {m m' : Mode} (hm : m.le m') {a b : Task} (h : TRelW m a b) : TRelW m' a b :=
  ⟨h.id, h.st.mono (fun x => hm.1 x _) (hm.2.1 _)⟩

def TFrW (m : Mode) (ts ts' : List Task) : Prop := ∀ t' ∈ ts', ∃ t ∈ ts, TRelW m t t'

structure WRelW (sch : Prop) (w w' : Worker) : Prop where
  id : w'.id = w.id
  mn : ∀ t r f', w'.assign = .mn t r f' →
    (∃ f'', w.assign = .mn t r f'' ∧ (f'' = true → f' = true)) ∨ (sch ∧ ∃ A F P, w.assign = .sn A F P)
  sn : sch → ∀ A F P, w'.assign = .sn A F P → ∃ A' F' P', w.assign = .sn A' F' P'

theorem WRelW.refl (sch : Prop) (w : Worker) : WRelW sch w w :=
  ⟨rfl, fun _ _ f' h => .inl ⟨f', h, fun e => e⟩, fun _ A F P h => ⟨A, F, P, h⟩⟩

theorem WRelW.trans {sch : Prop} {a b c : Worker} (h1 : WRelW sch a b) (h2 : WRelW sch b c) : WRelW sch a c := by
  refine ⟨h2.id.trans h1.id, fun t r f' hc => ?_, fun hs A F P hc => ?_⟩
  · rcases h2.mn t r f' hc with ⟨f'', hb, hf⟩ | ⟨hs, A, F, P, hb⟩
    · rcases h1.mn t r f'' hb with ⟨f3, ha, hf3⟩ | hx
      · exact .inl ⟨f3, ha, fun e => hf (hf3 e)⟩
      · exact .inr hx
    · obtain ⟨A', F', P', ha⟩ := h1.sn hs A F P hb
      exact .inr ⟨hs, A', F', P', ha⟩
  · obtain ⟨A', F', P', hb⟩ := h2.sn hs A F P hc
    exact h1.sn hs A' F' P' hb

theorem WRelW.mono {sch sch' : Prop} (hs : sch → sch') {a b : Worker} (h : WRelW sch a b) (hsn : sch' → sch) :
    WRelW sch' a b :=
  ⟨h.id, fun t r f' hb => (h.mn t r f' hb).imp (fun x => x) (fun ⟨x, y⟩ => ⟨hs x, y⟩), fun e => h.sn (hsn e)⟩

def WFrW (sch : Prop) (ws ws' : List Worker) : Prop :=
  ∀ x wk', findWorker ws' x = some wk' → ∃ wk, findWorker ws x = some wk ∧ WRelW sch wk wk'

structure FrW (m : Mode) (s s' : State) : Prop where
  t : TFrW m s.tasks s'.tasks
  w : WFrW m.sch s.workers s'.workers

theorem TFrW.refl (m : Mode) (ts : List Task) : TFrW m ts ts := fun t h => ⟨t, h, TRelW.refl _ _⟩

theorem TFrW.trans {m : Mode} {a b c : List Task} (h1 : TFrW m a b) (h2 : TFrW m b c) : TFrW m a c := by
  intro t'' ht''
  obtain ⟨t', ht', r2⟩ := h2 t'' ht''
  obtain ⟨t, ht, r1⟩ := h1 t' ht'
  exact ⟨t, ht, r1.trans r2⟩

theorem WFrW.refl (sch : Prop) (ws : List Worker) : WFrW sch ws ws := fun _ wk h => ⟨wk, h, WRelW.refl _ _⟩

theorem WFrW.trans {sch : Prop} {a b c : List Worker} (h1 : WFrW sch a b) (h2 : WFrW sch b c) : WFrW sch a c := by
  intro x wk'' h
  obtain ⟨wk', h', r2⟩ := h2 x wk'' h
  obtain ⟨wk, h0, r1⟩ := h1 x wk' h'
  exact ⟨wk, h0, r1.trans r2⟩

theorem FrW.refl (m : Mode) (s : State) : FrW m s s := ⟨TFrW.refl _ _, WFrW.refl _ _⟩

theorem FrW.trans {m : Mode} {a b c : State} (h1 : FrW m a b) (h2 : FrW m b c) : FrW m a c :=
  ⟨h1.t.trans h2.t, h1.w.trans h2.w⟩

/-- a mode with the same `sch` flag and more releases / acquisitions -/
theorem FrW.mono {m m' : Mode} (hm : m.le m') (hs : m'.sch → m.sch) {a b : State} (h : FrW m a b) : FrW m' a b :=
  ⟨fun t' ht' => by obtain ⟨t, ht, r⟩ := h.t t' ht'; exact ⟨t, ht, r.mono hm⟩,
   fun x wk' hx => by obtain ⟨wk, hw, r⟩ := h.w x wk' hx; exact ⟨wk, hw, r.mono hm.2.2 hs⟩⟩

/-- only queues / redirects / flags / requests change -/
theorem FrW.of_eq {m : Mode} {s s' : State} (ht : s'.tasks = s.tasks) (hw : s'.workers = s.workers) : FrW m s s' := by
  constructor
  · rw [ht]; exact TFrW.refl _ _
  · rw [hw]; exact WFrW.refl _ _

theorem CoreEq.frw {m : Mode} {s s' : State} (h : CoreEq s s') : FrW m s s' := FrW.of_eq h.t h.w

theorem FrW.ask (m : Mode) (s : State) : FrW m s (ask s) := FrW.of_eq rfl rfl

/-! ### primitive updates -/

theorem TFrW.put {m : Mode} {ts : List Task} {told t' : Task} (hf : findTask ts t'.id = some told)
    (hs : SOk (fun x => m.rel x told.id) (m.acq told.id) told.state t'.state) : TFrW m ts (putTask ts t') := by
  intro x hx
  rcases mem_putTask' hx with e | e
  · subst e
    exact ⟨told, findTask_some_mem hf, ⟨(findTask_some_id hf).symm, hs⟩⟩
  · exact ⟨x, e, TRelW.refl _ _⟩

theorem TFrW.erase (m : Mode) (ts : List Task) (id : TaskId) : TFrW m ts (eraseTask ts id) :=
  fun x hx => ⟨x, mem_eraseTask' hx, TRelW.refl _ _⟩

/-- one task record replaced by a descendant (same id) -/
theorem FrW.setState {m : Mode} {s : State} {task t' : Task} {id : TaskId} (hf : s.task? id = some task)
    (hid : t'.id = task.id) (hs : SOk (fun x => m.rel x task.id) (m.acq task.id) task.state t'.state) :
    FrW m s (s.setTask t') := by
  refine ⟨TFrW.put (told := task) ?_ hs, WFrW.refl _ _⟩
  rw [hid, findTask_some_id hf]; exact hf

/-- the same with a changed redirect table -/
theorem FrW.setState_rd {m : Mode} {s : State} {task t' : Task} {id : TaskId} (rd : List (TaskId × Nat × Nat))
    (hf : s.task? id = some task) (hid : t'.id = task.id)
    (hs : SOk (fun x => m.rel x task.id) (m.acq task.id) task.state t'.state) :
    FrW m s (({ s with redirects := rd } : State).setTask t') :=
  FrW.trans (b := { s with redirects := rd }) (FrW.of_eq rfl rfl)
    (FrW.setState (s := { s with redirects := rd }) (task := task) (id := id) hf hid hs)

/-- only fields other than the state change (consumers, counters) -/
theorem FrW.setSame {m : Mode} {s : State} {task t' : Task} {id : TaskId} (hf : s.task? id = some task)
    (hid : t'.id = task.id) (hs : t'.state = task.state) : FrW m s (s.setTask t') :=
  FrW.setState hf hid (hs ▸ SOk.refl _ _ _)

theorem WFrW.put {sch : Prop} {ws : List Worker} {wk wk' : Worker} (hf : findWorker ws wk.id = some wk)
    (hr : WRelW sch wk wk') : WFrW sch ws (putWorker ws wk') := by
  intro x w' hx
  rw [findWorker_putWorker] at hx
  split at hx
  · rename_i e
    rw [e, hr.id, hf] at hx
    simp only [Option.map_some, Option.some.injEq] at hx
    subst hx
    exact ⟨wk, by rw [e, hr.id]; exact hf, hr⟩
  · exact ⟨w', hx, WRelW.refl _ _⟩

theorem FrW.withWorker {m : Mode} {s s' : State} {w : Nat} {f : Worker → M Worker}
    (hf : ∀ wk wk', f wk = .ok wk' → WRelW m.sch wk wk') (h : s.withWorker w f = .ok s') : FrW m s s' := by
  obtain ⟨wk, wk', h1, h2, rfl⟩ := withWorker_spec h
  refine ⟨TFrW.refl _ _, ?_⟩
  have hid := findWorker_some_id h1
  exact WFrW.put (wk := wk) (by rw [hid]; exact h1) (hf _ _ h2)

theorem FrW.setWorker {m : Mode} {s : State} {wk wk' : Worker} (hf : s.worker? wk.id = some wk)
    (hr : WRelW m.sch wk wk') : FrW m s (s.setWorker wk') :=
  ⟨TFrW.refl _ _, WFrW.put hf hr⟩

/-! ### worker-record operations -/

/-- an operation that needs and leaves a single-node assignment -/
theorem wrelw_sn {sch : Prop} {wk wk' : Worker} (hid : wk'.id = wk.id) (h0 : ∃ A F P, wk.assign = .sn A F P)
    (h1 : ∃ A F P, wk'.assign = .sn A F P) : WRelW sch wk wk' := by
  obtain ⟨A, F, P, h1⟩ := h1
  exact ⟨hid, fun t r f' e => (by rw [h1] at e; cases e), fun _ _ _ _ _ => h0⟩

theorem insertSn_wrelw (sch : Prop) (t : TaskId) (r : Rq) (wk wk' : Worker) (h : wk.insertSn t r = .ok wk') :
    WRelW sch wk wk' := by
  obtain ⟨A, F, P, F', ha, _, _, rfl⟩ := insertSn_spec h
  exact wrelw_sn rfl ⟨A, F, P, ha⟩ ⟨_, _, _, rfl⟩

theorem removeSn_wrelw (sch : Prop) (t : TaskId) (r : Rq) (wk wk' : Worker) (h : wk.removeSn t r = .ok wk') :
    WRelW sch wk wk' := by
  obtain ⟨A, F, P, F', ha, _, _, rfl⟩ := removeSn_spec h
  exact wrelw_sn rfl ⟨A, F, P, ha⟩ ⟨_, _, _, rfl⟩

theorem insertPrefill_wrelw (sch : Prop) (t : TaskId) (wk wk' : Worker) (h : wk.insertPrefill t = .ok wk') :
    WRelW sch wk wk' := by
  simp only [Worker.insertPrefill] at h
  split at h
  · rename_i A F P ha
    split at h
    · cases h
    · cases h; exact wrelw_sn rfl ⟨A, F, P, ha⟩ ⟨_, _, _, rfl⟩
  · cases h

theorem removePrefill_wrelw (sch : Prop) (t : TaskId) (wk wk' : Worker) (h : wk.removePrefill t = .ok wk') :
    WRelW sch wk wk' := by
  simp only [Worker.removePrefill] at h
  split at h
  · rename_i A F P ha
    split at h
    · cases h
    · cases h; exact wrelw_sn rfl ⟨A, F, P, ha⟩ ⟨_, _, _, rfl⟩
  · cases h

theorem prefilledToStarted_wrelw (sch : Prop) (t : TaskId) (r : Rq) (wk wk' : Worker)
    (h : wk.prefilledToStarted t r = .ok wk') : WRelW sch wk wk' := by
  simp only [Worker.prefilledToStarted] at h
  split at h
  · rename_i A F P ha
    split at h
    · cases h
    · split at h
      · cases h
      · split at h
        · cases h
        · cases h; exact wrelw_sn rfl ⟨A, F, P, ha⟩ ⟨_, _, _, rfl⟩
  · cases h

/-- `set_mn_task` only in a scheduling round -/
theorem setMn_wrelw (t : TaskId) (root : Bool) (wk wk' : Worker) (h : wk.setMn t root = .ok wk') :
    WRelW True wk wk' := by
  simp only [Worker.setMn] at h
  split at h
  · cases h
  · rename_i hfree
    cases h
    have hsn : ∃ A F P, wk.assign = .sn A F P := by
      simp only [Worker.isFree] at hfree
      cases ha : wk.assign with
      | sn A F P => exact ⟨A, F, P, rfl⟩
      | mn a b c => simp [ha] at hfree
    exact ⟨rfl, fun _ _ _ _ => .inr ⟨trivial, hsn⟩, fun _ _ _ _ e => by cases e⟩

/-- resetting a worker: never in a scheduling round -/
theorem emptySn_wrelw (wk : Worker) : WRelW False wk wk.emptySn :=
  ⟨rfl, fun _ _ _ e => (by cases e), fun e => e.elim⟩

/-- fields other than the assignment -/
theorem wrelw_same {sch : Prop} {wk wk' : Worker} (hid : wk'.id = wk.id) (ha : wk'.assign = wk.assign) :
    WRelW sch wk wk' :=
  ⟨hid, fun t r f' e => .inl ⟨f', ha ▸ e, fun x => x⟩, fun _ A F P e => ⟨A, F, P, ha ▸ e⟩⟩

end HqModel.Core
