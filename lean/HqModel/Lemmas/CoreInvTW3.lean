import HqModel.Lemmas.CoreInvTW2
/-!
Stage 2c, part 3: `TW3`/`MNU` under the task-update half of the reactor.
-/
namespace HqModel.Core

theorem resetMnChecked_tw (l : List Nat) {D : TaskId → Prop} (s s' : State) {ts : List Task} {id : TaskId} {l0 : List Nat}
    (h : TW3 D ts s.workers s.redirects) (hm : MNU ts s.workers) (hs : stOf ts id = some (.runningMN l0))
    (hsub : ∀ x ∈ l, x ∈ l0) (hr : resetMnChecked s id l = .ok s') :
    TW3 (fun u => D u ∨ u = id) ts s'.workers s'.redirects ∧ MNU ts s'.workers := by
  -- `reset_mn_task_workers` is `reset_mn_task` on every worker plus an assertion
  have : ∀ (l : List Nat) (s s' : State), resetMnChecked s id l = .ok s' → resetMnAll s l = .ok s' := by
    intro l
    induction l with
    | nil => intro s s' h; simp only [resetMnChecked] at h; simp only [resetMnAll]; exact h
    | cons w rest ih =>
      intro s s' h
      simp only [resetMnChecked] at h
      simp only [resetMnAll]
      split at h
      · cases h
      · rename_i wk hg
        split at h
        · split at h
          · cases h
          · exact ih _ _ h
        · cases h
  exact resetMnAll_tw l s s' h hm hs hsub (this l s s' hr)

theorem resetMnChecked_redirects (l : List Nat) (s s' : State) (id : TaskId)
    (h : resetMnChecked s id l = .ok s') : s'.redirects = s.redirects := by
  fun_induction resetMnChecked s id l <;> grind [State.setWorker]

/-- a worker record is replaced by one with the same sets -/
theorem TWI.setWorker_same {D} {s : State} (hi : TWI D s) {wk wk' : Worker} (hfw : findWorker s.workers wk'.id = some wk)
    (e1 : wAsg wk' = wAsg wk) (e2 : wPre wk' = wPre wk) (e3 : wMn wk' = wMn wk) : TWI D (s.setWorker wk') := by
  have a := asgW_put_same hfw e1
  have b := preW_put_same hfw e2
  have c := mnW_put_same hfw e3
  constructor
  · show TW3 D s.tasks (putWorker s.workers wk') s.redirects
    exact ⟨fun t w v hd hs => by rw [a]; exact hi.tw.t1 t w v hd hs, fun t w hd hs => by rw [b]; exact hi.tw.t2 t w hd hs,
      fun t l hd hs x hx => by rw [c]; exact hi.tw.t3 t l hd hs x hx, fun t w v hd hm => by rw [a]; exact hi.tw.d1 t w v hd hm,
      hi.tw.d0⟩
  · show MNU s.tasks (putWorker s.workers wk')
    intro t l hs x hx
    rw [a, b, c]; exact hi.mnu t l hs x hx

/-- **single-node move**: one single-node worker record is replaced (other tasks lose no membership), the record
and the redirects of task `t` change; the obligations of `t` in the new state are given -/
theorem TW3.mv_sn {ts ws rd rd'} (h : TW3 noD ts ws rd) (hm : MNU ts ws) {t' told : Task} {wk wk' : Worker}
    (ht : findTask ts t'.id = some told) (hw : findWorker ws wk'.id = some wk) (hsn : wMn wk = none)
    (hsn' : wMn wk' = none)
    (hA : ∀ u, u ≠ t'.id → u ∈ wAsg wk → u ∈ wAsg wk') (hP : ∀ u, u ≠ t'.id → u ∈ wPre wk → u ∈ wPre wk')
    (hrd : ∀ u x v, u ≠ t'.id → (u, x, v) ∈ rd' → (u, x, v) ∈ rd)
    (hmn : ∀ l, t'.state = .runningMN l → told.state = .runningMN l)
    (h1 : ∀ w v, t'.state = .assigned w v ∨ t'.state = .running w v → t'.id ∈ asgW (putWorker ws wk') w)
    (h2 : ∀ w, t'.state = .prefilled w → t'.id ∈ preW (putWorker ws wk') w)
    (h4 : ∀ w v, (t'.id, w, v) ∈ rd' → (∃ w0, t'.state = .retracting w0) ∧ t'.id ∈ asgW (putWorker ws wk') w) :
    TW3 noD (putTask ts t') (putWorker ws wk') rd' ∧ MNU (putTask ts t') (putWorker ws wk') := by
  have hA0 := asgW_of_find hw
  have hP0 := preW_of_find hw
  have hM0 : mnW ws wk'.id = none := by rw [mnW_of_find hw]; exact hsn
  -- the worker belongs to no multi-node task
  have hnot : ∀ t l, stOf ts t = some (.runningMN l) → wk'.id ∉ l := by
    intro t l hst hx
    have := h.t3 t l (fun e => e) hst _ hx
    rw [hM0] at this; cases this
  have hst' : ∀ u, stOf (putTask ts t') u = if u = t'.id then some t'.state else stOf ts u := stOf_put ht
  constructor
  · refine h.frame t'.id (fun u _ => Or.inr (fun e => e)) (fun u hu => by rw [hst', if_neg hu]) ?_ ?_ ?_ hrd ?_ ?_ ?_ ?_ ?_
    · intro x u hu hx
      rw [asgW_put hw]; split
      · rename_i e; rw [e, hA0] at hx; exact hA u hu hx
      · exact hx
    · intro x u hu hx
      rw [preW_put hw]; split
      · rename_i e; rw [e, hP0] at hx; exact hP u hu hx
      · exact hx
    · intro x u _ hx
      rw [mnW_put hw]; split
      · rename_i e; rw [e, hM0] at hx; cases hx
      · exact hx
    · intro w v _ hs
      rw [hst', if_pos rfl] at hs
      refine h1 w v ?_
      rcases hs with e | e
      · exact Or.inl (by simpa using e)
      · exact Or.inr (by simpa using e)
    · intro w _ hs
      rw [hst', if_pos rfl] at hs
      exact h2 w (by simpa using hs)
    · intro l _ hs x hx
      rw [hst', if_pos rfl] at hs
      have e : t'.state = .runningMN l := by simpa using hs
      have hold : stOf ts t'.id = some (.runningMN l) := by rw [stOf_of_find ht, hmn l e]
      have := h.t3 t'.id l (fun e => e) hold x hx
      rw [mnW_put hw]; split
      · rename_i e2; exact absurd (e2 ▸ hx) (hnot _ _ hold)
      · exact this
    · intro w v _ hm'; exact (h4 w v hm').2
    · intro w v hm'
      obtain ⟨w0, e⟩ := (h4 w v hm').1
      exact ⟨w0, by rw [hst', if_pos rfl, e]⟩
  · intro t l hst x hx
    rw [hst'] at hst
    have hold : ∃ l', stOf ts t = some (.runningMN l') ∧ l' = l := by
      split at hst
      · rename_i e
        have e2 : t'.state = .runningMN l := by simpa using hst
        exact ⟨l, by rw [e, stOf_of_find ht, hmn l e2], rfl⟩
      · exact ⟨l, hst, rfl⟩
    obtain ⟨l', hl', rfl⟩ := hold
    have hx' : x ≠ wk'.id := fun e => hnot t l' hl' (e ▸ hx)
    rw [asgW_put hw, preW_put hw, mnW_put hw, if_neg hx', if_neg hx', if_neg hx']
    exact hm t l' hl' x hx

/-- the same without touching the task record -/
theorem TW3.mv_sn_same {ts ws rd rd'} (h : TW3 noD ts ws rd) (hm : MNU ts ws) {t : TaskId} {told : Task} {wk wk' : Worker}
    (ht : findTask ts t = some told) (hw : findWorker ws wk'.id = some wk) (hsn : wMn wk = none)
    (hsn' : wMn wk' = none)
    (hA : ∀ u, u ≠ t → u ∈ wAsg wk → u ∈ wAsg wk') (hP : ∀ u, u ≠ t → u ∈ wPre wk → u ∈ wPre wk')
    (hrd : ∀ u x v, u ≠ t → (u, x, v) ∈ rd' → (u, x, v) ∈ rd)
    (h1 : ∀ w v, told.state = .assigned w v ∨ told.state = .running w v → t ∈ asgW (putWorker ws wk') w)
    (h2 : ∀ w, told.state = .prefilled w → t ∈ preW (putWorker ws wk') w)
    (h4 : ∀ w v, (t, w, v) ∈ rd' → (∃ w0, told.state = .retracting w0) ∧ t ∈ asgW (putWorker ws wk') w) :
    TW3 noD ts (putWorker ws wk') rd' ∧ MNU ts (putWorker ws wk') := by
  have hid : told.id = t := findTask_some_id ht
  obtain ⟨a, b⟩ := h.mv_sn hm (t' := told) (told := told) (wk := wk) (wk' := wk') (rd' := rd') (by rw [hid]; exact ht) hw hsn hsn'
    (by rw [hid]; exact hA) (by rw [hid]; exact hP) (by rw [hid]; exact hrd) (fun _ e => e)
    (by rw [hid]; exact h1) (by rw [hid]; exact h2) (by rw [hid]; exact h4)
  have hst : ∀ u, stOf ts u = stOf (putTask ts told) u := by
    intro u; rw [stOf_put (told := told) (by rw [hid]; exact ht)]; split
    · rename_i e; rw [e, hid, stOf_of_find ht]
    · rfl
  exact ⟨a.congr_tasks hst, b.congr_tasks hst⟩

/-! ### `task_failed` -/

theorem removeWaitingAll_tw {D} (ids : List TaskId) (s s' : State) (hi : TWI D s) (hinv : Inv s)
    (h : s.removeWaitingAll ids = .ok s') : TWI D s' := by
  induction ids generalizing s with
  | nil => simp only [State.removeWaitingAll] at h; cases h; exact hi
  | cons t rest ih =>
    simp only [State.removeWaitingAll] at h
    split at h
    · cases h
    · rename_i s1 st h1
      split at h
      · rename_i n
        have hs := (removeTask_spec h1).1
        have hf : Free s t := hinv.free_of_state (Or.inr (Or.inl ⟨n, hs⟩))
        exact ih _ ((removeTask_tw hi hinv.nd hf h1).mono (fun u hu => hu.1)) (removeTask_inv hinv hf h1) h
      · cases h

theorem taskFailed_pre_tw {s s1 : State} {worker : Option Nat} {id : TaskId} {task : Task}
    (hi : TWI noD s) (ht : findTask s.tasks id = some task)
    (h : (match worker with
      | some w =>
        if s.isMultiNode task.rq then
          match task.state with
          | .runningMN ws =>
            match ws with
            | root :: _ => if root ≠ w then .error (.panic "task_failed.assert_root") else resetMnAll s ws
            | [] => .error (.panic "task_failed.ws0")
          | _ => .error (.panic "task_failed.mn_placement_unwrap")
        else
          match task.state with
          | .assigned w' rv | .running w' rv =>
            if w ≠ w' then .error (.panic "task_failed.assert_worker") else
            match s.rq task.rq rv with
            | .error e => .error e
            | .ok r => s.withWorker w (·.removeSn id r)
          | .prefilled w' =>
            if w ≠ w' then .error (.panic "task_failed.assert_worker") else
            match s.removePrefilled task.rq id with
            | .error e => .error e
            | .ok s1 => s1.withWorker w (·.removePrefill id)
          | .retracting w' =>
            if w ≠ w' then .error (.panic "task_failed.assert_worker") else
            s.tryRemoveRedirection id task.rq
          | _ => .ok s
      | none =>
        match task.state with
        | .waiting _ => .ok s
        | _ => .error (.panic "task_failed.assert_waiting") : M State) = .ok s1) :
    TWI (fun u => u = id) s1 := by
  have hst := stOf_of_find ht
  have hm0 : ∀ {s1 : State}, s1.tasks = s.tasks → TW3 (fun u => noD u ∨ u = id) s.tasks s1.workers s1.redirects →
      MNU s.tasks s1.workers → TWI (fun u => u = id) s1 := by
    intro s1 e a b
    exact ⟨by rw [e]; exact a.mono (fun u hu => by rcases hu with h1 | h1; exact h1.elim; exact h1), by rw [e]; exact b⟩
  split at h
  · rename_i w
    split at h
    · split at h
      · rename_i ws hs
        split at h
        · split at h
          · cases h
          · obtain ⟨a, b⟩ := resetMnAll_tw _ s s1 hi.tw hi.mnu (by rw [hst, hs]) (fun _ h => h) h
            exact hm0 (resetMnAll_tasks _ _ _ h) a b
        · cases h
      · cases h
    · split at h
      · split at h
        · cases h
        · split at h
          · cases h
          · obtain ⟨a, b⟩ := removeSn_tw hi.tw hi.mnu h
            exact hm0 (withWorker_tasks h) a b
      · split at h
        · cases h
        · split at h
          · cases h
          · obtain ⟨a, b⟩ := removeSn_tw hi.tw hi.mnu h
            exact hm0 (withWorker_tasks h) a b
      · split at h
        · cases h
        · split at h
          · cases h
          · rename_i s0 hq
            have hc := removePrefilled_core hq
            have hi0 := hc.twi hi
            obtain ⟨a, b⟩ := removePrefill_tw hi0.tw hi0.mnu h
            have e : s1.tasks = s.tasks := (withWorker_tasks h).trans hc.t
            rw [hc.t] at a b
            exact hm0 e a b
      · rename_i w' hs
        split at h
        · cases h
        · obtain ⟨a, b⟩ := tryRemoveRedirection_tw hi.tw hi.mnu (by rw [hst, hs]) h
          exact hm0 (tryRemoveRedirection_tasks h) (a.mono (fun u hu => Or.inl hu)) b
      · cases h; exact hi.mono (fun u hu => hu.elim)
  · split at h
    · cases h; exact hi.mono (fun u hu => hu.elim)
    · cases h

theorem taskFailed_tw {s s' : State} {worker : Option Nat} {id : TaskId} {ret : List TaskId} {o : Out}
    (hi : TWI noD s) (hinv : Inv s) (h : s.taskFailed worker id ret = .ok (s', o)) : TWI noD s' := by
  simp only [State.taskFailed, State.task?] at h
  split at h
  · cases h; exact hi
  · rename_i task ht
    split at h
    · cases h
    · rename_i s1 hpre
      obtain ⟨hi1, hf1, _⟩ := taskFailed_pre_inv hinv ht hpre
      have ht1 := taskFailed_pre_tw hi ht hpre
      split at h
      · cases h
      · split at h
        · cases h
        · rename_i s2 h2
          obtain ⟨hi2, hf2⟩ := removeWaitingAll_inv _ _ _ hi1 h2
          have ht2 := removeWaitingAll_tw _ _ _ ht1 hi1 h2
          split at h
          · cases h
          · rename_i s3 st h3
            have hi3 := removeTask_inv hi2 (hf2 _ hf1) h3
            have ht3 : TWI noD s3 := (removeTask_tw ht2 hi2.nd (hf2 _ hf1) h3).mono (fun u hu => hu.2 hu.1)
            clear hpre
            repeat' (split at h)
            all_goals first | (cases h; done) | (cases h; exact ht3) | (cases h; exact cancelTasks_tw ht3 hi3 ‹_›)

/-! ### `task_running` -/

theorem taskRunning_tw {s s' : State} {w : Nat} {id : TaskId} {rv : Nat} {o : Out}
    (hi : TWI noD s) (h : s.taskRunning w id rv = .ok (s', o)) : TWI noD s' := by
  simp only [State.taskRunning, State.task?] at h
  split at h
  · cases h; exact hi
  · rename_i task ht
    have hid : task.id = id := findTask_some_id ht
    have hst := stOf_of_find ht
    have ht' : ∀ st, findTask s.tasks ({ task with state := st } : Task).id = some task := by
      intro st; simpa [hid] using ht
    split at h
    · -- assigned → running on the same worker
      rename_i w' rv' hs
      split at h
      · cases h
      · rename_i hw; simp only [ne_eq, Decidable.not_not] at hw; subst hw
        split at h
        · cases h
        · cases h
          have hmem : id ∈ asgW s.workers w' := hi.tw.t1 id w' rv' (fun e => e) (Or.inl (by rw [hst, hs]))
          have hnr := hi.tw.no_rd_of_state hst (by simp [hs])
          constructor
          · show TW3 noD (putTask s.tasks _) s.workers s.redirects
            refine hi.tw.frame id (fun u _ => Or.inr (fun e => e)) (fun u hu => by rw [stOf_put (ht' _), if_neg (by simpa [hid] using hu)])
              (fun _ _ _ h => h) (fun _ _ _ h => h) (fun _ _ _ h => h) (fun _ _ _ _ h => h) ?_ ?_ ?_ ?_ ?_
            · intro w v _ hs'
              rw [stOf_put (ht' _)] at hs'
              simp only [hid, if_true, Option.some.injEq] at hs'
              rcases hs' with e | e <;> cases e
              exact hmem
            · intro w _ hs'
              rw [stOf_put (ht' _)] at hs'
              simp only [hid, if_true, Option.some.injEq] at hs'; cases hs'
            · intro l _ hs'
              rw [stOf_put (ht' _)] at hs'
              simp only [hid, if_true, Option.some.injEq] at hs'; cases hs'
            · intro w v _ hm; exact absurd hm (hnr w v)
            · intro w v hm; exact absurd hm (hnr w v)
          · exact hi.mnu.put_nonmn (ht' _) (by simp)
    · -- prefilled → running
      rename_i w' hs
      split at h
      · cases h
      · rename_i hw; simp only [ne_eq, Decidable.not_not] at hw; subst hw
        split at h
        · cases h
        · split at h
          · cases h
          · rename_i s1 hww
            split at h
            · cases h
            · rename_i s2 hq
              cases h
              refine (queueRemove_core hq).twi ?_
              obtain ⟨wk, wk', hfw, hf, rfl⟩ := withWorker_spec hww
              obtain ⟨A, F, P, F', ha, _, hm, hnm, rfl⟩ := prefilledToStarted_spec hf
              change findWorker s.workers w' = some wk at hfw
              have hwid : wk.id = w' := findWorker_some_id hfw
              have hnr := hi.tw.no_rd_of_state hst (by simp [hs])
              have hfw' : findWorker s.workers ({ wk with assign := .sn (A ++ [id]) F' (P.erase id) } : Worker).id = some wk := by
                simpa [hwid] using hfw
              obtain ⟨a, b⟩ := hi.tw.mv_sn hi.mnu (t' := { task with state := .running w' rv }) (wk := wk)
                (wk' := { wk with assign := .sn (A ++ [id]) F' (P.erase id) }) (rd' := s.redirects) (ht' _) hfw'
                (by simp [wMn, ha]) (by simp [wMn])
                (by intro u _ hu; simp only [wAsg, ha] at hu ⊢; exact List.mem_append.mpr (Or.inl hu))
                (by intro u hu hu'; simp only [wPre, ha] at hu' ⊢; exact (List.mem_erase_of_ne (by simpa [hid] using hu)).mpr hu')
                (fun _ _ _ _ h => h) (by simp)
                (by
                  intro w v hs'
                  simp only [TS.assigned.injEq, TS.running.injEq, false_or, reduceCtorEq] at hs'
                  rw [asgW_put hfw', ← hs'.1]
                  simp [hwid, wAsg, hid])
                (by intro w hs'; simp at hs')
                (by intro w v hm'; exact absurd hm' (by simpa [hid] using hnr w v))
              exact ⟨a, b⟩
    · -- retracting → running
      rename_i w' hs
      split at h
      · cases h
      · rename_i hw; simp only [ne_eq, Decidable.not_not] at hw; subst hw
        split at h
        · cases h
        · rename_i s1 hq
          have hc1 := queueRemove_core hq
          split at h
          · cases h
          · rename_i s2 hr
            split at h
            · cases h
            · split at h
              · cases h
              · rename_i s3 hww
                cases h
                have e1w : s1.workers = s.workers := hc1.w
                have e1r : s1.redirects = s.redirects := hc1.r
                have htw1 : TW3 noD s.tasks s1.workers s1.redirects := by rw [e1w, e1r]; exact hi.tw
                have hmn1 : MNU s.tasks s1.workers := by rw [e1w]; exact hi.mnu
                obtain ⟨a, b⟩ := tryRemoveRedirection_tw htw1 hmn1 (by rw [hst, hs]) hr
                obtain ⟨c, _, hcase⟩ := tryRemoveRedirection_spec hr
                have hnr2 : ∀ x v, (id, x, v) ∉ s2.redirects := by
                  rcases hcase with ⟨hn, _, hrd⟩ | ⟨w, v, r, wk, A, F, P, F', _, _, _, _, _, _, _, hrd⟩
                  · rw [hrd, e1r] at *; exact fun x v => rd_find_none hn x v
                  · rw [hrd]; intro x v hm; exact absurd rfl (rd_filter_mem.mp hm).2
                obtain ⟨wk, wk', hfw, hf, rfl⟩ := withWorker_spec hww
                obtain ⟨A, F, P, F', ha, _, hnm, rfl⟩ := insertSn_spec hf
                have hwid : wk.id = w' := findWorker_some_id hfw
                have hfw' : findWorker s2.workers ({ wk with assign := .sn (A ++ [id]) F' P } : Worker).id = some wk := by
                  simpa [hwid] using hfw
                have e2t : s2.tasks = putTask s.tasks { task with state := .running w' rv } := by rw [c, hc1.t]; rfl
                obtain ⟨a', b'⟩ := a.mv_sn b (t' := { task with state := .running w' rv }) (wk := wk)
                  (wk' := { wk with assign := .sn (A ++ [id]) F' P }) (rd' := s2.redirects) (ht' _) hfw'
                  (by simp [wMn, ha]) (by simp [wMn])
                  (by intro u _ hu; simp only [wAsg, ha] at hu ⊢; exact List.mem_append.mpr (Or.inl hu))
                  (by intro u _ hu; simpa [wPre, ha] using hu)
                  (fun _ _ _ _ h => h) (by simp)
                  (by
                    intro w v hs'
                    simp only [TS.assigned.injEq, TS.running.injEq, false_or, reduceCtorEq] at hs'
                    rw [asgW_put hfw', ← hs'.1]
                    simp [hwid, wAsg, hid])
                  (by intro w hs'; simp at hs')
                  (by intro w v hm'; exact absurd hm' (by simpa [hid] using hnr2 w v))
                constructor
                · show TW3 noD s2.tasks (putWorker s2.workers _) s2.redirects
                  rw [e2t]; exact a'
                · show MNU s2.tasks (putWorker s2.workers _)
                  rw [e2t]; exact b'
    · -- multi-node: the started flag
      split at h
      · split at h
        · cases h
        · split at h
          · cases h
          · rename_i s1 hww
            cases h
            obtain ⟨wk, wk', hfw, hf, rfl⟩ := withWorker_spec hww
            obtain ⟨e0, e1, e2, e3⟩ := mnStarted_views hf
            have hfw' : findWorker s.workers wk'.id = some wk := by rw [e0, findWorker_some_id hfw]; exact hfw
            exact hi.setWorker_same hfw' e1 e2 e3
      · cases h
    · cases h
    · cases h
    · cases h

/-! ### `task_finished` -/

theorem wakeConsumers_tw {D} (cs : List TaskId) (s s' : State) (r r' : List TaskId) (hi : TWI D s)
    (h : s.wakeConsumers cs r = .ok (s', r')) : TWI D s' := by
  induction cs generalizing s r with
  | nil => simp only [State.wakeConsumers] at h; cases h; exact hi
  | cons c rest ih =>
    simp only [State.wakeConsumers] at h
    split at h
    · cases h
    · rename_i t hg
      have ht := getTask_spec hg
      have hid : t.id = c := findTask_some_id ht
      split at h
      · rename_i n hs
        have ht' : findTask s.tasks ({ t with state := .waiting n } : Task).id = some t := by simpa [hid] using ht
        have hi1 : TWI D (s.setTask { t with state := .waiting n }) :=
          (hi.put_noob ht' trivial (by simp [hs])).mono (fun u hu => hu.1)
        split at h
        · split at h
          · cases h
          · rename_i s2 r2 ha
            exact ih _ _ ((addReady_core ha).twi hi1) h
        · exact ih _ _ hi1 h
      · cases h

theorem taskFinished_tw {s s' : State} {w : Nat} {id : TaskId} {o : Out} {b : Bool}
    (hi : TWI noD s) (hinv : Inv s) (h : s.taskFinished w id = .ok (s', o, b)) : TWI noD s' := by
  simp only [State.taskFinished, State.task?] at h
  split at h
  · cases h; exact hi
  · rename_i task ht
    have hst := stOf_of_find ht
    have hid : task.id = id := findTask_some_id ht
    split at h
    · cases h
    · rename_i s1 hpre
      have hd : TWI (fun u => u = id) s1 ∧ s1.tasks = s.tasks ∧ (∀ x v, (id, x, v) ∉ s1.redirects) := by
        clear h
        have hm0 : ∀ {s1 : State}, s1.tasks = s.tasks → TW3 (fun u => noD u ∨ u = id) s.tasks s1.workers s1.redirects →
            MNU s.tasks s1.workers → TWI (fun u => u = id) s1 := by
          intro s1 e a b
          exact ⟨by rw [e]; exact a.mono (fun u hu => by rcases hu with h1 | h1; exact h1.elim; exact h1), by rw [e]; exact b⟩
        split at hpre
        · rename_i w' rv hs
          split at hpre
          · cases hpre
          · split at hpre
            · cases hpre
            · obtain ⟨a, b⟩ := removeSn_tw hi.tw hi.mnu hpre
              refine ⟨hm0 (withWorker_tasks hpre) a b, withWorker_tasks hpre, ?_⟩
              rw [withWorker_redirects hpre]
              exact hi.tw.no_rd_of_state hst (by simp [hs])
        · rename_i w' rv hs
          split at hpre
          · cases hpre
          · split at hpre
            · cases hpre
            · obtain ⟨a, b⟩ := removeSn_tw hi.tw hi.mnu hpre
              refine ⟨hm0 (withWorker_tasks hpre) a b, withWorker_tasks hpre, ?_⟩
              rw [withWorker_redirects hpre]
              exact hi.tw.no_rd_of_state hst (by simp [hs])
        · rename_i ws hs
          split at hpre
          · split at hpre
            · cases hpre
            · obtain ⟨a, b⟩ := resetMnChecked_tw _ s s1 hi.tw hi.mnu (by rw [hst, hs]) (fun _ h => h) hpre
              obtain ⟨_, _, c, d, _⟩ := resetMnChecked_ls _ _ _ _ hinv.ls hpre
              refine ⟨hm0 c a b, c, ?_⟩
              rw [d]
              exact hi.tw.no_rd_of_state hst (by simp [hs])
          · cases hpre
        · rename_i w' hs
          split at hpre
          · cases hpre
          · obtain ⟨a, b⟩ := tryRemoveRedirection_tw hi.tw hi.mnu (by rw [hst, hs]) hpre
            obtain ⟨_, _, hnr, _⟩ := tryRemoveRedirection_ls hinv.ls hpre
            exact ⟨hm0 (tryRemoveRedirection_tasks hpre) (a.mono (fun u hu => Or.inl hu)) b,
              tryRemoveRedirection_tasks hpre, hnr⟩
        · cases hpre
        · cases hpre
        · cases hpre
      obtain ⟨ht1, e1, hnr1⟩ := hd
      clear hpre
      have ht1' : findTask s1.tasks ({ task with state := .finished } : Task).id = some task := by
        rw [e1]; simpa [hid] using ht
      have hi2 : TWI noD (s1.setTask { task with state := .finished }) := by
        constructor
        · refine (ht1.tw.put_noob ht1' trivial (fun _ _ _ _ h => h)
            (fun x v hm => absurd hm (by simpa [hid] using hnr1 x v))).mono ?_
          intro u hu
          exact hu.2 (by simpa [hid] using hu.1)
        · exact ht1.mnu.put_nonmn ht1' (by simp)
      split at h
      · cases h
      · rename_i s3 retracted h3
        have hi3 := wakeConsumers_tw _ _ _ _ _ hi2 h3
        split at h
        · cases h
        · rename_i s4 out h4
          have hi4 := retract_tw hi3 h4
          split at h
          · cases h
          · rename_i s5 st h5
            split at h
            · cases h
            · rename_i hfin
              simp only [ne_eq, Decidable.not_not] at hfin
              cases h
              have hs5 := (removeTask_spec h5).1
              have hn4 : (taskIds s4.tasks).Nodup := by
                have a1 : taskIds (s1.setTask { task with state := .finished }).tasks = taskIds s.tasks := by
                  rw [setTask_ids, e1]
                have a2 := wakeConsumers_ids _ _ _ _ _ h3
                have a3 : IdsStable s3 s4 := retract_stable h4
                rw [a3, a2, a1]; exact hinv.nd
              have hnr4 := hi4.tw.no_rd_of_state hs5 (by simp [hfin])
              exact (removeTask_tw' hi4 hn4 hnr4 h5).mono (fun u hu => hu.1)

/-! ### `task_reject`, `request_enabled` -/

theorem requeue_tw {s' s3 : State} {task : Task} {out : Out} {b : Bool} (hi : TWI (fun u => u = task.id) s')
    (ht : findTask s'.tasks task.id = some task) (hnr : ∀ x v, (task.id, x, v) ∉ s'.redirects)
    (h : (match (s'.setTask { task with state := .waiting 0 }).addReady { task with state := .waiting 0 } with
          | .error e => Except.error e
          | .ok (s2, retracted) =>
            match s2.retract retracted with
            | .error e => Except.error e
            | .ok (s3, out) => (Except.ok (s3, out, true) : M (State × Out × Bool))) = .ok (s3, out, b)) : TWI noD s3 := by
  have hi1 : TWI noD (s'.setTask { task with state := .waiting 0 }) := by
    constructor
    · exact (hi.tw.put_noob (t' := { task with state := .waiting 0 }) ht trivial (fun _ _ _ _ h => h)
        (fun x v hm => absurd hm (hnr x v))).mono (fun u hu => hu.2 hu.1)
    · exact hi.mnu.put_nonmn (t' := { task with state := .waiting 0 }) ht (by simp)
  split at h
  · cases h
  · rename_i s2 retracted ha
    split at h
    · cases h
    · rename_i s4 out4 hr
      cases h
      exact retract_tw ((addReady_core ha).twi hi1) hr

/-- Retracting → Assigned on the redirect target (which holds the task), the redirect is consumed -/
theorem resolve_redirect_tw {s : State} (hi : TWI noD s) {task : Task} {id : TaskId} {w0 target trv : Nat} {inst : Nat}
    (ht : findTask s.tasks id = some task) (hs : task.state = .retracting w0)
    (hfind : s.redirects.find? (·.1 = id) = some (id, target, trv)) :
    TW3 noD (putTask s.tasks { task with inst := inst, state := .assigned target trv }) s.workers
        (s.redirects.filter (·.1 ≠ id)) ∧
    MNU (putTask s.tasks { task with inst := inst, state := .assigned target trv }) s.workers := by
  have hid : task.id = id := findTask_some_id ht
  have hmem := (rd_mem_of_find hfind).1
  have hin : id ∈ asgW s.workers target := hi.tw.d1 id target trv (fun e => e) hmem
  have ht1 : findTask s.tasks ({ task with inst := inst, state := .assigned target trv } : Task).id = some task := by
    rw [hid]; exact ht
  constructor
  · refine hi.tw.frame id (fun u _ => Or.inr (fun e => e)) (fun u hu => by rw [stOf_put ht1, if_neg (by simpa [hid] using hu)])
      (fun _ _ _ h => h) (fun _ _ _ h => h) (fun _ _ _ h => h) (fun _ _ _ _ h => (rd_filter_mem.mp h).1) ?_ ?_ ?_ ?_ ?_
    · intro w v _ hs'
      rw [stOf_put ht1] at hs'
      simp only [hid, if_true, Option.some.injEq] at hs'
      rcases hs' with e | e <;> cases e
      exact hin
    · intro w _ hs'
      rw [stOf_put ht1] at hs'
      simp only [hid, if_true, Option.some.injEq] at hs'; cases hs'
    · intro l _ hs'
      rw [stOf_put ht1] at hs'
      simp only [hid, if_true, Option.some.injEq] at hs'; cases hs'
    · intro w v _ hm; exact absurd rfl (rd_filter_mem.mp hm).2
    · intro w v hm; exact absurd rfl (rd_filter_mem.mp hm).2
  · exact hi.mnu.put_nonmn ht1 (by simp)

theorem taskReject_tw {s s' : State} {w : Nat} {id : TaskId} {rv : Option Nat} {o : Out} {b : Bool}
    (hi : TWI noD s) (hok : RejectOk s w id rv) (h : s.taskReject w id rv = .ok (s', o, b)) : TWI noD s' := by
  unfold State.taskReject at h
  split at h
  · cases h; exact hi
  · rename_i task ht
    have hok' := fun a b => hok task a b ht
    simp only [State.task?] at ht
    have hid : task.id = id := findTask_some_id ht
    have hst := stOf_of_find ht
    split at h
    · cases h
    · rename_i wk0 hg
      have hfw0 := getWorker_spec hg
      extract_lets wk s0 tw requeue s1r at h
      have hv : wk.id = wk0.id ∧ wAsg wk = wAsg wk0 ∧ wPre wk = wPre wk0 ∧ wMn wk = wMn wk0 := by
        cases rv <;> exact ⟨rfl, rfl, rfl, rfl⟩
      clear_value wk
      obtain ⟨b0, b1, b2, b3⟩ := hv
      have hi0 : TWI noD s0 :=
        hi.setWorker_same (wk := wk0) (by rw [b0, findWorker_some_id hfw0]; exact hfw0) b1 b2 b3
      have ht0 : findTask s0.tasks task.id = some task := by rw [hid]; exact ht
      have hm0 : ∀ {s1 : State}, s1.tasks = s0.tasks → TW3 (fun u => noD u ∨ u = id) s0.tasks s1.workers s1.redirects →
          MNU s0.tasks s1.workers → TWI (fun u => u = task.id) s1 := by
        intro s1 e a b
        exact ⟨by rw [e]; exact a.mono (fun u hu => by rcases hu with h1 | h1; exact h1.elim; rw [hid]; exact h1),
          by rw [e]; exact b⟩
      split at h
      · -- assigned
        rename_i w' rv' hs
        obtain ⟨e1, e2⟩ := hok' w' rv' hs
        subst e1
        simp only [ne_eq, not_true_eq_false, if_false, e2] at h
        split at h
        · cases h
        · split at h
          · cases h
          · rename_i s1 hw
            obtain ⟨a, b'⟩ := removeSn_tw hi0.tw hi0.mnu hw
            simp only [requeue] at h
            refine requeue_tw (hm0 (withWorker_tasks hw) a b') (by rw [withWorker_tasks hw]; exact ht0) ?_ h
            rw [withWorker_redirects hw, hid]
            exact hi.tw.no_rd_of_state hst (by simp [hs])
      · -- prefilled
        rename_i w' hs
        split at h
        · cases h
        · rename_i s1 hw
          obtain ⟨a, b'⟩ := removePrefill_tw hi0.tw hi0.mnu hw
          split at h
          · cases h
          · rename_i s2 hq
            have hc := removePrefilled_core hq
            simp only [requeue] at h
            refine requeue_tw (hc.twi (hm0 (withWorker_tasks hw) a b')) (by rw [hc.t, withWorker_tasks hw]; exact ht0) ?_ h
            rw [hc.r, withWorker_redirects hw, hid]
            exact hi.tw.no_rd_of_state hst (by simp [hs])
      · -- retracting
        rename_i w' hs
        split at h
        · simp only [Except.ok.injEq, Prod.mk.injEq] at h
          rw [← h.1]; exact hi0
        · split at h
          · rename_i t0 target trv hfind
            simp only [Except.ok.injEq, Prod.mk.injEq] at h
            rw [← h.1]
            have hmem := rd_mem_of_find hfind
            have ht0' : t0 = id := by simpa using hmem.2
            subst ht0'
            obtain ⟨k1, k2⟩ := resolve_redirect_tw (inst := task.inst) hi0 (by rw [← hid]; exact ht0) hs hfind
            exact ⟨k1, k2⟩
          · rename_i hnone
            simp only [requeue] at h
            refine requeue_tw (hi0.mono (fun u hu => hu.elim)) ht0 ?_ h
            rw [hid]; exact fun x v => rd_find_none hnone x v
      · -- multi-node: refused by its root worker before the start was reported
        rename_i ws hs
        split at h
        · cases h
        · split at h
          · simp only [Except.ok.injEq, Prod.mk.injEq] at h
            rw [← h.1]; exact hi0
          · split at h
            · simp only [Except.ok.injEq, Prod.mk.injEq] at h
              rw [← h.1]; exact hi0
            · split at h
              · simp only [Except.ok.injEq, Prod.mk.injEq] at h
                rw [← h.1]; exact hi0
              · split at h
                · cases h
                · rename_i s1 hr
                  have hst0 : stOf s0.tasks id = some task.state := hst
                  rw [hs] at hst0
                  obtain ⟨a, b'⟩ := resetMnChecked_tw _ s0 s1 hi0.tw hi0.mnu hst0 (fun _ h => h) hr
                  have c : s1.tasks = s0.tasks := resetMnChecked_tasks _ _ _ _ hr
                  have d : s1.redirects = s0.redirects := resetMnChecked_redirects _ _ _ _ hr
                  simp only [requeue] at h
                  refine requeue_tw (hm0 c a b') (by rw [c]; exact ht0) ?_ h
                  rw [d, hid]
                  exact hi.tw.no_rd_of_state hst (by simp [hs])
      · cases h
      · cases h
      · cases h

theorem requestEnabled_tw {D} {s s' : State} {w rq rv : Nat} (hi : TWI D s) (h : s.requestEnabled w rq rv = .ok s') :
    TWI D s' := by
  obtain ⟨wk, wk', hfw, hf, rfl⟩ := withWorker_spec h
  cases hf
  exact hi.setWorker_same (wk := wk) (by simpa [findWorker_some_id hfw] using hfw) rfl rfl rfl

/-! ### `on_task_update`, `on_retract_response` -/

theorem updateState_tw {s s1 : State} {w : Nat} {u : Update} {rets rets' : List (List TaskId)}
    (hi : TWI noD s) (hinv : Inv s) (hok : UpdProto s w u) (h : s.updateState w u rets = .ok (s1, rets')) :
    TWI noD s1 := by
  cases u with
  | finished t =>
    simp only [State.updateState] at h
    split at h
    · cases h
    · rename_i h1; cases h; exact taskFinished_tw hi hinv h1
  | failed t =>
    simp only [State.updateState] at h
    split at h
    · cases h
    · rename_i h1; cases h; exact taskFailed_tw hi hinv h1
  | running t rv =>
    simp only [State.updateState] at h
    split at h
    · cases h
    · rename_i h1; cases h; exact taskRunning_tw hi h1
  | runningPrefilled t rv =>
    simp only [State.updateState] at h
    split at h
    · cases h
    · rename_i h1; cases h; exact taskRunning_tw hi h1
  | reject t rv =>
    simp only [State.updateState] at h
    split at h
    · cases h
    · rename_i h1; cases h; exact taskReject_tw hi hok h1
  | enable rq rv =>
    simp only [State.updateState] at h
    split at h
    · cases h
    · rename_i h1; cases h; exact requestEnabled_tw hi h1

theorem updateLoop_tw (us : List Update) (s s' : State) (w : Nat) (rets rets' : List (List TaskId)) (o o' : Out)
    (n n' : Bool) (hi : TWI noD s) (hinv : Inv s) (hok : UpdatesOk UpdProto s w us rets)
    (h : s.updateLoop w us rets o n = .ok (s', o', n', rets')) : TWI noD s' := by
  induction us generalizing s rets o n with
  | nil => simp only [State.updateLoop] at h; cases h; exact hi
  | cons u rest ih =>
    obtain ⟨s1, rets1, out1, need1, h1, h2⟩ := updateLoop_cons h
    simp only [UpdatesOk, h1] at hok
    exact ih _ _ _ _ (updateState_tw hi hinv hok.1 h1) (updateState_inv hinv hok.1 h1) hok.2 h2

theorem taskUpdate_tw {s s' : State} {w : Nat} {us : List Update} {rets : List (List TaskId)} {o : Out}
    (hi : TWI noD s) (hinv : Inv s) (hok : UpdatesOk UpdProto s w us rets) (h : s.taskUpdate w us rets = .ok (s', o)) :
    TWI noD s' := by
  simp only [State.taskUpdate] at h
  split at h
  · cases h
  · rename_i s1 out need rets' h1
    cases h
    have := updateLoop_tw _ _ _ _ _ _ _ _ _ _ hi hinv hok h1
    split
    · exact (CoreEq.ask s1).twi this
    · exact this

theorem retractLoop_tw (ids : List TaskId) (s s' : State) (w : Nat) (acc acc' : List (Nat × TaskId × Nat))
    (hi : TWI noD s) (h : s.retractLoop w ids acc = .ok (s', acc')) : TWI noD s' := by
  induction ids generalizing s acc with
  | nil => simp only [State.retractLoop] at h; cases h; exact hi
  | cons id rest ih =>
    simp only [State.retractLoop, State.task?] at h
    split at h
    · exact ih _ _ hi h
    · rename_i task ht
      have hid : task.id = id := findTask_some_id ht
      split at h
      · exact ih _ _ hi h
      · rename_i hs
        simp only [ne_eq, Decidable.not_not] at hs
        split at h
        · rename_i t0 target trv hfind
          refine ih _ _ ?_ h
          have hmem := rd_mem_of_find hfind
          have ht0' : t0 = id := by simpa using hmem.2
          subst ht0'
          obtain ⟨k1, k2⟩ := resolve_redirect_tw (inst := task.inst) hi ht hs hfind
          exact ⟨k1, k2⟩
        · rename_i hnone
          refine ih _ _ ?_ h
          have ht1 : findTask s.tasks ({ task with state := .waiting 0 } : Task).id = some task := by
            rw [hid]; exact ht
          constructor
          · exact (hi.tw.put_noob ht1 trivial (fun _ _ _ _ h => h)
              (fun x v hm => absurd hm (by show (task.id, x, v) ∉ _; rw [hid]; exact rd_find_none hnone x v))).mono
              (fun u hu => hu.1)
          · exact hi.mnu.put_nonmn ht1 (by simp)

theorem retractResponse_tw {s s' : State} {w : Nat} {ids : List TaskId} {o : Out}
    (hi : TWI noD s) (h : s.retractResponse w ids = .ok (s', o)) : TWI noD s' := by
  simp only [State.retractResponse] at h
  split at h
  · cases h
  · rename_i s1 items h1
    split at h
    · cases h
    · cases h; exact retractLoop_tw _ _ _ _ _ _ hi h1

end HqModel.Core
