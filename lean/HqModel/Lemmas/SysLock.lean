import HqModel.Lemmas.SysOk
/-!
The two loops of the core in which the client callback is re-entrant (`on_task_update` and the crash loop of
`on_remove_worker`), in lock step with the job layer: the callbacks of the whole loop, delivered in order starting
from a coupled job state, are accepted, and every prefix of the delivery re-establishes the coupling with the
intermediate core state — the interleaved execution of the real server and "core step first, callbacks afterwards"
of `Sys.step` are the same.
-/
namespace HqModel.Core

/-- one update of `on_task_update` with its output and the unconsumed `rets` -/
def State.upd1 (s : State) (w : Nat) (u : Update) (rets : List (List TaskId)) : M (State × Out × List (List TaskId)) :=
  match u with
  | .finished t =>
    match s.taskFinished w t with
    | .error e => .error e
    | .ok (s1, o, _) => .ok (s1, o, rets)
  | .failed t =>
    match s.taskFailed (some w) t (if (s.task? t).isSome then rets.headD [] else []) with
    | .error e => .error e
    | .ok (s1, o) => .ok (s1, o, if (s.task? t).isSome then rets.tail else rets)
  | .running t rv | .runningPrefilled t rv =>
    match s.taskRunning w t rv with
    | .error e => .error e
    | .ok (s1, o) => .ok (s1, o, rets)
  | .reject t rv =>
    match s.taskReject w t rv with
    | .error e => .error e
    | .ok (s1, o, _) => .ok (s1, o, rets)
  | .enable rq rv =>
    match s.requestEnabled w rq rv with
    | .error e => .error e
    | .ok s1 => .ok (s1, {}, rets)

theorem upd1_updateState {s s1 : State} {w : Nat} {u : Update} {rets rets1 : List (List TaskId)} {o : Out}
    (h : s.upd1 w u rets = .ok (s1, o, rets1)) : s.updateState w u rets = .ok (s1, rets1) := by
  cases u <;> simp only [State.upd1] at h <;> simp only [State.updateState] <;> split at h <;>
    first | (cases h; done) | (rename_i h1; cases h; rw [h1])

theorem Out.add_cbs (a b : Out) : (a.add b).cbs = a.cbs ++ b.cbs := rfl

theorem updateLoop_cons_out {s : State} {w : Nat} {u : Update} {rest : List Update} {rets : List (List TaskId)} {out : Out}
    {need : Bool} {res : State × Out × Bool × List (List TaskId)}
    (h : s.updateLoop w (u :: rest) rets out need = .ok res) :
    ∃ s1 o1 rets1 need1, s.upd1 w u rets = .ok (s1, o1, rets1) ∧
      s1.updateLoop w rest rets1 (out.add o1) need1 = .ok res := by
  cases u with
  | finished t =>
    simp only [State.updateLoop] at h
    simp only [State.upd1]
    split at h
    · cases h
    · rename_i s1 o n h1
      exact ⟨s1, o, rets, _, by rw [h1], h⟩
  | failed t =>
    simp only [State.updateLoop] at h
    simp only [State.upd1]
    by_cases hk : (s.task? t).isSome
    · simp only [hk, if_true] at h ⊢
      split at h
      · cases h
      · rename_i s1 o h1
        exact ⟨s1, o, _, _, by rw [h1], h⟩
    · simp only [hk, Bool.false_eq_true, if_false] at h ⊢
      split at h
      · cases h
      · rename_i s1 o h1
        exact ⟨s1, o, _, _, by rw [h1], h⟩
  | running t rv =>
    simp only [State.updateLoop] at h
    simp only [State.upd1]
    split at h
    · cases h
    · rename_i s1 o h1
      exact ⟨s1, o, rets, _, by rw [h1], h⟩
  | runningPrefilled t rv =>
    simp only [State.updateLoop] at h
    simp only [State.upd1]
    split at h
    · cases h
    · rename_i s1 o h1
      exact ⟨s1, o, rets, _, by rw [h1], h⟩
  | reject t rv =>
    simp only [State.updateLoop] at h
    simp only [State.upd1]
    split at h
    · cases h
    · rename_i s1 o n h1
      exact ⟨s1, o, rets, _, by rw [h1], h⟩
  | enable rq rv =>
    simp only [State.updateLoop] at h
    simp only [State.upd1]
    split at h
    · cases h
    · rename_i s1 h1
      refine ⟨s1, {}, rets, true, by rw [h1], ?_⟩
      have : out.add {} = out := by simp [Out.add]
      rw [this]; exact h

end HqModel.Core

namespace HqModel.Sys
open HqModel

/-- one update of a worker message and the delivery of its callbacks -/
theorem pair_upd1 {js : Job.State} {c c1 : Core.State} {w : Nat} {u : Core.Update} {rets rets1 : List (List TaskId)}
    {o1 : Core.Out} (h0 : Coupled0 js c) (hi : Core.InvF c) (hok : UpdOk c w u)
    (h : c.upd1 w u rets = .ok (c1, o1, rets1)) : GoodR c1 rets1 (route js rets o1.cbs) := by
  have hmn : ∀ id l, Core.stOf c.tasks id = some (.runningMN l) → ∀ x ∈ l, Core.mnW c.workers x = some id :=
    fun id l hs x hx => hi.tw.tw.t3 id l (fun e => e) hs x hx
  cases u with
  | finished t =>
    simp only [Core.State.upd1] at h
    split at h
    · cases h
    · rename_i s1 o b h1
      cases h
      exact pair_finished h0 hok.2 h1
  | failed t =>
    simp only [Core.State.upd1] at h
    split at h
    · cases h
    · rename_i s1 o h1
      cases h
      by_cases hk : (c.task? t).isSome = true
      · simp only [hk, if_true] at h1 ⊢
        exact pair_failed h0 hk h1
      · simp only [hk, Bool.false_eq_true, if_false] at h1 ⊢
        have hno : c.task? t = none := by
          cases hf : c.task? t with
          | none => rfl
          | some x => rw [hf] at hk; simp at hk
        simp only [Core.State.taskFailed, hno] at h1
        cases h1
        exact GoodR.nil h0
  | running t rv =>
    simp only [Core.State.upd1] at h
    split at h
    · cases h
    · rename_i s1 o h1
      cases h
      exact pair_running h0 (hmn t) h1
  | runningPrefilled t rv =>
    simp only [Core.State.upd1] at h
    split at h
    · cases h
    · rename_i s1 o h1
      cases h
      exact pair_running h0 (hmn t) h1
  | reject t rv =>
    simp only [Core.State.upd1] at h
    split at h
    · cases h
    · rename_i s1 o b h1
      cases h
      rw [Core.taskReject_cbs h1]
      exact GoodR.nil (h0.core_silent (Core.taskReject_frc h1) (Core.taskReject_stable h1))
  | enable rq rv =>
    simp only [Core.State.upd1] at h
    split at h
    · cases h
    · rename_i s1 h1
      cases h
      exact GoodR.nil (h0.core_silent (Core.requestEnabled_frc h1) (by rw [Core.requestEnabled_tasks h1]))

/-- **`on_task_update` in lock step** -/
theorem lock_update (w : Nat) (us : List Core.Update) :
    ∀ (c c' : Core.State) (rets rets' : List (List TaskId)) (out out' : Core.Out) (need need' : Bool),
      Core.InvF c → Core.UpdatesOk UpdOk c w us rets →
      c.updateLoop w us rets out need = .ok (c', out', need', rets') →
      ∃ cbs, out'.cbs = out.cbs ++ cbs ∧ ∀ js, Coupled0 js c → GoodR c' rets' (route js rets cbs) := by
  induction us with
  | nil =>
    intro c c' rets rets' out out' need need' _ _ h
    simp only [Core.State.updateLoop] at h
    cases h
    exact ⟨[], by simp, fun js h0 => GoodR.nil h0⟩
  | cons u rest ih =>
    intro c c' rets rets' out out' need need' hi hok h
    obtain ⟨c1, o1, rets1, need1, h1, h2⟩ := Core.updateLoop_cons_out h
    have hus := Core.upd1_updateState h1
    simp only [Core.UpdatesOk, hus] at hok
    have hi1 : Core.InvF c1 :=
      ⟨Core.updateState_inv hi.inv hok.1.proto hus, Core.updateState_tw hi.tw hi.inv hok.1.proto hus⟩
    obtain ⟨cbs2, e2, g2⟩ := ih c1 c' rets1 rets' _ out' need1 need' hi1 hok.2 h2
    refine ⟨o1.cbs ++ cbs2, by rw [e2, Core.Out.add_cbs, List.append_assoc], ?_⟩
    intro js h0
    exact GoodR.append (pair_upd1 h0 hi hok.1 h1) g2

/-- **the crash loop of `on_remove_worker` in lock step** -/
theorem lock_crash (f : Bool) (ids : List TaskId) :
    ∀ (c c' : Core.State) (rets : List (List TaskId)) (out out' : Core.Out),
      c.crashLoop f ids rets out = .ok (c', out') →
      ∃ cbs rets', out'.cbs = out.cbs ++ cbs ∧ ∀ js, Coupled0 js c → GoodR c' rets' (route js rets cbs) := by
  induction ids with
  | nil =>
    intro c c' rets out out' h
    simp only [Core.State.crashLoop] at h
    cases h
    exact ⟨[], rets, by simp, fun js h0 => GoodR.nil h0⟩
  | cons id rest ih =>
    intro c c' rets out out' h
    simp only [Core.State.crashLoop] at h
    split at h
    · exact ih _ _ _ _ _ h
    · rename_i task ht
      have f1 : Core.Frc c (c.setTask { task with crashes := (Core.crashOutcome task.crashLimit f task.crashes).1 }) :=
        Core.Fr.setState ht rfl rfl (Core.stOk.refl _ _)
      have e1 := Core.setTask_ids c { task with crashes := (Core.crashOutcome task.crashLimit f task.crashes).1 }
      split at h
      · split at h
        · cases h
        · rename_i c2 o2 h2
          obtain ⟨cbs2, rets', e2, g2⟩ := ih _ _ _ _ _ h
          refine ⟨o2.cbs ++ cbs2, rets', by rw [e2, Core.Out.add_cbs, List.append_assoc], ?_⟩
          intro js h0
          have h01 := h0.core_silent f1 e1
          have hk : ((c.setTask { task with crashes := (Core.crashOutcome task.crashLimit f task.crashes).1 }).task? id).isSome = true := by
            have hid := Core.findTask_some_id ht
            show (Core.findTask (Core.putTask c.tasks _) id).isSome = true
            rw [Core.findTask_putTask]
            simp only [hid, if_true]
            rw [show Core.findTask c.tasks id = some task from ht]
            rfl
          exact GoodR.append (pair_failed h01 hk h2) g2
      · obtain ⟨cbs2, rets', e2, g2⟩ := ih _ _ _ _ _ h
        exact ⟨cbs2, rets', e2, fun js h0 => g2 js (h0.core_silent f1 e1)⟩

end HqModel.Sys
