import HqModel.Lemmas.SysStep
/-!
`step_good`: for every coupled state and every world action satisfying `OpOk`, `Sys.step` re-establishes the coupling
or stops for a reason other than a panic of the job layer; `run_coupled`: the coupling holds after every run from the
empty system.
-/
namespace HqModel.Sys
open HqModel

theorem step_good {s : State} (hc : Coupled s) (op : Op) (hok : OpOk s op) : StepGood (step s op) := by
  obtain ⟨h0, hi⟩ := hc
  cases op with
  | openJob mf =>
    obtain ⟨⟨js', evs, id⟩, hj⟩ := openJob_ok h0.wf mf
    simp only [step, hj]
    obtain ⟨hw, hsent, hv⟩ := openJob_spec hj
    refine ⟨job_only_coupled h0 (wf_of_step (.openJob mf) (evs := evs) h0.wf (by simp [Job.step, hj, Except.map])) hw
      (fun x => by rw [hsent]) (fun x _ => hv x) (fun x h => by rw [← hv x]; exact h), hi⟩
  | close j =>
    simp only [step]
    obtain ⟨hw, hsent, hv⟩ := closeJob_spec s.job j
    refine ⟨job_only_coupled h0 (wf_of_step (.close j) (evs := (s.job.closeJob j).2.1) h0.wf (by simp [Job.step])) hw
      (fun x => by rw [hsent]) (fun x _ => hv x) (fun x h => by rw [← hv x]; exact h), hi⟩
  | forget j allowed =>
    obtain ⟨⟨js', b⟩, hj⟩ := forgetJob_ok h0.wf j allowed
    simp only [step, hj]
    obtain ⟨hw, hsent, hcase⟩ := forgetJob_spec h0.wf hj
    have hwf' := wf_of_step (.forget j allowed) (js' := js') (evs := []) h0.wf (by simp [Job.step, hj, Except.map])
    refine ⟨?_, hi⟩
    rcases hcase with ⟨_, rfl⟩ | ⟨_, hno, hv⟩
    · exact h0
    · refine job_only_coupled h0 hwf' hw (fun x => by rw [hsent]) ?_ ?_
      · intro x hl
        have : x.1 ≠ j := fun e => by rw [hno x e] at hl; cases hl
        rw [hv x]; simp [this]
      · intro x hl
        rw [hv x] at hl
        by_cases e : x.1 = j
        · simp [e, live] at hl
        · simpa [e] using hl
  | cancel j ids =>
    obtain ⟨⟨js', evs, resp⟩, hj⟩ := cancelJob_ok h0.wf j
    simp only [step, hj]
    obtain ⟨sr, hv, hsent, hresp⟩ := cancelJob_spec h0.wf hj
    have hwf' := wf_of_step (.cancel j) (js' := js') (evs := evs) h0.wf (by simp [Job.step, hj, Except.map])
    -- when no task of the job is non-terminal nothing changes
    have quiet : (∀ x : TaskId, x.1 = j → live (tst s.job x) = false) → Coupled0 js' s.core := by
      intro hno
      refine job_only_coupled h0 hwf' sr.workers ?_ ?_ ?_
      · intro x
        rw [hsent x]
        constructor
        · exact fun h => h.1
        · intro h; exact ⟨h, fun hc => by rw [hno x hc.1] at hc; cases hc.2⟩
      · intro x hl
        rw [hv x]
        have : ¬ (x.1 = j ∧ live (tst s.job x) = true) := fun hc => by rw [hno x hc.1] at hc; cases hc.2
        simp [this]
      · intro x hl
        rw [hv x] at hl
        by_cases hc : x.1 = j ∧ live (tst s.job x) = true
        · exact hc.2
        · simpa [hc] using hl
    rcases hresp with ⟨rfl, hnone⟩ | ⟨ts, n, rfl, hts⟩
    · refine ⟨quiet ?_, hi⟩
      intro x hx
      have : tst s.job x = none := by
        simp only [tst, tstJ]
        rw [hx, show Job.findJob s.job.jobs j = none from hnone]
      rw [this]; rfl
    · simp only
      split
      · rename_i hemp
        refine ⟨quiet ?_, hi⟩
        intro x hx
        have hts' : ts = [] := by simpa using hemp
        have := not_congr (hts x.2)
        rw [hts'] at this
        have hxe : x = (j, x.2) := Prod.ext hx rfl
        rw [← hxe] at this
        simpa using this
      · split
        · rename_i hss
          have hsame := sameSet_iff hss
          apply coreStep_good hi (by trivial)
          intro c' out hstep
          have hids : ∀ x : TaskId, x ∈ ids ↔ x.1 = j ∧ live (tst s.job x) = true := by
            intro x
            rw [hsame x]
            constructor
            · intro hx
              obtain ⟨y, hy, rfl⟩ := List.mem_map.mp hx
              exact ⟨rfl, (hts y).mp hy⟩
            · rintro ⟨h1, h2⟩
              have hxe : x = (j, x.2) := Prod.ext h1 rfl
              rw [hxe] at h2
              exact List.mem_map.mpr ⟨x.2, (hts x.2).mpr h2, hxe.symm⟩
          obtain ⟨hcb, hc'⟩ := cancel_coupled h0 hwf' sr.workers hv hsent hids hstep
          exact ⟨[], by rw [hcb]; exact GoodR.nil hc'⟩
        · trivial
  | submit job mf desc nts =>
    obtain ⟨⟨js', evs, resp, core⟩, hj⟩ := submit_ok h0.wf job mf hok
    simp only [step, hj]
    have hwf' := wf_of_step (.submit job mf desc) (js' := js') (evs := evs) h0.wf (by simp [Job.step, hj, Except.map])
    rcases submit_spec hok.1 hj with ⟨hno, rfl, _⟩ | ⟨j, rfl, hw, hsent, hnew, hv⟩
    · have : StepGood (.ok ({ s with job := s.job }, { evs := evs, resp := .submit resp })) := ⟨h0, hi⟩
      cases resp with
      | ok j => exact absurd rfl (hno j)
      | _ => exact this
    · simp only
      split
      · rename_i hnts
        obtain ⟨hids, hdeps⟩ := deps_of_ntsOk hnts
        split
        · -- an empty `TaskSubmit` does not reach the reactor
          rename_i hemp
          have hcore : core = [] := by
            have : nts = [] := by simpa using hemp
            rw [← hids, this]; rfl
          subst hcore
          refine ⟨job_only_coupled h0 hwf' hw (fun x => by rw [hsent]; simp) (fun x _ => by rw [hv x]; simp) ?_, hi⟩
          intro x hl
          rw [hv x] at hl
          simpa using hl
        · apply coreStep_good hi (by trivial)
          intro c' out hstep
          obtain ⟨hcb, hc'⟩ := submit_coupled h0 hwf' hw hsent hnew hv hids hdeps hstep
          exact ⟨[], by rw [hcb]; exact GoodR.nil hc'⟩
      · trivial
  | newWorker w =>
    simp only [step]
    refine coreStep_good (cop := .newWorker w) hi hok.1 ?_
    intro c' out hstep
    exact ⟨[], pair_newWorker h0 hok.1 hok.2 hstep⟩
  | removeWorker w reason f order rets =>
    simp only [step]
    apply coreStep_good hi (by trivial)
    intro c' out hstep
    exact deliver_removeWorker h0 hstep
  | newRq rqv =>
    simp only [step]
    apply coreStep_good hi (by trivial)
    intro c' out hstep
    simp only [Core.step] at hstep
    cases hstep
    exact ⟨[], GoodR.nil (h0.core_eq rfl rfl)⟩
  | update w us rets =>
    simp only [step]
    refine coreStep_good (cop := .update w us rets) hi (Core.UpdatesOk.mono (fun _ _ _ h => h.proto) _ _ _ hok) ?_
    intro c' out hstep
    exact deliver_update h0 hi hok hstep
  | retracted w ids =>
    simp only [step]
    apply coreStep_good hi (by trivial)
    intro c' out hstep
    refine ⟨[], ?_⟩
    rw [Core.retractResponse_cbs hstep]
    exact GoodR.nil (h0.core_silent (Core.retractResponse_frc hstep) (Core.retractResponse_stable hstep))
  | schedule sol =>
    simp only [step]
    refine coreStep_good (cop := .schedule sol) hi hok ?_
    intro c' out hstep
    refine ⟨[], ?_⟩
    rw [Core.schedule_cbs hstep]
    exact GoodR.nil (h0.core_sched hi.inv (Core.schedule_frs hstep) (Core.schedule_stable hstep))

/-- **the coupling invariant holds after every run** from the empty system whose actions satisfy the side
conditions -/
theorem run_coupled : ∀ (ops : List Op) {s s' : State} {outs : List Out}, Coupled s → RunOk s ops →
    run s ops = .ok (s', outs) → Coupled s' := by
  intro ops
  induction ops with
  | nil => intro s s' outs hc _ h; simp only [run] at h; cases h; exact hc
  | cons op rest ih =>
    intro s s' outs hc hok h
    simp only [run] at h
    have hg := step_good hc op hok.1
    split at h
    · cases h
    · rename_i s1 o1 h1
      rw [h1] at hg
      simp only [RunOk, h1] at hok
      split at h
      · cases h
      · rename_i s2 os h2
        cases h
        exact ih hg hok.2 h2

end HqModel.Sys
