import HqModel.Lemmas.JobJournalSim
/-!
# One record at a time: what each record the job layer writes does to `meaning`, and why `recordOk` holds

`Leads A recs s'`: appended to a journal that means `A`, the records `recs` are all allowed, keep `DepOk` at every
record boundary, and afterwards the job-layer state `s'` and the meaning of the journal satisfy `Inv` again.
-/
namespace HqModel.Emit
open HqModel.Job HqModel.Journal

def Leads (A : AState) (recs : List Record) (s' : State) : Prop :=
  goodFrom A recs ∧ Inv s' (recs.foldl meaningStep A)

theorem Leads.nil {s : State} {A : AState} (h : Inv s A) : Leads A [] s := ⟨h.dep, h⟩

theorem Leads.one {s s' : State} {A : AState} {r : Record} (h : Inv s A) (hok : recordOk A r = true)
    (h' : Inv s' (meaningStep A r)) : Leads A [r] s' := ⟨goodFrom_one h hok h', h'⟩

theorem Leads.append {A : AState} {l m : List Record} {s1 s2 : State} (h1 : Leads A l s1)
    (h2 : Leads (l.foldl meaningStep A) m s2) : Leads A (l ++ m) s2 :=
  ⟨(goodFrom_append A l m).mpr ⟨h1.1, h2.1⟩, by rw [List.foldl_append]; exact h2.2⟩

theorem Leads.congr {A : AState} {l : List Record} {s1 s2 : State} (h : Leads A l s1)
    (hj : s2.jobs = s1.jobs) (hc : s2.jobCtr = s1.jobCtr) : Leads A l s2 :=
  ⟨h.1, h.2.congr hj hc rfl⟩

/-! ### `meaningStep` on the entry of one job -/

def setO (o : Outcome) (a : ATask) : ATask := { a with st := o, run := none }

/-- give outcome `o` to the tasks whose id is in `S` -/
def markF (o : Outcome) (S : List Nat) (a : ATask) : ATask := if a.id ∈ S then setO o a else a

def startF (t inst : Nat) (ws : List Nat) (a : ATask) : ATask :=
  if a.id = t then { a with inst := some (max inst (a.inst.getD 0)), run := some ws } else a

theorem alSet_same {l : List (Nat × β)} {k : Nat} {v : β} (h : alGet l k = some v) : alSet l k v = l := by
  induction l with
  | nil => simp [alGet] at h
  | cons a r ih =>
    obtain ⟨k', w⟩ := a
    by_cases hk : k' = k
    · simp only [alGet, hk, if_true, Option.some.injEq] at h
      simp [alSet, hk, h]
    · simp only [alGet, hk, if_false] at h
      simp [alSet, hk, ih h]

theorem updTask_eq {A : AState} {j : Nat} {aj : AJob} (h : alGet A.jobs j = some aj) (t : Nat) (f : ATask → ATask) :
    updTask A j t f = { A with jobs := alSet A.jobs j (mapTasks aj fun a => if a.id = t then f a else a) } := by
  simp only [updTask, h, mapTasks]

theorem markF_cons (o : Outcome) (t : Nat) (S : List Nat) (a : ATask) :
    markF o S (if a.id = t then setO o a else a) = markF o (t :: S) a := by
  unfold markF
  by_cases h1 : a.id = t
  · by_cases h2 : a.id ∈ S <;> simp [h1, setO] <;> simp [← h1, h2]
  · by_cases h2 : a.id ∈ S <;> simp [h1, h2]

theorem batch_eq (o : Outcome) (j : Nat) : ∀ (ids : List (Nat × Nat)) (A : AState) (aj : AJob),
    alGet A.jobs j = some aj → (∀ p ∈ ids, p.1 = j) →
    ids.foldl (setOutcome o) A = { A with jobs := alSet A.jobs j (mapTasks aj (markF o (ids.map (·.2)))) } := by
  intro ids
  induction ids with
  | nil =>
    intro A aj h _
    have : mapTasks aj (markF o []) = aj := by
      unfold mapTasks markF; simp
    simp only [List.foldl_nil, List.map_nil, this, alSet_same h]
  | cons p rest ih =>
    intro A aj h hown
    have hp : p.1 = j := hown p (by simp)
    simp only [List.foldl_cons, List.map_cons]
    have e1 : setOutcome o A p =
        { A with jobs := alSet A.jobs j (mapTasks aj fun a => if a.id = p.2 then setO o a else a) } := by
      unfold setOutcome
      rw [hp, updTask_eq h]
      rfl
    rw [e1, ih _ (mapTasks aj fun a => if a.id = p.2 then setO o a else a) (alGet_set_self _ _ _)
      (fun q hq => hown q (by simp [hq]))]
    simp only [alSet_alSet]
    congr 2
    unfold mapTasks
    simp only [List.map_map]
    congr 1
    apply List.map_congr_left
    intro a _
    exact markF_cons o p.2 _ a

theorem step_started {A : AState} {j : Nat} {aj : AJob} (h : alGet A.jobs j = some aj) (t inst : Nat) (ws : List Nat) :
    meaningStep A (.taskStarted j t inst ws) = { A with jobs := alSet A.jobs j (mapTasks aj (startF t inst ws)) } := by
  simp only [meaningStep]
  rw [updTask_eq h]
  rfl

theorem step_outcome {A : AState} {j : Nat} {aj : AJob} (h : alGet A.jobs j = some aj) (o : Outcome) (t : Nat) :
    setOutcome o A (j, t) = { A with jobs := alSet A.jobs j (mapTasks aj (markF o [t])) } := by
  have := batch_eq o j [(j, t)] A aj h (by simp)
  simpa using this

theorem markF_id (o : Outcome) (S : List Nat) (a : ATask) : (markF o S a).id = a.id := by
  unfold markF setO; split <;> rfl

theorem markF_deps (o : Outcome) (S : List Nat) (a : ATask) : (markF o S a).deps = a.deps := by
  unfold markF setO; split <;> rfl

theorem startF_id (t i : Nat) (ws : List Nat) (a : ATask) : (startF t i ws a).id = a.id := by
  unfold startF; split <;> rfl

theorem startF_deps (t i : Nat) (ws : List Nat) (a : ATask) : (startF t i ws a).deps = a.deps := by
  unfold startF; split <;> rfl

theorem startF_st (t i : Nat) (ws : List Nat) (a : ATask) : (startF t i ws a).st = a.st := by
  unfold startF; split <;> rfl

/-! ### `JSim` / `JDep` under marking -/

theorem JSim.mark {job job' : Job} {aj : AJob} (h : JSim job aj) (o : Outcome) (S : List Nat)
    (target : Job.TState) (ho : oc target = o) (hr : target ≠ .running)
    (hop : job'.isOpen = job.isOpen) (hk : keys job'.tasks = keys job.tasks)
    (hin : ∀ k ∈ S, k ∈ keys job.tasks → lookup job'.tasks k = some target)
    (hout : ∀ k, k ∉ S → lookup job'.tasks k = lookup job.tasks k) :
    JSim job' (mapTasks aj (markF o S)) := by
  refine h.map (markF o S) (markF_id o S) hop hk ?_
  intro a ha x hx hs hi
  by_cases hm : a.id ∈ S
  · refine ⟨target, hin _ hm (mem_keys_of_lookup hx), ?_, fun e => absurd e hr⟩
    simp [markF, hm, setO, ho]
  · refine ⟨x, by rw [hout _ hm]; exact hx, ?_, ?_⟩
    · simpa [markF, hm] using hs
    · simpa [markF, hm] using hi

theorem JDep.mark {aj : AJob} (h : JDep aj) (o : Outcome) (S : List Nat) (ho : o ≠ .waiting)
    (hc : o = .finished ∨ ∀ a ∈ aj.tasks, a.st = .waiting → a.id ∉ S → ∀ d ∈ a.deps, d ∉ S) :
    JDep (mapTasks aj (markF o S)) := by
  refine h.map (markF o S) (markF_id o S) (markF_deps o S) ?_ ?_
  · intro a _ hw
    by_cases hm : a.id ∈ S
    · simp [markF, hm, setO] at hw; exact absurd hw ho
    · simpa [markF, hm] using hw
  · intro a ha hwa hw d hd b _ hbid hb
    have hm : a.id ∉ S := by
      intro hm; simp [markF, hm, setO] at hw; exact ho hw
    by_cases hd' : b.id ∈ S
    · rcases hc with hc | hc
      · right; simp [markF, hd', setO, hc]
      · exact absurd (hbid ▸ hd') (hc a ha hwa hm d hd)
    · simpa [markF, hd'] using hb

end HqModel.Emit
