import HqModel.Lemmas.AutoAllocIndex
/-!
Worker accounting of one allocation (C18 `c18_workers`): the per-allocation automaton `allocRun`, and the tie of
the whole model to it (`step_alloc_inputs`).
-/
namespace HqModel.AutoAlloc

/-! ### sets as lists -/

theorem mem_insertW (w w' : Nat) (l : List Nat) : w ∈ insertW w' l ↔ w = w' ∨ w ∈ l := by
  unfold insertW
  split
  · constructor
    · exact .inr
    · rintro (rfl | h)
      · assumption
      · exact h
  · simp only [List.mem_append, List.mem_singleton]
    constructor
    · rintro (h | h)
      · exact .inr h
      · exact .inl h
    · rintro (h | h)
      · exact .inr h
      · exact .inl h

theorem mem_removeW (w w' : Nat) (l : List Nat) : w ∈ removeW w' l ↔ w ∈ l ∧ w ≠ w' := by
  simp [removeW]

theorem keys_insertD (w : Nat) (cr : Bool) (d : List (Nat × Bool)) (w' : Nat) :
    w' ∈ (insertD w cr d).map (·.1) ↔ w' = w ∨ w' ∈ d.map (·.1) := by
  simp only [insertD, List.map_append, List.map_cons, List.map_nil, List.mem_append, List.mem_map, List.mem_filter,
    List.mem_singleton]
  constructor
  · rintro (⟨x, ⟨hx, _⟩, rfl⟩ | h)
    · exact .inr ⟨x, hx, rfl⟩
    · exact .inl h
  · rintro (h | ⟨x, hx, rfl⟩)
    · exact .inr h
    · by_cases hxw : x.1 = w
      · exact .inr hxw
      · exact .inl ⟨x, ⟨hx, by simpa using hxw⟩, rfl⟩

theorem nodup_insertD (w : Nat) (cr : Bool) (d : List (Nat × Bool)) (h : (d.map (·.1)).Nodup) :
    ((insertD w cr d).map (·.1)).Nodup := by
  simp only [insertD, List.map_append, List.map_cons, List.map_nil]
  rw [List.nodup_append]
  refine ⟨?_, by simp, ?_⟩
  · exact List.Nodup.sublist (List.Sublist.map _ List.filter_sublist) h
  · intro a ha b hb
    simp only [List.mem_singleton] at hb
    subst hb
    simp only [List.mem_map, List.mem_filter] at ha
    obtain ⟨x, ⟨_, hx⟩, rfl⟩ := ha
    simpa using hx

/-! ### the automaton -/

theorem allocRun_cons (c : Consts) (t : Nat) (st : AState) (i : AIn) (ins : List AIn) :
    allocRun c t st (i :: ins) = allocRun c t (allocStep c t st i) ins := rfl

theorem allocRun_append (c : Consts) (t : Nat) (st : AState) (i1 i2 : List AIn) :
    allocRun c t st (i1 ++ i2) = allocRun c t (allocRun c t st i1) i2 := by
  simp [allocRun, List.foldl_append]

theorem allocStep_finished (c : Consts) (t : Nat) (st : AState) (i : AIn) (h : st.isFinished = true) :
    allocStep c t st i = st := by
  cases i with
  | sync r => simp [allocStep, syncState_absorbing _ _ _ h]
  | err => simp [allocStep, errState_absorbing _ _ h]

theorem allocRun_finished (c : Consts) (t : Nat) (st : AState) (ins : List AIn) (h : st.isFinished = true) :
    allocRun c t st ins = st := by
  induction ins with
  | nil => rfl
  | cons i rest ih => rw [allocRun_cons, allocStep_finished _ _ _ _ h, ih]

/-- one input applied to a running allocation: what happens to the connected / disconnected sets -/
theorem allocStep_running (c : Consts) (t : Nat) (cn : List Nat) (d : List (Nat × Bool)) (e : Nat) (i : AIn) :
    (allocStep c t (.running cn d e) i).isFinished = true ∨
    ∃ cn' d' e', allocStep c t (.running cn d e) i = .running cn' d' e' ∧
      (∀ w, w ∈ cn' ↔
        (i.workerEv w = some true ∨ (i.workerEv w = none ∧ w ∈ cn))) ∧
      (∀ w, w ∈ d'.map (·.1) ↔ (w ∈ d.map (·.1) ∨ ∃ cr, i = .sync (.lost w cr))) ∧
      ((d.map (·.1)).Nodup → (d'.map (·.1)).Nodup) := by
  cases i with
  | err =>
    simp only [allocStep, errState]
    by_cases h : c.maxRunningErr < e + 1
    · left; simp [h, AState.isFinished]
    · right
      refine ⟨cn, d, e + 1, by simp [h], ?_, ?_, fun h => h⟩
      · intro w; simp [AIn.workerEv]
      · intro w; simp
  | sync r =>
    cases r with
    | conn w' =>
      right
      refine ⟨insertW w' cn, d, e, rfl, ?_, ?_, fun h => h⟩
      · intro w
        rw [mem_insertW]
        simp only [AIn.workerEv]
        by_cases hw : w' = w
        · simp [hw]
        · have : ¬ w = w' := fun h => hw h.symm
          simp [hw, this]
      · intro w; simp
    | lost w' cr =>
      simp only [allocStep, syncState]
      by_cases h : (insertD w' cr d).length = t
      · left; simp [h, AState.isFinished]
      · right
        refine ⟨removeW w' cn, insertD w' cr d, e, by simp [h], ?_, ?_, nodup_insertD w' cr d⟩
        · intro w
          rw [mem_removeW]
          simp only [AIn.workerEv]
          by_cases hw : w' = w
          · subst hw; simp
          · have : ¬ w = w' := fun h => hw h.symm
            simp [hw, this]
        · intro w
          rw [keys_insertD]
          constructor
          · rintro (h | h)
            · exact .inr ⟨cr, by rw [h]⟩
            · exact .inl h
          · rintro (h | ⟨cr', h⟩)
            · exact .inr h
            · cases h; exact .inl rfl
    | ext x =>
      cases x with
      | queued =>
        right
        exact ⟨cn, d, e, rfl, by intro w; simp [AIn.workerEv], by intro w; simp, fun h => h⟩
      | running =>
        right
        exact ⟨cn, d, e, rfl, by intro w; simp [AIn.workerEv], by intro w; simp, fun h => h⟩
      | finished => left; simp [allocStep, syncState, AState.isFinished]
      | failed => left; simp [allocStep, syncState, AState.isFinished]

/-- **Running segment.** While an allocation stays Running, its connected set is exactly: the workers whose last
event in the segment is a connect, plus the initially connected ones without any event; its disconnected set is
duplicate-free and consists of the initially disconnected workers plus those lost in the segment. -/
theorem allocRun_running (c : Consts) (t : Nat) (ins : List AIn) (c0 : List Nat) (d0 : List (Nat × Bool)) (e0 : Nat)
    (cn : List Nat) (d : List (Nat × Bool)) (e : Nat)
    (h : allocRun c t (.running c0 d0 e0) ins = .running cn d e) :
    (∀ w, w ∈ cn ↔ (lastEv w ins = some true ∨ (lastEv w ins = none ∧ w ∈ c0))) ∧
    (∀ w, w ∈ d.map (·.1) ↔ (w ∈ d0.map (·.1) ∨ ∃ cr, AIn.sync (.lost w cr) ∈ ins)) ∧
    ((d0.map (·.1)).Nodup → (d.map (·.1)).Nodup) := by
  induction ins generalizing c0 d0 e0 with
  | nil =>
    simp only [allocRun, List.foldl_nil, AState.running.injEq] at h
    obtain ⟨rfl, rfl, rfl⟩ := h
    refine ⟨by intro w; simp [lastEv], by intro w; simp, fun h => h⟩
  | cons i rest ih =>
    rw [allocRun_cons] at h
    rcases allocStep_running c t c0 d0 e0 i with hf | ⟨c1, d1, e1, hs, hc, hd, hn⟩
    · rw [allocRun_finished _ _ _ _ hf] at h
      rw [h] at hf
      simp [AState.isFinished] at hf
    · rw [hs] at h
      obtain ⟨ihc, ihd, ihn⟩ := ih c1 d1 e1 h
      refine ⟨?_, ?_, fun h0 => ihn (hn h0)⟩
      · intro w
        rw [ihc w]
        simp only [lastEv]
        cases hl : lastEv w rest with
        | some b => simp
        | none =>
          simp only [true_and]
          rw [hc w]
          cases hw : i.workerEv w with
          | none => simp
          | some b => simp
      · intro w
        rw [ihd w, hd w]
        constructor
        · rintro ((h1 | ⟨cr, h1⟩) | ⟨cr, h1⟩)
          · exact .inl h1
          · exact .inr ⟨cr, by simp [h1]⟩
          · exact .inr ⟨cr, by simp [h1]⟩
        · rintro (h1 | ⟨cr, h1⟩)
          · exact .inl (.inl h1)
          · simp only [List.mem_cons] at h1
            rcases h1 with h1 | h1
            · exact .inl (.inr ⟨cr, h1.symm⟩)
            · exact .inr ⟨cr, h1⟩

/-- how an allocation leaves Queued -/
theorem allocStep_queued (c : Consts) (t : Nat) (e0 : Nat) (i : AIn) :
    (∃ e1, allocStep c t (.queued e0) i = .queued e1 ∧ ∀ w, i.workerEv w ≠ some true) ∨
    (∃ w0, i = .sync (.conn w0) ∧ allocStep c t (.queued e0) i = .running [w0] [] 0) ∨
    (i = .sync (.ext .running) ∧ allocStep c t (.queued e0) i = .running [] [] 0) ∨
    (∃ f, allocStep c t (.queued e0) i = .finishedUnexp [] [] f) := by
  cases i with
  | err =>
    simp only [allocStep, errState]
    by_cases h : c.maxQueuedErr < e0 + 1
    · right; right; right; exact ⟨true, by simp [h]⟩
    · left; exact ⟨e0 + 1, by simp [h], by intro w; simp [AIn.workerEv]⟩
  | sync r =>
    cases r with
    | conn w0 => right; left; exact ⟨w0, rfl, rfl⟩
    | lost w cr => left; exact ⟨e0, rfl, by intro w'; simp only [AIn.workerEv]; split <;> simp⟩
    | ext x =>
      cases x with
      | queued => left; exact ⟨e0, rfl, by intro w; simp [AIn.workerEv]⟩
      | running => right; right; left; exact ⟨rfl, rfl⟩
      | finished => right; right; right; exact ⟨false, rfl⟩
      | failed => right; right; right; exact ⟨true, rfl⟩

/-- **Normal finish.** From a running allocation, an input leads to `Finished` (normal) iff it is a worker loss
that makes the number of distinct lost workers equal to the target; from a queued allocation no input does. -/
theorem allocStep_finish_iff (c : Consts) (t : Nat) (st : AState) (i : AIn) (d' : List (Nat × Bool))
    (hnf : st.isFinished = false) :
    allocStep c t st i = .finished d' ↔
      ∃ cn d e w cr, st = .running cn d e ∧ i = .sync (.lost w cr) ∧ d' = insertD w cr d ∧
        (insertD w cr d).length = t := by
  constructor
  · intro h
    cases st with
    | queued e0 =>
      rcases allocStep_queued c t e0 i with ⟨e1, h1, _⟩ | ⟨w0, _, h1⟩ | ⟨_, h1⟩ | ⟨f, h1⟩ <;>
        (rw [h1] at h; cases h)
    | running cn d e =>
      cases i with
      | err =>
        simp only [allocStep, errState] at h
        split at h <;> cases h
      | sync r =>
        cases r with
        | conn w => cases h
        | lost w cr =>
          simp only [allocStep, syncState] at h
          by_cases hl : (insertD w cr d).length = t
          · simp only [hl, if_true, AState.finished.injEq] at h
            exact ⟨cn, d, e, w, cr, rfl, rfl, h.symm, hl⟩
          · simp [hl] at h
        | ext x => cases x <;> cases h
    | finished d0 => simp [AState.isFinished] at hnf
    | finishedUnexp c0 d0 f => simp [AState.isFinished] at hnf
  · rintro ⟨cn, d, e, w, cr, rfl, rfl, rfl, hl⟩
    simp [allocStep, syncState, hl]

/-! ### the whole model feeds the automaton -/

/-- along `QTrans`, every allocation of the queue evolves by the automaton on inputs the labels allow -/
def AllocFed (c : Consts) (P : Nat → AIn → Prop) (q q' : Queue) : Prop :=
  ∀ a al, q.findAlloc a = some al →
    ∃ al' ins, q'.findAlloc a = some al' ∧ al'.target = al.target ∧
      al'.st = allocRun c al.target al.st ins ∧ ∀ i ∈ ins, P a i

theorem AllocFed.refl (c : Consts) (P : Nat → AIn → Prop) (q : Queue) : AllocFed c P q q :=
  fun _ al h => ⟨al, [], h, rfl, rfl, by intro i hi; cases hi⟩

theorem AllocFed.trans {c : Consts} {P : Nat → AIn → Prop} {a b d : Queue} (h1 : AllocFed c P a b)
    (h2 : AllocFed c P b d) : AllocFed c P a d := by
  intro x al hx
  obtain ⟨al1, i1, g1, t1, s1, p1⟩ := h1 x al hx
  obtain ⟨al2, i2, g2, t2, s2, p2⟩ := h2 x al1 g1
  refine ⟨al2, i1 ++ i2, g2, t2.trans t1, ?_, ?_⟩
  · rw [allocRun_append, ← s1, ← t1]; exact s2
  · intro i hi
    simp only [List.mem_append] at hi
    rcases hi with hi | hi
    · exact p1 i hi
    · exact p2 i hi

theorem AllocFed_of_allocs_append (c : Consts) (P : Nat → AIn → Prop) (q q' : Queue) (extra : List Alloc)
    (h : q'.allocs = q.allocs ++ extra) : AllocFed c P q q' := by
  intro a al ha
  refine ⟨al, [], ?_, rfl, rfl, by intro i hi; cases hi⟩
  unfold Queue.findAlloc at ha ⊢
  rw [h, List.find?_append, ha]; rfl

/-- feed input `i0` to the allocations with id `a0` -/
def feedMap (c : Consts) (a0 : Nat) (i0 : AIn) (y : Alloc) : Alloc :=
  if y.id = a0 then { y with st := allocStep c y.target y.st i0 } else y

theorem AllocFed_mapState (c : Consts) (P : Nat → AIn → Prop) (q : Queue) (a0 : Nat) (i0 : AIn) (act : Bool)
    (lim : Limiter) (hp : P a0 i0) :
    AllocFed c P q { q with allocs := q.allocs.map (feedMap c a0 i0), active := act, lim := lim } := by
  intro a al h
  have hm := findAlloc_map q.allocs (feedMap c a0 i0) (by intro y; unfold feedMap; split <;> rfl) a
  have hid := findAlloc_id q a al h
  unfold Queue.findAlloc at h ⊢
  simp only
  rw [hm, h]
  by_cases ha : al.id = a0
  · refine ⟨_, [i0], rfl, by simp [feedMap, ha], by simp [feedMap, ha, allocRun], ?_⟩
    intro i hi
    simp only [List.mem_singleton] at hi
    subst hi
    have : a = a0 := by omega
    subst this
    exact hp
  · exact ⟨_, [], rfl, by simp [feedMap, ha], by simp [feedMap, ha, allocRun], by intro i hi; cases hi⟩

theorem QPrim.allocFed {c : Consts} {P : Nat → AIn → Prop} {a b : Queue} (h : QPrim c P a b) : AllocFed c P a b := by
  cases h with
  | sync x r hp =>
    unfold Queue.sync
    split
    · exact .refl c P a
    · exact AllocFed_mapState c P a x (.sync r) a.active (Queue.limAfter a.lim (syncState ‹Alloc›.target ‹Alloc›.st r).fin) hp
  | bumpErr x hp =>
    unfold Queue.bumpErr
    split
    · exact .refl c P a
    · exact AllocFed_mapState c P a x .err a.active a.lim hp
  | tryPause =>
    refine AllocFed_of_allocs_append c P _ _ [] ?_
    unfold Queue.tryPause; split <;> simp
  | trySubmit r now res =>
    obtain ⟨extra, h, _⟩ := Queue.trySubmit_allocs a r now res
    exact AllocFed_of_allocs_append c P _ _ extra h
  | pause => exact AllocFed_of_allocs_append c P _ _ [] (by simp)

theorem QTrans.allocFed {c : Consts} {P : Nat → AIn → Prop} {a b : Queue} (h : QTrans c P a b) : AllocFed c P a b :=
  QTrans.lift (AllocFed c P) (AllocFed.refl c P) (fun _ _ _ => AllocFed.trans) (fun _ _ h => h.allocFed) h

end HqModel.AutoAlloc
