import HqModel.Lemmas.CoreQueueLoss
/-!
The queue / dependency invariant, part 6: one scheduling round.

A round only takes ids out of the queues or moves them inside a queue, never changes a request id or a consumer
list (`Trk`, proved in `CoreInvSched.lean` from `Inv` and `QueueOk` — which is now a consequence of `QInv`) and
writes only states that are neither Waiting nor Finished (`SFr`, proved here). A task that left the Waiting state
is listed by nobody because of the clause `CW3` of `Inv` in the post-state.
-/
namespace HqModel.Core

/-- every task of `s'` is a task of `s` whose state is unchanged or was written to a state that is neither Waiting
nor Finished -/
def SFr (s s' : State) : Prop :=
  ∀ id t', findTask s'.tasks id = some t' →
    ∃ t, findTask s.tasks id = some t ∧ (t'.state = t.state ∨ (¬ isWaiting t'.state ∧ t'.state ≠ .finished))

theorem SFr.refl (s : State) : SFr s s := fun _ t' h => ⟨t', h, Or.inl rfl⟩

theorem SFr.trans {a b c : State} (h1 : SFr a b) (h2 : SFr b c) : SFr a c := by
  intro id t2 hf2
  obtain ⟨t1, hf1, r2⟩ := h2 id t2 hf2
  obtain ⟨t, hf, r1⟩ := h1 id t1 hf1
  refine ⟨t, hf, ?_⟩
  rcases r2 with e | e
  · rcases r1 with e1 | e1
    · exact Or.inl (e.trans e1)
    · exact Or.inr (by rw [e]; exact e1)
  · exact Or.inr e

theorem SFr.of_tasks {s s' : State} (h : s'.tasks = s.tasks) : SFr s s' := by
  intro id t' hf; rw [h] at hf; exact ⟨t', hf, Or.inl rfl⟩

theorem SFr.setState {s : State} {told : Task} {st : TS} {deps : List TaskId} {prio : Int}
    {cl : CrashLimit} {inst crashes : Nat} (hf : findTask s.tasks told.id = some told)
    (hs : ¬ isWaiting st) (hfin : st ≠ .finished) :
    SFr s (s.setTask ⟨told.id, st, told.consumers, deps, told.rq, prio, cl, inst, crashes⟩) := by
  intro id t' hft
  show ∃ t, findTask s.tasks id = some t ∧ _
  change findTask (putTask s.tasks _) id = some t' at hft
  rw [findTask_putTask] at hft
  split at hft
  · rename_i e
    simp only at e
    rw [e, hf] at hft
    simp only [Option.map_some, Option.some.injEq] at hft
    refine ⟨told, by rw [e]; exact hf, Or.inr ?_⟩
    rw [← hft]; exact ⟨hs, hfin⟩
  · exact ⟨t', hft, Or.inl rfl⟩

theorem SFr.of_mk (s : State) (ws : List Worker) (rqs : List Rqv) (qs : List Queue) (rd : List (TaskId × Nat × Nat))
    (ns : Bool) (pr pm : Nat) : SFr s ⟨s.tasks, ws, rqs, qs, rd, ns, pr, pm⟩ := SFr.of_tasks rfl
grind_pattern SFr.of_mk => State.mk s.tasks ws rqs qs rd ns pr pm

attribute [grind →] SFr.trans SFr.of_tasks
attribute [grind .] SFr.refl
grind_pattern SFr.setState => s.setTask ⟨told.id, st, told.consumers, deps, told.rq, prio, cl, inst, crashes⟩
attribute [grind →] getTask_spec
attribute [grind =] isWaiting_waiting isWaiting_assigned isWaiting_prefilled isWaiting_retracting isWaiting_running isWaiting_runningMN isWaiting_finished

theorem placeSnBody_sfr {s s' : State} {m m' : List WUpdate} {v : Nat} {r : Rq} {id : TaskId} {w : Nat}
    (h : s.placeSnBody m v r id w = .ok (s', m')) : SFr s s' := by
  simp only [State.placeSnBody] at h
  repeat' (split at h)
  all_goals first | cases h | skip
  all_goals grind

theorem placeSn_sfr {s s' : State} {m m' : List WUpdate} {v : Nat} {r : Rq} {id : TaskId} {w : Nat}
    (h : s.placeSn m v r id w = .ok (s', m')) : SFr s s' := placeSnBody_sfr (placeSn_ok h).1

theorem placeAll_sfr (l : List (TaskId × Nat)) (s s' : State) (m m' : List WUpdate) (v : Nat) (r : Rq)
    (h : s.placeAll m v r l = .ok (s', m')) : SFr s s' := by
  have hp := @placeSn_sfr
  fun_induction State.placeAll s m v r l <;> grind

theorem mapSn_sfr (es : List SnEntry) (s s' : State) (now : Nat) (m m' : List WUpdate)
    (h : s.mapSn now m es = .ok (s', m')) : SFr s s' := by
  have hp := placeAll_sfr
  fun_induction State.mapSn s now m es <;> grind

theorem mapMnSets_sfr (sets : List (List Nat)) (s s' : State) (rq : Nat) (acc acc' : List TaskId)
    (h : s.mapMnSets rq sets acc = .ok (s', acc')) : SFr s s' := by
  have hp := setMnAll_tasks
  fun_induction State.mapMnSets s rq sets acc <;> grind

theorem mapMn_sfr (es : List MnEntry) (s s' : State) (acc acc' : List TaskId)
    (h : s.mapMn es acc = .ok (s', acc')) : SFr s s' := by
  have hp := mapMnSets_sfr
  fun_induction State.mapMn s es acc <;> grind

theorem prefillBack_sfr (rq : Nat) (l : List TaskId) (s s' : State) (keep keep' : List TaskId)
    (h : State.prefillWorker.back rq s l keep = .ok (s', keep')) : SFr s s' := by
  fun_induction State.prefillWorker.back rq s l keep <;> grind

theorem prefillMark_sfr (w : Nat) (l : List TaskId) (s s' : State)
    (h : State.prefillWorker.mark w s l = .ok s') : SFr s s' := by
  fun_induction State.prefillWorker.mark w s l <;> grind

theorem prefillWorker_sfr {s s' : State} {m m' : List WUpdate} {rq size w : Nat}
    (h : s.prefillWorker m rq size w = .ok (s', m')) : SFr s s' := by
  simp only [State.prefillWorker] at h
  have h1 := prefillBack_sfr
  have h2 := prefillMark_sfr
  repeat' (split at h)
  all_goals first | cases h | skip
  all_goals grind

theorem prefillWorkers_sfr (ws : List Nat) (s s' : State) (m m' : List WUpdate) (rq size : Nat)
    (h : s.prefillWorkers m rq size ws = .ok (s', m')) : SFr s s' := by
  have hp := @prefillWorker_sfr
  fun_induction State.prefillWorkers s m rq size ws <;> grind

theorem proactive_sfr (n : Nat) (s s' : State) (m m' : List WUpdate) (orders : List (Nat × List Nat)) (top : Int)
    (rq : Nat) (h : s.proactive m orders top n rq = .ok (s', m')) : SFr s s' := by
  have hp := prefillWorkers_sfr
  fun_induction State.proactive s m orders top n rq <;> grind

theorem schedule_sfr {s s' : State} {sol : Solution} {o : Out}
    (h : s.schedule sol = .ok (s', o)) : SFr s s' := by
  simp only [State.schedule] at h
  have h1 := mapSn_sfr
  have h2 := mapMn_sfr
  have h3 := proactive_sfr
  repeat' (split at h)
  all_goals first | cases h | skip
  all_goals grind


/-! ### the invariant gives the queue condition a scheduling round needs -/

theorem QInv.queueOk {U : List TaskId} {pend : List TaskId} {s : State} (h : QInv U none pend s) : QueueOk s := by
  intro i q hq id hid task ht
  obtain ⟨_, g2, g3, _⟩ := h.qg i q hq id hid
  refine ⟨g2 task ht, fun d dt hd hc => ?_⟩
  have := g3 dt (findTask_some_mem hd) hc
  cases this

/-- **the decidable queue / dependency clause of the sanity checks follows from the invariant** -/
theorem QInv.queueOkD {U : List TaskId} {pend : List TaskId} {s : State} (h : QInv U none pend s) : QueueOkD s := by
  intro p hp id hid
  obtain ⟨q, i⟩ := p
  have hq : s.queues[i]? = some q := List.mem_zipIdx_iff_getElem?.mp hp
  obtain ⟨_, g2, g3, _⟩ := h.qg i q hq id hid
  refine ⟨g2, fun dt hdt hc => ?_⟩
  have := g3 dt hdt hc
  cases this

/-! ### listers depend only on ids and consumer lists -/

theorem nL_eq_of_skel {f : Option TaskId} (ts : List Task) : ∀ (ts' : List Task), (taskIds ts).Nodup →
    taskIds ts' = taskIds ts →
    (∀ id, (findTask ts' id).map (fun t => (t.rq, t.consumers)) = (findTask ts id).map (fun t => (t.rq, t.consumers))) →
    ∀ c, nL f ts' c = nL f ts c := by
  induction ts with
  | nil =>
    intro ts' _ hids _ c
    cases ts' with
    | nil => rfl
    | cons a b => simp [taskIds] at hids
  | cons y ys ih =>
    intro ts' hn hids hsk c
    cases ts' with
    | nil => simp [taskIds] at hids
    | cons y' ys' =>
      simp only [taskIds, List.map_cons, List.cons.injEq] at hids
      simp only [taskIds, List.map_cons, List.nodup_cons] at hn
      obtain ⟨hid, hids'⟩ := hids
      have h0 := hsk y.id
      simp only [findTask, hid, if_true, Option.map_some, Option.some.injEq, Prod.mk.injEq] at h0
      have hl : lst f c y' = lst f c y := by simp only [lst, hid, h0.2]
      have hrest := ih ys' hn.2 hids' (by
        intro id
        by_cases e : id = y.id
        · subst e
          rw [findTask_none_of_not_mem (ts := ys) hn.1, findTask_none_of_not_mem (ts := ys') (by
            show y.id ∉ taskIds ys'
            rw [show taskIds ys' = taskIds ys from hids']; exact hn.1)]
        · have h1 := hsk id
          have e1 : ¬ y.id = id := fun x => e x.symm
          have e2 : ¬ y'.id = id := by rw [hid]; exact e1
          simpa only [findTask, e1, e2, if_false] using h1) c
      simp only [nL, List.countP_cons, hl] at hrest ⊢
      omega

/-! ### the round -/

theorem schedule_q {U : List TaskId} {s s' : State} {sol : Solution} {o : Out} (hq : QInv U none [] s) (hi : Inv s)
    (hm : SolMnOk s sol) (h : s.schedule sol = .ok (s', o)) : QInv U none [] s' := by
  obtain ⟨hi', trk⟩ := schedule_trk hi hq.queueOk hm h
  have hids : taskIds s'.tasks = taskIds s.tasks := schedule_stable h
  have hfr := schedule_sfr h
  have hfind' : ∀ t' ∈ s'.tasks, findTask s'.tasks t'.id = some t' := fun t' ht' => mem_find_of_nodup hi'.nd ht'
  -- every record of `s'` has a predecessor with the same request and consumers
  have hpre : ∀ id t', findTask s'.tasks id = some t' →
      ∃ t, findTask s.tasks id = some t ∧ t'.rq = t.rq ∧ t'.consumers = t.consumers ∧
        (t'.state = t.state ∨ (¬ isWaiting t'.state ∧ t'.state ≠ .finished)) := by
    intro id t' hf'
    obtain ⟨t, hf, hst⟩ := hfr id t' hf'
    have hk := trk.skel id
    rw [hf', hf] at hk
    simp only [Option.map_some, Option.some.injEq, Prod.mk.injEq] at hk
    exact ⟨t, hf, hk.1, hk.2, hst⟩
  have hnl : ∀ c, nL none s'.tasks c = nL none s.tasks c := nL_eq_of_skel s.tasks s'.tasks hq.nd hids trk.skel
  refine ⟨hi'.nd, ?_, ?_, ?_, ?_, ?_, ?_⟩
  · intro t' ht'
    obtain ⟨t, hf, _⟩ := hpre t'.id t' (hfind' t' ht')
    have := hq.uT t (findTask_some_mem hf)
    rw [findTask_some_id hf] at this; exact this
  · intro t' ht' c hc
    obtain ⟨t, hf, _, e, _⟩ := hpre t'.id t' (hfind' t' ht')
    exact hq.uC t (findTask_some_mem hf) c (e ▸ hc)
  · intro t' ht'
    obtain ⟨t, hf, _, e, _⟩ := hpre t'.id t' (hfind' t' ht')
    rw [e]; exact hq.cnd t (findTask_some_mem hf)
  · intro t' ht' hfin
    obtain ⟨t, hf, _, _, e⟩ := hpre t'.id t' (hfind' t' ht')
    rcases e with e | e
    · have := hq.fin t (findTask_some_mem hf) (e ▸ hfin)
      cases this
    · exact absurd hfin e.2
  · intro c t' hc
    simp only [owed_nil, Nat.add_zero]
    obtain ⟨t, hf, _, _, e⟩ := hpre c t' hc
    rcases e with e | e
    · rw [hnl, e]
      have := hq.cnt c t hf
      simpa using this
    · -- the task left the Waiting state: by `CW3` in the post-state nobody lists it
      have : nL none s'.tasks c = 0 := by
        rw [nL_zero]
        intro dt hdt hcm
        have := hi'.cw dt.id dt (hfind' dt hdt) c hcm t'.state (stOf_of_find hc)
        exact absurd this e.1
      omega
  · intro i q' hq' x hx
    obtain ⟨q, hq0, hx0⟩ := trk.qsub i q' hq' x hx
    obtain ⟨g1, g2, g3, g4⟩ := hq.qg i q hq0 x hx0
    refine ⟨g1, ?_, ?_, ?_⟩
    rotate_left 2
    · intro t' ht'
      obtain ⟨t, hf, _, _, e⟩ := hpre x t' ht'
      rcases e with e | e
      · rw [e]; exact g4 t hf
      · exact slack_of_not_waiting e.1
    · intro t' ht'
      obtain ⟨t, hf, e, _⟩ := hpre x t' ht'
      rw [e]; exact g2 t hf
    · intro dt' hdt' hc
      obtain ⟨dt, hf, _, e, _⟩ := hpre dt'.id dt' (hfind' dt' hdt')
      have := g3 dt (findTask_some_mem hf) (e ▸ hc)
      cases this

end HqModel.Core
