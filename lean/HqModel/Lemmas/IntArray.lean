import HqModel.Job.IntArray
namespace HqModel.Job

theorem iterAux_step_one (fuel cur n : Nat) (h : n ≤ fuel) :
    IntRange.iterAux 1 fuel cur n = List.range' cur n := by
  induction fuel generalizing cur n with
  | zero =>
    have : n = 0 := by omega
    subst this; simp [IntRange.iterAux]
  | succ f ih =>
    unfold IntRange.iterAux
    by_cases hn : n = 0
    · simp [hn]
    · simp only [hn, if_false]
      obtain ⟨m, rfl⟩ : ∃ m, n = m + 1 := ⟨n - 1, by omega⟩
      simp only [Nat.add_sub_cancel, List.range'_succ]
      rw [ih (cur + 1) m (by omega)]

/-- `IntArray::from_range(s, c)` enumerates exactly `s, s+1, …, s+c-1`. -/
theorem fromRange_iter (s c : Nat) : (IntArray.fromRange s c).iter = List.range' s c := by
  simp [IntArray.fromRange, IntArray.iter, IntRange.iter, iterAux_step_one]

theorem fromId_iter (i : Nat) : (IntArray.fromId i).iter = [i] := by
  simp [IntArray.fromId, IntArray.iter, IntRange.iter, IntRange.iterAux]

end HqModel.Job
