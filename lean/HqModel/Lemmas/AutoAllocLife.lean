import HqModel.Lemmas.AutoAllocFrame
/-!
Per-queue lifecycle facts (C18 `c18_monotone`, C17 "paused stays paused"), proved on the primitives `QPrim` and
lifted to whole steps through `step_queue`.
-/
namespace HqModel.AutoAlloc

/-! ### the transition tables never go backwards -/

theorem syncState_rank (t : Nat) (st : AState) (r : SyncReason) : st.rank ≤ (syncState t st r).st.rank := by
  unfold syncState
  split <;> (try simp only [apply_ite SyncOut.st]) <;> (try split) <;> simp_all [AState.rank]
  all_goals (first | omega | (cases st <;> simp [AState.rank]))

theorem syncState_absorbing (t : Nat) (st : AState) (r : SyncReason) (h : st.isFinished = true) :
    syncState t st r = ⟨st, false, none⟩ := by
  cases st <;> simp [AState.isFinished] at h <;> cases r <;> simp [syncState]

theorem errState_rank (c : Consts) (st : AState) : st.rank ≤ (errState c st).1.rank := by
  unfold errState
  split <;> (try simp only [apply_ite Prod.fst]) <;> (try split) <;> simp_all [AState.rank]

theorem errState_absorbing (c : Consts) (st : AState) (h : st.isFinished = true) : errState c st = (st, false) := by
  cases st <;> simp [AState.isFinished] at h <;> simp [errState]

/-! ### lookups through id-preserving maps and appends -/

theorem findAlloc_map (l : List Alloc) (f : Alloc → Alloc) (hf : ∀ y, (f y).id = y.id) (a : Nat) :
    (l.map f).find? (·.id == a) = (l.find? (·.id == a)).map f := by
  induction l with
  | nil => rfl
  | cons y ys ih =>
    simp only [List.map_cons, List.find?_cons, hf]
    split
    · rfl
    · exact ih

theorem findAlloc_id (q : Queue) (a : Nat) (al : Alloc) (h : q.findAlloc a = some al) : al.id = a := by
  have := List.find?_some h
  simpa using this

/-- the submit loop only appends allocations (and only ones whose id is new in the queue) -/
theorem Queue.submitLoop_allocs (p : List Nat) (acc : SubAcc) :
    ∃ extra, (Queue.submitLoop p acc).q.allocs = acc.q.allocs ++ extra ∧
      (Queue.submitLoop p acc).q.active = acc.q.active ∧ (Queue.submitLoop p acc).q.params = acc.q.params ∧
      (∀ x ∈ extra, x.st = .queued 0) := by
  induction p generalizing acc with
  | nil => exact ⟨[], by simp [Queue.submitLoop]⟩
  | cons n rest ih =>
    simp only [Queue.submitLoop]
    split
    · exact ⟨[], by simp⟩
    · split
      · exact ⟨[], by simp⟩
      · rename_i a rs _ _
        obtain ⟨extra, h1, h2, h3, h4⟩ := ih
          { q := { acc.q with allocs := acc.q.allocs ++ [⟨a, n, .queued 0⟩], lim := acc.q.lim.onSubmissionSuccess }
            outs := acc.outs ++ [Out.submit acc.q.id n] ++ [Out.evQueued acc.q.id a n], results := rs,
            newIds := acc.newIds ++ [a], panic := none }
        refine ⟨⟨a, n, .queued 0⟩ :: extra, ?_, h2, h3, ?_⟩
        · rw [h1]; simp
        · intro x hx
          simp only [List.mem_cons] at hx
          rcases hx with rfl | hx
          · rfl
          · exact h4 x hx
    · exact ⟨[], by simp⟩

theorem Queue.trySubmit_allocs (q : Queue) (r : QResp) (now : Nat) (res : List SubRes) :
    ∃ extra, (q.trySubmit r now res).q.allocs = q.allocs ++ extra ∧ (q.trySubmit r now res).q.active = q.active ∧
      (q.trySubmit r now res).q.params = q.params ∧ (∀ x ∈ extra, x.st = .queued 0) := by
  unfold Queue.trySubmit
  simp only
  split
  · exact ⟨[], by simp⟩
  · split
    · exact ⟨[], by simp⟩
    · split
      · exact ⟨[], by simp⟩
      · exact ⟨[], by simp⟩
      · split
        · rename_i n rest _ _
          exact Queue.submitLoop_allocs (n :: rest) ⟨{ q with lim := q.lim.onAttempt now }, [], res, [], none⟩
        · exact ⟨[], by simp⟩

/-! ### monotone lifecycle of every allocation of a queue -/

/-- Every allocation of `q` is still in `q'`, with the same size, a rank that is not smaller, and unchanged if it
was finished. -/
def AllocMono (q q' : Queue) : Prop :=
  ∀ a al, q.findAlloc a = some al →
    ∃ al', q'.findAlloc a = some al' ∧ al'.target = al.target ∧ al.st.rank ≤ al'.st.rank ∧
      (al.st.isFinished = true → al' = al)

theorem AllocMono.refl (q : Queue) : AllocMono q q := fun _ al h => ⟨al, h, rfl, Nat.le_refl _, fun _ => rfl⟩

theorem AllocMono.trans {a b d : Queue} (h1 : AllocMono a b) (h2 : AllocMono b d) : AllocMono a d := by
  intro x al hx
  obtain ⟨al1, g1, t1, r1, f1⟩ := h1 x al hx
  obtain ⟨al2, g2, t2, r2, f2⟩ := h2 x al1 g1
  refine ⟨al2, g2, t2.trans t1, Nat.le_trans r1 r2, ?_⟩
  intro hf
  have e1 := f1 hf
  subst e1
  exact f2 hf

theorem AllocMono_mapState (q : Queue) (g : Alloc → AState) (act : Bool) (lim : Limiter) (sel : Alloc → Bool)
    (hr : ∀ y, y.st.rank ≤ (g y).rank) (hf : ∀ y, y.st.isFinished = true → g y = y.st) :
    AllocMono q { q with allocs := q.allocs.map (fun y => if sel y then { y with st := g y } else y),
                         active := act, lim := lim } := by
  intro a al h
  have hm := findAlloc_map q.allocs (fun y => if sel y then { y with st := g y } else y)
    (by intro y; by_cases hs : sel y = true <;> simp [hs]) a
  unfold Queue.findAlloc at h ⊢
  simp only
  rw [hm, h]
  refine ⟨_, rfl, ?_, ?_, ?_⟩
  · by_cases hs : sel al = true <;> simp [hs]
  · by_cases hs : sel al = true <;> simp [hs]
    exact hr al
  · intro hfin
    by_cases hs : sel al = true <;> simp [hs]
    rw [hf al hfin]

theorem Queue.sync_AllocMono (q : Queue) (a : Nat) (r : SyncReason) : AllocMono q (q.sync a r).1 := by
  unfold Queue.sync
  split
  · exact .refl q
  · have := AllocMono_mapState q (fun y => (syncState y.target y.st r).st) q.active
      (Queue.limAfter q.lim (syncState ‹Alloc›.target ‹Alloc›.st r).fin) (fun y => decide (y.id = a))
      (fun y => syncState_rank _ _ _) (fun y hy => by rw [syncState_absorbing _ _ _ hy])
    simpa using this

theorem Queue.bumpErr_AllocMono (c : Consts) (q : Queue) (a : Nat) : AllocMono q (q.bumpErr c a).1 := by
  unfold Queue.bumpErr
  split
  · exact .refl q
  · have := AllocMono_mapState q (fun y => (errState c y.st).1) q.active q.lim (fun y => decide (y.id = a))
      (fun y => errState_rank _ _) (fun y hy => by rw [errState_absorbing _ _ hy])
    simpa using this

theorem AllocMono_of_allocs_append (q q' : Queue) (extra : List Alloc) (h : q'.allocs = q.allocs ++ extra) :
    AllocMono q q' := by
  intro a al ha
  refine ⟨al, ?_, rfl, Nat.le_refl _, fun _ => rfl⟩
  unfold Queue.findAlloc at ha ⊢
  rw [h, List.find?_append, ha]; rfl

theorem QPrim.allocMono {c : Consts} {P : Nat → AIn → Prop} {a b : Queue} (h : QPrim c P a b) : AllocMono a b := by
  cases h with
  | sync => exact Queue.sync_AllocMono _ _ _
  | bumpErr => exact Queue.bumpErr_AllocMono _ _ _
  | tryPause =>
    refine AllocMono_of_allocs_append _ _ [] ?_
    unfold Queue.tryPause; split <;> simp
  | trySubmit r now res =>
    obtain ⟨extra, h, _⟩ := Queue.trySubmit_allocs a r now res
    exact AllocMono_of_allocs_append _ _ extra h
  | pause => exact AllocMono_of_allocs_append _ _ [] (by simp)

theorem QTrans.allocMono {c : Consts} {P : Nat → AIn → Prop} {a b : Queue} (h : QTrans c P a b) : AllocMono a b :=
  QTrans.lift AllocMono AllocMono.refl (fun _ _ _ => AllocMono.trans) (fun _ _ h => h.allocMono) h

/-! ### `active` is only ever switched on by `resume`; parameters never change -/

theorem Queue.sync_active (q : Queue) (a : Nat) (r : SyncReason) :
    (q.sync a r).1.active = q.active ∧ (q.sync a r).1.params = q.params := by
  unfold Queue.sync; split <;> exact ⟨rfl, rfl⟩

theorem Queue.bumpErr_active (c : Consts) (q : Queue) (a : Nat) :
    (q.bumpErr c a).1.active = q.active ∧ (q.bumpErr c a).1.params = q.params ∧ (q.bumpErr c a).1.lim = q.lim := by
  unfold Queue.bumpErr; split <;> exact ⟨rfl, rfl, rfl⟩

theorem QPrim.paused {c : Consts} {P : Nat → AIn → Prop} {a b : Queue} (h : QPrim c P a b) (hp : a.active = false) : b.active = false := by
  cases h with
  | sync => rw [(Queue.sync_active _ _ _).1]; exact hp
  | bumpErr => rw [(Queue.bumpErr_active _ _ _).1]; exact hp
  | tryPause => unfold Queue.tryPause; split <;> simp [hp]
  | trySubmit r now res =>
    obtain ⟨_, _, h, _⟩ := Queue.trySubmit_allocs a r now res
    rw [h]; exact hp
  | pause => rfl

theorem QTrans.paused {c : Consts} {P : Nat → AIn → Prop} {a b : Queue} (h : QTrans c P a b) : a.active = false → b.active = false :=
  QTrans.lift (fun a b => a.active = false → b.active = false) (fun _ h => h) (fun _ _ _ h1 h2 h => h2 (h1 h))
    (fun _ _ h => h.paused) h

theorem QPrim.params {c : Consts} {P : Nat → AIn → Prop} {a b : Queue} (h : QPrim c P a b) : b.params = a.params := by
  cases h with
  | sync => exact (Queue.sync_active _ _ _).2
  | bumpErr => exact (Queue.bumpErr_active _ _ _).2.1
  | tryPause => unfold Queue.tryPause; split <;> rfl
  | trySubmit r now res =>
    obtain ⟨_, _, _, h, _⟩ := Queue.trySubmit_allocs a r now res
    exact h
  | pause => rfl

theorem QTrans.params {c : Consts} {P : Nat → AIn → Prop} {a b : Queue} (h : QTrans c P a b) : b.params = a.params :=
  QTrans.lift (fun a b => b.params = a.params) (fun _ => rfl) (fun _ _ _ h1 h2 => h2.trans h1) (fun _ _ h => h.params) h

end HqModel.AutoAlloc
