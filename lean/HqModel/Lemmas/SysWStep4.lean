import HqModel.Lemmas.SysWStep3
/-!
`WInv` is inductive over `SysW.step` (`step_inv`), no world action stops in the job layer (`step_no_job`), and every
`TaskUpdate` batch a worker model sent satisfies the worker-protocol side conditions of `Sys` when it is delivered
(`deliver_updOk`).
-/
namespace HqModel.SysW
open HqModel HqModel.Core

theorem findW_none {ws : List WState} {w : Nat} (h : findW ws w = none) : ∀ x ∈ ws, x.id ≠ w := by
  intro x hx e
  unfold findW at h
  have := List.find?_eq_none.mp h x hx
  simp [e] at this

theorem eq_of_id {ws : List WState} (hn : (ws.map (·.id)).Nodup) {x y : WState} (hx : x ∈ ws) (hy : y ∈ ws)
    (e : y.id = x.id) : y = x := by
  induction ws with
  | nil => cases hx
  | cons z zs ih =>
    simp only [List.map_cons, List.nodup_cons] at hn
    rcases List.mem_cons.mp hx with rfl | hx' <;> rcases List.mem_cons.mp hy with rfl | hy'
    · rfl
    · exact (hn.1 (e ▸ List.mem_map_of_mem (f := (·.id)) hy')).elim
    · exact (hn.1 (e ▸ List.mem_map_of_mem (f := (·.id)) hx')).elim
    · exact ih hn.2 hx' hy'

/-- the side condition of the delivered batch, from the invariant -/
theorem deliver_updOk {s : State} {w : Nat} {x : WState} {us : List Core.Update} {rest : List W2S}
    (hi : WInv s) (hf : findW s.workers w = some x) (hq : x.w2s = .updates us :: rest) (rets : List (List TaskId)) :
    Core.UpdatesOk Sys.UpdOk s.sys.core w us rets := by
  obtain ⟨hx, hxid⟩ := findW_some hf
  refine (batch_step w rest s.submitted us s.sys.core s.workers rets hi.coupled.inv hi.sub hi.pipe ?_ ⟨x, hx, hxid⟩).1
  intro y hy hyw
  rw [eq_of_id hi.nodup hx hy (hyw.trans hxid.symm)]
  exact hq

theorem updates_pipes {s : State} {w : Nat} {x : WState} {us : List Core.Update} {rest : List W2S}
    {rets : List (List TaskId)} (hi : WInv s) (hf : findW s.workers w = some x) (hq : x.w2s = .updates us :: rest)
    {sys' : Sys.State} {so : Sys.Out} (hs : Sys.step s.sys (.update w us rets) = .ok (sys', so)) :
    (∀ t ∈ taskIds sys'.core.tasks, t ∈ s.submitted ++ newIds (.update w us rets) so) ∧
    ∀ y ∈ setW s.workers { x with w2s := rest }, ∀ t,
      Pipe sys'.core (s.submitted ++ newIds (.update w us rets) so) (route1 y so.core.msgs) t := by
  have hU : s.submitted ++ newIds (.update w us rets) so = s.submitted := by simp [newIds]
  rw [hU]
  obtain ⟨hx, hxid⟩ := findW_some hf
  have hqall : ∀ y ∈ s.workers, y.id = w → y.w2s = .updates us :: rest := by
    intro y hy hyw
    rw [eq_of_id hi.nodup hx hy (hyw.trans hxid.symm)]
    exact hq
  have hcs : Core.step s.sys.core (.update w us rets) = .ok (sys'.core, so.core) :=
    coreStep_core (by simpa only [Sys.step] using hs)
  simp only [Core.step, State.taskUpdate] at hcs
  split at hcs
  · cases hcs
  · rename_i s1 out need rets' hl
    simp only [Except.ok.injEq, Prod.mk.injEq] at hcs
    obtain ⟨ec, eo⟩ := hcs
    obtain ⟨msgs, e1, e2, e3⟩ :=
      (batch_step w rest s.submitted us s.sys.core s.workers rets hi.coupled.inv hi.sub hi.pipe hqall ⟨x, hx, hxid⟩).2
        _ _ _ _ _ _ hl
    have em : so.core.msgs = msgs := by rw [← eo, e1]; rfl
    have hv : ∀ w t, view sys'.core w t = view s1 w t := by
      intro w t
      rw [← ec]
      split
      · exact view_ask _ _ _
      · rfl
    have hids : taskIds sys'.core.tasks = taskIds s1.tasks := by
      rw [← ec]; split <;> rfl
    refine ⟨fun t ht => e2 t (hids ▸ ht), fun y hy t => ?_⟩
    rw [em]
    have key : ∃ y0 ∈ s.workers, route1 y msgs = st1 w rest msgs y0 := by
      rcases mem_setW hy with rfl | ⟨hm, hne⟩
      · exact ⟨x, hx, by simp [st1, hxid]⟩
      · refine ⟨y, hm, ?_⟩
        have : y.id ≠ w := by rw [← hxid]; exact hne
        simp [st1, this]
    obtain ⟨y0, hy0, ey⟩ := key
    rw [ey]
    exact (e3 _ (List.mem_map_of_mem hy0) t).congr (hv _ _) rfl rfl rfl

/-- **the invariant is inductive** -/
theorem step_inv {s s' : State} {op : Op} {o : Out} (hi : WInv s) (hok : OpOk s op) (h : step s op = .ok (s', o)) :
    WInv s' := by
  cases op with
  | srv sop =>
    simp only [step] at h
    split at h
    · rename_i hal
      exact sysStep_inv hi hok.sys hi.nodup hi.bkeys (fun sys' so hs hc' => srv_pipes hi hal hok hs hc') h
    · cases h
  | addWorker wk rqs rem =>
    simp only [step] at h
    split at h
    · cases h
    · rename_i hnone
      have hnone : findW s.workers wk.id = none := by
        cases hf : findW s.workers wk.id with
        | none => rfl
        | some x => rw [hf] at hnone; simp at hnone
      refine sysStep_inv hi hok.1 ?_ ?_ (fun sys' so hs _ => addWorker_pipes hi hok hs) h
      · rw [List.map_append, List.nodup_append]
        refine ⟨hi.nodup, by simp, ?_⟩
        intro a ha b hb
        simp only [List.map_cons, List.map_nil, List.mem_singleton] at hb
        subst hb
        obtain ⟨x, hx, rfl⟩ := List.mem_map.mp ha
        exact findW_none hnone x hx
      · intro x hx
        rcases List.mem_append.mp hx with hx | hx
        · exact hi.bkeys x hx
        · simp only [List.mem_singleton] at hx
          subst hx
          exact List.nodup_nil
  | loseWorker w reason f order rets =>
    simp only [step] at h
    split at h
    · cases h
    · refine sysStep_inv (sop := .removeWorker w reason f order rets) hi trivial ?_
        (fun x hx => hi.bkeys x (List.mem_filter.mp hx).1) (fun sys' so hs hc' => loseWorker_pipes hi hs hc') h
      exact (List.filter_sublist.map _).nodup hi.nodup
  | deliverW2S w rets =>
    simp only [step] at h
    split at h
    · cases h
    · rename_i x hf
      obtain ⟨hx, hxid⟩ := findW_some hf
      split at h
      · cases h
      · rename_i m rest hq
        have hnd : ((setW s.workers { x with w2s := rest }).map (·.id)).Nodup := by rw [setW_ids]; exact hi.nodup
        have hbk : ∀ y ∈ setW s.workers { x with w2s := rest }, y.w.bkeys.Nodup := by
          intro y hy
          rcases mem_setW hy with rfl | ⟨hm, _⟩
          · exact hi.bkeys x hx
          · exact hi.bkeys y hm
        split at h
        · rename_i us
          exact sysStep_inv (sop := .update w us rets) hi (deliver_updOk hi hf hq rets) hnd hbk
            (fun sys' so hs _ => updates_pipes hi hf hq hs) h
        · rename_i ids
          exact sysStep_inv (sop := .retracted w ids) hi trivial hnd hbk
            (fun sys' so hs _ => retracted_pipes hi hx hxid hq hs) h
  | deliverS2W w extras =>
    simp only [step] at h
    split at h
    · cases h
    · rename_i x0 hf
      obtain ⟨hx, _⟩ := findW_some hf
      split at h
      · cases h
      · rename_i m rest hq
        split at h
        · cases h
        · rename_i op hop
          refine workerStep_inv (x0 := x0) (x := { x0 with s2w := rest }) hi hx rfl rfl rfl
            (fun t => ⟨compsOfMsg t m, ?_, ?_⟩) h
          · rw [hq, comps_cons]
          · obtain ⟨a, b⟩ := toWorkerOp_items t hop
            cases op <;> first | exact a _ rfl | exact b (fun es e => by cases e)
  | wlocal w op =>
    simp only [step] at h
    split at h
    · rename_i hal
      split at h
      · cases h
      · rename_i x hf
        obtain ⟨hx, _⟩ := findW_some hf
        refine workerStep_inv (x0 := x) hi hx rfl rfl rfl (fun t => ⟨[], rfl, ?_⟩) h
        cases op <;> first | rfl | cases hal
    · cases h

/-- **no world action stops in the job layer** -/
theorem step_no_job {s : State} {op : Op} (hi : WInv s) (hok : OpOk s op) (site : String) :
    step s op ≠ .error (.sys (.job site)) := by
  intro h
  cases op with
  | srv sop =>
    simp only [step] at h
    split at h
    · exact sysStep_no_job hi hok.sys site h
    · cases h
  | addWorker wk rqs rem =>
    simp only [step] at h
    split at h
    · cases h
    · exact sysStep_no_job hi hok.1 site h
  | loseWorker w reason f order rets =>
    simp only [step] at h
    split at h
    · cases h
    · exact sysStep_no_job (sop := .removeWorker w reason f order rets) hi trivial site h
  | deliverW2S w rets =>
    simp only [step] at h
    split at h
    · cases h
    · rename_i x hf
      split at h
      · cases h
      · rename_i m rest hq
        split at h
        · rename_i us
          exact sysStep_no_job (sop := .update w us rets) hi (deliver_updOk hi hf hq rets) site h
        · rename_i ids
          exact sysStep_no_job (sop := .retracted w ids) hi trivial site h
  | deliverS2W w extras =>
    simp only [step] at h
    split at h
    · cases h
    · split at h
      · cases h
      · split at h
        · cases h
        · simp only [workerStep] at h
          split at h <;> cases h
  | wlocal w op =>
    simp only [step] at h
    split at h
    · split at h
      · cases h
      · simp only [workerStep] at h
        split at h <;> cases h
    · cases h

end HqModel.SysW
