import HqModel.Alloc.Run
/-!
The admission decision (`has_resources_for_request`) does not depend on which of the allowed solver answers was
recorded: it is the choice-free function `admitSpec`. Consequently `is_enabled` and `try_allocate` agree.
-/
namespace HqModel.Alloc

/-- the admission decision and the resulting strict-policy cache, with the solver replaced by the brute-force
optimum (`Lp.optimum`) -/
def admitSpec (s : State) (rq : Request) : Bool × List (Request × Int) :=
  if !rq.all (entryHasResources s.pools s.concise) then (false, s.cache) else
  let coupled := coupledEntries s.pools rq
  if coupled.all (fun e => !e.policy.forced) then (true, s.cache) else
  match (mkLp s.concise coupled s.weights).optimum with
  | none => (false, s.cache)
  | some cur =>
    match cacheGet s.cache rq with
    | some cost => (decide (cost ≤ cur), s.cache)
    | none =>
      match (mkLp s.allFree coupled s.weights).optimum with
      | none => (false, s.cache)
      | some best => (decide (best - strictMargin ≤ cur), (rq, best - strictMargin) :: s.cache)

theorem groupSolver_some {free : List CState} {coupled : List Entry} {ws : List Weight} {r : Option SolRec}
    {x : SolRec} (h : groupSolver free coupled ws r = .ok (some x)) :
    (mkLp free coupled ws).optimum = some x.obj ∧ (mkLp free coupled ws).feasible x.sets = true ∧ r = some x := by
  unfold groupSolver at h
  dsimp only at h
  split at h
  · cases h
  · split at h
    · rename_i hall
      simp only [Except.ok.injEq] at h
      subst h
      simp only [solverAllowed, Bool.and_eq_true, beq_iff_eq] at hall
      exact ⟨hall.2, hall.1.1, rfl⟩
    · cases h

theorem groupSolver_none {free : List CState} {coupled : List Entry} {ws : List Weight} {r : Option SolRec}
    (h : groupSolver free coupled ws r = .ok none) : (mkLp free coupled ws).optimum = none := by
  unfold groupSolver at h
  dsimp only at h
  split at h
  · cases h
  · split at h
    · rename_i hall
      simp only [Except.ok.injEq] at h
      subst h
      simpa [solverAllowed] using hall
    · cases h

/-- whatever allowed answers were recorded, the decision is `admitSpec` -/
theorem hasResources_spec {s : State} {rq : Request} {sols rest : List (Option SolRec)} {b : Bool}
    {cache : List (Request × Int)} (h : hasResources s rq sols = .ok (b, cache, rest)) :
    admitSpec s rq = (b, cache) := by
  unfold hasResources at h
  unfold admitSpec
  split at h
  · rename_i h1
    simp only [Except.ok.injEq, Prod.mk.injEq] at h
    obtain ⟨rfl, rfl, -⟩ := h
    rw [if_pos h1]
  · rename_i h1
    rw [if_neg h1]
    dsimp only at h ⊢
    split at h
    · rename_i h2
      simp only [Except.ok.injEq, Prod.mk.injEq] at h
      obtain ⟨rfl, rfl, -⟩ := h
      rw [if_pos h2]
    · rename_i h2
      rw [if_neg h2]
      split at h
      · cases h
      · split at h
        · cases h
        · rename_i hs
          simp only [Except.ok.injEq, Prod.mk.injEq] at h
          obtain ⟨rfl, rfl, -⟩ := h
          rw [groupSolver_none hs]
        · rename_i cur hs
          obtain ⟨hopt, -, -⟩ := groupSolver_some hs
          rw [hopt]
          dsimp only
          split at h
          · rename_i cost hc
            simp only [Except.ok.injEq, Prod.mk.injEq] at h
            obtain ⟨rfl, rfl, -⟩ := h
            rw [hc]
          · rename_i hc
            rw [hc]
            dsimp only
            split at h
            · cases h
            · split at h
              · cases h
              · cases h
              · rename_i best hs2
                obtain ⟨hopt2, -, -⟩ := groupSolver_some hs2
                simp only [Except.ok.injEq, Prod.mk.injEq] at h
                obtain ⟨rfl, rfl, -⟩ := h
                rw [hopt2]

theorem cacheGet_cons_self (rq : Request) (v : Int) (m : List (Request × Int)) :
    cacheGet ((rq, v) :: m) rq = some v := by
  simp [cacheGet]

/-- asking again with the cache the first question left behind gives the same answer -/
theorem admitSpec_idem (s : State) (rq : Request) :
    (admitSpec { s with cache := (admitSpec s rq).2 } rq).1 = (admitSpec s rq).1 := by
  by_cases h1 : (!rq.all (entryHasResources s.pools s.concise)) = true
  · simp [admitSpec, h1]
  by_cases h2 : (coupledEntries s.pools rq).all (fun e => !e.policy.forced) = true
  · simp [admitSpec, h1, h2]
  cases hcur : (mkLp s.concise (coupledEntries s.pools rq) s.weights).optimum with
  | none => simp [admitSpec, h1, h2, hcur]
  | some cur =>
    cases hc : cacheGet s.cache rq with
    | some cost => simp [admitSpec, h1, h2, hcur, hc]
    | none =>
      cases hbest : (mkLp s.allFree (coupledEntries s.pools rq) s.weights).optimum with
      | none => simp [admitSpec, h1, h2, hcur, hc, hbest]
      | some best => simp [admitSpec, h1, h2, hcur, hc, hbest, cacheGet_cons_self]

end HqModel.Alloc
