import HqModel.Alloc.Run
/-!
The admission decision (`has_resources_for_request`) depends on the recorded solver answers only through the
objective value of the first one (the answer for the current free state) and, when the strict-policy cache has no
entry yet, of the second one (the answer for the empty worker): `admitWith`.
-/
namespace HqModel.Alloc

/-- objective value of the first recorded answer (`none`: no record, or the solver found the problem infeasible) -/
def curObj : List (Option SolRec) → Option Int
  | some r :: _ => some r.obj
  | _ => none

/-- objective value of the second recorded answer -/
def bestObj : List (Option SolRec) → Option Int
  | _ :: some r :: _ => some r.obj
  | _ => none

/-- the admission decision and the resulting strict-policy cache as a function of the objective value `cur` the solver
reported for the current free state and `best` it reported for the empty worker -/
def admitWith (s : State) (rq : Request) (cur best : Option Int) : Bool × List (Request × Int) :=
  if !rq.all (entryHasResources s.pools s.concise) then (false, s.cache) else
  let coupled := coupledEntries s.pools rq
  if coupled.all (fun e => !e.policy.forced) then (true, s.cache) else
  match cur with
  | none => (false, s.cache)
  | some cur =>
    match cacheGet s.cache rq with
    | some cost => (decide (cost ≤ cur), s.cache)
    | none =>
      -- (`best = none` cannot happen here: the real code unwraps the answer for the empty worker)
      let best := best.getD 0
      (decide (best - strictMargin ≤ cur), (rq, best - strictMargin) :: s.cache)

theorem groupSolver_some {free : List CState} {coupled : List Entry} {ws : List Weight} {r : Option SolRec}
    {x : SolRec} (h : groupSolver free coupled ws r = .ok (some x)) :
    r = some x ∧ (mkLp free coupled ws).feasible x.sets = true ∧ x.obj = (mkLp free coupled ws).objective x.sets ∧
      ∃ opt, (mkLp free coupled ws).optimum = some opt ∧ withinGap opt x.obj = true := by
  unfold groupSolver at h
  dsimp only at h
  split at h
  · cases h
  · split at h
    · rename_i hall
      simp only [Except.ok.injEq] at h
      subst h
      simp only [solverAllowed, Bool.and_eq_true, beq_iff_eq] at hall
      obtain ⟨⟨hf, ho⟩, hg⟩ := hall
      refine ⟨rfl, hf, ho, ?_⟩
      split at hg
      · rename_i opt hopt
        exact ⟨opt, hopt, hg⟩
      · cases hg
    · cases h

theorem groupSolver_none {free : List CState} {coupled : List Entry} {ws : List Weight} {r : Option SolRec}
    (h : groupSolver free coupled ws r = .ok none) : r = none ∧ (mkLp free coupled ws).optimum = none := by
  unfold groupSolver at h
  dsimp only at h
  split at h
  · cases h
  · split at h
    · rename_i hall
      simp only [Except.ok.injEq] at h
      subst h
      exact ⟨rfl, by simpa [solverAllowed] using hall⟩
    · cases h

/-- the decision is `admitWith` of the recorded objective values -/
theorem hasResources_with {s : State} {rq : Request} {sols rest : List (Option SolRec)} {b : Bool}
    {cache : List (Request × Int)} (h : hasResources s rq sols = .ok (b, cache, rest)) :
    admitWith s rq (curObj sols) (bestObj sols) = (b, cache) := by
  unfold hasResources at h
  unfold admitWith
  split at h
  · rename_i h1
    simp only [Except.ok.injEq, Prod.mk.injEq] at h
    obtain ⟨rfl, rfl, -⟩ := h
    rw [if_pos h1]
  · rename_i h1
    rw [if_neg h1]
    dsimp only at h ⊢
    split at h
    · rename_i h2
      simp only [Except.ok.injEq, Prod.mk.injEq] at h
      obtain ⟨rfl, rfl, -⟩ := h
      rw [if_pos h2]
    · rename_i h2
      rw [if_neg h2]
      split at h
      · cases h
      · rename_i r1 sols1
        split at h
        · cases h
        · rename_i hs
          simp only [Except.ok.injEq, Prod.mk.injEq] at h
          obtain ⟨rfl, rfl, -⟩ := h
          obtain ⟨rfl, -⟩ := groupSolver_none hs
          simp [curObj]
        · rename_i cur hs
          obtain ⟨rfl, -, -, -⟩ := groupSolver_some hs
          simp only [curObj]
          split at h
          · rename_i cost hc
            simp only [Except.ok.injEq, Prod.mk.injEq] at h
            obtain ⟨rfl, rfl, -⟩ := h
            rw [hc]
          · rename_i hc
            rw [hc]
            dsimp only
            split at h
            · cases h
            · rename_i r2 sols2
              split at h
              · cases h
              · cases h
              · rename_i best hs2
                obtain ⟨rfl, -, -, -⟩ := groupSolver_some hs2
                simp only [Except.ok.injEq, Prod.mk.injEq] at h
                obtain ⟨rfl, rfl, -⟩ := h
                simp only [bestObj, Option.getD_some]
                rfl

theorem cacheGet_cons_self (rq : Request) (v : Int) (m : List (Request × Int)) :
    cacheGet ((rq, v) :: m) rq = some v := by
  simp [cacheGet]

/-- asking again with the cache the first question left behind gives the same answer, provided the solver reports the
same objective value for the current free state (whatever it reports for the empty worker) -/
theorem admitWith_idem (s : State) (rq : Request) (cur best best' : Option Int) :
    (admitWith { s with cache := (admitWith s rq cur best).2 } rq cur best').1 = (admitWith s rq cur best).1 := by
  by_cases h1 : (!rq.all (entryHasResources s.pools s.concise)) = true
  · simp [admitWith, h1]
  by_cases h2 : (coupledEntries s.pools rq).all (fun e => !e.policy.forced) = true
  · simp [admitWith, h1, h2]
  cases cur with
  | none => simp [admitWith, h1, h2]
  | some cur =>
    cases hc : cacheGet s.cache rq with
    | some cost => simp [admitWith, h1, h2, hc]
    | none => simp [admitWith, h1, h2, hc, cacheGet_cons_self]

/-- in the paths that do not consult the solver the recorded values are irrelevant -/
theorem admitWith_nonforced (s : State) (rq : Request) (cur cur' best best' : Option Int)
    (h : (!rq.all (entryHasResources s.pools s.concise)) = true ∨
      (coupledEntries s.pools rq).all (fun e => !e.policy.forced) = true) :
    admitWith s rq cur best = admitWith s rq cur' best' := by
  by_cases h1 : (!rq.all (entryHasResources s.pools s.concise)) = true
  · simp [admitWith, h1]
  · rcases h with h | h
    · exact absurd h h1
    · simp [admitWith, h1, h]

end HqModel.Alloc
