import HqModel.Lemmas.CoreNoPanicFrame
/-!
C09 progress, preservation of `NpW` / `NpIdx` / `NpMn`: the functions of `Core/Model.lean`.
-/
namespace HqModel.Core.NPA

open HqModel.Core.NP

/-! ### `Model.lean` -/

theorem Fr.ask {all : Prop} (s : State) : Fr all s (ask s) :=
  Fr.of_same rfl rfl (WFr.refl _) (fun _ h => h) rfl

theorem withWorker_fr {all : Prop} {s s' : State} {w : Nat} {f : Worker → M Worker} (hop : WOp f)
    (h : s.withWorker w f = .ok s') : Fr all s s' := by
  obtain ⟨wk, wk', hfw, hf, rfl⟩ := withWorker_spec h
  obtain ⟨a, b, c⟩ := hop wk wk' hf
  have hid : wk.id = w := findWorker_some_id hfw
  exact Fr.of_same rfl rfl (WFr.put (wk := wk) (by rw [a, hid]; exact hfw) b c) (fun _ h => h) rfl

/-- `setWorker` of a record derived from the one found -/
theorem setWorker_fr {all : Prop} {s : State} {w : Nat} {wk wk' : Worker} (hfw : findWorker s.workers w = some wk)
    (hid : wk'.id = wk.id) (ht : wk'.total = wk.total) (hfree : FreeOk wk → FreeOk wk') : Fr all s (s.setWorker wk') := by
  have : wk.id = w := findWorker_some_id hfw
  exact Fr.of_same rfl rfl (WFr.put (wk := wk) (by rw [hid, this]; exact hfw) ht hfree) (fun _ h => h) rfl

theorem disposeAll_length (qs : List Queue) (p : Int) : (disposeAll qs p).1.length = qs.length := by
  induction qs with
  | nil => rfl
  | cons q rest ih => simp only [disposeAll, List.length_cons, ih]

theorem modifyQueue_length (qs : List Queue) (i : Nat) (f : Queue → Queue) : (modifyQueue qs i f).length = qs.length := by
  unfold modifyQueue
  split <;> simp

/-- only the queues change, their number does not -/
theorem Fr.of_queues {all : Prop} {s s' : State} (ht : s'.tasks = s.tasks) (hw : s'.workers = s.workers)
    (hr : s'.rqs = s.rqs) (hrd : s'.redirects = s.redirects) (hql : s'.queues.length = s.queues.length) : Fr all s s' :=
  Fr.of_same hr hql (by rw [hw]; exact WFr.refl _) (by rw [hrd]; exact fun _ h => h) ht

theorem addReady_fr {all : Prop} {s s' : State} {t : Task} {r : List TaskId} (h : s.addReady t = .ok (s', r)) :
    Fr all s s' := by
  simp only [State.addReady] at h
  split at h
  · cases h
  · cases h
    exact Fr.of_queues rfl rfl rfl rfl (by simp [modifyQueue_length, disposeAll_length])

theorem queueRemove_fr {all : Prop} {s s' : State} {rq : Nat} {t : TaskId} {p : Int}
    (h : s.queueRemove rq t p = .ok s') : Fr all s s' := by
  simp only [State.queueRemove] at h
  split at h
  · cases h
  · cases h
    exact Fr.of_queues rfl rfl rfl rfl (by simp [modifyQueue_length])

theorem removePrefilled_fr {all : Prop} {s s' : State} {rq : Nat} {t : TaskId}
    (h : s.removePrefilled rq t = .ok s') : Fr all s s' := by
  simp only [State.removePrefilled] at h
  split at h
  · cases h
  · split at h
    · cases h
    · split at h
      · cases h
      · cases h
        exact Fr.of_queues rfl rfl rfl rfl (by simp)

theorem movePrefilledToReady_fr {all : Prop} {s s' : State} {rq : Nat} {t : TaskId}
    (h : s.movePrefilledToReady rq t = .ok s') : Fr all s s' := by
  simp only [State.movePrefilledToReady] at h
  split at h
  · cases h
  · split at h
    · cases h
    · split at h
      · cases h
      · cases h
        exact Fr.of_queues rfl rfl rfl rfl (by simp)

/-- `process_retracted`: Prefilled → Retracting without looking at the redirect table: only `Fr True` -/
theorem processRetracted_fr (l : List TaskId) (s s' : State) (acc acc' : List (Nat × TaskId))
    (h : s.processRetracted l acc = .ok (s', acc')) : Fr True s s' := by
  induction l generalizing s acc with
  | nil => simp only [State.processRetracted] at h; cases h; exact Fr.refl _ _
  | cons t rest ih =>
    simp only [State.processRetracted] at h
    split at h
    · cases h
    · rename_i task hg
      have ht := getTask_spec hg
      split at h
      · rename_i w hs
        split at h
        · cases h
        · rename_i s1 hw
          have ht1 : findTask s1.tasks t = some task := by rw [withWorker_tasks hw]; exact ht
          refine ((withWorker_fr (wop_removePrefill t) hw).trans ?_).trans (ih _ _ h)
          refine Fr.setTask ht1 rfl rfl (mnOkS_of_not_mn (by intro ws e; cases e)) (fun _ => Or.inl (by rw [hs]; trivial)) ?_
          intro w' v hh
          rcases hh with hh | hh | ⟨_, hm⟩
          · cases hh
          · cases hh
          · exact Or.inl (Or.inr ⟨trivial, hm⟩)
      · cases h

theorem retract_fr {s s' : State} {l : List TaskId} {o : Out} (h : s.retract l = .ok (s', o)) : Fr True s s' := by
  simp only [State.retract] at h
  split at h
  · cases h
  · rename_i s1 pairs hp
    cases h
    exact processRetracted_fr _ _ _ _ _ hp

theorem tryRemoveRedirection_fr {all : Prop} {s s' : State} {t : TaskId} {rq : Nat}
    (h : s.tryRemoveRedirection t rq = .ok s') : Fr all s s' := by
  simp only [State.tryRemoveRedirection] at h
  split at h
  · cases h; exact Fr.refl _ _
  · split at h
    · cases h
    · refine Fr.trans (b := { s with redirects := s.redirects.filter (·.1 ≠ t) }) ?_ (withWorker_fr (wop_removeSn _ _) h)
      exact Fr.of_same rfl rfl (WFr.refl _) (fun x hx => (List.mem_filter.mp hx).1) rfl

/-- what `removeConsumer(s)` does to a task list: only consumer lists change -/
theorem removeConsumer_rel {ts ts' : List Task} {d c : TaskId} (h : removeConsumer ts d c = .ok ts') :
    ∀ t' ∈ ts', ∃ t ∈ ts, t'.id = t.id ∧ t'.rq = t.rq ∧ t'.state = t.state := by
  simp only [removeConsumer] at h
  split at h
  · cases h; exact fun t' h => ⟨t', h, rfl, rfl, rfl⟩
  · rename_i dt hd
    split at h
    · cases h
    · cases h
      intro t' ht'
      rcases mem_putTask ht' with e | e
      · subst e; exact ⟨dt, findTask_some_mem hd, rfl, rfl, rfl⟩
      · exact ⟨t', e, rfl, rfl, rfl⟩

theorem removeConsumers_rel (deps : List TaskId) (ts ts' : List Task) (c : TaskId)
    (h : removeConsumers ts c deps = .ok ts') :
    ∀ t' ∈ ts', ∃ t ∈ ts, t'.id = t.id ∧ t'.rq = t.rq ∧ t'.state = t.state := by
  induction deps generalizing ts with
  | nil => simp only [removeConsumers] at h; cases h; exact fun t' h => ⟨t', h, rfl, rfl, rfl⟩
  | cons d rest ih =>
    simp only [removeConsumers] at h
    split at h
    · cases h
    · rename_i ts1 h1
      intro t' ht'
      obtain ⟨t1, hm1, a1, b1, c1⟩ := ih _ h t' ht'
      obtain ⟨t, hm, a, b, c⟩ := removeConsumer_rel h1 t1 hm1
      exact ⟨t, hm, a1.trans a, b1.trans b, c1.trans c⟩

/-- state-level forms (the model applies them to `s.tasks` inside `removeTask`) -/
theorem removeConsumer_fr {all : Prop} {s : State} {ts' : List Task} {d c : TaskId}
    (h : removeConsumer s.tasks d c = .ok ts') : Fr all s { s with tasks := ts' } :=
  Fr.of_tasks rfl rfl (WFr.refl _) (fun _ h => h) (removeConsumer_rel h)

theorem removeConsumers_fr {all : Prop} {s : State} {ts' : List Task} {c : TaskId} {deps : List TaskId}
    (h : removeConsumers s.tasks c deps = .ok ts') : Fr all s { s with tasks := ts' } :=
  Fr.of_tasks rfl rfl (WFr.refl _) (fun _ h => h) (removeConsumers_rel _ _ _ _ h)

theorem Fr.erase {all : Prop} (s : State) (id : TaskId) : Fr all s { s with tasks := eraseTask s.tasks id } :=
  Fr.of_tasks rfl rfl (WFr.refl _) (fun _ h => h) (fun t' h => ⟨t', mem_eraseTask h, rfl, rfl, rfl⟩)

theorem removeTask_fr {all : Prop} {s s' : State} {id : TaskId} {st : TS} (h : s.removeTask id = .ok (s', st)) :
    Fr all s s' := by
  have he : Fr all s { s with tasks := eraseTask s.tasks id } := Fr.erase s id
  simp only [State.removeTask] at h
  split at h
  · cases h
  · split at h
    · split at h
      · cases h
      · rename_i s1 hq
        have h1 := he.trans (queueRemove_fr hq)
        split at h
        · split at h
          · cases h
          · rename_i ts hc
            cases h
            refine h1.trans ?_
            exact Fr.of_tasks rfl rfl (WFr.refl _) (fun _ h => h) (removeConsumers_rel _ _ _ _ hc)
        · cases h; exact h1
    · split at h
      · cases h
      · rename_i s1 hq
        cases h
        exact he.trans (queueRemove_fr hq)
    · cases h; exact he

end HqModel.Core.NPA
