import HqModel.Lemmas.CoreNoPanicFrame4
/-!
C09 progress, preservation of `NpW` / `NpIdx` / `NpMn`: the functions of `Core/Sched.lean`.

Besides `Fr` a scheduling round needs to know that the ids it takes from queue `i` are tasks of request `i`
(`QRq s`, a consequence of `QueueOk s` and unique ids: `QRq.of_queueOk`); `QRq` is carried along the round by
`FrQ` = `Fr` + "the queues only lose ids or move them inside the same queue" (`QSub`).
-/
namespace HqModel.Core.NPA

open HqModel.Core.NP

/-! ### queues -/

/-- every id of queue `i` is (as far as it is a task of the map) a task of request `i`; membership form -/
def QRq (s : State) : Prop :=
  ∀ (i : Nat) (q : Queue), s.queues[i]? = some q → ∀ id ∈ qIds q, ∀ t ∈ s.tasks, t.id = id → t.rq = i

theorem QRq.of_queueOk {s : State} (hn : (taskIds s.tasks).Nodup) (hq : QueueOk s) : QRq s := by
  intro i q hi id hid t ht he
  have := mem_find_of_nodup hn ht
  rw [he] at this
  exact (hq i q hi id hid t this).1

/-- `Good` (lookup form) gives the membership form the placement lemmas take -/
theorem rq_of_good {s : State} {i : Nat} {id : TaskId} (hn : (taskIds s.tasks).Nodup) (hg : Good s i id) :
    ∀ t ∈ s.tasks, t.id = id → t.rq = i := by
  intro t ht he
  have := mem_find_of_nodup hn ht
  rw [he] at this
  exact (hg t this).1

theorem qsub_trans {a b c : List Queue} (h1 : QSub a b) (h2 : QSub b c) : QSub a c := by
  intro i q'' hq'' id hid
  obtain ⟨q', hq', hid'⟩ := h2 i q'' hq'' id hid
  exact h1 i q' hq' id hid'

/-- frame + queue ids only shrink -/
structure FrQ (all : Prop) (s s' : State) : Prop where
  fr : Fr all s s'
  qs : QSub s.queues s'.queues

theorem FrQ.refl (all : Prop) (s : State) : FrQ all s s := ⟨Fr.refl _ _, QSub.refl _⟩

theorem FrQ.trans {all : Prop} {a b c : State} (h1 : FrQ all a b) (h2 : FrQ all b c) : FrQ all a c :=
  ⟨h1.fr.trans h2.fr, qsub_trans h1.qs h2.qs⟩

theorem FrQ.of_eq {all : Prop} {s s' : State} (h : Fr all s s') (hq : s'.queues = s.queues) : FrQ all s s' :=
  ⟨h, by rw [hq]; exact QSub.refl _⟩

theorem FrQ.qrq {all : Prop} {s s' : State} (h : FrQ all s s') (hq : QRq s) : QRq s' := by
  intro i q' hq' id hid t' ht' he
  obtain ⟨q, hq0, hid0⟩ := h.qs i q' hq' id hid
  obtain ⟨t, ht, r⟩ := h.fr.t t' ht'
  rw [r.rq]
  exact hq i q hq0 id hid0 t ht (r.id.symm.trans he)

/-- one queue replaced by a queue with fewer ids -/
theorem FrQ.of_queue_set {all : Prop} {s : State} {i : Nat} {q q' : Queue} (hq : s.queues[i]? = some q)
    (hsub : ∀ id ∈ qIds q', id ∈ qIds q) : FrQ all s { s with queues := s.queues.set i q' } :=
  ⟨Fr.of_queues rfl rfl rfl rfl (by simp), (Trk.of_queue_set hq hsub).qsub⟩

theorem withWorker_queues {s s' : State} {w : Nat} {f : Worker → M Worker} (h : s.withWorker w f = .ok s') :
    s'.queues = s.queues := by
  obtain ⟨_, _, _, _, rfl⟩ := withWorker_spec h
  rfl

/-! ### single-node placements -/

/-- a redirect to an index-correct (worker, variant) is added -/
theorem Fr.addRd {all : Prop} {s : State} {rd' : List (TaskId × Nat × Nat)} {id : TaskId} {w v rq : Nat}
    (hsub : ∀ x ∈ rd', x ∈ s.redirects ∨ x = (id, w, v)) (hidx : IdxOk s w rq v)
    (hq : ∀ t ∈ s.tasks, t.id = id → t.rq = rq) : Fr all s { s with redirects := rd' } := by
  refine ⟨rfl, rfl, WFr.refl _, ?_⟩
  intro t ht
  refine ⟨t, ht, rfl, rfl, fun h => h, fun h => h, ?_⟩
  intro h w0 v0 hh
  have key : ∀ x, (t.id, w0, v0) = x → x ∈ rd' →
      (t.id, w0, v0) ∈ s.redirects ∨ IdxOk { s with redirects := rd' } w0 t.rq v0 := by
    intro x e hx
    rcases hsub x hx with h1 | h1
    · exact Or.inl (e ▸ h1)
    · right
      rw [h1] at e
      simp only [Prod.mk.injEq] at e
      obtain ⟨e1, e2, e3⟩ := e
      rw [hq t ht e1, e2, e3]
      exact hidx
  rcases hh with hh | ⟨a, hm⟩
  · rcases hh with hh | hh | ⟨hr, hm⟩
    · exact h w0 v0 (Or.inl (Or.inl hh))
    · exact h w0 v0 (Or.inl (Or.inr (Or.inl hh)))
    · rcases key _ rfl hm with h1 | h1
      · exact h w0 v0 (Or.inl (Or.inr (Or.inr ⟨hr, h1⟩)))
      · exact h1
  · rcases key _ rfl hm with h1 | h1
    · exact h w0 v0 (Or.inr ⟨a, h1⟩)
    · exact h1

/-- the index bound a validated placement gives -/
theorem idxOk_of_placeFits {s : State} {rq v w : Nat} {r : Rq} (hw : NpW s) (hr : s.rq rq v = .ok r)
    (hfit : s.placeFits r w) {wk : Worker} {A F P} (hfw : findWorker s.workers w = some wk)
    (ha : wk.assign = .sn A F P) : IdxOk s w rq v := by
  refine IdxOk.intro hr ?_
  intro wk' hwk' e he
  have : wk' = wk := by
    have h1 : findWorker s.workers w = some wk' := hwk'
    rw [hfw] at h1; cases h1; rfl
  subst this
  have h1 := fitsNow_idx (hfit wk' A F P hwk' ha) e he
  rw [hw.free wk' (findWorker_some_mem hfw) A F P ha] at h1
  exact h1

theorem placeSnBody_queues {s s' : State} {m m' : List WUpdate} {v : Nat} {r : Rq} {id : TaskId} {w : Nat}
    (h : s.placeSnBody m v r id w = .ok (s', m')) : s'.queues = s.queues := by
  simp only [State.placeSnBody] at h
  have hw := @withWorker_queues
  repeat' (split at h)
  all_goals first | cases h | skip
  all_goals grind [State.setTask]

/-- one placement. `hr`: the variant exists (`mapSn` evaluated it), `hq`: the placed task has request `rq`
(`QRq` of the state the ids were taken in), `hmn`: `rq` is a single-node request (`SnEntryOk`) -/
theorem placeSnBody_fr {all : Prop} {s s' : State} {m m' : List WUpdate} {v rq : Nat} {r : Rq} {id : TaskId} {w : Nat}
    (hw : NpW s) (hr : s.rq rq v = .ok r) (hfit : s.placeFits r w) (hmn : s.isMultiNode rq = false)
    (hq : ∀ t ∈ s.tasks, t.id = id → t.rq = rq)
    (h : s.placeSnBody m v r id w = .ok (s', m')) : Fr all s s' := by
  simp only [State.placeSnBody] at h
  split at h
  · cases h
  · rename_i s1 hw1
    have f1 : Fr all s s1 := withWorker_fr (wop_insertSn _ _) hw1
    have et1 : s1.tasks = s.tasks := withWorker_tasks hw1
    obtain ⟨wk1, wk1', hfw1, hf1, e1⟩ := withWorker_spec hw1
    obtain ⟨A, F, P, F', ha, _, _, _⟩ := insertSn_spec hf1
    have hidx : IdxOk s w rq v := idxOk_of_placeFits hw hr hfit hfw1 ha
    have hidx1 : IdxOk s1 w rq v := IdxOk.fr f1.rqs f1.w hidx
    have er1 : s1.redirects = s.redirects := by rw [e1]; rfl
    split at h
    · cases h
    · rename_i task hgt
      have ht1 : findTask s1.tasks id = some task := getTask_spec hgt
      have hrq : task.rq = rq := hq task (by rw [← et1]; exact findTask_some_mem ht1) (findTask_some_id ht1)
      have hq1 : ∀ t ∈ s1.tasks, t.id = id → t.rq = rq := by rw [et1]; exact hq
      have hmn1 : s1.isMultiNode task.rq = false := by rw [isMultiNode_congr f1.rqs, hrq]; exact hmn
      split at h
      · -- Waiting → Assigned
        cases h
        refine f1.trans (Fr.setTask (tn := { task with state := .assigned w v }) ht1 rfl rfl
          (mnOkS_of_not_mn (by intro ws e; cases e)) (fun _ => Or.inr hmn1) ?_)
        intro w0 v0 hh
        rcases hh with hh | hh | ⟨⟨_, hh⟩, _⟩
        · cases hh; right; rw [hrq]; exact hidx1
        · cases hh
        · cases hh
      · -- Retracting: the redirect is (re)placed
        rename_i old hs
        have f2 : Fr all s1 { s1 with redirects := (s1.redirects.filter (·.1 ≠ id)) ++ [(id, w, v)] } := by
          refine Fr.addRd (id := id) (w := w) (v := v) (rq := rq) ?_ hidx1 hq1
          intro x hx
          rcases List.mem_append.mp hx with h1 | h1
          · exact Or.inl (List.mem_filter.mp h1).1
          · exact Or.inr (by simpa using h1)
        split at h
        · split at h
          · cases h
          · split at h
            · cases h
            · rename_i s3 hw3
              cases h
              have ht3 : findTask s3.tasks id = some task := by rw [withWorker_tasks hw3]; exact ht1
              exact ((f1.trans f2).trans (withWorker_fr (wop_removeSn _ _) hw3)).trans
                (Fr.setSame (tn := { task with state := .retracting old }) ht3 rfl rfl hs.symm)
        · cases h
          exact f1.trans f2
      · -- Prefilled elsewhere → Retracting with a redirect
        rename_i old hs
        split at h
        · cases h
        · rename_i s2 hw2
          have f2 : Fr all s1 s2 := withWorker_fr (wop_removePrefill _) hw2
          have et2 : s2.tasks = s1.tasks := withWorker_tasks hw2
          have hidx2 : IdxOk s2 w rq v := IdxOk.fr f2.rqs f2.w hidx1
          split at h
          · cases h
          · rename_i hany
            cases h
            have hnr : ∀ x v', (id, x, v') ∉ s2.redirects := by
              intro x v' hmem
              apply hany
              exact List.any_eq_true.mpr ⟨_, hmem, by simp⟩
            have f3 : Fr all s2 { s2 with redirects := s2.redirects ++ [(id, w, v)] } := by
              refine Fr.addRd (id := id) (w := w) (v := v) (rq := rq) ?_ hidx2 (by rw [et2]; exact hq1)
              intro x hx
              rcases List.mem_append.mp hx with h1 | h1
              · exact Or.inl h1
              · exact Or.inr (by simpa using h1)
            refine ((f1.trans f2).trans f3).trans ?_
            refine Fr.setTask (tn := { task with state := .retracting old }) (id := id) (told := task)
              (by show findTask s2.tasks id = some task; rw [et2]; exact ht1) rfl rfl
              (mnOkS_of_not_mn (by intro ws e; cases e)) (fun _ => Or.inl (by rw [hs]; trivial)) ?_
            intro w0 v0 hh
            rcases hh with hh | hh | ⟨_, hm⟩
            · cases hh
            · cases hh
            · have hid : task.id = id := findTask_some_id ht1
              rw [show ({ task with state := TS.retracting old } : Task).id = id from hid] at hm
              rcases List.mem_append.mp hm with h1 | h1
              · exact absurd h1 (hnr w0 v0)
              · simp only [List.mem_singleton, Prod.mk.injEq] at h1
                obtain ⟨_, e2, e3⟩ := h1
                right
                rw [e2, e3, hrq]
                exact IdxOk.fr f3.rqs f3.w hidx2
      · cases h

theorem placeSn_fr {all : Prop} {s s' : State} {m m' : List WUpdate} {v rq : Nat} {r : Rq} {id : TaskId} {w : Nat}
    (hw : NpW s) (hr : s.rq rq v = .ok r) (hmn : s.isMultiNode rq = false)
    (hq : ∀ t ∈ s.tasks, t.id = id → t.rq = rq)
    (h : s.placeSn m v r id w = .ok (s', m')) : FrQ all s s' := by
  obtain ⟨hb, hfit⟩ := placeSn_ok h
  exact FrQ.of_eq (placeSnBody_fr hw hr hfit hmn hq hb) (placeSnBody_queues hb)

theorem placeAll_fr {all : Prop} (l : List (TaskId × Nat)) (s s' : State) (m m' : List WUpdate) (v rq : Nat) (r : Rq)
    (hw : NpW s) (hr : s.rq rq v = .ok r) (hmn : s.isMultiNode rq = false)
    (hq : ∀ p ∈ l, ∀ t ∈ s.tasks, t.id = p.1 → t.rq = rq)
    (h : s.placeAll m v r l = .ok (s', m')) : FrQ all s s' := by
  induction l generalizing s m with
  | nil => simp only [State.placeAll] at h; cases h; exact FrQ.refl _ _
  | cons p rest ih =>
    obtain ⟨id, w⟩ := p
    simp only [State.placeAll] at h
    split at h
    · cases h
    · rename_i s1 m1 h1
      have f1 : FrQ all s s1 := placeSn_fr hw hr hmn (hq (id, w) (by simp)) h1
      refine f1.trans (ih _ _ (f1.fr.npw hw) (by rw [rq_congr f1.fr.rqs]; exact hr)
        (by rw [isMultiNode_congr f1.fr.rqs]; exact hmn) ?_ h)
      intro p hp t1 ht1 he
      obtain ⟨t, ht, r⟩ := f1.fr.t t1 ht1
      rw [r.rq]
      exact hq p (by simp [hp]) t ht (r.id.symm.trans he)

/-- one `sn_counts` entry -/
theorem mapSn1_fr {all : Prop} {s s' : State} {now : Nat} {m m' : List WUpdate} {e : SnEntry}
    (hw : NpW s) (hq : QRq s) (hok : SnEntryOk s e) (h : s.mapSn now m [e] = .ok (s', m')) : FrQ all s s' := by
  simp only [State.mapSn] at h
  split at h
  · cases h
  · rename_i r hr
    split at h
    · cases h
    · split at h
      · cases h
      · rename_i q hqq
        split at h
        · cases h
        · rename_i q' htk
          obtain ⟨a, b⟩ := takeTasks_sub htk
          have f1 : FrQ all s { s with queues := s.queues.set e.rq q' } := FrQ.of_queue_set hqq a
          split at h
          · cases h
          · rename_i s2 m2 hp
            cases h
            refine f1.trans (placeAll_fr _ _ _ _ _ _ e.rq _ (f1.fr.npw hw) hr hok.2.1 ?_ hp)
            intro p hp t ht he
            rcases deal_sub _ _ _ _ p hp with h1 | h1
            · cases h1
            · exact hq e.rq q hqq p.1 (b _ h1) t ht he

theorem mapSn_fr {all : Prop} (es : List SnEntry) (s s' : State) (now : Nat) (m m' : List WUpdate)
    (hw : NpW s) (hq : QRq s) (hok : SnOk now s m es) (h : s.mapSn now m es = .ok (s', m')) : FrQ all s s' := by
  induction es generalizing s m with
  | nil => simp only [State.mapSn] at h; cases h; exact FrQ.refl _ _
  | cons e rest ih =>
    rw [mapSn_cons] at h
    simp only [SnOk] at hok
    split at h
    · cases h
    · rename_i s1 m1 h1
      rw [h1] at hok
      have f1 : FrQ all s s1 := mapSn1_fr hw hq hok.1 h1
      exact f1.trans (ih _ _ (f1.fr.npw hw) (f1.qrq hq) hok.2 h)

/-! ### multi-node placements -/

theorem setMnAll_fr {all : Prop} (l : List Nat) (s s' : State) (id : TaskId) (first : Bool)
    (h : setMnAll s id l first = .ok s') : FrQ all s s' := by
  induction l generalizing s first with
  | nil => simp only [setMnAll] at h; cases h; exact FrQ.refl _ _
  | cons w rest ih =>
    simp only [setMnAll] at h
    split at h
    · cases h
    · rename_i s1 hw
      exact (FrQ.of_eq (withWorker_fr (wop_setMn _ _) hw) (withWorker_queues hw)).trans (ih _ _ h)

/-- one multi-node placement -/
theorem mapMnSets1_fr {all : Prop} {s s' : State} {rq : Nat} {ws : List Nat} {acc acc' : List TaskId}
    (hok : MnSetOk s rq ws) (h : s.mapMnSets rq [ws] acc = .ok (s', acc')) : FrQ all s s' := by
  simp only [State.mapMnSets] at h
  split at h
  · cases h
  · rename_i q hq
    split at h
    · cases h
    · rename_i p ids more hready
      split at h
      · cases h
      · rename_i id ids'
        split at h
        · cases h
        · rename_i s2 hset
          split at h
          · cases h
          · rename_i task hgt
            split at h
            · cases h
            · cases h
              have ht2 : findTask s2.tasks id = some task := getTask_spec hgt
              have t1 : FrQ all s _ :=
                FrQ.of_queue_set (q' := { q with ready := if ids'.isEmpty then more else (p, ids') :: more }) hq (by
                  intro x hx
                  rw [qIds_eq] at hx ⊢
                  simp only [List.mem_append] at hx ⊢
                  rcases hx with h1 | h1
                  · left
                    rw [hready, rIds_cons]
                    split at h1
                    · exact List.mem_append.mpr (Or.inr h1)
                    · rw [rIds_cons] at h1
                      rcases List.mem_append.mp h1 with h2 | h2
                      · exact List.mem_append.mpr (Or.inl (List.mem_cons_of_mem _ h2))
                      · exact List.mem_append.mpr (Or.inr h2)
                  · exact Or.inr h1)
              refine (t1.trans (setMnAll_fr _ _ _ _ _ hset)).trans (FrQ.of_eq ?_ rfl)
              refine Fr.setTask (tn := { task with state := .runningMN ws }) ht2 rfl rfl ?_ (fun h => h.elim) ?_
              · intro _ ws' e
                cases e
                exact ⟨hok.1, hok.2.1⟩
              · intro w0 v0 hh
                rcases hh with hh | hh | ⟨⟨_, hh⟩, _⟩ <;> cases hh

theorem mapMnSets_fr {all : Prop} (sets : List (List Nat)) (s s' : State) (rq : Nat) (acc acc' : List TaskId)
    (hok : MnSetsOk rq s acc sets) (h : s.mapMnSets rq sets acc = .ok (s', acc')) : FrQ all s s' := by
  induction sets generalizing s acc with
  | nil => simp only [State.mapMnSets] at h; cases h; exact FrQ.refl _ _
  | cons ws rest ih =>
    rw [mapMnSets_cons] at h
    simp only [MnSetsOk] at hok
    split at h
    · cases h
    · rename_i s1 acc1 h1
      rw [h1] at hok
      exact (mapMnSets1_fr hok.1 h1).trans (ih _ _ hok.2 h)

theorem mapMn_fr {all : Prop} (es : List MnEntry) (s s' : State) (acc acc' : List TaskId)
    (hok : MnEntriesOk s acc es) (h : s.mapMn es acc = .ok (s', acc')) : FrQ all s s' := by
  induction es generalizing s acc with
  | nil => simp only [State.mapMn] at h; cases h; exact FrQ.refl _ _
  | cons e rest ih =>
    simp only [State.mapMn] at h
    simp only [MnEntriesOk] at hok
    split at h
    · cases h
    · rename_i s1 acc1 h1
      rw [h1] at hok
      exact (mapMnSets_fr _ _ _ _ _ _ hok.1 h1).trans (ih _ _ hok.2 h)

/-! ### proactive filling -/

theorem prefillBack_fr {all : Prop} (rq : Nat) (l : List TaskId) (s s' : State) (keep keep' : List TaskId)
    (h : State.prefillWorker.back rq s l keep = .ok (s', keep')) :
    FrQ all s s' ∧ ∀ x ∈ keep', x ∈ keep ∨ x ∈ l := by
  obtain ⟨-, b, c⟩ := prefillBack_spec _ _ _ _ _ _ h
  refine ⟨⟨?_, b.qsub⟩, c⟩
  clear b c
  induction l generalizing s keep with
  | nil => simp only [State.prefillWorker.back] at h; cases h; exact Fr.refl _ _
  | cons id rest ih =>
    simp only [State.prefillWorker.back] at h
    split at h
    · cases h
    · split at h
      · split at h
        · cases h
        · rename_i s2 hm
          exact (movePrefilledToReady_fr hm).trans (ih _ _ h)
      · exact ih _ _ h

/-- the `mark` loop: Waiting → Prefilled. `hmn`: the queue index is a single-node request, `hq`: the marked tasks have
that request -/
theorem prefillMark_fr {all : Prop} (w rq : Nat) (l : List TaskId) (s s' : State)
    (hmn : s.isMultiNode rq = false) (hq : ∀ id ∈ l, ∀ t ∈ s.tasks, t.id = id → t.rq = rq)
    (h : State.prefillWorker.mark w s l = .ok s') : FrQ all s s' := by
  induction l generalizing s with
  | nil => simp only [State.prefillWorker.mark] at h; cases h; exact FrQ.refl _ _
  | cons id rest ih =>
    simp only [State.prefillWorker.mark] at h
    split at h
    · cases h
    · rename_i task hgt
      have ht := getTask_spec hgt
      split at h
      · rename_i n hs
        split at h
        · cases h
        · rename_i s2 hw
          have hrq : task.rq = rq := hq id (by simp) task (findTask_some_mem ht) (findTask_some_id ht)
          have f1 : Fr all s (s.setTask { task with state := .prefilled w }) :=
            Fr.setTask ht rfl rfl (mnOkS_of_not_mn (by intro ws e; cases e)) (fun _ => Or.inr (by rw [hrq]; exact hmn))
              (by intro w0 v0 hh; rcases hh with hh | hh | ⟨⟨_, hh⟩, _⟩ <;> cases hh)
          have f2 : FrQ all s s2 :=
            FrQ.of_eq (f1.trans (withWorker_fr (wop_insertPrefill _) hw)) (by have := withWorker_queues hw; exact this)
          refine f2.trans (ih s2 (by rw [isMultiNode_congr f2.fr.rqs]; exact hmn) ?_ h)
          intro x hx t2 ht2 he
          obtain ⟨t, hm, r⟩ := f2.fr.t t2 ht2
          rw [r.rq]
          exact hq x (List.mem_cons_of_mem _ hx) t hm (r.id.symm.trans he)
      · cases h

theorem prefillWorker_fr {all : Prop} {s s' : State} {m m' : List WUpdate} {rq size w : Nat}
    (hq : QRq s) (hmn : s.isMultiNode rq = false)
    (h : s.prefillWorker m rq size w = .ok (s', m')) : FrQ all s s' := by
  simp only [State.prefillWorker] at h
  split at h
  · cases h
  · rename_i q hqq
    split at h
    · cases h
    · rename_i p ids0 more hready
      split at h
      · cases h
      · rename_i pf hpf
        have hsub : ∀ x ∈ qIds ({ ready := (takeFromFirst q.ready size).1, prefill := some pf } : Queue), x ∈ qIds q := by
          intro x hx
          rw [qIds_eq] at hx ⊢
          simp only [List.mem_append] at hx ⊢
          rcases hx with h1 | h1
          · exact Or.inl ((takeFromFirst_sub q.ready size x).1 h1)
          · split at hpf
            · rename_i pp ts hpre
              split at hpf
              · cases hpf
              · cases hpf
                simp only [hpre]
                rcases List.mem_append.mp h1 with h2 | h2
                · exact Or.inr h2
                · exact Or.inl ((takeFromFirst_sub q.ready size x).2 h2)
            · cases hpf
              exact Or.inl ((takeFromFirst_sub q.ready size x).2 h1)
        have f1 : FrQ all s _ :=
          FrQ.of_queue_set (q' := { ready := (takeFromFirst q.ready size).1, prefill := some pf }) hqq hsub
        split at h
        · cases h
        · rename_i s2 keep hb
          obtain ⟨fb, c⟩ := prefillBack_fr (all := all) _ _ _ _ _ _ hb
          have f2 := f1.trans fb
          split at h
          · cases h
          · rename_i s3 hm
            cases h
            refine f2.trans (prefillMark_fr w rq keep s2 _ (by rw [isMultiNode_congr f2.fr.rqs]; exact hmn) ?_ hm)
            intro x hx t2 ht2 he
            obtain ⟨t, hmem, r⟩ := f2.fr.t t2 ht2
            rw [r.rq]
            have hxq : x ∈ qIds q := by
              rcases c x hx with h1 | h1
              · cases h1
              · rw [qIds_eq]; exact List.mem_append.mpr (Or.inl ((takeFromFirst_sub q.ready size x).2 h1))
            exact hq rq q hqq x hxq t hmem (r.id.symm.trans he)

theorem prefillWorkers_fr {all : Prop} (ws : List Nat) (s s' : State) (m m' : List WUpdate) (rq size : Nat)
    (hq : QRq s) (hmn : s.isMultiNode rq = false)
    (h : s.prefillWorkers m rq size ws = .ok (s', m')) : FrQ all s s' := by
  induction ws generalizing s m with
  | nil => simp only [State.prefillWorkers] at h; cases h; exact FrQ.refl _ _
  | cons w rest ih =>
    simp only [State.prefillWorkers] at h
    split at h
    · cases h
    · rename_i s1 m1 h1
      have f1 : FrQ all s s1 := prefillWorker_fr hq hmn h1
      exact f1.trans (ih _ _ (f1.qrq hq) (by rw [isMultiNode_congr f1.fr.rqs]; exact hmn) h)

theorem snState_of_held {st : TS} (h1 : ¬ isWaiting st) (h2 : ¬ locked st) : snState st := by
  cases st <;> simp_all [snState]

/-- a prefill candidate exists only for a single-node request: the worker was given a task of that request in this
round (`MH`: the ids of the update list are held) -/
theorem isMultiNode_of_cands {s : State} {m : List WUpdate} {rq : Nat} (hmn : NpMn s) (hm : MH s m)
    (hc : s.prefillCandidates m rq ≠ []) : s.isMultiNode rq = false := by
  unfold State.prefillCandidates at hc
  obtain ⟨x, hx⟩ := List.exists_mem_of_ne_nil _ hc
  obtain ⟨wk, hwk, _⟩ := List.mem_map.mp hx
  have hp := (List.mem_filter.mp hwk).2
  split at hp
  · cases hp
  · simp only [Bool.and_eq_true] at hp
    have hp1 := hp.1
    split at hp1
    · rename_i u hu
      obtain ⟨a, ha, hrq⟩ := List.any_eq_true.mp hp1
      have hum : u ∈ m := List.mem_of_find?_eq_some hu
      have hmem : a.1 ∈ mIds m := by
        simp only [mIds, List.mem_flatten, List.mem_map]
        exact ⟨uIds u, ⟨u, hum, rfl⟩, List.mem_append.mpr (Or.inl (List.mem_map.mpr ⟨a, ha, rfl⟩))⟩
      obtain ⟨t, hf, hnw, hnl⟩ := hm _ hmem
      have hrq' : t.rq = rq := by
        simp only [taskRq, State.task?, hf, Option.map_some, beq_iff_eq, Option.some.injEq] at hrq
        exact hrq
      rw [← hrq']
      exact hmn.sn t (findTask_some_mem hf) (snState_of_held hnw hnl)
    · cases hp1

theorem proactive_fr {all : Prop} (n : Nat) (s s' : State) (m m' : List WUpdate) (orders : List (Nat × List Nat))
    (top : Int) (rq : Nat) (hn : (taskIds s.tasks).Nodup) (hq : QRq s) (hmn : NpMn s) (hm : MH s m)
    (h : s.proactive m orders top n rq = .ok (s', m')) : FrQ all s s' := by
  induction n generalizing s m rq with
  | zero => simp only [State.proactive] at h; cases h; exact FrQ.refl _ _
  | succ k ih =>
    simp only [State.proactive] at h
    repeat' (split at h)
    all_goals first
      | (cases h; done)
      | (cases h; exact FrQ.refl _ _)
      | exact ih _ _ _ hn hq hmn hm h
      | (rename_i s1 m1 h1
         have hc : ¬ (s.prefillCandidates m rq).isEmpty = true := by assumption
         have hne : s.prefillCandidates m rq ≠ [] := by
           intro e; rw [e] at hc; simp at hc
         have f1 : FrQ all s s1 := prefillWorkers_fr _ _ _ _ _ _ _ hq (isMultiNode_of_cands hmn hm hne) h1
         obtain ⟨_, b⟩ := prefillWorkers_s _ _ _ _ _ _ _ hn hm h1
         have hn1 : (taskIds s1.tasks).Nodup := by rw [prefillWorkers_ids _ _ _ _ _ _ _ h1]; exact hn
         exact f1.trans (ih _ _ _ hn1 (f1.qrq hq) (f1.fr.npmn hmn) b h))

/-! ### the round -/

/-- **one scheduling round** -/
theorem schedule_fr {all : Prop} {s s' : State} {sol : Solution} {o : Out} (hn : (taskIds s.tasks).Nodup)
    (hq : QRq s) (hw : NpW s) (hmn : NpMn s) (hok : SolOk s sol)
    (h : s.schedule sol = .ok (s', o)) : Fr all s s' := by
  simp only [State.schedule] at h
  split at h
  · cases h
  · rename_i s1 m1 h1
    have hok2 := hok.2
    simp only [h1] at hok2
    have f1 : FrQ all s s1 := mapSn_fr _ _ _ _ _ _ hw hq hok.1 h1
    obtain ⟨e1, mh1⟩ := mapSn_s _ _ _ _ _ _ hn (MH.nil s) h1
    have hn1 : (taskIds s1.tasks).Nodup := by rw [mapSn_ids _ _ _ _ _ _ h1]; exact hn
    split at h
    · cases h
    · rename_i s2 mnTasks h2
      have f2 : FrQ all s1 s2 := mapMn_fr _ _ _ _ _ hok2 h2
      obtain ⟨e2, _⟩ := mapMn_s _ _ _ _ _ hn1 h2
      have id2 := mapMn_ids _ _ _ _ _ h2
      have hn2 : (taskIds s2.tasks).Nodup := id2 ▸ hn1
      have mh2 : ∀ prio : TaskId → Int, MH s2 (m1.map fun u => { u with assigned := sortByPrio prio u.assigned }) :=
        fun prio x hx => (mh1 x (mIds_sorted prio _ _ hx)).fwd e2 hn1 id2
      have f12 := f1.trans f2
      split at h
      · cases h
      · rename_i s3 m3 h3
        have f3 : FrQ all s2 s3 := by
          split at h3
          · cases h3; exact FrQ.refl _ _
          · exact proactive_fr _ _ _ _ _ _ _ _ hn2 (f12.qrq hq) (f12.fr.npmn hmn) (mh2 _) h3
        split at h
        · cases h
        · split at h
          · cases h
          · cases h
            exact (f12.trans f3).fr.trans (Fr.of_same rfl rfl (WFr.refl _) (fun _ h => h) rfl)

end HqModel.Core.NPA
