import HqModel.Lemmas.CoreNoPanicReactP4
/-!
C09 progress, part 5 of the reactor: **`task_failed`** (both callers: a Failed message of worker `w`, and the
crash-limit loop of `on_remove_worker`).

`taskFailed_eq` splits the function into the worker side `failPre` and the rest `failRest`; `failRest_split` says that
the rest for a list `ret` is the rest for `[]` followed by `on_cancel_tasks ret` (so the state in which the cancel runs
is the result of `task_failed … []`, to which the whole-function preservation lemmas apply: `Bd.taskFailed`).
-/
namespace HqModel.Core.NPR

open HqModel.Core.NP

/-- the worker side of `task_failed` -/
def failPre (s : State) (worker : Option Nat) (id : TaskId) (task : Task) : M State :=
  match worker with
  | some w =>
    if s.isMultiNode task.rq then
      match task.state with
      | .runningMN ws =>
        match ws with
        | root :: _ => if root ≠ w then .error (.panic "task_failed.assert_root") else resetMnAll s ws
        | [] => .error (.panic "task_failed.ws0")
      | _ => .error (.panic "task_failed.mn_placement_unwrap")
    else
      match task.state with
      | .assigned w' rv | .running w' rv =>
        if w ≠ w' then .error (.panic "task_failed.assert_worker") else
        match s.rq task.rq rv with
        | .error e => .error e
        | .ok r => s.withWorker w (·.removeSn id r)
      | .prefilled w' =>
        if w ≠ w' then .error (.panic "task_failed.assert_worker") else
        match s.removePrefilled task.rq id with
        | .error e => .error e
        | .ok s1 => s1.withWorker w (·.removePrefill id)
      | .retracting w' =>
        if w ≠ w' then .error (.panic "task_failed.assert_worker") else
        s.tryRemoveRedirection id task.rq
      | _ => .ok s
  | none =>
    match task.state with
    | .waiting _ => .ok s
    | _ => .error (.panic "task_failed.assert_waiting")

/-- `task_failed` after the worker side -/
def failRest (s1 : State) (worker : Option Nat) (id : TaskId) (task : Task) (ret : List TaskId) : M (State × Out) :=
  match s1.recursiveConsumers task with
  | .error e => .error e
  | .ok consumers =>
    match s1.removeWaitingAll consumers with
    | .error e => .error e
    | .ok s2 =>
      match s2.removeTask id with
      | .error e => .error e
      | .ok (s3, st) =>
        let okState : Bool :=
          match worker, st with
          | some _, .assigned .. | some _, .prefilled .. | some _, .retracting .. | some _, .running ..
          | some _, .runningMN .. => true
          | none, .waiting .. => true
          | _, _ => false
        if !okState then .error (.panic "task_failed.assert_state") else
        let out : Out := { cbs := [.error id consumers] }
        if ret.isEmpty then .ok (s3, out) else
        match s3.cancelTasks ret with
        | .error e => .error e
        | .ok (s4, out2) => .ok (s4, out.add out2)

theorem taskFailed_eq (s : State) (worker : Option Nat) (id : TaskId) (ret : List TaskId) :
    s.taskFailed worker id ret =
      match s.task? id with
      | none => .ok (s, {})
      | some task =>
        match failPre s worker id task with
        | .error e => .error e
        | .ok s1 => failRest s1 worker id task ret := rfl

/-- `on_cancel_tasks ret` after the callback -/
def failRet (ret : List TaskId) (r : State × Out) : M (State × Out) :=
  if ret.isEmpty then .ok r else
  match r.1.cancelTasks ret with
  | .error e => .error e
  | .ok (s4, out2) => .ok (s4, r.2.add out2)

theorem failRest_split (s1 : State) (worker : Option Nat) (id : TaskId) (task : Task) (ret : List TaskId) :
    failRest s1 worker id task ret =
      match failRest s1 worker id task [] with
      | .error e => .error e
      | .ok r => failRet ret r := by
  unfold failRest
  cases s1.recursiveConsumers task with
  | error e => rfl
  | ok cons =>
    simp only
    cases s1.removeWaitingAll cons with
    | error e => rfl
    | ok s2 =>
      simp only
      cases s2.removeTask id with
      | error e => rfl
      | ok p =>
        obtain ⟨s3, st⟩ := p
        simp only [List.isEmpty_nil, if_true]
        split <;> rfl

section
variable {U : List TaskId} {s : State}

/-! ### the protocol -/

/-- the states the two callers guarantee -/
def FailState (worker : Option Nat) (st : TS) : Prop :=
  match worker with
  | some w => (∃ v, st = .assigned w v) ∨ (∃ v, st = .running w v) ∨ st = .prefilled w ∨ st = .retracting w ∨
      ∃ ws, st = .runningMN (w :: ws)
  | none => st = .waiting 0

/-- **protocol of `task_failed`**: a Failed message of worker `w` obeys `UpdNP`; the crash-limit loop fails tasks it has
just made `Waiting 0` -/
def FailProto (s : State) (worker : Option Nat) (id : TaskId) : Prop :=
  match worker with
  | some w => UpdNP s w (.failed id)
  | none => ∀ task, s.task? id = some task → task.state = .waiting 0

theorem FailProto.elim {worker : Option Nat} {id : TaskId} {task : Task} (hp : FailProto s worker id)
    (ht : s.task? id = some task) : FailState worker task.state := by
  cases worker with
  | none => exact hp task ht
  | some w =>
    have h := (show UpdNP s w (.failed id) from hp).2
    simp only [ht] at h
    show _ ∨ _
    cases hs : task.state with
    | assigned w' v => rw [hs] at h; simp only at h; subst h; exact Or.inl ⟨v, rfl⟩
    | running w' v => rw [hs] at h; simp only at h; subst h; exact Or.inr (Or.inl ⟨v, rfl⟩)
    | prefilled w' => rw [hs] at h; simp only at h; subst h; exact Or.inr (Or.inr (Or.inl rfl))
    | retracting w' => rw [hs] at h; simp only at h; subst h; exact Or.inr (Or.inr (Or.inr (Or.inl rfl)))
    | runningMN ws =>
      rw [hs] at h
      cases ws with
      | nil => simp at h
      | cons root rest =>
        simp only [List.head?_cons, Option.some.injEq] at h
        subst h; exact Or.inr (Or.inr (Or.inr (Or.inr ⟨rest, rfl⟩)))
    | waiting n => rw [hs] at h; exact h.elim
    | finished => rw [hs] at h; exact h.elim

theorem FailState.slack {worker : Option Nat} {st : TS} (h : FailState worker st) : slack st = 0 := by
  cases worker with
  | none => rw [show st = .waiting 0 from h]; rfl
  | some w =>
    rcases (show _ ∨ _ from h) with ⟨v, e⟩ | ⟨v, e⟩ | e | e | ⟨ws, e⟩ <;> rw [e] <;> rfl

/-! ### the worker side -/

theorem Lt.withWorker {s1 : State} {w : Nat} {f : Worker → M Worker} (hl : Lt U s) (hop : NPA.WOp f)
    (h : s.withWorker w f = .ok s1) : Lt U s1 :=
  ⟨Safe.withWorker h U none [] hl.q, NPA.withWorker_npidx hop hl.idx h, NPB.withWorker_npdeps hl.deps h⟩

theorem failPre_ok {worker : Option Nat} {id : TaskId} {task : Task} (hb : Bd U noD [] s)
    (ht : s.task? id = some task) (hf : FailState worker task.state) :
    ∃ s1, failPre s worker id task = .ok s1 ∧ s1.tasks = s.tasks ∧ Lt U s1 := by
  have hmem : task ∈ s.tasks := findTask_some_mem ht
  have hid : task.id = id := findTask_some_id ht
  have hst := stOf_of_find (show findTask s.tasks id = some task from ht)
  unfold failPre
  cases worker with
  | none =>
    rw [show task.state = .waiting 0 from hf]
    exact ⟨s, rfl, rfl, hb.lt⟩
  | some w =>
    simp only
    have hmn3 : ∀ l, task.state = .runningMN l → s.isMultiNode task.rq = true := fun l hs => by
      rw [isMultiNode_eq]; exact hb.inv.mn id task l ht hs
    have hsn : snState task.state → s.isMultiNode task.rq = false := hb.mn.sn task hmem
    rcases (show _ ∨ _ from hf) with ⟨v, hs⟩ | ⟨v, hs⟩ | hs | hs | ⟨ws, hs⟩
    · obtain ⟨r, s1, hr, hww, _⟩ := detachSn_ok hb ht (Or.inl hs)
      rw [hsn (by rw [hs]; trivial), hs]
      simp only [Bool.false_eq_true, if_false, ne_eq, not_true_eq_false, hr, hww]
      exact ⟨s1, rfl, withWorker_tasks hww, hb.lt.withWorker (NPA.wop_removeSn id r) hww⟩
    · obtain ⟨r, s1, hr, hww, _⟩ := detachSn_ok hb ht (Or.inr hs)
      rw [hsn (by rw [hs]; trivial), hs]
      simp only [Bool.false_eq_true, if_false, ne_eq, not_true_eq_false, hr, hww]
      exact ⟨s1, rfl, withWorker_tasks hww, hb.lt.withWorker (NPA.wop_removeSn id r) hww⟩
    · -- prefilled
      obtain ⟨q, pp, ts, hq, hp, hm⟩ := (hb.nq.pin task hmem ⟨w, hs⟩ (by simp) (fun e => e)).elim
      rw [hid] at hm
      obtain ⟨s1, h1⟩ := removePrefilled_ok hq hp hm
      have hpre := hb.tw.tw.t2 id w (fun e => e) (by rw [hst, hs])
      obtain ⟨wk, A, F, P, hfw, ha, hmp⟩ := mem_preW_elim hpre
      have hfw1 : s1.worker? w = some wk := by rw [worker?_eq, (removePrefilled_core h1).w]; exact hfw
      have hww := withWorker_ok (f := fun x => x.removePrefill id) hfw1 (removePrefill_ok ha hmp)
      rw [hsn (by rw [hs]; trivial), hs]
      simp only [Bool.false_eq_true, if_false, ne_eq, not_true_eq_false, h1, hww]
      have hl1 : Lt U s1 := ⟨Safe.removePrefilled h1 U none [] hb.q, NPA.removePrefilled_npidx hb.idx h1,
        NPB.removePrefilled_npdeps hb.deps h1⟩
      exact ⟨_, rfl, (removePrefilled_core h1).t, hl1.withWorker (NPA.wop_removePrefill id) hww⟩
    · -- retracting
      obtain ⟨s1, h1⟩ := tryRemoveRedirection_ok' hb.tw hb.idx hb.w ht (fun e => e) ⟨w, hs⟩
      rw [hsn (by rw [hs]; trivial), hs]
      simp only [Bool.false_eq_true, if_false, ne_eq, not_true_eq_false, h1]
      exact ⟨s1, rfl, tryRemoveRedirection_tasks h1, Safe.tryRemoveRedirection h1 U none [] hb.q,
        NPA.tryRemoveRedirection_npidx hb.idx h1, NPB.tryRemoveRedirection_npdeps hb.deps h1⟩
    · -- multi-node
      obtain ⟨s1, h1⟩ := resetMnAll_ok (w :: ws) s (fun x hx => by
        obtain ⟨wk, _, _, hfw, _⟩ := mn_workers_of hb.tw ht (fun e => e) hs x hx
        rw [hfw]; rfl)
      rw [hmn3 _ hs, hs]
      simp only [if_true, ne_eq, not_true_eq_false, if_false, h1]
      exact ⟨s1, rfl, resetMnAll_tasks _ _ _ h1, Safe.resetMnAll h1 U none [] hb.q,
        NPA.resetMnAll_npidx _ _ _ hb.idx h1, NPB.resetMnAll_npdeps hb.deps h1⟩

/-! ### the rest, without the cancel -/

theorem failRest_nil_ok {s1 : State} {worker : Option Nat} {id : TaskId} {task : Task} (hb : Bd U noD [] s)
    (ht : s.task? id = some task) (hf : FailState worker task.state) (e1 : s1.tasks = s.tasks) (hl : Lt U s1) :
    ∃ r, failRest s1 worker id task [] = .ok r := by
  have hmem : task ∈ s.tasks := findTask_some_mem ht
  obtain ⟨cons, hc⟩ := recursiveConsumers_ok hl.deps (show task ∈ s1.tasks by rw [e1]; exact hmem)
  have hmemc := recursiveConsumers_mem (s := s1) (show findTask s1.tasks id = some task by rw [e1]; exact ht) hc
  -- every recursive consumer is a Waiting task of the map
  have hw : ∀ x ∈ cons, ∃ n, stOf s1.tasks x = some (.waiting n) := by
    intro x hx
    obtain ⟨d, dt, hd, hx'⟩ := hmemc x hx
    rw [e1] at hd ⊢
    obtain ⟨st, hst⟩ := stOf_isSome (hb.deps.cin dt (findTask_some_mem hd) x hx')
    have := hb.inv.cw d dt hd x hx' st hst
    cases st with
    | waiting n => exact ⟨n, hst⟩
    | _ => exact this.elim
  -- the failed task is not among them: nobody lists a task without unfinished dependencies
  have hnc : id ∉ cons := by
    intro hx
    obtain ⟨d, dt, hd, hx'⟩ := hmemc id hx
    rw [e1] at hd
    have := hb.q.nl_of_slack ht hf.slack dt (findTask_some_mem hd) hx'
    cases this
  obtain ⟨s2, h2, hl2, hk2⟩ := removeWaitingAll_ok cons s1 hl (recursiveConsumers_nodup hc) hw
  have hst2 : stOf s2.tasks id = some task.state := by
    rw [hk2 id hnc, e1]; exact stOf_of_find ht
  obtain ⟨task2, ht2, hs2⟩ := stOf_some hst2
  obtain ⟨s3, h3, _, _⟩ := removeTask_ok_lt hl2 (show s2.task? id = some task2 from ht2)
  rw [hs2] at h3
  simp only [failRest, hc, h2, h3, List.isEmpty_nil, if_true]
  cases worker with
  | none =>
    rw [show task.state = .waiting 0 from hf]
    exact ⟨_, rfl⟩
  | some w =>
    rcases (show _ ∨ _ from hf) with ⟨v, e⟩ | ⟨v, e⟩ | e | e | ⟨ws, e⟩ <;> rw [e] <;> exact ⟨_, rfl⟩

/-- **`task_failed` does not panic** (both callers, see `FailProto`) -/
theorem taskFailed_ok {worker : Option Nat} {id : TaskId} {ret : List TaskId} (hb : Bd U noD [] s)
    (hp : FailProto s worker id) (hret : ret.Nodup) : ∃ r, s.taskFailed worker id ret = .ok r := by
  cases ht : s.task? id with
  | none => rw [taskFailed_eq, ht]; exact ⟨_, rfl⟩
  | some task =>
    have hf := hp.elim ht
    obtain ⟨s1, h1, e1, hl1⟩ := failPre_ok hb ht hf
    obtain ⟨⟨s3, out⟩, h3⟩ := failRest_nil_ok hb ht hf e1 hl1
    have hnil : s.taskFailed worker id [] = .ok (s3, out) := by
      rw [taskFailed_eq, ht]; simp only [h1, h3]
    rw [taskFailed_eq, ht]
    simp only [h1]
    rw [failRest_split, h3]
    simp only [failRet]
    split
    · exact ⟨_, rfl⟩
    · obtain ⟨⟨s4, out2⟩, h4⟩ := cancelTasks_ok (hb.taskFailed hnil) hret
      simp only [h4]
      exact ⟨_, rfl⟩

theorem taskFailed_ok_some {w : Nat} {id : TaskId} {ret : List TaskId} (hb : Bd U noD [] s)
    (hp : UpdNP s w (.failed id)) (hret : ret.Nodup) : ∃ r, s.taskFailed (some w) id ret = .ok r :=
  taskFailed_ok hb (show FailProto s (some w) id from hp) hret

theorem taskFailed_ok_none {id : TaskId} {ret : List TaskId} (hb : Bd U noD [] s)
    (hp : ∀ task, s.task? id = some task → task.state = .waiting 0) (hret : ret.Nodup) :
    ∃ r, s.taskFailed none id ret = .ok r :=
  taskFailed_ok hb (show FailProto s none id from hp) hret

end

end HqModel.Core.NPR
