import HqModel.Journal.Prune2
import HqModel.Lemmas.JournalPrune
/-!
Syntactic laws of the patched (stateful) pruner `prune2`: it distributes over `++` (carrying `task_worker_ids`),
pruning a pruned journal again = pruning the original with the intersections of the live sets (provided no worker that
ran a task of a live job is live at the second prune without having been live at the first one), idempotence.
-/
namespace HqModel.Journal

theorem prune2From_cons (lj lw acc : List Nat) (x : Record) (xs : List Record) :
    prune2From lj lw acc (x :: xs) =
      (prune2Record lj lw acc x).toList ++ prune2From lj lw (taskWorkersStep lj acc x) xs := by
  simp only [prune2From]
  cases prune2Record lj lw acc x <;> rfl

theorem prune2From_append (lj lw : List Nat) (J K : List Record) : ∀ acc : List Nat,
    prune2From lj lw acc (J ++ K) = prune2From lj lw acc J ++ prune2From lj lw (taskWorkersFrom lj acc J) K := by
  induction J with
  | nil => intro acc; rfl
  | cons x xs ih =>
    intro acc
    simp only [List.cons_append, prune2From_cons, taskWorkersFrom, ih, List.append_assoc]

theorem taskWorkersFrom_append (lj : List Nat) (J K : List Record) : ∀ acc : List Nat,
    taskWorkersFrom lj acc (J ++ K) = taskWorkersFrom lj (taskWorkersFrom lj acc J) K := by
  induction J with
  | nil => intro acc; rfl
  | cons x xs ih => intro acc; simp only [List.cons_append, taskWorkersFrom, ih]

theorem taskWorkersStep_mono' (lj acc : List Nat) (x : Record) : ∀ w, w ∈ acc → w ∈ taskWorkersStep lj acc x := by
  intro w hw
  cases x <;> simp only [taskWorkersStep] <;> try exact hw
  split
  · exact List.mem_append_left _ hw
  · exact hw

theorem taskWorkersFrom_mono (lj : List Nat) (J : List Record) : ∀ acc w, w ∈ acc → w ∈ taskWorkersFrom lj acc J := by
  induction J with
  | nil => intro acc w hw; exact hw
  | cons x xs ih => intro acc w hw; exact ih _ w (taskWorkersStep_mono' lj acc x w hw)

/-- `prune2From` of what one iteration wrote -/
theorem prune2From_toList (lj lw acc : List Nat) (o : Option Record) :
    prune2From lj lw acc o.toList = (o.bind (prune2Record lj lw acc)).toList := by
  cases o with
  | none => rfl
  | some y =>
    simp only [Option.toList_some, prune2From_cons, prune2From, List.append_nil, Option.bind_some]

theorem taskWorkersFrom_toList (lj acc : List Nat) (o : Option Record) :
    taskWorkersFrom lj acc o.toList = match o with
      | some y => taskWorkersStep lj acc y
      | none => acc := by
  cases o <;> rfl

theorem prune2Record_of_notWL (lj lw acc : List Nat) (x : Record) (h : ∀ w r, x ≠ .workerLost w r) :
    prune2Record lj lw acc x = pruneRecord lj lw x := by
  cases x <;> first | rfl | exact absurd rfl (h _ _)

theorem pruneRecord_notWL (lj lw : List Nat) (x y : Record) (hp : pruneRecord lj lw x = some y)
    (h : ∀ w r, x ≠ .workerLost w r) : ∀ w r, y ≠ .workerLost w r := by
  intro w r hy
  subst hy
  cases x <;> simp only [pruneRecord] at hp
  case workerLost w' r' => exact h w' r' rfl
  all_goals first
    | cases hp
    | (split at hp <;> cases hp)

theorem prune2Record_prune2Record_notWL (lj lw lj2 lw2 a1 a2 : List Nat) (x : Record)
    (h : ∀ w r, x ≠ .workerLost w r) :
    (prune2Record lj lw a1 x).bind (prune2Record lj2 lw2 a2) =
      prune2Record (inter lj lj2) (inter lw lw2) a2 x := by
  rw [prune2Record_of_notWL _ _ _ x h, prune2Record_of_notWL _ _ _ x h, ← pruneRecord_pruneRecord]
  cases hp : pruneRecord lj lw x with
  | none => rfl
  | some y =>
    simp only [Option.bind_some]
    exact prune2Record_of_notWL _ _ _ y (pruneRecord_notWL lj lw x y hp h)

/-- one record: pruning what the first pruner wrote -/
theorem prune2Record_prune2Record (lj lw lj2 lw2 a1 a2 : List Nat) (x : Record)
    (hsub : ∀ w, w ∈ a2 → w ∈ a1)
    (hmono : ∀ w, lw2.contains w = true → w ∈ a1 → lw.contains w = true) :
    (prune2Record lj lw a1 x).bind (prune2Record lj2 lw2 a2) =
      prune2Record (inter lj lj2) (inter lw lw2) a2 x := by
  cases x
  case workerLost w r =>
    simp only [prune2Record, contains_inter]
    by_cases h2 : w ∈ a2
    · have h1 := hsub w h2
      simp [h1, h2, prune2Record]
    · by_cases h1 : w ∈ a1
      · by_cases hl2 : lw2.contains w = true
        · have hl := hmono w hl2 h1
          simp only [List.contains_eq_mem, decide_eq_true_eq] at hl hl2
          simp [h1, h2, hl, hl2, prune2Record]
        · simp only [List.contains_eq_mem, decide_eq_true_eq] at hl2
          simp [h1, h2, hl2, prune2Record]
      · by_cases hl : w ∈ lw <;> by_cases hl2 : w ∈ lw2 <;> simp [h1, h2, hl, hl2, prune2Record]
  all_goals exact prune2Record_prune2Record_notWL lj lw lj2 lw2 a1 a2 _ (by intro w r h; cases h)

theorem taskWorkersStep_of_notTS (lj acc : List Nat) (x : Record) (h : ∀ j t i ws, x ≠ .taskStarted j t i ws) :
    taskWorkersStep lj acc x = acc := by
  cases x <;> first | rfl | exact absurd rfl (h _ _ _ _)

theorem pruneRecord_notTS (lj lw : List Nat) (x y : Record) (hp : pruneRecord lj lw x = some y)
    (h : ∀ j t i ws, x ≠ .taskStarted j t i ws) : ∀ j t i ws, y ≠ .taskStarted j t i ws := by
  intro j t i ws hy
  subst hy
  cases x <;> simp only [pruneRecord] at hp
  case taskStarted j' t' i' ws' => exact h j' t' i' ws' rfl
  all_goals first
    | cases hp
    | (split at hp <;> cases hp)

/-- `task_worker_ids` of the second pruner after it read what the first one wrote for `x` -/
theorem taskWorkersFrom_prune2Record (lj lw lj2 a1 a2 : List Nat) (x : Record) :
    taskWorkersFrom lj2 a2 (prune2Record lj lw a1 x).toList = taskWorkersStep (inter lj lj2) a2 x := by
  rw [taskWorkersFrom_toList]
  cases x
  case workerLost w r =>
    simp only [prune2Record]
    by_cases hb : (lw.contains w || a1.contains w) = true
    · simp only [hb, if_true, taskWorkersStep]
    · simp only [hb, Bool.false_eq_true, if_false, taskWorkersStep]
  case taskStarted j t i ws =>
    simp only [prune2Record, pruneRecord, taskWorkersStep, contains_inter]
    by_cases h1 : lj.contains j = true
    · simp only [h1, if_true, Bool.true_and]
    · have h1' : lj.contains j = false := by simpa using h1
      simp only [h1', Bool.false_eq_true, if_false, Bool.false_and]
  all_goals
    rw [prune2Record_of_notWL _ _ _ _ (by intro w r h; cases h),
      taskWorkersStep_of_notTS _ _ _ (by intro j t i ws h; cases h)]
    split
    · rename_i y hp
      exact taskWorkersStep_of_notTS _ _ y (pruneRecord_notTS lj lw _ y hp (by intro j t i ws h; cases h))
    · rfl

theorem taskWorkersStep_sub (lj lj2 a1 a2 : List Nat) (x : Record) (hsub : ∀ w, w ∈ a2 → w ∈ a1) :
    ∀ w, w ∈ taskWorkersStep (inter lj lj2) a2 x → w ∈ taskWorkersStep lj a1 x := by
  intro w hw
  cases x <;> simp only [taskWorkersStep] at hw ⊢ <;> try exact hsub w hw
  rename_i j t i ws
  rw [contains_inter] at hw
  by_cases h1 : lj.contains j = true
  · simp only [h1, if_true, Bool.true_and] at hw ⊢
    split at hw
    · rcases List.mem_append.1 hw with h | h
      · exact List.mem_append_left _ (hsub w h)
      · exact List.mem_append_right _ h
    · exact List.mem_append_left _ (hsub w hw)
  · have h1' : lj.contains j = false := by simpa using h1
    simp only [h1', Bool.false_eq_true, if_false, Bool.false_and] at hw ⊢
    exact hsub w hw

/-- pruning a pruned journal again (the second pruner starts with `a2 ⊆ a1`) -/
theorem prune2From_prune2From (lj lw lj2 lw2 : List Nat) : ∀ (J : List Record) (a1 a2 : List Nat),
    (∀ w, w ∈ a2 → w ∈ a1) →
    (∀ w, lw2.contains w = true → w ∈ taskWorkersFrom lj a1 J → lw.contains w = true) →
    prune2From lj2 lw2 a2 (prune2From lj lw a1 J) = prune2From (inter lj lj2) (inter lw lw2) a2 J ∧
    taskWorkersFrom lj2 a2 (prune2From lj lw a1 J) = taskWorkersFrom (inter lj lj2) a2 J := by
  intro J
  induction J with
  | nil => intro a1 a2 _ _; exact ⟨rfl, rfl⟩
  | cons x xs ih =>
    intro a1 a2 hsub hmono
    have hm1 : ∀ w, lw2.contains w = true → w ∈ a1 → lw.contains w = true :=
      fun w h2 h1 => hmono w h2 (taskWorkersFrom_mono lj (x :: xs) a1 w h1)
    obtain ⟨ih1, ih2⟩ := ih (taskWorkersStep lj a1 x) (taskWorkersStep (inter lj lj2) a2 x)
      (taskWorkersStep_sub lj lj2 a1 a2 x hsub) (fun w h2 h1 => hmono w h2 h1)
    refine ⟨?_, ?_⟩
    · rw [prune2From_cons, prune2From_append, prune2From_toList, taskWorkersFrom_prune2Record,
        prune2Record_prune2Record lj lw lj2 lw2 a1 a2 x hsub hm1, ih1, prune2From_cons]
    · rw [prune2From_cons, taskWorkersFrom_append, taskWorkersFrom_prune2Record, ih2]
      rfl

theorem inter_self (a : List Nat) : inter a a = a := by
  unfold inter
  rw [List.filter_eq_self]
  intro x hx
  simpa using hx

theorem prune2_append (lj lw : List Nat) (J K : List Record) :
    prune2 lj lw (J ++ K) = prune2 lj lw J ++ prune2From lj lw (taskWorkersFrom lj [] J) K :=
  prune2From_append lj lw J K []

theorem prune2_prune2 (lj lw lj2 lw2 : List Nat) (J : List Record)
    (hmono : ∀ w, lw2.contains w = true → w ∈ taskWorkersFrom lj [] J → lw.contains w = true) :
    prune2 lj2 lw2 (prune2 lj lw J) = prune2 (inter lj lj2) (inter lw lw2) J :=
  (prune2From_prune2From lj lw lj2 lw2 J [] [] (fun _ h => h) hmono).1

theorem prune2_idem (lj lw : List Nat) (J : List Record) : prune2 lj lw (prune2 lj lw J) = prune2 lj lw J := by
  rw [prune2_prune2 lj lw lj lw J (fun _ h _ => h), inter_self, inter_self]

end HqModel.Journal
