import HqModel.Lemmas.SysWFrame4
/-!
From the frame relation `FrW` to the VIEWS of the composed invariant: what `view c w t` may become in an operation
in which worker `w` does not release `t`.

* `FrW.keepView` — a view that is not `quiet` stays, or becomes `hot` (the task left the map, or started);
* `FrW.quietView` — unless the task may be acquired, a `quiet` view stays `quiet` or becomes `hot`.

`MnOk c` (a consequence of `InvF`): every worker of a RunningMultiNode task is in a multi-node assignment for it.
-/
namespace HqModel.SysW
open HqModel HqModel.Core

/-! ### the view through `stOf` -/

theorem view_eq (c : Core.State) (w : Nat) (t : TaskId) :
    view c w t = match stOf c.tasks t with
      | none => .hot
      | some st => viewSt c w t st := by
  unfold view stOf State.task?
  cases findTask c.tasks t <;> rfl

theorem view_none {c : Core.State} {w : Nat} {t : TaskId} (h : stOf c.tasks t = none) : view c w t = .hot := by
  rw [view_eq, h]

theorem view_some {c : Core.State} {w : Nat} {t : TaskId} {st : TS} (h : stOf c.tasks t = some st) :
    view c w t = viewSt c w t st := by
  rw [view_eq, h]

theorem viewSt_of_owner_ne {c : Core.State} {w : Nat} {t : TaskId} {st : TS} (h : owner st ≠ some w) :
    viewSt c w t st = .quiet := by
  cases st with
  | runningMN l =>
    cases l with
    | nil => rfl
    | cons x xs =>
      have : x ≠ w := fun e => h (by rw [e]; rfl)
      simp [viewSt, this]
  | waiting n => rfl
  | finished => rfl
  | assigned x v => have : x ≠ w := fun e => h (by rw [e]; rfl); simp [viewSt, this]
  | prefilled x => have : x ≠ w := fun e => h (by rw [e]; rfl); simp [viewSt, this]
  | retracting x => have : x ≠ w := fun e => h (by rw [e]; rfl); simp [viewSt, this]
  | running x v => have : x ≠ w := fun e => h (by rw [e]; rfl); simp [viewSt, this]

theorem owner_of_viewSt_ne_quiet {c : Core.State} {w : Nat} {t : TaskId} {st : TS} (h : viewSt c w t st ≠ .quiet) :
    owner st = some w := by
  apply Classical.byContradiction
  intro hn
  exact h (viewSt_of_owner_ne hn)

/-- the view of a task that is known and not at `w` -/
theorem view_quiet_of_owner {c : Core.State} {w : Nat} {t : TaskId} {st : TS} (h : stOf c.tasks t = some st)
    (ho : owner st ≠ some w) : view c w t = .quiet := by
  rw [view_some h]; exact viewSt_of_owner_ne ho

theorem mnStarted_iff {c : Core.State} {w : Nat} {t : TaskId} :
    mnStarted c w t = true ↔ ∃ wk r, c.worker? w = some wk ∧ wk.assign = .mn t r true := by
  unfold mnStarted
  constructor
  · intro h
    split at h
    · rename_i wk hw
      split at h
      · rename_i t' r ha
        exact ⟨wk, r, hw, by rw [ha]; simp at h; rw [h]⟩
      · cases h
    · cases h
  · rintro ⟨wk, r, hw, ha⟩
    rw [hw]; simp [ha]

/-- every worker of a RunningMultiNode task is in a multi-node assignment for it -/
def MnOk (c : Core.State) : Prop :=
  ∀ t l, stOf c.tasks t = some (.runningMN l) → ∀ x ∈ l, ∃ wk r st, c.worker? x = some wk ∧ wk.assign = .mn t r st

theorem MnOk.of_invF {c : Core.State} (hi : InvF c) : MnOk c := by
  intro t l hs x hx
  obtain ⟨task, hf, hst⟩ := stOf_some hs
  obtain ⟨wk, r, st, h1, h2⟩ := hi.mn_complete (t := t) (task := task) hf hst hx
  exact ⟨wk, r, st, h1, h2⟩

/-! ### from the frame to the views -/

theorem tfrw_stOf {m : Mode} {ts ts' : List Task} (f : TFrW m ts ts') (hn : (taskIds ts).Nodup) {t : TaskId} {st' : TS}
    (h : stOf ts' t = some st') : ∃ st, stOf ts t = some st ∧ SOk (fun x => m.rel x t) (m.acq t) st st' := by
  obtain ⟨task', hf, rfl⟩ := stOf_some h
  obtain ⟨task, hm, r⟩ := f task' (findTask_some_mem hf)
  have hid : task.id = t := by rw [← r.id, findTask_some_id hf]
  refine ⟨task.state, ?_, hid ▸ r.st⟩
  have := stOf_of_mem hn hm
  rw [hid] at this
  exact this

/-- a task that is not in the map does not appear -/
theorem tfrw_stOf_none {m : Mode} {ts ts' : List Task} (f : TFrW m ts ts') {t : TaskId} (h : stOf ts t = none) :
    stOf ts' t = none := by
  cases h' : stOf ts' t with
  | none => rfl
  | some st' =>
    obtain ⟨task', hf, _⟩ := stOf_some h'
    obtain ⟨task, hm, r⟩ := f task' (findTask_some_mem hf)
    have hid : task.id = t := by rw [← r.id, findTask_some_id hf]
    have : t ∈ taskIds ts := hid ▸ List.mem_map_of_mem (f := (·.id)) hm
    have h2 := mem_ids_iff.mp this
    unfold Core.stOf at h
    cases hf2 : findTask ts t with
    | none => rw [hf2] at h2; cases h2
    | some x => rw [hf2] at h; cases h

/-- the part of the task frame that concerns ONE task id -/
structure StDesc (m : Mode) (c c' : Core.State) (t : TaskId) : Prop where
  some : ∀ st', stOf c'.tasks t = some st' → ∃ st, stOf c.tasks t = some st ∧ SOk (fun x => m.rel x t) (m.acq t) st st'
  none : stOf c.tasks t = none → stOf c'.tasks t = none

/-- the part of the worker frame the views need: a worker that exists before and after -/
def WKeep (sch : Prop) (c c' : Core.State) : Prop :=
  ∀ x wk wk', c.worker? x = some wk → c'.worker? x = some wk' → WRelW sch wk wk'

theorem StDesc.of_frw {m : Mode} {c c' : Core.State} (f : FrW m c c') (hn : (taskIds c.tasks).Nodup) (t : TaskId) :
    StDesc m c c' t :=
  ⟨fun _ hs' => tfrw_stOf f.t hn hs', fun h => tfrw_stOf_none f.t h⟩

theorem WKeep.of_frw {m : Mode} {c c' : Core.State} (f : FrW m c c') : WKeep m.sch c c' := by
  intro x wk wk' hw hw'
  obtain ⟨wk0, hw0, rel⟩ := f.w x wk' hw'
  have : wk0 = wk := by
    have := hw0.symm.trans hw
    cases this; rfl
  exact this ▸ rel

theorem StDesc.refl (m : Mode) (c : Core.State) (t : TaskId) : StDesc m c c t :=
  ⟨fun st' h => ⟨st', h, SOk.refl _ _ _⟩, fun h => h⟩

/-- the `started` flag of a multi-node assignment survives as long as the assignment does -/
theorem mnStarted_keep {sch : Prop} {c c' : Core.State} (fw : WKeep sch c c') (hm' : MnOk c') {w : Nat} {t : TaskId}
    {l' : List Nat} (hs' : stOf c'.tasks t = some (.runningMN (w :: l'))) (h : mnStarted c w t = true) :
    mnStarted c' w t = true := by
  obtain ⟨wk, r, hw, ha⟩ := mnStarted_iff.mp h
  obtain ⟨wk', r', st', hw', ha'⟩ := hm' t _ hs' w List.mem_cons_self
  have rel := fw w wk wk' hw hw'
  rcases rel.mn t r' st' ha' with ⟨f'', e, hf⟩ | ⟨_, A, F, P, e⟩
  · rw [ha] at e
    cases e
    exact mnStarted_iff.mpr ⟨wk', r, hw', by rw [ha', hf rfl]⟩
  · rw [ha] at e; cases e

end HqModel.SysW

namespace HqModel.Core
open HqModel HqModel.SysW

/-- **a view that is not `quiet` stays or becomes `hot`** when the worker does not release the task -/
theorem keepView_of {m : Mode} {c c' : Core.State} {t : TaskId} (hd : StDesc m c c' t) (fw : WKeep m.sch c c')
    (hm' : MnOk c') (w : Nat) (hrel : ¬ m.rel w t) (hv : view c w t ≠ .quiet) :
    Foreign (view c w t) [] (view c' w t) := by
  cases hs : stOf c.tasks t with
  | none =>
    rw [view_none hs, view_none (hd.none hs)]
    exact Foreign.same _
  | some st =>
    cases hs' : stOf c'.tasks t with
    | none =>
      rw [view_none hs']
      exact ⟨fun _ => rfl, .inl rfl⟩
    | some st' =>
      obtain ⟨st0, h0, sok⟩ := hd.some st' hs'
      rw [hs] at h0
      cases h0
      rw [view_some hs] at hv ⊢
      rw [view_some hs']
      have ho := owner_of_viewSt_ne_quiet hv
      have hk := sok.keep w ho hrel
      cases st with
      | waiting n => cases ho
      | finished => cases ho
      | assigned x v =>
        cases ho
        cases hk
        simp only [viewSt, if_true]
        exact Foreign.same _
      | prefilled x =>
        cases ho
        rcases hk with rfl | rfl <;> simp only [viewSt, if_true] <;> exact Foreign.same _
      | retracting x =>
        cases ho
        cases hk
        simp only [viewSt, if_true]
        exact Foreign.same _
      | running x v =>
        cases ho
        cases hk
        simp only [viewSt, if_true]
        exact Foreign.same _
      | runningMN l =>
        cases l with
        | nil => cases ho
        | cons x xs =>
          cases ho
          obtain ⟨l', rfl⟩ := hk
          simp only [viewSt, if_true]
          by_cases hst : mnStarted c w t = true
          · rw [hst, mnStarted_keep fw hm' hs' hst]
            exact Foreign.same _
          · simp only [hst]
            by_cases hst' : mnStarted c' w t = true
            · simp only [hst', if_true]
              exact ⟨fun e => (by cases e), .inl rfl⟩
            · simp only [hst']
              exact Foreign.same _

/-- **a `quiet` view stays `quiet` or becomes `hot`** unless the task may be acquired -/
theorem quietView_of {m : Mode} {c c' : Core.State} {t : TaskId} (hd : StDesc m c c' t)
    (w : Nat) (hacq : ¬ m.acq t) (hv : view c w t = .quiet) :
    view c' w t = .quiet ∨ view c' w t = .hot := by
  cases hs : stOf c.tasks t with
  | none => rw [view_none hs] at hv; cases hv
  | some st =>
    cases hs' : stOf c'.tasks t with
    | none => exact .inr (view_none hs')
    | some st' =>
      left
      obtain ⟨st0, h0, sok⟩ := hd.some st' hs'
      rw [hs] at h0
      cases h0
      rw [view_some hs] at hv
      apply view_quiet_of_owner hs'
      intro ho
      have ho0 := sok.own hacq w ho
      cases st with
      | waiting n => cases ho0
      | finished => cases ho0
      | assigned x v => cases ho0; simp [viewSt] at hv
      | prefilled x => cases ho0; simp [viewSt] at hv
      | retracting x => cases ho0; simp [viewSt] at hv
      | running x v => cases ho0; simp [viewSt] at hv
      | runningMN l =>
        cases l with
        | nil => cases ho0
        | cons x xs =>
          cases ho0
          simp only [viewSt, if_true] at hv
          split at hv <;> cases hv

theorem foreign_of {m : Mode} {c c' : Core.State} {t : TaskId} (hd : StDesc m c c' t) (fw : WKeep m.sch c c')
    (hm' : MnOk c') (w : Nat) (hrel : ¬ m.rel w t) (hacq : ¬ m.acq t) : Foreign (view c w t) [] (view c' w t) := by
  by_cases hv : view c w t = .quiet
  · rcases quietView_of hd w hacq hv with e | e
    · rw [hv, e]; exact Foreign.same _
    · rw [e]; exact ⟨fun e' => (by rw [hv] at e'), .inl rfl⟩
  · exact keepView_of hd fw hm' w hrel hv

theorem FrW.keepView {m : Mode} {c c' : Core.State} (f : FrW m c c') (hn : (taskIds c.tasks).Nodup) (hm' : MnOk c')
    (w : Nat) (t : TaskId) (hrel : ¬ m.rel w t) (hv : view c w t ≠ .quiet) :
    Foreign (view c w t) [] (view c' w t) :=
  keepView_of (StDesc.of_frw f hn t) (WKeep.of_frw f) hm' w hrel hv

theorem FrW.quietView {m : Mode} {c c' : Core.State} (f : FrW m c c') (hn : (taskIds c.tasks).Nodup)
    (w : Nat) (t : TaskId) (hacq : ¬ m.acq t) (hv : view c w t = .quiet) :
    view c' w t = .quiet ∨ view c' w t = .hot :=
  quietView_of (StDesc.of_frw f hn t) w hacq hv

/-- both together: an operation in which `w` does not release `t` and `t` cannot be acquired, and that sends no
`ComputeTasks` item -/
theorem FrW.foreign {m : Mode} {c c' : Core.State} (f : FrW m c c') (hn : (taskIds c.tasks).Nodup) (hm' : MnOk c')
    (w : Nat) (t : TaskId) (hrel : ¬ m.rel w t) (hacq : ¬ m.acq t) : Foreign (view c w t) [] (view c' w t) :=
  foreign_of (StDesc.of_frw f hn t) (WKeep.of_frw f) hm' w hrel hacq

end HqModel.Core
