import HqModel.Lemmas.SysPair
/-!
`task_failed` (with the re-entrant `on_task_error → process_task_failed → on_cancel_tasks`) and the `worker lost`
callback of `on_remove_worker`, each followed by its delivery to the job layer.
-/
namespace HqModel.Sys
open HqModel

theorem sameSet_iff {a b : List TaskId} (h : sameSet a b = true) : ∀ x, x ∈ a ↔ x ∈ b := by
  simp only [sameSet, Bool.and_eq_true, List.all_eq_true, List.contains_eq_mem, decide_eq_true_eq] at h
  exact fun x => ⟨h.1 x, h.2 x⟩

/-- **`task_failed` + `process_task_failed`**: the core hands the consumers to the job layer, the job layer answers
with the max-fails list, and — when that list is the one the core step consumed (`sameSet`) — the core cancels exactly
what the job layer aborted -/
theorem pair_failed {js : Job.State} {c c' : Core.State} {worker : Option Nat} {id : TaskId} {o : Core.Out}
    {rets : List (List TaskId)} (h0 : Coupled0 js c) (hk : (c.task? id).isSome = true)
    (h : c.taskFailed worker id (rets.headD []) = .ok (c', o)) : GoodR c' rets.tail (route js rets o.cbs) := by
  have fr := Core.taskFailed_frc h
  rcases Core.taskFailed_spec h0.nd h0.cons h with ⟨hno, _, _⟩ | ⟨task, consumers, s3, ht, hcb, cnd, hnot, hall, hids3, f3, hn3, htail⟩
  · rw [hno] at hk; cases hk
  rw [hcb]
  have hmem : id ∈ Core.taskIds c.tasks := Core.mem_ids_of_task? ht
  obtain ⟨⟨js', evs, retM⟩, hj⟩ := taskFailed_ok (js := js) (t := id) (cons := consumers) h0.wf
    (fun x hx => (hall x hx).2) cnd hnot (fun x hx => (h0.ids x).mp (hall x hx).1) ((h0.ids id).mp hmem)
  obtain ⟨sr, _, _, hv, hsent, job', _, hdisj⟩ := taskFailed_spec h0.wf hj
  simp only [route, cbStep, hj]
  cases rets with
  | nil => trivial
  | cons r rest =>
    simp only [List.headD_cons] at h htail
    by_cases hs : sameSet retM r = true
    · simp only [hs, if_true, List.tail_cons]
      refine ⟨rfl, ?_⟩
      have hsame := sameSet_iff hs
      -- the view between the two phases
      have hA : ∀ t, t ∈ Core.taskIds s3.tasks ↔ live (failedView js id consumers t) = true := by
        intro t
        rw [hids3 t, h0.ids t]
        simp only [failedView]
        by_cases e1 : t = id
        · simp [e1, live, Job.TState.terminal]
        · by_cases e2 : t ∈ consumers
          · simp [e1, e2, live, Job.TState.terminal]
          · simp [e1, e2]
      -- what is left in the core afterwards: what was left after phase 1, minus the returned list
      have hK : (∀ t, t ∈ Core.taskIds c'.tasks → t ∈ Core.taskIds s3.tasks ∧ t ∉ retM) ∧
          ∀ t, t ∈ Core.taskIds s3.tasks → t ∉ retM → t ∈ Core.taskIds c'.tasks := by
        rcases htail with ⟨hemp, e⟩ | ⟨hne, o2, hct⟩
        · subst e
          have hr : r = [] := by simpa using hemp
          have hM : ∀ x, x ∉ retM := fun x hx => by
            have := (hsame x).mp hx
            rw [hr] at this; cases this
          exact ⟨fun t ht => ⟨ht, hM t⟩, fun t ht _ => ht⟩
        · obtain ⟨_, hgone, hsub, hjob⟩ := Core.cancelTasks_spec hn3 (Core.ConsJob.of_tfr h0.cons f3.t) hct
          have hrne : ∃ x0, x0 ∈ r := by
            cases r with
            | nil => simp at hne
            | cons a _ => exact ⟨a, by simp⟩
          obtain ⟨x0, hx0⟩ := hrne
          have hM : ∀ x, x ∈ retM ↔ x.1 = id.1 ∧ live (failedView js id consumers x) = true := by
            rcases hdisj with ⟨m, _, _, hM⟩ | ⟨_, e⟩
            · exact hM
            · have := (hsame x0).mpr hx0
              rw [e] at this; cases this
          refine ⟨fun t ht => ⟨hsub t ht, fun hm => hgone t ((hsame t).mp hm) ht⟩, ?_⟩
          intro t ht hnm
          apply Classical.byContradiction
          intro hnot'
          obtain ⟨x, hx, hjx⟩ := hjob t ht hnot'
          have hxM := (hM x).mp ((hsame x).mpr hx)
          exact hnm ((hM t).mpr ⟨hjx.trans hxM.1, (hA t).mp ht⟩)
      have hview : ∀ t, t ∈ Core.taskIds c'.tasks → tst js' t = tst js t := by
        intro t ht'
        obtain ⟨h3, hnm⟩ := hK.1 t ht'
        obtain ⟨_, hne, hnc⟩ := (hids3 t).mp h3
        rw [hv]
        simp [hnm, failedView, hne, hnc]
      refine ⟨wf_failed h0.wf hj, (Core.taskFailed_sub h).nodup h0.nd, ?_, ?_, ?_, Core.ConsJob.of_tfr h0.cons fr.t, ?_⟩
      · intro t
        rw [hv t]
        constructor
        · intro ht'
          obtain ⟨h3, hnm⟩ := hK.1 t ht'
          simp only [hnm, if_false]
          exact (hA t).mp h3
        · intro hl
          by_cases hm : t ∈ retM
          · simp [hm, live, Job.TState.terminal] at hl
          · simp only [hm, if_false] at hl
            exact hK.2 t ((hA t).mpr hl) hm
      · intro t
        rw [hsent t, hv t, h0.sent t]
        by_cases hm : t ∈ retM
        · simp [hm, live, Job.TState.terminal]
        · simp only [hm, not_false_eq_true, and_true, if_false, failedView]
          by_cases e1 : t = id
          · simp [e1, live, Job.TState.terminal]
          · by_cases e2 : t ∈ consumers
            · simp [e1, e2, live, Job.TState.terminal]
            · simp [e1, e2]
      · intro t ht'
        rw [hview t (Core.hot_mem ht')]
        exact h0.started t (Core.hot_of_frc fr h0.nd ht')
      · intro x wk' hx
        obtain ⟨wk, hw0, _⟩ := fr.w x wk' hx
        rw [sr.workers]
        exact h0.workers x wk hw0
    · simp only [hs, Bool.false_eq_true, if_false]
      trivial

/-! ### the `worker lost` callback -/

theorem pair_workerLost {js : Job.State} {c c3 : Core.State} {w : Nat} {running : List TaskId} {reason : String}
    {rets : List (List TaskId)} (h0 : Coupled0 js c) (hw : (c.worker? w).isSome = true) (f : Core.Frc c c3)
    (e : Core.taskIds c3.tasks = Core.taskIds c.tasks) (nd : running.Nodup) (hh : ∀ t ∈ running, Core.hot c t)
    (hc : ∀ t ∈ running, ¬ Core.hot c3 t) :
    GoodR c3 rets (route js rets [.workerLost w running reason]) := by
  have hwj : w ∈ js.workers := by
    cases hf : c.worker? w with
    | none => rw [hf] at hw; cases hw
    | some wk => exact h0.workers w wk hf
  obtain ⟨⟨js', evs⟩, hj⟩ := workerLost_ok (js := js) reason hwj nd (fun t ht => h0.started t (hh t ht))
  obtain ⟨sr, hsent, hv⟩ := workerLost_spec hj
  simp only [route, cbStep, hj]
  refine ⟨rfl, ?_⟩
  have hl : ∀ t, live (tst js' t) = live (tst js t) := by
    intro t
    rw [hv]
    by_cases hm : t ∈ running
    · simp only [hm, if_true]
      rw [h0.started t (hh t hm)]; rfl
    · simp [hm]
  refine ⟨wf_workerLost h0.wf hj, by rw [e]; exact h0.nd, ?_, ?_, ?_, Core.ConsJob.of_tfr h0.cons f.t, ?_⟩
  · intro t; rw [e, hl]; exact h0.ids t
  · intro t; rw [hsent, hl]; exact h0.sent t
  · intro t ht
    have hnm : t ∉ running := fun hm => hc t hm ht
    rw [hv]
    simp only [hnm, if_false]
    exact h0.started t (Core.hot_of_frc f h0.nd ht)
  · intro x wk' hx
    obtain ⟨wk, hw0, _⟩ := f.w x wk' hx
    rw [sr.workers]
    exact h0.workers x wk hw0

end HqModel.Sys
