import HqModel.Lemmas.CoreNoPanicReactP5
/-!
C09 progress, part 6 of the reactor: **`on_task_update`** — one update (`updateState_ok`), the loop (`updateLoop_ok`)
and the whole message (**`taskUpdate_ok`**).
-/
namespace HqModel.Core.NPR

open HqModel.Core.NP

section
variable {U : List TaskId} {s : State}

theorem nodup_headD {rets : List (List TaskId)} (hr : RetsOk rets) : (rets.headD []).Nodup := by
  cases rets with
  | nil => exact List.nodup_nil
  | cons l rest => exact hr l List.mem_cons_self

theorem retsOk_tail {rets : List (List TaskId)} (hr : RetsOk rets) : RetsOk rets.tail :=
  fun l hl => hr l (List.mem_of_mem_tail hl)

/-- one update of the message does not panic -/
theorem updateState_ok {w : Nat} {u : Update} {rets : List (List TaskId)} (hb : Bd U noD [] s)
    (h1 : UpdProto s w u) (h2 : UpdNP s w u) (h3 : NoF27 s w u) (hr : RetsOk rets) :
    ∃ r, s.updateState w u rets = .ok r := by
  cases u with
  | finished t =>
    obtain ⟨⟨s1, o, b⟩, h⟩ := taskFinished_ok hb h2
    simp only [State.updateState, h]; exact ⟨_, rfl⟩
  | failed t =>
    have hnd : (if (s.task? t).isSome then rets.headD [] else []).Nodup := by
      split
      · exact nodup_headD hr
      · exact List.nodup_nil
    obtain ⟨⟨s1, o⟩, h⟩ := taskFailed_ok_some hb h2 hnd
    simp only [State.updateState, h]; exact ⟨_, rfl⟩
  | running t rv =>
    obtain ⟨⟨s1, o⟩, h⟩ := taskRunning_ok hb.inv hb.tw hb.w hb.idx (Or.inl h2) h3
    simp only [State.updateState, h]; exact ⟨_, rfl⟩
  | runningPrefilled t rv =>
    obtain ⟨⟨s1, o⟩, h⟩ := taskRunning_ok hb.inv hb.tw hb.w hb.idx (Or.inr h2) (show NoF27 s w (.running t rv) from h3)
    simp only [State.updateState, h]; exact ⟨_, rfl⟩
  | reject t rv =>
    obtain ⟨⟨s1, o, b⟩, h⟩ := taskReject_ok hb h2 h1
    simp only [State.updateState, h]; exact ⟨_, rfl⟩
  | enable rq rv =>
    obtain ⟨s1, h⟩ := requestEnabled_ok (rq := rq) (rv := rv) h2.1
    simp only [State.updateState, h]; exact ⟨_, rfl⟩

/-- the remaining callback results after one update -/
theorem updateState_rets {w : Nat} {u : Update} {rets rets' : List (List TaskId)} {s1 : State}
    (h : s.updateState w u rets = .ok (s1, rets')) : rets' = rets ∨ rets' = rets.tail := by
  cases u <;> simp only [State.updateState] at h <;> split at h <;> cases h
  all_goals first | exact Or.inl rfl | skip
  split
  · exact Or.inr rfl
  · exact Or.inl rfl

/-- forward form of `updateLoop_cons`: when the update succeeds the loop continues with the rest -/
theorem updateLoop_step {w : Nat} {u : Update} {rest : List Update} {rets rets' : List (List TaskId)} {out : Out}
    {need : Bool} {s1 : State} (h : s.updateState w u rets = .ok (s1, rets')) :
    ∃ out' need', s.updateLoop w (u :: rest) rets out need = s1.updateLoop w rest rets' out' need' := by
  cases u with
  | finished t =>
    simp only [State.updateState] at h
    split at h
    · cases h
    · rename_i s2 o n h2
      cases h
      exact ⟨_, _, by simp only [State.updateLoop, h2]; rfl⟩
  | failed t =>
    simp only [State.updateState] at h
    split at h
    · cases h
    · rename_i s2 o h2
      cases h
      cases hk : (s.task? t).isSome with
      | true =>
        simp only [hk, if_true] at h2 ⊢
        exact ⟨_, _, by simp only [State.updateLoop, hk, if_true, h2]; rfl⟩
      | false =>
        simp only [hk, Bool.false_eq_true, if_false] at h2 ⊢
        exact ⟨_, _, by simp only [State.updateLoop, hk, Bool.false_eq_true, if_false, h2]; rfl⟩
  | running t rv =>
    simp only [State.updateState] at h
    split at h
    · cases h
    · rename_i s2 o h2
      cases h
      exact ⟨_, _, by simp only [State.updateLoop, h2]; rfl⟩
  | runningPrefilled t rv =>
    simp only [State.updateState] at h
    split at h
    · cases h
    · rename_i s2 o h2
      cases h
      exact ⟨_, _, by simp only [State.updateLoop, h2]; rfl⟩
  | reject t rv =>
    simp only [State.updateState] at h
    split at h
    · cases h
    · rename_i s2 o n h2
      cases h
      exact ⟨_, _, by simp only [State.updateLoop, h2]; rfl⟩
  | enable rq rv =>
    simp only [State.updateState] at h
    split at h
    · cases h
    · rename_i s2 h2
      cases h
      exact ⟨_, _, by simp only [State.updateLoop, h2]; rfl⟩

theorem updateLoop_ok {w : Nat} : ∀ (us : List Update) (s : State) (rets : List (List TaskId)) (out : Out) (need : Bool),
    Bd U noD [] s → UpdatesOk UpdProto s w us rets → UpdatesOk UpdNP s w us rets → UpdatesOk NoF27 s w us rets →
    RetsOk rets → ∃ r, s.updateLoop w us rets out need = .ok r
  | [], s, rets, out, need, _, _, _, _, _ => ⟨_, rfl⟩
  | u :: rest, s, rets, out, need, hb, h1, h2, h3, hr => by
    simp only [UpdatesOk] at h1 h2 h3
    obtain ⟨⟨s1, rets'⟩, hu⟩ := updateState_ok hb h1.1 h2.1 h3.1 hr
    obtain ⟨out', need', he⟩ := updateLoop_step (rest := rest) (out := out) (need := need) hu
    rw [he]
    have k1 := h1.2
    have k2 := h2.2
    have k3 := h3.2
    simp only [hu] at k1 k2 k3
    refine updateLoop_ok rest s1 rets' out' need' (hb.updateState h1.1 h2.1 hu) k1 k2 k3 ?_
    rcases updateState_rets hu with e | e <;> rw [e]
    · exact hr
    · exact retsOk_tail hr

/-- **`on_task_update` does not panic** -/
theorem taskUpdate_ok {w : Nat} {us : List Update} {rets : List (List TaskId)} (hb : Bd U noD [] s)
    (h1 : UpdatesOk UpdProto s w us rets) (h2 : UpdatesOk UpdNP s w us rets) (h3 : UpdatesOk NoF27 s w us rets)
    (hr : RetsOk rets) : ∃ r, s.taskUpdate w us rets = .ok r := by
  obtain ⟨⟨s1, out, need, rets'⟩, h⟩ := updateLoop_ok us s rets {} false hb h1 h2 h3 hr
  simp only [State.taskUpdate, h]
  exact ⟨_, rfl⟩

/-! ### `NoCorePanic` forms -/

theorem cancelTasks_np {ids : List TaskId} (hb : Bd U noD [] s) (hnd : ids.Nodup) : NoCorePanic (s.cancelTasks ids) :=
  NoCorePanic.of_ok (cancelTasks_ok hb hnd)

theorem taskUpdate_np {w : Nat} {us : List Update} {rets : List (List TaskId)} (hb : Bd U noD [] s)
    (h1 : UpdatesOk UpdProto s w us rets) (h2 : UpdatesOk UpdNP s w us rets) (h3 : UpdatesOk NoF27 s w us rets)
    (hr : RetsOk rets) : NoCorePanic (s.taskUpdate w us rets) :=
  NoCorePanic.of_ok (taskUpdate_ok hb h1 h2 h3 hr)

end

end HqModel.Core.NPR
