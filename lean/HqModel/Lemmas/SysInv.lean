import HqModel.Lemmas.SysJobReq
import HqModel.Lemmas.SysCoreSpec4
/-!
The **coupling invariant** between the job layer (M4) and the core (M1) and the facts every callback delivery is
judged by.

`Coupled0 js c`:
* `ids`  — the keys of the core's task map are exactly the tasks that are non-terminal in the job layer;
* `sent` — `js.sent` is the same set;
* `started` — a task that is *started* in the core (`Core.hot`: Running, or RunningMultiNode with the `started` flag
  of a reserved worker set) is `running` in the job layer;
* `cons` — registered consumers belong to the job of the task they wait for;
* `workers` — every worker of the core's worker map is known to the job layer;
* `wf`, `nd` — the job layer's own invariant (`StateWF`) and uniqueness of the core's task ids.
`Coupled s` adds the core's full structural invariant `InvF` (it holds at operation boundaries and between the
updates of one message; inside `on_remove_worker` only `Coupled0` is carried).
-/
namespace HqModel.Sys
open HqModel

structure Coupled0 (js : Job.State) (c : Core.State) : Prop where
  wf : Job.StateWF js
  nd : (Core.taskIds c.tasks).Nodup
  ids : ∀ t, t ∈ Core.taskIds c.tasks ↔ live (tst js t) = true
  sent : ∀ t, t ∈ js.sent ↔ live (tst js t) = true
  started : ∀ t, Core.hot c t → tst js t = some .running
  cons : Core.ConsJob c.tasks
  workers : ∀ x wk, Core.findWorker c.workers x = some wk → x ∈ js.workers

structure Coupled (s : State) : Prop where
  c0 : Coupled0 s.job s.core
  inv : Core.InvF s.core

theorem coupled0_init : Coupled0 {} {} := by
  refine ⟨Job.init_wf, List.nodup_nil, ?_, ?_, ?_, ?_, ?_⟩
  · intro t; simp [Core.taskIds, tst, tstJ, Job.findJob, live]
  · intro t; simp [tst, tstJ, Job.findJob, live]
  · rintro t (⟨w, v, h⟩ | ⟨l, h, _⟩) <;> simp [Core.stOf, Core.findTask] at h
  · intro t ht; cases ht
  · intro x wk h; simp [Core.findWorker] at h

theorem coupled_init : Coupled {} := ⟨coupled0_init, Core.invF_init⟩


/-! ### steps of the core alone -/

/-- a core step that makes no callback, keeps the keys and starts nothing -/
theorem Coupled0.core_silent {js : Job.State} {c c' : Core.State} (h : Coupled0 js c) (f : Core.Frc c c')
    (e : Core.taskIds c'.tasks = Core.taskIds c.tasks) : Coupled0 js c' := by
  refine ⟨h.wf, by rw [e]; exact h.nd, by intro t; rw [e]; exact h.ids t, h.sent, ?_, Core.ConsJob.of_tfr h.cons f.t, ?_⟩
  · intro t ht; exact h.started t (Core.hot_of_frc f h.nd ht)
  · intro x wk' hx
    obtain ⟨wk, h0, _⟩ := f.w x wk' hx
    exact h.workers x wk h0

/-- a scheduling round -/
theorem Coupled0.core_sched {js : Job.State} {c c' : Core.State} (h : Coupled0 js c) (hi : Core.Inv c)
    (f : Core.Frs c c') (e : Core.taskIds c'.tasks = Core.taskIds c.tasks) : Coupled0 js c' := by
  refine ⟨h.wf, by rw [e]; exact h.nd, by intro t; rw [e]; exact h.ids t, h.sent, ?_, Core.ConsJob.of_tfr h.cons f.t, ?_⟩
  · intro t ht; exact h.started t (Core.hot_of_frs f hi ht)
  · intro x wk' hx
    obtain ⟨wk, h0, _⟩ := f.w x wk' hx
    exact h.workers x wk h0

/-- only queues / flags / requests of the core change -/
theorem Coupled0.core_eq {js : Job.State} {c c' : Core.State} (h : Coupled0 js c) (ht : c'.tasks = c.tasks)
    (hw : c'.workers = c.workers) : Coupled0 js c' :=
  h.core_silent (Core.Fr.of_eq ht hw) (by rw [ht])

/-- the empty system with any proactive-filling parameters -/
theorem coupled_initState (reserve max : Nat) : Coupled (initState reserve max) := by
  have e : Core.CoreEq ({} : Core.State) (initState reserve max).core := ⟨rfl, rfl, rfl, rfl⟩
  exact ⟨coupled0_init.core_eq rfl rfl, ⟨e.inv Core.invF_init.inv, e.twi Core.invF_init.tw⟩⟩

theorem initState_default : initState 1 1 = {} := rfl

/-! ### the job layer's own invariant along the callbacks -/

theorem wf_started {js js' : Job.State} {t : TaskId} {i : Nat} {ws : List Nat} {rv : Nat} {evs : List Job.Ev}
    (h : Job.StateWF js) (e : js.taskStarted t i ws rv = .ok (js', evs)) : Job.StateWF js' :=
  Job.step_wf (op := .started t i ws rv) h e

theorem wf_finished {js js' : Job.State} {t : TaskId} {evs : List Job.Ev}
    (h : Job.StateWF js) (e : js.taskFinished t = .ok (js', evs)) : Job.StateWF js' :=
  Job.step_wf (op := .finished t) h e

theorem wf_failed {js js' : Job.State} {t : TaskId} {cons ret : List TaskId} {evs : List Job.Ev}
    (h : Job.StateWF js) (e : js.taskFailed t cons = .ok (js', evs, ret)) : Job.StateWF js' :=
  Job.step_wf (op := .failed t cons) (evs := evs) h (by simp [Job.step, e, Except.map])

theorem wf_workerNew {js js' : Job.State} {w : Nat} {evs : List Job.Ev}
    (h : Job.StateWF js) (e : js.workerNew w = .ok (js', evs)) : Job.StateWF js' :=
  Job.step_wf (op := .workerNew w) h e

theorem wf_workerLost {js js' : Job.State} {w : Nat} {running : List TaskId} {reason : String} {evs : List Job.Ev}
    (h : Job.StateWF js) (e : js.workerLost w running reason = .ok (js', evs)) : Job.StateWF js' :=
  Job.step_wf (op := .workerLost w running reason) h e

/-! ### the outcome of a delivery -/

/-- a delivery that does not fail in the job layer: either the `rets` check stopped it, or it succeeded, left
exactly `rets'` unmatched and re-established the coupling with the core state `c'` -/
def GoodR (c' : Core.State) (rets' : List (List TaskId)) :
    Except Stop (Job.State × List Job.Ev × List (List TaskId)) → Prop
  | .ok (js', _, left) => left = rets' ∧ Coupled0 js' c'
  | .error .badRets => True
  | .error _ => False

theorem route_nil (js : Job.State) (rets : List (List TaskId)) : route js rets [] = .ok (js, [], rets) := rfl

theorem route_single (js : Job.State) (rets : List (List TaskId)) (cb : Core.Cb) :
    route js rets [cb] = (cbStep js rets cb).map fun r => (r.1, r.2.1 ++ [], r.2.2) := by
  simp only [route]
  cases h : cbStep js rets cb with
  | error e => rfl
  | ok r => obtain ⟨a, b, c⟩ := r; rfl

theorem route_append (js : Job.State) (rets : List (List TaskId)) (a b : List Core.Cb) :
    route js rets (a ++ b) =
      match route js rets a with
      | .error e => .error e
      | .ok (js1, ev1, rets1) =>
        match route js1 rets1 b with
        | .error e => .error e
        | .ok (js2, ev2, rets2) => .ok (js2, ev1 ++ ev2, rets2) := by
  induction a generalizing js rets with
  | nil =>
    simp only [List.nil_append, route]
    cases route js rets b with
    | error e => rfl
    | ok r => obtain ⟨x, y, z⟩ := r; simp
  | cons cb rest ih =>
    simp only [List.cons_append, route]
    cases cbStep js rets cb with
    | error e => rfl
    | ok r =>
      obtain ⟨j1, e1, r1⟩ := r
      simp only [ih]
      cases route j1 r1 rest with
      | error e => rfl
      | ok r2 =>
        obtain ⟨j2, e2, r2'⟩ := r2
        simp only
        cases route j2 r2' b with
        | error e => rfl
        | ok r3 => obtain ⟨j3, e3, r3'⟩ := r3; simp [List.append_assoc]

/-- deliveries compose -/
theorem GoodR.append {js : Job.State} {rets rets1 rets2 : List (List TaskId)} {c1 c2 : Core.State} {a b : List Core.Cb}
    (h1 : GoodR c1 rets1 (route js rets a))
    (h2 : ∀ js1, Coupled0 js1 c1 → GoodR c2 rets2 (route js1 rets1 b)) :
    GoodR c2 rets2 (route js rets (a ++ b)) := by
  rw [route_append]
  cases hr : route js rets a with
  | error e => rw [hr] at h1; cases e <;> first | exact h1 | trivial
  | ok r =>
    obtain ⟨j1, e1, r1⟩ := r
    rw [hr] at h1
    obtain ⟨rfl, hc⟩ := h1
    have := h2 j1 hc
    simp only
    cases hr2 : route j1 r1 b with
    | error e => rw [hr2] at this; cases e <;> first | exact this | trivial
    | ok r2 =>
      obtain ⟨j2, e2, r2'⟩ := r2
      rw [hr2] at this
      exact this

theorem GoodR.nil {js : Job.State} {rets : List (List TaskId)} {c : Core.State} (h : Coupled0 js c) :
    GoodR c rets (route js rets []) := ⟨rfl, h⟩

end HqModel.Sys
