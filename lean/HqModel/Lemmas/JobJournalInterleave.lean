import HqModel.Lemmas.JobJournalStep
/-!
# Records of other emitters interleaved with the job layer's; allocation ids of `WorkerConnected`
-/
namespace HqModel.Emit
open HqModel.Job HqModel.Journal

theorem isOther_jobs {A : AState} {r : Record} (h : isOther r = true) : (meaningStep A r).jobs = A.jobs := by
  cases r <;> simp [isOther] at h <;> rfl

theorem journalFromI_good : ∀ (items : List Item) {s : State} {A : AState}, Inv s A → okFromI s A items = true →
    goodFrom A (journalFromI s items)
  | [], _, _, h, _ => h.dep
  | .other r :: is, s, A, h, hok => by
    simp only [okFromI, Bool.and_eq_true] at hok
    obtain ⟨⟨ho, hr⟩, hrest⟩ := hok
    simp only [journalFromI]
    exact ⟨h.dep, hr, journalFromI_good is (h.congr rfl rfl (isOther_jobs ho)) hrest⟩
  | .op o :: is, s, A, h, hok => by
    simp only [okFromI, Bool.and_eq_true] at hok
    simp only [journalFromI]
    cases hs : step s o with
    | error x => exact h.dep
    | ok r =>
      obtain ⟨s', evs⟩ := r
      rw [hs] at hok
      have L := step_leads h hok.1 hs
      exact (goodFrom_append _ _ _).mpr ⟨L.1, journalFromI_good is L.2 hok.2⟩

/-- the plain run is the interleaved run without other records -/
theorem journalFromI_ops : ∀ (ops : List Op) (s : State), journalFromI s (ops.map .op) = journalFrom s ops
  | [], _ => rfl
  | o :: ops, s => by
    simp only [List.map_cons, journalFromI, journalFrom]
    cases step s o with
    | error _ => rfl
    | ok r => simp only [journalFromI_ops ops]

/-! ### allocation ids -/

theorem meaningStep_erase (A : AState) (r : Record) : meaningStep A (eraseAlloc r) = meaningStep A r := by
  cases r <;> rfl

theorem recordOk_erase (A : AState) (r : Record) : recordOk A (eraseAlloc r) = recordOk A r := by
  cases r <;> rfl

theorem producibleFrom_erase : ∀ (J : List Record) (A : AState),
    producibleFrom A (J.map eraseAlloc) = producibleFrom A J
  | [], _ => rfl
  | r :: J, A => by
    simp only [List.map_cons, producibleFrom, recordOk_erase, meaningStep_erase, producibleFrom_erase J]

theorem foldl_erase : ∀ (J : List Record) (A : AState),
    (J.map eraseAlloc).foldl meaningStep A = J.foldl meaningStep A
  | [], _ => rfl
  | r :: J, A => by simp only [List.map_cons, List.foldl_cons, meaningStep_erase, foldl_erase J]

end HqModel.Emit
