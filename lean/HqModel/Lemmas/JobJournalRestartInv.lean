import HqModel.Lemmas.JobJournalRestart
/-!
# `StateWF` and `Emit.Inv` of the restored job-layer state
-/
namespace HqModel.Emit
open HqModel.Job HqModel.Journal

/-- what `c10_restore_refines` establishes on the way: the restorer invariant and the job views -/
theorem restore_facts {J : List Record} {R : Restorer} {X : Restored} (hp : Producible J)
    (e : restore J = .ok (R, X)) :
    Journal.Inv R (meaning J) ∧ X.jobs.map RestoredJob.view = (meaning J).jobs.map (fun ja => ja.2.view ja.1) := by
  obtain ⟨R0, hR, hinv⟩ := fold_inv J {} {} inv_init hp
  obtain ⟨js, bs, h1, h2, -⟩ := restoreJobsFrom_ok hinv.jobs
    { queues := R0.queues.map fun q => (q.1, (alGet R0.queueRes q.1).isSome) }
  have hA : List.foldl meaningStep {} J = meaning J := rfl
  rw [hA] at hinv h2
  simp only [restore, restorerFold, hR, restoreJobs, h1] at e
  cases e
  exact ⟨hinv, by simpa using h2⟩

theorem oc_tstate (st : Journal.TState) : oc (tstate st) = st.outcome := by
  cases st <;> rfl

theorem tstate_not_running {st : Journal.TState} (h : st = .waiting ∨ st.isCompleted = true) :
    tstate st ≠ .running := by
  cases st <;> simp [tstate, Journal.TState.isCompleted] at h ⊢

/-- one restored job against its entry in `meaning J` -/
structure Match (rj : RestoredJob) (k : Nat) (aj : AJob) : Prop where
  id : k = rj.id
  isOpen : aj.isOpen = rj.isOpen
  tasks : aj.tasks.map (fun a => (a.id, a.st)) = rj.tasks.map (fun t => (t.1, t.2.outcome))
  counters : aj.counters = rj.counters

theorem match_of_views {xs : List RestoredJob} {as : List (Nat × AJob)}
    (h : xs.map RestoredJob.view = as.map (fun ja => ja.2.view ja.1)) :
    ∀ rj ∈ xs, ∃ ja ∈ as, Match rj ja.1 ja.2 := by
  intro rj hrj
  have : rj.view ∈ as.map (fun ja => ja.2.view ja.1) := h ▸ List.mem_map.mpr ⟨rj, hrj, rfl⟩
  obtain ⟨ja, hja, hv⟩ := List.mem_map.mp this
  simp only [AJob.view, RestoredJob.view, Prod.mk.injEq] at hv
  exact ⟨ja, hja, hv.1, hv.2.1, hv.2.2.2.2.1, hv.2.2.2.2.2⟩

theorem Match.keys {rj : RestoredJob} {k : Nat} {aj : AJob} (h : Match rj k aj) :
    keys (jobOf rj).tasks = aj.tasks.map (·.id) := by
  have := congrArg (List.map Prod.fst) h.tasks
  simp only [List.map_map, Function.comp_def] at this
  unfold Job.keys jobOf
  simp only [List.map_map, Function.comp_def]
  exact this.symm

theorem Match.count {rj : RestoredJob} {k : Nat} {aj : AJob} (h : Match rj k aj) (x : Job.TState)
    (hx : x.terminal = true) : countS (jobOf rj).tasks x = aj.count (oc x) := by
  have e1 : aj.count (oc x) = List.countP (fun pr : Nat × Outcome => pr.2 == oc x) (aj.tasks.map fun a => (a.id, a.st)) := by
    rw [AJob.count, ← List.countP_eq_length_filter, List.countP_map]
    rfl
  have e2 : countS (jobOf rj).tasks x =
      List.countP (fun pr : Nat × Outcome => pr.2 == oc x) (rj.tasks.map fun t => (t.1, t.2.outcome)) := by
    simp only [countS, jobOf, List.countP_map, Function.comp_def]
    apply List.countP_congr
    intro p _
    cases x <;> simp [Job.TState.terminal] at hx <;> cases p.2 <;> simp [tstate, oc, Journal.TState.outcome]
  rw [e1, e2, h.tasks]

theorem Match.wf {rj : RestoredJob} {k : Nat} {aj : AJob} (h : Match rj k aj) (hc : Clean rj.tasks)
    (hnd : (aj.tasks.map (·.id)).Nodup) : JobWF (jobOf rj) := by
  have hcnt := h.counters
  simp only [AJob.counters] at hcnt
  refine ⟨by rw [h.keys]; exact hnd, ?_, ?_, ?_, ?_, ?_⟩
  · have h0 : countS (jobOf rj).tasks .running = 0 := by
      refine List.countP_eq_zero.mpr ?_
      intro p hp
      simp only [jobOf, List.mem_map] at hp
      obtain ⟨q, hq, rfl⟩ := hp
      simpa using tstate_not_running (hc q hq)
    rw [h0]
    simp only [jobOf, ← hcnt]
  · rw [h.count .finished rfl]; simp only [jobOf, ← hcnt]; rfl
  · rw [h.count .failed rfl]; simp only [jobOf, ← hcnt]; rfl
  · rw [h.count .canceled rfl]; simp only [jobOf, ← hcnt]; rfl
  · rw [h.count .aborted rfl]; simp only [jobOf, ← hcnt]; rfl

theorem Match.jsim {rj : RestoredJob} {k : Nat} {aj : AJob} (h : Match rj k aj) (hc : Clean rj.tasks)
    (hnd : (aj.tasks.map (·.id)).Nodup) : JSim (jobOf rj) aj := by
  refine ⟨h.isOpen, h.keys.symm, ?_⟩
  intro a ha
  have : (a.id, a.st) ∈ rj.tasks.map (fun t => (t.1, t.2.outcome)) :=
    h.tasks ▸ List.mem_map.mpr ⟨a, ha, rfl⟩
  obtain ⟨p, hp, hpe⟩ := List.mem_map.mp this
  simp only [Prod.mk.injEq] at hpe
  have hm : (a.id, tstate p.2) ∈ (jobOf rj).tasks := by
    simp only [jobOf, List.mem_map]
    exact ⟨p, hp, by rw [hpe.1]⟩
  have hl := lookup_of_mem (by rw [h.keys]; exact hnd) hm
  exact ⟨tstate p.2, hl, by rw [oc_tstate]; exact hpe.2.symm,
    fun e => absurd e (tstate_not_running (hc p hp))⟩

/-- the facts about `meaning J` and `restore J` the two theorems share -/
theorem restart_core {J : List Record} {R : Restorer} {X : Restored} (hp : Producible J)
    (e : restore J = .ok (R, X)) :
    (∀ rj ∈ X.jobs, ∃ aj, alGet (meaning J).jobs rj.id = some aj ∧ Match rj rj.id aj ∧ Clean rj.tasks ∧
      (aj.tasks.map (·.id)).Nodup ∧ rj.id ≤ (meaning J).maxJob) ∧
    X.jobs.map (·.id) = (meaning J).jobs.map (·.1) ∧ R.maxJob = (meaning J).maxJob := by
  obtain ⟨hinv, hv⟩ := restore_facts hp e
  have hnd := meaning_nodup J
  have hkeys := (meaning_keysLe J hp).1
  refine ⟨?_, ?_, hinv.maxJob⟩
  · intro rj hrj
    obtain ⟨ja, hja, hm⟩ := match_of_views hv rj hrj
    obtain ⟨k, aj⟩ := ja
    have hk : k = rj.id := hm.id
    subst hk
    have hg := alGet_of_mem hnd hja
    obtain ⟨rj0, -, hrel, -⟩ := hinv.getJob hg
    exact ⟨aj, hg, hm, restore_clean e rj hrj, JobRel.ids_nodup hrel, hkeys _ _ hg⟩
  · have := congrArg (List.map fun v : Nat × Bool × Option Nat × Nat × List (Nat × Outcome) × JCounters => v.1) hv
    simpa [List.map_map, Function.comp_def, RestoredJob.view, AJob.view] using this

/-- **the restored job layer is well-formed** (unique job and task ids, counters = per-state task counts, ids below
the job counter): the C13 theorems apply after a restart -/
theorem restart_wf {J : List Record} {R : Restorer} {X : Restored} (hp : Producible J)
    (e : restore J = .ok (R, X)) : StateWF (jobStateOf R X) := by
  obtain ⟨h1, h2, h3⟩ := restart_core hp e
  refine ⟨?_, ?_, ?_⟩
  · intro job hj
    simp only [jobStateOf, List.mem_map] at hj
    obtain ⟨rj, hrj, rfl⟩ := hj
    obtain ⟨aj, -, hm, hc, hnd, -⟩ := h1 rj hrj
    exact hm.wf hc hnd
  · have : (jobStateOf R X).jobs.map (·.id) = X.jobs.map (·.id) := by
      simp [jobStateOf, jobOf, List.map_map, Function.comp_def]
    rw [this, h2]
    exact meaning_nodup J
  · intro job hj
    simp only [jobStateOf, List.mem_map] at hj
    obtain ⟨rj, hrj, rfl⟩ := hj
    obtain ⟨aj, -, -, -, -, hle⟩ := h1 rj hrj
    simp only [jobStateOf, jobOf, counters]
    omega

/-- **the restored job layer and the journal satisfy the emit invariant** (the journal extended by the `ServerStart`
of the new life: it changes neither jobs nor job ids) -/
theorem restart_inv {J : List Record} {R : Restorer} {X : Restored} (hp : Producible J)
    (hd : DepOk (meaning J)) (e : restore J = .ok (R, X)) (uid : String) :
    Inv (jobStateOf R X) (meaning (J ++ [.serverStart uid])) := by
  obtain ⟨h1, h2, h3⟩ := restart_core hp e
  have hA : (meaning (J ++ [.serverStart uid])).jobs = (meaning J).jobs := by
    simp [meaning, List.foldl_append, meaningStep]
  have base : Inv (jobStateOf R X) (meaning J) := by
    refine ⟨restart_wf hp e, ?_, ?_, hd⟩
    · intro ja hja
      have := (meaning_keysLe J hp).1 ja.1 ja.2 (alGet_of_mem (meaning_nodup J) hja)
      simp only [jobStateOf, counters]
      omega
    · intro j job hg
      obtain ⟨hmem, hid⟩ := findJob_some hg
      simp only [jobStateOf, List.mem_map] at hmem
      obtain ⟨rj, hrj, rfl⟩ := hmem
      obtain ⟨aj, hga, hm, hc, hnd, -⟩ := h1 rj hrj
      have : j = rj.id := hid.symm
      subst this
      rw [hga]
      exact hm.jsim hc hnd
  exact base.congr rfl rfl hA

theorem nextState_nil : nextState [] = {} := rfl

end HqModel.Emit
