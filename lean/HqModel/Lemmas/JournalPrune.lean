import HqModel.Journal.Spec
import HqModel.Lemmas.JournalAL
/-! Lemmas about `prune` (prune.rs): it is a record-wise filter; pruning twice = pruning with the intersections. -/
namespace HqModel.Journal

def inter (a b : List Nat) : List Nat := a.filter fun x => b.contains x

theorem contains_inter (a b : List Nat) (x : Nat) : (inter a b).contains x = (a.contains x && b.contains x) := by
  unfold inter
  by_cases h1 : x ∈ a <;> by_cases h2 : x ∈ b <;> simp [h1, h2]

theorem filter_ids_inter (lj lj2 : List Nat) (ids : List (Nat × Nat)) :
    (ids.filter fun i => lj.contains i.1).filter (fun i => lj2.contains i.1) =
      ids.filter fun i => (inter lj lj2).contains i.1 := by
  rw [List.filter_filter]
  apply List.filter_congr
  intro i _
  rw [contains_inter, Bool.and_comm]

/-- pruning an already pruned record -/
theorem pruneRecord_pruneRecord (lj lw lj2 lw2 : List Nat) (x : Record) :
    (pruneRecord lj lw x).bind (pruneRecord lj2 lw2) = pruneRecord (inter lj lj2) (inter lw lw2) x := by
  cases x <;> simp only [pruneRecord, contains_inter]
  case tasksCanceled ids =>
    have hB : (ids.filter fun i => lj.contains i.1 && lj2.contains i.1) =
        (ids.filter fun i => lj.contains i.1).filter (fun i => lj2.contains i.1) := by
      rw [List.filter_filter]; apply List.filter_congr; intro i _; rw [Bool.and_comm]
    rw [hB]
    cases hA : ids.filter (fun i => lj.contains i.1) with
    | nil => rfl
    | cons a as => simp only [List.isEmpty_cons, Bool.false_eq_true, if_false, Option.bind_some, pruneRecord]
  case tasksAborted ids =>
    have hB : (ids.filter fun i => lj.contains i.1 && lj2.contains i.1) =
        (ids.filter fun i => lj.contains i.1).filter (fun i => lj2.contains i.1) := by
      rw [List.filter_filter]; apply List.filter_congr; intro i _; rw [Bool.and_comm]
    rw [hB]
    cases hA : ids.filter (fun i => lj.contains i.1) with
    | nil => rfl
    | cons a as => simp only [List.isEmpty_cons, Bool.false_eq_true, if_false, Option.bind_some, pruneRecord]
  all_goals
    first
      | rfl
      | (split <;> simp_all [pruneRecord])

theorem prune_prune (lj lw lj2 lw2 : List Nat) (J : List Record) :
    prune lj2 lw2 (prune lj lw J) = prune (inter lj lj2) (inter lw lw2) J := by
  unfold prune
  rw [List.filterMap_filterMap]
  congr 1
  funext x
  exact pruneRecord_pruneRecord lj lw lj2 lw2 x

theorem prune_append (lj lw : List Nat) (J K : List Record) : prune lj lw (J ++ K) = prune lj lw J ++ prune lj lw K := by
  simp [prune]

end HqModel.Journal
