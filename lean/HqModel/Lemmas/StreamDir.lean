import HqModel.Lemmas.StreamBytes
/-!
Directory-level lemmas for M8 Stream: file header, the events of a (possibly cut) file, the record list of a
whole directory and what it contains for one task.
-/
namespace HqModel.Stream

/-! ## file header -/

theorem checkHeader_enc (uid : Bytes) (w : Nat) (rest : Bytes) (ha : uid.all (fun b => b.toNat < 128) = true)
    (hl : uid.length ≤ 250) (hw : w < 4294967296) :
    checkHeader (encFileHeader uid w ++ rest) = .ok uid w rest := by
  have e : encFileHeader uid w ++ rest = fileMagic ++ (encVarint uid.length ++ (uid ++ (encVarint w ++ rest))) := by
    simp [encFileHeader]
  have hm : fileMagic.length = 8 := rfl
  rw [e]
  unfold checkHeader
  rw [List.take_left' hm, List.drop_left' hm]
  simp only [if_true]
  rw [decVarint_encVarint (by omega)]
  simp only
  have h1 : uid.length ≤ maxFrameSize := by simp only [maxFrameSize]; omega
  have h2 : uid.length ≤ (uid ++ (encVarint w ++ rest)).length := by simp
  have h3 : (List.take uid.length (uid ++ (encVarint w ++ rest))) = uid := by simp
  have h4 : (List.drop uid.length (uid ++ (encVarint w ++ rest))) = encVarint w ++ rest := by simp
  rw [h3, h4, if_pos ⟨h1, h2, ha⟩, decVarint_encVarint (by omega)]
  simp [hw]

def hdrLen (f : FileSpec) : Nat := (encFileHeader f.uid f.worker).length

/-- the chunks of `f` that the scanner still sees when only the first `k` bytes of the file survive -/
def kept (f : FileSpec) (k : Nat) : List Chunk := f.chunks.take (nHdr (k - hdrLen f) f.chunks)

/-- contents of a file of which only the first `k` bytes survived -/
def cutBytes (fk : FileSpec × Nat) : Bytes := (fileBytes fk.1).take fk.2

theorem fileEvents_cut {uid : Bytes} {f : FileSpec} (ok : f.OK uid) (ha : uid.all (fun b => b.toNat < 128) = true)
    (hl : uid.length ≤ 250) (k : Nat) (hk : hdrLen f ≤ k) (i : Nat) :
    fileEvents i (cutBytes (f, k)) = (recsOf (hdrLen f) (kept f k)).map (Ev.chunk i) := by
  have hu := ok.uid
  unfold cutBytes fileBytes fileEvents
  simp only
  rw [List.take_append, List.take_of_length_le (by simpa [hdrLen] using hk)]
  rw [checkHeader_enc f.uid f.worker _ (by rw [hu]; exact ha) (by rw [hu]; exact hl) ok.worker]
  simp only
  have : (encFileHeader f.uid f.worker ++ List.take (k - (encFileHeader f.uid f.worker).length) (chunksBytes f.chunks)).length -
      (List.take (k - (encFileHeader f.uid f.worker).length) (chunksBytes f.chunks)).length = hdrLen f := by
    simp only [List.length_append, hdrLen]; omega
  rw [this, parseChunks_take f.chunks ok.valid ok.wf]
  simp [kept, hdrLen]

/-! ## the record list of a directory -/

/-- records of a list of (offset of the body, chunks), numbered from `i` -/
def viewFR : Nat → List (Nat × List Chunk) → List FR
  | _, [] => []
  | i, pc :: rest => (recsOf pc.1 pc.2).map (fun r => (i, r)) ++ viewFR (i + 1) rest

def viewOf (dir : List (FileSpec × Nat)) : List (Nat × List Chunk) :=
  dir.map fun fk => (hdrLen fk.1, kept fk.1 fk.2)

theorem dirEvents_cut {uid : Bytes} (dir : List (FileSpec × Nat)) (ok : ∀ fk ∈ dir, fk.1.OK uid)
    (ha : uid.all (fun b => b.toNat < 128) = true) (hl : uid.length ≤ 250)
    (hk : ∀ fk ∈ dir, hdrLen fk.1 ≤ fk.2) (i : Nat) :
    dirEventsFrom i (dir.map cutBytes) = (viewFR i (viewOf dir)).map fun fr => Ev.chunk fr.1 fr.2 := by
  induction dir generalizing i with
  | nil => rfl
  | cons fk dir ih =>
    obtain ⟨f, k⟩ := fk
    simp only [List.map_cons, dirEventsFrom, viewOf, viewFR, List.map_append, List.map_map]
    rw [fileEvents_cut (ok (f, k) (by simp)) ha hl k (hk (f, k) (by simp)) i]
    have := ih (fun fk h => ok fk (by simp [h])) (fun fk h => hk fk (by simp [h])) (i + 1)
    simp only [viewOf] at this
    rw [this]
    rfl

theorem recsOf_hdr (p : Nat) (cs : List Chunk) : (recsOf p cs).map (·.hdr) = cs.map (·.hdr) := by
  induction cs generalizing p with
  | nil => rfl
  | cons c cs ih => simp [recsOf, ih]

theorem recsOf_mem_hdr {p : Nat} {cs : List Chunk} {r : Rec} (h : r ∈ recsOf p cs) : ∃ c ∈ cs, c.hdr = r.hdr := by
  have : r.hdr ∈ (recsOf p cs).map (·.hdr) := List.mem_map_of_mem h
  rw [recsOf_hdr] at this
  obtain ⟨c, hc, he⟩ := List.mem_map.mp this
  exact ⟨c, hc, he⟩

theorem viewFR_mem {i : Nat} {v : List (Nat × List Chunk)} {fr : FR} (h : fr ∈ viewFR i v) :
    ∃ pc ∈ v, ∃ c ∈ pc.2, c.hdr = fr.2.hdr := by
  induction v generalizing i with
  | nil => simp [viewFR] at h
  | cons pc v ih =>
    simp only [viewFR, List.mem_append, List.mem_map] at h
    rcases h with ⟨r, hr, rfl⟩ | h
    · obtain ⟨c, hc, he⟩ := recsOf_mem_hdr hr
      exact ⟨pc, by simp, c, hc, he⟩
    · obtain ⟨pc', hpc', c, hc, he⟩ := ih h
      exact ⟨pc', by simp [hpc'], c, hc, he⟩

theorem viewFR_append (i : Nat) (v₁ v₂ : List (Nat × List Chunk)) :
    viewFR i (v₁ ++ v₂) = viewFR i v₁ ++ viewFR (i + v₁.length) v₂ := by
  induction v₁ generalizing i with
  | nil => simp [viewFR]
  | cons pc v ih =>
    simp only [List.cons_append, viewFR, ih, List.append_assoc, List.length_cons]
    congr 3
    omega

/-- no chunk of the view passes `q` ⇒ no record does -/
theorem viewFR_filter_none (q : ChunkHeader → Bool) (i : Nat) (v : List (Nat × List Chunk))
    (h : ∀ pc ∈ v, ∀ c ∈ pc.2, q c.hdr = false) : (viewFR i v).filter (fun fr => q fr.2.hdr) = [] := by
  simp only [List.filter_eq_nil_iff]
  intro fr hfr
  obtain ⟨pc, hpc, c, hc, he⟩ := viewFR_mem hfr
  simp [← he, h pc hpc c hc]

theorem recs_task_ids (t : Key) (i p : Nat) (cs : List Chunk) :
    ids (((recsOf p cs).map fun r => ((i, r) : FR)).filter fun fr => fr.2.key = t) = instSeq t cs := by
  induction cs generalizing p with
  | nil => rfl
  | cons c cs ih =>
    have := ih (p + c.bytes.length)
    simp only [ids, instSeq, Rec.key, Chunk.key] at this ⊢
    simp only [recsOf, List.map_cons, List.filter_cons]
    by_cases h : (c.hdr.job, c.hdr.task) = t
    · simp only [h, decide_true, if_true, List.map_cons, this]
    · simp only [h, decide_false, Bool.false_eq_true, if_false, this]

theorem view_task_ids (t : Key) (i : Nat) (v : List (Nat × List Chunk)) :
    ids ((viewFR i v).filter fun fr => fr.2.key = t) = v.flatMap fun pc => instSeq t pc.2 := by
  induction v generalizing i with
  | nil => rfl
  | cons pc v ih =>
    have h1 := recs_task_ids t i pc.1 pc.2
    have h2 := ih (i + 1)
    simp only [ids] at h1 h2 ⊢
    simp only [viewFR, List.filter_append, List.map_append, List.flatMap_cons, h1, h2]

end HqModel.Stream
