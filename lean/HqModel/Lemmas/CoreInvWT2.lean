import HqModel.Lemmas.CoreInvWT
/-!
Stage 2, part 4: preservation of `Inv` by the task-update half of the reactor
(`task_failed`, `task_running`, `task_finished`, `task_reject`, `on_task_update`, `on_retract_response`).
-/
namespace HqModel.Core

/-! ### `task_failed` -/

theorem removeWaitingAll_inv (ids : List TaskId) (s s' : State) (hi : Inv s)
    (h : s.removeWaitingAll ids = .ok s') : Inv s' ∧ ∀ x, Free s x → Free s' x := by
  induction ids generalizing s with
  | nil => simp only [State.removeWaitingAll] at h; cases h; exact ⟨hi, fun _ hx => hx⟩
  | cons t rest ih =>
    simp only [State.removeWaitingAll] at h
    split at h
    · cases h
    · rename_i s1 st h1
      split at h
      · rename_i n
        have hs := (removeTask_spec h1).1
        have hf : Free s t := hi.free_of_state (Or.inr (Or.inl ⟨n, hs⟩))
        obtain ⟨a, b⟩ := ih _ (removeTask_inv hi hf h1) h
        exact ⟨a, fun x hx => b x (removeTask_free hx h1)⟩
      · cases h

/-- the first part of `task_failed`: the task is detached from its worker(s) -/
theorem taskFailed_pre_inv {s s1 : State} {worker : Option Nat} {id : TaskId} {task : Task}
    (hi : Inv s) (ht : findTask s.tasks id = some task)
    (h : (match worker with
      | some w =>
        if s.isMultiNode task.rq then
          match task.state with
          | .runningMN ws =>
            match ws with
            | root :: _ => if root ≠ w then .error (.panic "task_failed.assert_root") else resetMnAll s ws
            | [] => .error (.panic "task_failed.ws0")
          | _ => .error (.panic "task_failed.mn_placement_unwrap")
        else
          match task.state with
          | .assigned w' rv | .running w' rv =>
            if w ≠ w' then .error (.panic "task_failed.assert_worker") else
            match s.rq task.rq rv with
            | .error e => .error e
            | .ok r => s.withWorker w (·.removeSn id r)
          | .prefilled w' =>
            if w ≠ w' then .error (.panic "task_failed.assert_worker") else
            match s.removePrefilled task.rq id with
            | .error e => .error e
            | .ok s1 => s1.withWorker w (·.removePrefill id)
          | .retracting w' =>
            if w ≠ w' then .error (.panic "task_failed.assert_worker") else
            s.tryRemoveRedirection id task.rq
          | _ => .ok s
      | none =>
        match task.state with
        | .waiting _ => .ok s
        | _ => .error (.panic "task_failed.assert_waiting") : M State) = .ok s1) :
    Inv s1 ∧ Free s1 id ∧ s1.tasks = s.tasks := by
  have hst := stOf_of_find ht
  split at h
  · rename_i w
    split at h
    · rename_i hmn
      split at h
      · rename_i ws hs
        split at h
        · rename_i root tl
          split at h
          · cases h
          · obtain ⟨a, b, c, d, e, f⟩ := resetMnAll_ls _ _ _ hi.ls h
            refine ⟨by unfold Inv; rw [c, e]; exact hi.workers a, ?_, c⟩
            unfold Free
            rw [d] at a b ⊢
            exact free_after_reset hi.ls a (by rw [hst, hs]) b f
        · cases h
      · cases h
    · rename_i hmn
      split at h
      · rename_i w' rv hs
        split at h
        · cases h
        · rename_i hw; simp only [ne_eq, Decidable.not_not] at hw; subst hw
          split at h
          · cases h
          · obtain ⟨a, b, c, d, e, f⟩ := removeSn_detach hi.ls h
            exact ⟨by unfold Inv; rw [c, e]; exact hi.workers a, f _ (by rw [hst, hs]) (Or.inl ⟨rv, rfl⟩), c⟩
      · rename_i w' rv hs
        split at h
        · cases h
        · rename_i hw; simp only [ne_eq, Decidable.not_not] at hw; subst hw
          split at h
          · cases h
          · obtain ⟨a, b, c, d, e, f⟩ := removeSn_detach hi.ls h
            exact ⟨by unfold Inv; rw [c, e]; exact hi.workers a, f _ (by rw [hst, hs]) (Or.inr ⟨rv, rfl⟩), c⟩
      · rename_i w' hs
        split at h
        · cases h
        · split at h
          · cases h
          · rename_i s0 hq
            have hc := removePrefilled_core hq
            have hi0 := hc.inv hi
            obtain ⟨a, b, c, d, e, f, _⟩ := removePrefill_detach hi0.ls h
            exact ⟨by unfold Inv; rw [c, e]; exact hi0.workers a, f, c.trans hc.t⟩
      · rename_i w' hs
        split at h
        · cases h
        · obtain ⟨a, b, _, f⟩ := tryRemoveRedirection_ls hi.ls h
          obtain ⟨c, e, _⟩ := tryRemoveRedirection_spec h
          exact ⟨by unfold Inv; rw [c, e]; exact hi.workers a, f w' (by rw [hst, hs]), c⟩
      · rename_i hn1 hn2 hn3 hn4
        cases h
        refine ⟨hi, ?_, rfl⟩
        apply hi.free_of_state
        rw [hst]
        cases hs : task.state with
        | waiting n => exact Or.inr (Or.inl ⟨n, rfl⟩)
        | finished => exact Or.inr (Or.inr rfl)
        | assigned a b => exact absurd hs (hn1 a b)
        | running a b => exact absurd hs (hn2 a b)
        | prefilled a => exact absurd hs (hn3 a)
        | retracting a => exact absurd hs (hn4 a)
        | runningMN l =>
          have := hi.mn id task l ht hs
          rw [isMultiNode_eq] at hmn
          exact absurd this hmn
  · split at h
    · rename_i n hs
      cases h
      exact ⟨hi, hi.free_of_state (Or.inr (Or.inl ⟨n, by rw [hst, hs]⟩)), rfl⟩
    · cases h

theorem taskFailed_inv {s s' : State} {worker : Option Nat} {id : TaskId} {ret : List TaskId} {o : Out}
    (hi : Inv s) (h : s.taskFailed worker id ret = .ok (s', o)) : Inv s' := by
  simp only [State.taskFailed, State.task?] at h
  split at h
  · cases h; exact hi
  · rename_i task ht
    split at h
    · cases h
    · rename_i s1 hpre
      obtain ⟨hi1, hf1, _⟩ := taskFailed_pre_inv hi ht hpre
      split at h
      · cases h
      · split at h
        · cases h
        · rename_i s2 h2
          obtain ⟨hi2, hf2⟩ := removeWaitingAll_inv _ _ _ hi1 h2
          split at h
          · cases h
          · rename_i s3 st h3
            have hi3 := removeTask_inv hi2 (hf2 _ hf1) h3
            clear hpre
            repeat' (split at h)
            all_goals first | (cases h; done) | (cases h; exact hi3) | (cases h; exact cancelTasks_inv hi3 ‹_›)

/-! ### `task_running` -/

theorem mnStarted_views {wk wk' : Worker}
    (h : (match wk.assign with
          | .mn t r _ => (.ok { wk with assign := .mn t r true } : M Worker)
          | _ => .ok wk) = .ok wk') :
    wk'.id = wk.id ∧ wAsg wk' = wAsg wk ∧ wPre wk' = wPre wk ∧ wMn wk' = wMn wk := by
  split at h
  · rename_i t r st ha
    cases h
    simp [wAsg, wPre, wMn, ha]
  · cases h; exact ⟨rfl, rfl, rfl, rfl⟩

theorem taskRunning_inv {s s' : State} {w : Nat} {id : TaskId} {rv : Nat} {o : Out}
    (hi : Inv s) (h : s.taskRunning w id rv = .ok (s', o)) : Inv s' := by
  simp only [State.taskRunning, State.task?] at h
  split at h
  · cases h; exact hi
  · rename_i task ht
    have hid : task.id = id := findTask_some_id ht
    have ht' : ∀ st, findTask s.tasks ({ task with state := st } : Task).id = some task := by
      intro st; simpa [hid] using ht
    split at h
    · -- assigned
      rename_i w' rv' hs
      split at h
      · cases h
      · rename_i hw; simp only [ne_eq, Decidable.not_not] at hw; subst hw
        split at h
        · cases h
        · cases h
          show Inv4 (putTask s.tasks _) s.workers s.redirects s.rqs
          refine hi.put (ht' _) rfl rfl (by simp [hs, isWaiting]) (by simp) ?_
          exact hi.ls.mv_started (ht' _) hs rfl
    · -- prefilled
      rename_i w' hs
      split at h
      · cases h
      · rename_i hw; simp only [ne_eq, Decidable.not_not] at hw; subst hw
        split at h
        · cases h
        · rename_i r hr
          split at h
          · cases h
          · rename_i s1 hww
            split at h
            · cases h
            · rename_i s2 hq
              cases h
              refine (queueRemove_core hq).inv ?_
              obtain ⟨wk, wk', hfw, hf, rfl⟩ := withWorker_spec hww
              obtain ⟨A, F, P, F', ha, _, hm, hnm, rfl⟩ := prefilledToStarted_spec hf
              change findWorker s.workers w' = some wk at hfw
              have hwid : wk.id = w' := findWorker_some_id hfw
              show Inv4 (putTask s.tasks _) (putWorker s.workers _) s.redirects s.rqs
              refine hi.put (ht' _) rfl rfl (by simp [hs, isWaiting]) (by simp) ?_
              exact hi.ls.mv_prefill_start (wk := wk) (v := rv) (ht' _) (by simp [hs, hwid]) (by simp [hwid])
                (by simpa [hwid] using hfw) (by simp [wAsg, ha, hid]; exact hnm) (by simp [wAsg, ha, hid])
                (by simp [wPre, ha, hid]) (by simp [wMn, ha])
    · -- retracting
      rename_i w' hs
      split at h
      · cases h
      · rename_i hw; simp only [ne_eq, Decidable.not_not] at hw; subst hw
        split at h
        · cases h
        · rename_i s1 hq
          have hc1 := queueRemove_core hq
          split at h
          · cases h
          · rename_i s2 hr
            split at h
            · cases h
            · rename_i r hrq
              split at h
              · cases h
              · rename_i s3 hww
                cases h
                -- the redirect is removed on the ORIGINAL task map (the function does not read it)
                have hl1 : LS3 s.tasks s1.workers s1.redirects := by rw [hc1.w, hc1.r]; exact hi.ls
                obtain ⟨a, b, _, f⟩ := tryRemoveRedirection_ls hl1 hr
                obtain ⟨c, e, _⟩ := tryRemoveRedirection_spec hr
                have hfree := f w' (by rw [stOf_of_find ht, hs])
                obtain ⟨wk, wk', hfw, hf, rfl⟩ := withWorker_spec hww
                obtain ⟨A, F, P, F', ha, _, hnm, rfl⟩ := insertSn_spec hf
                have hwid : wk.id = w' := findWorker_some_id hfw
                have e1 : s2.tasks = putTask s.tasks { task with state := .running w' rv } := by rw [c, hc1.t]; rfl
                have e2 : s2.rqs = s.rqs := by rw [e, hc1.q]; rfl
                show Inv4 s2.tasks (putWorker s2.workers _) s2.redirects s2.rqs
                rw [e1, e2]
                refine hi.put (ht' _) rfl rfl (by simp [hs, isWaiting]) (by simp) ?_
                exact a.mv_assign (wk := wk) (ht' _) (by simpa [hid] using hfree) (by simpa [hwid] using hfw)
                  (by simp [wAsg, ha, hid]; exact hnm) (by simp [wAsg, ha, hid]) (by simp [wPre, ha]) (by simp [wMn, ha])
                  (fun _ _ _ _ => Iff.rfl) (fun x v hx => absurd hx (by simpa [hid] using hfree.nr x v))
                  (by simp [hwid]) a.d2
    · -- multi-node
      rename_i ws hs
      split at h
      · rename_i root tl
        split at h
        · cases h
        · split at h
          · cases h
          · rename_i s1 hww
            cases h
            obtain ⟨wk, wk', hfw, hf, rfl⟩ := withWorker_spec hww
            obtain ⟨e0, e1, e2, e3⟩ := mnStarted_views hf
            have hfw' : findWorker s.workers wk'.id = some wk := by rw [e0, findWorker_some_id hfw]; exact hfw
            show Inv4 s.tasks (putWorker s.workers wk') s.redirects s.rqs
            exact hi.workers (hi.ls.mv_worker_shrink hfw' (by rw [e1]; exact List.Sublist.refl _)
              (by rw [e2]; exact List.Sublist.refl _) (by rw [e3]; exact fun _ h => h))
      · cases h
    · cases h
    · cases h
    · cases h

/-! ### `task_finished` -/

theorem wakeConsumers_inv (cs : List TaskId) (s s' : State) (r r' : List TaskId) (hi : Inv s)
    (h : s.wakeConsumers cs r = .ok (s', r')) : Inv s' := by
  induction cs generalizing s r with
  | nil => simp only [State.wakeConsumers] at h; cases h; exact hi
  | cons c rest ih =>
    simp only [State.wakeConsumers] at h
    split at h
    · cases h
    · rename_i t hg
      have ht := getTask_spec hg
      have hid : t.id = c := findTask_some_id ht
      split at h
      · rename_i n hs
        have hi1 : Inv (s.setTask { t with state := .waiting n }) := by
          show Inv4 (putTask s.tasks _) s.workers s.redirects s.rqs
          have ht' : findTask s.tasks ({ t with state := .waiting n } : Task).id = some t := by simpa [hid] using ht
          refine hi.put ht' rfl rfl (by simp [isWaiting]) (by simp) ?_
          refine hi.ls.mv_free ht' ?_
          exact hi.free_of_state (Or.inr (Or.inl ⟨n + 1, by simp [hid, stOf_of_find ht, hs]⟩))
        split at h
        · split at h
          · cases h
          · rename_i s2 r2 ha
            exact ih _ _ ((addReady_core ha).inv hi1) h
        · exact ih _ _ hi1 h
      · cases h

theorem taskFinished_inv {s s' : State} {w : Nat} {id : TaskId} {o : Out} {b : Bool}
    (hi : Inv s) (h : s.taskFinished w id = .ok (s', o, b)) : Inv s' := by
  simp only [State.taskFinished, State.task?] at h
  split at h
  · cases h; exact hi
  · rename_i task ht
    have hst := stOf_of_find ht
    have hid : task.id = id := findTask_some_id ht
    split at h
    · cases h
    · rename_i s1 hpre
      -- the task is detached
      have hd : Inv s1 ∧ Free s1 id ∧ s1.tasks = s.tasks ∧ ¬ isWaiting task.state := by
        clear h
        split at hpre
        · rename_i w' rv hs
          split at hpre
          · cases hpre
          · rename_i hw; simp only [ne_eq, Decidable.not_not] at hw; subst hw
            split at hpre
            · cases hpre
            · obtain ⟨a, b, c, d, e, f⟩ := removeSn_detach hi.ls hpre
              exact ⟨by unfold Inv; rw [c, e]; exact hi.workers a, f _ (by rw [hst, hs]) (Or.inl ⟨rv, rfl⟩), c, by simp [hs, isWaiting]⟩
        · rename_i w' rv hs
          split at hpre
          · cases hpre
          · rename_i hw; simp only [ne_eq, Decidable.not_not] at hw; subst hw
            split at hpre
            · cases hpre
            · obtain ⟨a, b, c, d, e, f⟩ := removeSn_detach hi.ls hpre
              exact ⟨by unfold Inv; rw [c, e]; exact hi.workers a, f _ (by rw [hst, hs]) (Or.inr ⟨rv, rfl⟩), c, by simp [hs, isWaiting]⟩
        · rename_i ws hs
          split at hpre
          · split at hpre
            · cases hpre
            · obtain ⟨a, b, c, d, e, f⟩ := resetMnChecked_ls _ _ _ _ hi.ls hpre
              refine ⟨by unfold Inv; rw [c, e]; exact hi.workers a, ?_, c, by simp [hs, isWaiting]⟩
              unfold Free
              rw [d] at a b ⊢
              exact free_after_reset hi.ls a (by rw [hst, hs]) b f
          · cases hpre
        · rename_i w' hs
          split at hpre
          · cases hpre
          · obtain ⟨a, b, _, f⟩ := tryRemoveRedirection_ls hi.ls hpre
            obtain ⟨c, e, _⟩ := tryRemoveRedirection_spec hpre
            exact ⟨by unfold Inv; rw [c, e]; exact hi.workers a, f w' (by rw [hst, hs]), c, by simp [hs, isWaiting]⟩
        · cases hpre
        · cases hpre
        · cases hpre
      obtain ⟨hi1, hf1, ht1, hnw⟩ := hd
      clear hpre
      have ht1' : findTask s1.tasks ({ task with state := .finished } : Task).id = some task := by
        rw [ht1]; simpa [hid] using ht
      have hi2 : Inv (s1.setTask { task with state := .finished }) := by
        show Inv4 (putTask s1.tasks _) s1.workers s1.redirects s1.rqs
        refine hi1.put ht1' rfl rfl ?_ (by simp) ?_
        · intro hw
          -- a Waiting task cannot be finished: the detach step has panicked
          exact absurd hw hnw
        · exact hi1.ls.mv_free ht1' (by show Free3 _ _ task.id; rw [hid]; exact hf1)
      split at h
      · cases h
      · rename_i s3 retracted h3
        have hi3 := wakeConsumers_inv _ _ _ _ _ hi2 h3
        split at h
        · cases h
        · rename_i s4 out h4
          have hi4 := retract_inv hi3 h4
          split at h
          · cases h
          · rename_i s5 st h5
            split at h
            · cases h
            · rename_i hfin
              simp only [ne_eq, Decidable.not_not] at hfin
              cases h
              have hs5 := (removeTask_spec h5).1
              exact removeTask_inv hi4 (hi4.free_of_state (Or.inr (Or.inr (by rw [hs5, hfin])))) h5

/-! ### `task_reject` -/

/-- **protocol side condition** of a Reject message: for a task that is Assigned, the message comes from the
worker the task is assigned to and names the assigned variant. (`task_reject` in reactor.rs logs "Rejection from
invalid worker / invalid variant" otherwise and then falls through to `task.state = Waiting` + `add_ready_task`
WITHOUT `remove_sn_task`: the task would stay in `assigned_tasks` of its worker, see `reject_breaks_inv`.) -/
def RejectOk (s : State) (w : Nat) (id : TaskId) (rv : Option Nat) : Prop :=
  ∀ task w' rv', s.task? id = some task → task.state = .assigned w' rv' → w = w' ∧ rv = some rv'

instance (s : State) (w : Nat) (id : TaskId) (rv : Option Nat) : Decidable (RejectOk s w id rv) := by
  unfold RejectOk
  cases h : s.task? id with
  | none => exact isTrue (fun _ _ _ e => by cases e)
  | some task =>
    cases hs : task.state with
    | assigned w' rv' =>
      by_cases hc : w = w' ∧ rv = some rv'
      · exact isTrue (fun t a b e1 e2 => by cases e1; rw [hs] at e2; cases e2; exact hc)
      · exact isFalse (fun hh => hc (hh task w' rv' rfl hs))
    | _ => exact isTrue (fun t a b e1 e2 => by cases e1; rw [hs] at e2; cases e2)

theorem requeue_inv {s' s3 : State} {task : Task} {out : Out} {b : Bool} (hi : Inv s')
    (ht : findTask s'.tasks task.id = some task) (hf : Free s' task.id)
    (h : (match (s'.setTask { task with state := .waiting 0 }).addReady { task with state := .waiting 0 } with
          | .error e => Except.error e
          | .ok (s2, retracted) =>
            match s2.retract retracted with
            | .error e => Except.error e
            | .ok (s3, out) => (Except.ok (s3, out, true) : M (State × Out × Bool))) = .ok (s3, out, b)) : Inv s3 := by
  have hi1 : Inv (s'.setTask { task with state := .waiting 0 }) := by
    show Inv4 (putTask s'.tasks _) s'.workers s'.redirects s'.rqs
    exact hi.put (told := task) ht rfl rfl (by simp [isWaiting]) (by simp) (hi.ls.mv_free (told := task) ht hf)
  split at h
  · cases h
  · rename_i s2 retracted ha
    split at h
    · cases h
    · rename_i s4 out4 hr
      cases h
      exact retract_inv ((addReady_core ha).inv hi1) hr

/-- replacing a worker record by one with the same sets -/
theorem Inv.setWorker_same {s : State} (hi : Inv s) {wk wk' : Worker} (hfw : findWorker s.workers wk'.id = some wk)
    (e1 : wAsg wk' = wAsg wk) (e2 : wPre wk' = wPre wk) (e3 : wMn wk' = wMn wk) : Inv (s.setWorker wk') := by
  show Inv4 s.tasks (putWorker s.workers wk') s.redirects s.rqs
  exact hi.workers (hi.ls.mv_worker_shrink hfw (by rw [e1]; exact List.Sublist.refl _)
    (by rw [e2]; exact List.Sublist.refl _) (by rw [e3]; exact fun _ h => h))

theorem taskReject_inv {s s' : State} {w : Nat} {id : TaskId} {rv : Option Nat} {o : Out} {b : Bool}
    (hi : Inv s) (hok : RejectOk s w id rv) (h : s.taskReject w id rv = .ok (s', o, b)) : Inv s' := by
  unfold State.taskReject at h
  split at h
  · cases h; exact hi
  · rename_i task ht
    have hok' := fun a b => hok task a b ht
    simp only [State.task?] at ht
    have hid : task.id = id := findTask_some_id ht
    have hst := stOf_of_find ht
    split at h
    · cases h
    · rename_i wk0 hg
      have hfw0 := getWorker_spec hg
      extract_lets wk s0 tw requeue s1r at h
      have hv : wk.id = wk0.id ∧ wAsg wk = wAsg wk0 ∧ wPre wk = wPre wk0 ∧ wMn wk = wMn wk0 := by
        cases rv <;> exact ⟨rfl, rfl, rfl, rfl⟩
      clear_value wk
      obtain ⟨b0, b1, b2, b3⟩ := hv
      have hi0 : Inv s0 :=
        hi.setWorker_same (wk := wk0) (by rw [b0, findWorker_some_id hfw0]; exact hfw0) b1 b2 b3
      have ht0 : findTask s0.tasks task.id = some task := by rw [hid]; exact ht
      have e0t : s0.tasks = s.tasks := rfl
      have e0r : s0.redirects = s.redirects := rfl
      split at h
      · -- assigned
        rename_i w' rv' hs
        obtain ⟨e1, e2⟩ := hok' w' rv' hs
        subst e1
        simp only [ne_eq, not_true_eq_false, if_false, e2] at h
        split at h
        · cases h
        · rename_i r hr
          split at h
          · cases h
          · rename_i s1 hw
            obtain ⟨a, b', c, d, e, f⟩ := removeSn_detach hi0.ls hw
            have hi1 : Inv s1 := by unfold Inv; rw [c, e]; exact hi0.workers a
            simp only [requeue] at h
            refine requeue_inv hi1 (by rw [c]; exact ht0) ?_ h
            rw [hid]
            exact f _ (by show stOf s.tasks id = _; rw [hst, hs]) (Or.inl ⟨rv', rfl⟩)
      · -- prefilled
        rename_i w' hs
        split at h
        · cases h
        · rename_i s1 hw
          obtain ⟨a, b', c, d, e, f, _⟩ := removePrefill_detach hi0.ls hw
          have hi1 : Inv s1 := by unfold Inv; rw [c, e]; exact hi0.workers a
          split at h
          · cases h
          · rename_i s2 hq
            have hc := removePrefilled_core hq
            simp only [requeue] at h
            refine requeue_inv (hc.inv hi1) (by rw [hc.t, c]; exact ht0) ?_ h
            rw [hid]; exact hc.free f
      · -- retracting
        rename_i w' hs
        split at h
        · simp only [Except.ok.injEq, Prod.mk.injEq] at h
          rw [← h.1]; exact hi0
        · split at h
          · rename_i t0 target trv hfind
            simp only [Except.ok.injEq, Prod.mk.injEq] at h
            rw [← h.1]
            have hmem := rd_mem_of_find hfind
            have ht0' : t0 = id := by simpa using hmem.2
            subst ht0'
            show Inv4 (putTask s0.tasks _) s0.workers (s0.redirects.filter _) s0.rqs
            have ht1 : findTask s0.tasks ({ task with state := .assigned target trv } : Task).id = some task := by
              rw [hid]; exact ht
            refine Inv4.put hi0 ht1 rfl rfl (by simp [hs, isWaiting]) (by simp) ?_
            have := hi0.ls.mv_resolve_redirect (t' := { task with state := .assigned target trv }) ht1 hs
              (by simpa [hid] using hmem.1) rfl
            simpa [hid] using this
          · rename_i hnone
            simp only [requeue] at h
            refine requeue_inv hi0 ht0 ?_ h
            rw [hid]
            exact hi0.ls.free_of_retracting (w0 := w') (by show stOf s.tasks id = _; rw [hst, hs])
              (fun x v => rd_find_none hnone x v)
      · -- multi-node: refused by its root worker before the start was reported
        rename_i ws hs
        split at h
        · cases h
        · split at h
          · simp only [Except.ok.injEq, Prod.mk.injEq] at h
            rw [← h.1]; exact hi0
          · split at h
            · simp only [Except.ok.injEq, Prod.mk.injEq] at h
              rw [← h.1]; exact hi0
            · split at h
              · simp only [Except.ok.injEq, Prod.mk.injEq] at h
                rw [← h.1]; exact hi0
              · split at h
                · cases h
                · rename_i s1 hr
                  obtain ⟨a, b', c, d, e, f⟩ := resetMnChecked_ls _ _ _ _ hi0.ls hr
                  have hi1 : Inv s1 := by unfold Inv; rw [c, e]; exact hi0.workers a
                  simp only [requeue] at h
                  refine requeue_inv hi1 (by rw [c]; exact ht0) ?_ h
                  rw [hid]
                  unfold Free
                  rw [d] at a b' ⊢
                  exact free_after_reset hi0.ls a (by show stOf s.tasks id = _; rw [hst, hs]) b' f
      · cases h
      · cases h
      · cases h

theorem requestEnabled_inv {s s' : State} {w rq rv : Nat} (hi : Inv s) (h : s.requestEnabled w rq rv = .ok s') :
    Inv s' := by
  obtain ⟨wk, wk', hfw, hf, rfl⟩ := withWorker_spec h
  cases hf
  exact hi.setWorker_same (wk := wk) (by simpa [findWorker_some_id hfw] using hfw) rfl rfl rfl

/-! ### `on_task_update` -/

/-- the state change of one update of the loop of `on_task_update` -/
def State.updateState (s : State) (w : Nat) (u : Update) (rets : List (List TaskId)) : M (State × List (List TaskId)) :=
  match u with
  | .finished t =>
    match s.taskFinished w t with
    | .error e => .error e
    | .ok (s1, _, _) => .ok (s1, rets)
  | .failed t =>
    match s.taskFailed (some w) t (if (s.task? t).isSome then rets.headD [] else []) with
    | .error e => .error e
    | .ok (s1, _) => .ok (s1, if (s.task? t).isSome then rets.tail else rets)
  | .running t rv | .runningPrefilled t rv =>
    match s.taskRunning w t rv with
    | .error e => .error e
    | .ok (s1, _) => .ok (s1, rets)
  | .reject t rv =>
    match s.taskReject w t rv with
    | .error e => .error e
    | .ok (s1, _, _) => .ok (s1, rets)
  | .enable rq rv =>
    match s.requestEnabled w rq rv with
    | .error e => .error e
    | .ok s1 => .ok (s1, rets)

/-- the loop of `on_task_update` applies `updateState` to the updates one after the other -/
theorem updateLoop_cons {s : State} {w : Nat} {u : Update} {rest : List Update} {rets : List (List TaskId)} {out : Out}
    {need : Bool} {res : State × Out × Bool × List (List TaskId)}
    (h : s.updateLoop w (u :: rest) rets out need = .ok res) :
    ∃ s1 rets' out' need', s.updateState w u rets = .ok (s1, rets') ∧ s1.updateLoop w rest rets' out' need' = .ok res := by
  cases u with
  | finished t =>
    simp only [State.updateLoop] at h
    simp only [State.updateState]
    split at h
    · cases h
    · rename_i s1 o n h1
      exact ⟨s1, rets, _, _, by rw [h1], h⟩
  | failed t =>
    simp only [State.updateLoop] at h
    simp only [State.updateState]
    by_cases hk : (s.task? t).isSome
    · simp only [hk, if_true] at h ⊢
      split at h
      · cases h
      · rename_i s1 o h1
        exact ⟨s1, _, _, _, by rw [h1], h⟩
    · simp only [hk, Bool.false_eq_true, if_false] at h ⊢
      split at h
      · cases h
      · rename_i s1 o h1
        exact ⟨s1, _, _, _, by rw [h1], h⟩
  | running t rv =>
    simp only [State.updateLoop] at h
    simp only [State.updateState]
    split at h
    · cases h
    · rename_i s1 o h1
      exact ⟨s1, rets, _, _, by rw [h1], h⟩
  | runningPrefilled t rv =>
    simp only [State.updateLoop] at h
    simp only [State.updateState]
    split at h
    · cases h
    · rename_i s1 o h1
      exact ⟨s1, rets, _, _, by rw [h1], h⟩
  | reject t rv =>
    simp only [State.updateLoop] at h
    simp only [State.updateState]
    split at h
    · cases h
    · rename_i s1 o n h1
      exact ⟨s1, rets, _, _, by rw [h1], h⟩
  | enable rq rv =>
    simp only [State.updateLoop] at h
    simp only [State.updateState]
    split at h
    · cases h
    · rename_i s1 h1
      exact ⟨s1, rets, _, _, by rw [h1], h⟩

/-- a per-update side condition holds for every update of the message, each evaluated in the state in which the
reactor processes it -/
def UpdatesOk (P : State → Nat → Update → Prop) (s : State) (w : Nat) : List Update → List (List TaskId) → Prop
  | [], _ => True
  | u :: rest, rets =>
    P s w u ∧
    match s.updateState w u rets with
    | .ok (s1, rets') => UpdatesOk P s1 w rest rets'
    | .error _ => True

theorem UpdatesOk.mono {P Q : State → Nat → Update → Prop} (hpq : ∀ s w u, P s w u → Q s w u) {w : Nat}
    (us : List Update) : ∀ (s : State) (rets : List (List TaskId)), UpdatesOk P s w us rets → UpdatesOk Q s w us rets := by
  induction us with
  | nil => intro _ _ _; trivial
  | cons u rest ih =>
    intro s rets h
    simp only [UpdatesOk] at h ⊢
    refine ⟨hpq _ _ _ h.1, ?_⟩
    have h2 := h.2
    split
    · rename_i s1 rets' he
      rw [he] at h2
      exact ih _ _ h2
    · trivial

instance UpdatesOk.decidable (P : State → Nat → Update → Prop) [∀ s w u, Decidable (P s w u)] (w : Nat) :
    ∀ (us : List Update) (s : State) (rets : List (List TaskId)), Decidable (UpdatesOk P s w us rets)
  | [], _, _ => isTrue trivial
  | u :: rest, s, rets => by
    simp only [UpdatesOk]
    cases h : s.updateState w u rets with
    | error e => simp only; infer_instance
    | ok r =>
      obtain ⟨s1, rets'⟩ := r
      simp only
      have := UpdatesOk.decidable P w rest s1 rets'
      infer_instance

/-- the stage-2 side condition on one update -/
def UpdProto (s : State) (w : Nat) : Update → Prop
  | .reject t rv => RejectOk s w t rv
  | _ => True

instance (s : State) (w : Nat) (u : Update) : Decidable (UpdProto s w u) := by
  cases u <;> simp only [UpdProto] <;> infer_instance

theorem updateState_inv {s s1 : State} {w : Nat} {u : Update} {rets rets' : List (List TaskId)}
    (hi : Inv s) (hok : UpdProto s w u) (h : s.updateState w u rets = .ok (s1, rets')) : Inv s1 := by
  cases u with
  | finished t =>
    simp only [State.updateState] at h
    split at h
    · cases h
    · rename_i h1; cases h; exact taskFinished_inv hi h1
  | failed t =>
    simp only [State.updateState] at h
    split at h
    · cases h
    · rename_i h1; cases h; exact taskFailed_inv hi h1
  | running t rv =>
    simp only [State.updateState] at h
    split at h
    · cases h
    · rename_i h1; cases h; exact taskRunning_inv hi h1
  | runningPrefilled t rv =>
    simp only [State.updateState] at h
    split at h
    · cases h
    · rename_i h1; cases h; exact taskRunning_inv hi h1
  | reject t rv =>
    simp only [State.updateState] at h
    split at h
    · cases h
    · rename_i h1; cases h; exact taskReject_inv hi hok h1
  | enable rq rv =>
    simp only [State.updateState] at h
    split at h
    · cases h
    · rename_i h1; cases h; exact requestEnabled_inv hi h1

theorem updateLoop_inv (us : List Update) (s s' : State) (w : Nat) (rets rets' : List (List TaskId)) (o o' : Out)
    (n n' : Bool) (hi : Inv s) (hok : UpdatesOk UpdProto s w us rets)
    (h : s.updateLoop w us rets o n = .ok (s', o', n', rets')) : Inv s' := by
  induction us generalizing s rets o n with
  | nil => simp only [State.updateLoop] at h; cases h; exact hi
  | cons u rest ih =>
    obtain ⟨s1, rets1, out1, need1, h1, h2⟩ := updateLoop_cons h
    simp only [UpdatesOk, h1] at hok
    exact ih _ _ _ _ (updateState_inv hi hok.1 h1) hok.2 h2

theorem taskUpdate_inv {s s' : State} {w : Nat} {us : List Update} {rets : List (List TaskId)} {o : Out}
    (hi : Inv s) (hok : UpdatesOk UpdProto s w us rets) (h : s.taskUpdate w us rets = .ok (s', o)) : Inv s' := by
  simp only [State.taskUpdate] at h
  split at h
  · cases h
  · rename_i s1 out need rets' h1
    cases h
    have := updateLoop_inv _ _ _ _ _ _ _ _ _ _ hi hok h1
    split
    · exact (CoreEq.ask s1).inv this
    · exact this

/-! ### `on_retract_response` -/

theorem retractLoop_inv (ids : List TaskId) (s s' : State) (w : Nat) (acc acc' : List (Nat × TaskId × Nat))
    (hi : Inv s) (h : s.retractLoop w ids acc = .ok (s', acc')) : Inv s' := by
  induction ids generalizing s acc with
  | nil => simp only [State.retractLoop] at h; cases h; exact hi
  | cons id rest ih =>
    simp only [State.retractLoop, State.task?] at h
    split at h
    · exact ih _ _ hi h
    · rename_i task ht
      have hid : task.id = id := findTask_some_id ht
      have hst := stOf_of_find ht
      split at h
      · exact ih _ _ hi h
      · rename_i hs
        simp only [ne_eq, Decidable.not_not] at hs
        split at h
        · rename_i t0 target trv hfind
          refine ih _ _ ?_ h
          have hmem := rd_mem_of_find hfind
          have ht0' : t0 = id := by simpa using hmem.2
          subst ht0'
          show Inv4 (putTask s.tasks _) s.workers (s.redirects.filter _) s.rqs
          have ht1 : findTask s.tasks ({ task with state := .assigned target trv } : Task).id = some task := by
            rw [hid]; exact ht
          refine hi.put ht1 rfl rfl (by simp [hs, isWaiting]) (by simp) ?_
          have := hi.ls.mv_resolve_redirect (t' := { task with state := .assigned target trv }) ht1 hs
            (by simpa [hid] using hmem.1) rfl
          simpa [hid] using this
        · rename_i hnone
          refine ih _ _ ?_ h
          show Inv4 (putTask s.tasks _) s.workers s.redirects s.rqs
          have ht1 : findTask s.tasks ({ task with state := .waiting 0 } : Task).id = some task := by
            rw [hid]; exact ht
          refine hi.put ht1 rfl rfl (by simp [isWaiting]) (by simp) (hi.ls.mv_free ht1 ?_)
          show Free3 _ _ task.id
          rw [hid]
          exact hi.ls.free_of_retracting (w0 := w) (by rw [hst, hs]) (fun x v => rd_find_none hnone x v)

theorem retractResponse_inv {s s' : State} {w : Nat} {ids : List TaskId} {o : Out}
    (hi : Inv s) (h : s.retractResponse w ids = .ok (s', o)) : Inv s' := by
  simp only [State.retractResponse] at h
  split at h
  · cases h
  · rename_i s1 items h1
    split at h
    · cases h
    · cases h; exact retractLoop_inv _ _ _ _ _ _ hi h1

end HqModel.Core
