import HqModel.Lemmas.CoreNoPanicQSched
/-!
C09 progress, queue correspondence `NpQ`, part B2: the multi-node half of a scheduling round.

Status (everything below is proved, no `sorry`):

* `npq_frame` : `NpQ D R` depends only on tasks, queues and redirects.
* `setMnAll_npq` : `set_mn_task` on a worker set changes worker records only.
* `takeOne_eq` : the queue after `take_one` is `takeFromFirst … 1`.
* `mapMnSet_npq` : one multi-node placement (take_one, `setMnAll`, Waiting 0 → RunningMultiNode).
* `mapMnSets_npq`, `mapMn_npq` : the folds.
-/
namespace HqModel.Core.NPD

open NP

theorem npq_frame {D : TaskId → Prop} {R : List TaskId} {s s' : State} (h : NpQ D R s) (ht : s'.tasks = s.tasks)
    (hq : s'.queues = s.queues) (hr : s'.redirects = s.redirects) : NpQ D R s' := by
  have htk : ∀ x, s'.task? x = s.task? x := fun x => by simp only [State.task?, ht]
  refine ⟨?_, ?_, ?_, ?_, ?_, h.rnd, ?_⟩
  · rw [hq]; exact h.wf
  · rw [hq]; intro p hp e he id hid
    exact (h.rg p hp e he id hid).of_eq (htk id) (fun x hx _ => hr ▸ hx)
  · rw [hq]; exact h.pnd
  · rw [hq]; intro p hp pp ts hpf id hid
    exact (h.pg p hp pp ts hpf id hid).of_eq (htk id)
  · rw [ht]; intro t htm hp hr' hd
    exact (h.pin t htm hp hr' hd).of_queues hq
  · intro id hid
    obtain ⟨t, w, h1, h2⟩ := (h.rpre id hid).elim
    exact IsPrefilled.intro ((htk id).trans h1) h2

theorem setMnAll_npq {D : TaskId → Prop} {R : List TaskId} (ws : List Nat) (s s' : State) (id : TaskId) (first : Bool)
    (h : NpQ D R s) (hs : setMnAll s id ws first = .ok s') : NpQ D R s' := by
  obtain ⟨a, b, _, d, _⟩ := setMnAll_spec _ _ _ _ _ hs
  exact npq_frame h a d b

/-- `take_one` is `takeFromFirst … 1` -/
theorem takeOne_eq (p : Int) (id : TaskId) (ids' : List TaskId) (more : List (Int × List TaskId)) :
    (if ids'.isEmpty then more else (p, ids') :: more) = (takeFromFirst ((p, id :: ids') :: more) 1).1 := rfl

theorem takeOne_snd (p : Int) (id : TaskId) (ids' : List TaskId) (more : List (Int × List TaskId)) :
    (takeFromFirst ((p, id :: ids') :: more) 1).2 = [id] := rfl

/-- one multi-node placement -/
theorem mapMnSet_npq {D : TaskId → Prop} {s s2 : State} {rq : Nat} {q : Queue} {p : Int} {id : TaskId}
    {ids' : List TaskId} {more : List (Int × List TaskId)} {ws : List Nat} {task : Task}
    (h : NpQ D [] s) (hn : (taskIds s.tasks).Nodup) (hq : s.queues[rq]? = some q)
    (hready : q.ready = (p, id :: ids') :: more)
    (hset : setMnAll { s with queues := s.queues.set rq { q with ready := if ids'.isEmpty then more else (p, ids') :: more } }
      id ws true = .ok s2)
    (hgt : s2.getTask id = .ok task) :
    NpQ D [] (s2.setTask { task with state := .runningMN ws }) := by
  have hwf := h.wf' hq
  have hqn := h.qIds_nodup hq
  have hI := takeFromFirst_ids q.ready 1
  rw [hready, takeOne_snd, ← takeOne_eq] at hI
  have e1 : ({ q with ready := if ids'.isEmpty then more else (p, ids') :: more } : Queue).ready =
      (takeFromFirst q.ready 1).1 := by rw [hready]; rfl
  have hpf : pfIds ({ q with ready := if ids'.isEmpty then more else (p, ids') :: more } : Queue) = pfIds q := rfl
  have h1 : NpQ D [] { s with queues := s.queues.set rq { q with ready := if ids'.isEmpty then more else (p, ids') :: more } } := by
    refine npq_queue_set h hn hq ?_ ?_ ?_ ?_ ?_ (fun _ hx => hx)
    · rw [e1]; exact takeFromFirst_wf hwf 1
    · intro x hx; rw [e1] at hx; exact takeFromFirst_rest_sub hx
    · rw [hpf]; exact h.pnd' hq
    · intro pp ts hh; exact ⟨ts, hh, fun _ hx => hx⟩
    · intro x hx; exact Or.inl (hpf ▸ hx)
  have hno : NoQ { s with queues := s.queues.set rq { q with ready := if ids'.isEmpty then more else (p, ids') :: more } } id := by
    refine noQ_of_set h hq ?_ ?_
    · rw [qIds_eq', hready, rIds_cons]; simp
    · rw [qIds_eq', hready, hI, List.append_assoc, List.nodup_append] at hqn
      intro hm
      rw [qIds_eq', hpf] at hm
      exact hqn.2.2 id (by simp) id hm rfl
  obtain ⟨a, b, _, d, _⟩ := setMnAll_spec _ _ _ _ _ hset
  have h2 : NpQ D [] s2 := npq_frame h1 a d b
  have hno2 : NoQ s2 id := hno.of_queues d
  have hft : s2.task? id = some task := getTask_spec hgt
  have hid : task.id = id := findTask_some_id hft
  have hn2 : (taskIds s2.tasks).Nodup := by rw [a]; exact hn
  refine (npq_out (s' := s2.setTask { task with state := .runningMN ws }) h2 ?_ rfl hno2 ?_ ?_ (fun _ hx _ => hx)).mono
    (fun _ hx => hx.1)
  · rw [setTask_ids]; exact hn2
  · intro x hx
    rw [task?_setTask]
    simp only [hid, hx, if_false]
  · intro t ht'
    rw [task?_setTask] at ht'
    simp only [hid, if_true, hft, Option.map_some, Option.some.injEq] at ht'
    subst ht'
    rintro ⟨w0, e⟩; cases e

theorem mapMnSets_npq (sets : List (List Nat)) {D : TaskId → Prop} (s s' : State) (rq : Nat) (acc acc' : List TaskId)
    (h : NpQ D [] s) (hn : (taskIds s.tasks).Nodup) (hp : s.mapMnSets rq sets acc = .ok (s', acc')) : NpQ D [] s' := by
  induction sets generalizing s acc with
  | nil => simp only [State.mapMnSets] at hp; cases hp; exact h
  | cons ws rest ih =>
    simp only [State.mapMnSets] at hp
    split at hp
    · cases hp
    · rename_i q hq
      split at hp
      · cases hp
      · rename_i p ids more hready
        split at hp
        · cases hp
        · rename_i id ids'
          split at hp
          · cases hp
          · rename_i s2 hset
            split at hp
            · cases hp
            · rename_i task hgt
              split at hp
              · cases hp
              · have h3 := mapMnSet_npq h hn hq hready hset hgt
                have a := setMnAll_tasks _ _ _ _ _ hset
                refine ih _ _ h3 ?_ hp
                rw [setTask_ids, a]; exact hn

theorem mapMn_npq (es : List MnEntry) {D : TaskId → Prop} (s s' : State) (acc acc' : List TaskId)
    (h : NpQ D [] s) (hn : (taskIds s.tasks).Nodup) (hp : s.mapMn es acc = .ok (s', acc')) : NpQ D [] s' := by
  induction es generalizing s acc with
  | nil => simp only [State.mapMn] at hp; cases hp; exact h
  | cons e rest ih =>
    simp only [State.mapMn] at hp
    split at hp
    · cases hp
    · rename_i s1 acc1 h1
      have hn1 : (taskIds s1.tasks).Nodup := by rw [mapMnSets_ids _ _ _ _ _ _ h1]; exact hn
      exact ih s1 acc1 (mapMnSets_npq _ _ _ _ _ _ h hn h1) hn1 hp

end HqModel.Core.NPD
