import HqModel.Sched.Box
/-!
Lemmas for C15, part 3: optimality over ALL feasible integer points reduces to the finite integer box.

`optimal_of_box`: if every variable of the MILP is bounded (it is 0/1, or some `≤` row with non-negative
coefficients bounds it), every row only mentions variables of the MILP, `x` is feasible and no point of the box
is feasible with a larger objective, then `x` is `Optimal`. The two side conditions and the enumeration are
decidable, so on a concrete instance the kernel evaluates them (`c15_counterexample`).
-/
namespace HqModel.Sched

def Milp.varList (m : Milp) : List Var := m.vars.map (·.1)

/-- every term of every row is a variable of the MILP -/
def Milp.closed (m : Milp) : Bool := m.rows.all fun r => r.terms.all fun t => m.varList.contains t.1

/-- all assignments over `vs` within the bounds, as association lists -/
def enumBox (ub : Var → Nat) : List Var → List (List (Var × Nat))
  | [] => [[]]
  | v :: vs => (List.range (ub v + 1)).flatMap fun k => (enumBox ub vs).map fun l => (v, k) :: l

/-- `ub` bounds every variable in every feasible point: it is 0/1, or a `≤` row bounds it -/
def boundedBy (m : Milp) (ub : Var → Nat) : Bool :=
  m.varList.all fun v =>
    (v.isBool && decide (1 ≤ ub v)) ||
    m.rows.any fun r => !r.ge && r.terms.any fun t => decide (t.1 = v) && decide (0 < t.2) && decide (r.bound / t.2 ≤ ub v)

theorem holdsB_iff (r : Row) (x : Assign) : r.holdsB x = true ↔ r.holds x := by
  unfold Row.holdsB Row.holds
  split <;> simp

theorem feasibleB_iff (m : Milp) (x : Assign) : feasibleB m x = true ↔ Feasible m x := by
  simp only [feasibleB, Feasible, Bool.and_eq_true, List.all_eq_true, holdsB_iff, Bool.or_eq_true,
    Bool.not_eq_true', decide_eq_true_eq]
  constructor
  · rintro ⟨h1, h2⟩
    refine ⟨h1, fun v hv hb => ?_⟩
    rcases h2 v hv with h | h
    · rw [h] at hb; cases hb
    · exact h
  · rintro ⟨h1, h2⟩
    refine ⟨h1, fun v hv => ?_⟩
    cases hb : v.1.isBool
    · left; rfl
    · right; exact h2 v hv hb

theorem term_le_sum {x : Assign} : ∀ {terms : List (Var × Nat)} {t : Var × Nat}, t ∈ terms →
    t.2 * x t.1 ≤ (terms.map fun t => t.2 * x t.1).sum
  | [], _, h => by simp at h
  | a :: rest, t, h => by
    simp only [List.map_cons, List.sum_cons]
    rcases List.mem_cons.mp h with rfl | h
    · omega
    · have := term_le_sum (x := x) h; omega

theorem le_of_boundedBy {m : Milp} {ub : Var → Nat} (hb : boundedBy m ub = true) {y : Assign}
    (hy : Feasible m y) {v : Var} (hv : v ∈ m.varList) : y v ≤ ub v := by
  simp only [boundedBy, List.all_eq_true, Bool.or_eq_true, Bool.and_eq_true, decide_eq_true_eq,
    List.any_eq_true, Bool.not_eq_true'] at hb
  rcases hb v hv with ⟨hbool, h1⟩ | ⟨r, hr, hge, t, ht, ⟨htv, hpos⟩, hdiv⟩
  · simp only [Milp.varList, List.mem_map] at hv
    obtain ⟨e, he, rfl⟩ := hv
    have := hy.2 e he hbool
    omega
  · have hrow := hy.1 r hr
    simp only [Row.holds, hge, Bool.false_eq_true, ↓reduceIte, Row.lhs] at hrow
    have h1 := term_le_sum (x := y) ht
    rw [htv] at h1
    have h2 : t.2 * y v ≤ r.bound := by omega
    have h3 : y v ≤ r.bound / t.2 := by
      rw [Nat.le_div_iff_mul_le hpos, Nat.mul_comm]; exact h2
    omega

theorem lhs_congr {r : Row} {x y : Assign} (h : ∀ t ∈ r.terms, x t.1 = y t.1) : r.lhs x = r.lhs y := by
  unfold Row.lhs
  congr 1
  exact List.map_congr_left fun t ht => by rw [h t ht]

theorem feasible_congr {m : Milp} (hc : m.closed = true) {x y : Assign} (h : ∀ v ∈ m.varList, x v = y v) :
    Feasible m x → Feasible m y := by
  simp only [Milp.closed, List.all_eq_true, List.contains_iff_mem] at hc
  rintro ⟨h1, h2⟩
  refine ⟨fun r hr => ?_, fun v hv hb => ?_⟩
  · have := h1 r hr
    have e : r.lhs x = r.lhs y := lhs_congr fun t ht => h _ (hc r hr t ht)
    unfold Row.holds at this ⊢
    rw [← e]; exact this
  · rw [← h _ (List.mem_map.mpr ⟨v, hv, rfl⟩)]; exact h2 v hv hb

theorem objective_congr {m : Milp} {x y : Assign} (h : ∀ v ∈ m.varList, x v = y v) :
    objective m x = objective m y := by
  unfold objective
  congr 1
  exact List.map_congr_left fun v hv => by rw [h _ (List.mem_map.mpr ⟨v, hv, rfl⟩)]

theorem assignOf_tabulate (y : Assign) : ∀ (vs : List Var) (v : Var), v ∈ vs →
    assignOf (vs.map fun v => (v, y v)) v = y v
  | [], _, h => by simp at h
  | a :: rest, v, h => by
    by_cases hav : a = v
    · subst hav; simp [assignOf]
    · have hv : v ∈ rest := by
        rcases List.mem_cons.mp h with h | h
        · exact absurd h.symm hav
        · exact h
      have ih := assignOf_tabulate y rest v hv
      simp only [assignOf, List.map_cons, List.find?_cons, hav, decide_false] at ih ⊢
      exact ih

theorem tabulate_mem_enumBox {ub : Var → Nat} (y : Assign) : ∀ (vs : List Var), (∀ v ∈ vs, y v ≤ ub v) →
    (vs.map fun v => (v, y v)) ∈ enumBox ub vs
  | [], _ => by simp [enumBox]
  | a :: rest, h => by
    simp only [enumBox, List.map_cons, List.mem_flatMap, List.mem_range, List.mem_map]
    refine ⟨y a, ?_, _, tabulate_mem_enumBox y rest fun v hv => h v (by simp [hv]), rfl⟩
    have := h a (by simp); omega

/-- optimality over the box is optimality over all integer points -/
theorem optimal_of_box {m : Milp} {ub : Var → Nat} {x : Assign} (hc : m.closed = true)
    (hb : boundedBy m ub = true) (hx : feasibleB m x = true)
    (hall : (enumBox ub m.varList).all (fun l =>
      !feasibleB m (assignOf l) || decide (objective m (assignOf l) ≤ objective m x)) = true) :
    Optimal m x := by
  refine ⟨(feasibleB_iff m x).mp hx, fun y hy => ?_⟩
  have hmem := tabulate_mem_enumBox (ub := ub) y m.varList fun v hv => le_of_boundedBy hb hy hv
  have hagree : ∀ v ∈ m.varList, y v = assignOf (m.varList.map fun v => (v, y v)) v :=
    fun v hv => (assignOf_tabulate y m.varList v hv).symm
  have hf := feasible_congr hc hagree hy
  rw [List.all_eq_true] at hall
  have := hall _ hmem
  simp only [Bool.or_eq_true, Bool.not_eq_true', decide_eq_true_eq] at this
  rcases this with h | h
  · rw [(feasibleB_iff _ _).mpr hf] at h; cases h
  · rw [objective_congr hagree]; exact h

end HqModel.Sched
