import HqModel.Lemmas.SysWInv
import HqModel.Lemmas.SysProj
/-!
`WInv` is inductive over `SysW.step`, part 1: the steps of the workers, and the generic form of a server action
(`sysStep_inv`).
-/
namespace HqModel.SysW
open HqModel HqModel.Core

/-! ### congruences -/

theorem Pipe.congr {c c' : Core.State} {U : List TaskId} {x x' : WState} {t : TaskId} (h : Pipe c U x t)
    (hv : view c' x'.id t = view c x.id t) (hs : comps t x'.s2w = comps t x.s2w) (hp : pend t x'.w2s = pend t x.w2s)
    (hw : x'.w = x.w) : Pipe c' U x' t := by
  unfold Pipe at h ⊢
  rw [hv, hs, hp, hw]; exact h

theorem view_ask (c : Core.State) (w : Nat) (t : TaskId) : view (ask c) w t = view c w t :=
  view_congr (a := c) (b := ask c) rfl w t rfl

/-! ### a step of a worker -/

theorem free_init (rqs : List (List Nat)) (rem : Option Nat) (n : Nat) : Free (Worker.init rqs rem) n :=
  ⟨fun ⟨r, hr, _⟩ => (by cases hr), fun _ => rfl⟩

theorem setW_mem_pipe {c : Core.State} {U : List TaskId} {ws : List WState} {x' : WState}
    (hall : ∀ y ∈ ws, ∀ t, Pipe c U y t) (hx' : ∀ t, Pipe c U x' t) : ∀ y ∈ setW ws x', ∀ t, Pipe c U y t := by
  intro y hy t
  rcases mem_setW hy with rfl | ⟨hm, _⟩
  · exact hx' t
  · exact hall y hm t

/-- `workerStep` on the record `x0` of `s.workers` whose queue lost the message `m?` -/
theorem workerStep_inv {s s' : State} {x0 x : WState} {op : Worker.Op} {o : Out} (hi : WInv s) (hx0 : x0 ∈ s.workers)
    (hid : x.id = x0.id) (hw : x.w = x0.w) (hw2s : x.w2s = x0.w2s)
    (hcm : ∀ t, ∃ cm, comps t x0.s2w = cm ++ comps t x.s2w ∧
      match op with
      | .compute es => itemsW (enc t) es = cm
      | _ => cm = [])
    (h : workerStep s x op = .ok (s', o)) : WInv s' := by
  simp only [workerStep] at h
  split at h
  · cases h
  · rename_i w' outs hs
    cases h
    have hk : x.w.bkeys.Nodup := by rw [hw]; exact hi.bkeys x0 hx0
    refine ⟨hi.coupled, hi.sub, ?_, ?_, ?_⟩
    · show ((setW s.workers (emit x w' outs)).map (·.id)).Nodup
      rw [setW_ids]; exact hi.nodup
    · intro y hy
      rcases mem_setW hy with rfl | ⟨hm, _⟩
      · exact step_bkeys hk hs
      · exact hi.bkeys y hm
    · refine setW_mem_pipe hi.pipe fun t => ?_
      obtain ⟨cm, hc1, hc2⟩ := hcm t
      refine Pipe.worker (x := x0) (cm := cm) (outs := outs) (hi.pipe x0 hx0 t) (by show x.id = _; exact hid) ?_ ?_ ?_
      · exact hc1
      · show x.w2s ++ _ = _; rw [hw2s]
      · show WStep cm _ x0.w w' (enc t)
        rw [← hw]
        exact wstep_of_step hk hc2 hs

/-! ### a server action -/

theorem mem_ids_stOf {ts : List Core.Task} {t : TaskId} (h : stOf ts t ≠ none) : t ∈ taskIds ts := by
  cases hs : stOf ts t with
  | none => exact (h hs).elim
  | some st => exact mem_ids_of_stOf hs

/-- the generic form: `ws` = the worker records the action leaves; `hpipe` = every pipeline survives -/
theorem sysStep_inv {s s' : State} {sop : Sys.Op} {ws : List WState} {o : Out} (hi : WInv s) (hok : Sys.OpOk s.sys sop)
    (hnd : (ws.map (·.id)).Nodup) (hbk : ∀ x ∈ ws, x.w.bkeys.Nodup)
    (hpipe : ∀ sys' so, Sys.step s.sys sop = .ok (sys', so) → Sys.Coupled sys' →
      (∀ t ∈ Core.taskIds sys'.core.tasks, t ∈ s.submitted ++ newIds sop so) ∧
      ∀ x ∈ ws, ∀ t, Pipe sys'.core (s.submitted ++ newIds sop so) (route1 x so.core.msgs) t)
    (h : sysStep s sop ws = .ok (s', o)) : WInv s' := by
  simp only [sysStep] at h
  split at h
  · cases h
  · rename_i sys' so hs
    cases h
    have hg := Sys.step_good hi.coupled sop hok
    rw [hs] at hg
    obtain ⟨h1, h2⟩ := hpipe sys' so hs hg
    refine ⟨hg, h1, ?_, ?_, ?_⟩
    · show ((routeMsgs ws so.core.msgs).map (·.id)).Nodup
      rw [routeMsgs_ids]; exact hnd
    · intro y hy
      obtain ⟨x, hx, rfl⟩ := mem_routeMsgs hy
      exact hbk x hx
    · intro y hy t
      obtain ⟨x, hx, rfl⟩ := mem_routeMsgs hy
      exact h2 x hx t

/-- a server action never stops in the job layer -/
theorem sysStep_no_job {s : State} {sop : Sys.Op} {ws : List WState} (hi : WInv s) (hok : Sys.OpOk s.sys sop)
    (site : String) : sysStep s sop ws ≠ .error (.sys (.job site)) := by
  intro h
  simp only [sysStep] at h
  have hg := Sys.step_good hi.coupled sop hok
  split at h
  · rename_i e he
    rw [he] at hg
    cases h
    exact hg
  · cases h

/-- a foreign action on every record: the hypotheses of `Pipe.srv` for all of them -/
theorem pipes_srv {c c' : Core.State} {U U' : List TaskId} {ws : List WState} {msgs : List Core.Msg}
    (hall : ∀ x ∈ ws, ∀ t, Pipe c U x t) (hsub : ∀ t ∈ Core.taskIds c.tasks, t ∈ U) (hsubU : ∀ u ∈ U, u ∈ U')
    (hf : ∀ x ∈ ws, ∀ t, t ∈ U → Foreign (view c x.id t) (cfor x.id t msgs) (view c' x.id t))
    (hfresh : ∀ x ∈ ws, ∀ t, stOf c.tasks t = none →
      (view c' x.id t = .quiet ∨ view c' x.id t = .hot) ∧ cfor x.id t msgs = []) :
    ∀ x ∈ ws, ∀ t, Pipe c' U' (route1 x msgs) t :=
  fun x hx t => (hall x hx t).srv hsubU (fun hne => hsub t (mem_ids_stOf hne)) (hf x hx t) (hfresh x hx t)

/-- unknown before ⇒ hot afterwards, from `Foreign` -/
theorem fresh_of_foreign {c c' : Core.State} {w : Nat} {t : TaskId} {cm : List (Option Nat)}
    (hf : Foreign (view c w t) cm (view c' w t)) (hnone : stOf c.tasks t = none) :
    view c' w t = .quiet ∨ view c' w t = .hot :=
  .inr (hf.1 (view_none hnone))

end HqModel.SysW
