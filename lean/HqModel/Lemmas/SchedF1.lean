import HqModel.Lemmas.SchedQueue
/-!
Lemmas for C15, part 2: consequences of the queue order for placements; fragment F1 (one request class).

`dispatched_prio_ge`: within one request class, every dispatched task has at least the priority of every task
that stays ready — for every solution and every valid placement (no optimality needed).
-/
namespace HqModel.Sched
open HqModel.Core

theorem nodup_map_inj {α β} {f : α → β} : ∀ {l : List α}, (l.map f).Nodup → ∀ {a b}, a ∈ l → b ∈ l → f a = f b → a = b
  | [], _, _, _, ha, _, _ => by simp at ha
  | x :: xs, h, a, b, ha, hb, hab => by
    simp only [List.map_cons, List.nodup_cons, List.mem_map, not_exists, not_and] at h
    rcases List.mem_cons.mp ha with ha1 | ha2
    · rcases List.mem_cons.mp hb with hb1 | hb2
      · rw [ha1, hb1]
      · rw [ha1] at hab; exact absurd hab.symm (h.1 b hb2)
    · rcases List.mem_cons.mp hb with hb1 | hb2
      · rw [hb1] at hab; exact absurd hab (h.1 a ha2)
      · exact nodup_map_inj h.2 ha2 hb2 hab

theorem flatten_eq_map_flat (c : Nat) (q : Ready) :
    flatten c q = (flat q).map fun e => { id := e.2, cls := c, prio := e.1 } := by
  simp [flatten, flat, List.map_flatMap, Function.comp_def]

theorem flat_prio_sorted {ready : List (Int × List TaskId)} (h : ready.Pairwise fun a b => b.1 < a.1) :
    (flat ready).Pairwise fun a b => b.1 ≤ a.1 := by
  induction ready with
  | nil => simp [flat]
  | cons e rest ih =>
    rw [flat_cons, List.pairwise_append]
    have hl := List.pairwise_cons.mp h
    refine ⟨?_, ih hl.2, ?_⟩
    · rw [List.pairwise_map]
      exact List.pairwise_of_forall (by intros; simp)
    · intro a ha b hb
      simp only [List.mem_map] at ha
      obtain ⟨t, _, rfl⟩ := ha
      simp only [flat, List.mem_flatMap, List.mem_map] at hb
      obtain ⟨e', he', t', _, rfl⟩ := hb
      exact Int.le_of_lt (hl.1 e' he')

theorem mem_tasks {inst : Instance} {t : TaskInfo} :
    t ∈ inst.tasks ↔ ∃ c < inst.queues.length, t ∈ flatten c (inst.queue c) := by
  simp [Instance.tasks, List.mem_flatMap]

theorem cls_of_mem_flatten {c : Nat} {q : Ready} {t : TaskInfo} (h : t ∈ flatten c q) : t.cls = c := by
  simp only [flatten, List.mem_flatMap, List.mem_map] at h
  obtain ⟨_, _, _, _, rfl⟩ := h
  rfl

theorem queue_mem {inst : Instance} {c : Nat} (hc : c < inst.queues.length) : inst.queue c ∈ inst.queues := by
  simp only [Instance.queue]
  rw [List.getElem?_eq_getElem hc]
  exact List.getElem_mem hc

/-- the queue order seen from a valid placement: a dispatched task of a class and a task of the same class that
stays ready — the dispatched one has at least the priority of the other -/
theorem dispatched_prio_ge {inst : Instance} (hwf : inst.WF) {x : Assign} {pl : Placement}
    (hv : ValidPlacement inst x pl) {h l : TaskInfo} (hh : h ∈ inst.tasks) (hl : l ∈ inst.tasks)
    (hcls : h.cls = l.cls) (hnd : pl.dispatched h.id = false) (hd : pl.dispatched l.id = true) :
    h.prio ≤ l.prio := by
  obtain ⟨c, hc, hhc⟩ := mem_tasks.mp hh
  obtain ⟨c', hc', hlc⟩ := mem_tasks.mp hl
  have e1 := cls_of_mem_flatten hhc
  have e2 := cls_of_mem_flatten hlc
  have hcc : c' = c := by omega
  subst hcc
  obtain ⟨ids, htake, hiff⟩ := hv.taken c' hc
  -- ids = first n of the queue
  simp only [takeIds] at htake
  split at htake
  · rename_i ready' ids' hq
    simp only [Option.some.injEq] at htake
    subst htake
    obtain ⟨hres, _, hn⟩ := takeFromQueue_spec _ _ _ _ _ _ hq
    simp only [List.nil_append] at hres
    generalize placedCount inst x c' = n at hres hn
    have hlid : l.id ∈ ids' := (hiff l hlc).mp hd
    have hhid : h.id ∉ ids' := fun hin => by
      have := (hiff h hhc).mpr hin
      simp [hnd] at this
    rw [hres] at hlid hhid
    -- l sits in the first n entries, h in the rest
    rw [flatten_eq_map_flat] at hhc hlc
    obtain ⟨eh, heh, rfl⟩ := List.mem_map.mp hhc
    obtain ⟨el, hel, rfl⟩ := List.mem_map.mp hlc
    simp only at hlid hhid ⊢
    obtain ⟨el', hel', hid⟩ := List.mem_map.mp hlid
    -- the entry with l's id is l itself
    have hl' : ({ id := el'.2, cls := c', prio := el'.1 } : TaskInfo) ∈ inst.tasks :=
      mem_tasks.mpr ⟨c', hc, by rw [flatten_eq_map_flat]; exact List.mem_map.mpr ⟨el', List.mem_of_mem_take hel', rfl⟩⟩
    have heq := nodup_map_inj hwf.idsNodup hl' hl (by simpa using hid)
    have hel'' : el' = el := by
      have h1 := congrArg TaskInfo.prio heq
      have h2 := congrArg TaskInfo.id heq
      simp only at h1 h2
      exact Prod.ext h1 h2
    subst hel''
    have heh' : eh ∈ (flat (inst.queue c')).drop n := by
      have : eh ∈ (flat (inst.queue c')).take n ++ (flat (inst.queue c')).drop n := by
        rw [List.take_append_drop]; exact heh
      rcases List.mem_append.mp this with h1 | h1
      · exact absurd (List.mem_map.mpr ⟨eh, h1, rfl⟩) hhid
      · exact h1
    have hs := flat_prio_sorted (hwf.queuesSorted _ (queue_mem hc))
    rw [← List.take_append_drop n (flat (inst.queue c')), List.pairwise_append] at hs
    exact hs.2.2 _ hel' _ heh'
  · simp at htake

/-- if at most one class has ready tasks, all ready tasks have the same class -/
theorem same_cls_of_inF1 {inst : Instance} (hF : inst.inF1 = true) {h l : TaskInfo}
    (hh : h ∈ inst.tasks) (hl : l ∈ inst.tasks) : h.cls = l.cls := by
  obtain ⟨c, hc, hhc⟩ := mem_tasks.mp hh
  obtain ⟨c', hc', hlc⟩ := mem_tasks.mp hl
  rw [cls_of_mem_flatten hhc, cls_of_mem_flatten hlc]
  have m1 : c ∈ inst.readyClasses := by
    simp only [Instance.readyClasses, List.mem_filter, List.mem_range]
    refine ⟨hc, ?_⟩
    cases hq : inst.queue c with
    | nil => rw [hq] at hhc; simp [flatten] at hhc
    | cons _ _ => rfl
  have m2 : c' ∈ inst.readyClasses := by
    simp only [Instance.readyClasses, List.mem_filter, List.mem_range]
    refine ⟨hc', ?_⟩
    cases hq : inst.queue c' with
    | nil => rw [hq] at hlc; simp [flatten] at hlc
    | cons _ _ => rfl
  simp only [Instance.inF1, decide_eq_true_eq] at hF
  match hr : inst.readyClasses, hF, m1, m2 with
  | [], _, m1, _ => simp at m1
  | [a], _, m1, m2 => simp_all
  | _ :: _ :: _, hF, _, _ => simp at hF

/-- F1: one request class — every valid placement of every solution respects the priorities -/
theorem priorityRespecting_of_inF1 {inst : Instance} (hwf : inst.WF) (hF : inst.inF1 = true) {x : Assign}
    {pl : Placement} (hv : ValidPlacement inst x pl) : PriorityRespecting inst pl := by
  intro h hh l hl w _
  cases hvp : violatingPair inst pl h l w with
  | false => rfl
  | true =>
    exfalso
    simp only [violatingPair, Bool.and_eq_true, Bool.not_eq_true', decide_eq_true_eq] at hvp
    obtain ⟨⟨⟨⟨hnd, hon⟩, hlt⟩, _⟩, _⟩ := hvp
    have hd : pl.dispatched l.id = true := by
      simp only [Placement.on, List.contains_iff_mem] at hon
      simp only [Placement.dispatched, List.any_eq_true, decide_eq_true_eq]
      exact ⟨_, hon, rfl⟩
    have := dispatched_prio_ge hwf hv hh hl (same_cls_of_inF1 hF hh hl) hnd hd
    omega

end HqModel.Sched
