import HqModel.Lemmas.JournalPrune2List
/-!
`prune2` commutes with `load_event_file` on the job table (list level), and what follows for
`restore_jobs_and_queues`.
-/
namespace HqModel.Journal

/-- the job table of the pruned side after the record: `jobsStep` on the filtered table gives the filtered table -/
def FiltConcl (live : Nat → Bool) (jobs jobs1 : List (Nat × RJob)) : Option Record → Prop
  | some y => jobsStep (alFilter live jobs) y = .ok (alFilter live jobs1)
  | none => alFilter live jobs1 = alFilter live jobs

theorem jobsStep_filter (lj lw acc : List Nat) (jobs jobs1 : List (Nat × RJob)) (x : Record)
    (hinv : RInvL (fun j => lj.contains j) acc jobs) (hs : jobsStep jobs x = .ok jobs1) :
    FiltConcl (fun j => lj.contains j) jobs jobs1 (prune2Record lj lw acc x) := by
  have single : ∀ j, prune2Record lj lw acc x = (if lj.contains j then some x else none) →
      (∀ jobs, jobsStep jobs x = match jobStep x (alGet jobs j) with
        | .ok o1 => .ok (alPut jobs j o1)
        | .error e => .error e) →
      FiltConcl (fun j => lj.contains j) jobs jobs1 (prune2Record lj lw acc x) := by
    intro j hp hjs
    rw [hjs] at hs
    cases e1 : jobStep x (alGet jobs j) with
    | error e => rw [e1] at hs; cases hs
    | ok o1 =>
      rw [e1] at hs
      simp only [Except.ok.injEq] at hs; subst hs
      rw [hp]
      by_cases hl : lj.contains j = true
      · simp only [hl, if_true, FiltConcl]
        rw [hjs, alGet_filter]
        simp only [hl, if_true, e1, alFilter_put]
      · have hl' : lj.contains j = false := by simpa using hl
        simp only [hl', Bool.false_eq_true, if_false, FiltConcl, alFilter_put]
  have other : prune2Record lj lw acc x = some x ∨ prune2Record lj lw acc x = none →
      (∀ jobs, jobsStep jobs x = .ok jobs) →
      FiltConcl (fun j => lj.contains j) jobs jobs1 (prune2Record lj lw acc x) := by
    intro hp hjs
    rw [hjs] at hs
    simp only [Except.ok.injEq] at hs; subst hs
    rcases hp with hp | hp
    · rw [hp]; exact hjs _
    · rw [hp]; rfl
  have ite_or : ∀ (b : Bool) (y : Record), (if b = true then some y else none) = some y ∨
      (if b = true then some y else none) = none := by
    intro b y; cases b
    · exact Or.inr rfl
    · exact Or.inl rfl
  cases x with
  | submit j c mf d => exact single j rfl (fun _ => rfl)
  | jobOpen j mf => exact single j rfl (fun _ => rfl)
  | jobClose j => exact single j rfl (fun _ => rfl)
  | jobCancel j => exact single j rfl (fun _ => rfl)
  | jobCompleted j => exact single j rfl (fun _ => rfl)
  | taskStarted j t i ws => exact single j rfl (fun _ => rfl)
  | taskFinished j t => exact single j rfl (fun _ => rfl)
  | taskFailed j t => exact single j rfl (fun _ => rfl)
  | tasksCanceled ids =>
    simp only [jobsStep, Except.ok.injEq] at hs; subst hs
    simp only [prune2Record, pruneRecord]
    have hb := alFilter_batch (fun j => lj.contains j) cancelTask ids jobs
    cases hF : ids.filter (fun i => lj.contains i.1) with
    | nil => rw [hF] at hb; simpa [FiltConcl] using hb
    | cons a as =>
      rw [hF] at hb
      simp only [List.isEmpty_cons, Bool.false_eq_true, if_false, FiltConcl, jobsStep, hb]
  | tasksAborted ids =>
    simp only [jobsStep, Except.ok.injEq] at hs; subst hs
    simp only [prune2Record, pruneRecord]
    have hb := alFilter_batch (fun j => lj.contains j) abortTask ids jobs
    cases hF : ids.filter (fun i => lj.contains i.1) with
    | nil => rw [hF] at hb; simpa [FiltConcl] using hb
    | cons a as =>
      rw [hF] at hb
      simp only [List.isEmpty_cons, Bool.false_eq_true, if_false, FiltConcl, jobsStep, hb]
  | workerLost w reason =>
    simp only [jobsStep, Except.ok.injEq] at hs; subst hs
    simp only [prune2Record]
    by_cases hk : (lw.contains w || acc.contains w) = true
    · simp only [hk, if_true, FiltConcl, jobsStep]
      cases reason.isFailure with
      | true => simp only [if_true, alFilter_map]
      | false => simp only [Bool.false_eq_true, if_false]
    · simp only [hk, Bool.false_eq_true, if_false, FiltConcl]
      have hw : ¬ w ∈ acc := by
        intro hmem
        have : acc.contains w = true := by simpa using hmem
        rw [this, Bool.or_true] at hk
        exact hk rfl
      cases reason.isFailure with
      | true =>
        simp only [if_true]
        exact alFilter_map_congr _ _ _ (fun kv hkv hl => increaseCrash_eq_self (hinv kv hkv hl) hw)
      | false => simp only [Bool.false_eq_true, if_false]
  | workerConnected w alloc => exact other (ite_or _ _) (fun _ => rfl)
  | workerOverview w => exact other (ite_or _ _) (fun _ => rfl)
  | serverStart uid => exact other (Or.inl rfl) (fun _ => rfl)
  | serverStop => exact other (Or.inl rfl) (fun _ => rfl)
  | queueCreated q => exact other (Or.inl rfl) (fun _ => rfl)
  | queueRemoved q => exact other (Or.inl rfl) (fun _ => rfl)
  | allocQueued q a => exact other (Or.inl rfl) (fun _ => rfl)
  | allocStarted q a => exact other (Or.inl rfl) (fun _ => rfl)
  | allocFinished q a => exact other (Or.inl rfl) (fun _ => rfl)

/-- the whole journal against its `prune2` version, with the job tables related as lists -/
theorem prune2_fold_full (lj lw : List Nat) : ∀ (J : List Record) (acc : List Nat) (R R' R1 : Restorer),
    PRel2 (fun j => lj.contains j) R R' → R'.jobs = alFilter (fun j => lj.contains j) R.jobs →
    RInvL (fun j => lj.contains j) acc R.jobs → restorerFoldFrom R J = .ok R1 →
    ∃ R1', restorerFoldFrom R' (prune2From lj lw acc J) = .ok R1' ∧ PRel2 (fun j => lj.contains j) R1 R1' ∧
      R1'.jobs = alFilter (fun j => lj.contains j) R1.jobs := by
  intro J
  induction J with
  | nil =>
    intro acc R R' R1 h hl _ hs
    simp only [restorerFoldFrom, Except.ok.injEq] at hs
    subst hs
    exact ⟨R', rfl, h, hl⟩
  | cons x xs ih =>
    intro acc R R' R1 h hl hinv hs
    simp only [restorerFoldFrom] at hs
    cases hx : restorerStep R x with
    | error e => simp [hx] at hs
    | ok R2 =>
      simp only [hx] at hs
      have hjs := restorerStep_jobsStep R R2 x hx
      have hstep := prel2_step h x (prune2Record lj lw acc x) (prune2Record_pruned2 lj lw acc R hinv.toRInv x) hx
      have hfilt := jobsStep_filter lj lw acc R.jobs R2.jobs x hinv hjs
      have hinv2 := rinvL_step lj x hinv hjs
      simp only [prune2From]
      cases hp : prune2Record lj lw acc x with
      | none =>
        rw [hp] at hstep hfilt
        exact ih _ R2 R' R1 hstep (by rw [hl]; exact hfilt.symm) hinv2 hs
      | some y =>
        rw [hp] at hstep hfilt
        obtain ⟨R2', hs', hrel⟩ := hstep
        have hjs' := restorerStep_jobsStep R' R2' y hs'
        rw [hl] at hjs'
        have hl2 : R2'.jobs = alFilter (fun j => lj.contains j) R2.jobs := by
          have := hjs'.symm.trans hfilt
          simpa using this
        obtain ⟨R1', hf, hr⟩ := ih _ R2 R2' R1 hrel hl2 hinv2 hs
        exact ⟨R1', by simp only [restorerFoldFrom, hs']; exact hf, hr⟩

/-- equal job tables stay equal under the same records -/
theorem fold_common_jobs : ∀ (K : List Record) (R R' R1 R1' : Restorer), R'.jobs = R.jobs →
    restorerFoldFrom R K = .ok R1 → restorerFoldFrom R' K = .ok R1' → R1'.jobs = R1.jobs := by
  intro K
  induction K with
  | nil =>
    intro R R' R1 R1' h hs hs'
    simp only [restorerFoldFrom, Except.ok.injEq] at hs hs'
    subst hs; subst hs'; exact h
  | cons x xs ih =>
    intro R R' R1 R1' h hs hs'
    simp only [restorerFoldFrom] at hs hs'
    cases hx : restorerStep R x with
    | error e => simp [hx] at hs
    | ok R2 =>
      cases hx' : restorerStep R' x with
      | error e => simp [hx'] at hs'
      | ok R2' =>
        simp only [hx] at hs
        simp only [hx'] at hs'
        have h1 := restorerStep_jobsStep R R2 x hx
        have h2 := restorerStep_jobsStep R' R2' x hx'
        rw [h, h1] at h2
        simp only [Except.ok.injEq] at h2
        exact ih R2 R2' R1 R1' h2.symm hs hs'

/-! ### `restore_jobs_and_queues` -/

/-- the loop over the jobs does not look at the queues -/
theorem restoreJobsFrom_queues : ∀ (l : List (Nat × RJob)) (acc acc' X : Restored),
    acc'.jobs = acc.jobs → acc'.batches = acc.batches → restoreJobsFrom l acc = .ok X →
    restoreJobsFrom l acc' = .ok { X with queues := acc'.queues } := by
  intro l
  induction l with
  | nil =>
    intro acc acc' X e1 e2 hs
    simp only [restoreJobsFrom, Except.ok.injEq] at hs ⊢
    subst hs
    cases acc'; cases acc
    simp only at e1 e2
    subst e1; subst e2; rfl
  | cons a rest ih =>
    intro acc acc' X e1 e2 hs
    obtain ⟨id, j⟩ := a
    simp only [restoreJobsFrom] at hs ⊢
    cases hr : restoreJob id j with
    | error e => simp [hr] at hs
    | ok v =>
      obtain ⟨rj, bs⟩ := v
      simp only [hr] at hs ⊢
      have := ih _ { acc' with jobs := acc'.jobs ++ [rj], batches := acc'.batches ++ bs } X
        (by simp only [e1]) (by simp only [e2]) hs
      exact this

/-- restorers with the same job table and the same queues restore the same jobs, the same batches and the same
queues (up to the "worker resources known" flag, which is read from `queue_to_worker_resources`) -/
theorem restoreJobs_of_jobs_eq (R R' : Restorer) (X : Restored) (hj : R'.jobs = R.jobs) (hq : R'.queues = R.queues)
    (hs : restoreJobs R = .ok X) :
    ∃ X', restoreJobs R' = .ok X' ∧ X'.jobs = X.jobs ∧ X'.batches = X.batches ∧
      X'.queues.map (·.1) = X.queues.map (·.1) := by
  unfold restoreJobs at hs ⊢
  rw [hj]
  have := restoreJobsFrom_queues R.jobs { queues := R.queues.map fun q => (q.1, (alGet R.queueRes q.1).isSome) }
    { queues := R'.queues.map fun q => (q.1, (alGet R'.queueRes q.1).isSome) } X rfl rfl hs
  refine ⟨_, this, rfl, rfl, ?_⟩
  have hX : X.queues = R.queues.map fun q => (q.1, (alGet R.queueRes q.1).isSome) := by
    have h2 := restoreJobsFrom_queues R.jobs { queues := R.queues.map fun q => (q.1, (alGet R.queueRes q.1).isSome) }
      { queues := R.queues.map fun q => (q.1, (alGet R.queueRes q.1).isSome) } X rfl rfl hs
    rw [hs] at h2
    simp only [Except.ok.injEq] at h2
    exact congrArg Restored.queues h2
  simp only [hX, hq, List.map_map]
  rfl

/-- a decidable sufficient condition for "the live jobs cover the job table" -/
theorem covers_of_keys (jobs : List (Nat × β)) (lj : List Nat)
    (h : (jobs.map (·.1)).all (fun j => lj.contains j) = true) :
    ∀ j, (alGet jobs j).isSome = true → lj.contains j = true := by
  intro j hj
  rw [alGet_isSome_iff] at hj
  exact List.all_eq_true.1 h j hj

end HqModel.Journal
