import HqModel.Lemmas.SchedInv
import HqModel.Lemmas.SchedF1
/-!
Lemmas for C15, part 11: from the per-level counts of the queues (`cnt`, prefix sums `N`) to the counts over the
task list (`above`, `total`) that `BatchesSpec` speaks about; the sorted list of all priorities.
-/
namespace HqModel.Sched

/-! ### `insertDesc` / `prios` -/

theorem mem_insertDesc {p q : Int} : ∀ {l : List Int}, q ∈ insertDesc p l ↔ q = p ∨ q ∈ l
  | [] => by simp [insertDesc]
  | a :: rest => by
    simp only [insertDesc]
    split
    · rename_i h; subst h; simp
    · split
      · simp
      · simp only [List.mem_cons, mem_insertDesc (l := rest)]
        constructor
        · rintro (h | h | h) <;> simp [h]
        · rintro (h | h | h) <;> simp [h]

theorem insertDesc_sorted {p : Int} : ∀ {l : List Int}, l.Pairwise (fun a b => b < a) →
    (insertDesc p l).Pairwise (fun a b => b < a)
  | [], _ => by simp [insertDesc]
  | a :: rest, h => by
    have hh := List.pairwise_cons.mp h
    simp only [insertDesc]
    split
    · exact h
    · rename_i hne
      split
      · rename_i hlt
        refine List.pairwise_cons.mpr ⟨?_, h⟩
        intro b hb
        rcases List.mem_cons.mp hb with rfl | hb
        · exact hlt
        · have := hh.1 b hb; omega
      · rename_i hnlt
        refine List.pairwise_cons.mpr ⟨?_, insertDesc_sorted hh.2⟩
        intro b hb
        rcases mem_insertDesc.mp hb with rfl | hb
        · omega
        · exact hh.1 b hb

theorem foldr_insertDesc_sorted : ∀ (l : List Int), (l.foldr insertDesc []).Pairwise (fun a b => b < a)
  | [] => by simp
  | a :: rest => by simpa using insertDesc_sorted (foldr_insertDesc_sorted rest)

theorem mem_foldr_insertDesc {q : Int} : ∀ {l : List Int}, q ∈ l.foldr insertDesc [] ↔ q ∈ l
  | [] => by simp
  | a :: rest => by simp [mem_insertDesc, mem_foldr_insertDesc (l := rest)]

theorem prios_sorted (inst : Instance) : inst.prios.Pairwise (fun a b => b < a) :=
  foldr_insertDesc_sorted _

theorem prios_nodup (inst : Instance) : inst.prios.Nodup :=
  (prios_sorted inst).imp fun h => by omega

theorem mem_prios {inst : Instance} {p : Int} : p ∈ inst.prios ↔ ∃ q ∈ inst.queues, ∃ e ∈ q, e.1 = p := by
  simp only [Instance.prios, mem_foldr_insertDesc, List.mem_flatMap, List.mem_map]

/-! ### counts -/

theorem cnt_flatten (c : Nat) (p : Int) : ∀ (q : Ready),
    ((flatten c q).filter fun t => decide (t.prio = p)).length = cnt q p
  | [] => by simp [flatten, cnt]
  | e :: rest => by
    have ih := cnt_flatten c p rest
    simp only [flatten, List.flatMap_cons, List.filter_append, List.length_append, cnt] at ih ⊢
    rw [ih]
    congr 1
    by_cases h : e.1 = p
    · simp [h, List.filter_map, Function.comp_def]
    · simp [h, List.filter_map, Function.comp_def]

/-- the tasks of class `c` with property `Q`, counted over all tasks or over the queue of the class -/
theorem filter_tasks_cls (inst : Instance) (c : Nat) (Q : TaskInfo → Bool) :
    (inst.tasks.filter fun t => decide (t.cls = c) && Q t).length =
      ((flatten c (inst.queue c)).filter Q).length := by
  have key : ∀ (cs : List Nat), cs.Nodup →
      ((cs.flatMap fun c' => flatten c' (inst.queue c')).filter fun t => decide (t.cls = c) && Q t).length =
        if c ∈ cs then ((flatten c (inst.queue c)).filter Q).length else 0 := by
    intro cs
    induction cs with
    | nil => intro _; simp
    | cons a rest ih =>
      intro hnd
      have hnd' := List.nodup_cons.mp hnd
      simp only [List.flatMap_cons, List.filter_append, List.length_append, ih hnd'.2]
      by_cases hac : a = c
      · subst hac
        have h1 : ((flatten a (inst.queue a)).filter fun t => decide (t.cls = a) && Q t) =
            (flatten a (inst.queue a)).filter Q := by
          apply List.filter_congr
          intro t ht
          simp [cls_of_mem_flatten ht]
        simp [h1, hnd'.1]
      · have h1 : ((flatten a (inst.queue a)).filter fun t => decide (t.cls = c) && Q t) = [] := by
          rw [List.filter_eq_nil_iff]
          intro t ht
          simp [cls_of_mem_flatten ht, hac]
        have : (c ∈ a :: rest) = (c ∈ rest) := propext
          ⟨fun h => by
            rcases List.mem_cons.mp h with h | h
            · exact absurd h.symm hac
            · exact h, fun h => List.mem_cons_of_mem _ h⟩
        simp only [h1, List.length_nil, Nat.zero_add, this]
  unfold Instance.tasks
  rw [key _ List.nodup_range]
  split
  · rfl
  · rename_i hc
    have : inst.queue c = [] := by
      simp only [List.mem_range, Nat.not_lt] at hc
      simp [Instance.queue, List.getElem?_eq_none hc]
    simp [this, flatten]

theorem cnt_eq_filter (inst : Instance) (c : Nat) (p : Int) :
    cnt (inst.queue c) p = (inst.tasks.filter fun t => decide (t.cls = c) && decide (t.prio = p)).length := by
  rw [filter_tasks_cls inst c fun t => decide (t.prio = p), cnt_flatten]

/-- a nodup list of priorities partitions the tasks -/
theorem N_eq_filter (inst : Instance) (c : Nat) : ∀ (ps : List Int), ps.Nodup →
    N inst c ps = (inst.tasks.filter fun t => decide (t.cls = c) && decide (t.prio ∈ ps)).length
  | [], _ => by
    have : (inst.tasks.filter fun t => decide (t.cls = c) && decide (t.prio ∈ ([] : List Int))) = [] :=
      List.filter_eq_nil_iff.mpr (by simp)
    rw [this]; rfl
  | p :: rest, hnd => by
    have hnd' := List.nodup_cons.mp hnd
    have ih := N_eq_filter inst c rest hnd'.2
    have : N inst c (p :: rest) = cnt (inst.queue c) p + N inst c rest := by simp [N]
    rw [this, ih, cnt_eq_filter]
    generalize inst.tasks = l
    induction l with
    | nil => simp
    | cons t ts iht =>
      simp only [List.filter_cons]
      by_cases hc : t.cls = c
      · by_cases hp : t.prio = p
        · simp [hc, hp, hnd'.1] at iht ⊢
          omega
        · by_cases hr : t.prio ∈ rest
          · simp [hc, hp, hr] at iht ⊢; omega
          · simp [hc, hp, hr] at iht ⊢; omega
      · simp [hc] at iht ⊢; omega

theorem task_prio_mem {inst : Instance} {t : TaskInfo} (ht : t ∈ inst.tasks) : t.prio ∈ inst.prios := by
  obtain ⟨c, hc, htc⟩ := mem_tasks.mp ht
  simp only [flatten, List.mem_flatMap, List.mem_map] at htc
  obtain ⟨e, he, _, _, rfl⟩ := htc
  exact mem_prios.mpr ⟨inst.queue c, queue_mem hc, e, he, rfl⟩

theorem N_total (inst : Instance) (c : Nat) : N inst c inst.prios = total inst c := by
  rw [N_eq_filter inst c _ (prios_nodup inst)]
  unfold total
  congr 1
  apply List.filter_congr
  intro t ht
  simp [task_prio_mem ht]

theorem N_above {inst : Instance} (c : Nat) {pre post : List Int} {p : Int} (h : inst.prios = pre ++ p :: post) :
    N inst c pre = above inst c p := by
  have hs := prios_sorted inst
  rw [h, List.pairwise_append] at hs
  obtain ⟨hs1, hs2, hs3⟩ := hs
  have hnd : pre.Nodup := hs1.imp fun h => by omega
  rw [N_eq_filter inst c pre hnd]
  unfold above
  congr 1
  apply List.filter_congr
  intro t ht
  have hm := task_prio_mem ht
  rw [h] at hm
  have hpost := (List.pairwise_cons.mp hs2).1
  by_cases hc : t.cls = c
  · simp only [hc, decide_true, Bool.true_and, decide_eq_decide]
    constructor
    · intro hin
      exact hs3 _ hin p (by simp)
    · intro hlt
      rcases List.mem_append.mp hm with h1 | h1
      · exact h1
      · rcases List.mem_cons.mp h1 with h2 | h2
        · omega
        · have := hpost _ h2; omega
  · simp [hc]

theorem blockersAtN_eq {inst : Instance} (c : Nat) {pre post : List Int} {p : Int}
    (h : inst.prios = pre ++ p :: post) : blockersAtN inst c pre = blockersAt inst c p := by
  unfold blockersAtN blockersAt
  have : ∀ c', N inst c' pre = above inst c' p := fun c' => N_above c' h
  simp only [this]

theorem exists_task_of_cnt {inst : Instance} {c : Nat} {p : Int} (h : cnt (inst.queue c) p > 0) :
    ∃ t ∈ inst.tasks, t.cls = c ∧ t.prio = p := by
  rw [cnt_eq_filter] at h
  obtain ⟨t, ht⟩ := List.exists_mem_of_length_pos h
  simp only [List.mem_filter, Bool.and_eq_true, decide_eq_true_eq] at ht
  exact ⟨t, ht.1, ht.2.1, ht.2.2⟩

theorem cnt_pos_of_task {inst : Instance} {t : TaskInfo} (ht : t ∈ inst.tasks) :
    cnt (inst.queue t.cls) t.prio > 0 := by
  rw [cnt_eq_filter]
  apply List.length_pos_of_mem (a := t)
  simp [List.mem_filter, ht]

end HqModel.Sched
