import HqModel.Lemmas.CoreMsgReactor
import HqModel.Lemmas.CoreInvSched
/-!
Message-level facts, part 3: one scheduling round.

Inside a round a task record changes only in its state (`SRel`: instance id and crash counter are untouched), and
only a Waiting task changes its class (Waiting / held = Assigned, Prefilled, Retracting / locked). Every id the
round enters into the per-worker update list `m` is *held* from then on; every id entered into the multi-node
list was Waiting 0 when it was taken. The messages are built from those two lists and the final state.
-/
namespace HqModel.Core

/-! ### the per-task relation of a scheduling round -/

structure SRel (t t' : Task) : Prop where
  id : t'.id = t.id
  inst : t'.inst = t.inst
  crashes : t'.crashes = t.crashes
  keep : ¬ isWaiting t.state → ¬ isWaiting t'.state ∧ (locked t'.state ↔ locked t.state) ∧
    (slocked t'.state ↔ slocked t.state)

theorem SRel.refl (t : Task) : SRel t t := ⟨rfl, rfl, rfl, fun h => ⟨h, Iff.rfl, Iff.rfl⟩⟩

theorem SRel.trans {a b c : Task} (h1 : SRel a b) (h2 : SRel b c) : SRel a c := by
  refine ⟨h2.id.trans h1.id, h2.inst.trans h1.inst, h2.crashes.trans h1.crashes, fun hw => ?_⟩
  obtain ⟨x, y, z⟩ := h1.keep hw
  obtain ⟨x', y', z'⟩ := h2.keep x
  exact ⟨x', y'.trans y, z'.trans z⟩

theorem SRel.state (told : Task) (st : TS)
    (h : ¬ isWaiting told.state → ¬ isWaiting st ∧ (locked st ↔ locked told.state) ∧
      (slocked st ↔ slocked told.state)) :
    SRel told { told with state := st } := ⟨rfl, rfl, rfl, h⟩

theorem locked_not_waiting {st : TS} (h : locked st) : ¬ isWaiting st := by cases st <;> simp_all

theorem SRel.toTRel {cr : Prop} {t t' : Task} (h : SRel t t') : TRel False cr t t' :=
  ⟨h.id, Nat.le_of_eq h.inst.symm, Nat.le_of_eq h.crashes.symm, fun f => f.elim,
    fun hl => Or.inl ((h.keep (locked_not_waiting (locked_of_slocked hl))).2.2.mpr hl),
    fun _ => Or.inr (Or.inr (Or.inr (fun f => f.elim))), fun f => f.elim, fun _ => h.crashes⟩

def SEvoL (ts ts' : List Task) : Prop := ∀ t' ∈ ts', ∃ t ∈ ts, SRel t t'
def SEvo (s s' : State) : Prop := SEvoL s.tasks s'.tasks

theorem SEvo.refl (s : State) : SEvo s s := fun t ht => ⟨t, ht, SRel.refl t⟩

theorem SEvo.trans {a b c : State} (h1 : SEvo a b) (h2 : SEvo b c) : SEvo a c := by
  intro t'' ht''
  obtain ⟨t', ht', r2⟩ := h2 t'' ht''
  obtain ⟨t, ht, r1⟩ := h1 t' ht'
  exact ⟨t, ht, r1.trans r2⟩

theorem SEvo.of_tasks {a b : State} (h : b.tasks = a.tasks) : SEvo a b := by
  intro t ht; rw [h] at ht; exact ⟨t, ht, SRel.refl t⟩

theorem SEvo.set {a s : State} {id : TaskId} {told t' : Task} (hts : s.tasks = a.tasks)
    (hf : a.task? id = some told) (hr : SRel told t') : SEvo a (s.setTask t') := by
  intro x hx
  change x ∈ putTask s.tasks t' at hx
  rw [hts] at hx
  rcases mem_putTask hx with h | h
  · subst h; exact ⟨told, findTask_some_mem hf, hr⟩
  · exact ⟨x, h, SRel.refl x⟩

theorem SEvo.evo {cr : Prop} {s s' : State} (h : SEvo s s') : Evo False cr s s' := fun t' ht' => by
  obtain ⟨t, ht, r⟩ := h t' ht'
  exact ⟨t, ht, r.toTRel⟩

theorem SEvo.find {s s' : State} (h : SEvo s s') (hn : (taskIds s.tasks).Nodup)
    {id : TaskId} {t' : Task} (hf : findTask s'.tasks id = some t') :
    ∃ t, findTask s.tasks id = some t ∧ SRel t t' := by
  obtain ⟨t, ht, r⟩ := h t' (findTask_some_mem hf)
  refine ⟨t, ?_, r⟩
  have := mem_find_of_nodup hn ht
  rw [← r.id, findTask_some_id hf] at this
  exact this

theorem findTask_some_of_ids {ts ts' : List Task} (h : taskIds ts' = taskIds ts) {id : TaskId} {t : Task}
    (hf : findTask ts id = some t) : ∃ t', findTask ts' id = some t' := by
  cases hf' : findTask ts' id with
  | some t' => exact ⟨t', rfl⟩
  | none =>
    exfalso
    have h1 := not_mem_of_findTask_none hf'
    rw [h] at h1
    exact h1 (by rw [← findTask_some_id hf]; exact List.mem_map_of_mem (findTask_some_mem hf))

/-- the task `x` is in the map and held: Assigned, Prefilled or Retracting -/
def HeldIn (s : State) (x : TaskId) : Prop :=
  ∃ t, findTask s.tasks x = some t ∧ ¬ isWaiting t.state ∧ ¬ locked t.state

/-- the task `x` is in the map and Waiting -/
def WaitIn (s : State) (x : TaskId) : Prop := ∃ t, findTask s.tasks x = some t ∧ isWaiting t.state

theorem HeldIn.fwd {s s' : State} {x : TaskId} (h : HeldIn s x) (e : SEvo s s') (hn : (taskIds s.tasks).Nodup)
    (hids : taskIds s'.tasks = taskIds s.tasks) : HeldIn s' x := by
  obtain ⟨t, hf, hw, hl⟩ := h
  obtain ⟨t', hf'⟩ := findTask_some_of_ids hids hf
  obtain ⟨t0, hf0, r⟩ := e.find hn hf'
  have : some t0 = some t := hf0.symm.trans hf
  cases this
  obtain ⟨a, b, _⟩ := r.keep hw
  exact ⟨t', hf', a, fun hl' => hl (b.mp hl')⟩

theorem WaitIn.back {s s' : State} {x : TaskId} (h : WaitIn s' x) (e : SEvo s s') (hn : (taskIds s.tasks).Nodup) :
    WaitIn s x := by
  obtain ⟨t', hf', hw⟩ := h
  obtain ⟨t, hf, r⟩ := e.find hn hf'
  refine ⟨t, hf, ?_⟩
  by_cases hw0 : isWaiting t.state
  · exact hw0
  · exact absurd hw (r.keep hw0).1

/-! ### the update list -/

def uIds (u : WUpdate) : List TaskId := u.assigned.map (·.1) ++ u.prefills

/-- all ids that will be named in the single-node compute messages -/
def mIds (m : List WUpdate) : List TaskId := (m.map uIds).flatten

theorem mem_mIds_updAt {m : List WUpdate} {w : Nat} {f : WUpdate → WUpdate} {extra : List TaskId}
    (hf : ∀ u, ∀ x ∈ uIds (f u), x ∈ uIds u ∨ x ∈ extra) {x : TaskId} (hx : x ∈ mIds (updAt m w f)) :
    x ∈ mIds m ∨ x ∈ extra := by
  unfold updAt at hx
  split at hx
  · rename_i hany; clear hany
    induction m with
    | nil => cases hx
    | cons u rest ih =>
      simp only [mIds, List.map_cons, List.flatten_cons, List.mem_append] at hx ⊢
      rcases hx with h | h
      · split at h
        · rcases hf u x h with h1 | h1
          · exact Or.inl (Or.inl h1)
          · exact Or.inr h1
        · exact Or.inl (Or.inl h)
      · rcases ih h with h1 | h1
        · exact Or.inl (Or.inr h1)
        · exact Or.inr h1
  · simp only [mIds, List.map_append, List.flatten_append, List.mem_append, List.map_cons, List.map_nil,
      List.flatten_cons, List.flatten_nil, List.append_nil] at hx ⊢
    rcases hx with h | h
    · exact Or.inl h
    · rcases hf _ x h with h1 | h1
      · simp [uIds] at h1
      · exact Or.inr h1

/-- every id of the update list is held -/
def MH (s : State) (m : List WUpdate) : Prop := ∀ x ∈ mIds m, HeldIn s x

theorem MH.fwd {s s' : State} {m : List WUpdate} (h : MH s m) (e : SEvo s s') (hn : (taskIds s.tasks).Nodup)
    (hids : taskIds s'.tasks = taskIds s.tasks) : MH s' m := fun x hx => (h x hx).fwd e hn hids

theorem MH.nil (s : State) : MH s [] := fun _ h => by simp [mIds] at h

/-! ### single-node placements -/


theorem uIds_assigned (u : WUpdate) (id : TaskId) (v : Nat) :
    ∀ x ∈ uIds { u with assigned := u.assigned ++ [(id, v)] }, x ∈ uIds u ∨ x ∈ [id] := by
  intro x hx
  simp only [uIds, List.map_append, List.map_cons, List.map_nil, List.mem_append, List.mem_singleton] at hx ⊢
  rcases hx with (h | h) | h
  · exact Or.inl (Or.inl h)
  · exact Or.inr h
  · exact Or.inl (Or.inr h)

theorem uIds_prefills (u : WUpdate) (keep : List TaskId) :
    ∀ x ∈ uIds { u with prefills := u.prefills ++ keep }, x ∈ uIds u ∨ x ∈ keep := by
  intro x hx
  simp only [uIds, List.mem_append] at hx ⊢
  rcases hx with h | h | h
  · exact Or.inl (Or.inl h)
  · exact Or.inl (Or.inr h)
  · exact Or.inr h

theorem uIds_retracts (u : WUpdate) (l : List TaskId) :
    ∀ x ∈ uIds { u with retracts := l }, x ∈ uIds u ∨ x ∈ ([] : List TaskId) := fun _ hx => Or.inl hx

theorem placeSnBody_s {s s' : State} {m m' : List WUpdate} {v : Nat} {r : Rq} {id : TaskId} {w : Nat}
    (hn : (taskIds s.tasks).Nodup) (hm : MH s m) (h : s.placeSnBody m v r id w = .ok (s', m')) :
    SEvo s s' ∧ MH s' m' := by
  have hst : taskIds s'.tasks = taskIds s.tasks := placeSnBody_stable h
  simp only [State.placeSnBody] at h
  split at h
  · cases h
  · rename_i s1 h1
    have hts := withWorker_tasks h1
    split at h
    · cases h
    · rename_i task ht
      have ht' : s.task? id = some task := by
        have := getTask_ok ht; unfold State.task? at this ⊢; rw [← hts]; exact this
      have hid : task.id = id := findTask_some_id ht'
      split at h
      · -- waiting → assigned
        rename_i n hs
        cases h
        have e : SEvo s (s1.setTask { task with state := .assigned w v }) :=
          SEvo.set hts ht' (SRel.state task _ (fun hw => absurd (by simp [hs]) hw))
        refine ⟨e, ?_⟩
        intro x hx
        rcases mem_mIds_updAt (extra := [id]) (fun u => uIds_assigned u id v) hx with h2 | h2
        · exact (hm x h2).fwd e hn hst
        · simp only [List.mem_singleton] at h2
          subst h2
          refine ⟨{ task with state := .assigned w v }, ?_, by simp, by simp⟩
          show findTask (putTask s1.tasks _) x = some _
          rw [hts]; exact findTask_putTask_same ht' hid
      · -- retracting: redirect replaced
        rename_i old hs
        have hr : SRel task { task with state := .retracting old } :=
          SRel.state task _ (fun _ => ⟨by simp, by simp [hs], by simp [hs]⟩)
        split at h
        · split at h
          · cases h
          · split at h
            · cases h
            · rename_i s3 h3
              cases h
              have e : SEvo s (s3.setTask { task with state := .retracting old }) :=
                SEvo.set (by have := withWorker_tasks h3; exact this.trans hts) ht' hr
              exact ⟨e, hm.fwd e hn hst⟩
        · cases h
          have e : SEvo s { s1 with redirects := (s1.redirects.filter (·.1 ≠ id)) ++ [(id, w, v)] } := SEvo.of_tasks hts
          exact ⟨e, hm.fwd e hn hst⟩
      · -- prefilled → retracting
        rename_i old hs
        split at h
        · cases h
        · rename_i s2 h2
          split at h
          · cases h
          · cases h
            have e : SEvo s (State.setTask { s2 with redirects := s2.redirects ++ [(id, w, v)] }
                { task with state := .retracting old }) :=
              SEvo.set (by have := withWorker_tasks h2; exact this.trans hts) ht'
                (SRel.state task _ (fun _ => ⟨by simp, by simp [hs], by simp [hs]⟩))
            refine ⟨e, ?_⟩
            intro x hx
            rcases mem_mIds_updAt (extra := []) (fun u => uIds_retracts u _) hx with h3 | h3
            · exact (hm x h3).fwd e hn hst
            · cases h3
      · cases h

theorem placeAll_s (l : List (TaskId × Nat)) (s s' : State) (m m' : List WUpdate) (v : Nat) (r : Rq)
    (hn : (taskIds s.tasks).Nodup) (hm : MH s m) (h : s.placeAll m v r l = .ok (s', m')) : SEvo s s' ∧ MH s' m' := by
  induction l generalizing s m with
  | nil => simp only [State.placeAll] at h; cases h; exact ⟨SEvo.refl _, hm⟩
  | cons p rest ih =>
    obtain ⟨id, w⟩ := p
    simp only [State.placeAll] at h
    split at h
    · cases h
    · rename_i s1 m1 h1
      obtain ⟨a, b⟩ := placeSnBody_s hn hm (placeSn_ok h1).1
      obtain ⟨c, d⟩ := ih _ _ ((placeSn_stable h1).sub.nodup hn) b h
      exact ⟨a.trans c, d⟩

theorem mapSn_s (es : List SnEntry) (s s' : State) (now : Nat) (m m' : List WUpdate)
    (hn : (taskIds s.tasks).Nodup) (hm : MH s m) (h : s.mapSn now m es = .ok (s', m')) : SEvo s s' ∧ MH s' m' := by
  induction es generalizing s m with
  | nil => simp only [State.mapSn] at h; cases h; exact ⟨SEvo.refl _, hm⟩
  | cons e rest ih =>
    simp only [State.mapSn] at h
    split at h
    · cases h
    · split at h
      · cases h
      · split at h
        · cases h
        · split at h
          · cases h
          · rename_i q' htk
            split at h
            · cases h
            · rename_i s2 m2 hp
              obtain ⟨a, b⟩ := placeAll_s _ { s with queues := s.queues.set e.rq q' } _ _ _ _ _ hn hm hp
              have hn2 : (taskIds s2.tasks).Nodup := by rw [placeAll_ids _ _ _ _ _ _ _ hp]; exact hn
              obtain ⟨c, d⟩ := ih _ _ hn2 b h
              exact ⟨SEvo.trans a c, d⟩


/-! ### multi-node placements -/


theorem mapMnSets_s (sets : List (List Nat)) (s s' : State) (rq : Nat) (acc acc' : List TaskId)
    (hn : (taskIds s.tasks).Nodup) (h : s.mapMnSets rq sets acc = .ok (s', acc')) :
    SEvo s s' ∧ ∀ x ∈ acc', x ∈ acc ∨ WaitIn s x := by
  induction sets generalizing s acc with
  | nil => simp only [State.mapMnSets] at h; cases h; exact ⟨SEvo.refl _, fun x hx => Or.inl hx⟩
  | cons ws rest ih =>
    simp only [State.mapMnSets] at h
    split at h
    · cases h
    · rename_i q hq
      split at h
      · cases h
      · rename_i p ids more hr
        split at h
        · cases h
        · rename_i id ids'
          split at h
          · cases h
          · rename_i s2 h2
            have hts : s2.tasks = s.tasks := by have := setMnAll_tasks _ _ _ _ _ h2; exact this
            split at h
            · cases h
            · rename_i task ht
              have ht' : s.task? id = some task := by
                have := getTask_ok ht; unfold State.task? at this ⊢; rw [← hts]; exact this
              split at h
              · cases h
              · rename_i hs
                simp only [ne_eq, Decidable.not_not] at hs
                have e : SEvo s (s2.setTask { task with state := .runningMN ws }) :=
                  SEvo.set hts ht' (SRel.state task _ (fun hw => absurd (by simp [hs]) hw))
                have hn2 : (taskIds (s2.setTask { task with state := .runningMN ws }).tasks).Nodup := by
                  rw [setTask_ids, hts]; exact hn
                obtain ⟨a, b⟩ := ih _ _ hn2 h
                refine ⟨e.trans a, ?_⟩
                intro x hx
                rcases b x hx with h3 | h3
                · rcases List.mem_append.mp h3 with h4 | h4
                  · exact Or.inl h4
                  · simp only [List.mem_singleton] at h4
                    subst h4
                    exact Or.inr ⟨task, ht', by simp [hs]⟩
                · exact Or.inr (h3.back e hn)

theorem mapMn_s (es : List MnEntry) (s s' : State) (acc acc' : List TaskId)
    (hn : (taskIds s.tasks).Nodup) (h : s.mapMn es acc = .ok (s', acc')) :
    SEvo s s' ∧ ∀ x ∈ acc', x ∈ acc ∨ WaitIn s x := by
  induction es generalizing s acc with
  | nil => simp only [State.mapMn] at h; cases h; exact ⟨SEvo.refl _, fun x hx => Or.inl hx⟩
  | cons e rest ih =>
    simp only [State.mapMn] at h
    split at h
    · cases h
    · rename_i s1 acc1 h1
      obtain ⟨a, b⟩ := mapMnSets_s _ _ _ _ _ _ hn h1
      have hn1 : (taskIds s1.tasks).Nodup := by rw [mapMnSets_ids _ _ _ _ _ _ h1]; exact hn
      obtain ⟨c, d⟩ := ih _ _ hn1 h
      refine ⟨a.trans c, ?_⟩
      intro x hx
      rcases d x hx with h3 | h3
      · exact b x h3
      · exact Or.inr (h3.back a hn)

/-! ### proactive filling -/

theorem prefillBack_tasks (rq : Nat) (l : List TaskId) (s s' : State) (keep keep' : List TaskId)
    (h : State.prefillWorker.back rq s l keep = .ok (s', keep')) :
    s'.tasks = s.tasks ∧ ∀ x ∈ keep', x ∈ keep ∨ x ∈ l := by
  induction l generalizing s keep with
  | nil =>
    simp only [State.prefillWorker.back] at h; cases h
    exact ⟨rfl, fun x hx => Or.inl hx⟩
  | cons id rest ih =>
    simp only [State.prefillWorker.back] at h
    split at h
    · cases h
    · split at h
      · split at h
        · cases h
        · rename_i s2 h2
          obtain ⟨a, b⟩ := ih _ _ h
          refine ⟨a.trans (movePrefilledToReady_tasks h2), fun x hx => ?_⟩
          rcases b x hx with h3 | h3
          · exact Or.inl h3
          · exact Or.inr (List.mem_cons_of_mem _ h3)
      · obtain ⟨a, b⟩ := ih _ _ h
        refine ⟨a, fun x hx => ?_⟩
        rcases b x hx with h3 | h3
        · rcases List.mem_append.mp h3 with h4 | h4
          · exact Or.inl h4
          · simp only [List.mem_singleton] at h4; subst h4; exact Or.inr List.mem_cons_self
        · exact Or.inr (List.mem_cons_of_mem _ h3)

theorem prefillMark_s (w : Nat) (l : List TaskId) (s s' : State) (hn : (taskIds s.tasks).Nodup)
    (h : State.prefillWorker.mark w s l = .ok s') : SEvo s s' ∧ ∀ x ∈ l, HeldIn s' x := by
  induction l generalizing s with
  | nil => simp only [State.prefillWorker.mark] at h; cases h; exact ⟨SEvo.refl _, fun _ hx => by cases hx⟩
  | cons id rest ih =>
    have hids := prefillMark_ids _ _ _ _ h
    simp only [State.prefillWorker.mark] at h
    split at h
    · cases h
    · rename_i t ht
      have ht' := getTask_ok ht
      have hid : t.id = id := findTask_some_id ht'
      split at h
      · rename_i n hs
        split at h
        · cases h
        · rename_i s2 h2
          have hts : s2.tasks = putTask s.tasks { t with state := .prefilled w } := by
            have := withWorker_tasks h2; exact this
          have e : SEvo s s2 := by
            have := SEvo.set (s := s) (t' := { t with state := .prefilled w }) rfl ht'
              (SRel.state t _ (fun hw => absurd (by simp [hs]) hw))
            unfold SEvo at this ⊢; rw [hts]; exact this
          have hid2 : taskIds s2.tasks = taskIds s.tasks := by rw [hts, taskIds_putTask]
          have hn2 : (taskIds s2.tasks).Nodup := hid2 ▸ hn
          obtain ⟨a, b⟩ := ih _ hn2 h
          refine ⟨e.trans a, ?_⟩
          intro x hx
          rcases List.mem_cons.mp hx with h3 | h3
          · subst h3
            have hh : HeldIn s2 x := ⟨{ t with state := .prefilled w }, by
              rw [hts]; exact findTask_putTask_same ht' hid, by simp, by simp⟩
            exact hh.fwd a hn2 (hids.trans hid2.symm)
          · exact b x h3
      · cases h



theorem prefillWorker_s {s s' : State} {m m' : List WUpdate} {rq size w : Nat}
    (hn : (taskIds s.tasks).Nodup) (hm : MH s m) (h : s.prefillWorker m rq size w = .ok (s', m')) :
    SEvo s s' ∧ MH s' m' := by
  have hst : taskIds s'.tasks = taskIds s.tasks := prefillWorker_stable h
  simp only [State.prefillWorker] at h
  split at h
  · cases h
  · rename_i q hq
    split at h
    · cases h
    · rename_i p ids more hr
      split at h
      · cases h
      · rename_i pf hpf
        split at h
        · cases h
        · rename_i s2 keep hb
          obtain ⟨hts2, _⟩ := prefillBack_tasks _ _ _ _ _ _ hb
          have hts2' : s2.tasks = s.tasks := hts2
          split at h
          · cases h
          · rename_i s3 hmk
            cases h
            have hn2 : (taskIds s2.tasks).Nodup := hts2' ▸ hn
            obtain ⟨a, b⟩ := prefillMark_s _ _ _ _ hn2 hmk
            have e : SEvo s s' := (SEvo.of_tasks hts2').trans a
            refine ⟨e, ?_⟩
            intro x hx
            rcases mem_mIds_updAt (extra := keep) (fun u => uIds_prefills u keep) hx with h3 | h3
            · exact (hm x h3).fwd e hn hst
            · exact b x h3

theorem prefillWorkers_s (ws : List Nat) (s s' : State) (m m' : List WUpdate) (rq size : Nat)
    (hn : (taskIds s.tasks).Nodup) (hm : MH s m) (h : s.prefillWorkers m rq size ws = .ok (s', m')) :
    SEvo s s' ∧ MH s' m' := by
  induction ws generalizing s m with
  | nil => simp only [State.prefillWorkers] at h; cases h; exact ⟨SEvo.refl _, hm⟩
  | cons w rest ih =>
    simp only [State.prefillWorkers] at h
    split at h
    · cases h
    · rename_i s1 m1 h1
      obtain ⟨a, b⟩ := prefillWorker_s hn hm h1
      obtain ⟨c, d⟩ := ih _ _ ((prefillWorker_stable h1).sub.nodup hn) b h
      exact ⟨a.trans c, d⟩

theorem proactive_s (n : Nat) (s s' : State) (m m' : List WUpdate) (orders : List (Nat × List Nat)) (top : Int)
    (rq : Nat) (hn : (taskIds s.tasks).Nodup) (hm : MH s m)
    (h : s.proactive m orders top n rq = .ok (s', m')) : SEvo s s' ∧ MH s' m' := by
  induction n generalizing s m rq with
  | zero => simp only [State.proactive] at h; cases h; exact ⟨SEvo.refl _, hm⟩
  | succ k ih =>
    simp only [State.proactive] at h
    repeat' (split at h)
    all_goals first
      | (cases h; done)
      | (cases h; exact ⟨SEvo.refl _, hm⟩)
      | exact ih _ _ _ hn hm h
      | (rename_i s1 m1 h1
         obtain ⟨a, b⟩ := prefillWorkers_s _ _ _ _ _ _ _ hn hm h1
         have hn1 : (taskIds s1.tasks).Nodup := by rw [prefillWorkers_ids _ _ _ _ _ _ _ h1]; exact hn
         obtain ⟨c, d⟩ := ih _ _ _ hn1 b h
         exact ⟨a.trans c, d⟩)

/-! ### the messages of a round -/

theorem computeList_spec (s : State) (l : List (TaskId × Option Nat)) (res : List (TaskId × Nat × Option Nat × List Nat))
    (h : computeList s l = .ok res) :
    ∀ x ∈ res, ∃ y ∈ l, ∃ t, findTask s.tasks y.1 = some t ∧ (x.1, x.2.1) = (t.id, t.inst) := by
  induction l generalizing res with
  | nil => simp only [computeList] at h; cases h; intro x hx; cases hx
  | cons y rest ih =>
    obtain ⟨id, rv⟩ := y
    simp only [computeList] at h
    split at h
    · cases h
    · rename_i t ht
      split at h
      · cases h
      · rename_i l' hl'
        cases h
        intro x hx
        rcases List.mem_cons.mp hx with h1 | h1
        · subst h1; exact ⟨(id, rv), List.mem_cons_self, t, getTask_ok ht, rfl⟩
        · obtain ⟨y', hy', r⟩ := ih _ hl' x h1
          exact ⟨y', List.mem_cons_of_mem _ hy', r⟩

theorem msgsOfAll_spec (s : State) (m : List WUpdate) (ms : List Msg) (h : msgsOfAll s m = .ok ms) :
    ∀ p ∈ sends ms, ∃ x ∈ mIds m, ∃ t, findTask s.tasks x = some t ∧ p = (t.id, t.inst) := by
  induction m generalizing ms with
  | nil => simp only [msgsOfAll] at h; cases h; intro p hp; cases hp
  | cons u rest ih =>
    simp only [msgsOfAll] at h
    split at h
    · cases h
    · rename_i l hl
      split at h
      · cases h
      · rename_i ms' hms
        cases h
        intro p hp
        simp only [sends_append, List.mem_append] at hp
        have hrest : ∀ x ∈ mIds rest, x ∈ mIds (u :: rest) := by
          intro x hx; simp only [mIds, List.map_cons, List.flatten_cons, List.mem_append]; exact Or.inr hx
        rcases hp with (hp | hp) | hp
        · split at hp <;> simp at hp
        · split at hp
          · simp at hp
          · simp only [sends_cons, sendsOf_compute, sends_nil, List.append_nil, List.mem_map] at hp
            obtain ⟨x, hx, rfl⟩ := hp
            obtain ⟨y, hy, t, hf, e⟩ := computeList_spec _ _ _ hl x hx
            refine ⟨y.1, ?_, t, hf, e⟩
            simp only [mIds, List.map_cons, List.flatten_cons, List.mem_append, uIds]
            left
            simp only [List.mem_append, List.mem_map] at hy
            rcases hy with ⟨a, ha, rfl⟩ | ⟨a, ha, rfl⟩
            · exact Or.inr ha
            · exact Or.inl (List.mem_map.mpr ⟨a, ha, rfl⟩)
        · obtain ⟨x, hx, r⟩ := ih _ hms p hp
          exact ⟨x, hrest x hx, r⟩

theorem mnMsgs_spec (s : State) (l : List TaskId) (ms : List Msg) (h : mnMsgs s l = .ok ms) :
    ∀ p ∈ sends ms, ∃ x ∈ l, ∃ t, findTask s.tasks x = some t ∧ p = (t.id, t.inst) ∧ ∃ ws, t.state = .runningMN ws := by
  induction l generalizing ms with
  | nil => simp only [mnMsgs] at h; cases h; intro p hp; cases hp
  | cons id rest ih =>
    simp only [mnMsgs] at h
    split at h
    · cases h
    · rename_i t ht
      split at h
      · rename_i root ws hs
        split at h
        · cases h
        · rename_i ms' hms
          cases h
          intro p hp
          simp only [sends_cons, sendsOf_compute, List.map_cons, List.map_nil, List.mem_append, List.mem_singleton,
            computeOne] at hp
          rcases hp with hp | hp
          · exact ⟨id, List.mem_cons_self, t, getTask_ok ht, hp, _, hs⟩
          · obtain ⟨x, hx, r⟩ := ih _ hms p hp
            exact ⟨x, List.mem_cons_of_mem _ hx, r⟩
      · cases h

/-- sorting the assigned lists does not change the ids -/
theorem mem_insertByPrio (prio : TaskId → Int) (x : TaskId × Nat) (l : List (TaskId × Nat)) (y : TaskId × Nat)
    (h : y ∈ insertByPrio prio x l) : y = x ∨ y ∈ l := by
  induction l with
  | nil => simp only [insertByPrio, List.mem_singleton] at h; exact Or.inl h
  | cons z zs ih =>
    simp only [insertByPrio] at h
    split at h
    · rcases List.mem_cons.mp h with h1 | h1
      · exact Or.inr (h1 ▸ List.mem_cons_self)
      · rcases ih h1 with h2 | h2
        · exact Or.inl h2
        · exact Or.inr (List.mem_cons_of_mem _ h2)
    · rcases List.mem_cons.mp h with h1 | h1
      · exact Or.inl h1
      · exact Or.inr h1

theorem mem_sortByPrio (prio : TaskId → Int) (l : List (TaskId × Nat)) (y : TaskId × Nat)
    (h : y ∈ sortByPrio prio l) : y ∈ l := by
  unfold sortByPrio at h
  have : ∀ (acc : List (TaskId × Nat)), y ∈ l.foldl (fun acc x => insertByPrio prio x acc) acc → y ∈ acc ∨ y ∈ l := by
    clear h
    induction l with
    | nil => intro acc h; exact Or.inl h
    | cons x xs ih =>
      intro acc h
      simp only [List.foldl_cons] at h
      rcases ih (insertByPrio prio x acc) h with h1 | h1
      · rcases mem_insertByPrio _ _ _ _ h1 with h2 | h2
        · exact Or.inr (h2 ▸ List.mem_cons_self)
        · exact Or.inl h2
      · exact Or.inr (List.mem_cons_of_mem _ h1)
  rcases this [] h with h1 | h1
  · cases h1
  · exact h1

theorem mIds_sorted (prio : TaskId → Int) (m : List WUpdate) (x : TaskId)
    (h : x ∈ mIds (m.map fun u => { u with assigned := sortByPrio prio u.assigned })) : x ∈ mIds m := by
  induction m with
  | nil => exact h
  | cons u rest ih =>
    simp only [mIds, List.map_cons, List.flatten_cons, List.mem_append] at h ⊢
    rcases h with h1 | h1
    · left
      simp only [uIds, List.mem_append, List.mem_map] at h1 ⊢
      rcases h1 with ⟨a, ha, rfl⟩ | h1
      · exact Or.inl ⟨a, mem_sortByPrio _ _ _ ha, rfl⟩
      · exact Or.inr h1
    · exact Or.inr (ih h1)


/-! ### the round -/


/-- emission read off the post-state, or (for a task that is locked afterwards) off the pre-state -/
theorem Tr.of_post' {cr : Prop} {s s' : State} {l : List (TaskId × Nat)} (e : Evo False cr s s')
    (hn : (taskIds s'.tasks).Nodup)
    (hp : ∀ p ∈ l, ∃ t', findTask s'.tasks p.1 = some t' ∧ t'.inst = p.2 ∧
      (¬ locked t'.state ∨ ∃ t ∈ s.tasks, t.id = p.1 ∧ ¬ locked t.state ∧ t.inst ≤ p.2)) :
    Tr False s l s' := by
  refine ⟨?_, ?_, ?_⟩
  · intro p hpl
    obtain ⟨t', hf, hi, hl⟩ := hp p hpl
    rcases hl with hl | ⟨t, ht, hid, hnl, hle⟩
    · obtain ⟨t, ht, r⟩ := e t' (findTask_some_mem hf)
      exact ⟨t, ht, r.id.symm.trans (findTask_some_id hf), hi ▸ r.inst, fun f => f.elim, fun f => f.elim⟩
    · exact ⟨t, ht, hid, hle, fun f => f.elim, fun f => f.elim⟩
  · intro p hpl t'' ht'' hid
    obtain ⟨t', hf, hi, _⟩ := hp p hpl
    have := mem_find_of_nodup hn ht''
    rw [hid, hf] at this
    cases this
    exact Nat.le_of_eq hi.symm
  · unfold Mono
    refine List.Pairwise.imp_of_mem (R := fun _ _ => True) ?_ (List.pairwise_of_forall (fun _ _ => trivial))
    intro p q hp1 hq1 _ hpq
    obtain ⟨t1, hf1, hi1, _⟩ := hp p hp1
    obtain ⟨t2, hf2, hi2, _⟩ := hp q hq1
    rw [hpq, hf2] at hf1
    cases hf1
    omega

/-- **one scheduling round**: task records change only in their state; every `(task, instance)` named in a compute
message is the current instance of a task that was not locked when the round started, and that is not Waiting
when the round ends -/
theorem schedule_fx {cr : Prop} {s s' : State} {sol : Solution} {o : Out} (hn : (taskIds s.tasks).Nodup)
    (h : s.schedule sol = .ok (s', o)) :
    SEvo s s' ∧ Tr False s (sends o.msgs) s' ∧ starts o.cbs = [] ∧
    (∀ p ∈ sends o.msgs, ∃ t', findTask s'.tasks p.1 = some t' ∧ ¬ isWaiting t'.state) ∧
    ∀ p ∈ sends o.msgs, ∃ t ∈ s.tasks, t.id = p.1 ∧ t.inst ≤ p.2 ∧ ¬ locked t.state := by
  simp only [State.schedule] at h
  split at h
  · cases h
  · rename_i s1 m1 h1
    obtain ⟨e1, mh1⟩ := mapSn_s _ _ _ _ _ _ hn (MH.nil s) h1
    have id1 := mapSn_ids _ _ _ _ _ _ h1
    have hn1 : (taskIds s1.tasks).Nodup := id1 ▸ hn
    split at h
    · cases h
    · rename_i s2 mnTasks h2
      obtain ⟨e2, hw2⟩ := mapMn_s _ _ _ _ _ hn1 h2
      have id2 := mapMn_ids _ _ _ _ _ h2
      have hn2 : (taskIds s2.tasks).Nodup := id2 ▸ hn1
      have mh2 : ∀ prio : TaskId → Int, MH s2 (m1.map fun u => { u with assigned := sortByPrio prio u.assigned }) :=
        fun prio x hx => (mh1 x (mIds_sorted prio _ _ hx)).fwd e2 hn1 id2
      split at h
      · cases h
      · rename_i s3 m3 h3
        have h3' : SEvo s2 s3 ∧ MH s3 m3 ∧ taskIds s3.tasks = taskIds s2.tasks := by
          split at h3
          · cases h3; exact ⟨SEvo.refl _, mh2 _, rfl⟩
          · obtain ⟨a, b⟩ := proactive_s _ _ _ _ _ _ _ _ hn2 (mh2 _) h3
            exact ⟨a, b, proactive_ids _ _ _ _ _ _ _ _ h3⟩
        obtain ⟨e3, mh3, id3⟩ := h3'
        have hn3 : (taskIds s3.tasks).Nodup := id3 ▸ hn2
        have e : SEvo s s3 := (e1.trans e2).trans e3
        split at h
        · cases h
        · rename_i msgs hmsgs
          split at h
          · cases h
          · rename_i mm hmm
            cases h
            -- what every sent pair is
            have hall : ∀ p ∈ sends (msgs ++ mm), ∃ t', findTask s3.tasks p.1 = some t' ∧ t'.inst = p.2 ∧
                ¬ isWaiting t'.state ∧
                (¬ locked t'.state ∨ ∃ t ∈ s.tasks, t.id = p.1 ∧ ¬ locked t.state ∧ t.inst ≤ p.2) := by
              intro p hp
              simp only [sends_append, List.mem_append] at hp
              rcases hp with hp | hp
              · obtain ⟨x, hx, t, hf, rfl⟩ := msgsOfAll_spec _ _ _ hmsgs p hp
                obtain ⟨t2, hf2, hw, hl⟩ := mh3 x hx
                have : some t = some t2 := hf.symm.trans hf2
                cases this
                exact ⟨t, by rw [findTask_some_id hf]; exact hf, rfl, hw, Or.inl hl⟩
              · obtain ⟨x, hx, t, hf, rfl, ws, hs⟩ := mnMsgs_spec _ _ _ hmm p hp
                have hx1 : WaitIn s1 x := by
                  rcases hw2 x hx with h4 | h4
                  · cases h4
                  · exact h4
                obtain ⟨t0, hf0, hw0⟩ := hx1.back e1 hn
                obtain ⟨t0', hf0', r⟩ := e.find hn hf
                have : some t0 = some t0' := hf0.symm.trans hf0'
                cases this
                refine ⟨t, by rw [findTask_some_id hf]; exact hf, rfl, by simp [hs], Or.inr ?_⟩
                exact ⟨t0, findTask_some_mem hf0, (findTask_some_id hf0).trans (findTask_some_id hf).symm,
                  not_locked_of_waiting hw0, Nat.le_of_eq r.inst.symm⟩
            refine ⟨e, ?_, rfl, ?_, ?_⟩
            · refine Tr.of_post' (cr := cr) (s' := { s3 with needSched := false }) e.evo hn3 ?_
              intro p hp
              obtain ⟨t', a, b, _, d⟩ := hall p hp
              exact ⟨t', a, b, d⟩
            · intro p hp
              obtain ⟨t', a, _, c, _⟩ := hall p hp
              exact ⟨t', a, c⟩
            · -- no sent task was locked when the round started
              intro p hp
              obtain ⟨t', a, b, c, d⟩ := hall p hp
              rcases d with d | ⟨t, ht, hid, hnl, hle⟩
              · obtain ⟨t, ht, r⟩ := e t' (findTask_some_mem a)
                refine ⟨t, ht, r.id.symm.trans (findTask_some_id a), by rw [← b, r.inst]; exact Nat.le_refl _, ?_⟩
                intro hl
                exact d ((r.keep (locked_not_waiting hl)).2.1.mpr hl)
              · exact ⟨t, ht, hid, hle, hnl⟩


end HqModel.Core
