import HqModel.Lemmas.StreamCodec
import HqModel.Lemmas.StreamIndex
/-!
Byte-level lemmas for M8 Stream: what the chunk scanner sees on (a prefix of) a file body produced by the
writer, and what `read_buffer` returns at the recorded positions.
-/
namespace HqModel.Stream

theorem parseChunks_ok {pos : Nat} {bs : Bytes} {hd : ChunkHeader} {rest : Bytes} (h : decHdr bs = .ok hd rest) :
    parseChunks pos bs =
      (⟨hd, pos + (bs.length - rest.length)⟩ ::
        (parseChunks (pos + (bs.length - rest.length) + hd.size) (rest.drop hd.size)).1,
       (parseChunks (pos + (bs.length - rest.length) + hd.size) (rest.drop hd.size)).2) := by
  rw [parseChunks]
  split
  · rename_i hd' rest' h'
    rw [h] at h'
    simp only [Dec.ok.injEq] at h'
    obtain ⟨rfl, rfl⟩ := h'
    rfl
  · rename_i h'; rw [h] at h'; simp at h'
  · rename_i h'; rw [h] at h'; simp at h'

theorem parseChunks_eof {pos : Nat} {bs : Bytes} (h : decHdr bs = .eof) : parseChunks pos bs = ([], false) := by
  rw [parseChunks]
  split
  · rename_i h'; rw [h] at h'; simp at h'
  · rfl
  · rename_i h'; rw [h] at h'; simp at h'

theorem decHdr_nil : decHdr [] = .eof := by
  simp [decHdr, decFields, hdrPreds, decVarint]

/-- the records of a chunk list whose first byte is at absolute offset `p` -/
def recsOf (p : Nat) : List Chunk → List Rec
  | [] => []
  | c :: cs => ⟨c.hdr, p + (encHdr c.hdr).length⟩ :: recsOf (p + c.bytes.length) cs

/-- number of leading chunks whose *header* lies completely inside the first `k` bytes of the body -/
def nHdr (k : Nat) : List Chunk → Nat
  | [] => 0
  | c :: cs => if (encHdr c.hdr).length ≤ k then nHdr (k - c.bytes.length) cs + 1 else 0

theorem chunksBytes_cons (c : Chunk) (cs : List Chunk) :
    chunksBytes (c :: cs) = encHdr c.hdr ++ (c.data ++ chunksBytes cs) := by
  simp [chunksBytes, Chunk.bytes]

/-- The scanner on the first `k` bytes of a body: it sees exactly the chunks whose header is complete, with
the right positions, and stops quietly (no decode error) — whatever `k` is. -/
theorem parseChunks_take (cs : List Chunk) (hv : ∀ c ∈ cs, c.hdr.Valid) (hw : ∀ c ∈ cs, c.WF) (p k : Nat) :
    parseChunks p ((chunksBytes cs).take k) = (recsOf p (cs.take (nHdr k cs)), false) := by
  induction cs generalizing p k with
  | nil => simp [chunksBytes, parseChunks_eof decHdr_nil, recsOf]
  | cons c cs ih =>
    have v := hv c (by simp)
    have w : c.hdr.size = c.data.length := hw c (by simp)
    rw [chunksBytes_cons]
    by_cases hk : (encHdr c.hdr).length ≤ k
    · rw [List.take_append, List.take_of_length_le hk]
      have hd := decHdr_encHdr v (List.take (k - (encHdr c.hdr).length) (c.data ++ chunksBytes cs))
      rw [parseChunks_ok hd]
      have hl : (encHdr c.hdr ++ List.take (k - (encHdr c.hdr).length) (c.data ++ chunksBytes cs)).length -
          (List.take (k - (encHdr c.hdr).length) (c.data ++ chunksBytes cs)).length = (encHdr c.hdr).length := by
        simp only [List.length_append]; omega
      rw [hl, List.drop_take, w, List.drop_left]
      have hb : c.bytes.length = (encHdr c.hdr).length + c.data.length := by simp [Chunk.bytes]
      have ih' := ih (fun c hc => hv c (by simp [hc])) (fun c hc => hw c (by simp [hc]))
        (p + (encHdr c.hdr).length + c.data.length) (k - (encHdr c.hdr).length - c.data.length)
      rw [ih']
      simp only [nHdr, hk, if_true, List.take_succ_cons, recsOf, hb]
      simp only [Nat.add_assoc, Nat.sub_sub]
    · have hk' : k < (encHdr c.hdr).length := by omega
      rw [List.take_append_of_le_length (by omega)]
      rw [parseChunks_eof (decHdr_take_encHdr v k hk')]
      simp [nHdr, hk, recsOf]

theorem nHdr_full (cs : List Chunk) : nHdr (chunksBytes cs).length cs = cs.length := by
  induction cs with
  | nil => rfl
  | cons c cs ih =>
    rw [chunksBytes_cons]
    have hb : c.bytes.length = (encHdr c.hdr).length + c.data.length := by simp [Chunk.bytes]
    simp only [nHdr, List.length_append, hb]
    rw [if_pos (by omega)]
    have : (encHdr c.hdr).length + (c.data.length + (chunksBytes cs).length) -
        ((encHdr c.hdr).length + c.data.length) = (chunksBytes cs).length := by omega
    rw [this, ih]
    rfl

theorem nHdr_le (k : Nat) (cs : List Chunk) : nHdr k cs ≤ cs.length := by
  induction cs generalizing k with
  | nil => simp [nHdr]
  | cons c cs ih =>
    simp only [nHdr]
    split
    · have := ih (k - c.bytes.length); simp only [List.length_cons]; omega
    · omega

/-! ## reading back -/

theorem readAt_take_of_le {file : Bytes} {K pos n : Nat} (h : pos + n ≤ K) (hf : pos + n ≤ file.length) :
    readAt (file.take K) pos n = some ((file.drop pos).take n) := by
  have : pos + n ≤ (file.take K).length := by simp only [List.length_take]; omega
  simp only [readAt, this, if_true, List.drop_take, List.take_take, Option.some.injEq]
  congr 1
  omega

theorem readAt_mid (pre d post : Bytes) (K : Nat) (h : pre.length + d.length ≤ K) :
    readAt ((pre ++ (d ++ post)).take K) pre.length d.length = some d := by
  rw [readAt_take_of_le h (by simp only [List.length_append]; omega)]
  simp

def ciOf (r : Rec) : ChunkInfo := ⟨r.pos, r.hdr.size % 4294967296⟩

/-- Reading, from the first `K` bytes of the file, the chunks selected by `q` (a test on the header) at the
positions the scanner recorded returns their data, concatenated in file order — provided each selected
chunk lies inside the first `K` bytes. (`post`: whatever follows the chunk list in the file.) -/
theorem readChunks_recs (q : ChunkHeader → Bool) (file : Bytes) (K : Nat) (cs : List Chunk) (pre post : Bytes)
    (hfile : file = pre ++ (chunksBytes cs ++ post))
    (hw : ∀ c ∈ cs, c.WF) (hs : ∀ c ∈ cs, c.hdr.size < 4294967296)
    (hK : ∀ ce ∈ cs.zip (chunkEnds pre.length cs), q ce.1.hdr = true → ce.2 ≤ K) :
    readChunks (file.take K) (((recsOf pre.length cs).filter fun r => q r.hdr).map ciOf) =
      some ((cs.filter fun c => q c.hdr).flatMap (·.data)) := by
  induction cs generalizing pre with
  | nil => simp [recsOf, readChunks]
  | cons c cs ih =>
    have w : c.hdr.size = c.data.length := hw c (by simp)
    have sz := hs c (by simp)
    have hb : c.bytes.length = (encHdr c.hdr).length + c.data.length := by simp [Chunk.bytes]
    have hfile' : file = (pre ++ c.bytes) ++ (chunksBytes cs ++ post) := by
      rw [hfile, chunksBytes_cons]; simp [Chunk.bytes]
    have ih' := ih (pre ++ c.bytes) hfile' (fun c hc => hw c (by simp [hc])) (fun c hc => hs c (by simp [hc]))
      (by
        intro ce hce hq
        apply hK ce _ hq
        simp only [chunkEnds, List.zip_cons_cons, List.mem_cons]
        right
        simpa [List.length_append] using hce)
    simp only [List.length_append] at ih'
    simp only [recsOf]
    by_cases hq : q c.hdr = true
    · have hend : pre.length + c.bytes.length ≤ K := by
        apply hK (c, pre.length + c.bytes.length) _ hq
        simp [chunkEnds]
      simp only [List.filter_cons, hq, if_true, List.map_cons, readChunks, ih', List.flatMap_cons]
      have hr : readAt (file.take K) (ciOf ⟨c.hdr, pre.length + (encHdr c.hdr).length⟩).pos
          (ciOf ⟨c.hdr, pre.length + (encHdr c.hdr).length⟩).size = some c.data := by
        simp only [ciOf, w, Nat.mod_eq_of_lt (w ▸ sz)]
        have e : file = (pre ++ encHdr c.hdr) ++ (c.data ++ (chunksBytes cs ++ post)) := by
          rw [hfile, chunksBytes_cons]; simp
        have := readAt_mid (pre ++ encHdr c.hdr) c.data (chunksBytes cs ++ post) K
          (by simp only [List.length_append]; omega)
        rw [← e] at this
        simpa [List.length_append] using this
      rw [hr]
    · simp only [List.filter_cons, hq, Bool.false_eq_true, if_false, ih']

/-! ## which chunks survive a cut -/

theorem chunkEnds_ge (b : Nat) (cs : List Chunk) : ∀ e ∈ chunkEnds b cs, b ≤ e := by
  induction cs generalizing b with
  | nil => simp [chunkEnds]
  | cons c cs ih =>
    intro e he
    simp only [chunkEnds, List.mem_cons] at he
    rcases he with rfl | he
    · omega
    · have := ih _ e he; omega

theorem chunkEnds_length (b : Nat) (cs : List Chunk) : (chunkEnds b cs).length = cs.length := by
  induction cs generalizing b with
  | nil => rfl
  | cons c cs ih => simp [chunkEnds, ih]

/-- The chunks selected by `q` survive a cut at body offset `k` if each of them ends at or before it. -/
theorem filter_take_nHdr (q : Chunk → Bool) (cs : List Chunk) (b k : Nat)
    (hK : ∀ ce ∈ cs.zip (chunkEnds b cs), q ce.1 = true → ce.2 ≤ b + k) :
    (cs.take (nHdr k cs)).filter q = cs.filter q := by
  induction cs generalizing b k with
  | nil => simp
  | cons c cs ih =>
    have hb : c.bytes.length = (encHdr c.hdr).length + c.data.length := by simp [Chunk.bytes]
    have hrest : ∀ ce ∈ cs.zip (chunkEnds (b + c.bytes.length) cs), q ce.1 = true → ce.2 ≤ b + k := by
      intro ce hce hq
      exact hK ce (by simp only [chunkEnds, List.zip_cons_cons, List.mem_cons]; exact Or.inr hce) hq
    have hge : ∀ ce ∈ cs.zip (chunkEnds (b + c.bytes.length) cs), b + c.bytes.length ≤ ce.2 := by
      intro ce hce
      exact chunkEnds_ge _ _ _ (List.of_mem_zip hce).2
    by_cases hk : c.bytes.length ≤ k
    · -- the whole chunk survives
      have : (encHdr c.hdr).length ≤ k := by omega
      simp only [nHdr, this, if_true, List.take_succ_cons, List.filter_cons]
      rw [ih (b + c.bytes.length) (k - c.bytes.length) (by
        intro ce hce hq
        have := hrest ce hce hq
        omega)]
    · -- the cut is inside this chunk: nothing selected may be here or later
      have hnone : ∀ c' ∈ cs, q c' = false := by
        intro c' hc'
        cases hq : q c' with
        | false => rfl
        | true =>
          obtain ⟨n, hn, rfl⟩ := List.mem_iff_getElem.mp hc'
          have hlen := chunkEnds_length (b + c.bytes.length) cs
          have hmem : (cs[n], (chunkEnds (b + c.bytes.length) cs)[n]'(by omega)) ∈
              cs.zip (chunkEnds (b + c.bytes.length) cs) := by
            apply List.mem_iff_getElem.mpr
            refine ⟨n, by simp [List.length_zip, hlen, hn], by simp⟩
          have h1 := hrest _ hmem hq
          have h2 := hge _ hmem
          simp only at h1 h2
          omega
      have hqc : q c = false := by
        cases hq : q c with
        | false => rfl
        | true =>
          have := hK (c, b + c.bytes.length) (by simp [chunkEnds]) hq
          simp only at this
          omega
      have hf : cs.filter q = [] := by
        simp only [List.filter_eq_nil_iff]
        intro c' hc'; simp [hnone c' hc']
      simp only [nHdr, List.filter_cons, hqc, Bool.false_eq_true, if_false, hf]
      split
      · simp only [List.take_succ_cons, List.filter_cons, hqc, Bool.false_eq_true, if_false]
        simp only [List.filter_eq_nil_iff]
        intro c' hc'
        simp [hnone c' (List.mem_of_mem_take hc')]
      · simp

end HqModel.Stream
