import HqModel.Lemmas.SysStep2
/-!
C14 along a delivery: the max-fails decision of `process_task_failed` and what the other callbacks do to it.

`Exceeded js J` — job `J` is stored, has a limit and more failed tasks than it allows; `NoLive js J` — no task of `J`
is non-terminal. `route_maxfails`: after a delivery that contained an `error` callback for a task of job `J`,
`Exceeded → NoLive` holds for `J`.
-/
namespace HqModel.Sys
open HqModel HqModel.Job

theorem cancelTasks_cbs' {c c' : Core.State} {ids : List TaskId} {o : Core.Out} (h : c.cancelTasks ids = .ok (c', o)) :
    o.cbs = [] := by
  simp only [Core.State.cancelTasks] at h
  split at h
  · cases h
  · split at h
    · cases h
    · cases h; rfl

/-- (limit, number of failed tasks) of a stored job -/
def jmeta (js : Job.State) (J : Nat) : Option (Option Nat × Nat) :=
  (js.getJob J).map fun job => (job.maxFails, job.cnt.failed)

def Exceeded (js : Job.State) (J : Nat) : Prop :=
  ∃ m f, jmeta js J = some (some m, f) ∧ f > m

def NoLive (js : Job.State) (J : Nat) : Prop := ∀ x : TaskId, x.1 = J → live (tst js x) = false

theorem getJob_putJob (js : Job.State) (job' : Job) (J : Nat) :
    (js.putJob job').getJob J = if J = job'.id then (js.getJob J).map (fun _ => job') else js.getJob J :=
  findJob_replaceJob _ _ _

/-- replacing the record of a job by one with the same limit and failure count -/
theorem jmeta_putJob {js : Job.State} {job job' : Job} {j : Nat} (hj : js.getJob j = some job) (hid : job'.id = j)
    (hm : job'.maxFails = job.maxFails) (hf : job'.cnt.failed = job.cnt.failed) (J : Nat) :
    jmeta (js.putJob job') J = jmeta js J := by
  simp only [jmeta, getJob_putJob, hid]
  by_cases h : J = j
  · subst h; simp [hj, hm, hf]
  · simp [h]

theorem taskStarted_meta {js js' : Job.State} {t : TaskId} {i : Nat} {ws : List Nat} {rv : Nat} {evs : List Ev}
    (h : js.taskStarted t i ws rv = .ok (js', evs)) (J : Nat) : jmeta js' J = jmeta js J := by
  unfold Job.State.taskStarted at h
  split at h
  · cases h
  · rename_i job hj
    split at h
    · cases h
    · rename_i job' hr
      cases h
      have hid := getJob_id hj
      obtain ⟨m, _, _⟩ := setRunning_spec hr
      refine jmeta_putJob hj (m.id.trans hid) m.maxFails ?_ J
      unfold Job.setRunning at hr
      split at hr <;> cases hr <;> rfl

theorem taskFinished_meta {js js' : Job.State} {t : TaskId} {evs : List Ev}
    (h : js.taskFinished t = .ok (js', evs)) (J : Nat) : jmeta js' J = jmeta js J := by
  unfold Job.State.taskFinished at h
  split at h
  · cases h
  · rename_i job hj
    split at h
    · cases h
    · rename_i job' evs' hr
      cases h
      have hid := getJob_id hj
      obtain ⟨m, _, _⟩ := setFinished_spec hr
      have : jmeta (js.putJob job') J = jmeta js J := by
        refine jmeta_putJob hj (m.id.trans hid) m.maxFails ?_ J
        unfold Job.setFinished at hr
        split at hr <;> cases hr <;> rfl
      exact this

theorem setWaitingAll_meta : ∀ (ts : List TaskId) {js js' : Job.State}, js.setWaitingAll ts = .ok js' →
    ∀ J, jmeta js' J = jmeta js J := by
  intro ts
  induction ts with
  | nil => intro js js' h J; simp only [Job.State.setWaitingAll] at h; cases h; rfl
  | cons t rest ih =>
    intro js js' h J
    simp only [Job.State.setWaitingAll] at h
    split at h
    · cases h
    · rename_i job hj
      split at h
      · cases h
      · rename_i job' hw
        have hid := getJob_id hj
        obtain ⟨m, _, _⟩ := setWaiting_spec' hw
        rw [ih h J]
        refine jmeta_putJob hj (m.id.trans hid) m.maxFails ?_ J
        unfold Job.setWaiting at hw
        split at hw <;> cases hw <;> rfl

theorem workerLost_meta {js js' : Job.State} {w : Nat} {running : List TaskId} {reason : String} {evs : List Ev}
    (h : js.workerLost w running reason = .ok (js', evs)) (J : Nat) : jmeta js' J = jmeta js J := by
  unfold Job.State.workerLost at h
  split at h
  · cases h
  · rename_i s' hs
    split at h
    · cases h
    · cases h; exact setWaitingAll_meta _ hs J

theorem workerNew_meta {js js' : Job.State} {w : Nat} {evs : List Ev}
    (h : js.workerNew w = .ok (js', evs)) (J : Nat) : jmeta js' J = jmeta js J := by
  obtain ⟨hjobs, _⟩ := workerNew_spec h
  simp only [jmeta, Job.State.getJob, hjobs]

/-- a failure in another job -/
theorem taskFailed_meta_other {js js' : Job.State} {t : TaskId} {cons ret : List TaskId} {evs : List Ev}
    (h : js.taskFailed t cons = .ok (js', evs, ret)) (J : Nat) (hJ : J ≠ t.1) : jmeta js' J = jmeta js J := by
  simp only [Job.State.taskFailed] at h
  split at h
  · cases h
  · rename_i job hj
    have hid := getJob_id hj
    split at h
    · cases h
    · rename_i job1 ev1 ha
      obtain ⟨m1, _, _⟩ := abortTasks_spec ha
      split at h
      · cases h
      · rename_i job2 ev2 hf
        obtain ⟨m2, _, _⟩ := setFailed_spec hf
        have hid2 : job2.id = t.1 := (m2.id.trans m1.id).trans hid
        have e2 : ∀ (l : List TaskId), jmeta ({ js.putJob job2 with sent := l } : Job.State) J = jmeta js J := by
          intro l
          show (((js.putJob job2).getJob J).map _) = _
          simp only [jmeta, getJob_putJob, hid2, hJ, if_false]
        split at h
        · split at h
          · split at h
            · cases h
            · rename_i job3 ev3 ha3
              cases h
              obtain ⟨m3, _, _⟩ := abortTasks_spec ha3
              have hid3 : job3.id = t.1 := m3.id.trans hid2
              show ((((js.putJob job2).putJob job3).getJob J).map _) = _
              simp only [jmeta, getJob_putJob, hid3, hid2, hJ, if_false]
          · cases h; exact e2 _
        · cases h; exact e2 _

/-- **the max-fails decision** of `process_task_failed`: if the job exceeds its limit afterwards, none of its tasks is
non-terminal any more -/
theorem taskFailed_maxfails {js js' : Job.State} {t : TaskId} {cons ret : List TaskId} {evs : List Ev}
    (hwf : StateWF js) (h : js.taskFailed t cons = .ok (js', evs, ret)) (hex : Exceeded js' t.1) : NoLive js' t.1 := by
  obtain ⟨_, _, _, hv, _, job', hg, hdisj⟩ := taskFailed_spec hwf h
  obtain ⟨m, f, hm, hgt⟩ := hex
  simp only [jmeta, hg, Option.map_some, Option.some.injEq, Prod.mk.injEq] at hm
  rcases hdisj with ⟨m', _, _, hret⟩ | ⟨hno, _⟩
  · intro x hx
    rw [hv x]
    by_cases hm' : x ∈ ret
    · simp [hm', live, TState.terminal]
    · simp only [hm', if_false]
      cases hl : live (failedView js t cons x) with
      | false => rfl
      | true => exact absurd ((hret x).mpr ⟨hx, hl⟩) hm'
  · exact absurd (hm.2 ▸ hgt) (hno m hm.1)

/-- `Exceeded → NoLive` for job `J` -/
def MaxFailsOk (js : Job.State) (J : Nat) : Prop := Exceeded js J → NoLive js J

/-- one callback: `MaxFailsOk` is established by an `error` callback for the job and preserved by everything else -/
theorem cbStep_maxfails {js js' : Job.State} {rets left : List (List TaskId)} {cb : Core.Cb} {evs : List Ev} (J : Nat)
    (hwf : StateWF js) (h : cbStep js rets cb = .ok (js', evs, left))
    (hq : MaxFailsOk js J ∨ ∃ t cons, cb = .error t cons ∧ t.1 = J) : MaxFailsOk js' J := by
  have keep : jmeta js' J = jmeta js J → (∀ x : TaskId, x.1 = J → live (tst js x) = false → live (tst js' x) = false) →
      MaxFailsOk js J → MaxFailsOk js' J := by
    intro hmeta hlive hq hex x hx
    have hex0 : Exceeded js J := by
      obtain ⟨m, f, hm, hgt⟩ := hex
      exact ⟨m, f, by rw [← hmeta]; exact hm, hgt⟩
    exact hlive x hx (hq hex0 x hx)
  cases cb with
  | started t i ws rv =>
    simp only [cbStep] at h
    split at h
    · cases h
    · rename_i js1 ev1 hj
      cases h
      rcases hq with hq | ⟨_, _, e, _⟩
      · refine keep (taskStarted_meta hj J) ?_ hq
        intro x _ hl
        obtain ⟨_, _, _, hv⟩ := taskStarted_spec hj
        rw [hv x]
        by_cases e : x = t
        · subst e; simp only [if_true]; rw [live_startedSt]; exact hl
        · simp only [e, if_false]; exact hl
      · cases e
  | finished t =>
    simp only [cbStep] at h
    split at h
    · cases h
    · rename_i js1 ev1 hj
      cases h
      rcases hq with hq | ⟨_, _, e, _⟩
      · refine keep (taskFinished_meta hj J) ?_ hq
        intro x _ hl
        obtain ⟨_, _, _, hv⟩ := taskFinished_spec hj
        rw [hv x]
        by_cases e : x = t
        · simp [e, live, TState.terminal]
        · simp only [e, if_false]; exact hl
      · cases e
  | workerNew w =>
    simp only [cbStep] at h
    split at h
    · cases h
    · rename_i js1 ev1 hj
      cases h
      rcases hq with hq | ⟨_, _, e, _⟩
      · refine keep (workerNew_meta hj J) ?_ hq
        intro x _ hl
        obtain ⟨hjobs, _⟩ := workerNew_spec hj
        simp only [tst, hjobs] at hl ⊢; exact hl
      · cases e
  | workerLost w running reason =>
    simp only [cbStep] at h
    split at h
    · cases h
    · rename_i js1 ev1 hj
      cases h
      rcases hq with hq | ⟨_, _, e, _⟩
      · refine keep (workerLost_meta hj J) ?_ hq
        intro x _ hl
        -- a task of the running list was `running` (live) before
        unfold Job.State.workerLost at hj
        split at hj
        · cases hj
        · rename_i s' hs
          split at hj
          · cases hj
          · cases hj
            obtain ⟨_, _, hall, hv⟩ := setWaitingAll_spec _ hs
            rw [hv x]
            by_cases e : x ∈ running
            · have := hall x e; rw [hl] at this; cases this
            · simp only [e, if_false]; exact hl
      · cases e
  | error t cons =>
    simp only [cbStep] at h
    split at h
    · cases h
    · rename_i js1 ev1 ret hj
      have done : js' = js1 := by
        split at h
        · cases h
        · split at h
          · cases h; rfl
          · cases h
      subst done
      by_cases hJ : J = t.1
      · subst hJ
        exact fun hex => taskFailed_maxfails hwf hj hex
      · rcases hq with hq | ⟨t', cons', e, ht'⟩
        · refine keep (taskFailed_meta_other hj J hJ) ?_ hq
          intro x hx hl
          obtain ⟨_, hcons, _, hv, _⟩ := taskFailed_spec hwf hj
          rw [hv x]
          by_cases hm : x ∈ ret
          · simp [hm, live, TState.terminal]
          · have h1 : x ≠ t := fun e => hJ (hx.symm.trans (by rw [e]))
            have h2 : x ∉ cons := fun e => hJ (hx.symm.trans (hcons x e))
            simp only [hm, if_false, failedView, h1, h2]
            exact hl
        · cases e; exact absurd ht'.symm hJ

theorem cbStep_wf {js js' : Job.State} {rets left : List (List TaskId)} {cb : Core.Cb} {evs : List Ev}
    (hwf : StateWF js) (h : cbStep js rets cb = .ok (js', evs, left)) : StateWF js' := by
  cases cb with
  | started t i ws rv =>
    simp only [cbStep] at h
    split at h
    · cases h
    · rename_i js1 ev1 hj; cases h; exact wf_started hwf hj
  | finished t =>
    simp only [cbStep] at h
    split at h
    · cases h
    · rename_i js1 ev1 hj; cases h; exact wf_finished hwf hj
  | workerNew w =>
    simp only [cbStep] at h
    split at h
    · cases h
    · rename_i js1 ev1 hj; cases h; exact wf_workerNew hwf hj
  | workerLost w running reason =>
    simp only [cbStep] at h
    split at h
    · cases h
    · rename_i js1 ev1 hj; cases h; exact wf_workerLost hwf hj
  | error t cons =>
    simp only [cbStep] at h
    split at h
    · cases h
    · rename_i js1 ev1 ret hj
      split at h
      · cases h
      · split at h
        · cases h; exact wf_failed hwf hj
        · cases h

/-- **a whole delivery**: if it contains an `error` callback for a task of job `J`, then afterwards job `J` exceeds its
limit only if none of its tasks is non-terminal -/
theorem route_maxfails (J : Nat) : ∀ (cbs : List Core.Cb) (js js' : Job.State) (rets left : List (List TaskId))
    (evs : List Ev), StateWF js → route js rets cbs = .ok (js', evs, left) →
    (MaxFailsOk js J ∨ ∃ t cons, Core.Cb.error t cons ∈ cbs ∧ t.1 = J) → MaxFailsOk js' J := by
  intro cbs
  induction cbs with
  | nil =>
    intro js js' rets left evs _ h hq
    simp only [route] at h
    cases h
    rcases hq with hq | ⟨_, _, hm, _⟩
    · exact hq
    · cases hm
  | cons cb rest ih =>
    intro js js' rets left evs hwf h hq
    simp only [route] at h
    split at h
    · cases h
    · rename_i js1 ev1 rets1 h1
      split at h
      · cases h
      · rename_i js2 ev2 rets2 h2
        cases h
        have hwf1 := cbStep_wf hwf h1
        rcases hq with hq | ⟨t, cons, hm, ht⟩
        · exact ih _ _ _ _ _ hwf1 h2 (.inl (cbStep_maxfails J hwf h1 (.inl hq)))
        · rcases List.mem_cons.mp hm with e | e
          · exact ih _ _ _ _ _ hwf1 h2 (.inl (cbStep_maxfails J hwf h1 (.inr ⟨t, cons, e.symm, ht⟩)))
          · exact ih _ _ _ _ _ hwf1 h2 (.inr ⟨t, cons, e, ht⟩)

/-- the delivery inside a composed step -/
theorem coreStep_route {s s' : State} {cop : Core.Op} {rets : List (List TaskId)} {evs0 : List Ev} {resp : Resp} {o : Out}
    (h : coreStep s cop rets evs0 resp = .ok (s', o)) :
    ∃ evs left, route s.job rets o.core.cbs = .ok (s'.job, evs, left) := by
  simp only [coreStep] at h
  split at h
  · cases h
  · rename_i c' out hs
    split at h
    · cases h
    · rename_i j' evs left hr
      split at h
      · cases h; exact ⟨evs, left, hr⟩
      · cases h

theorem step_route {s s' : State} {op : Op} {o : Out} (h : step s op = .ok (s', o)) :
    o.core.cbs = [] ∨ ∃ rets evs left, route s.job rets o.core.cbs = .ok (s'.job, evs, left) := by
  cases op with
  | openJob mf =>
    simp only [step] at h
    split at h
    · cases h
    · cases h; exact .inl rfl
  | close j => simp only [step] at h; cases h; exact .inl rfl
  | forget j allowed =>
    simp only [step] at h
    split at h
    · cases h
    · cases h; exact .inl rfl
  | submit job mf desc nts =>
    left
    simp only [step] at h
    split at h
    · cases h
    · split at h
      · split at h
        · split at h
          · cases h; rfl
          · simp only [coreStep, Core.step] at h
            split at h
            · cases h
            · rename_i c' out hs
              split at h
              · cases h
              · split at h
                · cases h; exact Core.newTasks_cbs hs
                · cases h
        · cases h
      all_goals (cases h; rfl)
  | cancel j ids =>
    left
    simp only [step] at h
    split at h
    · cases h
    · split at h
      · split at h
        · cases h; rfl
        · split at h
          · simp only [coreStep, Core.step] at h
            split at h
            · cases h
            · rename_i c' out hs
              split at h
              · cases h
              · split at h
                · cases h; exact cancelTasks_cbs' hs
                · cases h
          · cases h
      · cases h; rfl
  | newWorker w => obtain ⟨evs, left, hr⟩ := coreStep_route (by simpa only [step] using h); exact .inr ⟨_, evs, left, hr⟩
  | removeWorker w reason f order rets =>
    obtain ⟨evs, left, hr⟩ := coreStep_route (by simpa only [step] using h); exact .inr ⟨_, evs, left, hr⟩
  | newRq rqv => obtain ⟨evs, left, hr⟩ := coreStep_route (by simpa only [step] using h); exact .inr ⟨_, evs, left, hr⟩
  | update w us rets =>
    obtain ⟨evs, left, hr⟩ := coreStep_route (by simpa only [step] using h); exact .inr ⟨_, evs, left, hr⟩
  | retracted w ids =>
    obtain ⟨evs, left, hr⟩ := coreStep_route (by simpa only [step] using h); exact .inr ⟨_, evs, left, hr⟩
  | schedule sol => obtain ⟨evs, left, hr⟩ := coreStep_route (by simpa only [step] using h); exact .inr ⟨_, evs, left, hr⟩

theorem cancelTasks_cbs {c c' : Core.State} {ids : List TaskId} {o : Core.Out} (h : c.cancelTasks ids = .ok (c', o)) :
    o.cbs = [] := by
  simp only [Core.State.cancelTasks] at h
  split at h
  · cases h
  · split at h
    · cases h
    · cases h; rfl

/-- the job-layer part of a composed cancel step is `cancel_job` -/
theorem step_cancel_job {s s' : State} {j : Nat} {ids : List TaskId} {o : Out} (h : step s (.cancel j ids) = .ok (s', o)) :
    ∃ evs resp, s.job.cancelJob j = .ok (s'.job, evs, resp) := by
  simp only [step] at h
  split at h
  · cases h
  · rename_i js' evs resp hj
    split at h
    · split at h
      · cases h; exact ⟨evs, _, hj⟩
      · split at h
        · simp only [coreStep, Core.step] at h
          split at h
          · cases h
          · rename_i c' out hct
            rw [cancelTasks_cbs hct] at h
            simp only [route] at h
            split at h
            · cases h; exact ⟨evs, _, hj⟩
            · cases h
        · cases h
    · cases h; exact ⟨evs, _, hj⟩

end HqModel.Sys
