import HqModel.Lemmas.CoreQueueBase
/-!
The queue / dependency invariant, part 2: the reactor functions that are `Safe` for every instance of the
invariant (everything except `on_new_tasks`, the finish/wake core of `task_finished` and the two loops of
`on_remove_worker` that rewrite a state without looking at it — those are in `CoreQueueSpecial.lean`).
-/
namespace HqModel.Core

/-- only state / instance id / crash counter of the record found under `id` change; the new state has at least
the slack of the old one and is not Finished -/
theorem Safe.setState {s : State} {told : Task} {id : TaskId} {st : TS} {deps : List TaskId} {prio : Int}
    {cl : CrashLimit} {inst crashes : Nat} (hf : findTask s.tasks id = some told)
    (hs : slack st = slack told.state) (hfin : st ≠ .finished) :
    Safe s (s.setTask ⟨told.id, st, told.consumers, deps, told.rq, prio, cl, inst, crashes⟩) := by
  have hid : told.id = id := findTask_some_id hf
  refine Safe.setTask (told := told) ?_ (PutOk.mk' hs (fun e => absurd e hfin))
  show findTask s.tasks told.id = some told
  rw [hid]; exact hf

theorem Safe.ask (s : State) : Safe s (ask s) := Safe.of_eq rfl rfl
theorem Safe.setWorker (s : State) (w : Worker) : Safe s (s.setWorker w) := Safe.of_eq rfl rfl

/-! ### `process_retracted`, `remove_task` -/

theorem processRetracted_safe (l : List TaskId) (s s' : State) (acc acc' : List (Nat × TaskId))
    (h : s.processRetracted l acc = .ok (s', acc')) : Safe s s' := by
  induction l generalizing s acc with
  | nil => simp only [State.processRetracted] at h; cases h; exact Safe.refl _
  | cons t rest ih =>
    simp only [State.processRetracted] at h
    split at h
    · cases h
    · rename_i task hg
      have ht := getTask_spec hg
      split at h
      · rename_i w hs
        split at h
        · cases h
        · rename_i s1 hw
          have ht1 : findTask s1.tasks t = some task := by rw [withWorker_tasks hw]; exact ht
          exact ((Safe.withWorker hw).trans (Safe.setState ht1 (by simp [hs]) (by simp))).trans (ih _ _ h)
      · cases h

theorem retract_safe {s s' : State} {l : List TaskId} {o : Out} (h : s.retract l = .ok (s', o)) : Safe s s' := by
  simp only [State.retract] at h
  split at h
  · cases h
  · rename_i s1 pairs hp
    cases h
    exact processRetracted_safe _ _ _ _ _ hp

theorem removeConsumer_q {U f pend qs} {ts ts' : List Task} {d c : TaskId} (hi : QInv4 U f pend ts qs)
    (h : removeConsumer ts d c = .ok ts') : QInv4 U f pend ts' qs := by
  simp only [removeConsumer] at h
  split at h
  · cases h; exact hi
  · rename_i dt hd
    split at h
    · cases h
    · cases h
      have hid : dt.id = d := findTask_some_id hd
      refine hi.put (t' := { dt with consumers := dt.consumers.erase c }) (told := dt) (by show findTask ts dt.id = _; rw [hid]; exact hd)
        ⟨rfl, fun x hx => List.mem_of_mem_erase hx, fun hn => hn.erase c, rfl, fun e => e⟩

theorem removeConsumers_q {U f pend qs} (deps : List TaskId) (ts ts' : List Task) (c : TaskId)
    (hi : QInv4 U f pend ts qs) (h : removeConsumers ts c deps = .ok ts') : QInv4 U f pend ts' qs := by
  induction deps generalizing ts with
  | nil => simp only [removeConsumers] at h; cases h; exact hi
  | cons d rest ih =>
    simp only [removeConsumers] at h
    split at h
    · cases h
    · rename_i ts1 h1
      exact ih _ (removeConsumer_q hi h1) h

theorem removeTask_safe {s s' : State} {id : TaskId} {st : TS} (h : s.removeTask id = .ok (s', st)) : Safe s s' := by
  have he := Safe.erase s id
  simp only [State.removeTask] at h
  split at h
  · cases h
  · split at h
    · split at h
      · cases h
      · rename_i s1 hq
        have h1 := he.trans (Safe.queueRemove hq)
        split at h
        · split at h
          · cases h
          · rename_i ts hc
            cases h
            intro U f p hi
            exact removeConsumers_q _ _ _ _ (h1 U f p hi) hc
        · cases h; exact h1
    · split at h
      · cases h
      · rename_i s1 hq
        cases h
        exact he.trans (Safe.queueRemove hq)
    · cases h; exact he

/-! ### `on_cancel_tasks` -/

theorem cancelLoop_safe (ids : List TaskId) (s s' : State) (u u' : List TaskId) (r r' : List (Nat × List TaskId))
    (h : s.cancelLoop ids u r = .ok (s', u', r')) : Safe s s' := by
  induction ids generalizing s u r with
  | nil => simp only [State.cancelLoop] at h; cases h; exact Safe.refl _
  | cons id rest ih =>
    simp only [State.cancelLoop] at h
    split at h
    · exact ih _ _ _ h
    · split at h
      · cases h
      · split at h
        · exact (Safe.ask s).trans (ih _ _ _ h)
        · split at h
          · cases h
          · split at h
            · cases h
            · rename_i s1 hw
              exact ((Safe.withWorker hw).trans (Safe.ask s1)).trans (ih _ _ _ h)
        · split at h
          · cases h
          · split at h
            · cases h
            · rename_i s1 hw
              exact ((Safe.withWorker hw).trans (Safe.ask s1)).trans (ih _ _ _ h)
        · split at h
          · cases h
          · rename_i s1 hr
            split at h
            · cases h
            · exact ((Safe.resetMnAll hr).trans (Safe.ask s1)).trans (ih _ _ _ h)
        · split at h
          · cases h
          · rename_i s1 hr
            exact ((Safe.tryRemoveRedirection hr).trans (Safe.ask s1)).trans (ih _ _ _ h)
        · split at h
          · cases h
          · rename_i s1 hp
            split at h
            · cases h
            · rename_i s2 hw
              exact ((Safe.removePrefilled hp).trans (Safe.withWorker hw)).trans (ih _ _ _ h)
        · cases h

theorem removeTasksBatched_safe (ids : List TaskId) (s s' : State) (h : s.removeTasksBatched ids = .ok s') :
    Safe s s' := by
  induction ids generalizing s with
  | nil => simp only [State.removeTasksBatched] at h; cases h; exact Safe.refl _
  | cons id rest ih =>
    simp only [State.removeTasksBatched] at h
    split at h
    · cases h
    · rename_i s1 st h1
      exact (removeTask_safe h1).trans (ih _ h)

theorem cancelTasks_safe {s s' : State} {ids : List TaskId} {o : Out} (h : s.cancelTasks ids = .ok (s', o)) :
    Safe s s' := by
  simp only [State.cancelTasks] at h
  split at h
  · cases h
  · rename_i s1 unreg running h1
    split at h
    · cases h
    · rename_i s2 h2
      cases h
      exact (cancelLoop_safe _ _ _ _ _ _ _ h1).trans (removeTasksBatched_safe _ _ _ h2)

/-! ### `task_failed` -/

theorem removeWaitingAll_safe (ids : List TaskId) (s s' : State) (h : s.removeWaitingAll ids = .ok s') :
    Safe s s' := by
  induction ids generalizing s with
  | nil => simp only [State.removeWaitingAll] at h; cases h; exact Safe.refl _
  | cons id rest ih =>
    simp only [State.removeWaitingAll] at h
    split at h
    · cases h
    · rename_i s1 st h1
      split at h
      · exact (removeTask_safe h1).trans (ih _ h)
      · cases h

theorem taskFailed_safe {s s' : State} {worker : Option Nat} {id : TaskId} {ret : List TaskId} {o : Out}
    (h : s.taskFailed worker id ret = .ok (s', o)) : Safe s s' := by
  simp only [State.taskFailed] at h
  split at h
  · cases h; exact Safe.refl _
  · rename_i task ht
    split at h
    · cases h
    · rename_i s1 hpre
      have e1 : Safe s s1 := by
        clear h
        repeat' (split at hpre)
        all_goals first
          | (cases hpre; exact Safe.refl _)
          | cases hpre
          | exact Safe.resetMnAll hpre
          | exact Safe.withWorker hpre
          | exact Safe.tryRemoveRedirection hpre
          | skip
        · rename_i s2 hp
          exact (Safe.removePrefilled hp).trans (Safe.withWorker hpre)
      split at h
      · cases h
      · split at h
        · cases h
        · rename_i s2 h2
          split at h
          · cases h
          · rename_i s3 st h3
            have a := (e1.trans (removeWaitingAll_safe _ _ _ h2)).trans (removeTask_safe h3)
            clear hpre
            repeat' (split at h)
            all_goals first
              | (cases h; exact a)
              | (rename_i h4; cases h; exact a.trans (cancelTasks_safe h4))
              | cases h

/-! ### automation: the primitive moves as `grind` rules -/

attribute [grind =] slack_waiting slack_assigned slack_prefilled slack_retracting slack_running slack_runningMN slack_finished
attribute [grind →] Safe.withWorker Safe.queueRemove Safe.removePrefilled Safe.tryRemoveRedirection Safe.movePrefilledToReady
  Safe.resetMnAll Safe.resetMnChecked Safe.trans retract_safe taskFailed_safe
attribute [grind .] Safe.refl
grind_pattern Safe.ask => ask s
grind_pattern Safe.setWorker => s.setWorker w
theorem Safe.setState' {s : State} {told : Task} {st : TS} {deps : List TaskId} {prio : Int}
    {cl : CrashLimit} {inst crashes : Nat} (hf : findTask s.tasks told.id = some told)
    (hs : slack st = slack told.state) (hfin : st = .finished → told.state = .finished) :
    Safe s (s.setTask ⟨told.id, st, told.consumers, deps, told.rq, prio, cl, inst, crashes⟩) :=
  Safe.setTask (told := told) hf (PutOk.mk' hs hfin)
grind_pattern Safe.setState' => s.setTask ⟨told.id, st, told.consumers, deps, told.rq, prio, cl, inst, crashes⟩

theorem findTask_setState_self {s : State} {told : Task} {st : TS} {deps : List TaskId} {prio : Int}
    {cl : CrashLimit} {inst crashes : Nat} (hf : findTask s.tasks told.id = some told) :
    findTask (s.setTask ⟨told.id, st, told.consumers, deps, told.rq, prio, cl, inst, crashes⟩).tasks told.id =
      some ⟨told.id, st, told.consumers, deps, told.rq, prio, cl, inst, crashes⟩ :=
  findTask_putTask_self (ts := s.tasks) (t := ⟨told.id, st, told.consumers, deps, told.rq, prio, cl, inst, crashes⟩) ⟨told, hf⟩

grind_pattern findTask_setState_self => s.setTask ⟨told.id, st, told.consumers, deps, told.rq, prio, cl, inst, crashes⟩

theorem Safe.addReady' {s s' : State} {t : Task} {r : List TaskId} (h : s.addReady t = .ok (s', r))
    (hf : findTask s.tasks t.id = some t) (hs : slack t.state = 0) : Safe s s' :=
  Safe.addReady hf rfl hs h

grind_pattern Safe.addReady' => s.addReady t, (s', r)
attribute [grind =] setWorker_tasks ask_tasks

attribute [grind →] findTask_some_id

theorem filterRedirects_safe (s : State) (g : TaskId × Nat × Nat → Bool) : Safe s { s with redirects := s.redirects.filter g } :=
  Safe.of_eq rfl rfl
grind_pattern filterRedirects_safe => s.redirects.filter g

theorem taskRunning_safe {s s' : State} {w : Nat} {id : TaskId} {rv : Nat} {o : Out}
    (h : s.taskRunning w id rv = .ok (s', o)) : Safe s s' := by
  simp only [State.taskRunning, State.task?] at h
  repeat' (split at h)
  all_goals first | cases h | skip
  all_goals grind

theorem taskReject_safe {s s' : State} {w : Nat} {id : TaskId} {rv : Option Nat} {o : Out} {b : Bool}
    (h : s.taskReject w id rv = .ok (s', o, b)) : Safe s s' := by
  simp only [State.taskReject, State.task?] at h
  repeat' (split at h)
  all_goals first | cases h | skip
  all_goals grind

theorem requestEnabled_safe {s s' : State} {w rq rv : Nat} (h : s.requestEnabled w rq rv = .ok s') : Safe s s' :=
  Safe.withWorker h

theorem retractLoop_safe (ids : List TaskId) (s s' : State) (w : Nat) (acc acc' : List (Nat × TaskId × Nat))
    (h : s.retractLoop w ids acc = .ok (s', acc')) : Safe s s' := by
  fun_induction State.retractLoop s w ids acc <;> grind [State.task?]

theorem retractResponse_safe {s s' : State} {w : Nat} {ids : List TaskId} {o : Out}
    (h : s.retractResponse w ids = .ok (s', o)) : Safe s s' := by
  simp only [State.retractResponse] at h
  split at h
  · cases h
  · rename_i s1 items h1
    split at h
    · cases h
    · cases h; exact retractLoop_safe _ _ _ _ _ _ h1

theorem lostRetracting_safe (l : List Task) (s s' : State) (w : Nat) (o o' : Out)
    (h : s.lostRetracting w l o = .ok (s', o')) : Safe s s' := by
  fun_induction State.lostRetracting s w l o <;> grind [State.task?]

theorem crashLoop_safe (ids : List TaskId) (s s' : State) (f : Bool) (rets : List (List TaskId)) (o o' : Out)
    (h : s.crashLoop f ids rets o = .ok (s', o')) : Safe s s' := by
  fun_induction State.crashLoop s f ids rets o <;> grind [State.task?]

end HqModel.Core
