import HqModel.Lemmas.CoreQueueSched
/-!
The queue / dependency invariant, part 7: every operation, every run.

`step_q` — `QInv` is preserved by every operation (given `Inv` of the pre-state, `SolMnOk` for a scheduling round
and that the submitted ids are fresh). `runOk_strengthen` — along a run in which no task id is submitted twice the
side condition `QueueOkD` of a scheduling round is a consequence of the other side conditions, so the run
satisfies the old, stronger side conditions (`OpOk4` / `OpOk2`) and every theorem stated for those applies.
-/
namespace HqModel.Core

theorem newRq_q {U f pend} {s : State} (rqv : Rqv) (h : QInv U f pend s) : QInv U f pend (s.newRq rqv) := by
  refine QInv4.queues (qs := s.queues) h ?_
  intro i q hq id hid
  show QGood U f s.tasks i id
  change (s.queues ++ [({} : Queue)])[i]? = some q at hq
  rw [List.getElem?_append] at hq
  split at hq
  · exact h.qg i q hq id hid
  · rename_i hlt
    have : q = {} := by
      cases hk : i - s.queues.length with
      | zero => rw [hk] at hq; simpa using hq.symm
      | succ k => rw [hk] at hq; simp at hq
    subst this
    cases hid

theorem qinv_init : QInv [] none [] {} := by
  refine ⟨List.nodup_nil, ?_, ?_, ?_, ?_, ?_, ?_⟩
  · intro t h; cases h
  · intro t h; cases h
  · intro t h; cases h
  · intro t h; cases h
  · intro c t h; cases h
  · intro i q h; simp at h

/-- **`QInv` is preserved by every operation** -/
theorem step_q {U : List TaskId} {s s' : State} {op : Op} {out : Out} (hq : QInv U none [] s) (hi : Inv s)
    (hsol : ∀ sol, op = .schedule sol → SolMnOk s sol)
    (hfresh : ∀ x ∈ op.newIds, x ∉ U) (hnd : op.newIds.Nodup)
    (h : step s op = .ok (s', out)) : QInv (U ++ op.newIds) none [] s' := by
  cases op with
  | newWorker w =>
    simp only [step, State.newWorker] at h; cases h
    have : QInv U none [] (ask { s with workers := s.workers ++ [w] }) := hq
    simpa [Op.newIds] using this
  | removeWorker w reason f order rets =>
    simpa [Op.newIds] using removeWorker_safe hi h U none [] hq
  | newRq rqv =>
    simp only [step] at h; cases h
    simpa [Op.newIds] using newRq_q rqv hq
  | newTasks nts =>
    simp only [Op.newIds] at hfresh hnd ⊢
    refine newTasks_q hq ?_ hnd h
    intro nt hnt
    exact hfresh nt.id (List.mem_map_of_mem hnt)
  | cancel ids =>
    simpa [Op.newIds] using cancelTasks_safe (by simpa [step] using h) U none [] hq
  | update w us rets =>
    simpa [Op.newIds] using taskUpdate_safeN (by simpa [step] using h) U hq
  | retracted w ids =>
    simpa [Op.newIds] using retractResponse_safe (by simpa [step] using h) U none [] hq
  | schedule sol =>
    simpa [Op.newIds] using schedule_q hq hi (hsol sol rfl) (by simpa [step] using h)

/-! ### side conditions without the queue clause -/

/-- `StepHyp4` without `QueueOkD`: only facts about the inputs of the operation (and `SolMnOk`: multi-node
placements only for multi-node requests) -/
def StepHyp5 (s : State) : Op → Prop
  | .newWorker w => FreshWorker w
  | .newRq rqv => RqvOk rqv
  | .update w us rets => UpdatesOk UpdProto s w us rets
  | .schedule sol => SolMnOk s sol
  | _ => True

instance (s : State) (sol : Solution) : Decidable (SolMnOk s sol) := by unfold SolMnOk; infer_instance

instance (s : State) (op : Op) : Decidable (StepHyp5 s op) := by
  cases op <;> simp only [StepHyp5] <;> infer_instance

/-- all remaining side conditions of one operation: `StepHyp5` and `NoSaturation` -/
def OpOk5 (s : State) (op : Op) : Prop := StepHyp5 s op ∧ NoSaturation s op

instance (s : State) (op : Op) : Decidable (OpOk5 s op) := by unfold OpOk5; infer_instance

/-- `OpOk2` without `QueueOkD` -/
def OpOk2q (s : State) : Op → Prop
  | .newWorker w => FreshWorker w
  | .update w us rets => UpdatesOk UpdProto s w us rets
  | .schedule sol => SolMnOk s sol
  | _ => True

instance (s : State) (op : Op) : Decidable (OpOk2q s op) := by
  cases op <;> simp only [OpOk2q] <;> infer_instance

theorem StepHyp5.hyp4 {s : State} {op : Op} (h : StepHyp5 s op) (hq : QueueOkD s) : StepHyp4 s op := by
  cases op <;> simp only [StepHyp5, StepHyp4] at h ⊢ <;> first | exact h | exact ⟨hq, h⟩

theorem OpOk5.ok4 {s : State} {op : Op} (h : OpOk5 s op) (hq : QueueOkD s) : OpOk4 s op := ⟨h.1.hyp4 hq, h.2⟩

theorem OpOk2q.ok2 {s : State} {op : Op} (h : OpOk2q s op) (hq : QueueOkD s) : OpOk2 s op := by
  cases op <;> simp only [OpOk2q, OpOk2] at h ⊢ <;> first | exact h | exact ⟨hq, h⟩

theorem OpOk5.ok2q {s : State} {op : Op} (h : OpOk5 s op) : OpOk2q s op := by
  obtain ⟨h1, _⟩ := h
  cases op <;> simp only [StepHyp5, OpOk2q] at h1 ⊢ <;> first | exact h1 | trivial

theorem OpOk4.ok5 {s : State} {op : Op} (h : OpOk4 s op) : OpOk5 s op := by
  obtain ⟨h1, h2⟩ := h
  refine ⟨?_, h2⟩
  cases op <;> simp only [StepHyp5, StepHyp4] at h1 ⊢ <;> first | exact h1 | exact h1.2

theorem OpOk2q.sol {s : State} {op : Op} (h : OpOk2q s op) : ∀ sol, op = .schedule sol → SolMnOk s sol := by
  intro sol e; subst e; exact h

/-! ### runs -/

/-- the invariant `P` (which contains `Inv`) and `QInv` along a run whose operations satisfy `C` (which does not
contain `QueueOkD`): the run satisfies `C ∧ QueueOkD` -/
theorem runOk_strengthen {P : State → Prop} {C : State → Op → Prop} (hP : ∀ s, P s → Inv s)
    (hC : ∀ s op, C s op → OpOk2q s op)
    (hstep : ∀ s s' op out, P s → QueueOkD s → C s op → step s op = .ok (s', out) → P s')
    (ops : List Op) : ∀ (s : State) (U : List TaskId), P s → QInv U none [] s → (U ++ allNewIds ops).Nodup →
      RunOk C s ops → RunOk (fun s op => C s op ∧ QueueOkD s) s ops := by
  induction ops with
  | nil => intro _ _ _ _ _ _; trivial
  | cons op rest ih =>
    intro s U hp hq hnd hok
    simp only [RunOk] at hok ⊢
    refine ⟨⟨hok.1, hq.queueOkD⟩, ?_⟩
    have hok2 := hok.2
    split
    · rename_i s1 o1 h1
      rw [h1] at hok2
      rw [allNewIds_cons] at hnd
      have hnd' : (U ++ op.newIds ++ allNewIds rest).Nodup := by rw [List.append_assoc]; exact hnd
      have hfresh : ∀ x ∈ op.newIds, x ∉ U := by
        intro x hx hu
        rw [List.nodup_append] at hnd
        exact hnd.2.2 x hu x (List.mem_append_left _ hx) rfl
      have hndo : op.newIds.Nodup := by
        rw [List.nodup_append] at hnd
        exact (List.nodup_append.mp hnd.2.1).1
      exact ih s1 (U ++ op.newIds) (hstep _ _ _ _ hp hq.queueOkD hok.1 h1)
        (step_q hq (hP s hp) (hC s op hok.1).sol hfresh hndo h1) hnd' hok2
    · trivial

/-- `P` and `QInv` at the end of the run -/
theorem run_q_gen {P : State → Prop} {C : State → Op → Prop} (hP : ∀ s, P s → Inv s)
    (hC : ∀ s op, C s op → OpOk2q s op)
    (hstep : ∀ s s' op out, P s → QueueOkD s → C s op → step s op = .ok (s', out) → P s')
    (ops : List Op) : ∀ (s s' : State) (out : Out) (U : List TaskId), P s → QInv U none [] s →
      (U ++ allNewIds ops).Nodup → RunOk C s ops → run s ops = .ok (s', out) →
      P s' ∧ QInv (U ++ allNewIds ops) none [] s' := by
  induction ops with
  | nil =>
    intro s s' out U hp hq _ _ h
    simp only [run] at h; cases h
    exact ⟨hp, by simpa [allNewIds] using hq⟩
  | cons op rest ih =>
    intro s s' out U hp hq hnd hok h
    simp only [run] at h
    split at h
    · cases h
    · rename_i s1 o1 h1
      simp only [RunOk, h1] at hok
      split at h
      · cases h
      · rename_i s2 o2 h2
        cases h
        rw [allNewIds_cons] at hnd ⊢
        have hnd' : (U ++ op.newIds ++ allNewIds rest).Nodup := by rw [List.append_assoc]; exact hnd
        have hfresh : ∀ x ∈ op.newIds, x ∉ U := by
          intro x hx hu
          rw [List.nodup_append] at hnd
          exact hnd.2.2 x hu x (List.mem_append_left _ hx) rfl
        have hndo : op.newIds.Nodup := by
          rw [List.nodup_append] at hnd
          exact (List.nodup_append.mp hnd.2.1).1
        have := ih s1 _ _ (U ++ op.newIds) (hstep _ _ _ _ hp hq.queueOkD hok.1 h1)
          (step_q hq (hP s hp) (hC s op hok.1).sol hfresh hndo h1) hnd' hok.2 h2
        rw [List.append_assoc] at this
        exact this

/-- **the queue clause is redundant** (full side conditions): a run from the empty core that satisfies `OpOk5`
and submits no id twice satisfies `OpOk4` -/
theorem runOk4_of_runOk5 {ops : List Op} (hok : RunOk OpOk5 {} ops) (hr : NoIdReuse ops) : RunOk OpOk4 {} ops := by
  have := runOk_strengthen (P := C05Full) (C := OpOk5) (fun s h => h.invF.inv) (fun _ _ h => h.ok2q)
    (fun s s' op out hp hq hc hs => c05_step_full hp (hc.1.hyp4 hq) hc.2 hs) ops {} [] c05_full_init qinv_init
    (by simpa [NoIdReuse] using hr) hok
  exact RunOk.mono (fun s op h => h.1.ok4 h.2) ops _ this

/-- … and the structural side conditions: `OpOk2q` + no id reuse ⇒ `OpOk2` -/
theorem runOk2_of_runOk2q {ops : List Op} (hok : RunOk OpOk2q {} ops) (hr : NoIdReuse ops) : RunOk OpOk2 {} ops := by
  have := runOk_strengthen (P := InvF) (C := OpOk2q) (fun s h => h.inv) (fun _ _ h => h)
    (fun s s' op out hp hq hc hs => step_invF hp (hc.ok2 hq) hs) ops {} [] invF_init qinv_init
    (by simpa [NoIdReuse] using hr) hok
  exact RunOk.mono (fun s op h => h.1.ok2 h.2) ops _ this

/-- **`C05Full ∧ QInv` in every reachable state** -/
theorem run_queue_full {ops : List Op} {s : State} {out : Out} (hok : RunOk OpOk5 {} ops) (hr : NoIdReuse ops)
    (h : run {} ops = .ok (s, out)) : C05Full s ∧ QInv (allNewIds ops) none [] s := by
  have := run_q_gen (P := C05Full) (C := OpOk5) (fun s h => h.invF.inv) (fun _ _ h => h.ok2q)
    (fun s s' op out hp hq hc hs => c05_step_full hp (hc.1.hyp4 hq) hc.2 hs) ops {} s out [] c05_full_init qinv_init
    (by simpa [NoIdReuse] using hr) hok h
  simpa using this

/-- **`InvF ∧ QInv` in every reachable state** (no saturation condition) -/
theorem run_queue_invF {ops : List Op} {s : State} {out : Out} (hok : RunOk OpOk2q {} ops) (hr : NoIdReuse ops)
    (h : run {} ops = .ok (s, out)) : InvF s ∧ QInv (allNewIds ops) none [] s := by
  have := run_q_gen (P := InvF) (C := OpOk2q) (fun s h => h.inv) (fun _ _ h => h)
    (fun s s' op out hp hq hc hs => step_invF hp (hc.ok2 hq) hs) ops {} s out [] invF_init qinv_init
    (by simpa [NoIdReuse] using hr) hok h
  simpa using this

end HqModel.Core
