import HqModel.Lemmas.CoreInvMoves
/-!
Stage 2, part 3: the structural invariant `Inv` of the core model and its preservation by the functions of
`Model.lean` and `Reactor.lean`.

`Inv s` =
* task ids are unique (`nd`),
* `LS3` — list → state: what `Worker::sanity_check` asserts about `assigned_tasks` / `prefilled_tasks` / the
  multi-node assignment and the shape of the redirect table (`ls`),
* `CW3` — every registered consumer of a task in the map is Waiting (`cw`; `on_cancel_tasks` removes the
  recursive consumers of a cancelled task without looking at their state, so `ls` is not inductive without it),
* `MN3` — a task in state RunningMultiNode has a multi-node request (`mn`; `task_failed` chooses the branch by the
  request, not by the state).
-/
namespace HqModel.Core

def isWaiting : TS → Prop
  | .waiting _ => True
  | _ => False

instance : DecidablePred isWaiting := fun st => by cases st <;> simp only [isWaiting] <;> infer_instance

def CW3 (ts : List Task) : Prop :=
  ∀ d dt, findTask ts d = some dt → ∀ c ∈ dt.consumers, ∀ st, stOf ts c = some st → isWaiting st

def isMultiNodeRq (rqs : List Rqv) (rq : Nat) : Bool :=
  match rqs[rq]? with
  | some (r :: _) => r.nNodes > 0
  | _ => false

theorem isMultiNode_eq (s : State) (rq : Nat) : s.isMultiNode rq = isMultiNodeRq s.rqs rq := rfl

def MN3 (ts : List Task) (rqs : List Rqv) : Prop :=
  ∀ t task l, findTask ts t = some task → task.state = .runningMN l → isMultiNodeRq rqs task.rq = true

structure Inv4 (ts : List Task) (ws : List Worker) (rd : List (TaskId × Nat × Nat)) (rqs : List Rqv) : Prop where
  nd : (taskIds ts).Nodup
  ls : LS3 ts ws rd
  cw : CW3 ts
  mn : MN3 ts rqs

/-- the structural invariant of the core (stage 2) -/
def Inv (s : State) : Prop := Inv4 s.tasks s.workers s.redirects s.rqs

/-- the four components the invariant reads are unchanged -/
structure CoreEq (s s' : State) : Prop where
  t : s'.tasks = s.tasks
  w : s'.workers = s.workers
  r : s'.redirects = s.redirects
  q : s'.rqs = s.rqs

theorem CoreEq.refl (s : State) : CoreEq s s := ⟨rfl, rfl, rfl, rfl⟩
theorem CoreEq.trans {a b c : State} (h1 : CoreEq a b) (h2 : CoreEq b c) : CoreEq a c :=
  ⟨h2.t.trans h1.t, h2.w.trans h1.w, h2.r.trans h1.r, h2.q.trans h1.q⟩
theorem CoreEq.inv {s s' : State} (h : CoreEq s s') (hi : Inv s) : Inv s' := by
  unfold Inv; rw [h.t, h.w, h.r, h.q]; exact hi
theorem CoreEq.free {s s' : State} (h : CoreEq s s') {t : TaskId} (hf : Free s t) : Free s' t := by
  unfold Free; rw [h.w, h.r]; exact hf
theorem CoreEq.ask (s : State) : CoreEq s (ask s) := ⟨rfl, rfl, rfl, rfl⟩

/-- only the worker map and the redirect table change -/
theorem Inv4.workers {ts ws rd rqs ws' rd'} (h : Inv4 ts ws rd rqs) (hl : LS3 ts ws' rd') : Inv4 ts ws' rd' rqs :=
  ⟨h.nd, hl, h.cw, h.mn⟩

/-- one task record is replaced: same consumers and request, Waiting stays Waiting, no new multi-node state -/
theorem Inv4.put {ts ws rd rqs ws' rd'} (h : Inv4 ts ws rd rqs) {t' told : Task}
    (ht : findTask ts t'.id = some told) (hc : t'.consumers = told.consumers) (hq : t'.rq = told.rq)
    (hw : isWaiting told.state → isWaiting t'.state)
    (hm : ∀ l', t'.state = .runningMN l' → ∃ l, told.state = .runningMN l)
    (hl : LS3 (putTask ts t') ws' rd') : Inv4 (putTask ts t') ws' rd' rqs := by
  refine ⟨by rw [taskIds_putTask]; exact h.nd, hl, ?_, ?_⟩
  · intro d dt hd c hcm st hst
    rw [findTask_putTask] at hd
    rw [stOf_put ht] at hst
    have hcons : ∃ dt0, findTask ts d = some dt0 ∧ c ∈ dt0.consumers := by
      split at hd
      · rename_i e
        rw [e, ht] at hd; simp at hd; subst hd
        exact ⟨told, by rw [e]; exact ht, hc ▸ hcm⟩
      · exact ⟨dt, hd, hcm⟩
    obtain ⟨dt0, hd0, hc0⟩ := hcons
    split at hst
    · rename_i e
      cases hst
      apply hw
      exact h.cw d dt0 hd0 c hc0 told.state (by rw [e, stOf_of_find ht])
    · exact h.cw d dt0 hd0 c hc0 st hst
  · intro t task l hf hs
    rw [findTask_putTask] at hf
    split at hf
    · rename_i e
      rw [e, ht] at hf; simp at hf; subst hf
      obtain ⟨l0, hl0⟩ := hm l hs
      rw [hq]; exact h.mn _ told l0 ht hl0
    · exact h.mn t task l hf hs

theorem Inv.ls' {s : State} (h : Inv s) : LS3 s.tasks s.workers s.redirects := h.ls

theorem Inv.free_of_state {s : State} (h : Inv s) {t : TaskId}
    (hs : stOf s.tasks t = none ∨ (∃ n, stOf s.tasks t = some (.waiting n)) ∨ stOf s.tasks t = some .finished) :
    Free s t := h.ls.free_of_state hs

/-! ### queue-only functions -/

theorem addReady_core {s s' : State} {t : Task} {r : List TaskId} (h : s.addReady t = .ok (s', r)) : CoreEq s s' := by
  simp only [State.addReady] at h
  split at h
  · cases h
  · cases h; exact ⟨rfl, rfl, rfl, rfl⟩

theorem queueRemove_core {s s' : State} {rq : Nat} {t : TaskId} {p : Int} (h : s.queueRemove rq t p = .ok s') :
    CoreEq s s' := by
  simp only [State.queueRemove] at h
  split at h
  · cases h
  · cases h; exact ⟨rfl, rfl, rfl, rfl⟩

theorem removePrefilled_core {s s' : State} {rq : Nat} {t : TaskId} (h : s.removePrefilled rq t = .ok s') :
    CoreEq s s' := by
  simp only [State.removePrefilled] at h
  repeat' (split at h)
  all_goals cases h
  all_goals exact ⟨rfl, rfl, rfl, rfl⟩

theorem movePrefilledToReady_core {s s' : State} {rq : Nat} {t : TaskId} (h : s.movePrefilledToReady rq t = .ok s') :
    CoreEq s s' := by
  simp only [State.movePrefilledToReady] at h
  repeat' (split at h)
  all_goals cases h
  all_goals exact ⟨rfl, rfl, rfl, rfl⟩

/-! ### `process_retracted` -/

theorem processRetracted_inv (l : List TaskId) (s s' : State) (acc acc' : List (Nat × TaskId))
    (hi : Inv s) (h : s.processRetracted l acc = .ok (s', acc')) : Inv s' := by
  induction l generalizing s acc with
  | nil => simp only [State.processRetracted] at h; cases h; exact hi
  | cons t rest ih =>
    simp only [State.processRetracted] at h
    split at h
    · cases h
    · rename_i task hg
      have hft := getTask_spec hg
      split at h
      · rename_i w hs
        split at h
        · cases h
        · rename_i s1 hw
          obtain ⟨wk, wk', hfw, hf, rfl⟩ := withWorker_spec hw
          obtain ⟨A, F, P, ha, hm, rfl⟩ := removePrefill_spec hf
          refine ih _ _ ?_ h
          have hid : task.id = t := findTask_some_id hft
          have hwid : wk.id = w := findWorker_some_id hfw
          show Inv4 (putTask s.tasks _) (putWorker s.workers _) s.redirects s.rqs
          refine hi.put (told := task) (by simpa [hid] using hft) rfl rfl (by simp [hs, isWaiting]) (by simp) ?_
          exact hi.ls.mv_retract (told := task) (wk := wk) (by simpa [hid] using hft) (by simp [hs, hwid]) (by simp [hwid])
            (by simpa [hwid] using hfw) (by simp [wAsg, ha]) (by simp [wPre, ha, hid]) (by simp [wMn, ha])
      · cases h

theorem retract_inv {s s' : State} {l : List TaskId} {o : Out} (hi : Inv s) (h : s.retract l = .ok (s', o)) : Inv s' := by
  simp only [State.retract] at h
  split at h
  · cases h
  · rename_i s1 pairs hp
    cases h
    exact processRetracted_inv _ _ _ _ _ hi hp

end HqModel.Core
