import HqModel.Lemmas.CoreInvMoves
/-!
Stage 2, part 3: the structural invariant `Inv` of the core model and its preservation by the functions of
`Model.lean` and `Reactor.lean`.

`Inv s` =
* task ids are unique (`nd`),
* `LS3` — list → state: what `Worker::sanity_check` asserts about `assigned_tasks` / `prefilled_tasks` / the
  multi-node assignment and the shape of the redirect table (`ls`),
* `CW3` — every registered consumer of a task in the map is Waiting (`cw`; `on_cancel_tasks` removes the
  recursive consumers of a cancelled task without looking at their state, so `ls` is not inductive without it),
* `MN3` — a task in state RunningMultiNode has a multi-node request (`mn`; `task_failed` chooses the branch by the
  request, not by the state).
-/
namespace HqModel.Core

def isWaiting : TS → Prop
  | .waiting _ => True
  | _ => False

instance : DecidablePred isWaiting := fun st => by cases st <;> simp only [isWaiting] <;> infer_instance

def CW3 (ts : List Task) : Prop :=
  ∀ d dt, findTask ts d = some dt → ∀ c ∈ dt.consumers, ∀ st, stOf ts c = some st → isWaiting st

def isMultiNodeRq (rqs : List Rqv) (rq : Nat) : Bool :=
  match rqs[rq]? with
  | some (r :: _) => r.nNodes > 0
  | _ => false

theorem isMultiNode_eq (s : State) (rq : Nat) : s.isMultiNode rq = isMultiNodeRq s.rqs rq := rfl

def MN3 (ts : List Task) (rqs : List Rqv) : Prop :=
  ∀ t task l, findTask ts t = some task → task.state = .runningMN l → isMultiNodeRq rqs task.rq = true

structure Inv4 (ts : List Task) (ws : List Worker) (rd : List (TaskId × Nat × Nat)) (rqs : List Rqv) : Prop where
  nd : (taskIds ts).Nodup
  ls : LS3 ts ws rd
  cw : CW3 ts
  mn : MN3 ts rqs

/-- the structural invariant of the core (stage 2) -/
def Inv (s : State) : Prop := Inv4 s.tasks s.workers s.redirects s.rqs

/-- the four components the invariant reads are unchanged -/
structure CoreEq (s s' : State) : Prop where
  t : s'.tasks = s.tasks
  w : s'.workers = s.workers
  r : s'.redirects = s.redirects
  q : s'.rqs = s.rqs

theorem CoreEq.refl (s : State) : CoreEq s s := ⟨rfl, rfl, rfl, rfl⟩
theorem CoreEq.trans {a b c : State} (h1 : CoreEq a b) (h2 : CoreEq b c) : CoreEq a c :=
  ⟨h2.t.trans h1.t, h2.w.trans h1.w, h2.r.trans h1.r, h2.q.trans h1.q⟩
theorem CoreEq.inv {s s' : State} (h : CoreEq s s') (hi : Inv s) : Inv s' := by
  unfold Inv; rw [h.t, h.w, h.r, h.q]; exact hi
theorem CoreEq.free {s s' : State} (h : CoreEq s s') {t : TaskId} (hf : Free s t) : Free s' t := by
  unfold Free; rw [h.w, h.r]; exact hf
theorem CoreEq.ask (s : State) : CoreEq s (ask s) := ⟨rfl, rfl, rfl, rfl⟩

/-- only the worker map and the redirect table change -/
theorem Inv4.workers {ts ws rd rqs ws' rd'} (h : Inv4 ts ws rd rqs) (hl : LS3 ts ws' rd') : Inv4 ts ws' rd' rqs :=
  ⟨h.nd, hl, h.cw, h.mn⟩

/-- one task record is replaced: same consumers and request, Waiting stays Waiting, no new multi-node state -/
theorem Inv4.put {ts ws rd rqs ws' rd'} (h : Inv4 ts ws rd rqs) {t' told : Task}
    (ht : findTask ts t'.id = some told) (hc : t'.consumers = told.consumers) (hq : t'.rq = told.rq)
    (hw : isWaiting told.state → isWaiting t'.state)
    (hm : ∀ l', t'.state = .runningMN l' → ∃ l, told.state = .runningMN l)
    (hl : LS3 (putTask ts t') ws' rd') : Inv4 (putTask ts t') ws' rd' rqs := by
  refine ⟨by rw [taskIds_putTask]; exact h.nd, hl, ?_, ?_⟩
  · intro d dt hd c hcm st hst
    rw [findTask_putTask] at hd
    rw [stOf_put ht] at hst
    have hcons : ∃ dt0, findTask ts d = some dt0 ∧ c ∈ dt0.consumers := by
      split at hd
      · rename_i e
        rw [e, ht] at hd; simp at hd; subst hd
        exact ⟨told, by rw [e]; exact ht, hc ▸ hcm⟩
      · exact ⟨dt, hd, hcm⟩
    obtain ⟨dt0, hd0, hc0⟩ := hcons
    split at hst
    · rename_i e
      cases hst
      apply hw
      exact h.cw d dt0 hd0 c hc0 told.state (by rw [e, stOf_of_find ht])
    · exact h.cw d dt0 hd0 c hc0 st hst
  · intro t task l hf hs
    rw [findTask_putTask] at hf
    split at hf
    · rename_i e
      rw [e, ht] at hf; simp at hf; subst hf
      obtain ⟨l0, hl0⟩ := hm l hs
      rw [hq]; exact h.mn _ told l0 ht hl0
    · exact h.mn t task l hf hs

theorem Inv.ls' {s : State} (h : Inv s) : LS3 s.tasks s.workers s.redirects := h.ls

theorem Inv.free_of_state {s : State} (h : Inv s) {t : TaskId}
    (hs : stOf s.tasks t = none ∨ (∃ n, stOf s.tasks t = some (.waiting n)) ∨ stOf s.tasks t = some .finished) :
    Free s t := h.ls.free_of_state hs

/-! ### queue-only functions -/

theorem addReady_core {s s' : State} {t : Task} {r : List TaskId} (h : s.addReady t = .ok (s', r)) : CoreEq s s' := by
  simp only [State.addReady] at h
  split at h
  · cases h
  · cases h; exact ⟨rfl, rfl, rfl, rfl⟩

theorem queueRemove_core {s s' : State} {rq : Nat} {t : TaskId} {p : Int} (h : s.queueRemove rq t p = .ok s') :
    CoreEq s s' := by
  simp only [State.queueRemove] at h
  split at h
  · cases h
  · cases h; exact ⟨rfl, rfl, rfl, rfl⟩

theorem removePrefilled_core {s s' : State} {rq : Nat} {t : TaskId} (h : s.removePrefilled rq t = .ok s') :
    CoreEq s s' := by
  simp only [State.removePrefilled] at h
  repeat' (split at h)
  all_goals cases h
  all_goals exact ⟨rfl, rfl, rfl, rfl⟩

theorem movePrefilledToReady_core {s s' : State} {rq : Nat} {t : TaskId} (h : s.movePrefilledToReady rq t = .ok s') :
    CoreEq s s' := by
  simp only [State.movePrefilledToReady] at h
  repeat' (split at h)
  all_goals cases h
  all_goals exact ⟨rfl, rfl, rfl, rfl⟩

/-! ### `process_retracted` -/

theorem processRetracted_inv (l : List TaskId) (s s' : State) (acc acc' : List (Nat × TaskId))
    (hi : Inv s) (h : s.processRetracted l acc = .ok (s', acc')) : Inv s' := by
  induction l generalizing s acc with
  | nil => simp only [State.processRetracted] at h; cases h; exact hi
  | cons t rest ih =>
    simp only [State.processRetracted] at h
    split at h
    · cases h
    · rename_i task hg
      have hft := getTask_spec hg
      split at h
      · rename_i w hs
        split at h
        · cases h
        · rename_i s1 hw
          obtain ⟨wk, wk', hfw, hf, rfl⟩ := withWorker_spec hw
          obtain ⟨A, F, P, ha, hm, rfl⟩ := removePrefill_spec hf
          refine ih _ _ ?_ h
          have hid : task.id = t := findTask_some_id hft
          have hwid : wk.id = w := findWorker_some_id hfw
          show Inv4 (putTask s.tasks _) (putWorker s.workers _) s.redirects s.rqs
          refine hi.put (told := task) (by simpa [hid] using hft) rfl rfl (by simp [hs, isWaiting]) (by simp) ?_
          exact hi.ls.mv_retract (told := task) (wk := wk) (by simpa [hid] using hft) (by simp [hs, hwid]) (by simp [hwid])
            (by simpa [hwid] using hfw) (by simp [wAsg, ha]) (by simp [wPre, ha, hid]) (by simp [wMn, ha])
      · cases h

theorem retract_inv {s s' : State} {l : List TaskId} {o : Out} (hi : Inv s) (h : s.retract l = .ok (s', o)) : Inv s' := by
  simp only [State.retract] at h
  split at h
  · cases h
  · rename_i s1 pairs hp
    cases h
    exact processRetracted_inv _ _ _ _ _ hi hp

/-! ### task-map changes that keep every state -/

/-- ids, states and requests are the same; consumer lists lost members or gained `c` -/
def ConsRel (c : Option TaskId) (ts ts' : List Task) : Prop :=
  taskIds ts' = taskIds ts ∧
  ∀ u, (findTask ts u = none → findTask ts' u = none) ∧
    ∀ x, findTask ts u = some x → ∃ x', findTask ts' u = some x' ∧ x'.state = x.state ∧ x'.rq = x.rq ∧
      ∀ y ∈ x'.consumers, y ∈ x.consumers ∨ some y = c

theorem ConsRel.refl (c : Option TaskId) (ts : List Task) : ConsRel c ts ts :=
  ⟨rfl, fun _ => ⟨id, fun x hx => ⟨x, hx, rfl, rfl, fun _ hy => Or.inl hy⟩⟩⟩

theorem ConsRel.trans {c : Option TaskId} {a b d : List Task} (h1 : ConsRel c a b) (h2 : ConsRel c b d) : ConsRel c a d := by
  refine ⟨h2.1.trans h1.1, fun u => ⟨fun hn => (h2.2 u).1 ((h1.2 u).1 hn), ?_⟩⟩
  intro x hx
  obtain ⟨x', hx', e1, e2, e3⟩ := (h1.2 u).2 x hx
  obtain ⟨x'', hx'', f1, f2, f3⟩ := (h2.2 u).2 x' hx'
  refine ⟨x'', hx'', f1.trans e1, f2.trans e2, ?_⟩
  intro y hy
  rcases f3 y hy with h | h
  · exact e3 y h
  · exact Or.inr h

theorem ConsRel.put {c : Option TaskId} {ts : List Task} {t' told : Task} (ht : findTask ts t'.id = some told)
    (hs : t'.state = told.state) (hq : t'.rq = told.rq) (hc : ∀ y ∈ t'.consumers, y ∈ told.consumers ∨ some y = c) :
    ConsRel c ts (putTask ts t') := by
  refine ⟨taskIds_putTask _ _, fun u => ?_⟩
  rw [findTask_putTask]
  by_cases e : u = t'.id
  · subst e
    simp only [if_true, ht]
    refine ⟨fun h => (by cases h), fun x hx => ?_⟩
    simp only [Option.map_some, Option.some.injEq] at hx ⊢
    subst hx
    exact ⟨t', rfl, hs, hq, hc⟩
  · simp only [e, if_false]
    exact ⟨id, fun x hx => ⟨x, hx, rfl, rfl, fun _ hy => Or.inl hy⟩⟩

theorem ConsRel.stOf {c : Option TaskId} {ts ts' : List Task} (h : ConsRel c ts ts') (u : TaskId) : stOf ts' u = stOf ts u := by
  unfold Core.stOf
  cases hf : findTask ts u with
  | none => rw [(h.2 u).1 hf]
  | some x =>
    obtain ⟨x', hx', e, _⟩ := (h.2 u).2 x hf
    rw [hx']; simp [e]

/-- consumer lists only lose members -/
theorem Inv4.consShrink {ts ts' ws rd rqs} (h : Inv4 ts ws rd rqs) (hr : ConsRel none ts ts') : Inv4 ts' ws rd rqs := by
  refine ⟨by rw [hr.1]; exact h.nd, h.ls.congr_tasks hr.stOf, ?_, ?_⟩
  · intro d dt hd c hc st hst
    rw [hr.stOf] at hst
    cases hf : findTask ts d with
    | none => rw [(hr.2 d).1 hf] at hd; cases hd
    | some x =>
      obtain ⟨x', hx', _, _, e3⟩ := (hr.2 d).2 x hf
      rw [hx'] at hd; cases hd
      rcases e3 c hc with h1 | h1
      · exact h.cw d x hf c h1 st hst
      · cases h1
  · intro t task l hf hs
    cases hf0 : findTask ts t with
    | none => rw [(hr.2 t).1 hf0] at hf; cases hf
    | some x =>
      obtain ⟨x', hx', e1, e2, _⟩ := (hr.2 t).2 x hf0
      rw [hx'] at hf; cases hf
      rw [e2]; exact h.mn t x l hf0 (e1 ▸ hs)

/-- a free task is erased -/
theorem Inv4.erase {ts ws rd rqs} (h : Inv4 ts ws rd rqs) {t : TaskId} (hf : Free3 ws rd t) :
    Inv4 (eraseTask ts t) ws rd rqs := by
  have hfe := fun x => findTask_eraseTask h.nd t x
  refine ⟨(taskIds_eraseTask_sublist _ _).nodup h.nd, h.ls.mv_erase h.nd hf, ?_, ?_⟩
  · intro d dt hd c hc st hst
    rw [hfe] at hd
    unfold stOf at hst; rw [hfe] at hst
    split at hd
    · cases hd
    · split at hst
      · cases hst
      · exact h.cw d dt hd c hc st hst
  · intro u task l hu hs
    rw [hfe] at hu
    split at hu
    · cases hu
    · exact h.mn u task l hu hs

/-! ### `try_remove_redirection` -/

/-- what `try_remove_redirection` does to the four components -/
theorem tryRemoveRedirection_spec {s s' : State} {t : TaskId} {rq : Nat} (h : s.tryRemoveRedirection t rq = .ok s') :
    s'.tasks = s.tasks ∧ s'.rqs = s.rqs ∧
    ((s.redirects.find? (·.1 = t) = none ∧ s'.workers = s.workers ∧ s'.redirects = s.redirects) ∨
     (∃ w v r wk A F P F', s.redirects.find? (·.1 = t) = some (t, w, v) ∧ s.rq rq v = .ok r ∧
        findWorker s.workers w = some wk ∧ wk.assign = .sn A F P ∧ t ∈ A ∧ freeAdd F wk.total r.entries = .ok F' ∧
        s'.workers = putWorker s.workers { wk with assign := .sn (A.erase t) F' P } ∧
        s'.redirects = s.redirects.filter (·.1 ≠ t))) := by
  simp only [State.tryRemoveRedirection] at h
  split at h
  · rename_i hn
    cases h
    exact ⟨rfl, rfl, Or.inl ⟨hn, rfl, rfl⟩⟩
  · rename_i t0 w v hsome
    have ht0 : t0 = t := by have := (rd_mem_of_find hsome).2; simpa using this
    subst ht0
    split at h
    · cases h
    · rename_i r hr
      obtain ⟨wk, wk', hfw, hf, rfl⟩ := withWorker_spec h
      obtain ⟨A, F, P, F', ha, hfa, hm, rfl⟩ := removeSn_spec hf
      exact ⟨rfl, rfl, Or.inr ⟨w, v, r, wk, A, F, P, F', hsome, hr, hfw, ha, hm, hfa, rfl, rfl⟩⟩

/-- on the list → state invariant (for ANY task map: the function does not read it) -/
theorem tryRemoveRedirection_ls {s s' : State} {t : TaskId} {rq : Nat} {ts : List Task}
    (hl : LS3 ts s.workers s.redirects) (h : s.tryRemoveRedirection t rq = .ok s') :
    LS3 ts s'.workers s'.redirects ∧ Shr s.workers s.redirects s'.workers s'.redirects ∧
    (∀ x v, (t, x, v) ∉ s'.redirects) ∧
    (∀ w0, stOf ts t = some (.retracting w0) → Free3 s'.workers s'.redirects t) := by
  obtain ⟨_, _, hc⟩ := tryRemoveRedirection_spec h
  rcases hc with ⟨hn, hw, hr⟩ | ⟨w, v, r, wk, A, F, P, F', hsome, _, hfw, ha, hm, _, hw, hr⟩
  · rw [hw, hr]
    refine ⟨hl, Shr.refl _ _, fun x v => rd_find_none hn x v, ?_⟩
    intro w0 hs
    exact hl.free_of_retracting hs (fun x v => rd_find_none hn x v)
  · rw [hw, hr]
    have hmem : (t, w, v) ∈ s.redirects := (rd_mem_of_find hsome).1
    have hwid : wk.id = w := findWorker_some_id hfw
    refine ⟨?_, ?_, ?_, ?_⟩
    · exact hl.mv_unredirect (v := v) (wk := wk) (by simpa [hwid] using hmem) (by simpa [hwid] using hfw)
        (by simp [wAsg, ha]) (by simp [wPre, ha]) (by simp [wMn, ha])
    · refine ⟨?_, ?_, ?_, fun x hx => (List.mem_filter.mp hx).1⟩
      · exact (Shr.put (rd := s.redirects) (wk := wk) (wk' := { wk with assign := .sn (A.erase t) F' P })
          (by simpa [hwid] using hfw) (by simp [wAsg, ha]; exact List.erase_sublist) (by simp [wPre, ha])
          (by simp [wMn, ha])).a
      · exact (Shr.put (rd := s.redirects) (wk := wk) (wk' := { wk with assign := .sn (A.erase t) F' P })
          (by simpa [hwid] using hfw) (by simp [wAsg, ha]; exact List.erase_sublist) (by simp [wPre, ha])
          (by simp [wMn, ha])).p
      · exact (Shr.put (rd := s.redirects) (wk := wk) (wk' := { wk with assign := .sn (A.erase t) F' P })
          (by simpa [hwid] using hfw) (by simp [wAsg, ha]; exact List.erase_sublist) (by simp [wPre, ha])
          (by simp [wMn, ha])).m
    · intro x v' hx
      have := (List.mem_filter.mp hx).2
      simp at this
    · intro w0 hs
      exact hl.free_after_unredirect (v := v) (wk := wk) hs (by simpa [hwid] using hmem) (by simpa [hwid] using hfw)
        (by simp [wAsg, ha]) (by simp [wPre, ha]) (by simp [wMn, ha])

/-! ### `Core::remove_task` -/

theorem removeConsumer_rel {ts ts' : List Task} {d c : TaskId} (h : removeConsumer ts d c = .ok ts') :
    ConsRel none ts ts' := by
  simp only [removeConsumer] at h
  split at h
  · cases h; exact ConsRel.refl _ _
  · rename_i dt hd
    split at h
    · cases h
    · cases h
      have hid : dt.id = d := findTask_some_id hd
      exact ConsRel.put (told := dt) (by simpa [hid] using hd) rfl rfl
        (fun y hy => Or.inl (List.mem_of_mem_erase hy))

theorem removeConsumers_rel (deps : List TaskId) (ts ts' : List Task) (c : TaskId)
    (h : removeConsumers ts c deps = .ok ts') : ConsRel none ts ts' := by
  induction deps generalizing ts with
  | nil => simp only [removeConsumers] at h; cases h; exact ConsRel.refl _ _
  | cons d rest ih =>
    simp only [removeConsumers] at h
    split at h
    · cases h
    · rename_i ts1 h1
      exact (removeConsumer_rel h1).trans (ih _ h)

/-- `remove_task`: the returned state is the task's state; the task map is the erased one up to consumer lists -/
theorem removeTask_spec {s s' : State} {id : TaskId} {st : TS} (h : s.removeTask id = .ok (s', st)) :
    stOf s.tasks id = some st ∧ s'.workers = s.workers ∧ s'.redirects = s.redirects ∧ s'.rqs = s.rqs ∧
    ConsRel none (eraseTask s.tasks id) s'.tasks := by
  simp only [State.removeTask, State.task?] at h
  split at h
  · cases h
  · rename_i task ht
    have hst := stOf_of_find ht
    split at h
    · split at h
      · cases h
      · rename_i s1 hq
        have hc := queueRemove_core hq
        split at h
        · split at h
          · cases h
          · rename_i ts hrc
            cases h
            refine ⟨hst, hc.w, hc.r, hc.q, ?_⟩
            have := removeConsumers_rel _ _ _ _ hrc
            rw [hc.t] at this
            exact this
        · cases h
          exact ⟨hst, hc.w, hc.r, hc.q, by rw [hc.t]; exact ConsRel.refl _ _⟩
    · split at h
      · cases h
      · rename_i s1 hq
        have hc := queueRemove_core hq
        cases h
        exact ⟨hst, hc.w, hc.r, hc.q, by rw [hc.t]; exact ConsRel.refl _ _⟩
    · cases h
      exact ⟨hst, rfl, rfl, rfl, ConsRel.refl _ _⟩

theorem removeTask_inv {s s' : State} {id : TaskId} {st : TS} (hi : Inv s) (hf : Free s id)
    (h : s.removeTask id = .ok (s', st)) : Inv s' := by
  obtain ⟨_, hw, hr, hq, hc⟩ := removeTask_spec h
  unfold Inv; rw [hw, hr, hq]
  exact (Inv4.erase hi hf).consShrink hc

/-- removal does not touch workers and redirects: detached tasks stay detached -/
theorem removeTask_free {s s' : State} {id u : TaskId} {st : TS} (hf : Free s u)
    (h : s.removeTask id = .ok (s', st)) : Free s' u := by
  obtain ⟨_, hw, hr, _, _⟩ := removeTask_spec h
  unfold Free; rw [hw, hr]; exact hf

/-! ### `on_new_tasks` -/

theorem registerDeps_rel (deps : List TaskId) (ts : List Task) (id : TaskId) :
    ConsRel (some id) ts (registerDeps ts id deps).1 := by
  induction deps generalizing ts with
  | nil => exact ConsRel.refl _ _
  | cons d rest ih =>
    simp only [registerDeps]
    split
    · exact ih ts
    · rename_i dep hd
      have hid : dep.id = d := findTask_some_id hd
      refine ConsRel.trans (ConsRel.put (told := dep) (t' := { dep with consumers :=
        if (dep.consumers.contains id) then dep.consumers else dep.consumers ++ [id] }) (by simpa [hid] using hd) rfl rfl ?_) (ih _)
      intro y hy
      simp only at hy
      split at hy
      · exact Or.inl hy
      · rcases List.mem_append.mp hy with h | h
        · exact Or.inl h
        · simp only [List.mem_singleton] at h; exact Or.inr (by rw [h])

/-- a new Waiting task with an unknown id is added after its consumer registrations -/
theorem Inv4.add_task {ts ts1 ws rd rqs} (h : Inv4 ts ws rd rqs) {task : Task} (hr : ConsRel (some task.id) ts ts1)
    (hn : findTask ts1 task.id = none) (hs : isWaiting task.state) (hc : task.consumers = []) :
    Inv4 (ts1 ++ [task]) ws rd rqs := by
  have hfa := findTask_append ts1 task
  have hst1 : ∀ u, stOf ts1 u = stOf ts u := hr.stOf
  have hmono : ∀ u st, stOf ts u = some st → stOf (ts1 ++ [task]) u = some st := by
    intro u st hu
    rw [← hst1] at hu
    obtain ⟨x, hx, e⟩ := stOf_some hu
    unfold stOf; rw [hfa, hx]; simp [e]
  refine ⟨?_, h.ls.extend hmono, ?_, ?_⟩
  · simp only [taskIds, List.map_append, List.map_cons, List.map_nil]
    rw [List.nodup_append]
    refine ⟨by have := h.nd; rw [← hr.1] at this; exact this, by simp, ?_⟩
    intro a ha b hb
    simp only [List.mem_singleton] at hb
    subst hb; intro e; subst e
    exact not_mem_of_findTask_none hn ha
  · intro d dt hd c hcm st hst
    -- the state of `c` in the new map
    have hcst : c = task.id ∨ stOf ts c = some st := by
      unfold stOf at hst; rw [hfa] at hst
      cases hf : findTask ts1 c with
      | none =>
        rw [hf] at hst
        simp only at hst
        split at hst
        · rename_i e; exact Or.inl e.symm
        · cases hst
      | some x =>
        rw [hf] at hst
        right; rw [← hst1]; unfold stOf; rw [hf]; exact hst
    rw [hfa] at hd
    cases hf : findTask ts1 d with
    | none =>
      rw [hf] at hd
      simp only at hd
      split at hd
      · cases hd; rw [hc] at hcm; cases hcm
      · cases hd
    | some x =>
      rw [hf] at hd; cases hd
      rcases hcst with e | hcs
      · -- the new task itself
        subst e
        unfold stOf at hst; rw [hfa, hn] at hst
        simp at hst; rw [← hst]; exact hs
      · -- an old task: it was a consumer before (or it is the new id, which is impossible as it has a state)
        cases hf0 : findTask ts d with
        | none => rw [(hr.2 d).1 hf0] at hf; cases hf
        | some x0 =>
          obtain ⟨x', hx', _, _, e3⟩ := (hr.2 d).2 x0 hf0
          rw [hx'] at hf; cases hf
          rcases e3 c hcm with h1 | h1
          · exact h.cw d x0 hf0 c h1 st hcs
          · cases h1
            rw [← hst1] at hcs
            unfold stOf at hcs; rw [hn] at hcs; cases hcs
  · intro t tk l hf hsl
    rw [hfa] at hf
    cases hf1 : findTask ts1 t with
    | none =>
      rw [hf1] at hf
      simp only at hf
      split at hf
      · cases hf; rw [hsl] at hs; cases hs
      · cases hf
    | some x =>
      rw [hf1] at hf; cases hf
      cases hf0 : findTask ts t with
      | none => rw [(hr.2 t).1 hf0] at hf1; cases hf1
      | some x0 =>
        obtain ⟨x', hx', e1, e2, _⟩ := (hr.2 t).2 x0 hf0
        rw [hx'] at hf1; cases hf1
        rw [e2]; exact h.mn t x0 l hf0 (e1 ▸ hsl)

theorem addNewTasks_inv (nts : List NewTask) (s s' : State) (r r' : List TaskId)
    (hi : Inv s) (h : s.addNewTasks nts r = .ok (s', r')) : Inv s' := by
  induction nts generalizing s r with
  | nil => simp only [State.addNewTasks] at h; cases h; exact hi
  | cons nt rest ih =>
    simp only [State.addNewTasks] at h
    have hreg := registerDeps_rel nt.deps s.tasks nt.id
    generalize registerDeps s.tasks nt.id nt.deps = reg at h hreg
    obtain ⟨ts, kept, n⟩ := reg
    simp only at h hreg
    split at h
    · cases h
    · rename_i hf
      have hnone : findTask ts nt.id = none := by
        cases hx : findTask ts nt.id with
        | none => rfl
        | some x => simp [hx] at hf
      have key : ∀ task : Task, task.id = nt.id → isWaiting task.state → task.consumers = [] →
          Inv4 (ts ++ [task]) s.workers s.redirects s.rqs := by
        intro task e1 e2 e3
        exact Inv4.add_task hi (by rw [e1]; exact hreg) (by rw [e1]; exact hnone) e2 e3
      split at h
      · split at h
        · cases h
        · rename_i s2 r2 ha
          have hc := addReady_core ha
          refine ih _ _ ?_ h
          unfold Inv
          simp only [hc.t, hc.w, hc.r, hc.q]
          exact key _ rfl (by trivial) rfl
      · refine ih _ _ ?_ h
        exact key _ rfl (by trivial) rfl

theorem newTasks_inv {s s' : State} {nts : List NewTask} {o : Out} (hi : Inv s) (h : s.newTasks nts = .ok (s', o)) :
    Inv s' := by
  simp only [State.newTasks] at h
  split at h
  · cases h
  · split at h
    · cases h
    · rename_i s1 retracted h1
      split at h
      · cases h
      · rename_i s2 out h2
        cases h
        exact (CoreEq.ask s2).inv (retract_inv (addNewTasks_inv _ _ _ _ _ hi h1) h2)

/-! ### resetting multi-node workers -/

theorem emptySn_views (wk : Worker) : wAsg wk.emptySn = [] ∧ wPre wk.emptySn = [] ∧ wMn wk.emptySn = none ∧
    wk.emptySn.id = wk.id := ⟨rfl, rfl, rfl, rfl⟩

/-- `reset_mn_task` on a list of workers, for ANY task map -/
theorem resetMnAll_ls (l : List Nat) (s s' : State) {ts : List Task}
    (hl : LS3 ts s.workers s.redirects) (h : resetMnAll s l = .ok s') :
    LS3 ts s'.workers s'.redirects ∧ Shr s.workers s.redirects s'.workers s'.redirects ∧
    s'.tasks = s.tasks ∧ s'.redirects = s.redirects ∧ s'.rqs = s.rqs ∧ ∀ x ∈ l, mnW s'.workers x = none := by
  induction l generalizing s with
  | nil =>
    simp only [resetMnAll] at h; cases h
    exact ⟨hl, Shr.refl _ _, rfl, rfl, rfl, fun _ hx => by cases hx⟩
  | cons w rest ih =>
    simp only [resetMnAll] at h
    split at h
    · cases h
    · rename_i wk hg
      have hfw := getWorker_spec hg
      have hwid : wk.id = w := findWorker_some_id hfw
      have hfw' : findWorker s.workers wk.emptySn.id = some wk := by simpa [Worker.emptySn, hwid] using hfw
      have hl1 : LS3 ts (s.setWorker wk.emptySn).workers (s.setWorker wk.emptySn).redirects :=
        hl.mv_worker_shrink hfw' (List.nil_sublist _) (List.nil_sublist _) (fun u hu => by cases hu)
      have hs1 : Shr s.workers s.redirects (s.setWorker wk.emptySn).workers (s.setWorker wk.emptySn).redirects :=
        Shr.put hfw' (List.nil_sublist _) (List.nil_sublist _) (fun u hu => by cases hu)
      obtain ⟨a, b, c, d, e, f⟩ := ih _ hl1 h
      refine ⟨a, hs1.trans b, c, d, e, ?_⟩
      intro x hx
      simp only [List.mem_cons] at hx
      rcases hx with rfl | hx
      · -- reset here; later resets only shrink
        cases hm : mnW s'.workers x with
        | none => rfl
        | some u =>
          have := b.m x u hm
          have e2 : mnW (putWorker s.workers wk.emptySn) x = none := by
            rw [mnW_put hfw']; simp [Worker.emptySn, hwid, wMn]
          rw [show (s.setWorker wk.emptySn).workers = putWorker s.workers wk.emptySn from rfl, e2] at this
          cases this
      · exact f x hx

theorem resetMnChecked_ls (l : List Nat) (s s' : State) (id : TaskId) {ts : List Task}
    (hl : LS3 ts s.workers s.redirects) (h : resetMnChecked s id l = .ok s') :
    LS3 ts s'.workers s'.redirects ∧ Shr s.workers s.redirects s'.workers s'.redirects ∧
    s'.tasks = s.tasks ∧ s'.redirects = s.redirects ∧ s'.rqs = s.rqs ∧ ∀ x ∈ l, mnW s'.workers x = none := by
  induction l generalizing s with
  | nil =>
    simp only [resetMnChecked] at h; cases h
    exact ⟨hl, Shr.refl _ _, rfl, rfl, rfl, fun _ hx => by cases hx⟩
  | cons w rest ih =>
    simp only [resetMnChecked] at h
    split at h
    · cases h
    · rename_i wk hg
      split at h
      · split at h
        · cases h
        · have hfw := getWorker_spec hg
          have hwid : wk.id = w := findWorker_some_id hfw
          have hfw' : findWorker s.workers wk.emptySn.id = some wk := by simpa [Worker.emptySn, hwid] using hfw
          have hl1 : LS3 ts (s.setWorker wk.emptySn).workers (s.setWorker wk.emptySn).redirects :=
            hl.mv_worker_shrink hfw' (List.nil_sublist _) (List.nil_sublist _) (fun u hu => by cases hu)
          have hs1 : Shr s.workers s.redirects (s.setWorker wk.emptySn).workers (s.setWorker wk.emptySn).redirects :=
            Shr.put hfw' (List.nil_sublist _) (List.nil_sublist _) (fun u hu => by cases hu)
          obtain ⟨a, b, c, d, e, f⟩ := ih _ hl1 h
          refine ⟨a, hs1.trans b, c, d, e, ?_⟩
          intro x hx
          simp only [List.mem_cons] at hx
          rcases hx with rfl | hx
          · cases hm : mnW s'.workers x with
            | none => rfl
            | some u =>
              have := b.m x u hm
              have e2 : mnW (putWorker s.workers wk.emptySn) x = none := by
                rw [mnW_put hfw']; simp [Worker.emptySn, hwid, wMn]
              rw [show (s.setWorker wk.emptySn).workers = putWorker s.workers wk.emptySn from rfl, e2] at this
              cases this
          · exact f x hx
      · cases h

/-- a multi-node task none of whose workers is reserved for it any more is free -/
theorem LS3.free_of_mn {ts ws rd} (h : LS3 ts ws rd) {t : TaskId} {l : List Nat}
    (hs : stOf ts t = some (.runningMN l)) (hn : ∀ x, mnW ws x ≠ some t) : Free3 ws rd t := by
  have ha1 := h.a1
  have ha2 := h.a2
  have hd1 := h.d1
  refine ⟨?_, ?_, hn, ?_⟩
  · grind [Holds]
  · grind
  · grind

/-- after resetting every worker of the task's list -/
theorem free_after_reset {ts ws rd ws'} (h : LS3 ts ws rd) (h' : LS3 ts ws' rd) {t : TaskId} {l : List Nat}
    (hs : stOf ts t = some (.runningMN l)) (hshr : Shr ws rd ws' rd) (hnone : ∀ x ∈ l, mnW ws' x = none) :
    Free3 ws' rd t := by
  refine h'.free_of_mn hs ?_
  intro x hx
  obtain ⟨l', h1, h2⟩ := h.m1 x t (hshr.m x t hx)
  rw [hs] at h1; cases h1
  rw [hnone x h2] at hx; cases hx

/-! ### `on_cancel_tasks` -/

theorem mem_unionTids {a b : List TaskId} {x : TaskId} : x ∈ unionTids a b ↔ x ∈ a ∨ x ∈ b := by
  unfold unionTids
  induction b generalizing a with
  | nil => simp
  | cons y ys ih =>
    simp only [List.foldl_cons]
    rw [ih]
    by_cases hc : a.contains y = true
    · simp only [hc, if_true, List.mem_cons]
      have : y ∈ a := by simpa using hc
      constructor
      · rintro (h | h)
        · exact Or.inl h
        · exact Or.inr (Or.inr h)
      · rintro (h | h | h)
        · exact Or.inl h
        · subst h; exact Or.inl this
        · exact Or.inr h
    · simp only [hc, List.mem_cons, Bool.false_eq_true, if_false, List.mem_append, List.mem_singleton, List.not_mem_nil, or_false]
      constructor
      · rintro ((h | h) | h)
        · exact Or.inl h
        · exact Or.inr (Or.inl h)
        · exact Or.inr (Or.inr h)
      · rintro (h | h | h)
        · exact Or.inl (Or.inl h)
        · exact Or.inl (Or.inr h)
        · exact Or.inr h

/-- everything `collect_recursive_consumers` returns is a registered consumer of a task in the map -/
theorem collectConsumers_mem (ts : List Task) (fuel : Nat) (stack out res : List TaskId)
    (h : collectConsumers ts fuel stack out = .ok res) :
    ∀ c ∈ res, c ∈ out ∨ ∃ d dt, findTask ts d = some dt ∧ c ∈ dt.consumers := by
  induction fuel generalizing stack out with
  | zero => simp only [collectConsumers] at h; cases h; exact fun c hc => Or.inl hc
  | succ n ih =>
    cases stack with
    | nil => simp only [collectConsumers] at h; cases h; exact fun c hc => Or.inl hc
    | cons t rest =>
      simp only [collectConsumers] at h
      split at h
      · cases h
      · rename_i task ht
        intro c hc
        rcases ih _ _ h c hc with h1 | h1
        · rcases List.mem_append.mp h1 with h2 | h2
          · exact Or.inl h2
          · right
            have := (List.mem_filter.mp (List.mem_eraseDups.mp h2)).1
            exact ⟨t, task, ht, this⟩
        · exact Or.inr h1

theorem recursiveConsumers_mem {s : State} {id : TaskId} {task : Task} {cons : List TaskId}
    (ht : findTask s.tasks id = some task) (h : s.recursiveConsumers task = .ok cons) :
    ∀ c ∈ cons, ∃ d dt, findTask s.tasks d = some dt ∧ c ∈ dt.consumers := by
  intro c hc
  simp only [State.recursiveConsumers] at h
  rcases collectConsumers_mem _ _ _ _ _ h c hc with h1 | h1
  · exact ⟨id, task, ht, List.mem_eraseDups.mp h1⟩
  · exact h1

/-- a registered consumer of a task in the map is free (it is Waiting or unknown) -/
theorem Inv.free_of_consumer {s : State} (hi : Inv s) {c : TaskId}
    (hc : ∃ d dt, findTask s.tasks d = some dt ∧ c ∈ dt.consumers) : Free s c := by
  obtain ⟨d, dt, hd, hcm⟩ := hc
  apply hi.free_of_state
  cases hs : stOf s.tasks c with
  | none => exact Or.inl rfl
  | some st =>
    have := hi.cw d dt hd c hcm st hs
    cases st <;> simp only [isWaiting] at this
    exact Or.inr (Or.inl ⟨_, rfl⟩)

theorem cancel_step {s s1 : State} {id : TaskId} {task : Task} {cons unreg : List TaskId}
    (ht : findTask s.tasks id = some task) (hcons : s.recursiveConsumers task = .ok cons)
    (hu : ∀ x ∈ unreg, Free s x) (hi1 : Inv s1) (hshr : Shr s.workers s.redirects s1.workers s1.redirects)
    (htasks : s1.tasks = s.tasks) (hfree : Free s1 id) :
    ∀ x ∈ unionTids (unionTids unreg [id]) cons, Free s1 x := by
  intro x hx
  rcases mem_unionTids.mp hx with h1 | h1
  · rcases mem_unionTids.mp h1 with h2 | h2
    · exact hshr.free (hu x h2)
    · simp only [List.mem_singleton] at h2; subst h2; exact hfree
  · apply hi1.free_of_consumer
    rw [htasks]
    exact recursiveConsumers_mem ht hcons x h1

/-- the sets of a worker after `remove_sn_task` / `remove_prefill_task` -/
theorem removeSn_detach {s : State} {ts : List Task} (hl : LS3 ts s.workers s.redirects) {w : Nat} {id : TaskId} {r : Rq}
    {s1 : State} (h : s.withWorker w (·.removeSn id r) = .ok s1) :
    LS3 ts s1.workers s1.redirects ∧ Shr s.workers s.redirects s1.workers s1.redirects ∧
    s1.tasks = s.tasks ∧ s1.redirects = s.redirects ∧ s1.rqs = s.rqs ∧
    (∀ st, stOf ts id = some st → ((∃ v, st = .assigned w v) ∨ (∃ v, st = .running w v)) → Free3 s1.workers s1.redirects id) := by
  obtain ⟨wk, wk', hfw, hf, rfl⟩ := withWorker_spec h
  obtain ⟨A, F, P, F', ha, _, hm, rfl⟩ := removeSn_spec hf
  have hwid : wk.id = w := findWorker_some_id hfw
  refine ⟨?_, ?_, rfl, rfl, rfl, ?_⟩
  · exact hl.mv_worker_shrink (wk := wk) (by simpa [hwid] using hfw) (by simp [wAsg, ha]; exact List.erase_sublist)
      (by simp [wPre, ha]) (by simp [wMn, ha])
  · exact Shr.put (wk := wk) (by simpa [hwid] using hfw) (by simp [wAsg, ha]; exact List.erase_sublist)
      (by simp [wPre, ha]) (by simp [wMn, ha])
  · intro st hs hst
    exact hl.free_after_removeSn (wk := wk) hs (by simpa [hwid] using hst) (by simpa [hwid] using hfw)
      (by simp [wAsg, ha]) (by simp [wPre, ha]) (by simp [wMn, ha])

theorem removePrefill_detach {s : State} {ts : List Task} (hl : LS3 ts s.workers s.redirects) {w : Nat} {id : TaskId}
    {s1 : State} (h : s.withWorker w (·.removePrefill id) = .ok s1) :
    LS3 ts s1.workers s1.redirects ∧ Shr s.workers s.redirects s1.workers s1.redirects ∧
    s1.tasks = s.tasks ∧ s1.redirects = s.redirects ∧ s1.rqs = s.rqs ∧
    Free3 s1.workers s1.redirects id ∧ stOf ts id = some (.prefilled w) := by
  obtain ⟨wk, wk', hfw, hf, rfl⟩ := withWorker_spec h
  obtain ⟨A, F, P, ha, hm, rfl⟩ := removePrefill_spec hf
  have hwid : wk.id = w := findWorker_some_id hfw
  refine ⟨?_, ?_, rfl, rfl, rfl, ?_, ?_⟩
  · exact hl.mv_worker_shrink (wk := wk) (by simpa [hwid] using hfw) (by simp [wAsg, ha])
      (by simp [wPre, ha]; exact List.erase_sublist) (by simp [wMn, ha])
  · exact Shr.put (wk := wk) (by simpa [hwid] using hfw) (by simp [wAsg, ha])
      (by simp [wPre, ha]; exact List.erase_sublist) (by simp [wMn, ha])
  · exact hl.free_after_removePrefill (wk := wk) (by simp [wPre, ha]; exact hm) (by simpa [hwid] using hfw)
      (by simp [wAsg, ha]) (by simp [wPre, ha]) (by simp [wMn, ha])
  · apply hl.a2
    rw [preW_of_find hfw]; simp [wPre, ha]; exact hm

theorem cancelLoop_inv (ids : List TaskId) (s s' : State) (u u' : List TaskId) (r r' : List (Nat × List TaskId))
    (hi : Inv s) (hu : ∀ x ∈ u, Free s x) (h : s.cancelLoop ids u r = .ok (s', u', r')) :
    Inv s' ∧ ∀ x ∈ u', Free s' x := by
  induction ids generalizing s u r with
  | nil => simp only [State.cancelLoop] at h; cases h; exact ⟨hi, hu⟩
  | cons id rest ih =>
    simp only [State.cancelLoop, State.task?] at h
    split at h
    · exact ih _ _ _ hi hu h
    · rename_i task ht
      have hst := stOf_of_find ht
      split at h
      · cases h
      · rename_i cons hcons
        split at h
        · -- waiting
          rename_i n hs
          refine ih _ _ _ ((CoreEq.ask s).inv hi) ?_ h
          exact cancel_step ht hcons hu ((CoreEq.ask s).inv hi) (Shr.refl _ _) rfl
            ((CoreEq.ask s).free (hi.free_of_state (Or.inr (Or.inl ⟨n, by rw [hst, hs]⟩))))
        · -- assigned
          rename_i w rv hs
          split at h
          · cases h
          · rename_i rq hrq
            split at h
            · cases h
            · rename_i s1 hw
              obtain ⟨a, b, c, d, e, f⟩ := removeSn_detach hi.ls hw
              have hi1 : Inv s1 := by
                unfold Inv; rw [c, e]; exact hi.workers a
              refine ih _ _ _ ((CoreEq.ask s1).inv hi1) ?_ h
              exact cancel_step ht hcons hu ((CoreEq.ask s1).inv hi1) b c
                (f _ (by rw [hst, hs]) (Or.inl ⟨rv, rfl⟩))
        · -- running
          rename_i w rv hs
          split at h
          · cases h
          · rename_i rq hrq
            split at h
            · cases h
            · rename_i s1 hw
              obtain ⟨a, b, c, d, e, f⟩ := removeSn_detach hi.ls hw
              have hi1 : Inv s1 := by
                unfold Inv; rw [c, e]; exact hi.workers a
              refine ih _ _ _ ((CoreEq.ask s1).inv hi1) ?_ h
              exact cancel_step ht hcons hu ((CoreEq.ask s1).inv hi1) b c
                (f _ (by rw [hst, hs]) (Or.inr ⟨rv, rfl⟩))
        · -- multi-node
          rename_i ws hs
          split at h
          · cases h
          · rename_i s1 hr
            obtain ⟨a, b, c, d, e, f⟩ := resetMnAll_ls _ _ _ hi.ls hr
            have hi1 : Inv s1 := by
              unfold Inv; rw [c, e]; exact hi.workers a
            split at h
            · cases h
            · refine ih _ _ _ ((CoreEq.ask s1).inv hi1) ?_ h
              have hfree : Free3 s1.workers s1.redirects id := by
                rw [d] at a b ⊢
                exact free_after_reset hi.ls a (by rw [hst, hs]) b f
              exact cancel_step ht hcons hu ((CoreEq.ask s1).inv hi1) b c hfree
        · -- retracting
          rename_i w hs
          split at h
          · cases h
          · rename_i s1 hr
            obtain ⟨a, b, _, f⟩ := tryRemoveRedirection_ls hi.ls hr
            obtain ⟨c, e, _⟩ := tryRemoveRedirection_spec hr
            have hi1 : Inv s1 := by
              unfold Inv; rw [c, e]; exact hi.workers a
            refine ih _ _ _ ((CoreEq.ask s1).inv hi1) ?_ h
            exact cancel_step ht hcons hu ((CoreEq.ask s1).inv hi1) b c (f w (by rw [hst, hs]))
        · -- prefilled
          rename_i w hs
          split at h
          · cases h
          · rename_i s1 hq
            have hc := removePrefilled_core hq
            have hi1 := hc.inv hi
            split at h
            · cases h
            · rename_i s2 hw
              obtain ⟨a, b, c, d, e, f, _⟩ := removePrefill_detach hi1.ls hw
              have hi2 : Inv s2 := by
                unfold Inv; rw [c, e]; exact hi1.workers a
              refine ih _ _ _ hi2 ?_ h
              have b' : Shr s.workers s.redirects s2.workers s2.redirects := by
                rw [← hc.w, ← hc.r]; exact b
              exact cancel_step ht hcons hu hi2 b' (c.trans hc.t) f
        · cases h

theorem removeTasksBatched_inv (ids : List TaskId) (s s' : State) (hi : Inv s) (hu : ∀ x ∈ ids, Free s x)
    (h : s.removeTasksBatched ids = .ok s') : Inv s' := by
  induction ids generalizing s with
  | nil => simp only [State.removeTasksBatched] at h; cases h; exact hi
  | cons t rest ih =>
    simp only [State.removeTasksBatched] at h
    split at h
    · cases h
    · rename_i s1 st h1
      refine ih _ (removeTask_inv hi (hu t (by simp)) h1) ?_ h
      intro x hx
      exact removeTask_free (hu x (by simp [hx])) h1

theorem cancelTasks_inv {s s' : State} {ids : List TaskId} {o : Out} (hi : Inv s)
    (h : s.cancelTasks ids = .ok (s', o)) : Inv s' := by
  simp only [State.cancelTasks] at h
  split at h
  · cases h
  · rename_i s1 unreg running h1
    split at h
    · cases h
    · rename_i s2 h2
      cases h
      obtain ⟨a, b⟩ := cancelLoop_inv _ _ _ _ _ _ _ hi (fun _ hx => by cases hx) h1
      exact removeTasksBatched_inv _ _ _ a b h2

end HqModel.Core
