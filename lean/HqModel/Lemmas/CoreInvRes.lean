import HqModel.Lemmas.CoreInvStep
/-!
Stage 3 of the structural invariant of the core model (M1), part 1: the resource equation `Res4`
(`free + Σ reserved = total` for every single-node worker, without truncation), exactness of
`WorkerResources::remove` / `add` under the non-saturation condition `NoSat`, and the generic moves.
-/
namespace HqModel.Core

/-! ### amounts -/

/-- what an entry reserves on a worker with total vector `total` (`all` = the whole resource) -/
def entryAmt (total : List Nat) (e : RqEntry) : Nat :=
  match e.pol with
  | .amount a => a
  | .all => getD total e.res

/-- the amount of resource `r` a request reserves -/
def need (total : List Nat) : List RqEntry → Nat → Nat
  | [], _ => 0
  | e :: rest, r => (if e.res = r then entryAmt total e else 0) + need total rest r

/-- **non-saturation**: `WorkerResources::remove` (saturating subtraction, `all` zeroes the component) subtracts
exactly the requested amounts, entry by entry -/
def NoSat (total : List Nat) : List Nat → List RqEntry → Prop
  | _, [] => True
  | F, e :: rest =>
    match e.pol with
    | .amount a => a ≤ getD F e.res ∧ NoSat total (setAt F e.res (getD F e.res - a)) rest
    | .all => getD F e.res = getD total e.res ∧ NoSat total (setAt F e.res 0) rest

instance NoSat.decidable (total : List Nat) : ∀ (es : List RqEntry) (F : List Nat), Decidable (NoSat total F es)
  | [], _ => isTrue trivial
  | e :: rest, F => by
    unfold NoSat
    cases hp : e.pol with
    | amount a =>
      simp only
      have := NoSat.decidable total rest (setAt F e.res (getD F e.res - a))
      infer_instance
    | all =>
      simp only
      have := NoSat.decidable total rest (setAt F e.res 0)
      infer_instance

theorem getD_setAt (l : List Nat) (i j v : Nat) (h : i < l.length) :
    getD (setAt l i v) j = if i = j then v else getD l j := by
  split
  · rename_i e; subst e; exact getD_setAt_eq l i v h
  · rename_i e; exact getD_setAt_ne l i j v e

/-- `remove` without saturation subtracts exactly `need` -/
theorem freeRemove_need (total : List Nat) : ∀ (es : List RqEntry) (F F' : List Nat),
    freeRemove F es = .ok F' → NoSat total F es → ∀ r, getD F' r + need total es r = getD F r
  | [], F, F', h, _, r => by simp only [freeRemove] at h; cases h; simp [need]
  | e :: rest, F, F', h, hn, r => by
    simp only [freeRemove] at h
    split at h
    · cases h
    · rename_i hlen
      have hlt : e.res < F.length := by omega
      unfold NoSat at hn
      cases hp : e.pol with
      | amount a =>
        simp only [hp] at h hn
        have ih := freeRemove_need total rest _ F' h hn.2 r
        rw [getD_setAt _ _ _ _ hlt] at ih
        simp only [need, entryAmt, hp]
        split at ih <;> rename_i e1
        · simp only [e1, if_true]; have := hn.1; rw [e1] at this ih; omega
        · simp only [e1, if_false]; omega
      | all =>
        simp only [hp] at h hn
        have ih := freeRemove_need total rest _ F' h hn.2 r
        rw [getD_setAt _ _ _ _ hlt] at ih
        simp only [need, entryAmt, hp]
        split at ih <;> rename_i e1
        · simp only [e1, if_true]; have := hn.1; rw [e1] at this; omega
        · simp only [e1, if_false]; omega

/-- `add` gives back exactly `need` when the reservation was accounted for -/
theorem freeAdd_need (total : List Nat) : ∀ (es : List RqEntry) (F F' : List Nat),
    freeAdd F total es = .ok F' → (∀ r, getD F r + need total es r ≤ getD total r) →
    ∀ r, getD F' r = getD F r + need total es r
  | [], F, F', h, _, r => by simp only [freeAdd] at h; cases h; simp [need]
  | e :: rest, F, F', h, hb, r => by
    simp only [freeAdd] at h
    split at h
    · cases h
    · rename_i hlen
      have hlt : e.res < F.length := by omega
      cases hp : e.pol with
      | amount a =>
        simp only [hp] at h
        have hb' : ∀ r, getD (setAt F e.res (getD F e.res + a)) r + need total rest r ≤ getD total r := by
          intro r'
          have := hb r'
          simp only [need, entryAmt, hp] at this
          rw [getD_setAt _ _ _ _ hlt]
          split <;> rename_i e1
          · simp only [e1, if_true] at this; rw [e1]; omega
          · simp only [e1, if_false] at this; omega
        have ih := freeAdd_need total rest _ F' h hb' r
        rw [getD_setAt _ _ _ _ hlt] at ih
        simp only [need, entryAmt, hp]
        split at ih <;> rename_i e1
        · simp only [e1, if_true]; rw [e1] at ih; omega
        · simp only [e1, if_false]; omega
      | all =>
        simp only [hp] at h
        have hb0 := hb e.res
        simp only [need, entryAmt, hp, if_true] at hb0
        have hb' : ∀ r, getD (setAt F e.res (getD total e.res)) r + need total rest r ≤ getD total r := by
          intro r'
          have := hb r'
          simp only [need, entryAmt, hp] at this
          rw [getD_setAt _ _ _ _ hlt]
          split <;> rename_i e1
          · simp only [e1, if_true] at this; rw [← e1]; omega
          · simp only [e1, if_false] at this; omega
        have ih := freeAdd_need total rest _ F' h hb' r
        rw [getD_setAt _ _ _ _ hlt] at ih
        simp only [need, entryAmt, hp]
        split at ih <;> rename_i e1
        · simp only [e1, if_true]; rw [← e1]; rw [← e1] at ih; omega
        · simp only [e1, if_false]; omega

/-- the validation of `placeSn` (`fitsNow`) is non-saturation when the request names every resource once -/
theorem fitsNow_noSat (total : List Nat) : ∀ (es : List RqEntry) (F : List Nat),
    fitsNow F total es = true → (es.map (·.res)).Nodup → NoSat total F es
  | [], _, _, _ => trivial
  | e :: rest, F, h, hnd => by
    simp only [List.map_cons, List.nodup_cons] at hnd
    simp only [fitsNow, List.all_cons, Bool.and_eq_true, decide_eq_true_eq] at h
    obtain ⟨⟨hlt, he⟩, hrest⟩ := h
    have key : ∀ v, fitsNow (setAt F e.res v) total rest = true := by
      intro v
      simp only [fitsNow, List.all_eq_true, Bool.and_eq_true, decide_eq_true_eq] at hrest ⊢
      intro e' he'
      obtain ⟨h1, h2⟩ := hrest e' he'
      have hne : e.res ≠ e'.res := fun eq => hnd.1 (List.mem_map.mpr ⟨e', he', eq.symm⟩)
      refine ⟨by rw [length_setAt]; exact h1, ?_⟩
      rw [getD_setAt_ne _ _ _ _ hne]; exact h2
    unfold NoSat
    cases hp : e.pol with
    | amount a =>
      simp only [hp, decide_eq_true_eq] at he ⊢
      exact ⟨he, fitsNow_noSat total rest _ (key _) hnd.2⟩
    | all =>
      simp only [hp, beq_iff_eq] at he ⊢
      exact ⟨he, fitsNow_noSat total rest _ (key _) hnd.2⟩

/-! ### the reservation of a task -/

def rqEntries (rqs : List Rqv) (rq v : Nat) : Option (List RqEntry) :=
  match rqs[rq]? with
  | none => none
  | some rqv => (rqv[v]?).map (·.entries)

theorem rqEntries_of_rq {s : State} {rq v : Nat} {r : Rq} (h : s.rq rq v = .ok r) :
    rqEntries s.rqs rq v = some r.entries := by
  simp only [State.rq] at h
  unfold rqEntries
  split at h
  · cases h
  · rename_i rqv hq
    split at h
    · cases h
    · rename_i r' hv
      cases h
      simp [hq, hv]

theorem rqEntries_append {rqs : List Rqv} {rq v : Nat} {es : List RqEntry} (l : List Rqv)
    (h : rqEntries rqs rq v = some es) : rqEntries (rqs ++ l) rq v = some es := by
  unfold rqEntries at h ⊢
  cases hq : rqs[rq]? with
  | none => simp [hq] at h
  | some rqv =>
    have : rq < rqs.length := by
      rcases Nat.lt_or_ge rq rqs.length with h1 | h1
      · exact h1
      · rw [List.getElem?_eq_none h1] at hq; cases hq
    rw [List.getElem?_append_left this, hq]
    rw [hq] at h; exact h

/-- the variant a task holds its reservation with -/
def variantOf (rd : List (TaskId × Nat × Nat)) (t : TaskId) : TS → Option Nat
  | .assigned _ v => some v
  | .running _ v => some v
  | .retracting _ => (rd.find? (·.1 = t)).map (·.2.2)
  | _ => none

/-- the request entries task `t` holds reserved on the worker that has it in `assigned_tasks` -/
def resvOf (ts : List Task) (rd : List (TaskId × Nat × Nat)) (rqs : List Rqv) (t : TaskId) : Option (List RqEntry) :=
  match findTask ts t with
  | none => none
  | some task =>
    match variantOf rd t task.state with
    | none => none
    | some v => rqEntries rqs task.rq v

theorem resvOf_of_find {ts rd rqs t} {task : Task} (h : findTask ts t = some task) :
    resvOf ts rd rqs t = (variantOf rd t task.state).bind (rqEntries rqs task.rq) := by
  unfold resvOf; rw [h]; simp only; cases variantOf rd t task.state <;> rfl

theorem resvOf_put_ne {ts : List Task} {t' : Task} {rd rqs} {u : TaskId} (h : u ≠ t'.id) :
    resvOf (putTask ts t') rd rqs u = resvOf ts rd rqs u := by
  unfold resvOf; rw [findTask_putTask, if_neg h]

theorem resvOf_put_self {ts : List Task} {t' told : Task} {rd rqs} (ht : findTask ts t'.id = some told) :
    resvOf (putTask ts t') rd rqs t'.id = (variantOf rd t'.id t'.state).bind (rqEntries rqs t'.rq) := by
  have : findTask (putTask ts t') t'.id = some t' := by rw [findTask_putTask, if_pos rfl, ht]; rfl
  exact resvOf_of_find this

theorem resvOf_rd_congr {ts rd rd' rqs} {u : TaskId}
    (h : rd'.find? (·.1 = u) = rd.find? (·.1 = u)) : resvOf ts rd' rqs u = resvOf ts rd rqs u := by
  unfold resvOf
  cases findTask ts u with
  | none => rfl
  | some task =>
    have : variantOf rd' u task.state = variantOf rd u task.state := by
      cases task.state <;> simp only [variantOf]
      rw [h]
    simp only [this]

theorem find_filter_ne {rd : List (TaskId × Nat × Nat)} {t u : TaskId} (h : u ≠ t) :
    (rd.filter (·.1 ≠ t)).find? (·.1 = u) = rd.find? (·.1 = u) := by
  induction rd with
  | nil => rfl
  | cons x xs ih =>
    rw [List.filter_cons]
    by_cases hx : x.1 = t
    · have hxu : ¬ x.1 = u := fun e => h (e.symm.trans hx)
      rw [if_neg (by simp [hx]), List.find?_cons_of_neg (by simpa using hxu)]
      exact ih
    · rw [if_pos (by simp [hx]), List.find?_cons, List.find?_cons]
      split
      · rfl
      · exact ih

theorem find_append_ne {rd : List (TaskId × Nat × Nat)} {t u : TaskId} {w v : Nat} (h : u ≠ t) :
    (rd ++ [(t, w, v)]).find? (·.1 = u) = rd.find? (·.1 = u) := by
  rw [List.find?_append]
  cases rd.find? (·.1 = u) with
  | some x => rfl
  | none =>
    have : ¬ t = u := fun e => h e.symm
    simp [List.find?, this]

theorem find_filter_self {rd : List (TaskId × Nat × Nat)} {t : TaskId} :
    (rd.filter (·.1 ≠ t)).find? (·.1 = t) = none := by
  rw [List.find?_eq_none]
  intro x hx
  have := (List.mem_filter.mp hx).2
  simpa using this

theorem find_filter_append_self {rd : List (TaskId × Nat × Nat)} {t : TaskId} {w v : Nat} :
    (rd.filter (·.1 ≠ t) ++ [(t, w, v)]).find? (·.1 = t) = some (t, w, v) := by
  rw [List.find?_append, find_filter_self]
  simp [List.find?]

theorem find_append_self_of_none {rd : List (TaskId × Nat × Nat)} {t : TaskId} {w v : Nat}
    (h : ∀ x v', (t, x, v') ∉ rd) : (rd ++ [(t, w, v)]).find? (·.1 = t) = some (t, w, v) := by
  rw [List.find?_append]
  have : rd.find? (·.1 = t) = none := by
    rw [List.find?_eq_none]
    intro x hx
    obtain ⟨a, b, c⟩ := x
    simp only [decide_eq_true_eq]
    intro e; subst e; exact h b c hx
  rw [this]; simp [List.find?]

/-! ### the resource equation -/

/-- Σ over the assigned set of what each task has reserved of resource `r` -/
def sumNeed (total : List Nat) (ts : List Task) (rd : List (TaskId × Nat × Nat)) (rqs : List Rqv)
    (A : List TaskId) (r : Nat) : Nat :=
  (A.map fun t => need total ((resvOf ts rd rqs t).getD []) r).sum

theorem sumNeed_congr {total ts rd rqs ts' rd' rqs'} {A : List TaskId} (r : Nat)
    (h : ∀ t ∈ A, resvOf ts' rd' rqs' t = resvOf ts rd rqs t) :
    sumNeed total ts' rd' rqs' A r = sumNeed total ts rd rqs A r := by
  unfold sumNeed
  congr 1
  apply List.map_congr_left
  intro t ht
  rw [h t ht]

theorem sumNeed_append {total ts rd rqs} (A : List TaskId) (t : TaskId) (r : Nat) :
    sumNeed total ts rd rqs (A ++ [t]) r = sumNeed total ts rd rqs A r + need total ((resvOf ts rd rqs t).getD []) r := by
  simp [sumNeed, List.sum_append]

theorem sumNeed_erase {total ts rd rqs} {A : List TaskId} {t : TaskId} (h : t ∈ A) (r : Nat) :
    sumNeed total ts rd rqs A r =
      need total ((resvOf ts rd rqs t).getD []) r + sumNeed total ts rd rqs (A.erase t) r := by
  induction A with
  | nil => cases h
  | cons x xs ih =>
    by_cases e : x = t
    · subst e; simp [sumNeed]
    · have hx : t ∈ xs := by
        simp only [List.mem_cons] at h
        rcases h with h | h
        · exact absurd h.symm e
        · exact h
      have := ih hx
      rw [List.erase_cons_tail (by simpa using e)]
      simp only [sumNeed, List.map_cons, List.sum_cons] at this ⊢
      omega

/-- **`ResInv`** on the four components: for every single-node worker every task in `assigned_tasks` has a
determined reservation, and `free r + Σ reserved r = total r` for every resource `r` -/
def Res4 (ts : List Task) (ws : List Worker) (rd : List (TaskId × Nat × Nat)) (rqs : List Rqv) : Prop :=
  ∀ w wk A F P, findWorker ws w = some wk → wk.assign = .sn A F P →
    (∀ t ∈ A, (resvOf ts rd rqs t).isSome) ∧
    ∀ r, getD F r + sumNeed wk.total ts rd rqs A r = getD wk.total r

def Res (s : State) : Prop := Res4 s.tasks s.workers s.redirects s.rqs

theorem CoreEq.res {s s' : State} (h : CoreEq s s') (hr : Res s) : Res s' := by
  unfold Res; rw [h.t, h.w, h.r, h.q]; exact hr

theorem mem_asgW_of {ws : List Worker} {w : Nat} {wk : Worker} {A F P} (hw : findWorker ws w = some wk)
    (ha : wk.assign = .sn A F P) {t : TaskId} (ht : t ∈ A) : t ∈ asgW ws w := by
  rw [asgW_of_find hw]; simp [wAsg, ha]; exact ht

/-- nothing a worker holds changes -/
theorem Res4.congr {ts ws rd rqs ts' rd' rqs'} (h : Res4 ts ws rd rqs)
    (hres : ∀ u x, u ∈ asgW ws x → resvOf ts' rd' rqs' u = resvOf ts rd rqs u) : Res4 ts' ws rd' rqs' := by
  intro w wk A F P hw ha
  obtain ⟨h1, h2⟩ := h w wk A F P hw ha
  have hc : ∀ t ∈ A, resvOf ts' rd' rqs' t = resvOf ts rd rqs t := fun t ht => hres t w (mem_asgW_of hw ha ht)
  refine ⟨fun t ht => by rw [hc t ht]; exact h1 t ht, fun r => ?_⟩
  rw [sumNeed_congr r hc]; exact h2 r

/-- one worker record is replaced -/
theorem Res4.put_worker {ts ws rd rqs ts' rd' rqs'} (h : Res4 ts ws rd rqs) {wk wk' : Worker}
    (hw : findWorker ws wk'.id = some wk)
    (hres : ∀ u x, x ≠ wk'.id → u ∈ asgW ws x → resvOf ts' rd' rqs' u = resvOf ts rd rqs u)
    (hnew : ∀ A F P, wk'.assign = .sn A F P →
      (∀ t ∈ A, (resvOf ts' rd' rqs' t).isSome) ∧ ∀ r, getD F r + sumNeed wk'.total ts' rd' rqs' A r = getD wk'.total r) :
    Res4 ts' (putWorker ws wk') rd' rqs' := by
  intro w wk0 A F P hw0 ha
  rw [findWorker_putWorker] at hw0
  split at hw0
  · rename_i e
    rw [e, hw] at hw0
    simp only [Option.map_some, Option.some.injEq] at hw0
    subst hw0
    exact hnew A F P ha
  · rename_i e
    obtain ⟨h1, h2⟩ := h w wk0 A F P hw0 ha
    have hc : ∀ t ∈ A, resvOf ts' rd' rqs' t = resvOf ts rd rqs t :=
      fun t ht => hres t w e (mem_asgW_of hw0 ha ht)
    refine ⟨fun t ht => by rw [hc t ht]; exact h1 t ht, fun r => ?_⟩
    rw [sumNeed_congr r hc]; exact h2 r

/-- a worker record is replaced by one with the same assigned set, free vector and total -/
theorem Res4.put_same {ts ws rd rqs} (h : Res4 ts ws rd rqs) {wk wk' : Worker}
    (hw : findWorker ws wk'.id = some wk) (ht : wk'.total = wk.total)
    (hs : ∀ A F P, wk'.assign = .sn A F P → ∃ P0, wk.assign = .sn A F P0) :
    Res4 ts (putWorker ws wk') rd rqs := by
  refine h.put_worker hw (fun _ _ _ _ => rfl) ?_
  intro A F P ha
  obtain ⟨P0, ha0⟩ := hs A F P ha
  have := h wk'.id wk A F P0 hw ha0
  rw [ht]; exact this

/-- a worker record is replaced by one without reservations -/
theorem Res4.put_empty {ts ws rd rqs} (h : Res4 ts ws rd rqs) {wk wk' : Worker}
    (hw : findWorker ws wk'.id = some wk)
    (hs : ∀ A F P, wk'.assign = .sn A F P → A = [] ∧ F = wk'.total) :
    Res4 ts (putWorker ws wk') rd rqs := by
  refine h.put_worker hw (fun _ _ _ _ => rfl) ?_
  intro A F P ha
  obtain ⟨rfl, rfl⟩ := hs A F P ha
  exact ⟨fun t ht => (by cases ht), fun r => (by simp [sumNeed])⟩

/-- **insert**: a task that is in no assigned set gets a reservation `es` on `w`; `remove` did not saturate -/
theorem Res4.mv_insert {ts ws rd rqs ts' rd'} (h : Res4 ts ws rd rqs) {t : TaskId} {es : List RqEntry}
    {wk wk' : Worker} {A F P F' P'}
    (hw : findWorker ws wk'.id = some wk) (ha : wk.assign = .sn A F P) (ha' : wk'.assign = .sn (A ++ [t]) F' P')
    (htot : wk'.total = wk.total) (hfr : freeRemove F es = .ok F') (hns : NoSat wk.total F es)
    (hfree : ∀ x, t ∉ asgW ws x)
    (hres : ∀ u, u ≠ t → resvOf ts' rd' rqs u = resvOf ts rd rqs u)
    (hrt : resvOf ts' rd' rqs t = some es) :
    Res4 ts' (putWorker ws wk') rd' rqs := by
  refine h.put_worker hw (fun u x _ hu => hres u (fun e => hfree x (e ▸ hu))) ?_
  intro A0 F0 P0 ha0
  rw [ha'] at ha0; cases ha0
  obtain ⟨h1, h2⟩ := h wk'.id wk A F P hw ha
  have hA : ∀ u ∈ A, u ≠ t := fun u hu e => hfree wk'.id (e ▸ mem_asgW_of hw ha hu)
  have hc : ∀ u ∈ A, resvOf ts' rd' rqs u = resvOf ts rd rqs u := fun u hu => hres u (hA u hu)
  refine ⟨?_, ?_⟩
  · intro u hu
    rcases List.mem_append.mp hu with h3 | h3
    · rw [hc u h3]; exact h1 u h3
    · simp only [List.mem_singleton] at h3; subst h3; rw [hrt]; rfl
  · intro r
    rw [sumNeed_append, sumNeed_congr r hc, hrt, htot]
    have := freeRemove_need wk.total es F F' hfr hns r
    have := h2 r
    simp only [Option.getD_some]
    omega

/-- **erase**: the task leaves the assigned set of `w`, `add` gives back its reservation -/
theorem Res4.mv_erase {ts ws rd rqs ts' rd'} (h : Res4 ts ws rd rqs) {t : TaskId} {es : List RqEntry}
    {wk wk' : Worker} {A F P F' P'}
    (hw : findWorker ws wk'.id = some wk) (ha : wk.assign = .sn A F P) (ha' : wk'.assign = .sn (A.erase t) F' P')
    (htot : wk'.total = wk.total) (hfa : freeAdd F wk.total es = .ok F') (hm : t ∈ A) (hnd : A.Nodup)
    (hother : ∀ x, x ≠ wk'.id → t ∉ asgW ws x)
    (hres : ∀ u, u ≠ t → resvOf ts' rd' rqs u = resvOf ts rd rqs u)
    (hrt : resvOf ts rd rqs t = some es) :
    Res4 ts' (putWorker ws wk') rd' rqs := by
  refine h.put_worker hw (fun u x hx hu => hres u (fun e => hother x hx (e ▸ hu))) ?_
  intro A0 F0 P0 ha0
  rw [ha'] at ha0; cases ha0
  obtain ⟨h1, h2⟩ := h wk'.id wk A F P hw ha
  have hA : ∀ u ∈ A.erase t, u ≠ t := fun u hu e => by
    rw [e, List.Nodup.mem_erase_iff hnd] at hu; exact hu.1 rfl
  have hc : ∀ u ∈ A.erase t, resvOf ts' rd' rqs u = resvOf ts rd rqs u := fun u hu => hres u (hA u hu)
  refine ⟨?_, ?_⟩
  · intro u hu
    rw [hc u hu]; exact h1 u (List.mem_of_mem_erase hu)
  · intro r
    rw [sumNeed_congr r hc, htot]
    have hs := sumNeed_erase (total := wk.total) (ts := ts) (rd := rd) (rqs := rqs) hm r
    rw [hrt] at hs
    simp only [Option.getD_some] at hs
    have hb : ∀ r, getD F r + need wk.total es r ≤ getD wk.total r := by
      intro r'
      have := h2 r'
      have hs' := sumNeed_erase (total := wk.total) (ts := ts) (rd := rd) (rqs := rqs) hm r'
      rw [hrt] at hs'
      simp only [Option.getD_some] at hs'
      omega
    have := freeAdd_need wk.total es F F' hfa hb r
    have := h2 r
    omega

/-- a new worker without reservations -/
theorem Res4.mv_new_worker {ts ws rd rqs} (h : Res4 ts ws rd rqs) {wk : Worker} (hf : wk.assign = .sn [] wk.total []) :
    Res4 ts (ws ++ [wk]) rd rqs := by
  intro w wk0 A F P hw0 ha
  rw [findWorker_append] at hw0
  cases hfw : findWorker ws w with
  | some y =>
    rw [hfw] at hw0; cases hw0
    exact h w wk0 A F P hfw ha
  | none =>
    rw [hfw] at hw0
    simp only at hw0
    split at hw0
    · cases hw0
      rw [hf] at ha; cases ha
      exact ⟨fun t ht => (by cases ht), fun r => (by simp [sumNeed])⟩
    · cases hw0

theorem Res4.mv_drop_worker {ts ws rd rqs} (h : Res4 ts ws rd rqs) (w : Nat) : Res4 ts (ws.filter (·.id ≠ w)) rd rqs := by
  intro x wk0 A F P hw0 ha
  rw [findWorker_filter] at hw0
  split at hw0
  · cases hw0
  · exact h x wk0 A F P hw0 ha

/-- new requests are appended -/
theorem Res4.mv_rqs_append {ts ws rd rqs} (h : Res4 ts ws rd rqs) (l : List Rqv) : Res4 ts ws rd (rqs ++ l) := by
  intro w wk A F P hw ha
  obtain ⟨h1, h2⟩ := h w wk A F P hw ha
  have hc : ∀ t ∈ A, resvOf ts rd (rqs ++ l) t = resvOf ts rd rqs t := by
    intro t ht
    have := h1 t ht
    unfold resvOf at this ⊢
    cases hf : findTask ts t with
    | none => rfl
    | some task =>
      rw [hf] at this
      simp only at this ⊢
      cases hv : variantOf rd t task.state with
      | none => rfl
      | some v =>
        rw [hv] at this
        simp only at this ⊢
        cases he : rqEntries rqs task.rq v with
        | none => rw [he] at this; cases this
        | some es => rw [rqEntries_append l he]
  refine ⟨fun t ht => by rw [hc t ht]; exact h1 t ht, fun r => ?_⟩
  rw [sumNeed_congr r hc]; exact h2 r

end HqModel.Core
