import HqModel.Sched.Spec
/-! Lemmas for C15, part 4: counting over lists (used by the exchange argument of fragment F2). -/
namespace HqModel.Sched

theorem filter_length_mono {α} {p q : α → Bool} : ∀ {l : List α}, (∀ a ∈ l, p a = true → q a = true) →
    (l.filter p).length ≤ (l.filter q).length
  | [], _ => by simp
  | a :: rest, h => by
    have ih := filter_length_mono (p := p) (q := q) (l := rest) fun b hb => h b (by simp [hb])
    have ha := h a (by simp)
    simp only [List.filter_cons]
    cases hp : p a <;> cases hq : q a <;> simp_all <;> omega

/-- a strict version: some element satisfies `q` but not `p` -/
theorem filter_length_lt {α} {p q : α → Bool} : ∀ {l : List α}, (∀ a ∈ l, p a = true → q a = true) →
    (∃ a ∈ l, q a = true ∧ p a = false) → (l.filter p).length + 1 ≤ (l.filter q).length
  | [], _, ⟨_, h, _⟩ => by simp at h
  | a :: rest, h, ⟨b, hb, hqb, hpb⟩ => by
    have hrest : ∀ c ∈ rest, p c = true → q c = true := fun c hc => h c (by simp [hc])
    have ha := h a (by simp)
    simp only [List.filter_cons]
    rcases List.mem_cons.mp hb with rfl | hb'
    · have := filter_length_mono hrest
      simp [hqb, hpb]; omega
    · have ih := filter_length_lt hrest ⟨b, hb', hqb, hpb⟩
      cases hp : p a <;> cases hq : q a <;> simp_all <;> omega

theorem exists_max {α} (f : α → Int) : ∀ {l : List α}, l ≠ [] → ∃ m ∈ l, ∀ a ∈ l, f a ≤ f m
  | [], h => absurd rfl h
  | [a], _ => ⟨a, by simp, by simp⟩
  | a :: b :: rest, _ => by
    obtain ⟨m, hm, hmax⟩ := exists_max f (l := b :: rest) (by simp)
    by_cases h : f m ≤ f a
    · refine ⟨a, by simp, fun c hc => ?_⟩
      rcases List.mem_cons.mp hc with rfl | hc
      · exact Int.le_refl _
      · exact Int.le_trans (hmax c hc) h
    · refine ⟨m, by simp [hm], fun c hc => ?_⟩
      rcases List.mem_cons.mp hc with rfl | hc
      · omega
      · exact hmax c hc

/-- the load of a filtered list is at least what two disjoint sub-populations with constant load contribute -/
theorem load_ge {α} (f : α → Nat) (P A B : α → Bool) (cA cB : Nat) : ∀ (l : List α),
    (∀ a ∈ l, A a = true → P a = true ∧ f a = cA ∧ B a = false) →
    (∀ a ∈ l, B a = true → P a = true ∧ f a = cB) →
    cA * (l.filter A).length + cB * (l.filter B).length ≤ ((l.filter P).map f).sum
  | [], _, _ => by simp
  | a :: rest, hA, hB => by
    have ih := load_ge f P A B cA cB rest (fun b hb => hA b (by simp [hb])) (fun b hb => hB b (by simp [hb]))
    have hAa := hA a (by simp)
    have hBa := hB a (by simp)
    simp only [List.filter_cons]
    cases hA' : A a <;> cases hB' : B a <;> cases hP' : P a <;>
      simp_all [Nat.mul_add] <;> omega

end HqModel.Sched
