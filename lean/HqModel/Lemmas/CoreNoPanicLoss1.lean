import HqModel.Lemmas.CoreNoPanicNew
/-!
C09 progress, part 9: the loops of `on_remove_worker` succeed, from LOCAL facts:
`lostPrefilled_ok`, `lostAssigned_ok`, `lostRetracting_ok`, and the pigeonhole lemma that turns the model's
permutation test of the recorded `order` into `order.Nodup`.
-/
namespace HqModel.Core

namespace NP

/-! ### the recorded iteration order is duplicate-free -/

theorem length_le_of_nodup_subset {α : Type} [DecidableEq α] : ∀ (l₁ l₂ : List α), l₁.Nodup → (∀ x ∈ l₁, x ∈ l₂) →
    l₁.length ≤ l₂.length
  | [], _, _, _ => Nat.zero_le _
  | a :: t, l₂, hn, hs => by
    have ha : a ∈ l₂ := hs a List.mem_cons_self
    have hn' := List.nodup_cons.mp hn
    have : t.length ≤ (l₂.erase a).length := by
      apply length_le_of_nodup_subset t (l₂.erase a) hn'.2
      intro x hx
      have hne : x ≠ a := fun e => hn'.1 (e ▸ hx)
      exact (List.mem_erase_of_ne hne).mpr (hs x (List.mem_cons_of_mem _ hx))
    rw [List.length_erase_of_mem ha] at this
    have hpos : 0 < l₂.length := List.length_pos_of_mem ha
    simp only [List.length_cons]
    omega

/-- a list that covers a duplicate-free list of the same length is duplicate-free -/
theorem nodup_of_cover {α : Type} [DecidableEq α] : ∀ (l A : List α), A.Nodup → (∀ x ∈ A, x ∈ l) → l.length = A.length →
    l.Nodup
  | [], _, _, _, _ => List.nodup_nil
  | a :: t, A, hn, hc, hl => by
    rw [List.nodup_cons]
    by_cases ha : a ∈ t
    · -- then `t` alone covers `A`, but is shorter
      have : A.length ≤ t.length := by
        apply length_le_of_nodup_subset A t hn
        intro x hx
        rcases List.mem_cons.mp (hc x hx) with e | e
        · rw [e]; exact ha
        · exact e
      simp only [List.length_cons] at hl
      omega
    · refine ⟨ha, ?_⟩
      by_cases haA : a ∈ A
      · apply nodup_of_cover t (A.erase a) (hn.erase a)
        · intro x hx
          have hxA : x ∈ A := List.mem_of_mem_erase hx
          have hne : x ≠ a := fun e => by
            subst e
            exact (List.Nodup.mem_erase_iff hn).mp hx |>.1 rfl
          rcases List.mem_cons.mp (hc x hxA) with e | e
          · exact absurd e hne
          · exact e
        · rw [List.length_erase_of_mem haA]
          simp only [List.length_cons] at hl
          omega
      · have : A.length ≤ t.length := by
          apply length_le_of_nodup_subset A t hn
          intro x hx
          rcases List.mem_cons.mp (hc x hx) with e | e
          · subst e; exact absurd hx haA
          · exact e
        simp only [List.length_cons] at hl
        omega

theorem order_nodup {order A : List TaskId} (hn : A.Nodup)
    (h : (order.all A.contains && A.all order.contains && order.length = A.length) = true) : order.Nodup := by
  simp only [Bool.and_eq_true, decide_eq_true_eq] at h
  exact nodup_of_cover order A hn (mem_of_all_contains h.1.2) h.2

/-! ### the loop over the lost worker's prefilled tasks -/

/-- the id is a task of the map that is in the prefill set of its queue -/
def LostPre (s : State) (x : TaskId) : Prop :=
  ∃ t q pp ts, s.task? x = some t ∧ s.queues[t.rq]? = some q ∧ q.prefill = some (pp, ts) ∧ x ∈ ts

theorem lostPrefilled_ok : ∀ (l : List TaskId) (s : State), l.Nodup → (∀ x ∈ l, LostPre s x) →
    ∃ s', s.lostPrefilled l = .ok s'
  | [], s, _, _ => ⟨s, rfl⟩
  | id :: rest, s, hnd, h => by
    obtain ⟨t, q, pp, ts, ht, hq, hp, hm⟩ := h id List.mem_cons_self
    have hid : t.id = id := findTask_some_id ht
    obtain ⟨s2, h2⟩ := movePrefilledToReady_ok
      (s := s.setTask { t with inst := t.inst + 1, state := .waiting 0 }) (rq := t.rq) (t := id) hq hp hm
    simp only [State.lostPrefilled, getTask_ok ht, h2]
    apply lostPrefilled_ok rest s2 (List.nodup_cons.mp hnd).2
    intro x hx
    have hne : x ≠ id := fun e => (List.nodup_cons.mp hnd).1 (e ▸ hx)
    obtain ⟨tx, qx, ppx, tsx, htx, hqx, hpx, hmx⟩ := h x (List.mem_cons_of_mem _ hx)
    have htx2 : s2.task? x = some tx := by
      rw [task?_eq, movePrefilledToReady_tasks h2]
      show findTask (putTask s.tasks _) x = some tx
      rw [findTask_putTask]
      have : ¬ x = ({ t with inst := t.inst + 1, state := .waiting 0 } : Task).id := by
        show ¬ x = t.id; rw [hid]; exact hne
      simp only [this, if_false]; exact htx
    -- the queues after the move
    have hq' : (s.setTask { t with inst := t.inst + 1, state := .waiting 0 }).queues[t.rq]? = some q := hq
    simp only [State.movePrefilledToReady, hq', hp] at h2
    have hc : ts.contains id = true := by simpa using hm
    simp only [hc, Bool.not_true, Bool.false_eq_true, if_false] at h2
    cases h2
    have hlt : t.rq < s.queues.length := by
      rcases Nat.lt_or_ge t.rq s.queues.length with h | h
      · exact h
      · rw [List.getElem?_eq_none h] at hq; cases hq
    by_cases hrq : tx.rq = t.rq
    · rw [hrq, hq] at hqx; cases hqx
      rw [hp] at hpx; cases hpx
      have hx' : x ∈ ts.erase id := (List.mem_erase_of_ne hne).mpr hmx
      have hnemp : (ts.erase id).isEmpty = false := by
        cases he : ts.erase id with
        | nil => rw [he] at hx'; cases hx'
        | cons a b => rfl
      refine ⟨tx, Queue.mk (readyAdd q.ready id pp)
          (if (ts.erase id).isEmpty then none else some (pp, ts.erase id)), pp, ts.erase id, htx2, ?_, ?_, hx'⟩
      · rw [hrq]; exact List.getElem?_set_self hlt
      · simp only [hnemp, Bool.false_eq_true, if_false]
    · refine ⟨tx, qx, ppx, tsx, htx2, ?_, hpx, hmx⟩
      show (s.queues.set t.rq _)[tx.rq]? = some qx
      rw [List.getElem?_set_ne (fun e => hrq e.symm)]
      exact hqx

/-! ### the loop over the lost worker's assigned tasks -/

/-- the id is a task of the map with a request in range; if it is Retracting it has a redirect -/
def LostAsg (s : State) (x : TaskId) : Prop :=
  ∃ t, s.task? x = some t ∧ t.rq < s.queues.length ∧
    ((∃ w0, t.state = .retracting w0) → s.redirects.any (·.1 = x) = true)

theorem lostAssigned_ok : ∀ (l : List TaskId) (s : State) (running retracted : List TaskId), l.Nodup →
    (∀ x ∈ l, LostAsg s x) → ∃ r, s.lostAssigned l running retracted = .ok r
  | [], s, _, _, _, _ => ⟨_, rfl⟩
  | id :: rest, s, running, retracted, hnd, h => by
    obtain ⟨t, ht, hrq, hred⟩ := h id List.mem_cons_self
    have hid : t.id = id := findTask_some_id ht
    have hnd' := (List.nodup_cons.mp hnd).2
    -- the common step
    have step : ∀ (s' : State) (t' : Task) (running' : List TaskId), s'.queues = s.queues → t'.rq = t.rq → t'.id = t.id →
        s'.tasks = s.tasks → (∀ x, x ≠ id → (s'.redirects.any (·.1 = x) = true ↔ s.redirects.any (·.1 = x) = true)) →
        ∃ r, (match (s'.setTask { t' with inst := t'.inst + 1 }).addReady { t' with inst := t'.inst + 1 } with
          | .error e => Except.error e
          | .ok (s2, r) => State.lostAssigned s2 rest running' (retracted ++ r)) = .ok r := by
      intro s' t' running' hqs hrq' hid' hts hrd
      have hlt : ({ t' with inst := t'.inst + 1 } : Task).rq < (s'.setTask { t' with inst := t'.inst + 1 }).queues.length := by
        show t'.rq < s'.queues.length
        rw [hrq', hqs]; exact hrq
      obtain ⟨⟨s2, r2⟩, ha⟩ := addReady_ok hlt
      simp only [ha]
      apply lostAssigned_ok rest s2 _ _ hnd'
      intro x hx
      have hne : x ≠ id := fun e => (List.nodup_cons.mp hnd).1 (e ▸ hx)
      obtain ⟨tx, htx, hrqx, hredx⟩ := h x (List.mem_cons_of_mem _ hx)
      refine ⟨tx, ?_, ?_, ?_⟩
      · rw [task?_eq, addReady_tasks ha]
        show findTask (putTask s'.tasks _) x = some tx
        rw [findTask_putTask, hts]
        have : ¬ x = ({ t' with inst := t'.inst + 1 } : Task).id := by
          show ¬ x = t'.id; rw [hid', hid]; exact hne
        simp only [this, if_false]; exact htx
      · rw [addReady_qlen ha]
        show tx.rq < s'.queues.length
        rw [hqs]; exact hrqx
      · intro hr
        have := (addReady_core ha).r
        rw [this]
        exact (hrd x hne).mpr (hredx hr)
    simp only [State.lostAssigned, getTask_ok ht]
    cases hs : t.state with
    | retracting w0 =>
      simp only
      have hany := hred ⟨w0, hs⟩
      simp only [hany, Bool.not_true, Bool.false_eq_true, if_false]
      apply step { s with redirects := s.redirects.filter (·.1 ≠ id) } { t with state := .retracting w0 } running
        rfl rfl rfl rfl
      intro x hne
      simp only [List.any_eq_true, List.mem_filter, decide_eq_true_eq]
      constructor
      · rintro ⟨y, ⟨hy, _⟩, e⟩; exact ⟨y, hy, e⟩
      · rintro ⟨y, hy, e⟩; exact ⟨y, ⟨hy, by simpa [e] using hne⟩, e⟩
    | running a b => exact step s { t with state := .waiting 0 } _ rfl rfl rfl rfl (fun _ _ => Iff.rfl)
    | waiting n => exact step s { t with state := .waiting 0 } _ rfl rfl rfl rfl (fun _ _ => Iff.rfl)
    | assigned a b => exact step s { t with state := .waiting 0 } _ rfl rfl rfl rfl (fun _ _ => Iff.rfl)
    | prefilled a => exact step s { t with state := .waiting 0 } _ rfl rfl rfl rfl (fun _ _ => Iff.rfl)
    | runningMN a => exact step s { t with state := .waiting 0 } _ rfl rfl rfl rfl (fun _ _ => Iff.rfl)
    | finished => exact step s { t with state := .waiting 0 } _ rfl rfl rfl rfl (fun _ _ => Iff.rfl)

/-! ### tasks that were being retracted from the lost worker -/

theorem lostRetracting_ok (w : Nat) : ∀ (l : List Task) (s : State) (out : Out), ∃ r, s.lostRetracting w l out = .ok r
  | [], s, out => ⟨_, rfl⟩
  | t0 :: rest, s, out => by
    simp only [State.lostRetracting]
    repeat' split
    all_goals exact lostRetracting_ok w rest _ _

end NP

end HqModel.Core
