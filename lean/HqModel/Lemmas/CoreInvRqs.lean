import HqModel.Lemmas.CoreInvIds
/-!
The request table is only changed by `newRq` (needed for the stage-3 hypothesis that requests name every
resource once).
-/
namespace HqModel.Core

theorem setTask_rqs (s : State) (t : Task) : (s.setTask t).rqs = s.rqs := rfl
theorem setWorker_rqs (s : State) (w : Worker) : (s.setWorker w).rqs = s.rqs := rfl
theorem ask_rqs (s : State) : (ask s).rqs = s.rqs := rfl

@[grind →] theorem withWorker_rqs {s s' : State} {w : Nat} {f : Worker → M Worker}
    (h : s.withWorker w f = .ok s') : s'.rqs = s.rqs := by
  simp only [State.withWorker] at h
  repeat' (split at h)
  all_goals cases h
  rfl

@[grind →] theorem addReady_rqs {s s' : State} {t : Task} {r : List TaskId}
    (h : s.addReady t = .ok (s', r)) : s'.rqs = s.rqs := by
  simp only [State.addReady] at h
  repeat' (split at h)
  all_goals cases h
  rfl

@[grind →] theorem queueRemove_rqs {s s' : State} {rq : Nat} {t : TaskId} {p : Int}
    (h : s.queueRemove rq t p = .ok s') : s'.rqs = s.rqs := by
  simp only [State.queueRemove] at h
  repeat' (split at h)
  all_goals cases h
  rfl

@[grind →] theorem removePrefilled_rqs {s s' : State} {rq : Nat} {t : TaskId}
    (h : s.removePrefilled rq t = .ok s') : s'.rqs = s.rqs := by
  simp only [State.removePrefilled] at h
  repeat' (split at h)
  all_goals cases h
  all_goals rfl

@[grind →] theorem movePrefilledToReady_rqs {s s' : State} {rq : Nat} {t : TaskId}
    (h : s.movePrefilledToReady rq t = .ok s') : s'.rqs = s.rqs := by
  simp only [State.movePrefilledToReady] at h
  repeat' (split at h)
  all_goals cases h
  all_goals rfl

theorem processRetracted_rqs (l : List TaskId) (s s' : State) (acc acc' : List (Nat × TaskId))
    (h : s.processRetracted l acc = .ok (s', acc')) : s'.rqs = s.rqs := by
  fun_induction State.processRetracted s l acc <;> grind [setTask_rqs]

@[grind →] theorem retract_rqs {s s' : State} {l : List TaskId} {o : Out}
    (h : s.retract l = .ok (s', o)) : s'.rqs = s.rqs := by
  simp only [State.retract] at h
  split at h
  · cases h
  · rename_i s1 pairs hp
    cases h
    exact processRetracted_rqs _ _ _ _ _ hp

@[grind →] theorem tryRemoveRedirection_rqs {s s' : State} {t : TaskId} {rq : Nat}
    (h : s.tryRemoveRedirection t rq = .ok s') : s'.rqs = s.rqs := by
  simp only [State.tryRemoveRedirection] at h
  split at h
  · cases h; rfl
  · split at h
    · cases h
    · have := withWorker_rqs h; exact this

@[grind →] theorem removeTask_rqs {s s' : State} {id : TaskId} {st : TS}
    (h : s.removeTask id = .ok (s', st)) : s'.rqs = s.rqs := by
  simp only [State.removeTask] at h
  repeat' (split at h)
  all_goals grind

theorem addNewTasks_rqs (nts : List NewTask) (s s' : State) (r r' : List TaskId)
    (h : s.addNewTasks nts r = .ok (s', r')) : s'.rqs = s.rqs := by
  fun_induction State.addNewTasks s nts r <;> grind

@[grind →] theorem newTasks_rqs {s s' : State} {nts : List NewTask} {o : Out}
    (h : s.newTasks nts = .ok (s', o)) : s'.rqs = s.rqs := by
  simp only [State.newTasks] at h
  have := addNewTasks_rqs
  repeat' (split at h)
  all_goals grind [ask_rqs]

theorem resetMnAll_rqs (ws : List Nat) (s s' : State) (h : resetMnAll s ws = .ok s') : s'.rqs = s.rqs := by
  fun_induction resetMnAll s ws <;> grind [setWorker_rqs]

theorem resetMnChecked_rqs (ws : List Nat) (s s' : State) (id : TaskId)
    (h : resetMnChecked s id ws = .ok s') : s'.rqs = s.rqs := by
  fun_induction resetMnChecked s id ws <;> grind [setWorker_rqs]

theorem cancelLoop_rqs (ids : List TaskId) (s s' : State) (u u' : List TaskId) (r r' : List (Nat × List TaskId))
    (h : s.cancelLoop ids u r = .ok (s', u', r')) : s'.rqs = s.rqs := by
  fun_induction State.cancelLoop s ids u r <;> grind [resetMnAll_rqs, ask_rqs]

theorem removeTasksBatched_rqs (ids : List TaskId) (s s' : State)
    (h : s.removeTasksBatched ids = .ok s') : s'.rqs = s.rqs := by
  fun_induction State.removeTasksBatched s ids <;> grind

@[grind →] theorem cancelTasks_rqs {s s' : State} {ids : List TaskId} {o : Out}
    (h : s.cancelTasks ids = .ok (s', o)) : s'.rqs = s.rqs := by
  simp only [State.cancelTasks] at h
  have h1 := cancelLoop_rqs
  have h2 := removeTasksBatched_rqs
  repeat' (split at h)
  all_goals grind

theorem removeWaitingAll_rqs (ids : List TaskId) (s s' : State)
    (h : s.removeWaitingAll ids = .ok s') : s'.rqs = s.rqs := by
  fun_induction State.removeWaitingAll s ids <;> grind

@[grind →] theorem taskFailed_rqs {s s' : State} {worker : Option Nat} {id : TaskId} {ret : List TaskId} {o : Out}
    (h : s.taskFailed worker id ret = .ok (s', o)) : s'.rqs = s.rqs := by
  simp only [State.taskFailed] at h
  split at h
  · cases h; rfl
  · split at h
    · cases h
    · rename_i s1 hpre
      have e1 : s1.rqs = s.rqs := by
        clear h
        have := resetMnAll_rqs
        repeat' (split at hpre)
        all_goals grind
      have h2 := removeWaitingAll_rqs
      clear hpre
      repeat' (split at h)
      all_goals grind

@[grind →] theorem taskRunning_rqs {s s' : State} {w : Nat} {id : TaskId} {rv : Nat} {o : Out}
    (h : s.taskRunning w id rv = .ok (s', o)) : s'.rqs = s.rqs := by
  simp only [State.taskRunning] at h
  repeat' (split at h)
  all_goals grind [setTask_rqs, ask_rqs]

theorem wakeConsumers_rqs (cs : List TaskId) (s s' : State) (r r' : List TaskId)
    (h : s.wakeConsumers cs r = .ok (s', r')) : s'.rqs = s.rqs := by
  fun_induction State.wakeConsumers s cs r <;> grind [setTask_rqs]

@[grind →] theorem taskFinished_rqs {s s' : State} {w : Nat} {id : TaskId} {o : Out} {b : Bool}
    (h : s.taskFinished w id = .ok (s', o, b)) : s'.rqs = s.rqs := by
  simp only [State.taskFinished] at h
  split at h
  · cases h; rfl
  · split at h
    · cases h
    · rename_i s1 hpre
      have e1 : s1.rqs = s.rqs := by
        clear h
        have := resetMnChecked_rqs
        repeat' (split at hpre)
        all_goals grind
      have h2 := wakeConsumers_rqs
      clear hpre
      repeat' (split at h)
      all_goals grind [setTask_rqs]

@[grind →] theorem taskReject_rqs {s s' : State} {w : Nat} {id : TaskId} {rv : Option Nat} {o : Out} {b : Bool}
    (h : s.taskReject w id rv = .ok (s', o, b)) : s'.rqs = s.rqs := by
  simp only [State.taskReject] at h
  have := resetMnChecked_rqs
  repeat' (split at h)
  all_goals grind [setTask_rqs, setWorker_rqs]

@[grind →] theorem requestEnabled_rqs {s s' : State} {w rq rv : Nat}
    (h : s.requestEnabled w rq rv = .ok s') : s'.rqs = s.rqs := withWorker_rqs h

theorem updateLoop_rqs (us : List Update) (s s' : State) (w : Nat) (rets rets' : List (List TaskId)) (o o' : Out)
    (n n' : Bool) (h : s.updateLoop w us rets o n = .ok (s', o', n', rets')) : s'.rqs = s.rqs := by
  fun_induction State.updateLoop s w us rets o n <;> grind

theorem taskUpdate_rqs {s s' : State} {w : Nat} {us : List Update} {rets : List (List TaskId)} {o : Out}
    (h : s.taskUpdate w us rets = .ok (s', o)) : s'.rqs = s.rqs := by
  simp only [State.taskUpdate] at h
  split at h
  · cases h
  · rename_i s1 out need rets' h1
    cases h
    have := updateLoop_rqs _ _ _ _ _ _ _ _ _ _ h1
    split
    · exact this
    · exact this

theorem retractLoop_rqs (ids : List TaskId) (s s' : State) (w : Nat) (acc acc' : List (Nat × TaskId × Nat))
    (h : s.retractLoop w ids acc = .ok (s', acc')) : s'.rqs = s.rqs := by
  fun_induction State.retractLoop s w ids acc <;> grind [setTask_rqs]

theorem retractResponse_rqs {s s' : State} {w : Nat} {ids : List TaskId} {o : Out}
    (h : s.retractResponse w ids = .ok (s', o)) : s'.rqs = s.rqs := by
  simp only [State.retractResponse] at h
  split at h
  · cases h
  · rename_i s1 items h1
    split at h
    · cases h
    · cases h; exact retractLoop_rqs _ _ _ _ _ _ h1

theorem lostPrefilled_rqs (ids : List TaskId) (s s' : State)
    (h : s.lostPrefilled ids = .ok s') : s'.rqs = s.rqs := by
  fun_induction State.lostPrefilled s ids <;> grind [setTask_rqs]

theorem lostAssigned_rqs (ids : List TaskId) (s s' : State) (ru ru' re re' : List TaskId)
    (h : s.lostAssigned ids ru re = .ok (s', ru', re')) : s'.rqs = s.rqs := by
  fun_induction State.lostAssigned s ids ru re <;> grind [setTask_rqs]

theorem lostRetracting_rqs (ts : List Task) (s s' : State) (w : Nat) (o o' : Out)
    (h : s.lostRetracting w ts o = .ok (s', o')) : s'.rqs = s.rqs := by
  fun_induction State.lostRetracting s w ts o <;> grind [setTask_rqs]

theorem crashLoop_rqs (ids : List TaskId) (s s' : State) (f : Bool) (rets : List (List TaskId)) (o o' : Out)
    (h : s.crashLoop f ids rets o = .ok (s', o')) : s'.rqs = s.rqs := by
  fun_induction State.crashLoop s f ids rets o <;> grind [setTask_rqs]

theorem removeWorker_rqs {s s' : State} {w : Nat} {reason : String} {f : Bool} {order : List TaskId}
    {rets : List (List TaskId)} {o : Out}
    (h : s.removeWorker w reason f order rets = .ok (s', o)) : s'.rqs = s.rqs := by
  simp only [State.removeWorker] at h
  split at h
  · cases h
  · split at h
    · cases h
    · rename_i s1 running retracted hp1
      have e1 : s1.rqs = s.rqs := by
        clear h
        have hlp := lostPrefilled_rqs
        have hla := lostAssigned_rqs
        have hrm := resetMnAll_rqs
        repeat' (split at hp1)
        all_goals grind [setTask_rqs]
      have h2 := lostRetracting_rqs
      have h3 := crashLoop_rqs
      clear hp1
      repeat' (split at h)
      all_goals grind [ask_rqs]

/-! ### Sched.lean -/

theorem placeSnBody_rqs {s s' : State} {m m' : List WUpdate} {v : Nat} {r : Rq} {id : TaskId} {w : Nat}
    (h : s.placeSnBody m v r id w = .ok (s', m')) : s'.rqs = s.rqs := by
  simp only [State.placeSnBody] at h
  repeat' (split at h)
  all_goals grind [setTask_rqs]

@[grind →] theorem placeSn_rqs {s s' : State} {m m' : List WUpdate} {v : Nat} {r : Rq} {id : TaskId} {w : Nat}
    (h : s.placeSn m v r id w = .ok (s', m')) : s'.rqs = s.rqs :=
  placeSnBody_rqs (placeSn_ok h).1

theorem placeAll_rqs (l : List (TaskId × Nat)) (s s' : State) (m m' : List WUpdate) (v : Nat) (r : Rq)
    (h : s.placeAll m v r l = .ok (s', m')) : s'.rqs = s.rqs := by
  fun_induction State.placeAll s m v r l <;> grind

theorem mapSn_rqs (es : List SnEntry) (s s' : State) (now : Nat) (m m' : List WUpdate)
    (h : s.mapSn now m es = .ok (s', m')) : s'.rqs = s.rqs := by
  have hp := placeAll_rqs
  fun_induction State.mapSn s now m es <;> grind

theorem setMnAll_rqs (ws : List Nat) (s s' : State) (id : TaskId) (first : Bool)
    (h : setMnAll s id ws first = .ok s') : s'.rqs = s.rqs := by
  fun_induction setMnAll s id ws first <;> grind

theorem mapMnSets_rqs (sets : List (List Nat)) (s s' : State) (rq : Nat) (acc acc' : List TaskId)
    (h : s.mapMnSets rq sets acc = .ok (s', acc')) : s'.rqs = s.rqs := by
  have hp := setMnAll_rqs
  fun_induction State.mapMnSets s rq sets acc <;> grind [setTask_rqs]

theorem mapMn_rqs (es : List MnEntry) (s s' : State) (acc acc' : List TaskId)
    (h : s.mapMn es acc = .ok (s', acc')) : s'.rqs = s.rqs := by
  have hp := mapMnSets_rqs
  fun_induction State.mapMn s es acc <;> grind

theorem prefillBack_rqs (rq : Nat) (l : List TaskId) (s s' : State) (keep keep' : List TaskId)
    (h : State.prefillWorker.back rq s l keep = .ok (s', keep')) : s'.rqs = s.rqs := by
  fun_induction State.prefillWorker.back rq s l keep <;> grind

theorem prefillMark_rqs (w : Nat) (l : List TaskId) (s s' : State)
    (h : State.prefillWorker.mark w s l = .ok s') : s'.rqs = s.rqs := by
  fun_induction State.prefillWorker.mark w s l <;> grind [setTask_rqs]

theorem prefillWorker_rqs {s s' : State} {m m' : List WUpdate} {rq size w : Nat}
    (h : s.prefillWorker m rq size w = .ok (s', m')) : s'.rqs = s.rqs := by
  simp only [State.prefillWorker] at h
  have h1 := prefillBack_rqs
  have h2 := prefillMark_rqs
  repeat' (split at h)
  all_goals grind

theorem prefillWorkers_rqs (ws : List Nat) (s s' : State) (m m' : List WUpdate) (rq size : Nat)
    (h : s.prefillWorkers m rq size ws = .ok (s', m')) : s'.rqs = s.rqs := by
  have hp := @prefillWorker_rqs
  fun_induction State.prefillWorkers s m rq size ws <;> grind

theorem proactive_rqs (n : Nat) (s s' : State) (m m' : List WUpdate) (orders : List (Nat × List Nat)) (top : Int)
    (rq : Nat) (h : s.proactive m orders top n rq = .ok (s', m')) : s'.rqs = s.rqs := by
  have hp := prefillWorkers_rqs
  fun_induction State.proactive s m orders top n rq <;> grind

theorem schedule_rqs {s s' : State} {sol : Solution} {o : Out}
    (h : s.schedule sol = .ok (s', o)) : s'.rqs = s.rqs := by
  simp only [State.schedule] at h
  have h1 := mapSn_rqs
  have h2 := mapMn_rqs
  have h3 := proactive_rqs
  repeat' (split at h)
  all_goals grind

end HqModel.Core
