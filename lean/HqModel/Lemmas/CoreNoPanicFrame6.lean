import HqModel.Lemmas.CoreNoPanicFrame5
/-!
C09 progress, preservation of `NpW` / `NpIdx` / `NpMn`: the operations that do not fit the frame relation
(`newWorker`, `newRq`, `addNewTasks` / `newTasks`), and the three operation-level theorems.
-/
namespace HqModel.Core.NPA

open HqModel.Core.NP

/-! ### `on_new_worker` -/

theorem newWorker_npw {s s' : State} {w : Worker} {o : Out} (hn : NpW s) (hf : FreshWorker w)
    (hnew : s.worker? w.id = none) (h : s.newWorker w = .ok (s', o)) : NpW s' := by
  simp only [State.newWorker] at h
  cases h
  refine ⟨?_, ?_⟩
  · show ((s.workers ++ [w]).map (·.id)).Nodup
    rw [List.map_append, List.nodup_append]
    refine ⟨hn.nd, by simp, ?_⟩
    intro a ha b hb
    simp only [List.map_cons, List.map_nil, List.mem_singleton] at hb
    subst hb
    intro e; subst e
    exact not_mem_of_findWorker_none hnew ha
  · intro wk hwk A F P ha
    have hwk' : wk ∈ s.workers ++ [w] := hwk
    rcases List.mem_append.mp hwk' with h1 | h1
    · exact hn.free wk h1 A F P ha
    · simp only [List.mem_singleton] at h1
      subst h1
      rw [hf] at ha
      simp only [Assign.sn.injEq] at ha
      rw [← ha.2.1]

/-- a held (worker, variant) names a worker of the map (`TW3.t1`, `TW3.d1`) -/
theorem held_worker {s : State} (hi : InvF s) {t : Task} (ht : t ∈ s.tasks) {w v : Nat}
    (hh : HeldT s.redirects t w v) : ∃ wk, findWorker s.workers w = some wk := by
  have hf := mem_find_of_nodup hi.inv.nd ht
  have hst := stOf_of_find hf
  have hm : t.id ∈ asgW s.workers w := by
    rcases hh with hh | hh | ⟨_, hm⟩
    · exact hi.tw.tw.t1 t.id w v (fun e => e) (Or.inl (by rw [hst, hh]))
    · exact hi.tw.tw.t1 t.id w v (fun e => e) (Or.inr (by rw [hst, hh]))
    · exact hi.tw.tw.d1 t.id w v (fun e => e) hm
  unfold asgW at hm
  split at hm
  · rename_i wk hw; exact ⟨wk, hw⟩
  · cases hm

theorem newWorker_npidx {s s' : State} {w : Worker} {o : Out} (hi : InvF s) (hn : NpIdx s)
    (h : s.newWorker w = .ok (s', o)) : NpIdx s' := by
  simp only [State.newWorker] at h
  cases h
  refine ⟨hn.ql, hn.rq, ?_⟩
  intro t ht w0 v hh
  have ht' : t ∈ s.tasks := ht
  have hh' : HeldT s.redirects t w0 v := hh
  obtain ⟨r, hr, hidx⟩ := (hn.held t ht' w0 v hh').elim
  obtain ⟨wk0, hwk0⟩ := held_worker hi ht' hh'
  refine IdxOk.intro (r := r) hr ?_
  intro wk hwk
  have : findWorker (s.workers ++ [w]) w0 = some wk := hwk
  rw [findWorker_append, hwk0] at this
  simp only [Option.some.injEq] at this
  subst this
  exact hidx wk0 hwk0

theorem newWorker_npmn {s s' : State} {w : Worker} {o : Out} (hn : NpMn s)
    (h : s.newWorker w = .ok (s', o)) : NpMn s' := by
  simp only [State.newWorker] at h
  cases h
  exact ⟨hn.ne, hn.sn⟩

/-! ### new resource request -/

theorem newRq_npw {s : State} (rqv : Rqv) (hn : NpW s) : NpW (s.newRq rqv) := ⟨hn.nd, hn.free⟩

theorem rq_newRq {s : State} (rqv : Rqv) {rq : Nat} (h : rq < s.rqs.length) (v : Nat) :
    (s.newRq rqv).rq rq v = s.rq rq v := by
  simp only [State.rq, State.newRq, List.getElem?_append_left h]

theorem isMultiNode_newRq {s : State} (rqv : Rqv) {rq : Nat} (h : rq < s.rqs.length) :
    (s.newRq rqv).isMultiNode rq = s.isMultiNode rq := by
  simp only [State.isMultiNode, State.newRq, List.getElem?_append_left h]

theorem newRq_npidx {s : State} (rqv : Rqv) (hn : NpIdx s) : NpIdx (s.newRq rqv) := by
  refine ⟨?_, ?_, ?_⟩
  · simp only [State.newRq, List.length_append, List.length_cons, List.length_nil, hn.ql]
  · intro t ht
    have := hn.rq t ht
    simp only [State.newRq, List.length_append, List.length_cons, List.length_nil]
    omega
  · intro t ht w v hh
    have ht' : t ∈ s.tasks := ht
    obtain ⟨r, hr, hidx⟩ := (hn.held t ht' w v hh).elim
    exact IdxOk.intro (r := r) (by rw [rq_newRq rqv (hn.rq t ht')]; exact hr) hidx

theorem newRq_npmn {s : State} (rqv : Rqv) (hi : NpIdx s) (hn : NpMn s) : NpMn (s.newRq rqv) := by
  refine ⟨hn.ne, ?_⟩
  intro t ht hs
  have ht' : t ∈ s.tasks := ht
  rw [isMultiNode_newRq rqv (hi.rq t ht')]
  exact hn.sn t ht' hs

/-! ### `on_new_tasks` -/

/-- `registerDeps` only changes consumer lists -/
theorem registerDeps_rel (deps : List TaskId) (ts : List Task) (id : TaskId) :
    ∀ t' ∈ (registerDeps ts id deps).1, ∃ t ∈ ts, t'.id = t.id ∧ t'.rq = t.rq ∧ t'.state = t.state := by
  induction deps generalizing ts with
  | nil => intro t' h; exact ⟨t', h, rfl, rfl, rfl⟩
  | cons d rest ih =>
    simp only [registerDeps]
    split
    · exact ih ts
    · rename_i dep hd
      intro t' ht'
      obtain ⟨t1, hm1, a1, b1, c1⟩ := ih _ t' ht'
      rcases mem_putTask hm1 with e | e
      · subst e; exact ⟨dep, findTask_some_mem hd, a1, b1, c1⟩
      · exact ⟨t1, e, a1, b1, c1⟩

/-- a new Waiting task of an existing request is appended -/
theorem np3_append {s : State} {task : Task} (hn : Np3 s) (hs : ∃ n, task.state = .waiting n)
    (hrq : task.rq < s.rqs.length) : Np3 { s with tasks := s.tasks ++ [task] } := by
  obtain ⟨n, hs⟩ := hs
  obtain ⟨hw, hi, hm⟩ := hn
  refine ⟨⟨hw.nd, hw.free⟩, ⟨hi.ql, ?_, ?_⟩, ⟨?_, ?_⟩⟩
  · intro t ht
    rcases List.mem_append.mp ht with h1 | h1
    · exact hi.rq t h1
    · simp only [List.mem_singleton] at h1; subst h1; exact hrq
  · intro t ht w v hh
    rcases List.mem_append.mp ht with h1 | h1
    · exact hi.held t h1 w v hh
    · simp only [List.mem_singleton] at h1; subst h1
      rcases hh with hh | hh | ⟨⟨_, hh⟩, _⟩ <;> rw [hs] at hh <;> cases hh
  · intro t ht ws hws
    rcases List.mem_append.mp ht with h1 | h1
    · exact hm.ne t h1 ws hws
    · simp only [List.mem_singleton] at h1; subst h1
      rw [hs] at hws; cases hws
  · intro t ht hsn
    rcases List.mem_append.mp ht with h1 | h1
    · exact hm.sn t h1 hsn
    · simp only [List.mem_singleton] at h1; subst h1
      rw [hs] at hsn; exact hsn.elim

theorem addNewTasks_np3 (nts : List NewTask) (s s' : State) (r r' : List TaskId) (hn : Np3 s)
    (hrq : ∀ nt ∈ nts, nt.rq < s.rqs.length) (h : s.addNewTasks nts r = .ok (s', r')) :
    Np3 s' ∧ s'.rqs = s.rqs := by
  induction nts generalizing s r with
  | nil => simp only [State.addNewTasks] at h; cases h; exact ⟨hn, rfl⟩
  | cons nt rest ih =>
    simp only [State.addNewTasks] at h
    have hrel := registerDeps_rel nt.deps s.tasks nt.id
    generalize registerDeps s.tasks nt.id nt.deps = reg at h hrel
    obtain ⟨ts, kept, n⟩ := reg
    simp only at h hrel
    have f1 : Fr False s { s with tasks := ts } := Fr.of_tasks rfl rfl (WFr.refl _) (fun _ h => h) hrel
    have hnt := hrq nt (by simp)
    split at h
    · cases h
    · split at h
      · split at h
        · cases h
        · rename_i s2 r2 ha
          have f2 := f1.trans (addReady_fr ha)
          have e2 : s2.rqs = s.rqs := f2.rqs
          obtain ⟨a, b⟩ := ih { s2 with tasks := s2.tasks ++ [_] } _
            (np3_append (f2.np3 hn) ⟨n, rfl⟩ (by rw [e2]; exact hnt))
            (fun x hx => by show x.rq < s2.rqs.length; rw [e2]; exact hrq x (by simp [hx])) h
          exact ⟨a, b.trans e2⟩
      · obtain ⟨a, b⟩ := ih { s with tasks := ts ++ [_] } _
          (np3_append (s := { s with tasks := ts }) (f1.np3 hn) ⟨n, rfl⟩ hnt)
          (fun x hx => hrq x (by simp [hx])) h
        exact ⟨a, b⟩

/-- `on_new_tasks` (`Inv s` gives `RdRet` of the state after `addNewTasks`, where `retract` runs) -/
theorem newTasks_np3 {s s' : State} {nts : List NewTask} {o : Out} (hi : Inv s) (hn : Np3 s)
    (hok : NewTasksOk s nts) (h : s.newTasks nts = .ok (s', o)) : Np3 s' := by
  simp only [State.newTasks] at h
  split at h
  · cases h
  · split at h
    · cases h
    · rename_i s1 retracted h1
      split at h
      · cases h
      · rename_i s2 out h2
        cases h
        obtain ⟨a, _⟩ := addNewTasks_np3 _ _ _ _ _ hn (fun nt hnt => (hok.2 nt hnt).1) h1
        have hi1 : Inv s1 := addNewTasks_inv _ _ _ _ _ hi h1
        have := (retract_fr h2).np3' hi1.rdRet a
        exact ⟨⟨this.1.nd, this.1.free⟩, ⟨this.2.1.ql, this.2.1.rq, this.2.1.held⟩, ⟨this.2.2.ne, this.2.2.sn⟩⟩

/-! ### the operations -/

/-- **all three components are preserved by every operation** -/
theorem step_np3 {U : List TaskId} {s s' : State} {op : Op} {out : Out} (hi : InvF s) (hq : QInv U none [] s)
    (hn : NpInv U [] s) (hok : OpOk2q s op) (hnp : OpNP s op) (h : step s op = .ok (s', out)) : Np3 s' := by
  have hn3 : Np3 s := ⟨hn.w, hn.idx, hn.mn⟩
  cases op with
  | newWorker w => exact ⟨newWorker_npw hn.w hok hnp h, newWorker_npidx hi hn.idx h, newWorker_npmn hn.mn h⟩
  | removeWorker w reason f order rets => exact (removeWorker_fr h).np3' hi.inv.rdRet hn3
  | newRq rqv =>
    simp only [step] at h
    cases h
    exact ⟨newRq_npw rqv hn.w, newRq_npidx rqv hn.idx, newRq_npmn rqv hn.idx hn.mn⟩
  | newTasks nts => exact newTasks_np3 hi.inv hn3 hnp h
  | cancel ids => exact (cancelTasks_fr h).np3 hn3
  | update w us rets => exact (taskUpdate_fr hnp.1 h).np3' hi.inv.rdRet hn3
  | retracted w ids => exact (retractResponse_fr h).np3 hn3
  | schedule sol =>
    exact (schedule_fr hi.inv.nd (QRq.of_queueOk hi.inv.nd hq.queueOk) hn.w hn.mn hnp h).np3 hn3

theorem step_npw {U : List TaskId} {s s' : State} {op : Op} {out : Out} (hi : InvF s) (hq : QInv U none [] s)
    (hn : NpInv U [] s) (hok : OpOk2q s op) (hnp : OpNP s op) (h : step s op = .ok (s', out)) : NpW s' :=
  (step_np3 hi hq hn hok hnp h).1

theorem step_npidx {U : List TaskId} {s s' : State} {op : Op} {out : Out} (hi : InvF s) (hq : QInv U none [] s)
    (hn : NpInv U [] s) (hok : OpOk2q s op) (hnp : OpNP s op) (h : step s op = .ok (s', out)) : NpIdx s' :=
  (step_np3 hi hq hn hok hnp h).2.1

theorem step_npmn {U : List TaskId} {s s' : State} {op : Op} {out : Out} (hi : InvF s) (hq : QInv U none [] s)
    (hn : NpInv U [] s) (hok : OpOk2q s op) (hnp : OpNP s op) (h : step s op = .ok (s', out)) : NpMn s' :=
  (step_np3 hi hq hn hok hnp h).2.2

end HqModel.Core.NPA
