import HqModel.Lemmas.CoreQueueNew
/-!
The queue / dependency invariant, part 5: `on_remove_worker`. Its first two loops set the tasks of the lost
worker's `prefilled_tasks` / `assigned_tasks` to `Waiting 0` without looking at their state; that these tasks have
no unfinished dependency comes from the list → state half of the structural invariant (`Inv`, at the start of the
operation): they are Prefilled / Assigned / Running / Retracting.
-/
namespace HqModel.Core

/-- the task (if known) is in a state without unfinished dependencies -/
def NotPos (s : State) (id : TaskId) : Prop := ∀ task, findTask s.tasks id = some task → slack task.state = 0

theorem NotPos.of_step {s s2 : State} {t' : Task} (h2 : s2.tasks = putTask s.tasks t') (hs : slack t'.state = 0) :
    ∀ x, NotPos s x → NotPos s2 x := by
  intro x hx task hf
  rw [h2, findTask_putTask] at hf
  split at hf
  · cases hfx : findTask s.tasks x with
    | none => rw [hfx] at hf; cases hf
    | some y =>
      rw [hfx] at hf
      simp only [Option.map_some, Option.some.injEq] at hf
      rw [← hf]; exact hs
  · exact hx task hf

theorem NotPos.of_tasks {s s2 : State} (h2 : s2.tasks = s.tasks) : ∀ x, NotPos s x → NotPos s2 x := by
  intro x hx task hf
  rw [h2] at hf
  exact hx task hf

theorem lostPrefilled_safe (ids : List TaskId) (s s' : State) (hnp : ∀ id ∈ ids, NotPos s id)
    (h : s.lostPrefilled ids = .ok s') : Safe s s' ∧ ∀ x, NotPos s x → NotPos s' x := by
  induction ids generalizing s with
  | nil => simp only [State.lostPrefilled] at h; cases h; exact ⟨Safe.refl _, fun _ h => h⟩
  | cons id rest ih =>
    simp only [State.lostPrefilled] at h
    split at h
    · cases h
    · rename_i task hg
      have ht := getTask_spec hg
      have hsl : slack task.state = 0 := hnp id (by simp) task ht
      split at h
      · cases h
      · rename_i s2 hm
        have hs1 : Safe s (s.setTask { task with inst := task.inst + 1, state := .waiting 0 }) :=
          Safe.setState ht (by simp [hsl]) (by simp)
        have hn1 : ∀ x, NotPos s x → NotPos s2 x :=
          NotPos.of_step (t' := { task with inst := task.inst + 1, state := .waiting 0 })
            (movePrefilledToReady_tasks hm) rfl
        obtain ⟨a, b⟩ := ih _ (fun x hx => hn1 x (hnp x (by simp [hx]))) h
        exact ⟨(hs1.trans (Safe.movePrefilledToReady hm)).trans a, fun x hx => b x (hn1 x hx)⟩

theorem lostAssigned_safe (ids : List TaskId) (s s' : State) (ru ru' re re' : List TaskId)
    (hnp : ∀ id ∈ ids, NotPos s id) (h : s.lostAssigned ids ru re = .ok (s', ru', re')) : Safe s s' := by
  induction ids generalizing s ru re with
  | nil => simp only [State.lostAssigned] at h; cases h; exact Safe.refl _
  | cons id rest ih =>
    simp only [State.lostAssigned] at h
    split at h
    · cases h
    · rename_i task hg
      have ht := getTask_spec hg
      have hsl : slack task.state = 0 := hnp id (by simp) task ht
      have hrest : ∀ x ∈ rest, NotPos s x := fun x hx => hnp x (by simp [hx])
      split at h
      · -- running
        split at h
        · cases h
        · rename_i s2 r2 ha
          have hn1 := NotPos.of_step (t' := { task with state := .waiting 0, inst := task.inst + 1 })
            (addReady_tasks ha) rfl
          refine Safe.trans ?_ (ih _ _ _ (fun x hx => hn1 x (hrest x hx)) h)
          grind
      · -- retracting
        rename_i w0 hs
        split at h
        · cases h
        · split at h
          · cases h
          · rename_i s2 r2 ha
            have hn1 := NotPos.of_step (s := s) (t' := { task with inst := task.inst + 1 })
              (addReady_tasks ha) hsl
            refine Safe.trans ?_ (ih _ _ _ (fun x hx => hn1 x (hrest x hx)) h)
            grind
      · split at h
        · cases h
        · rename_i s2 r2 ha
          have hn1 := NotPos.of_step (t' := { task with state := .waiting 0, inst := task.inst + 1 })
            (addReady_tasks ha) rfl
          refine Safe.trans ?_ (ih _ _ _ (fun x hx => hn1 x (hrest x hx)) h)
          grind

theorem removeWorker_safe {s s' : State} {w : Nat} {reason : String} {f : Bool} {order : List TaskId}
    {rets : List (List TaskId)} {o : Out} (hi : Inv s)
    (h : s.removeWorker w reason f order rets = .ok (s', o)) : Safe s s' := by
  simp only [State.removeWorker, State.worker?] at h
  split at h
  · cases h
  · rename_i wk hfw
    split at h
    · cases h
    · rename_i s1 running retracted hp1
      have e0 : Safe s { s with workers := s.workers.filter (·.id ≠ w) } := Safe.of_eq rfl rfl
      have e1 : Safe s s1 := by
        clear h
        split at hp1
        · -- single-node assignment
          rename_i A F P ha
          split at hp1
          · cases hp1
          · rename_i hperm
            simp only [Bool.not_eq_false, Bool.and_eq_true, Bool.not_eq_eq_eq_not, Bool.not_true] at hperm
            split at hp1
            · cases hp1
            · rename_i s01 hlp
              have hP : preW s.workers w = P := by rw [preW_of_find hfw]; simp [wPre, ha]
              have hA : asgW s.workers w = A := by rw [asgW_of_find hfw]; simp [wAsg, ha]
              have hnpP : ∀ id ∈ P, NotPos { s with workers := s.workers.filter (·.id ≠ w) } id := by
                intro id hid task hft
                have hs := hi.ls.a2 w id (by rw [hP]; exact hid)
                rw [stOf_of_find hft] at hs
                simp only [Option.some.injEq] at hs
                rw [hs]; rfl
              have hnpA : ∀ id ∈ order, NotPos { s with workers := s.workers.filter (·.id ≠ w) } id := by
                intro id hid task hft
                have hidA : id ∈ A := by
                  have h1 : order.all A.contains = true := by
                    have := hperm
                    simp only [decide_eq_true_eq] at this
                    exact this.1.1
                  exact mem_of_all_contains h1 id hid
                obtain ⟨st, h1, h2⟩ := hi.ls.a1 w id (by rw [hA]; exact hidA)
                rw [stOf_of_find hft] at h1
                simp only [Option.some.injEq] at h1
                rw [h1]
                cases st <;> simp only [Holds_assigned, Holds_running, Holds_retracting, Holds_waiting, Holds_prefilled,
                  Holds_runningMN, Holds_finished] at h2 <;> rfl
              obtain ⟨a, b⟩ := lostPrefilled_safe _ _ _ hnpP hlp
              have c := lostAssigned_safe _ _ _ _ _ _ _ (fun id hid => b id (hnpA id hid)) hp1
              exact e0.trans (a.trans c)
        · -- multi-node assignment
          rename_i tid root started ha
          split at hp1
          · cases hp1
          · rename_i task hg
            have ht : findTask s.tasks tid = some task := getTask_spec hg
            have hid : task.id = tid := findTask_some_id ht
            split at hp1
            · rename_i ws hs
              split at hp1
              · rename_i rootw others
                split at hp1
                · split at hp1
                  · cases hp1
                  · rename_i s01 hr
                    have ht01 : findTask s01.tasks task.id = some task := by
                      rw [resetMnAll_tasks _ _ _ hr, hid]; exact ht
                    split at hp1
                    · cases hp1
                    · rename_i s3 r3 har
                      cases hp1
                      have a1 : Safe s01 (s01.setTask { task with state := .waiting 0, inst := task.inst + 1 }) :=
                        Safe.setState' ht01 (by simp [hs]) (by simp)
                      have a2 := Safe.addReady' har (findTask_setState_self ht01) rfl
                      exact ((e0.trans (Safe.resetMnAll hr)).trans a1).trans a2
                · cases hp1
                  exact e0.trans (Safe.setState (s := { s with workers := s.workers.filter (·.id ≠ w) }) ht
                    (by simp [hs]) (by simp))
              · cases hp1
            · cases hp1
      split at h
      · cases h
      · rename_i s2 out1 h2
        split at h
        · cases h
        · rename_i s3 out2 h3
          split at h
          · cases h
          · rename_i s4 out h4
            cases h
            exact (((e1.trans (lostRetracting_safe _ _ _ _ _ _ h2)).trans (retract_safe h3)).trans
              (crashLoop_safe _ _ _ _ _ _ _ h4)).trans (Safe.ask s4)

end HqModel.Core
