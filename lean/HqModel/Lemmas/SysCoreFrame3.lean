import HqModel.Lemmas.SysCoreFrame2
/-!
`Fr calm` for `task_failed`, `task_finished`, `task_reject`, `on_retract_response`, `on_remove_worker`.
-/
namespace HqModel.Core

theorem taskFailed_frc {s s' : State} {worker : Option Nat} {id : TaskId} {ret : List TaskId} {o : Out}
    (h : s.taskFailed worker id ret = .ok (s', o)) : Frc s s' := by
  simp only [State.taskFailed] at h
  split at h
  · cases h; exact Frc.refl _
  · rename_i task ht
    split at h
    · cases h
    · rename_i s1 hpre
      have f1 : Frc s s1 := by
        clear h
        repeat' split at hpre
        all_goals first
          | (cases hpre; done)
          | (cases hpre; exact Frc.refl _)
          | exact resetMnAll_frc _ _ _ hpre
          | exact Fr.withWorker (removeSn_wrel _ _) hpre
          | exact tryRemoveRedirection_frc hpre
          | (rename_i hrp; exact (removePrefilled_core hrp).frc.trans (Fr.withWorker (removePrefill_wrel _) hpre))
      split at h
      · cases h
      · rename_i consumers hc
        split at h
        · cases h
        · rename_i s2 h2
          have f2 := removeWaitingAll_frc _ _ _ h2
          split at h
          · cases h
          · rename_i s3 st h3
            have f123 : Frc s s3 := (f1.trans f2).trans (removeTask_frc h3)
            clear hpre f1 f2 h2 h3 hc ht
            repeat' split at h
            all_goals first
              | (cases h; done)
              | (cases h; exact f123)
              | (cases h; exact f123.trans (cancelTasks_frc (by assumption)))

theorem wakeConsumers_frc (cs : List TaskId) (s s' : State) (r r' : List TaskId)
    (h : s.wakeConsumers cs r = .ok (s', r')) : Frc s s' := by
  induction cs generalizing s r with
  | nil => simp only [State.wakeConsumers] at h; cases h; exact Frc.refl _
  | cons c rest ih =>
    simp only [State.wakeConsumers] at h
    split at h
    · cases h
    · rename_i t hg
      split at h
      · rename_i n hs
        have f1 : Frc s (s.setTask { t with state := .waiting n }) :=
          Fr.setState (task?_of_get hg) rfl rfl trivial
        split at h
        · split at h
          · cases h
          · rename_i s2 r2 ha
            exact (f1.trans (addReady_core ha).frc).trans (ih _ _ h)
        · exact f1.trans (ih _ _ h)
      · cases h

theorem taskFinished_frc {s s' : State} {w : Nat} {id : TaskId} {o : Out} {b : Bool}
    (h : s.taskFinished w id = .ok (s', o, b)) : Frc s s' := by
  simp only [State.taskFinished] at h
  split at h
  · cases h; exact Frc.refl _
  · rename_i task ht
    split at h
    · cases h
    · rename_i s1 hpre
      have f1 : Frc s s1 := by
        clear h
        repeat' split at hpre
        all_goals first
          | (cases hpre; done)
          | exact resetMnChecked_frc _ _ _ _ hpre
          | exact Fr.withWorker (removeSn_wrel _ _) hpre
          | exact tryRemoveRedirection_frc hpre
      have e1 : s1.tasks = s.tasks := by
        clear h
        repeat' split at hpre
        all_goals first
          | (cases hpre; done)
          | exact resetMnChecked_tasks _ _ _ _ hpre
          | exact withWorker_tasks hpre
          | exact tryRemoveRedirection_tasks hpre
      have f2 : Frc s1 (s1.setTask { task with state := .finished }) :=
        Fr.setState (task?_congr e1 ht) rfl rfl trivial
      split at h
      · cases h
      · rename_i s3 retracted h3
        have f3 := wakeConsumers_frc _ _ _ _ _ h3
        split at h
        · cases h
        · rename_i s4 out h4
          have f4 := retract_frc h4
          split at h
          · cases h
          · rename_i s5 st h5
            have f5 := removeTask_frc h5
            split at h
            · cases h
            · cases h
              exact (((f1.trans f2).trans f3).trans f4).trans f5

theorem requestEnabled_frc {s s' : State} {w rq rv : Nat} (h : s.requestEnabled w rq rv = .ok s') : Frc s s' := by
  simp only [State.requestEnabled] at h
  refine Fr.withWorker ?_ h
  intro wk wk' e
  cases e
  exact ⟨rfl, fun _ _ e => e⟩

theorem taskReject_frc {s s' : State} {w : Nat} {id : TaskId} {rv : Option Nat} {o : Out} {b : Bool}
    (h : s.taskReject w id rv = .ok (s', o, b)) : Frc s s' := by
  simp only [State.taskReject] at h
  split at h
  · cases h; exact Frc.refl _
  · rename_i task ht
    split at h
    · cases h
    · rename_i wk0 hg
      have hf := getWorker_spec hg
      have hid := findWorker_some_id hf
      -- the worker record with the updated blocked list
      have W : ∀ wk : Worker, (wk = wk0 ∨ ∃ b, wk = { wk0 with blocked := b }) → Frc s (s.setWorker wk) := by
        intro wk hwk
        refine Fr.setWorker (wk := wk0) (by rw [hid]; exact hf) ?_
        rcases hwk with e | ⟨b, e⟩
        · subst e; exact WRel.refl _
        · subst e; exact ⟨rfl, fun _ _ e => e⟩
      have requeue : ∀ (s1 : State), Frc s s1 → s1.tasks = s.tasks →
          (match (s1.setTask { task with state := .waiting 0 }).addReady { task with state := .waiting 0 } with
            | .error e => (.error e : M (State × Out × Bool))
            | .ok (s2, retracted) =>
              match s2.retract retracted with
              | .error e => .error e
              | .ok (s3, out) => .ok (s3, out, true)) = .ok (s', o, b) → Frc s s' := by
        intro s1 fs e1 h
        have f1 : Frc s1 (s1.setTask { task with state := .waiting 0 }) :=
          Fr.setState (task?_congr e1 ht) rfl rfl trivial
        split at h
        · cases h
        · rename_i s2 retracted ha
          split at h
          · cases h
          · rename_i s3 out hr
            cases h
            exact ((fs.trans f1).trans (addReady_core ha).frc).trans (retract_frc hr)
      split at h
      · split at h
        · exact requeue _ (W _ (by cases rv <;> first | exact .inl rfl | exact .inr ⟨_, rfl⟩)) rfl h
        · split at h
          · exact requeue _ (W _ (by cases rv <;> first | exact .inl rfl | exact .inr ⟨_, rfl⟩)) rfl h
          · split at h
            · cases h
            · split at h
              · cases h
              · rename_i s1 hw
                exact requeue _ ((W _ (by cases rv <;> first | exact .inl rfl | exact .inr ⟨_, rfl⟩)).trans
                  (Fr.withWorker (removeSn_wrel id _) hw)) (by have := withWorker_tasks hw; exact this) h
      · split at h
        · cases h
        · rename_i s1 hw
          split at h
          · cases h
          · rename_i s2 hp
            exact requeue _ (((W _ (by cases rv <;> first | exact .inl rfl | exact .inr ⟨_, rfl⟩)).trans
              (Fr.withWorker (removePrefill_wrel id) hw)).trans (removePrefilled_core hp).frc)
              ((removePrefilled_tasks hp).trans (by have := withWorker_tasks hw; exact this)) h
      · split at h
        · cases h; exact W _ (by cases rv <;> first | exact .inl rfl | exact .inr ⟨_, rfl⟩)
        · split at h
          · rename_i target trv hfind
            cases h
            have R : ∀ (wk : Worker) (rd : List (TaskId × Nat × Nat)), (wk = wk0 ∨ ∃ b, wk = { wk0 with blocked := b }) →
                Frc s (({ s.setWorker wk with redirects := rd } : State).setTask { task with state := .assigned target trv }) :=
              fun wk rd hwk => (W wk hwk).trans
                (Fr.setState_rd (P := False) (s := s.setWorker wk) rd (id := id) ht rfl rfl trivial)
            exact R _ _ (by cases rv <;> first | exact .inl rfl | exact .inr ⟨_, rfl⟩)
          · exact requeue _ (W _ (by cases rv <;> first | exact .inl rfl | exact .inr ⟨_, rfl⟩)) rfl h
      · -- multi-node: refused by its root before the start was reported
        split at h
        · cases h
        · split at h
          · cases h; exact W _ (by cases rv <;> first | exact .inl rfl | exact .inr ⟨_, rfl⟩)
          · split at h
            · cases h; exact W _ (by cases rv <;> first | exact .inl rfl | exact .inr ⟨_, rfl⟩)
            · split at h
              · cases h; exact W _ (by cases rv <;> first | exact .inl rfl | exact .inr ⟨_, rfl⟩)
              · split at h
                · cases h
                · rename_i s1 hr
                  exact requeue _ ((W _ (by cases rv <;> first | exact .inl rfl | exact .inr ⟨_, rfl⟩)).trans
                    (resetMnChecked_frc _ _ _ _ hr)) (by have := resetMnChecked_tasks _ _ _ _ hr; exact this) h
      all_goals cases h

theorem retractLoop_frc (ids : List TaskId) (s s' : State) (w : Nat) (acc acc' : List (Nat × TaskId × Nat))
    (h : s.retractLoop w ids acc = .ok (s', acc')) : Frc s s' := by
  induction ids generalizing s acc with
  | nil => simp only [State.retractLoop] at h; cases h; exact Frc.refl _
  | cons id rest ih =>
    simp only [State.retractLoop] at h
    split at h
    · exact ih _ _ h
    · rename_i task ht
      split at h
      · exact ih _ _ h
      · split at h
        · rename_i target rv hfind
          have f1 : Frc s { s with redirects := s.redirects.filter (·.1 ≠ id) } := Fr.of_eq rfl rfl
          have f2 : Frc { s with redirects := s.redirects.filter (·.1 ≠ id) }
              (({ s with redirects := s.redirects.filter (·.1 ≠ id) } : State).setTask { task with state := .assigned target rv }) :=
            Fr.setState (s := { s with redirects := s.redirects.filter (·.1 ≠ id) }) (task := task) (id := id) ht rfl rfl
              trivial
          exact (f1.trans f2).trans (ih _ _ h)
        · have f1 : Frc s (s.setTask { task with state := .waiting 0 }) := Fr.setState ht rfl rfl trivial
          exact f1.trans (ih _ _ h)

theorem retractResponse_frc {s s' : State} {w : Nat} {ids : List TaskId} {o : Out}
    (h : s.retractResponse w ids = .ok (s', o)) : Frc s s' := by
  simp only [State.retractResponse] at h
  split at h
  · cases h
  · rename_i s1 items h1
    split at h
    · cases h
    · cases h; exact retractLoop_frc _ _ _ _ _ _ h1

/-! ### `on_remove_worker` -/

theorem lostPrefilled_frc (ids : List TaskId) (s s' : State) (h : s.lostPrefilled ids = .ok s') : Frc s s' := by
  induction ids generalizing s with
  | nil => simp only [State.lostPrefilled] at h; cases h; exact Frc.refl _
  | cons id rest ih =>
    simp only [State.lostPrefilled] at h
    split at h
    · cases h
    · rename_i task hg
      have f1 : Frc s (s.setTask { task with inst := task.inst + 1, state := .waiting 0 }) :=
        Fr.setState (task?_of_get hg) rfl rfl trivial
      split at h
      · cases h
      · rename_i s2 hm
        exact (f1.trans (movePrefilledToReady_core hm).frc).trans (ih _ h)

theorem lostAssigned_frc (ids : List TaskId) (s s' : State) (ru ru' re re' : List TaskId)
    (h : s.lostAssigned ids ru re = .ok (s', ru', re')) : Frc s s' := by
  induction ids generalizing s ru re with
  | nil => simp only [State.lostAssigned] at h; cases h; exact Frc.refl _
  | cons id rest ih =>
    simp only [State.lostAssigned] at h
    split at h
    · cases h
    · rename_i task hg
      have ht := task?_of_get hg
      have step : ∀ (s0 : State) (t0 : Task) (ru0 : List TaskId), Frc s s0 → s0.tasks = s.tasks →
          t0.id = task.id → t0.consumers = task.consumers → stOk False task.state t0.state →
          (match (s0.setTask { t0 with inst := t0.inst + 1 }).addReady { t0 with inst := t0.inst + 1 } with
            | .error e => (.error e : M (State × List TaskId × List TaskId))
            | .ok (s2, r) => State.lostAssigned s2 rest ru0 (re ++ r)) = .ok (s', ru', re') → Frc s s' := by
        intro s0 t0 ru0 f0 e0 hid hc hs h
        have f1 : Frc s0 (s0.setTask { t0 with inst := t0.inst + 1 }) :=
          Fr.setState (task?_congr e0 ht) hid hc hs
        split at h
        · cases h
        · rename_i s2 r ha
          exact ((f0.trans f1).trans (addReady_core ha).frc).trans (ih _ _ _ h)
      split at h
      · exact step s { task with state := .waiting 0 } _ (Frc.refl _) rfl rfl rfl trivial h
      · split at h
        · cases h
        · exact step { s with redirects := s.redirects.filter (·.1 ≠ id) } task _ (Fr.of_eq rfl rfl) rfl rfl rfl
            (stOk.refl _ _) h
      · exact step s { task with state := .waiting 0 } _ (Frc.refl _) rfl rfl rfl trivial h

theorem lostRetracting_frc (l : List Task) (s s' : State) (w : Nat) (o o' : Out)
    (h : s.lostRetracting w l o = .ok (s', o')) : Frc s s' := by
  induction l generalizing s o with
  | nil => simp only [State.lostRetracting] at h; cases h; exact Frc.refl _
  | cons t0 rest ih =>
    simp only [State.lostRetracting] at h
    split at h
    · exact ih _ _ h
    · rename_i task ht
      split at h
      · exact ih _ _ h
      · split at h
        · rename_i target rv hfind
          have f1 : Frc s { s with redirects := s.redirects.filter (·.1 ≠ task.id) } := Fr.of_eq rfl rfl
          have f2 : Frc { s with redirects := s.redirects.filter (·.1 ≠ task.id) }
              (({ s with redirects := s.redirects.filter (·.1 ≠ task.id) } : State).setTask
                { task with inst := task.inst + 1, state := .assigned target rv }) :=
            Fr.setState (s := { s with redirects := s.redirects.filter (·.1 ≠ task.id) }) (task := task) (id := t0.id)
              ht rfl rfl trivial
          exact (f1.trans f2).trans (ih _ _ h)
        · have f1 : Frc s (s.setTask { task with inst := task.inst + 1, state := .waiting 0 }) :=
            Fr.setState ht rfl rfl trivial
          exact f1.trans (ih _ _ h)

theorem crashLoop_frc (ids : List TaskId) (s s' : State) (f : Bool) (rets : List (List TaskId)) (o o' : Out)
    (h : s.crashLoop f ids rets o = .ok (s', o')) : Frc s s' := by
  induction ids generalizing s rets o with
  | nil => simp only [State.crashLoop] at h; cases h; exact Frc.refl _
  | cons id rest ih =>
    simp only [State.crashLoop] at h
    split at h
    · exact ih _ _ _ h
    · rename_i task ht
      have f1 : Frc s (s.setTask { task with crashes := (crashOutcome task.crashLimit f task.crashes).1 }) :=
        Fr.setState ht rfl rfl (stOk.refl _ _)
      split at h
      · split at h
        · cases h
        · rename_i s2 o2 h2
          exact (f1.trans (taskFailed_frc h2)).trans (ih _ _ _ h)
      · exact f1.trans (ih _ _ _ h)

theorem dropWorker_frc (s : State) (w : Nat) : Frc s { s with workers := s.workers.filter (·.id ≠ w) } := by
  refine ⟨TFr.refl _ _, ?_⟩
  intro x wk' hx
  change findWorker (s.workers.filter (·.id ≠ w)) x = some wk' at hx
  rw [findWorker_filter] at hx
  split at hx
  · cases hx
  · exact ⟨wk', hx, WRel.refl _⟩

/-- the first part of `on_remove_worker` (the lost worker's prefilled / assigned tasks, or its multi-node task) -/
theorem removeWorker_frc {s s' : State} {w : Nat} {reason : String} {f : Bool} {order : List TaskId}
    {rets : List (List TaskId)} {o : Out}
    (h : s.removeWorker w reason f order rets = .ok (s', o)) : Frc s s' := by
  simp only [State.removeWorker] at h
  split at h
  · cases h
  · rename_i wk hw
    have f0 := dropWorker_frc s w
    split at h
    · cases h
    · rename_i s1 running retracted hp1
      have f1 : Frc { s with workers := s.workers.filter (·.id ≠ w) } s1 := by
        clear h
        split at hp1
        · split at hp1
          · cases hp1
          · split at hp1
            · cases hp1
            · rename_i s01 hlp
              exact (lostPrefilled_frc _ _ _ hlp).trans (lostAssigned_frc _ _ _ _ _ _ _ hp1)
        · split at hp1
          · cases hp1
          · rename_i task hg
            have ht := task?_of_get hg
            split at hp1
            · split at hp1
              · split at hp1
                · split at hp1
                  · cases hp1
                  · rename_i s01 hr
                    split at hp1
                    · cases hp1
                    · rename_i s3 r3 ha
                      cases hp1
                      have f2 := resetMnAll_frc _ _ _ hr
                      have f3 : Frc s01 (s01.setTask { task with state := .waiting 0, inst := task.inst + 1 }) :=
                        Fr.setState (task?_congr (resetMnAll_tasks _ _ _ hr) ht) rfl rfl trivial
                      exact (f2.trans f3).trans (addReady_core ha).frc
                · cases hp1
                  rename_i hs _
                  exact Fr.setState ht rfl rfl (by rw [hs]; exact .inr ⟨_, rfl⟩)
              · cases hp1
            · cases hp1
      split at h
      · cases h
      · rename_i s2 out1 h2
        have f2 := lostRetracting_frc _ _ _ _ _ _ h2
        split at h
        · cases h
        · rename_i s3 out2 h3
          have f3 := retract_frc h3
          split at h
          · cases h
          · rename_i s4 out h4
            cases h
            exact ((((f0.trans f1).trans f2).trans f3).trans (crashLoop_frc _ _ _ _ _ _ _ h4)).trans (Frc.ask s4)

end HqModel.Core
