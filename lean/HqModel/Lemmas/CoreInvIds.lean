import HqModel.Core.Run
import HqModel.Lemmas.CoreSteps
/-!
Stage 1 of the structural invariant of the core model (M1): **task ids are unique** in every reachable state.

For every model function we show how it changes `taskIds ·.tasks`:
* unchanged task list (`…_tasks`: worker / queue updates),
* unchanged id list (`…_ids`: everything built from `setTask`/`putTask`),
* a sublist (`…_sub`: `removeTask` and its callers),
* appended with an id that was checked to be absent (`addNewTasks`).
-/
namespace HqModel.Core

/-! ### basic facts -/

theorem findTask_none_of_not_mem {ts : List Task} {id : TaskId} (h : id ∉ taskIds ts) : findTask ts id = none := by
  induction ts with
  | nil => rfl
  | cons y ys ih =>
    simp only [taskIds, List.map_cons, List.mem_cons, not_or] at h
    have : ¬ y.id = id := fun e => h.1 e.symm
    simp only [findTask, this, if_false]
    exact ih h.2

theorem not_mem_of_findTask_none {ts : List Task} {id : TaskId} (h : findTask ts id = none) : id ∉ taskIds ts := by
  induction ts with
  | nil => simp [taskIds]
  | cons y ys ih =>
    simp only [findTask] at h
    split at h
    · cases h
    · rename_i hy
      simp only [taskIds, List.map_cons, List.mem_cons, not_or]
      exact ⟨fun e => hy e.symm, ih h⟩

theorem findTask_some_id {ts : List Task} {id : TaskId} {t : Task} (h : findTask ts id = some t) : t.id = id := by
  induction ts with
  | nil => cases h
  | cons y ys ih =>
    simp only [findTask] at h
    split at h
    · cases h; assumption
    · exact ih h

theorem findTask_some_mem {ts : List Task} {id : TaskId} {t : Task} (h : findTask ts id = some t) : t ∈ ts := by
  induction ts with
  | nil => cases h
  | cons y ys ih =>
    simp only [findTask] at h
    split at h
    · cases h; simp
    · exact List.mem_cons_of_mem _ (ih h)

theorem taskIds_eraseTask_sublist (ts : List Task) (id : TaskId) : (taskIds (eraseTask ts id)).Sublist (taskIds ts) := by
  induction ts with
  | nil => exact List.Sublist.refl _
  | cons x rest ih =>
    simp only [eraseTask]
    split
    · exact List.sublist_cons_self _ _
    · simp only [taskIds, List.map_cons]
      exact List.Sublist.cons_cons _ ih

/-- relations between the task maps of two states -/
def IdsStable (s s' : State) : Prop := taskIds s'.tasks = taskIds s.tasks
def IdsSub (s s' : State) : Prop := (taskIds s'.tasks).Sublist (taskIds s.tasks)

theorem IdsStable.refl (s : State) : IdsStable s s := rfl
@[grind →] theorem IdsStable.trans {a b c : State} (h1 : IdsStable a b) (h2 : IdsStable b c) : IdsStable a c :=
  Eq.trans h2 h1
@[grind →] theorem IdsStable.sub {a b : State} (h : IdsStable a b) : IdsSub a b := by
  unfold IdsSub; rw [h]; exact List.Sublist.refl _
theorem IdsSub.refl (s : State) : IdsSub s s := List.Sublist.refl _
@[grind →] theorem IdsSub.trans {a b c : State} (h1 : IdsSub a b) (h2 : IdsSub b c) : IdsSub a c :=
  List.Sublist.trans h2 h1
theorem IdsSub.nodup {a b : State} (h : IdsSub a b) (hn : (taskIds a.tasks).Nodup) : (taskIds b.tasks).Nodup :=
  List.Sublist.nodup h hn
@[grind →] theorem IdsStable.of_tasks {a b : State} (h : b.tasks = a.tasks) : IdsStable a b := by
  unfold IdsStable; rw [h]

/-! ### Model.lean -/

theorem setTask_ids (s : State) (t : Task) : taskIds (s.setTask t).tasks = taskIds s.tasks :=
  taskIds_putTask _ _

theorem setTask_stable (s : State) (t : Task) : IdsStable s (s.setTask t) := setTask_ids s t

theorem setWorker_tasks (s : State) (w : Worker) : (s.setWorker w).tasks = s.tasks := rfl

theorem ask_tasks (s : State) : (ask s).tasks = s.tasks := rfl

@[grind →] theorem withWorker_tasks {s s' : State} {w : Nat} {f : Worker → M Worker}
    (h : s.withWorker w f = .ok s') : s'.tasks = s.tasks := by
  simp only [State.withWorker] at h
  split at h
  · cases h
  · split at h
    · cases h
    · cases h; rfl

@[grind →] theorem addReady_tasks {s s' : State} {t : Task} {r : List TaskId}
    (h : s.addReady t = .ok (s', r)) : s'.tasks = s.tasks := by
  simp only [State.addReady] at h
  split at h
  · cases h
  · cases h; rfl

@[grind →] theorem queueRemove_tasks {s s' : State} {rq : Nat} {t : TaskId} {p : Int}
    (h : s.queueRemove rq t p = .ok s') : s'.tasks = s.tasks := by
  simp only [State.queueRemove] at h
  split at h
  · cases h
  · cases h; rfl

@[grind →] theorem removePrefilled_tasks {s s' : State} {rq : Nat} {t : TaskId}
    (h : s.removePrefilled rq t = .ok s') : s'.tasks = s.tasks := by
  simp only [State.removePrefilled] at h
  split at h
  · cases h
  · split at h
    · cases h
    · split at h
      · cases h
      · cases h; rfl

@[grind →] theorem movePrefilledToReady_tasks {s s' : State} {rq : Nat} {t : TaskId}
    (h : s.movePrefilledToReady rq t = .ok s') : s'.tasks = s.tasks := by
  simp only [State.movePrefilledToReady] at h
  split at h
  · cases h
  · split at h
    · cases h
    · split at h
      · cases h
      · cases h; rfl

theorem processRetracted_ids (l : List TaskId) (s s' : State) (acc acc' : List (Nat × TaskId))
    (h : s.processRetracted l acc = .ok (s', acc')) : taskIds s'.tasks = taskIds s.tasks := by
  fun_induction State.processRetracted s l acc <;> grind [withWorker_tasks, setTask_ids]

@[grind →] theorem retract_stable {s s' : State} {l : List TaskId} {o : Out}
    (h : s.retract l = .ok (s', o)) : IdsStable s s' := by
  simp only [State.retract] at h
  split at h
  · cases h
  · rename_i s1 pairs hp
    cases h
    exact processRetracted_ids _ _ _ _ _ hp

@[grind →] theorem tryRemoveRedirection_tasks {s s' : State} {t : TaskId} {rq : Nat}
    (h : s.tryRemoveRedirection t rq = .ok s') : s'.tasks = s.tasks := by
  simp only [State.tryRemoveRedirection] at h
  split at h
  · cases h; rfl
  · split at h
    · cases h
    · have := withWorker_tasks h; exact this

@[grind →] theorem removeConsumer_ids {ts ts' : List Task} {d c : TaskId}
    (h : removeConsumer ts d c = .ok ts') : taskIds ts' = taskIds ts := by
  simp only [removeConsumer] at h
  split at h
  · cases h; rfl
  · split at h
    · cases h
    · cases h; exact taskIds_putTask _ _

theorem removeConsumers_ids (deps : List TaskId) (ts ts' : List Task) (c : TaskId)
    (h : removeConsumers ts c deps = .ok ts') : taskIds ts' = taskIds ts := by
  fun_induction removeConsumers ts c deps <;> grind [removeConsumer_ids]

@[grind →] theorem removeTask_sub {s s' : State} {id : TaskId} {st : TS}
    (h : s.removeTask id = .ok (s', st)) : IdsSub s s' := by
  have he : (taskIds (eraseTask s.tasks id)).Sublist (taskIds s.tasks) := taskIds_eraseTask_sublist _ _
  simp only [State.removeTask] at h
  split at h
  · cases h
  · split at h
    · split at h
      · cases h
      · rename_i s1 hq
        have h1 := queueRemove_tasks hq
        split at h
        · split at h
          · cases h
          · rename_i ts hc
            cases h
            have := removeConsumers_ids _ _ _ _ hc
            unfold IdsSub
            simp only [this, h1]; exact he
        · cases h
          unfold IdsSub
          rw [h1]; exact he
    · split at h
      · cases h
      · rename_i s1 hq
        have h1 := queueRemove_tasks hq
        cases h
        unfold IdsSub
        rw [h1]; exact he
    · cases h; exact he

/-! ### Reactor.lean -/

theorem registerDeps_ids (deps : List TaskId) (ts : List Task) (id : TaskId) :
    taskIds (registerDeps ts id deps).1 = taskIds ts := by
  fun_induction registerDeps ts id deps <;> grind [taskIds_putTask]

theorem addNewTasks_nodup (nts : List NewTask) (s s' : State) (r r' : List TaskId)
    (hn : (taskIds s.tasks).Nodup) (h : s.addNewTasks nts r = .ok (s', r')) : (taskIds s'.tasks).Nodup := by
  induction nts generalizing s r with
  | nil => simp only [State.addNewTasks] at h; cases h; exact hn
  | cons nt rest ih =>
    simp only [State.addNewTasks] at h
    have hreg := registerDeps_ids nt.deps s.tasks nt.id
    generalize registerDeps s.tasks nt.id nt.deps = reg at h hreg
    obtain ⟨ts, kept, n⟩ := reg
    simp only at h hreg
    split at h
    · cases h
    · rename_i hf
      have hnone : findTask ts nt.id = none := by
        cases hx : findTask ts nt.id with
        | none => rfl
        | some x => simp [hx] at hf
      have hnm := not_mem_of_findTask_none hnone
      have hnd : ∀ t : Task, t.id = nt.id → (taskIds (ts ++ [t])).Nodup := by
        intro t ht
        simp only [taskIds, List.map_append, List.map_cons, List.map_nil]
        rw [List.nodup_append]
        refine ⟨by rw [← hreg] at hn; exact hn, by simp, ?_⟩
        intro a ha b hb
        simp only [List.mem_singleton] at hb
        subst hb
        intro e; subst e; rw [ht] at ha; exact hnm ha
      split at h
      · split at h
        · cases h
        · rename_i s2 r2 ha
          have h2 := addReady_tasks ha
          refine ih _ _ ?_ h
          simp only [h2]; exact hnd _ rfl
      · exact ih _ _ (hnd _ rfl) h

theorem newTasks_nodup {s s' : State} {nts : List NewTask} {o : Out}
    (hn : (taskIds s.tasks).Nodup) (h : s.newTasks nts = .ok (s', o)) : (taskIds s'.tasks).Nodup := by
  simp only [State.newTasks] at h
  split at h
  · cases h
  · split at h
    · cases h
    · rename_i s1 retracted h1
      split at h
      · cases h
      · rename_i s2 out h2
        cases h
        have := addNewTasks_nodup _ _ _ _ _ hn h1
        have h3 : IdsStable s1 s2 := retract_stable h2
        show (taskIds s2.tasks).Nodup
        rw [h3]; exact this

@[grind →] theorem resetMnAll_tasks (ws : List Nat) (s s' : State) (h : resetMnAll s ws = .ok s') : s'.tasks = s.tasks := by
  fun_induction resetMnAll s ws <;> grind [setWorker_tasks]

@[grind →] theorem resetMnChecked_tasks (ws : List Nat) (s s' : State) (id : TaskId)
    (h : resetMnChecked s id ws = .ok s') : s'.tasks = s.tasks := by
  fun_induction resetMnChecked s id ws <;> grind [setWorker_tasks]

theorem cancelLoop_tasks (ids : List TaskId) (s s' : State) (u u' : List TaskId) (r r' : List (Nat × List TaskId))
    (h : s.cancelLoop ids u r = .ok (s', u', r')) : s'.tasks = s.tasks := by
  fun_induction State.cancelLoop s ids u r <;>
    grind [withWorker_tasks, resetMnAll_tasks, tryRemoveRedirection_tasks, removePrefilled_tasks, ask_tasks]

theorem removeTasksBatched_sub (ids : List TaskId) (s s' : State)
    (h : s.removeTasksBatched ids = .ok s') : IdsSub s s' := by
  fun_induction State.removeTasksBatched s ids <;> grind [removeTask_sub, IdsSub.refl, IdsSub.trans]

@[grind →] theorem cancelTasks_sub {s s' : State} {ids : List TaskId} {o : Out}
    (h : s.cancelTasks ids = .ok (s', o)) : IdsSub s s' := by
  simp only [State.cancelTasks] at h
  split at h
  · cases h
  · rename_i s1 unreg running h1
    split at h
    · cases h
    · rename_i s2 h2
      cases h
      have := removeTasksBatched_sub _ _ _ h2
      have e := cancelLoop_tasks _ _ _ _ _ _ _ h1
      unfold IdsSub at this ⊢
      rw [← e]; exact this

theorem removeWaitingAll_sub (ids : List TaskId) (s s' : State)
    (h : s.removeWaitingAll ids = .ok s') : IdsSub s s' := by
  fun_induction State.removeWaitingAll s ids <;> grind [removeTask_sub, IdsSub.refl, IdsSub.trans]

@[grind →] theorem taskFailed_sub {s s' : State} {worker : Option Nat} {id : TaskId} {ret : List TaskId} {o : Out}
    (h : s.taskFailed worker id ret = .ok (s', o)) : IdsSub s s' := by
  simp only [State.taskFailed] at h
  split at h
  · cases h; exact IdsSub.refl _
  · rename_i task ht
    split at h
    · cases h
    · rename_i s1 hpre
      have e1 : s1.tasks = s.tasks := by
        clear h
        repeat' (split at hpre)
        all_goals grind
      split at h
      · cases h
      · split at h
        · cases h
        · rename_i s2 h2
          split at h
          · cases h
          · rename_i s3 st h3
            have a1 : IdsSub s s1 := (IdsStable.of_tasks e1).sub
            have a2 := removeWaitingAll_sub _ _ _ h2
            have a3 := removeTask_sub h3
            have a := (a1.trans a2).trans a3
            clear hpre
            repeat' (split at h)
            all_goals grind

@[grind →] theorem taskRunning_stable {s s' : State} {w : Nat} {id : TaskId} {rv : Nat} {o : Out}
    (h : s.taskRunning w id rv = .ok (s', o)) : IdsStable s s' := by
  unfold IdsStable
  simp only [State.taskRunning] at h
  repeat' (split at h)
  all_goals grind [setTask_ids, ask_tasks]

theorem wakeConsumers_ids (cs : List TaskId) (s s' : State) (r r' : List TaskId)
    (h : s.wakeConsumers cs r = .ok (s', r')) : taskIds s'.tasks = taskIds s.tasks := by
  fun_induction State.wakeConsumers s cs r <;> grind [setTask_ids, addReady_tasks]

@[grind →] theorem taskFinished_sub {s s' : State} {w : Nat} {id : TaskId} {o : Out} {b : Bool}
    (h : s.taskFinished w id = .ok (s', o, b)) : IdsSub s s' := by
  simp only [State.taskFinished] at h
  split at h
  · cases h; exact IdsSub.refl _
  · rename_i task ht
    split at h
    · cases h
    · rename_i s1 hpre
      have e1 : s1.tasks = s.tasks := by
        clear h
        repeat' (split at hpre)
        all_goals grind
      split at h
      · cases h
      · rename_i s3 retracted h3
        split at h
        · cases h
        · rename_i s4 out h4
          split at h
          · cases h
          · rename_i s5 st h5
            split at h
            · cases h
            · cases h
              have a1 : IdsStable s s1 := IdsStable.of_tasks e1
              have a2 : IdsStable s1 (s1.setTask { task with state := .finished }) := setTask_stable _ _
              have a3 : IdsStable _ s3 := wakeConsumers_ids _ _ _ _ _ h3
              have a4 : IdsStable s3 s4 := retract_stable h4
              exact (((a1.trans a2).trans a3).trans a4).sub.trans (removeTask_sub h5)

@[grind →] theorem taskReject_stable {s s' : State} {w : Nat} {id : TaskId} {rv : Option Nat} {o : Out} {b : Bool}
    (h : s.taskReject w id rv = .ok (s', o, b)) : IdsStable s s' := by
  unfold IdsStable
  simp only [State.taskReject] at h
  have hr := @retract_stable
  unfold IdsStable at hr
  repeat' (split at h)
  all_goals grind [setTask_ids, setWorker_tasks]

@[grind →] theorem requestEnabled_tasks {s s' : State} {w rq rv : Nat}
    (h : s.requestEnabled w rq rv = .ok s') : s'.tasks = s.tasks := withWorker_tasks h

theorem updateLoop_sub (us : List Update) (s s' : State) (w : Nat) (rets rets' : List (List TaskId)) (o o' : Out)
    (n n' : Bool) (h : s.updateLoop w us rets o n = .ok (s', o', n', rets')) : IdsSub s s' := by
  fun_induction State.updateLoop s w us rets o n <;>
    grind [taskFinished_sub, taskFailed_sub, taskRunning_stable, taskReject_stable, requestEnabled_tasks,
      IdsSub.refl, IdsSub.trans, IdsStable.sub, IdsStable.of_tasks]

theorem taskUpdate_sub {s s' : State} {w : Nat} {us : List Update} {rets : List (List TaskId)} {o : Out}
    (h : s.taskUpdate w us rets = .ok (s', o)) : IdsSub s s' := by
  simp only [State.taskUpdate] at h
  split at h
  · cases h
  · rename_i s1 out need rets' h1
    cases h
    have := updateLoop_sub _ _ _ _ _ _ _ _ _ _ h1
    split
    · exact this
    · exact this

theorem retractLoop_ids (ids : List TaskId) (s s' : State) (w : Nat) (acc acc' : List (Nat × TaskId × Nat))
    (h : s.retractLoop w ids acc = .ok (s', acc')) : taskIds s'.tasks = taskIds s.tasks := by
  fun_induction State.retractLoop s w ids acc <;> grind [setTask_ids]

theorem retractResponse_stable {s s' : State} {w : Nat} {ids : List TaskId} {o : Out}
    (h : s.retractResponse w ids = .ok (s', o)) : IdsStable s s' := by
  simp only [State.retractResponse] at h
  split at h
  · cases h
  · rename_i s1 items h1
    split at h
    · cases h
    · cases h; exact retractLoop_ids _ _ _ _ _ _ h1

theorem lostPrefilled_ids (ids : List TaskId) (s s' : State)
    (h : s.lostPrefilled ids = .ok s') : taskIds s'.tasks = taskIds s.tasks := by
  fun_induction State.lostPrefilled s ids <;> grind [setTask_ids, movePrefilledToReady_tasks]

theorem lostAssigned_ids (ids : List TaskId) (s s' : State) (ru ru' re re' : List TaskId)
    (h : s.lostAssigned ids ru re = .ok (s', ru', re')) : taskIds s'.tasks = taskIds s.tasks := by
  fun_induction State.lostAssigned s ids ru re <;> grind [setTask_ids, addReady_tasks]

theorem lostRetracting_ids (ts : List Task) (s s' : State) (w : Nat) (o o' : Out)
    (h : s.lostRetracting w ts o = .ok (s', o')) : taskIds s'.tasks = taskIds s.tasks := by
  fun_induction State.lostRetracting s w ts o <;> grind [setTask_ids]

theorem crashLoop_sub (ids : List TaskId) (s s' : State) (f : Bool) (rets : List (List TaskId)) (o o' : Out)
    (h : s.crashLoop f ids rets o = .ok (s', o')) : IdsSub s s' := by
  fun_induction State.crashLoop s f ids rets o <;>
    grind [setTask_stable, taskFailed_sub, IdsSub.refl, IdsSub.trans, IdsStable.sub]

theorem removeWorker_sub {s s' : State} {w : Nat} {reason : String} {f : Bool} {order : List TaskId}
    {rets : List (List TaskId)} {o : Out}
    (h : s.removeWorker w reason f order rets = .ok (s', o)) : IdsSub s s' := by
  simp only [State.removeWorker] at h
  split at h
  · cases h
  · rename_i wk hw
    split at h
    · cases h
    · rename_i s1 running retracted hp1
      have e1 : taskIds s1.tasks = taskIds s.tasks := by
        clear h
        have hlp := lostPrefilled_ids
        have hla := lostAssigned_ids
        have hrm := resetMnAll_tasks
        repeat' (split at hp1)
        all_goals grind [setTask_ids]
      split at h
      · cases h
      · rename_i s2 out1 h2
        have e2 := lostRetracting_ids _ _ _ _ _ _ h2
        split at h
        · cases h
        · rename_i s3 out2 h3
          have e3 : IdsStable s2 s3 := retract_stable h3
          split at h
          · cases h
          · rename_i s4 out h4
            cases h
            have e4 := crashLoop_sub _ _ _ _ _ _ _ h4
            unfold IdsSub IdsStable at *
            show (taskIds s4.tasks).Sublist (taskIds s.tasks)
            rw [← e1, ← e2, ← e3]; exact e4

/-! ### Sched.lean -/

/-- `placeSn` without the validation of the solver's resource row (the body that changes the state) -/
def State.placeSnBody (s : State) (m : List WUpdate) (v : Nat) (r : Rq) (id : TaskId) (w : Nat) : M (State × List WUpdate) :=
  match s.withWorker w (·.insertSn id r) with
  | .error e => .error e
  | .ok s1 =>
    match s1.getTask id with
    | .error e => .error e
    | .ok task =>
      match task.state with
      | .waiting _ =>
        .ok (s1.setTask { task with state := .assigned w v }, updAt m w fun u => { u with assigned := u.assigned ++ [(id, v)] })
      | .retracting old =>
        let prev := s1.redirects.find? (·.1 = id)
        let s2 := { s1 with redirects := (s1.redirects.filter (·.1 ≠ id)) ++ [(id, w, v)] }
        match prev with
        | some (_, oldTarget, ov) =>
          match s2.rq task.rq ov with
          | .error e => .error e
          | .ok r' =>
            match s2.withWorker oldTarget (·.removeSn id r') with
            | .error e => .error e
            | .ok s3 => .ok (s3.setTask { task with state := .retracting old }, m)
        | none => .ok (s2, m)
      | .prefilled old =>
        match s1.withWorker old (·.removePrefill id) with
        | .error e => .error e
        | .ok s2 =>
          if s2.redirects.any (·.1 = id) then .error (.panic "create_task_mapping.assert_no_redirect") else
          let s3 := { s2 with redirects := s2.redirects ++ [(id, w, v)] }
          .ok (s3.setTask { task with state := .retracting old },
               updAt m old fun u => { u with retracts := u.retracts ++ [id] })
      | _ => .error (.panic "create_task_mapping.unreachable")

/-- what the validation in `placeSn` establishes -/
def State.placeFits (s : State) (r : Rq) (w : Nat) : Prop :=
  ∀ wk A F P, s.worker? w = some wk → wk.assign = .sn A F P → fitsNow F wk.total r.entries = true

theorem placeSn_ok {s : State} {m : List WUpdate} {v : Nat} {r : Rq} {id : TaskId} {w : Nat} {x : State × List WUpdate}
    (h : s.placeSn m v r id w = .ok x) : s.placeSnBody m v r id w = .ok x ∧ s.placeFits r w := by
  unfold State.placeSn at h
  unfold State.placeSnBody State.placeFits
  split at h
  · rename_i wk hw
    cases ha : wk.assign with
    | sn A F P =>
      simp only [ha] at h
      split at h
      · cases h
      · rename_i hc
        refine ⟨h, ?_⟩
        intro wk' A' F' P' hw' ha'
        rw [hw] at hw'; cases hw'
        rw [ha] at ha'; cases ha'
        simpa using hc
    | mn t a b =>
      simp only [ha, Bool.false_eq_true, if_false] at h
      refine ⟨h, ?_⟩
      intro wk' A' F' P' hw' ha'
      rw [hw] at hw'; cases hw'
      rw [ha] at ha'; cases ha'
  · rename_i hw
    simp only [Bool.false_eq_true, if_false] at h
    refine ⟨h, ?_⟩
    intro wk' A' F' P' hw' ha'
    rw [hw] at hw'; cases hw'

theorem placeSnBody_stable {s s' : State} {m m' : List WUpdate} {v : Nat} {r : Rq} {id : TaskId} {w : Nat}
    (h : s.placeSnBody m v r id w = .ok (s', m')) : IdsStable s s' := by
  unfold IdsStable
  simp only [State.placeSnBody] at h
  repeat' (split at h)
  all_goals grind [setTask_ids]

theorem placeSn_stable {s s' : State} {m m' : List WUpdate} {v : Nat} {r : Rq} {id : TaskId} {w : Nat}
    (h : s.placeSn m v r id w = .ok (s', m')) : IdsStable s s' :=
  placeSnBody_stable (placeSn_ok h).1

theorem placeAll_ids (l : List (TaskId × Nat)) (s s' : State) (m m' : List WUpdate) (v : Nat) (r : Rq)
    (h : s.placeAll m v r l = .ok (s', m')) : taskIds s'.tasks = taskIds s.tasks := by
  have hp := @placeSn_stable
  unfold IdsStable at hp
  fun_induction State.placeAll s m v r l <;> grind

theorem mapSn_ids (es : List SnEntry) (s s' : State) (now : Nat) (m m' : List WUpdate)
    (h : s.mapSn now m es = .ok (s', m')) : taskIds s'.tasks = taskIds s.tasks := by
  have hp := placeAll_ids
  fun_induction State.mapSn s now m es <;> grind

theorem setMnAll_tasks (ws : List Nat) (s s' : State) (id : TaskId) (first : Bool)
    (h : setMnAll s id ws first = .ok s') : s'.tasks = s.tasks := by
  fun_induction setMnAll s id ws first <;> grind

theorem mapMnSets_ids (sets : List (List Nat)) (s s' : State) (rq : Nat) (acc acc' : List TaskId)
    (h : s.mapMnSets rq sets acc = .ok (s', acc')) : taskIds s'.tasks = taskIds s.tasks := by
  have hp := setMnAll_tasks
  fun_induction State.mapMnSets s rq sets acc <;> grind [setTask_ids]

theorem mapMn_ids (es : List MnEntry) (s s' : State) (acc acc' : List TaskId)
    (h : s.mapMn es acc = .ok (s', acc')) : taskIds s'.tasks = taskIds s.tasks := by
  have hp := mapMnSets_ids
  fun_induction State.mapMn s es acc <;> grind

theorem prefillBack_ids (rq : Nat) (l : List TaskId) (s s' : State) (keep keep' : List TaskId)
    (h : State.prefillWorker.back rq s l keep = .ok (s', keep')) : taskIds s'.tasks = taskIds s.tasks := by
  fun_induction State.prefillWorker.back rq s l keep <;> grind

theorem prefillMark_ids (w : Nat) (l : List TaskId) (s s' : State)
    (h : State.prefillWorker.mark w s l = .ok s') : taskIds s'.tasks = taskIds s.tasks := by
  fun_induction State.prefillWorker.mark w s l <;> grind [setTask_ids]

theorem prefillWorker_stable {s s' : State} {m m' : List WUpdate} {rq size w : Nat}
    (h : s.prefillWorker m rq size w = .ok (s', m')) : IdsStable s s' := by
  unfold IdsStable
  simp only [State.prefillWorker] at h
  have h1 := prefillBack_ids
  have h2 := prefillMark_ids
  repeat' (split at h)
  all_goals grind

theorem prefillWorkers_ids (ws : List Nat) (s s' : State) (m m' : List WUpdate) (rq size : Nat)
    (h : s.prefillWorkers m rq size ws = .ok (s', m')) : taskIds s'.tasks = taskIds s.tasks := by
  have hp := @prefillWorker_stable
  unfold IdsStable at hp
  fun_induction State.prefillWorkers s m rq size ws <;> grind

theorem proactive_ids (n : Nat) (s s' : State) (m m' : List WUpdate) (orders : List (Nat × List Nat)) (top : Int)
    (rq : Nat) (h : s.proactive m orders top n rq = .ok (s', m')) : taskIds s'.tasks = taskIds s.tasks := by
  have hp := prefillWorkers_ids
  fun_induction State.proactive s m orders top n rq <;> grind

theorem schedule_stable {s s' : State} {sol : Solution} {o : Out}
    (h : s.schedule sol = .ok (s', o)) : IdsStable s s' := by
  unfold IdsStable
  simp only [State.schedule] at h
  have h1 := mapSn_ids
  have h2 := mapMn_ids
  have h3 := proactive_ids
  repeat' (split at h)
  all_goals grind

/-! ### Run.lean -/

/-- **task ids stay unique** under every operation -/
theorem step_nodup {s s' : State} {op : Op} {out : Out} (hn : (taskIds s.tasks).Nodup)
    (h : step s op = .ok (s', out)) : (taskIds s'.tasks).Nodup := by
  cases op with
  | newWorker w => simp only [step, State.newWorker] at h; cases h; exact hn
  | removeWorker w reason f order rets => exact (removeWorker_sub h).nodup hn
  | newRq rqv => simp only [step] at h; cases h; exact hn
  | newTasks nts => exact newTasks_nodup hn h
  | cancel ids => exact (cancelTasks_sub h).nodup hn
  | update w us rets => exact (taskUpdate_sub h).nodup hn
  | retracted w ids => exact (retractResponse_stable h).sub.nodup hn
  | schedule sol => exact (schedule_stable h).sub.nodup hn

/-- a property preserved by every step holds after every run -/
theorem run_induction {P : State → Prop} (hstep : ∀ s s' op out, P s → step s op = .ok (s', out) → P s')
    (ops : List Op) : ∀ (s s' : State) (out : Out), P s → run s ops = .ok (s', out) → P s' := by
  induction ops with
  | nil => intro s s' out hp h; simp only [run] at h; cases h; exact hp
  | cons op rest ih =>
    intro s s' out hp h
    simp only [run] at h
    split at h
    · cases h
    · rename_i s1 o1 h1
      split at h
      · cases h
      · rename_i s2 o2 h2
        cases h
        exact ih _ _ _ (hstep _ _ _ _ hp h1) h2

theorem run_nodup_from {s s' : State} {ops : List Op} {out : Out} (hn : (taskIds s.tasks).Nodup)
    (h : run s ops = .ok (s', out)) : (taskIds s'.tasks).Nodup :=
  run_induction (P := fun s => (taskIds s.tasks).Nodup) (fun _ _ _ _ hp hs => step_nodup hp hs) ops _ _ _ hn h

/-- **`TasksNodup`**: in every state reachable from the empty core no two tasks have the same id -/
theorem run_nodup {s' : State} {ops : List Op} {out : Out}
    (h : run {} ops = .ok (s', out)) : (taskIds s'.tasks).Nodup :=
  run_nodup_from (s := {}) List.nodup_nil h

end HqModel.Core
