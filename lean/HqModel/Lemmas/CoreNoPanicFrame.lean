import HqModel.Lemmas.CoreNoPanicBase
/-!
C09 progress: PRESERVATION of the three components `NpW`, `NpIdx`, `NpMn` of `NpInv`.
Everything is in `namespace HqModel.Core.NPA`; nothing existing was edited.

## Method

One frame relation `Fr all s s'` between two states ("`s'` is reached from `s` by admissible moves") carries all
three components:

* `rqs`, `ql` : the request table and the number of queues are unchanged;
* `w : WFr s.workers s'.workers` : worker ids are a sublist; every worker record found in `s'` descends from the
  record found in `s` under the same id, with the same `total`, and keeps `FreeOk` (free vector as long as total);
* `t` : every task record of `s'` descends (`TK`) from a record of `s` with the same id and request such that
  `MnOkS` (shape of a RunningMultiNode list), `SnG` (single-node state ⇒ single-node request) and `HG all`
  (every held (worker, variant) is `IdxOk`) carry over from the ancestor (pointwise implications, so a function may
  justify a new state by the old record OR directly, e.g. by `RunIdx`, `placeFits`, `MnSetOk`).

`Fr all` is a preorder (`Fr.refl`, `Fr.trans`): it chains through every intermediate state of an operation, no
invariant is needed in between. Transfer: `Fr.npw`, `Fr.npidx` (from `Fr False`), `Fr.npidx'` (from `Fr True`),
`Fr.npmn`, `Fr.np3`, `Fr.np3'` (`Np3 s = NpW s ∧ NpIdx s ∧ NpMn s`).
The flag `all` (like `nw`/`cr` of `TRel`): `HG False` is exactly the clause `NpIdx.held`; `HG True` also covers
redirects of tasks that are not Retracting. `process_retracted` turns Prefilled into Retracting without looking at the
redirect table, so it is a frame only for `all = True`; `Fr.npidx'` then needs `RdRet s` (redirects exist only for
Retracting tasks; `Inv.rdRet`, `TWI.rdRet`) of the state THE FUNCTION IS APPLIED TO — nothing about intermediate states.
All other functions are `Fr all` for every `all`.

## Status (everything listed is proved, no gaps)

`CoreNoPanicFrame.lean` — vocabulary and primitive moves
* `WFr.refl/trans/put/filter`; `WOp f` (a worker-record operation keeps id, total, `FreeOk`):
  `wop_removeSn, wop_insertSn, wop_removePrefill, wop_insertPrefill, wop_prefilledToStarted, wop_setMn, wop_mnStarted,
  wop_unblock`; `freeOk_emptySn`
* `Fr.refl, Fr.trans, IdxOk.fr`, transfer lemmas (above), `Inv.rdRet`, `TWI.rdRet`
* moves: `Fr.of_tasks` (records keep id/rq/state or disappear), `Fr.of_same` (task list unchanged, redirects
  shrink, workers framed), `Fr.of_put` (one record replaced, general), `Fr.setTask`, `Fr.setFree` (→ Waiting/Finished),
  `Fr.setSame` (state kept)

`CoreNoPanicFrame2.lean` — `Model.lean`: `Fr.ask, withWorker_fr (WOp f), setWorker_fr, Fr.of_queues, addReady_fr,
  queueRemove_fr, removePrefilled_fr, movePrefilledToReady_fr, processRetracted_fr (Fr True), retract_fr (Fr True),
  tryRemoveRedirection_fr, removeConsumer(s)_rel / _fr, Fr.erase, removeTask_fr`

`CoreNoPanicFrame3.lean` — `Reactor.lean` 1: `resetMnAll_fr, cancelLoop_fr, removeTasksBatched_fr, cancelTasks_fr,
  removeWaitingAll_fr, taskFailed_fr, taskRunning_fr (hyp: RunIdx for a Prefilled/Retracting task),
  taskRunning_fr' (hyp: UpdNP), resetMnChecked_fr, wakeConsumers_fr, taskFinished_fr (Fr True), requeue_fr,
  resolve_fr (redirect resolved: Retracting → Assigned target), taskReject_fr (Fr True; incl. the multi-node arm of
  the F32 fix), requestEnabled_fr, updateState_fr (UpdNP; Fr True), updateLoop_fr (UpdatesOk UpdNP; Fr True),
  taskUpdate_fr, retractLoop_fr, retractResponse_fr`

`CoreNoPanicFrame4.lean` — `Reactor.lean` 2: `lostPrefilled_fr, lostAssigned_fr, lostRetracting_fr, crashLoop_fr,
  removeWorker_fr (Fr True)`

`CoreNoPanicFrame5.lean` — `Sched.lean` (`FrQ` = `Fr` + queue ids only shrink; `QRq s` = ids of queue `i` are tasks of
  request `i`, membership form: `QRq.of_queueOk`, `rq_of_good`, carried by `FrQ.qrq`):
  `Fr.addRd, idxOk_of_placeFits, placeSnBody_fr / placeSn_fr (hyps: NpW s, s.rq rq v = .ok r, isMultiNode rq = false,
  the task has request rq), placeAll_fr, mapSn1_fr, mapSn_fr (NpW s, QRq s, SnOk), setMnAll_fr, mapMnSets1_fr (MnSetOk),
  mapMnSets_fr (MnSetsOk), mapMn_fr (MnEntriesOk), prefillBack_fr, prefillMark_fr (isMultiNode rq = false, marked tasks
  have request rq), prefillWorker_fr / prefillWorkers_fr (QRq s, isMultiNode rq = false), isMultiNode_of_cands
  (NpMn s, MH s m, a candidate exists ⇒ single-node request), proactive_fr (Nodup ids, QRq s, NpMn s, MH s m),
  schedule_fr (Nodup ids, QRq s, NpW s, NpMn s, SolOk)`

`CoreNoPanicFrame6.lean` — operations outside the frame relation and the step theorems:
  `newWorker_npw (FreshWorker, worker? = none), newWorker_npidx (InvF: held ⇒ worker in the map), newWorker_npmn,
  newRq_npw/_npidx/_npmn (npmn needs NpIdx.rq), registerDeps_rel, np3_append, addNewTasks_np3 (requests exist),
  newTasks_np3 (Inv s, NewTasksOk)`, **`step_np3, step_npw, step_npidx, step_npmn`**

`CoreNoPanicFrame7.lean` — GENERATED per-function, per-component wrappers `<fn>_npw / <fn>_npidx / <fn>_npmn` for all
  functions of `Model.lean` / `Reactor.lean`, `<fn>_np3` for the functions of `Sched.lean`.

## Not done / remarks

* nothing of the task list is open. No clause of `NpW`, `NpIdx`, `NpMn` turned out not to be inductive.
* `taskRunning` / `updateState` / `updateLoop` / `taskUpdate` use only the `RunIdx` part of `UpdNP`.
* the `Sched.lean` lemmas take `QRq s` (not `QueueOk s`): it is what is needed, follows from `QueueOk s` and unique ids
  (`QRq.of_queueOk`), and is carried through the round by the lemmas themselves (`FrQ.qrq`), so it is only needed of the
  state the function is applied to; `proactive` additionally needs `MH s m` of `CoreMsgSched.lean` (carried by
  `prefillWorkers_s`) and unique ids.
-/
namespace HqModel.Core.NPA

open HqModel.Core.NP

/-! ### workers -/

/-- the free vector (if the worker is in a single-node assignment) is as long as the total vector -/
def FreeOk (wk : Worker) : Prop := ∀ A F P, wk.assign = .sn A F P → F.length = wk.total.length

/-- worker frame -/
structure WFr (ws ws' : List Worker) : Prop where
  ids : (ws'.map (·.id)).Sublist (ws.map (·.id))
  find : ∀ w wk', findWorker ws' w = some wk' →
    ∃ wk, findWorker ws w = some wk ∧ wk.total = wk'.total ∧ (FreeOk wk → FreeOk wk')

theorem WFr.refl (ws : List Worker) : WFr ws ws :=
  ⟨List.Sublist.refl _, fun _ wk' h => ⟨wk', h, rfl, fun h => h⟩⟩

theorem WFr.trans {a b c : List Worker} (h1 : WFr a b) (h2 : WFr b c) : WFr a c := by
  refine ⟨h2.ids.trans h1.ids, ?_⟩
  intro w wk'' h
  obtain ⟨wk', hf', e', f'⟩ := h2.find w wk'' h
  obtain ⟨wk, hf, e, f⟩ := h1.find w wk' hf'
  exact ⟨wk, hf, e.trans e', fun x => f' (f x)⟩

/-- one record replaced by a record with the same id and total that keeps `FreeOk` -/
theorem WFr.put {ws : List Worker} {wk wk' : Worker} (hf : findWorker ws wk'.id = some wk)
    (ht : wk'.total = wk.total) (hfree : FreeOk wk → FreeOk wk') : WFr ws (putWorker ws wk') := by
  refine ⟨by rw [putWorker_ids]; exact List.Sublist.refl _, ?_⟩
  intro w x hx
  rw [findWorker_putWorker] at hx
  split at hx
  · rename_i e
    subst e
    rw [hf] at hx
    simp only [Option.map_some, Option.some.injEq] at hx
    subst hx
    exact ⟨wk, hf, ht.symm, hfree⟩
  · exact ⟨x, hx, rfl, fun h => h⟩

theorem WFr.filter (ws : List Worker) (w : Nat) : WFr ws (ws.filter (·.id ≠ w)) := by
  refine ⟨List.Sublist.map _ List.filter_sublist, ?_⟩
  intro x wk' hx
  rw [findWorker_filter] at hx
  split at hx
  · cases hx
  · exact ⟨wk', hx, rfl, fun h => h⟩

theorem findWorker_none_of_not_mem {ws : List Worker} {w : Nat} (h : w ∉ ws.map (·.id)) : findWorker ws w = none := by
  induction ws with
  | nil => rfl
  | cons y ys ih =>
    simp only [List.map_cons, List.mem_cons, not_or] at h
    have : ¬ y.id = w := fun e => h.1 e.symm
    simp only [findWorker, this, if_false]
    exact ih h.2

theorem not_mem_of_findWorker_none {ws : List Worker} {w : Nat} (h : findWorker ws w = none) : w ∉ ws.map (·.id) := by
  induction ws with
  | nil => simp
  | cons y ys ih =>
    simp only [findWorker] at h
    split at h
    · cases h
    · rename_i hy
      simp only [List.map_cons, List.mem_cons, not_or]
      exact ⟨fun e => hy e.symm, ih h⟩

/-- worker-record operations that keep id, total and `FreeOk` -/
def WOp (f : Worker → M Worker) : Prop :=
  ∀ wk wk', f wk = .ok wk' → wk'.id = wk.id ∧ wk'.total = wk.total ∧ (FreeOk wk → FreeOk wk')

theorem wop_removeSn (t : TaskId) (r : Rq) : WOp (·.removeSn t r) := by
  intro wk wk' h
  obtain ⟨A, F, P, F', ha, hf, _, rfl⟩ := removeSn_spec h
  refine ⟨rfl, rfl, ?_⟩
  intro hfo A' F'' P' e
  simp only [Assign.sn.injEq] at e
  obtain ⟨_, rfl, _⟩ := e
  rw [freeAdd_length hf]; exact hfo A F P ha

theorem wop_insertSn (t : TaskId) (r : Rq) : WOp (·.insertSn t r) := by
  intro wk wk' h
  obtain ⟨A, F, P, F', ha, hf, _, rfl⟩ := insertSn_spec h
  refine ⟨rfl, rfl, ?_⟩
  intro hfo A' F'' P' e
  simp only [Assign.sn.injEq] at e
  obtain ⟨_, rfl, _⟩ := e
  rw [freeRemove_length hf]; exact hfo A F P ha

theorem wop_removePrefill (t : TaskId) : WOp (·.removePrefill t) := by
  intro wk wk' h
  obtain ⟨A, F, P, ha, _, rfl⟩ := removePrefill_spec h
  refine ⟨rfl, rfl, ?_⟩
  intro hfo A' F'' P' e
  simp only [Assign.sn.injEq] at e
  obtain ⟨_, rfl, _⟩ := e
  exact hfo A F P ha

theorem wop_insertPrefill (t : TaskId) : WOp (·.insertPrefill t) := by
  intro wk wk' h
  obtain ⟨A, F, P, ha, _, rfl⟩ := insertPrefill_spec h
  refine ⟨rfl, rfl, ?_⟩
  intro hfo A' F'' P' e
  simp only [Assign.sn.injEq] at e
  obtain ⟨_, rfl, _⟩ := e
  exact hfo A F P ha

theorem wop_prefilledToStarted (t : TaskId) (r : Rq) : WOp (·.prefilledToStarted t r) := by
  intro wk wk' h
  obtain ⟨A, F, P, F', ha, hf, _, _, rfl⟩ := prefilledToStarted_spec h
  refine ⟨rfl, rfl, ?_⟩
  intro hfo A' F'' P' e
  simp only [Assign.sn.injEq] at e
  obtain ⟨_, rfl, _⟩ := e
  rw [freeRemove_length hf]; exact hfo A F P ha

theorem wop_setMn (t : TaskId) (root : Bool) : WOp (·.setMn t root) := by
  intro wk wk' h
  obtain ⟨_, rfl⟩ := setMn_spec h
  exact ⟨rfl, rfl, fun _ A F P e => by cases e⟩

/-- the `started` flag of `task_running` -/
theorem wop_mnStarted : WOp (fun wk => match wk.assign with
    | .mn t r _ => (.ok { wk with assign := .mn t r true } : M Worker)
    | _ => .ok wk) := by
  intro wk wk' h
  simp only at h
  split at h
  · cases h; exact ⟨rfl, rfl, fun _ A F P e => by cases e⟩
  · cases h; exact ⟨rfl, rfl, fun h => h⟩

/-- `request_enabled` -/
theorem wop_unblock (rq rv : Nat) : WOp (fun wk => (.ok { wk with blocked := wk.blocked.erase (rq, rv) } : M Worker)) := by
  intro wk wk' h
  cases h; exact ⟨rfl, rfl, fun h => h⟩

theorem freeOk_emptySn (wk : Worker) : FreeOk wk.emptySn := by
  intro A F P e
  simp only [Worker.emptySn, Assign.sn.injEq] at e
  obtain ⟨_, rfl, _⟩ := e
  rfl

/-! ### tasks -/

/-- shape of a RunningMultiNode worker list -/
def MnOkS (st : TS) : Prop := ∀ ws, st = .runningMN ws → ws ≠ [] ∧ ws.Nodup

/-- `HeldT` on (id, state) -/
def HeldS (rd : List (TaskId × Nat × Nat)) (id : TaskId) (st : TS) (w v : Nat) : Prop :=
  st = .assigned w v ∨ st = .running w v ∨ ((∃ w0, st = .retracting w0) ∧ (id, w, v) ∈ rd)

theorem heldT_iff {rd : List (TaskId × Nat × Nat)} {t : Task} {w v : Nat} :
    HeldT rd t w v ↔ HeldS rd t.id t.state w v := Iff.rfl

/-- held, or (flag `all`) named by a redirect whatever the state is -/
def Held (all : Prop) (rd : List (TaskId × Nat × Nat)) (id : TaskId) (st : TS) (w v : Nat) : Prop :=
  HeldS rd id st w v ∨ (all ∧ (id, w, v) ∈ rd)

/-- every held (worker, variant) of the record is index-correct -/
def HG (all : Prop) (s : State) (t : Task) : Prop :=
  ∀ w v, Held all s.redirects t.id t.state w v → IdxOk s w t.rq v

/-- single-node state ⇒ single-node request -/
def SnG (s : State) (t : Task) : Prop := snState t.state → s.isMultiNode t.rq = false

/-- how one task record descends from another -/
structure TK (all : Prop) (s s' : State) (t t' : Task) : Prop where
  rq : t'.rq = t.rq
  id : t'.id = t.id
  mn : MnOkS t.state → MnOkS t'.state
  sn : SnG s t → SnG s' t'
  hg : HG all s t → HG all s' t'

/-- **the frame relation** -/
structure Fr (all : Prop) (s s' : State) : Prop where
  rqs : s'.rqs = s.rqs
  ql : s'.queues.length = s.queues.length
  w : WFr s.workers s'.workers
  t : ∀ t' ∈ s'.tasks, ∃ t ∈ s.tasks, TK all s s' t t'

theorem TK.refl (all : Prop) (s : State) (t : Task) : TK all s s t t := ⟨rfl, rfl, fun h => h, fun h => h, fun h => h⟩

theorem TK.trans {all : Prop} {a b c : State} {x y z : Task} (h1 : TK all a b x y) (h2 : TK all b c y z) :
    TK all a c x z :=
  ⟨h2.rq.trans h1.rq, h2.id.trans h1.id, fun h => h2.mn (h1.mn h), fun h => h2.sn (h1.sn h), fun h => h2.hg (h1.hg h)⟩

theorem Fr.refl (all : Prop) (s : State) : Fr all s s :=
  ⟨rfl, rfl, WFr.refl _, fun t ht => ⟨t, ht, TK.refl all s t⟩⟩

theorem Fr.trans {all : Prop} {a b c : State} (h1 : Fr all a b) (h2 : Fr all b c) : Fr all a c := by
  refine ⟨h2.rqs.trans h1.rqs, h2.ql.trans h1.ql, h1.w.trans h2.w, ?_⟩
  intro z hz
  obtain ⟨y, hy, r2⟩ := h2.t z hz
  obtain ⟨x, hx, r1⟩ := h1.t y hy
  exact ⟨x, hx, r1.trans r2⟩

/-! ### `IdxOk` along a frame -/

theorem rq_congr {s s' : State} (h : s'.rqs = s.rqs) (rq v : Nat) : s'.rq rq v = s.rq rq v := by
  simp only [State.rq, h]

theorem isMultiNode_congr {s s' : State} (h : s'.rqs = s.rqs) (rq : Nat) : s'.isMultiNode rq = s.isMultiNode rq := by
  simp only [State.isMultiNode, h]

theorem IdxOk.fr {s s' : State} {w rq v : Nat} (hr : s'.rqs = s.rqs) (hw : WFr s.workers s'.workers)
    (h : IdxOk s w rq v) : IdxOk s' w rq v := by
  obtain ⟨r, h1, h2⟩ := h.elim
  refine IdxOk.intro (r := r) (by rw [rq_congr hr]; exact h1) ?_
  intro wk' hwk' e he
  obtain ⟨wk, hf, ht, _⟩ := hw.find w wk' hwk'
  rw [← ht]; exact h2 wk hf e he

/-! ### transfer -/

theorem Fr.npw {all : Prop} {s s' : State} (h : Fr all s s') (hn : NpW s) : NpW s' := by
  have hnd : (s'.workers.map (·.id)).Nodup := h.w.ids.nodup hn.nd
  refine ⟨hnd, ?_⟩
  intro wk' hwk'
  obtain ⟨wk, hf, _, hfo⟩ := h.w.find wk'.id wk' (findWorker_of_mem hnd hwk')
  exact hfo (hn.free wk (findWorker_some_mem hf))

theorem Fr.npmn {all : Prop} {s s' : State} (h : Fr all s s') (hn : NpMn s) : NpMn s' := by
  refine ⟨?_, ?_⟩
  · intro t' ht'
    obtain ⟨t, ht, r⟩ := h.t t' ht'
    exact r.mn (hn.ne t ht)
  · intro t' ht'
    obtain ⟨t, ht, r⟩ := h.t t' ht'
    exact r.sn (hn.sn t ht)

/-- redirects exist only for Retracting tasks (membership form of `LS3.d1` / `TW3.d0`) -/
def RdRet (s : State) : Prop :=
  ∀ x ∈ s.redirects, ∀ t ∈ s.tasks, t.id = x.1 → ∃ w0, t.state = .retracting w0

theorem hg_of_held {s : State} {t : Task} (h : ∀ w v, HeldT s.redirects t w v → IdxOk s w t.rq v) : HG False s t := by
  intro w v hh
  rcases hh with hh | ⟨f, _⟩
  · exact h w v hh
  · exact f.elim

theorem hg_of_held' {s : State} {t : Task} (hr : RdRet s) (ht : t ∈ s.tasks)
    (h : ∀ w v, HeldT s.redirects t w v → IdxOk s w t.rq v) : HG True s t := by
  intro w v hh
  rcases hh with hh | ⟨_, hm⟩
  · exact h w v hh
  · exact h w v (Or.inr (Or.inr ⟨hr _ hm t ht rfl, hm⟩))

theorem HG.held {all : Prop} {s : State} {t : Task} (h : HG all s t) :
    ∀ w v, HeldT s.redirects t w v → IdxOk s w t.rq v := fun w v hh => h w v (Or.inl hh)

theorem Fr.npidx_core {all : Prop} {s s' : State} (h : Fr all s s') (hn : NpIdx s)
    (hg : ∀ t ∈ s.tasks, HG all s t) : NpIdx s' := by
  refine ⟨by rw [h.ql, h.rqs]; exact hn.ql, ?_, ?_⟩
  · intro t' ht'
    obtain ⟨t, ht, r⟩ := h.t t' ht'
    rw [r.rq, h.rqs]; exact hn.rq t ht
  · intro t' ht'
    obtain ⟨t, ht, r⟩ := h.t t' ht'
    exact (r.hg (hg t ht)).held

/-- transfer of `NpIdx` along a plain frame -/
theorem Fr.npidx {s s' : State} (h : Fr False s s') (hn : NpIdx s) : NpIdx s' :=
  h.npidx_core hn (fun t ht => hg_of_held (hn.held t ht))

/-- transfer of `NpIdx` along a frame that contains `process_retracted` -/
theorem Fr.npidx' {s s' : State} (h : Fr True s s') (hr : RdRet s) (hn : NpIdx s) : NpIdx s' :=
  h.npidx_core hn (fun t ht => hg_of_held' hr ht (hn.held t ht))

theorem _root_.HqModel.Core.Inv.rdRet {s : State} (hi : Inv s) : RdRet s := by
  intro x hx t ht hid
  obtain ⟨a, w, v⟩ := x
  obtain ⟨w0, h0⟩ := hi.ls.d1 a w v hx
  have := mem_find_of_nodup hi.nd ht
  simp only at hid
  rw [hid] at this
  rw [stOf_of_find this] at h0
  exact ⟨w0, by simpa using h0⟩

theorem _root_.HqModel.Core.TWI.rdRet {D : TaskId → Prop} {s : State} (hi : TWI D s) (hn : (taskIds s.tasks).Nodup) :
    RdRet s := by
  intro x hx t ht hid
  obtain ⟨a, w, v⟩ := x
  obtain ⟨w0, h0⟩ := hi.tw.d0 a w v hx
  have := mem_find_of_nodup hn ht
  simp only at hid
  rw [hid] at this
  rw [stOf_of_find this] at h0
  exact ⟨w0, by simpa using h0⟩

/-- all three components at once -/
def Np3 (s : State) : Prop := NpW s ∧ NpIdx s ∧ NpMn s

theorem Fr.np3 {s s' : State} (h : Fr False s s') (hn : Np3 s) : Np3 s' :=
  ⟨h.npw hn.1, h.npidx hn.2.1, h.npmn hn.2.2⟩

theorem Fr.np3' {s s' : State} (h : Fr True s s') (hr : RdRet s) (hn : Np3 s) : Np3 s' :=
  ⟨h.npw hn.1, h.npidx' hr hn.2.1, h.npmn hn.2.2⟩

/-! ### primitive moves -/

theorem HeldS.mono {rd rd' : List (TaskId × Nat × Nat)} (hrd : ∀ x ∈ rd', x ∈ rd) {id : TaskId} {st : TS} {w v : Nat}
    (h : HeldS rd' id st w v) : HeldS rd id st w v := by
  rcases h with h | h | ⟨h1, h2⟩
  · exact Or.inl h
  · exact Or.inr (Or.inl h)
  · exact Or.inr (Or.inr ⟨h1, hrd _ h2⟩)

theorem Held.mono {all : Prop} {rd rd' : List (TaskId × Nat × Nat)} (hrd : ∀ x ∈ rd', x ∈ rd) {id : TaskId} {st : TS}
    {w v : Nat} (h : Held all rd' id st w v) : Held all rd id st w v := by
  rcases h with h | ⟨a, h⟩
  · exact Or.inl (h.mono hrd)
  · exact Or.inr ⟨a, hrd _ h⟩

/-- a record with the same id, request and state, in a state with the same requests, framed workers and fewer
redirects -/
theorem TK.of_eq {all : Prop} {s s' : State} {t t' : Task} (hrqs : s'.rqs = s.rqs) (hw : WFr s.workers s'.workers)
    (hrd : ∀ x ∈ s'.redirects, x ∈ s.redirects) (hid : t'.id = t.id) (hrq : t'.rq = t.rq) (hst : t'.state = t.state) :
    TK all s s' t t' := by
  refine ⟨hrq, hid, by rw [hst]; exact fun h => h, ?_, ?_⟩
  · intro h hs
    rw [hst] at hs
    rw [isMultiNode_congr hrqs, hrq]; exact h hs
  · intro h w v hh
    rw [hid, hst] at hh
    rw [hrq]
    exact IdxOk.fr hrqs hw (h w v (hh.mono hrd))

/-- the task list changes only in fields other than id / request / state, or loses records -/
theorem Fr.of_tasks {all : Prop} {s s' : State} (hrqs : s'.rqs = s.rqs) (hql : s'.queues.length = s.queues.length)
    (hw : WFr s.workers s'.workers) (hrd : ∀ x ∈ s'.redirects, x ∈ s.redirects)
    (ht : ∀ t' ∈ s'.tasks, ∃ t ∈ s.tasks, t'.id = t.id ∧ t'.rq = t.rq ∧ t'.state = t.state) : Fr all s s' := by
  refine ⟨hrqs, hql, hw, ?_⟩
  intro t' ht'
  obtain ⟨t, hm, a, b, c⟩ := ht t' ht'
  exact ⟨t, hm, TK.of_eq hrqs hw hrd a b c⟩

/-- the task list is unchanged -/
theorem Fr.of_same {all : Prop} {s s' : State} (hrqs : s'.rqs = s.rqs) (hql : s'.queues.length = s.queues.length)
    (hw : WFr s.workers s'.workers) (hrd : ∀ x ∈ s'.redirects, x ∈ s.redirects) (ht : s'.tasks = s.tasks) :
    Fr all s s' :=
  Fr.of_tasks hrqs hql hw hrd (fun t' h => ⟨t', by rw [← ht]; exact h, rfl, rfl, rfl⟩)

/-- **one record replaced** (`told` ↦ `tn`), redirects shrink: the new state of the record is justified by the old
one (`Held … told`) or directly (`IdxOk`, single-node request) -/
theorem Fr.of_put {all : Prop} {s s' : State} {told tn : Task} (hrqs : s'.rqs = s.rqs)
    (hql : s'.queues.length = s.queues.length) (hw : WFr s.workers s'.workers)
    (hts : s'.tasks = putTask s.tasks tn) (hrd : ∀ x ∈ s'.redirects, x ∈ s.redirects)
    (hf : told ∈ s.tasks) (hid : tn.id = told.id) (hrq : tn.rq = told.rq)
    (hmn : MnOkS told.state → MnOkS tn.state)
    (hsn : snState tn.state → snState told.state ∨ s.isMultiNode told.rq = false)
    (hh : ∀ w v, HeldS s'.redirects tn.id tn.state w v →
      Held all s.redirects told.id told.state w v ∨ IdxOk s w told.rq v) : Fr all s s' := by
  refine ⟨hrqs, hql, hw, ?_⟩
  intro t' ht'
  rw [hts] at ht'
  rcases mem_putTask ht' with e | e
  · subst e
    refine ⟨told, hf, hrq, hid, hmn, ?_, ?_⟩
    · intro h hs
      rw [isMultiNode_congr hrqs, hrq]
      rcases hsn hs with h1 | h1
      · exact h h1
      · exact h1
    · intro h w v hx
      rw [hrq]
      have : Held all s.redirects told.id told.state w v ∨ IdxOk s w told.rq v := by
        rcases hx with hx | ⟨a, hx⟩
        · exact hh w v hx
        · exact Or.inl (Or.inr ⟨a, by rw [← hid]; exact hrd _ hx⟩)
      rcases this with h1 | h1
      · exact IdxOk.fr hrqs hw (h w v h1)
      · exact IdxOk.fr hrqs hw h1
  · exact ⟨t', e, TK.of_eq hrqs hw hrd rfl rfl rfl⟩

/-- `setTask` of a record whose state is justified by the old record -/
theorem Fr.setTask {all : Prop} {s : State} {told tn : Task} {id : TaskId} (hf : findTask s.tasks id = some told)
    (hid : tn.id = told.id) (hrq : tn.rq = told.rq)
    (hmn : MnOkS told.state → MnOkS tn.state)
    (hsn : snState tn.state → snState told.state ∨ s.isMultiNode told.rq = false)
    (hh : ∀ w v, HeldS s.redirects tn.id tn.state w v →
      Held all s.redirects told.id told.state w v ∨ IdxOk s w told.rq v) : Fr all s (s.setTask tn) :=
  Fr.of_put rfl rfl (WFr.refl _) rfl (fun _ h => h) (findTask_some_mem hf) hid hrq hmn hsn hh

/-! #### frequent state changes -/

theorem mnOkS_of_not_mn {st st' : TS} (h : ∀ ws, st' ≠ .runningMN ws) : MnOkS st → MnOkS st' :=
  fun _ ws e => absurd e (h ws)

/-- to Waiting / Finished: nothing is held afterwards -/
theorem Fr.setFree {all : Prop} {s : State} {told tn : Task} {id : TaskId} (hf : findTask s.tasks id = some told)
    (hid : tn.id = told.id) (hrq : tn.rq = told.rq) (hst : (∃ n, tn.state = .waiting n) ∨ tn.state = .finished) :
    Fr all s (s.setTask tn) := by
  refine Fr.setTask hf hid hrq ?_ ?_ ?_
  · refine mnOkS_of_not_mn ?_
    rcases hst with ⟨n, e⟩ | e <;> rw [e] <;> intro ws h <;> cases h
  · rcases hst with ⟨n, e⟩ | e <;> rw [e] <;> intro h <;> exact h.elim
  · intro w v h
    rcases hst with ⟨n, e⟩ | e <;> rw [e] at h <;> rcases h with h | h | ⟨⟨_, h⟩, _⟩ <;> cases h

/-- the state is kept (instance id, crash counter, consumers … change) -/
theorem Fr.setSame {all : Prop} {s : State} {told tn : Task} {id : TaskId} (hf : findTask s.tasks id = some told)
    (hid : tn.id = told.id) (hrq : tn.rq = told.rq) (hst : tn.state = told.state) : Fr all s (s.setTask tn) := by
  refine Fr.setTask hf hid hrq (by rw [hst]; exact fun h => h) (by rw [hst]; exact fun h => Or.inl h) ?_
  intro w v h
  rw [hid, hst] at h
  exact Or.inl (Or.inl h)

end HqModel.Core.NPA
